package l4tls

// C07 engine: three-way differential for the TLS matcher's ClientHello parser.
//
//   (a) crypto/tls SERVER: the tls.ClientHelloInfo handed to GetConfigForClient when the server is
//       fed the record,
//   (b) the real matcher: parseRawClientHello's fields (white-box), MatchTLS.Match's verdict and
//       placeholders through the public path, the sni/alpn sub-matchers,
//   (c) the Coq model (coq/corr/C07Corr.v re-parses the same bytes and compares with (b)).
//
// Hellos come from crypto/tls CLIENTS over generated configurations (captured from the client's
// first write), then byte-level mutations.  The oracle is (a) vs (b) on canonical values (nil and
// empty slices are equal), for every hello the crypto/tls server accepts.

import (
	"bytes"
	"net/netip"
	"unicode"
	"context"
	"encoding/json"
	"sync"
	"crypto/ecdsa"
	"crypto/elliptic"
	"crypto/rand"
	"crypto/tls"
	"crypto/x509"
	"crypto/x509/pkix"
	"errors"
	"fmt"
	"io"
	"math/big"
	"net"
	"sort"
	"strings"
	"testing"
	"time"

	"github.com/caddyserver/caddy/v2"
	"github.com/caddyserver/caddy/v2/modules/caddytls"
	"go.uber.org/zap"

	"github.com/mholt/caddy-l4/layer4"
)

// ---------------------------------------------------------------- scripted connection
type vC07Conn struct {
	in  *bytes.Reader
	out bytes.Buffer
}

func (c *vC07Conn) Read(p []byte) (int, error) {
	if c.in == nil {
		return 0, io.EOF
	}
	return c.in.Read(p)
}
func (c *vC07Conn) Write(p []byte) (int, error)      { c.out.Write(p); return len(p), nil }
func (c *vC07Conn) Close() error                     { return nil }
func (c *vC07Conn) LocalAddr() net.Addr              { return &net.TCPAddr{IP: net.IPv4(127, 0, 0, 1), Port: 443} }
func (c *vC07Conn) RemoteAddr() net.Addr             { return &net.TCPAddr{IP: net.IPv4(127, 0, 0, 1), Port: 50000} }
func (c *vC07Conn) SetDeadline(time.Time) error      { return nil }
func (c *vC07Conn) SetReadDeadline(time.Time) error  { return nil }
func (c *vC07Conn) SetWriteDeadline(time.Time) error { return nil }

// ---------------------------------------------------------------- harness-side hello structure
type vExt struct {
	typ  uint16
	data []byte
}
type vHello struct {
	recVer  uint16
	msgType byte
	legacy  uint16
	random  []byte
	sid     []byte
	suites  []uint16
	comp    []byte
	hasExts bool
	exts    []vExt
	// set by "rejected" mutations: raw handshake body override (after the 4-byte header)
	bodyOverride []byte
}

func vU16(b []byte) uint16 { return uint16(b[0])<<8 | uint16(b[1]) }
func vP16(v uint16) []byte { return []byte{byte(v >> 8), byte(v)} }
func vVec(w int, body []byte) []byte {
	out := make([]byte, 0, w+len(body))
	for i := w - 1; i >= 0; i-- {
		out = append(out, byte(len(body)>>(8*uint(i))))
	}
	return append(out, body...)
}
func vU16s(l []uint16) []byte {
	var out []byte
	for _, v := range l {
		out = append(out, vP16(v)...)
	}
	return out
}

// strict parser for what crypto/tls clients write (harness only; not the oracle)
func vParseRecord(rec []byte) (*vHello, error) {
	if len(rec) < 5 || rec[0] != 0x16 {
		return nil, errors.New("not a handshake record")
	}
	n := int(vU16(rec[3:5]))
	if len(rec) < 5+n {
		return nil, errors.New("short record")
	}
	h := &vHello{recVer: vU16(rec[1:3])}
	b := rec[5 : 5+n]
	if len(b) < 4+2+32+1 {
		return nil, errors.New("short hello")
	}
	h.msgType = b[0]
	ml := int(b[1])<<16 | int(b[2])<<8 | int(b[3])
	if ml != len(b)-4 {
		return nil, errors.New("hello spans records")
	}
	b = b[4:]
	h.legacy = vU16(b)
	h.random = append([]byte{}, b[2:34]...)
	b = b[34:]
	take := func(w int) ([]byte, error) {
		if len(b) < w {
			return nil, errors.New("short length")
		}
		l := 0
		for i := 0; i < w; i++ {
			l = l<<8 | int(b[i])
		}
		if len(b) < w+l {
			return nil, errors.New("short vector")
		}
		v := append([]byte{}, b[w:w+l]...)
		b = b[w+l:]
		return v, nil
	}
	var err error
	if h.sid, err = take(1); err != nil {
		return nil, err
	}
	cs, err := take(2)
	if err != nil || len(cs)%2 != 0 {
		return nil, errors.New("suites")
	}
	for i := 0; i < len(cs); i += 2 {
		h.suites = append(h.suites, vU16(cs[i:]))
	}
	if h.comp, err = take(1); err != nil {
		return nil, err
	}
	if len(b) == 0 {
		return h, nil
	}
	h.hasExts = true
	eb, err := take(2)
	if err != nil || len(b) != 0 {
		return nil, errors.New("extensions")
	}
	b = eb
	for len(b) > 0 {
		if len(b) < 2 {
			return nil, errors.New("ext type")
		}
		t := vU16(b)
		b = b[2:]
		d, err := take(2)
		if err != nil {
			return nil, err
		}
		h.exts = append(h.exts, vExt{t, d})
	}
	return h, nil
}

func (h *vHello) body() []byte {
	if h.bodyOverride != nil {
		return h.bodyOverride
	}
	var b []byte
	b = append(b, vP16(h.legacy)...)
	b = append(b, h.random...)
	b = append(b, vVec(1, h.sid)...)
	b = append(b, vVec(2, vU16s(h.suites))...)
	b = append(b, vVec(1, h.comp)...)
	if h.hasExts {
		var eb []byte
		for _, e := range h.exts {
			eb = append(eb, vP16(e.typ)...)
			eb = append(eb, vVec(2, e.data)...)
		}
		b = append(b, vVec(2, eb)...)
	}
	return b
}

func (h *vHello) handshake() []byte {
	b := h.body()
	return append([]byte{h.msgType, byte(len(b) >> 16), byte(len(b) >> 8), byte(len(b))}, b...)
}

func (h *vHello) record() []byte {
	hs := h.handshake()
	return append(append([]byte{0x16}, vP16(h.recVer)...), vVec(2, hs)...)
}

func (h *vHello) find(t uint16) int {
	for i, e := range h.exts {
		if e.typ == t {
			return i
		}
	}
	return -1
}

// insert before a trailing pre_shared_key
func (h *vHello) insert(r *vRng, e vExt) {
	h.hasExts = true
	n := len(h.exts)
	if n > 0 && h.exts[n-1].typ == 41 {
		n--
	}
	pos := r.Intn(n + 1)
	h.exts = append(h.exts, vExt{})
	copy(h.exts[pos+1:], h.exts[pos:])
	h.exts[pos] = e
}

func (h *vHello) set(r *vRng, t uint16, data []byte) {
	if i := h.find(t); i >= 0 {
		h.exts[i].data = data
		return
	}
	h.insert(r, vExt{t, data})
}

func (h *vHello) remove(t uint16) {
	if i := h.find(t); i >= 0 {
		h.exts = append(h.exts[:i:i], h.exts[i+1:]...)
	}
}

// determinise replaces the opaque values that crypto/tls draws from its entropy source or derives
// from earlier handshakes (random, session id, key shares, ticket, PSK identities and binders) by
// bytes of the engine's PRNG, keeping every length; neither side interprets them.
func (h *vHello) determinise(r *vRng) {
	h.random = r.Bytes(len(h.random))
	h.sid = r.Bytes(len(h.sid))
	for i := range h.exts {
		e := &h.exts[i]
		switch e.typ {
		case 35:
			e.data = r.Bytes(len(e.data))
		case 51:
			d := e.data
			if len(d) < 2 {
				continue
			}
			out := append([]byte{}, d[:2]...)
			d = d[2:]
			for len(d) >= 4 {
				l := int(vU16(d[2:4]))
				if len(d) < 4+l {
					break
				}
				out = append(out, d[:4]...)
				out = append(out, r.Bytes(l)...)
				d = d[4+l:]
			}
			out = append(out, d...)
			e.data = out
		case 41:
			d := e.data
			if len(d) < 2 {
				continue
			}
			il := int(vU16(d))
			if len(d) < 2+il+2 {
				continue
			}
			ids := d[2 : 2+il]
			out := append([]byte{}, d[:2]...)
			for len(ids) >= 2 {
				l := int(vU16(ids))
				if len(ids) < 2+l+4 {
					break
				}
				out = append(out, ids[:2]...)
				out = append(out, r.Bytes(l)...)
				out = append(out, r.Bytes(4)...)
				ids = ids[2+l+4:]
			}
			out = append(out, ids...)
			bs := d[2+il:]
			out = append(out, bs[:2]...)
			bs = bs[2:]
			for len(bs) >= 1 {
				l := int(bs[0])
				if len(bs) < 1+l {
					break
				}
				out = append(out, bs[0])
				out = append(out, r.Bytes(l)...)
				bs = bs[1+l:]
			}
			out = append(out, bs...)
			e.data = out
		}
	}
}

func (h *vHello) extSig() string {
	ts := make([]string, len(h.exts))
	for i, e := range h.exts {
		ts[i] = fmt.Sprint(e.typ)
	}
	return strings.Join(ts, ",")
}

// ---------------------------------------------------------------- client configurations
var vC07Names = []string{
	"", "example.com", "a.b.c.example.org", "EXAMPLE.com", "localhost", "xn--bcher-kva.example",
	"192.0.2.1", "[::1]", "2001:db8::1", "fe80::1%eth0", "example.com.", "example.com..", "*.example.com",
	"_dmarc.example.net", "x", "a-very-long-label-aaaaaaaaaaaaaaaaaaaaaaaaaaaaaaaaaaaaaaaaaaaaaaaaaaaa.example",
	"caf\xc3\xa9.example", "sub.Example.COM.", "127.0.0.1.", "1.2.3.4.5", "name with space.example",
	"xn--80akhbyknj4f.xn--p1ai", "0.example", "a.b.c.d.e.f.g.h.i.j.k.l.m.n.o.p.q.r.s.t.u.v.w.x.y.z.example", "::ffff:192.0.2.7", "[2001:db8::2]",
	"ex\x00ample.com", ".", "..", ".leading.example", "1e3.example", "255.255.255.255", "256.1.1.1",
	strings.Repeat("a.", 126) + "b", strings.Repeat("x", 63) + "." + strings.Repeat("y", 63) + "." + strings.Repeat("z", 63) + "." + strings.Repeat("w", 61),
}

var vC07Versions = []uint16{0, tls.VersionTLS10, tls.VersionTLS11, tls.VersionTLS12, tls.VersionTLS13}

func vC07AllSuites() []uint16 {
	var ids []uint16
	for _, s := range tls.CipherSuites() {
		ids = append(ids, s.ID)
	}
	for _, s := range tls.InsecureCipherSuites() {
		ids = append(ids, s.ID)
	}
	return ids
}

type vC07Cfg struct {
	name     string
	protos   []string
	min, max uint16
	suites   []uint16
	curves   []tls.CurveID
	noTicket bool
	resume   int // 0 none, 12, 13
	reneg    tls.RenegotiationSupport
	ems      bool // extended master secret offered (GODEBUG tlsunsafeekm has no effect on the hello; kept for the record)
}

func (c vC07Cfg) String() string {
	return fmt.Sprintf("name=%q alpn=%q min=%#x max=%#x suites=%v curves=%v noticket=%v resume=%d reneg=%d",
		c.name, c.protos, c.min, c.max, c.suites, c.curves, c.noTicket, c.resume, c.reneg)
}

func vC07RandName(r *vRng) string {
	n := 1 + r.Intn(4)
	var ls []string
	for i := 0; i < n; i++ {
		l := 1 + r.Intn(12)
		if r.Intn(12) == 0 {
			l = 63
		}
		b := make([]byte, l)
		for j := range b {
			b[j] = "abcdefghijklmnopqrstuvwxyz0123456789-"[r.Intn(37)]
		}
		ls = append(ls, string(b))
	}
	s := strings.Join(ls, ".")
	if r.Intn(6) == 0 {
		s += "."
	}
	return s
}

func vC07GenCfg(r *vRng, i int) vC07Cfg {
	c := vC07Cfg{}
	switch r.Intn(3) {
	case 0:
		c.name = vC07Names[i%len(vC07Names)]
	case 1:
		c.name = vC07Names[r.Intn(len(vC07Names))]
	default:
		c.name = vC07RandName(r)
	}
	switch r.Intn(9) {
	case 0:
	case 7, 8:
		// ids that differ from the common ones in letter case, whitespace, a trailing dot, a prefix
		c.protos = [][]string{{"H2", "HTTP/1.1"}, {"Acme-TLS/1"}, {"HTTP/1.1", "spdy"}, {"h2 ", "http/1.1."}, {"H2", "h2"}, {"h", "http/1"}, {"h2x", " h2"},
			{"\xd2\xbb2"}, {"http/1.1\x00"}, {"DOT", "H3"}}[r.Intn(10)]
	case 1:
		c.protos = []string{"h2", "http/1.1"}
	case 2:
		c.protos = []string{"h2"}
	case 3:
		c.protos = []string{"http/1.1", "acme-tls/1", "h3", "dot"}
	case 4:
		c.protos = []string{string(r.Bytes(255))}
	case 5:
		n := 1 + r.Intn(40)
		for k := 0; k < n; k++ {
			c.protos = append(c.protos, fmt.Sprintf("proto-%d-%s", k, strings.Repeat("z", r.Intn(20))))
		}
	default:
		n := 1 + r.Intn(5)
		for k := 0; k < n; k++ {
			c.protos = append(c.protos, string(r.Bytes(1+r.Intn(24))))
		}
	}
	c.min = vC07Versions[r.Intn(5)]
	c.max = vC07Versions[r.Intn(5)]
	if c.min != 0 && c.max != 0 && c.min > c.max && r.Intn(8) != 0 {
		c.min, c.max = c.max, c.min
	}
	if r.Intn(2) == 0 {
		all := vC07AllSuites()
		n := 1 + r.Intn(len(all))
		for k := 0; k < n; k++ {
			c.suites = append(c.suites, all[r.Intn(len(all))])
		}
		if r.Intn(10) == 0 {
			c.suites = []uint16{}
		}
	}
	if r.Intn(2) == 0 {
		// 0x6399 is X25519Kyber768Draft00 (what a nil preference list puts first in Go 1.23)
		all := []tls.CurveID{tls.X25519, tls.CurveP256, tls.CurveP384, tls.CurveP521, tls.CurveID(0x6399)}
		n := 1 + r.Intn(5)
		for k := 0; k < n; k++ {
			c.curves = append(c.curves, all[r.Intn(5)])
		}
	}
	c.noTicket = r.Intn(4) == 0
	if r.Intn(5) == 0 {
		c.resume = 12 + r.Intn(2)
	}
	c.reneg = tls.RenegotiationSupport(r.Intn(3))
	c.ems = r.Intn(6) != 0
	return c
}

// ---------------------------------------------------------------- resumption state
type vC07Frozen struct{ inner tls.ClientSessionCache }

func (f vC07Frozen) Get(k string) (*tls.ClientSessionState, bool) { return f.inner.Get(k) }
func (f vC07Frozen) Put(string, *tls.ClientSessionState)          {}

func vC07Cert() (tls.Certificate, error) {
	key, err := ecdsa.GenerateKey(elliptic.P256(), rand.Reader)
	if err != nil {
		return tls.Certificate{}, err
	}
	tmpl := &x509.Certificate{SerialNumber: big.NewInt(7), Subject: pkix.Name{CommonName: "verif"},
		NotBefore: time.Now().Add(-time.Hour), NotAfter: time.Now().Add(24 * time.Hour),
		DNSNames: []string{"resume12.example", "resume13.example"}, KeyUsage: x509.KeyUsageDigitalSignature,
		ExtKeyUsage: []x509.ExtKeyUsage{x509.ExtKeyUsageServerAuth}}
	der, err := x509.CreateCertificate(rand.Reader, tmpl, tmpl, &key.PublicKey, key)
	if err != nil {
		return tls.Certificate{}, err
	}
	return tls.Certificate{Certificate: [][]byte{der}, PrivateKey: key}, nil
}

// one complete handshake so that the client's cache holds a session for name
func vC07Session(cert tls.Certificate, ver uint16, name string) (tls.ClientSessionCache, error) {
	cache := tls.NewLRUClientSessionCache(4)
	sc := &tls.Config{Certificates: []tls.Certificate{cert}, MinVersion: ver, MaxVersion: ver}
	cc := &tls.Config{ServerName: name, InsecureSkipVerify: true, ClientSessionCache: cache, MinVersion: ver, MaxVersion: ver}
	a, b := net.Pipe()
	a.SetDeadline(time.Now().Add(10 * time.Second))
	b.SetDeadline(time.Now().Add(10 * time.Second))
	done := make(chan error, 1)
	go func() {
		s := tls.Server(b, sc)
		err := s.Handshake()
		if err == nil {
			_, err = s.Write([]byte("x"))
		}
		done <- err
	}()
	c := tls.Client(a, cc)
	if err := c.Handshake(); err != nil {
		a.Close()
		<-done
		return nil, err
	}
	one := make([]byte, 1)
	_, err := c.Read(one)
	serr := <-done
	a.Close()
	b.Close()
	if err != nil {
		return nil, err
	}
	if serr != nil {
		return nil, serr
	}
	if _, ok := cache.Get(name); !ok {
		return nil, errors.New("no session cached")
	}
	return vC07Frozen{cache}, nil
}

// the first record a crypto/tls client writes for cfg (nil when it fails before writing)
func vC07ClientHello(c vC07Cfg, caches map[int]tls.ClientSessionCache) []byte {
	cfg := &tls.Config{ServerName: c.name, InsecureSkipVerify: true, NextProtos: c.protos, MinVersion: c.min, MaxVersion: c.max,
		CipherSuites: c.suites, CurvePreferences: c.curves, SessionTicketsDisabled: c.noTicket, Renegotiation: c.reneg}
	if c.resume != 0 && caches[c.resume] != nil {
		cfg.ClientSessionCache = caches[c.resume]
		cfg.ServerName = fmt.Sprintf("resume%d.example", c.resume)
	}
	conn := &vC07Conn{}
	tc := tls.Client(conn, cfg)
	_ = tc.Handshake() // fails with EOF after the hello was written
	out := conn.out.Bytes()
	if len(out) < 5 {
		return nil
	}
	n := 5 + int(vU16(out[3:5]))
	if len(out) < n {
		return nil
	}
	return append([]byte{}, out[:n]...)
}

// ---------------------------------------------------------------- (a) crypto/tls server
type vC07Seen struct {
	called  bool
	name    string
	protos  []string
	vers    []uint16
	suites  []uint16
	curves  []uint16
	points  []byte
	sigs    []uint16
	chi     *tls.ClientHelloInfo
	hsError string
}

func vC07Server(rec []byte) vC07Seen {
	var seen vC07Seen
	stop := errors.New("verif: stop after ClientHello")
	cfg := &tls.Config{GetConfigForClient: func(chi *tls.ClientHelloInfo) (*tls.Config, error) {
		seen.called = true
		seen.chi = chi
		seen.name = chi.ServerName
		seen.protos = append([]string{}, chi.SupportedProtos...)
		seen.vers = append([]uint16{}, chi.SupportedVersions...)
		seen.suites = append([]uint16{}, chi.CipherSuites...)
		for _, c := range chi.SupportedCurves {
			seen.curves = append(seen.curves, uint16(c))
		}
		seen.points = append([]byte{}, chi.SupportedPoints...)
		for _, s := range chi.SignatureSchemes {
			seen.sigs = append(seen.sigs, uint16(s))
		}
		return nil, stop
	}}
	conn := &vC07Conn{in: bytes.NewReader(rec)}
	err := tls.Server(conn, cfg).Handshake()
	if err != nil {
		seen.hsError = err.Error()
	}
	return seen
}

// ---------------------------------------------------------------- (b) the matcher
func vC07U16eq(a, b []uint16) bool {
	if len(a) != len(b) {
		return false
	}
	for i := range a {
		if a[i] != b[i] {
			return false
		}
	}
	return true
}
func vC07StrEq(a, b []string) bool {
	if len(a) != len(b) {
		return false
	}
	for i := range a {
		if a[i] != b[i] {
			return false
		}
	}
	return true
}

func vC07Curves(cs []tls.CurveID) []uint16 {
	out := make([]uint16, len(cs))
	for i, c := range cs {
		out[i] = uint16(c)
	}
	return out
}
func vC07Sigs(cs []tls.SignatureScheme) []uint16 {
	out := make([]uint16, len(cs))
	for i, c := range cs {
		out[i] = uint16(c)
	}
	return out
}

func vC07ZL(l []uint16) string {
	vs := make([]int64, len(l))
	for i, v := range l {
		vs[i] = int64(v)
	}
	return cZList(vs)
}
// a byte string as a Coq list of byte constructors
func vC07B(b []byte) string {
	const hexd = "0123456789abcdef"
	out := make([]byte, 0, 2+4*len(b))
	out = append(out, '[')
	for i, c := range b {
		if i > 0 {
			out = append(out, ';')
		}
		out = append(out, 'x', hexd[c>>4], hexd[c&15])
	}
	return string(append(out, ']'))
}

func vC07HL(l [][]byte) string {
	ss := make([]string, len(l))
	for i, v := range l {
		ss[i] = vC07B(v)
	}
	return "[" + strings.Join(ss, "; ") + "]"
}
func vC07SL(l []string) string {
	bs := make([][]byte, len(l))
	for i, v := range l {
		bs[i] = []byte(v)
	}
	return vC07HL(bs)
}

func vC07InfoCoq(i ClientHelloInfo) string {
	ks := make([]string, len(i.KeyShares))
	for k, s := range i.KeyShares {
		ks[k] = fmt.Sprintf("(%d, %s)", uint16(s.Group), vC07B(s.Data))
	}
	ids := make([]string, len(i.PSKIdentities))
	for k, s := range i.PSKIdentities {
		ids[k] = fmt.Sprintf("(%s, %d)", vC07B(s.label), s.obfuscatedTicketAge)
	}
	return fmt.Sprintf("O %d %s %s %s %s %s %s %s %s %s %s %s %s %s %s %s %s %s %s %s [%s] %s %s [%s] %s",
		i.Version, vC07B(i.Random), vC07B(i.SessionID), vC07ZL(i.ClientHelloInfo.CipherSuites), cBool(i.SecureRenegotiationSupported),
		vC07B(i.CompressionMethods), vC07ZL(i.Extensions), vC07B([]byte(i.ClientHelloInfo.ServerName)), cBool(i.OCSPStapling),
		vC07ZL(vC07Curves(i.ClientHelloInfo.SupportedCurves)), vC07B(i.ClientHelloInfo.SupportedPoints), cBool(i.TicketSupported),
		vC07B(i.SessionTicket), vC07ZL(vC07Sigs(i.ClientHelloInfo.SignatureSchemes)), vC07ZL(vC07Sigs(i.SupportedSchemesCert)),
		vC07B(i.SecureRenegotiation), vC07SL(i.ClientHelloInfo.SupportedProtos), cBool(i.SCTs), vC07ZL(i.ClientHelloInfo.SupportedVersions),
		vC07B(i.Cookie), strings.Join(ks, "; "), cBool(i.EarlyData), vC07B(i.PSKModes), strings.Join(ids, "; "), vC07HL(i.PSKBinders))
}

type vC07MatchRes struct {
	verdict string // Yes No More Fail
	set     bool
	name    string
	version uint16
	// "{l4.tls.server_name}|{l4.tls.version}" as a handler configured with these placeholders gets it
	rendered string
}

// MatchTLS.Match through the public path on a connection that holds exactly p as prefetched bytes
func vC07Match(p []byte, subs []caddytls.ConnectionMatcher) vC07MatchRes {
	res, _ := vC07MatchOn(nil, p, subs)
	return res
}

// the same on a connection of an existing lineage: like Connection.Wrap, the new connection shares
// the Context (variable table and replacer) of the connection that lineage started with
func vC07MatchOn(lineage context.Context, p []byte, subs []caddytls.ConnectionMatcher) (vC07MatchRes, context.Context) {
	m := &MatchTLS{matchers: subs, logger: zap.NewNop()}
	cx := layer4.WrapConnection(&vC07Conn{}, append([]byte{}, p...), zap.NewNop())
	if lineage != nil {
		cx.Context = lineage
	}
	ok, err := layer4.MatcherSet{m}.Match(cx)
	res := vC07MatchRes{}
	switch {
	case err == nil && ok:
		res.verdict = "Yes"
	case err == nil:
		res.verdict = "No"
	case errors.Is(err, layer4.ErrConsumedAllPrefetchedBytes):
		res.verdict = "More"
	default:
		res.verdict = "Fail"
	}
	repl := cx.Context.Value(layer4.ReplacerCtxKey).(interface {
		Get(string) (any, bool)
		ReplaceAll(string, string) string
	})
	res.rendered = repl.ReplaceAll("{l4.tls.server_name}|{l4.tls.version}", "<unset>")
	if v, ok := repl.Get("l4.tls.server_name"); ok {
		res.set = true
		res.name, _ = v.(string)
	}
	if v, ok := repl.Get("l4.tls.version"); ok {
		res.version, _ = v.(uint16)
	} else if res.set {
		res.set = false
	}
	return res, cx.Context
}


// ---------------------------------------------------------------- reference semantics of the sub-matchers
// alpn: RFC 7301 protocol ids are opaque byte strings; Go's TLS server reports them verbatim and
// selects by exact comparison.  A configured value matches iff it is byte for byte one of the ids.
func vC07SpecAlpn(cfg, client []string) bool {
	for _, a := range cfg {
		for _, p := range client {
			if len(a) == len(p) && bytes.Equal([]byte(a), []byte(p)) {
				return true
			}
		}
	}
	return false
}

// sni: caddytls.MatchServerName ("names may use left-most-label wildcards") compares with
// certmagic.MatchWildcard, "DNS wildcard matching logic, case-insensitive": equal after
// lower-casing, or the pattern is the name with its k >= 1 left-most labels each replaced by "*"
// (empty labels stay empty and are not a place to stop).
func vC07SpecSni(cfg []string, name string) bool {
	sub := strings.Split(strings.ToLower(name), ".")
	for _, c := range cfg {
		lc := strings.ToLower(c)
		if lc == strings.ToLower(name) {
			return true
		}
		pat := strings.Split(lc, ".")
		if len(pat) != len(sub) || !strings.Contains(lc, "*") {
			continue
		}
		for k := 0; k < len(sub); k++ {
			if sub[k] == "" {
				continue
			}
			ok := true
			for x := range sub {
				want := sub[x]
				if x <= k && sub[x] != "" {
					want = "*"
				}
				if pat[x] != want {
					ok = false
					break
				}
			}
			if ok {
				return true
			}
		}
	}
	return false
}

// remote_ip / local_ip: in one of ranges (when any) and in none of not_ranges
func vC07SpecIP(addr string, ranges, notRanges []string) bool {
	ap, err := netip.ParseAddrPort(addr)
	if err != nil {
		return false
	}
	in := func(l []string) bool {
		for _, s := range l {
			if strings.Contains(s, "/") {
				if pf, err := netip.ParsePrefix(s); err == nil && pf.Contains(ap.Addr()) {
					return true
				}
			} else if a, err := netip.ParseAddr(s); err == nil && a == ap.Addr() {
				return true
			}
		}
		return false
	}
	return (len(ranges) == 0 || in(ranges)) && (len(notRanges) == 0 || !in(notRanges))
}

func vC07SwapCase(s string) string {
	return strings.Map(func(c rune) rune {
		switch {
		case unicode.IsLower(c):
			return unicode.ToUpper(c)
		case unicode.IsUpper(c):
			return unicode.ToLower(c)
		}
		return c
	}, s)
}

// values that equal v or miss it narrowly
func vC07Near(r *vRng, v string) string {
	look := strings.NewReplacer("a", "\u0430", "e", "\u0435", "o", "\u043e", "h", "\u04bb", "c", "\u0441", "p", "\u0440", "i", "\u0456")
	switch r.Intn(16) {
	case 0, 1, 2:
		return v
	case 3:
		return vC07SwapCase(v)
	case 4:
		return strings.ToUpper(v)
	case 5:
		return strings.ToLower(v)
	case 6:
		return v + "."
	case 7:
		return v + " "
	case 8:
		return " " + v
	case 9:
		if len(v) > 1 {
			return v[:len(v)-1]
		}
		return ""
	case 10:
		if len(v) > 1 {
			return v[1:]
		}
		return ""
	case 11:
		return v + "x"
	case 12:
		return ""
	case 13:
		return look.Replace(v)
	case 14:
		return strings.TrimSuffix(v, ".")
	default:
		return v + "\x00"
	}
}

func vC07NearSni(r *vRng, name string) string {
	switch r.Intn(8) {
	case 0:
		if i := strings.IndexByte(name, '.'); i >= 0 {
			return "*" + name[i:] // the wildcard that covers name
		}
		return "*"
	case 1:
		return "*." + name // one label too many
	case 2:
		if i := strings.LastIndexByte(name, '.'); i >= 0 {
			return name[:i] + ".*" // wildcard in the last label
		}
		return "*." + name
	case 3:
		if i := strings.IndexByte(name, '.'); i >= 0 {
			return "*" + vC07SwapCase(name[i:])
		}
		return vC07SwapCase(name)
	case 4:
		if i := strings.IndexByte(name, '.'); i >= 0 {
			return "*.*" + name[i:]
		}
		return "*.*"
	default:
		return vC07Near(r, name)
	}
}

// ---------------------------------------------------------------- mutations
var vC07StdKnown = map[uint16]bool{0: true, 5: true, 10: true, 11: true, 13: true, 16: true, 18: true, 23: true, 35: true, 41: true,
	42: true, 43: true, 44: true, 45: true, 50: true, 51: true, 57: true, 0xff01: true, 0xfe0d: true}

func vC07Grease(r *vRng) uint16 { b := uint16(r.Intn(16))<<4 | 0x0a; return b<<8 | b }

func vC07UnknownType(r *vRng) uint16 {
	for {
		var t uint16
		switch r.Intn(3) {
		case 0:
			t = []uint16{1, 2, 3, 4, 6, 7, 8, 9, 12, 14, 15, 17, 19, 20, 22, 24, 27, 28, 34, 47, 48, 49, 17513, 13172, 30032}[r.Intn(25)]
		case 1:
			t = vC07Grease(r)
		default:
			t = uint16(r.U64())
		}
		if !vC07StdKnown[t] && t != 21 {
			return t
		}
	}
}

func vC07SNIData(r *vRng, host []byte, extraBefore, extraAfter int) []byte {
	var nl []byte
	other := func() {
		nl = append(nl, byte(1+r.Intn(255)))
		nl = append(nl, vVec(2, r.Bytes(1+r.Intn(10)))...)
	}
	for i := 0; i < extraBefore; i++ {
		other()
	}
	if host != nil {
		nl = append(nl, 0)
		nl = append(nl, vVec(2, host)...)
	}
	for i := 0; i < extraAfter; i++ {
		other()
	}
	return vVec(2, nl)
}

func vC07ALPNData(protos [][]byte) []byte {
	var pl []byte
	for _, p := range protos {
		pl = append(pl, vVec(1, p)...)
	}
	return vVec(2, pl)
}

func vC07RandU16s(r *vRng, n int) []uint16 {
	out := make([]uint16, n)
	for i := range out {
		switch r.Intn(4) {
		case 0:
			out[i] = vC07Grease(r)
		case 1:
			out[i] = []uint16{0x0304, 0x0303, 0x0302, 0x0301, 0x0300, 0x7f1c, 0x00ff, 0x1301, 0xc02f, 29, 23, 24, 25, 0x6399, 256}[r.Intn(15)]
		default:
			out[i] = uint16(r.U64())
		}
	}
	return out
}

// mutations that keep the hello acceptable to crypto/tls's parser
var vC07OkMuts = []string{"reorder", "grease", "unknown", "padding", "sni-bytes", "sni-multi", "alpn-bytes", "versions", "legacy",
	"ciphers", "curves", "noexts", "emptyexts", "sid", "comp", "recver", "drop-ext", "sigalgs", "points", "no-sni",
	"cookie", "early-data", "ticket", "keyshare-ok", "psk-ok", "psk-modes", "status-ok", "renego-ok", "browser-like", "unknown-around"}

func vC07MutateOk(r *vRng, h *vHello, kind string) {
	switch kind {
	case "reorder":
		n := len(h.exts)
		if n > 0 && h.exts[n-1].typ == 41 {
			n--
		}
		for i := n - 1; i > 0; i-- {
			j := r.Intn(i + 1)
			h.exts[i], h.exts[j] = h.exts[j], h.exts[i]
		}
	case "grease":
		seen := map[uint16]bool{}
		for k := 1 + r.Intn(3); k > 0; k-- {
			g := vC07Grease(r)
			if seen[g] || h.find(g) >= 0 {
				continue
			}
			seen[g] = true
			h.insert(r, vExt{g, r.Bytes(r.Intn(9))})
		}
		h.suites = append([]uint16{vC07Grease(r)}, h.suites...)
		if i := h.find(10); i >= 0 && len(h.exts[i].data) >= 2 {
			h.exts[i].data = vVec(2, append(vP16(vC07Grease(r)), h.exts[i].data[2:]...))
		}
		if i := h.find(43); i >= 0 && len(h.exts[i].data) >= 1 && len(h.exts[i].data) < 250 {
			h.exts[i].data = vVec(1, append(vP16(vC07Grease(r)), h.exts[i].data[1:]...))
		}
	case "unknown":
		for k := 1 + r.Intn(4); k > 0; k-- {
			t := vC07UnknownType(r)
			if h.find(t) >= 0 {
				continue
			}
			l := r.Intn(40)
			if r.Intn(10) == 0 {
				l = 1000 + r.Intn(3000)
			}
			h.insert(r, vExt{t, r.Bytes(l)})
		}
	case "padding":
		if h.find(21) < 0 {
			h.insert(r, vExt{21, make([]byte, r.Intn(600))})
		}
	case "sni-bytes":
		n := 1 + r.Intn(40)
		if r.Intn(8) == 0 {
			n = 300 + r.Intn(2000)
		}
		host := r.Bytes(n)
		if host[n-1] == '.' {
			host[n-1] = 'x'
		}
		h.set(r, 0, vC07SNIData(r, host, 0, 0))
	case "sni-multi":
		var host []byte
		if i := h.find(0); i >= 0 && len(h.exts[i].data) > 5 {
			host = append([]byte{}, h.exts[i].data[5:]...)
		} else if r.Intn(3) != 0 {
			host = []byte("multi.example")
		}
		eb, ea := r.Intn(3), r.Intn(3)
		if host == nil && eb+ea == 0 {
			eb = 1
		}
		h.set(r, 0, vC07SNIData(r, host, eb, ea))
	case "alpn-bytes":
		n := 1 + r.Intn(8)
		var ps [][]byte
		for k := 0; k < n; k++ {
			l := 1 + r.Intn(12)
			if r.Intn(10) == 0 {
				l = 255
			}
			ps = append(ps, r.Bytes(l))
		}
		h.set(r, 16, vC07ALPNData(ps))
	case "versions":
		n := 1 + r.Intn(6)
		if r.Intn(10) == 0 {
			n = 127
		}
		h.set(r, 43, vVec(1, vU16s(vC07RandU16s(r, n))))
	case "legacy":
		h.remove(43)
		h.legacy = []uint16{0x0300, 0x0301, 0x0302, 0x0303, 0x0304, 0x0305, 0x0200, 0xffff, 0, 0x0400, 0x02ff}[r.Intn(11)]
	case "ciphers":
		n := r.Intn(12)
		if r.Intn(8) == 0 {
			n = 200 + r.Intn(400)
		}
		h.suites = vC07RandU16s(r, n)
	case "curves":
		n := 1 + r.Intn(8)
		h.set(r, 10, vVec(2, vU16s(vC07RandU16s(r, n))))
	case "noexts":
		h.hasExts = false
		h.exts = nil
	case "emptyexts":
		h.hasExts = true
		h.exts = nil
	case "sid":
		h.sid = r.Bytes([]int{0, 1, 16, 31, 32, 33, 255}[r.Intn(7)])
	case "comp":
		h.comp = r.Bytes(r.Intn(4))
	case "recver":
		h.recVer = []uint16{0x0300, 0x0301, 0x0302, 0x0303, 0x0304, 0x03ff}[r.Intn(6)]
	case "drop-ext":
		for k := 1 + r.Intn(3); k > 0 && len(h.exts) > 0; k-- {
			i := r.Intn(len(h.exts))
			h.exts = append(h.exts[:i:i], h.exts[i+1:]...)
		}
	case "sigalgs":
		h.set(r, 13, vVec(2, vU16s(vC07RandU16s(r, 1+r.Intn(10)))))
		if r.Bool() {
			h.set(r, 50, vVec(2, vU16s(vC07RandU16s(r, 1+r.Intn(5)))))
		}
	case "points":
		h.set(r, 11, vVec(1, r.Bytes(1+r.Intn(4))))
	case "no-sni":
		h.remove(0)
	case "browser-like":
		// GREASE extension first, permuted extensions with compress_certificate / ALPS / ECH-GREASE /
		// record_size_limit among them, a second GREASE extension (one data byte) and padding at the end
		// (before pre_shared_key), GREASE values in suites, groups, versions and key shares
		n := len(h.exts)
		var psk []vExt
		if n > 0 && h.exts[n-1].typ == 41 {
			psk = []vExt{h.exts[n-1]}
			h.exts = h.exts[:n-1]
		}
		for _, e := range []vExt{{27, []byte{2, 0, 2}}, {17513, []byte{0, 3, 2, 'h', '2'}}, {0xfe0d, r.Bytes(20 + r.Intn(200))}, {28, []byte{0x40, 1}}} {
			if h.find(e.typ) < 0 && r.Intn(3) != 0 {
				h.exts = append(h.exts, e)
			}
		}
		for i := len(h.exts) - 1; i > 0; i-- {
			j := r.Intn(i + 1)
			h.exts[i], h.exts[j] = h.exts[j], h.exts[i]
		}
		g1 := vC07Grease(r)
		g2 := vC07Grease(r)
		for g2 == g1 {
			g2 = vC07Grease(r)
		}
		if h.find(g1) < 0 && h.find(g2) < 0 {
			h.exts = append([]vExt{{g1, nil}}, h.exts...)
			h.exts = append(h.exts, vExt{g2, []byte{0}})
		}
		if h.find(21) < 0 {
			h.exts = append(h.exts, vExt{21, make([]byte, r.Intn(300))})
		}
		h.exts = append(h.exts, psk...)
		h.hasExts = true
		h.suites = append([]uint16{vC07Grease(r)}, h.suites...)
		if i := h.find(10); i >= 0 && len(h.exts[i].data) >= 2 {
			h.exts[i].data = vVec(2, append(vP16(vC07Grease(r)), h.exts[i].data[2:]...))
		}
		if i := h.find(43); i >= 0 && len(h.exts[i].data) >= 1 && len(h.exts[i].data) < 250 {
			h.exts[i].data = vVec(1, append(vP16(vC07Grease(r)), h.exts[i].data[1:]...))
		}
		if i := h.find(51); i >= 0 && len(h.exts[i].data) >= 2 {
			gs := append(vP16(vC07Grease(r)), vVec(2, []byte{0})...)
			h.exts[i].data = vVec(2, append(gs, h.exts[i].data[2:]...))
		}
	case "unknown-around":
		// unknown / GREASE extensions immediately before and after server_name, ALPN and supported_versions
		for _, t := range []uint16{0, 16, 43} {
			i := h.find(t)
			if i < 0 {
				continue
			}
			var before, after []vExt
			for k := r.Intn(3); k > 0; k-- {
				if u := vC07UnknownType(r); h.find(u) < 0 {
					before = append(before, vExt{u, r.Bytes(r.Intn(12))})
				}
			}
			if u := vC07UnknownType(r); h.find(u) < 0 && (len(before) == 0 || before[0].typ != u) {
				after = append(after, vExt{u, r.Bytes(r.Intn(12))})
			}
			seen := map[uint16]bool{}
			ok := true
			for _, e := range append(append([]vExt{}, before...), after...) {
				if seen[e.typ] {
					ok = false
				}
				seen[e.typ] = true
			}
			if !ok {
				continue
			}
			ne := append([]vExt{}, h.exts[:i]...)
			ne = append(ne, before...)
			ne = append(ne, h.exts[i])
			ne = append(ne, after...)
			ne = append(ne, h.exts[i+1:]...)
			h.exts = ne
		}
	case "cookie":
		h.set(r, 44, vVec(2, r.Bytes(1+r.Intn(40))))
	case "early-data":
		h.set(r, 42, nil)
	case "ticket":
		h.set(r, 35, r.Bytes(r.Intn(200)))
	case "keyshare-ok":
		var ks []byte
		for k := r.Intn(4); k > 0; k-- {
			ks = append(ks, vP16(vC07RandU16s(r, 1)[0])...)
			ks = append(ks, vVec(2, r.Bytes(1+r.Intn(70)))...)
		}
		h.set(r, 51, vVec(2, ks))
	case "psk-ok":
		h.remove(41)
		var ids, bs []byte
		for k := 1 + r.Intn(3); k > 0; k-- {
			ids = append(ids, vVec(2, r.Bytes(1+r.Intn(60)))...)
			ids = append(ids, r.Bytes(4)...)
			bs = append(bs, vVec(1, r.Bytes(1+r.Intn(48)))...)
		}
		h.hasExts = true
		h.exts = append(h.exts, vExt{41, append(vVec(2, ids), vVec(2, bs)...)})
	case "psk-modes":
		h.set(r, 45, vVec(1, r.Bytes(r.Intn(4))))
	case "status-ok":
		h.set(r, 5, append([]byte{byte(r.Intn(3))}, append(vVec(2, r.Bytes(r.Intn(12))), vVec(2, r.Bytes(r.Intn(12)))...)...))
	case "renego-ok":
		h.set(r, 0xff01, vVec(1, r.Bytes(r.Intn(13))))
	}
}

// mutations crypto/tls's parser rejects (no oracle claim; they exercise the parser's early-return
// paths for the model correspondence)
var vC07BadMuts = []string{"truncate", "dup-ext", "sni-dot", "sni-two-hosts", "sni-empty", "alpn-empty-proto", "alpn-empty-list", "odd-list",
	"psk-not-last", "ext-trailing", "bad-extlen", "odd-suites", "trailing-after-exts", "short-vector",
	"cookie-empty", "psk-malformed", "keyshare-malformed", "status-malformed", "renego-malformed", "points-empty", "sct-nonempty", "early-nonempty"}

func vC07MutateBad(r *vRng, h *vHello, kind string) {
	switch kind {
	case "truncate":
		b := h.body()
		h.bodyOverride = append([]byte{}, b[:r.Intn(len(b))]...)
	case "dup-ext":
		if len(h.exts) == 0 {
			h.hasExts = true
			h.exts = []vExt{{16, vC07ALPNData([][]byte{[]byte("h2")})}}
		}
		e := h.exts[r.Intn(len(h.exts))]
		if e.typ == 41 {
			e = vExt{0, vC07SNIData(r, []byte("dup.example"), 0, 0)}
			h.set(r, 0, vC07SNIData(r, []byte("first.example"), 0, 0))
		}
		h.insert(r, vExt{e.typ, append([]byte{}, e.data...)})
	case "sni-dot":
		h.set(r, 0, vC07SNIData(r, []byte("dotted.example."), r.Intn(2), r.Intn(2)))
	case "sni-two-hosts":
		d := vC07SNIData(r, []byte("one.example"), 0, r.Intn(2))
		d2 := vC07SNIData(r, []byte("two.example"), 0, 0)
		h.set(r, 0, vVec(2, append(append([]byte{}, d[2:]...), d2[2:]...)))
	case "sni-empty":
		if r.Bool() {
			h.set(r, 0, vVec(2, nil))
		} else {
			h.set(r, 0, vVec(2, append([]byte{0}, vVec(2, nil)...)))
		}
	case "alpn-empty-proto":
		h.set(r, 16, vC07ALPNData([][]byte{[]byte("h2"), {}, []byte("http/1.1")}))
	case "alpn-empty-list":
		h.set(r, 16, vVec(2, nil))
	case "odd-list":
		t := []uint16{10, 13, 43, 50}[r.Intn(4)]
		body := append(vU16s(vC07RandU16s(r, 1+r.Intn(4))), byte(r.U64()))
		if t == 43 {
			h.set(r, t, vVec(1, body))
		} else {
			h.set(r, t, vVec(2, body))
		}
	case "psk-not-last":
		h.remove(41)
		ids := append(vVec(2, r.Bytes(8)), r.Bytes(4)...)
		psk := append(vVec(2, ids), vVec(2, vVec(1, r.Bytes(32)))...)
		h.hasExts = true
		h.exts = append([]vExt{{41, psk}}, h.exts...)
		if len(h.exts) == 1 {
			h.exts = append(h.exts, vExt{16, vC07ALPNData([][]byte{[]byte("h2")})})
		}
	case "ext-trailing":
		if len(h.exts) == 0 {
			h.hasExts = true
			h.exts = []vExt{{16, vC07ALPNData([][]byte{[]byte("h2")})}}
		}
		i := r.Intn(len(h.exts))
		if vC07StdKnown[h.exts[i].typ] && h.exts[i].typ != 35 && h.exts[i].typ != 57 {
			h.exts[i].data = append(append([]byte{}, h.exts[i].data...), r.Bytes(1+r.Intn(3))...)
		} else {
			h.set(r, 16, append(vC07ALPNData([][]byte{[]byte("h2")}), 0))
		}
	case "bad-extlen":
		b := h.body()
		if h.hasExts && len(h.exts) > 0 {
			// make the last extension claim one byte more than there is
			e := h.exts[len(h.exts)-1]
			off := len(b) - len(e.data) - 2
			b = append([]byte{}, b...)
			l := len(e.data) + 1
			b[off], b[off+1] = byte(l>>8), byte(l)
		} else {
			b = append(append([]byte{}, b...), 0, 5, 0)
		}
		h.bodyOverride = b
	case "odd-suites":
		b0 := h.body()
		// rebuild with an odd cipher-suite vector
		var b []byte
		b = append(b, vP16(h.legacy)...)
		b = append(b, h.random...)
		b = append(b, vVec(1, h.sid)...)
		b = append(b, vVec(2, append(vU16s(h.suites), 0x13))...)
		rest := b0[2+32+1+len(h.sid)+2+2*len(h.suites):]
		h.bodyOverride = append(b, rest...)
	case "trailing-after-exts":
		if !h.hasExts {
			h.hasExts = true
		}
		h.bodyOverride = append(append([]byte{}, h.body()...), r.Bytes(1+r.Intn(3))...)
	case "short-vector":
		t := []uint16{0, 10, 16, 43, 51, 13}[r.Intn(6)]
		h.set(r, t, r.Bytes(r.Intn(2)))
	case "cookie-empty":
		h.set(r, 44, vVec(2, nil))
	case "psk-malformed":
		h.remove(41)
		id := append(vVec(2, r.Bytes(9)), r.Bytes(4)...)
		okIDs, okBs := vVec(2, append(append([]byte{}, id...), id...)), vVec(2, append(vVec(1, r.Bytes(32)), vVec(1, r.Bytes(32))...))
		var d []byte
		switch r.Intn(7) {
		case 0:
			d = append(vVec(2, nil), okBs...) // no identities
		case 1:
			d = append(vVec(2, append(append([]byte{}, id...), append(vVec(2, nil), 0, 0, 0, 1)...)), okBs...) // empty label after a good one
		case 2:
			d = append(vVec(2, append(append([]byte{}, id...), id[:len(id)-2]...)), okBs...) // truncated age after a good identity
		case 3:
			d = append(append([]byte{}, okIDs...), vVec(2, nil)...) // no binders
		case 4:
			d = append(append([]byte{}, okIDs...), vVec(2, append(vVec(1, r.Bytes(32)), 0))...) // empty binder after a good one
		case 5:
			d = append([]byte{}, okIDs...) // binders missing
		default:
			d = append(append(append([]byte{}, okIDs...), okBs...), 7) // trailing byte
		}
		h.hasExts = true
		h.exts = append(h.exts, vExt{41, d})
	case "keyshare-malformed":
		good := append(vP16(29), vVec(2, r.Bytes(32))...)
		switch r.Intn(3) {
		case 0:
			h.set(r, 51, vVec(2, append(append([]byte{}, good...), append(vP16(23), vVec(2, nil)...)...))) // empty key after a good share
		case 1:
			h.set(r, 51, vVec(2, append(append([]byte{}, good...), 0, 23, 0))) // truncated second share
		default:
			h.set(r, 51, append(vVec(2, good), 1)) // trailing byte
		}
	case "status-malformed":
		h.set(r, 5, [][]byte{{}, {1}, {1, 0, 0}, {1, 0, 1, 9, 0}, {1, 0, 0, 0, 0, 0}}[r.Intn(5)])
	case "renego-malformed":
		h.set(r, 0xff01, [][]byte{{}, {2, 1}, {0, 0}}[r.Intn(3)])
	case "points-empty":
		h.set(r, 11, vVec(1, nil))
	case "sct-nonempty":
		h.set(r, 18, r.Bytes(1+r.Intn(4)))
	case "early-nonempty":
		h.set(r, 42, r.Bytes(1+r.Intn(4)))
	}
}

// ---------------------------------------------------------------- the engine
func vC07HasAny(h *vHello) bool { return h.find(0) >= 0 || h.find(16) >= 0 || h.find(43) >= 0 }

func TestVerifC07(t *testing.T) {
	out := vOpen()
	defer out.Close()
	r := vNewRng(vSeed())
	n := vN(1200)

	// supportedVersionsFromMax on its boundaries
	for _, m := range []uint16{0, 1, 0x0200, 0x02ff, 0x0300, 0x0301, 0x0302, 0x0303, 0x0304, 0x0305, 0x0400, 0x7fff, 0xffff} {
		out.Case(fmt.Sprintf("CVersMax %d %s", m, vC07ZL(supportedVersionsFromMax(m))), "versmax", m >= 0x0301, fmt.Sprintf("max=%#x", m))
	}
	for i := 0; i < 12; i++ {
		m := uint16(r.U64())
		out.Case(fmt.Sprintf("CVersMax %d %s", m, vC07ZL(supportedVersionsFromMax(m))), "versmax", m >= 0x0301, fmt.Sprintf("max=%#x", m))
	}

	// the alpn sub-matcher on a table of exact and near-miss pairs (configured values, client ids)
	alpnTable := []struct{ cfg, client []string }{
		{[]string{"h2"}, []string{"h2"}}, {[]string{"h2"}, []string{"H2"}}, {[]string{"H2"}, []string{"h2"}}, {[]string{"h2", "http/1.1"}, []string{"H2"}},
		{[]string{"http/1.1"}, []string{"HTTP/1.1", "spdy"}}, {[]string{"h2", "http/1.1"}, []string{"HTTP/1.1", "spdy"}}, {[]string{"acme-tls/1"}, []string{"Acme-TLS/1"}},
		{[]string{"acme-tls/1"}, []string{"acme-tls/1"}}, {[]string{"h2"}, []string{"h2 "}}, {[]string{"h2 "}, []string{"h2"}}, {[]string{"h2"}, []string{" h2"}}, {[]string{"h2"}, []string{"h"}},
		{[]string{"h"}, []string{"h2"}}, {[]string{"h2"}, []string{"h2x"}}, {[]string{"h2."}, []string{"h2"}}, {[]string{""}, []string{"h2"}}, {[]string{""}, nil}, {[]string{"h2"}, nil},
		{nil, []string{"h2"}}, {[]string{"\xd2\xbb2"}, []string{"h2"}}, {[]string{"h2"}, []string{"\xd2\xbb2"}}, {[]string{"h2\x00"}, []string{"h2"}}, {[]string{"\xe2\x84\xaa"}, []string{"k"}}, {[]string{"k"}, []string{"\xe2\x84\xaa"}},
		{[]string{"\xc5\xbf"}, []string{"s"}}, {[]string{"nope", "H3"}, []string{"h2", "h3"}}, {[]string{"nope", "h3"}, []string{"h2", "h3"}}, {[]string{"dot"}, []string{"DoT"}}, {[]string{"\xff\xfe"}, []string{"\xff\xfe"}},
		{[]string{"\xff\xfe"}, []string{"\xff\xfd"}}, {[]string{"http/1.1"}, []string{"http/1.0", "http/1.1"}}, {[]string{"http/1.1"}, []string{"http/1.10"}},
	}
	for _, e := range alpnTable {
		am := MatchALPN(e.cfg)
		got := am.Match(&tls.ClientHelloInfo{SupportedProtos: e.client})
		if spec := vC07SpecAlpn(e.cfg, e.client); got != spec {
			out.Fail("C07:alpn-matcher:inexact-match", fmt.Sprintf("alpn %q on client protocols %q: matcher says %v; ALPN ids are opaque byte strings (RFC 7301) and exact comparison says %v", e.cfg, e.client, got, spec),
				map[string]any{"cfg": e.cfg, "client": e.client})
		}
		out.Case(fmt.Sprintf("CAlpn %s %s %s", vC07SL(e.cfg), vC07SL(e.client), cBool(got)), "alpn-matcher:table", len(e.client) > 0, nil)
	}
	ipCtx, ipCancel := caddy.NewContext(caddy.Context{Context: context.Background()})
	defer ipCancel()
	ipCtxOK := true

	// resumption state
	caches := map[int]tls.ClientSessionCache{}
	if cert, err := vC07Cert(); err == nil {
		for _, v := range []struct {
			k   int
			ver uint16
		}{{12, tls.VersionTLS12}, {13, tls.VersionTLS13}} {
			var c tls.ClientSessionCache
			var err error
			for try := 0; try < 3 && c == nil; try++ {
				c, err = vC07Session(cert, v.ver, fmt.Sprintf("resume%d.example", v.k))
			}
			if c == nil {
				// only costs the resumption hellos; not a property failure
				out.Stat(fmt.Sprintf("resumption-setup-failed-tls%d", v.k), fmt.Sprint(err))
				continue
			}
			caches[v.k] = c
		}
	} else {
		out.Stat("resumption-setup-failed-cert", fmt.Sprint(err))
	}

	stats := map[string]int{}
	var gateRecords [][]byte
	var prevRec []byte
	var prevName string
	hellos := 0
	for i := 0; hellos < n && i < 4*n; i++ {
		cfg := vC07GenCfg(r, i)
		rec := vC07ClientHello(cfg, caches)
		if rec == nil {
			stats["client-wrote-nothing"]++
			continue
		}
		h, err := vParseRecord(rec)
		if err != nil {
			t.Errorf("harness cannot parse the client's record (%v): %v", cfg, err)
			continue
		}
		if !bytes.Equal(h.record(), rec) {
			t.Errorf("harness re-serialisation differs from the client's record (%v)", cfg)
			continue
		}
		h.determinise(r)
		cls := "client"
		expectOk := true
		var muts []string
		switch {
		case i%3 == 1 || (i%3 == 2 && r.Intn(10) < 6):
			for k := 1 + r.Intn(3); k > 0; k-- {
				m := vC07OkMuts[r.Intn(len(vC07OkMuts))]
				vC07MutateOk(r, h, m)
				muts = append(muts, m)
			}
			cls = "mut:" + muts[0]
		case i%3 == 2:
			if r.Bool() {
				m := vC07OkMuts[r.Intn(len(vC07OkMuts))]
				vC07MutateOk(r, h, m)
				muts = append(muts, m)
			}
			m := vC07BadMuts[r.Intn(len(vC07BadMuts))]
			vC07MutateBad(r, h, m)
			muts = append(muts, m)
			cls = "bad:" + m
			expectOk = false
		}
		if h.find(41) >= 0 {
			stats["with-psk"]++
		}
		if h.find(35) >= 0 && len(h.exts[h.find(35)].data) > 0 {
			stats["with-ticket"]++
		}
		rec = h.record()
		if len(rec) > 5+16384 {
			stats["too-long-skipped"]++
			continue
		}
		hellos++
		desc := map[string]any{"cfg": cfg.String(), "mutations": muts, "record": fmt.Sprintf("%x", rec)}

		// (a)
		seen := vC07Server(rec)
		// (b)
		info := parseRawClientHello(rec[5:])
		out.Case(fmt.Sprintf("CParse %s (%s)", vC07B(rec[5:]), vC07InfoCoq(info)), cls, vC07HasAny(h),
			map[string]any{"cfg": cfg.String(), "mutations": muts, "exts": h.extSig(), "server_accepted": seen.called})

		if !seen.called {
			stats["server-rejected"]++
			if expectOk {
				// a hello a crypto/tls client wrote (or a mutation designed to stay acceptable) must
				// reach GetConfigForClient; otherwise the harness is wrong, not the matcher
				t.Errorf("crypto/tls server did not accept a hello expected to be acceptable: %v muts=%v err=%s rec=%x", cfg, muts, seen.hsError, rec)
			}
			continue
		}
		if !expectOk {
			stats["bad-mutation-accepted"]++
		}
		stats["server-accepted"]++
		if seen.name != "" {
			stats["with-sni"]++
		}
		if len(seen.protos) > 0 {
			stats["with-alpn"]++
		}

		b := info.ClientHelloInfo
		if seen.name != b.ServerName {
			out.Fail("C07:sni:mismatch", fmt.Sprintf("crypto/tls server saw ServerName %q, the matcher extracted %q", seen.name, b.ServerName), desc)
		}
		if !vC07StrEq(seen.protos, b.SupportedProtos) {
			out.Fail("C07:alpn:mismatch", fmt.Sprintf("crypto/tls server saw SupportedProtos %q, the matcher extracted %q", seen.protos, b.SupportedProtos), desc)
		}
		if !vC07U16eq(seen.vers, b.SupportedVersions) {
			out.Fail("C07:versions:mismatch", fmt.Sprintf("crypto/tls server saw SupportedVersions %#x, the matcher extracted %#x", seen.vers, b.SupportedVersions), desc)
		}
		if !vC07U16eq(seen.suites, b.CipherSuites) {
			out.Fail("C07:ciphers:mismatch", fmt.Sprintf("crypto/tls server saw CipherSuites %#x, the matcher extracted %#x", seen.suites, b.CipherSuites), desc)
		}
		if !vC07U16eq(seen.curves, vC07Curves(b.SupportedCurves)) {
			out.Fail("C07:curves:mismatch", fmt.Sprintf("crypto/tls server saw SupportedCurves %v, the matcher extracted %v", seen.curves, b.SupportedCurves), desc)
		}
		if !bytes.Equal(seen.points, b.SupportedPoints) {
			out.Fail("C07:points:mismatch", fmt.Sprintf("crypto/tls server saw SupportedPoints %x, the matcher extracted %x", seen.points, b.SupportedPoints), desc)
		}
		if !vC07U16eq(seen.sigs, vC07Sigs(b.SignatureSchemes)) {
			out.Fail("C07:sigalgs:mismatch", fmt.Sprintf("crypto/tls server saw SignatureSchemes %v, the matcher extracted %v", seen.sigs, b.SignatureSchemes), desc)
		}

		// sub-matchers and the public path, for a few configurations derived from the hello
		sniCfgs := [][]string{{"example.com"}, {"*.example.com", "*.example.org"}, {"other.test", seen.name}, {strings.ToLower(seen.name)},
			{vC07NearSni(r, seen.name)}, {"nope.test", vC07NearSni(r, seen.name)}, {vC07NearSni(r, "example.com")}}
		alpnCfgs := [][]string{{"h2"}, {"nope", "http/1.1"}, {"zzz"}, {vC07Near(r, "h2"), vC07Near(r, "http/1.1")}, {vC07Near(r, "acme-tls/1")}}
		if len(seen.protos) > 0 {
			last, any := seen.protos[len(seen.protos)-1], seen.protos[r.Intn(len(seen.protos))]
			alpnCfgs = append(alpnCfgs, []string{"x", last}, []string{vC07Near(r, any)}, []string{vC07Near(r, last), "nope"}, []string{vC07SwapCase(any)})
		}
		sc := sniCfgs[r.Intn(len(sniCfgs))]
		ac := alpnCfgs[r.Intn(len(alpnCfgs))]
		if strings.Contains(strings.Join(ac, ""), "{") { // placeholders are not in scope
			ac = []string{"h2"}
		}
		sm := caddytls.MatchServerName(sc)
		am := MatchALPN(ac)
		sA, sB := sm.Match(seen.chi), sm.Match(&info.ClientHelloInfo)
		aA, aB := am.Match(seen.chi), am.Match(&info.ClientHelloInfo)
		if sA != sB {
			out.Fail("C07:sni-matcher:verdict-differs", fmt.Sprintf("sni %q: %v on the server's hello info, %v on the matcher's", sc, sA, sB), desc)
		}
		if aA != aB {
			out.Fail("C07:alpn-matcher:verdict-differs", fmt.Sprintf("alpn %q: %v on the server's hello info, %v on the matcher's", ac, aA, aB), desc)
		}
		// against the reference semantics, evaluated on what the crypto/tls server saw
		specS, specA := vC07SpecSni(sc, seen.name), vC07SpecAlpn(ac, seen.protos)
		if sB != specS {
			out.Fail("C07:sni-matcher:differs-from-documented", fmt.Sprintf("sni %q on server name %q: matcher says %v; case-insensitive single-label-wildcard matching (caddytls.MatchServerName's documented semantics) says %v",
				sc, seen.name, sB, specS), desc)
		}
		if aB != specA {
			out.Fail("C07:alpn-matcher:inexact-match", fmt.Sprintf("alpn %q on client protocols %q (as Go's TLS server reports them): matcher says %v; ALPN ids are opaque byte strings (RFC 7301) and exact comparison says %v",
				ac, seen.protos, aB, specA), desc)
		}
		sA, aA = specS, specA
		out.Case(fmt.Sprintf("CAlpn %s %s %s", vC07SL(ac), vC07SL(b.SupportedProtos), cBool(aB)), "alpn-matcher", len(b.SupportedProtos) > 0, nil)

		var subs []caddytls.ConnectionMatcher
		useSni, useAlpn := r.Intn(3) == 0, r.Intn(2) == 0
		if useSni {
			subs = append(subs, sm)
		}
		if useAlpn {
			subs = append(subs, &am)
		}
		mr := vC07Match(rec, subs)
		want := (!useSni || sA) && (!useAlpn || aA)
		// remote_ip / local_ip handshake matchers with ranges that contain or narrowly miss the peer
		// (the scripted connection is 127.0.0.1:50000 -> 127.0.0.1:443)
		if i%5 == 0 && ipCtxOK {
			ipSets := [][]string{{"127.0.0.1"}, {"127.0.0.2"}, {"127.0.0.0/8"}, {"127.0.0.0/31"}, {"127.0.0.2/31"}, {"126.0.0.0/8", "10.0.0.0/8"}, {"::1"}, {"::ffff:127.0.0.1"}, {"0.0.0.0/0"}, {"127.0.0.1/32", "192.0.2.0/24"}, {}}
			rg, nrg := ipSets[r.Intn(len(ipSets))], ipSets[r.Intn(len(ipSets))]
			if r.Bool() {
				nrg = nil
			}
			rm := &caddytls.MatchRemoteIP{Ranges: rg, NotRanges: nrg}
			lm := &caddytls.MatchLocalIP{Ranges: rg}
			if rm.Provision(ipCtx) == nil && lm.Provision(ipCtx) == nil {
				useLocal := r.Bool()
				var ipm caddytls.ConnectionMatcher = rm
				specIP := vC07SpecIP("127.0.0.1:50000", rg, nrg)
				if useLocal {
					ipm = lm
					specIP = vC07SpecIP("127.0.0.1:443", rg, nil)
				}
				ipr := vC07Match(rec, append(append([]caddytls.ConnectionMatcher{}, subs...), ipm))
				stats["ip-matcher"]++
				if (ipr.verdict == "Yes") != (want && specIP) || (ipr.verdict != "Yes" && ipr.verdict != "No") {
					out.Fail("C07:ip-matcher:differs-from-documented", fmt.Sprintf("tls matcher with %T ranges %q not_ranges %q (peer 127.0.0.1:50000 -> 127.0.0.1:443) plus sni %q used=%v, alpn %q used=%v answered %s; the documented semantics give %v",
						ipm, rg, nrg, sc, useSni, ac, useAlpn, ipr.verdict, want && specIP), desc)
				}
			}
		}
		if (mr.verdict == "Yes") != want || (mr.verdict != "Yes" && mr.verdict != "No") {
			out.Fail("C07:match:verdict-differs", fmt.Sprintf("tls matcher (sni %q used=%v, alpn %q used=%v) answered %s; deciding on the crypto/tls server's view gives %v",
				sc, useSni, ac, useAlpn, mr.verdict, want), desc)
		}
		if !mr.set || mr.name != seen.name {
			out.Fail("C07:placeholder:server_name", fmt.Sprintf("l4.tls.server_name set=%v value %q, crypto/tls server saw %q", mr.set, mr.name, seen.name), desc)
		}
		if !mr.set || mr.version != h.legacy {
			out.Fail("C07:placeholder:version", fmt.Sprintf("l4.tls.version set=%v value %#x, the hello's legacy_version is %#x", mr.set, mr.version, h.legacy), desc)
		}
		// what a handler configured with the placeholders receives (an empty server name renders as
		// the replacer's empty-value substitute)
		wantName := seen.name
		if wantName == "" {
			wantName = "<unset>"
		}
		if wantR := fmt.Sprintf("%s|%d", wantName, h.legacy); mr.rendered != wantR {
			out.Fail("C07:placeholder:rendered", fmt.Sprintf("\"{l4.tls.server_name}|{l4.tls.version}\" renders as %q; from the crypto/tls server's view it is %q", mr.rendered, wantR), desc)
		}
		// the version list the server derives and FillTLSClientConfig's min/max derived from the matcher's list
		if len(seen.vers) > 0 {
			var c2 tls.Config
			info.FillTLSClientConfig(&c2)
			mn, mx := seen.vers[0], seen.vers[0]
			for _, v := range seen.vers {
				if v < mn {
					mn = v
				}
				if v > mx {
					mx = v
				}
			}
			if c2.MinVersion != mn || c2.MaxVersion != mx || c2.ServerName != seen.name || !vC07StrEq(c2.NextProtos, seen.protos) {
				out.Fail("C07:fill-client-config:differs", fmt.Sprintf("FillTLSClientConfig gives min=%#x max=%#x name=%q alpn=%q; from the crypto/tls server's view min=%#x max=%#x name=%q alpn=%q",
					c2.MinVersion, c2.MaxVersion, c2.ServerName, c2.NextProtos, mn, mx, seen.name, seen.protos), desc)
			}
		}
		if !useSni && i%4 == 0 {
			out.Case(fmt.Sprintf("CGate %s %s %s %s %s %s %d", vC07B(rec), cBool(useAlpn), vC07SL(ac), mr.verdict, cBool(mr.set), vC07B([]byte(mr.name)), mr.version),
				"gate:full", true, nil)
		}
		if expectOk && len(gateRecords) < 60 && (i%7 == 0 || len(rec) > 1500) {
			gateRecords = append(gateRecords, rec)
		}

		// a later tls matcher on the same connection lineage (tls matcher -> tls handler -> tls matcher
		// on the inner stream): first an OUTER hello, then this hello or a non-TLS inner stream
		if prevRec != nil && i%4 == 0 {
			_, lineage := vC07MatchOn(nil, prevRec, nil)
			second, _ := vC07MatchOn(lineage, rec, subs)
			stats["rematch"]++
			if second != mr {
				out.Fail("C07:rematch:stale-hello", fmt.Sprintf("tls matcher on a connection whose outer stream carried another hello (server name %q): answered %+v for the inner hello; on a fresh connection the same bytes give %+v",
					prevName, second, mr), map[string]any{"outer": fmt.Sprintf("%x", prevRec), "inner": fmt.Sprintf("%x", rec), "cfg": cfg.String()})
			}
			if !useSni {
				out.Case(fmt.Sprintf("CRematch %s %s %s %s %s %s %s %d", vC07B(prevRec), vC07B(rec), cBool(useAlpn), vC07SL(ac), second.verdict, cBool(second.set), vC07B([]byte(second.name)), second.version),
					"rematch:hello", true, nil)
			}
			plain := [][]byte{[]byte("GET / HTTP/1.1\r\nHost: inner.example\r\n\r\n"), []byte("SSH-2.0-OpenSSH_9.6\r\n"), append([]byte{0x17}, rec[1:]...), {0, 0, 0, 8, 4, 210, 22, 47}, r.Bytes(5 + r.Intn(40))}[r.Intn(5)]
			if plain[0] == 0x16 {
				plain[0] = 0x15
			}
			_, lineage = vC07MatchOn(nil, rec, nil)
			third, _ := vC07MatchOn(lineage, plain, nil)
			if third.verdict != "No" {
				out.Fail("C07:rematch:non-handshake-matched", fmt.Sprintf("bare tls matcher on a non-TLS inner stream %q of a connection whose outer stream carried a hello: answered %s", plain, third.verdict),
					map[string]any{"outer": fmt.Sprintf("%x", rec), "inner": fmt.Sprintf("%x", plain)})
			}
			out.Case(fmt.Sprintf("CRematch %s %s false [] %s %s %s %d", vC07B(rec), vC07B(plain), third.verdict, cBool(third.set), vC07B([]byte(third.name)), third.version),
				"rematch:plain", true, nil)
		}
		if expectOk {
			prevRec, prevName = rec, seen.name
		}

		// RFC 8446 5.1: a handshake message may be fragmented across several records; crypto/tls
		// servers reassemble it.  The same hello, split in two records at a generated point.
		if i%6 == 0 {
			hsb := rec[5:]
			var k int
			switch r.Intn(4) {
			case 0:
				k = 1 + r.Intn(4) // inside the handshake header
			case 1:
				k = 4 + 2 + 32 + 1 + len(h.sid) // right after the session id
			case 2:
				k = len(hsb) - 1 - r.Intn(8)
			default:
				k = 1 + r.Intn(len(hsb)-1)
			}
			if k < 1 {
				k = 1
			}
			if k > len(hsb)-1 {
				k = len(hsb) - 1
			}
			frag := append(append([]byte{0x16}, rec[1:3]...), vVec(2, hsb[:k])...)
			frag = append(frag, append(append([]byte{0x16}, rec[1:3]...), vVec(2, hsb[k:])...)...)
			fdesc := map[string]any{"cfg": cfg.String(), "mutations": muts, "split_at": k, "bytes": fmt.Sprintf("%x", frag)}
			fseen := vC07Server(frag)
			stats["fragmented"]++
			if !fseen.called {
				t.Errorf("crypto/tls server did not accept a hello fragmented at %d: %s", k, fseen.hsError)
			} else {
				fm := vC07Match(frag, subs)
				finfo := parseRawClientHello(frag[5 : 5+k])
				var diffs []string
				if fseen.name != finfo.ClientHelloInfo.ServerName || !fm.set || fm.name != fseen.name {
					diffs = append(diffs, fmt.Sprintf("server name: server %q, matcher %q (placeholder set=%v %q)", fseen.name, finfo.ClientHelloInfo.ServerName, fm.set, fm.name))
				}
				if !vC07StrEq(fseen.protos, finfo.ClientHelloInfo.SupportedProtos) {
					diffs = append(diffs, fmt.Sprintf("ALPN: server %q, matcher %q", fseen.protos, finfo.ClientHelloInfo.SupportedProtos))
				}
				if !vC07U16eq(fseen.vers, finfo.ClientHelloInfo.SupportedVersions) {
					diffs = append(diffs, fmt.Sprintf("versions: server %#x, matcher %#x", fseen.vers, finfo.ClientHelloInfo.SupportedVersions))
				}
				if !vC07U16eq(fseen.suites, finfo.ClientHelloInfo.CipherSuites) {
					diffs = append(diffs, "cipher suites")
				}
				if !vC07U16eq(fseen.curves, vC07Curves(finfo.ClientHelloInfo.SupportedCurves)) {
					diffs = append(diffs, "curves")
				}
				if len(diffs) > 0 {
					stats["fragmented-fields-differ"]++
					out.Fail("C07:fragmented-hello:fields-differ", fmt.Sprintf("ClientHello split into two TLS records after %d of %d handshake bytes: the matcher parses the first record only; %s",
						k, len(hsb), strings.Join(diffs, "; ")), fdesc)
				}
				if (fm.verdict == "Yes") != want || (fm.verdict != "Yes" && fm.verdict != "No") {
					stats["fragmented-verdict-differs"]++
					out.Fail("C07:fragmented-hello:verdict-differs", fmt.Sprintf("ClientHello split into two TLS records after %d of %d handshake bytes: tls matcher (sni %q used=%v, alpn %q used=%v) answered %s; deciding on the crypto/tls server's view gives %v",
						k, len(hsb), sc, useSni, ac, useAlpn, fm.verdict, want), fdesc)
				}
				if !useSni {
					out.Case(fmt.Sprintf("CGate %s %s %s %s %s %s %d", vC07B(frag), cBool(useAlpn), vC07SL(ac), fm.verdict, cBool(fm.set), vC07B([]byte(fm.name)), fm.version),
						"gate:fragmented", true, nil)
				}
			}
		}
	}

	// the gate: proper prefixes of a record are never decided; other record types never match
	prefixes := 0
	for gi, rec := range gateRecords {
		var subs []caddytls.ConnectionMatcher
		useAlpn := gi%2 == 0
		ac := MatchALPN{"h2", "http/1.1"}
		if useAlpn {
			subs = append(subs, &ac)
		}
		sample := map[int]bool{0: true, 4: true, 5: true, 6: true, len(rec) - 1: true, 5 + r.Intn(len(rec)-5): true}
		for l := 0; l < len(rec); l++ {
			if len(gateRecords) > 25 && gi >= 25 && !sample[l] {
				continue // all prefixes for the first 25 records, sampled ones for the rest
			}
			mr := vC07Match(rec[:l], subs)
			prefixes++
			if mr.verdict != "More" || mr.set {
				out.Fail("C07:gate:incomplete-decided", fmt.Sprintf("prefix of %d bytes of a %d-byte ClientHello record: matcher answered %s (placeholders set=%v) instead of asking for more",
					l, len(rec), mr.verdict, mr.set), map[string]any{"prefix_len": l, "record": fmt.Sprintf("%x", rec)})
			}
			if sample[l] {
				out.Case(fmt.Sprintf("CGate %s %s %s %s %s %s %d", vC07B(rec[:l]), cBool(useAlpn), vC07SL(ac), mr.verdict, cBool(mr.set), vC07B([]byte(mr.name)), mr.version),
					"gate:prefix", l >= 5, nil)
			}
		}
		// the record followed by bytes of the next flight is decided on the record alone
		ext := append(append([]byte{}, rec...), r.Bytes(1+r.Intn(20))...)
		m1, m2 := vC07Match(rec, subs), vC07Match(ext, subs)
		if m1 != m2 || (m1.verdict != "Yes" && m1.verdict != "No") {
			out.Fail("C07:gate:trailing-bytes-change-answer", fmt.Sprintf("record alone: %+v, record followed by more bytes: %+v", m1, m2), map[string]any{"record": fmt.Sprintf("%x", rec)})
		}
		out.Case(fmt.Sprintf("CGate %s %s %s %s %s %s %d", vC07B(ext), cBool(useAlpn), vC07SL(ac), m2.verdict, cBool(m2.set), vC07B([]byte(m2.name)), m2.version),
			"gate:trailing", true, nil)
	}
	stats["gate-prefixes-checked"] = prefixes
	if len(gateRecords) > 0 {
		base := gateRecords[0]
		for b := 0; b < 256; b++ {
			if b == 0x16 {
				continue
			}
			p := append([]byte{byte(b)}, base[1:]...)
			for _, l := range []int{5, 6, len(p)} {
				mr := vC07Match(p[:l], nil)
				if mr.verdict != "No" || mr.set {
					out.Fail("C07:gate:non-handshake-matched", fmt.Sprintf("record type %#x (%d bytes available): matcher answered %s, placeholders set=%v", b, l, mr.verdict, mr.set),
						map[string]any{"bytes": fmt.Sprintf("%x", p[:l])})
				}
				if (l == 6 && b%3 == 0) || (l == len(p) && b%32 == 7) {
					out.Case(fmt.Sprintf("CGate %s false [] %s %s %s %d", vC07B(p[:l]), mr.verdict, cBool(mr.set), vC07B([]byte(mr.name)), mr.version),
						"gate:other-type", true, nil)
				}
			}
		}
		// degenerate records
		for _, p := range [][]byte{{0x16, 3, 1, 0, 0}, {0x16, 3, 1, 0, 0, 9}, {0x16, 0, 0, 0, 1, 1}, {0x16, 3, 3, 0, 4, 1, 0, 0, 0}, {0x16, 3, 3, 0, 6, 1, 0, 0, 2, 3, 3},
			{0x16, 3, 3, 0xff, 0xff}, {0x15, 3, 3, 0, 2, 2, 40}, {0x17, 3, 3, 0, 0}, {0x80, 0x2e, 1, 3, 1}} {
			mr := vC07Match(p, nil)
			out.Case(fmt.Sprintf("CGate %s false [] %s %s %s %d", vC07B(p), mr.verdict, cBool(mr.set), vC07B([]byte(mr.name)), mr.version), "gate:degenerate", false, nil)
		}
	}

	vC07Nested(t, out, r, stats)

	keys := make([]string, 0, len(stats))
	for k := range stats {
		keys = append(keys, k)
	}
	sort.Strings(keys)
	for _, k := range keys {
		out.Stat(k, stats[k])
	}
	out.Stat("hellos", hellos)
	out.Stat("gate-records", len(gateRecords))
	if stats["server-accepted"] < hellos/2 {
		t.Errorf("only %d of %d hellos were accepted by the crypto/tls server: the generator is off", stats["server-accepted"], hellos)
	}
}

// ---------------------------------------------------------------- TLS inside TLS through real routes
// A compiled RouteList: [tls{sni outer} -> terminate] then routes with tls matchers that look at
// the inner stream, and a crypto/tls client that runs an inner session (or plain bytes) inside the
// outer one.  The terminate handler does what l4tls.Handler.Handle does (tls.Server over cx,
// handshake, next.Handle(cx.Wrap(tlsConn))) with a throw-away certificate instead of the tls app.
var vC07NestedState struct {
	sync.Mutex
	cert     tls.Certificate
	route    string
	rendered string
}

type vC07Terminate struct{}

func (vC07Terminate) CaddyModule() caddy.ModuleInfo {
	return caddy.ModuleInfo{ID: "layer4.handlers.verif_c07_terminate", New: func() caddy.Module { return new(vC07Terminate) }}
}
func (vC07Terminate) Handle(cx *layer4.Connection, next layer4.Handler) error {
	tc := tls.Server(cx, &tls.Config{Certificates: []tls.Certificate{vC07NestedState.cert}, NextProtos: []string{"outer-proto"}})
	if err := tc.Handshake(); err != nil {
		return err
	}
	return next.Handle(cx.Wrap(tc))
}

type vC07Record struct {
	Name string `json:"name,omitempty"`
}

func (vC07Record) CaddyModule() caddy.ModuleInfo {
	return caddy.ModuleInfo{ID: "layer4.handlers.verif_c07_record", New: func() caddy.Module { return new(vC07Record) }}
}
func (h *vC07Record) Handle(cx *layer4.Connection, _ layer4.Handler) error {
	repl := cx.Context.Value(layer4.ReplacerCtxKey).(*caddy.Replacer)
	vC07NestedState.Lock()
	vC07NestedState.route = h.Name
	vC07NestedState.rendered = repl.ReplaceAll("{l4.tls.server_name}|{l4.tls.version}", "<unset>")
	vC07NestedState.Unlock()
	return nil
}

func vC07RunNested(routesJSON string, outerName string, inner func(outer *tls.Conn)) (route, rendered string, err error) {
	vC07NestedState.Lock()
	vC07NestedState.route, vC07NestedState.rendered = "", ""
	vC07NestedState.Unlock()
	ctx, cancel := caddy.NewContext(caddy.Context{Context: context.Background()})
	defer cancel()
	var routes layer4.RouteList
	if err := json.Unmarshal([]byte(routesJSON), &routes); err != nil {
		return "", "", err
	}
	if err := routes.Provision(ctx); err != nil {
		return "", "", err
	}
	compiled := routes.Compile(zap.NewNop(), 10*time.Second, layer4.HandlerFunc(func(cx *layer4.Connection) error {
		vC07NestedState.Lock()
		vC07NestedState.route = "fallthrough"
		vC07NestedState.Unlock()
		return nil
	}))
	cli, srv := net.Pipe()
	cli.SetDeadline(time.Now().Add(20 * time.Second))
	srv.SetDeadline(time.Now().Add(20 * time.Second))
	done := make(chan struct{})
	go func() {
		defer close(done)
		outer := tls.Client(cli, &tls.Config{ServerName: outerName, NextProtos: []string{"outer-proto"}, InsecureSkipVerify: true})
		if err := outer.Handshake(); err != nil {
			return
		}
		inner(outer)
	}()
	cx := layer4.WrapConnection(srv, []byte{}, zap.NewNop())
	herr := compiled.Handle(cx)
	srv.Close()
	cli.Close()
	<-done
	vC07NestedState.Lock()
	defer vC07NestedState.Unlock()
	return vC07NestedState.route, vC07NestedState.rendered, herr
}

var vC07NestedOnce sync.Once

func vC07Nested(t *testing.T, out *vOut, r *vRng, stats map[string]int) {
	cert, err := vC07Cert()
	if err != nil {
		out.Stat("nested-setup-failed", fmt.Sprint(err))
		return
	}
	vC07NestedOnce.Do(func() {
		caddy.RegisterModule(vC07Terminate{})
		caddy.RegisterModule(vC07Record{})
	})
	vC07NestedState.cert = cert
	n := 6
	if vThorough() {
		n = 24
	}
	for k := 0; k < n; k++ {
		outerName := []string{"outer.example", "edge.example.net", "a.b.outer.test"}[r.Intn(3)]
		innerName := []string{"inner.example", "deep.inner.example.org", "x.test"}[r.Intn(3)]
		innerProto := []string{"inner-proto", "h2", "acme-tls/1"}[r.Intn(3)]
		minv := []uint16{tls.VersionTLS12, tls.VersionTLS13}[r.Intn(2)]
		kind := k % 3 // 0: inner TLS routed by alpn first, 1: inner TLS routed by sni first, 2: plain bytes inside
		alpnRoute := fmt.Sprintf(`{"match":[{"tls":{"alpn":[%q]}}], "handle":[{"handler":"verif_c07_record","name":"inner-alpn"}]}`, innerProto)
		sniRoute := fmt.Sprintf(`{"match":[{"tls":{"sni":[%q]}}], "handle":[{"handler":"verif_c07_record","name":"inner-sni"}]}`, innerName)
		first, second := alpnRoute, sniRoute
		wantRoute := "inner-alpn"
		if kind == 1 {
			first, second = sniRoute, alpnRoute
			wantRoute = "inner-sni"
		}
		routes := fmt.Sprintf(`[
			{"match":[{"tls":{"sni":[%q]}}], "handle":[{"handler":"verif_c07_terminate"}]},
			%s,
			%s,
			{"match":[{"tls":{"sni":[%q]}}], "handle":[{"handler":"verif_c07_record","name":"outer-again"}]},
			{"match":[{"tls":{}}], "handle":[{"handler":"verif_c07_record","name":"tls-other"}]}
		]`, outerName, first, second, outerName)
		desc := map[string]any{"outer_sni": outerName, "inner_sni": innerName, "inner_alpn": innerProto, "kind": kind, "routes": routes}
		var route, rendered string
		var herr error
		if kind == 2 {
			plain := [][]byte{[]byte("GET / HTTP/1.1\r\nHost: inner.example\r\n\r\n"), []byte("SSH-2.0-OpenSSH_9.6\r\n"), {0x17, 3, 3, 0, 2, 1, 2}}[r.Intn(3)]
			desc["inner_bytes"] = fmt.Sprintf("%q", plain)
			route, rendered, herr = vC07RunNested(routes, outerName, func(outer *tls.Conn) {
				outer.Write(plain)
				outer.Read(make([]byte, 1))
			})
			stats["nested-plain"]++
			if herr == nil && route != "fallthrough" {
				out.Fail("C07:nested:plain-stream-matched", fmt.Sprintf("a non-TLS stream %q inside a terminated TLS session (outer SNI %q) was taken by route %q; no tls matcher may match it",
					plain, outerName, route), desc)
			}
		} else {
			route, rendered, herr = vC07RunNested(routes, outerName, func(outer *tls.Conn) {
				in := tls.Client(outer, &tls.Config{ServerName: innerName, NextProtos: []string{innerProto}, MinVersion: minv, InsecureSkipVerify: true})
				in.Handshake() // never answered: ends when the server side closes
			})
			stats["nested-tls"]++
			wantR := innerName + "|771"
			if herr == nil && (route != wantRoute || rendered != wantR) {
				out.Fail("C07:nested:inner-hello-stale", fmt.Sprintf("inner TLS session (SNI %q, ALPN %q) inside a terminated session with SNI %q: taken by route %q with placeholders %q; the inner hello calls for route %q with %q",
					innerName, innerProto, outerName, route, rendered, wantRoute, wantR), desc)
			}
		}
		if herr != nil {
			// the scenario did not run to the end (e.g. handshake timed out on a loaded machine): no claim
			stats["nested-incomplete"]++
		}
	}
}
