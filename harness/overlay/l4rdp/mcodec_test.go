package l4rdp

// Engine "mcodec": WireGuard, Winbox and RDP wire-message codecs (C18) and their matchers (C04 no
// panic / bounded allocation, C06 verdict chain over every prefix, C14 verdict vs an independent
// reference written from the wire definition).  Black-box: only exported API is used.
//
// VERIF_PROP selects which family of cases is generated. Every case is printed as a Coq term of
// type ccase (coq/corr/CodecCorr.v) carrying the input and what the implementation answered.

import (
	"bytes"
	"context"
	"encoding/binary"
	"errors"
	"fmt"
	"io"
	"net"
	"os"
	"regexp"
	"runtime"
	"strconv"
	"strings"
	"sync"
	"time"

	"github.com/caddyserver/caddy/v2"
	"go.uber.org/zap"

	"github.com/mholt/caddy-l4/layer4"
	"github.com/mholt/caddy-l4/modules/l4winbox"
	"github.com/mholt/caddy-l4/modules/l4wireguard"
)

// ------------------------------------------------------------------------------------------------
// shared helpers

type mcEnv struct {
	out  *vOut
	rng  *vRng
	seen map[string]bool
	ctx  caddy.Context
	n    int
}

func (e *mcEnv) emit(coq, cls string, nt bool, sample any) {
	if e.seen[coq] {
		return
	}
	e.seen[coq] = true
	e.out.Case(coq, cls, nt, sample)
}

func mcHexList(bs [][]byte) string {
	ss := make([]string, len(bs))
	for i, b := range bs {
		ss[i] = cHex(b)
	}
	return "[" + strings.Join(ss, "; ") + "]"
}

func mcUList(vs []uint64) string {
	ss := make([]string, len(vs))
	for i, v := range vs {
		ss[i] = strconv.FormatUint(v, 10)
	}
	return "[" + strings.Join(ss, "; ") + "]"
}

func mcCat(parts ...[]byte) []byte {
	var o []byte
	for _, p := range parts {
		o = append(o, p...)
	}
	return o
}

func mcU64Eq(a, b []uint64) bool {
	if len(a) != len(b) {
		return false
	}
	for i := range a {
		if a[i] != b[i] {
			return false
		}
	}
	return true
}

func mcBlobsEq(a, b [][]byte) bool {
	if len(a) != len(b) {
		return false
	}
	for i := range a {
		if !bytes.Equal(a[i], b[i]) {
			return false
		}
	}
	return true
}

// ------------------------------------------------------------------------------------------------
// codecs (C18)

type mcCodec struct {
	tag, coq string
	// from parses b with the real FromBytes and re-serialises with the real ToBytes
	from func(b []byte) (ints []uint64, blobs [][]byte, reser []byte, err error)
	// to serialises a value built from the fields
	to func(ints []uint64, blobs [][]byte) []byte
	// gen draws a well-formed value over the full field ranges
	gen func(r *vRng) ([]uint64, [][]byte)
	// validLen tells whether len(b) is a length the wire definition allows for this content
	validLen func(b []byte) bool
	bounds   []int
	// seed gives a valid message used to make inputs of a given length "mostly valid"
	seed func(r *vRng) []byte
}

func mcArr(dst []byte, src []byte) { copy(dst, src) }

func mcCodecs() []mcCodec {
	wgInitBuild := func(ints []uint64, blobs [][]byte) *l4wireguard.MessageInitiation {
		m := &l4wireguard.MessageInitiation{Type: uint32(ints[0]), Sender: uint32(ints[1])}
		mcArr(m.Ephemeral[:], blobs[0])
		mcArr(m.Static[:], blobs[1])
		mcArr(m.Timestamp[:], blobs[2])
		mcArr(m.MAC1[:], blobs[3])
		mcArr(m.MAC2[:], blobs[4])
		return m
	}
	wgInitGen := func(r *vRng) ([]uint64, [][]byte) {
		return []uint64{mcEdge32(r), mcEdge32(r)}, [][]byte{r.Bytes(32), r.Bytes(48), r.Bytes(28), r.Bytes(16), r.Bytes(16)}
	}
	wbBuild := func(ints []uint64, blobs [][]byte) *l4winbox.MessageAuth {
		return &l4winbox.MessageAuth{PublicKeyParity: uint8(ints[0]), PublicKeyBytes: blobs[0], Username: string(blobs[1])}
	}
	tokBuild := func(ints []uint64, blobs [][]byte) *RDPToken {
		return &RDPToken{Version: uint8(ints[0]), Reserved: uint8(ints[1]), Length: uint16(ints[2]), LengthIndicator: uint8(ints[3]),
			TypeCredit: uint8(ints[4]), DstRef: uint16(ints[5]), SrcRef: uint16(ints[6]), ClassOptions: uint8(ints[7]), Optional: blobs[0]}
	}
	return []mcCodec{
		{tag: "wg_initiation", coq: "TWgInit", bounds: []int{l4wireguard.MessageInitiationBytesTotal},
			from: func(b []byte) ([]uint64, [][]byte, []byte, error) {
				m := &l4wireguard.MessageInitiation{}
				if err := m.FromBytes(b); err != nil {
					return nil, nil, nil, err
				}
				o, err := m.ToBytes()
				return []uint64{uint64(m.Type), uint64(m.Sender)},
					[][]byte{m.Ephemeral[:], m.Static[:], m.Timestamp[:], m.MAC1[:], m.MAC2[:]}, o, err
			},
			to:       func(i []uint64, b [][]byte) []byte { o, _ := wgInitBuild(i, b).ToBytes(); return o },
			gen:      wgInitGen,
			validLen: func(b []byte) bool { return len(b) == l4wireguard.MessageInitiationBytesTotal },
			seed:     func(r *vRng) []byte { i, b := wgInitGen(r); o, _ := wgInitBuild(i, b).ToBytes(); return o },
		},
		{tag: "wg_transport", coq: "TWgTransport", bounds: []int{16, l4wireguard.MessageTransportBytesMin},
			from: func(b []byte) ([]uint64, [][]byte, []byte, error) {
				m := &l4wireguard.MessageTransport{}
				if err := m.FromBytes(b); err != nil {
					return nil, nil, nil, err
				}
				o, err := m.ToBytes()
				return []uint64{uint64(m.Type), uint64(m.Receiver), m.Counter}, [][]byte{m.Content}, o, err
			},
			to: func(i []uint64, b [][]byte) []byte {
				o, _ := (&l4wireguard.MessageTransport{Type: uint32(i[0]), Receiver: uint32(i[1]), Counter: i[2], Content: b[0]}).ToBytes()
				return o
			},
			gen: func(r *vRng) ([]uint64, [][]byte) {
				return []uint64{mcEdge32(r), mcEdge32(r), mcEdge64(r)}, [][]byte{r.Bytes([]int{0, 1, 15, 16, 17, 40}[r.Intn(6)])}
			},
			validLen: func(b []byte) bool { return len(b) >= 16 },
			seed:     func(r *vRng) []byte { return mcCat([]byte{4, 0, 0, 0}, r.Bytes(64)) },
		},
		{tag: "winbox_auth", coq: "TWbAuth", bounds: []int{l4winbox.MessageAuthBytesMin, 257, 2 * 257, l4winbox.MessageAuthBytesMax},
			from: func(b []byte) ([]uint64, [][]byte, []byte, error) {
				m := &l4winbox.MessageAuth{}
				if err := m.FromBytes(b); err != nil {
					return nil, nil, nil, err
				}
				return []uint64{uint64(m.PublicKeyParity)}, [][]byte{m.PublicKeyBytes, []byte(m.Username)}, m.ToBytes(), nil
			},
			to: func(i []uint64, b [][]byte) []byte { return wbBuild(i, b).ToBytes() },
			gen: func(r *vRng) ([]uint64, [][]byte) {
				u := mcWbUser(r, mcWbUserLen(r))
				if r.Intn(3) == 0 {
					u = append(u, '+', 'r')
				}
				return []uint64{uint64(r.Intn(2))}, [][]byte{r.Bytes(32), u}
			},
			validLen: func(b []byte) bool { // the chunk headers declare the length
				p := 0
				for p < len(b) {
					l := int(b[p])
					p += 2 + l
					if l < 255 {
						break
					}
				}
				return p == len(b)
			},
			seed: nil, // set below (needs the length)
		},
		{tag: "rdp_tpkt", coq: "TTpkt", bounds: []int{4},
			from: func(b []byte) ([]uint64, [][]byte, []byte, error) {
				h := &TPKTHeader{}
				if err := h.FromBytes(b); err != nil {
					return nil, nil, nil, err
				}
				o, err := h.ToBytes()
				return []uint64{uint64(h.Version), uint64(h.Reserved), uint64(h.Length)}, [][]byte{}, o, err
			},
			to: func(i []uint64, b [][]byte) []byte {
				o, _ := (&TPKTHeader{Version: byte(i[0]), Reserved: byte(i[1]), Length: uint16(i[2])}).ToBytes()
				return o
			},
			gen:      func(r *vRng) ([]uint64, [][]byte) { return []uint64{mcEdge8(r), mcEdge8(r), mcEdge16(r)}, [][]byte{} },
			validLen: func(b []byte) bool { return len(b) == 4 },
			seed:     func(r *vRng) []byte { return mcCat([]byte{3, 0, 0, 19}, r.Bytes(8)) },
		},
		{tag: "rdp_x224", coq: "TX224", bounds: []int{7},
			from: func(b []byte) ([]uint64, [][]byte, []byte, error) {
				x := &X224Crq{}
				if err := x.FromBytes(b); err != nil {
					return nil, nil, nil, err
				}
				o, err := x.ToBytes()
				return []uint64{uint64(x.Length), uint64(x.TypeCredit), uint64(x.DstRef), uint64(x.SrcRef), uint64(x.ClassOptions)}, [][]byte{}, o, err
			},
			to: func(i []uint64, b [][]byte) []byte {
				o, _ := (&X224Crq{Length: uint8(i[0]), TypeCredit: uint8(i[1]), DstRef: uint16(i[2]), SrcRef: uint16(i[3]), ClassOptions: uint8(i[4])}).ToBytes()
				return o
			},
			gen: func(r *vRng) ([]uint64, [][]byte) {
				return []uint64{mcEdge8(r), mcEdge8(r), mcEdge16(r), mcEdge16(r), mcEdge8(r)}, [][]byte{}
			},
			validLen: func(b []byte) bool { return len(b) == 7 },
			seed:     func(r *vRng) []byte { return mcCat([]byte{14, 0xE0, 0, 0, 0, 0, 0}, r.Bytes(8)) },
		},
		{tag: "rdp_negreq", coq: "TNegReq", bounds: []int{8},
			from: func(b []byte) ([]uint64, [][]byte, []byte, error) {
				x := &RDPNegReq{}
				if err := x.FromBytes(b); err != nil {
					return nil, nil, nil, err
				}
				o, err := x.ToBytes()
				return []uint64{uint64(x.Type), uint64(x.Flags), uint64(x.Length), uint64(x.Protocols)}, [][]byte{}, o, err
			},
			to: func(i []uint64, b [][]byte) []byte {
				o, _ := (&RDPNegReq{Type: uint8(i[0]), Flags: uint8(i[1]), Length: uint16(i[2]), Protocols: uint32(i[3])}).ToBytes()
				return o
			},
			gen: func(r *vRng) ([]uint64, [][]byte) {
				return []uint64{mcEdge8(r), mcEdge8(r), mcEdge16(r), mcEdge32(r)}, [][]byte{}
			},
			validLen: func(b []byte) bool { return len(b) == 8 },
			seed:     func(r *vRng) []byte { return mcCat([]byte{1, 0, 8, 0, 3, 0, 0, 0}, r.Bytes(8)) },
		},
		{tag: "rdp_corrinfo", coq: "TCorr", bounds: []int{36},
			from: func(b []byte) ([]uint64, [][]byte, []byte, error) {
				x := &RDPCorrInfo{}
				if err := x.FromBytes(b); err != nil {
					return nil, nil, nil, err
				}
				o, err := x.ToBytes()
				return []uint64{uint64(x.Type), uint64(x.Flags), uint64(x.Length)}, [][]byte{x.Identity[:], x.Reserved[:]}, o, err
			},
			to: func(i []uint64, b [][]byte) []byte {
				x := &RDPCorrInfo{Type: uint8(i[0]), Flags: uint8(i[1]), Length: uint16(i[2])}
				mcArr(x.Identity[:], b[0])
				mcArr(x.Reserved[:], b[1])
				o, _ := x.ToBytes()
				return o
			},
			gen: func(r *vRng) ([]uint64, [][]byte) {
				return []uint64{mcEdge8(r), mcEdge8(r), mcEdge16(r)}, [][]byte{r.Bytes(16), r.Bytes(16)}
			},
			validLen: func(b []byte) bool { return len(b) == 36 },
			seed:     func(r *vRng) []byte { return mcCat([]byte{6, 0, 36, 0}, r.Bytes(16), make([]byte, 16), r.Bytes(8)) },
		},
		{tag: "rdp_token", coq: "TToken", bounds: []int{11, 11 + 36},
			from: func(b []byte) ([]uint64, [][]byte, []byte, error) {
				x := &RDPToken{}
				if err := x.FromBytes(b); err != nil {
					return nil, nil, nil, err
				}
				o, err := x.ToBytes()
				return []uint64{uint64(x.Version), uint64(x.Reserved), uint64(x.Length), uint64(x.LengthIndicator), uint64(x.TypeCredit),
					uint64(x.DstRef), uint64(x.SrcRef), uint64(x.ClassOptions)}, [][]byte{x.Optional}, o, err
			},
			to: func(i []uint64, b [][]byte) []byte { o, _ := tokBuild(i, b).ToBytes(); return o },
			gen: func(r *vRng) ([]uint64, [][]byte) {
				return []uint64{mcEdge8(r), mcEdge8(r), mcEdge16(r), mcEdge8(r), mcEdge8(r), mcEdge16(r), mcEdge16(r), mcEdge8(r)},
					[][]byte{r.Bytes([]int{0, 1, 2, 25, 36, 60}[r.Intn(6)])}
			},
			validLen: func(b []byte) bool { return len(b) >= 11 },
			seed:     func(r *vRng) []byte { return mcCat([]byte{3, 0, 0, 40, 35, 0xE0, 0, 0, 0, 0, 0}, r.Bytes(60)) },
		},
	}
}

func mcEdge(r *vRng, max uint64) uint64 {
	switch r.Intn(6) {
	case 0:
		return 0
	case 1:
		return max
	case 2:
		return 1
	case 3:
		return max - 1
	default:
		return r.U64() & max
	}
}
func mcEdge8(r *vRng) uint64  { return mcEdge(r, 0xff) }
func mcEdge16(r *vRng) uint64 { return mcEdge(r, 0xffff) }
func mcEdge32(r *vRng) uint64 { return mcEdge(r, 0xffffffff) }
func mcEdge64(r *vRng) uint64 { return mcEdge(r, 0xffffffffffffffff) }

const mcAlnum = "0123456789ABCDEFGHIJKLMNOPQRSTUVWXYZabcdefghijklmnopqrstuvwxyz"
const mcInner = mcAlnum + "-#.@_"

func mcWbUserLen(r *vRng) int {
	switch r.Intn(9) {
	case 0:
		return 1
	case 1:
		return 3
	case 8:
		return 2
	case 2: // payload 255 = one full chunk; around it
		return 219 + r.Intn(5)
	case 3:
		return 250 + r.Intn(6)
	case 4: // two full chunks and beyond (FromBytes has no upper bound)
		return 470 + r.Intn(12)
	default:
		return 3 + r.Intn(40)
	}
}

// a username of the documented grammar with exactly n bytes
func mcWbUser(r *vRng, n int) []byte {
	u := make([]byte, n)
	for i := range u {
		if i == 0 || i == n-1 {
			u[i] = mcAlnum[r.Intn(len(mcAlnum))]
		} else {
			u[i] = mcInner[r.Intn(len(mcInner))]
		}
	}
	return u
}

// the wire definition of a Winbox auth message, written independently of ToBytes
func mcWbEncode(user, key []byte, parity byte) []byte {
	payload := mcCat(user, []byte{0}, key, []byte{parity})
	var out []byte
	first := true
	for len(payload) > 0 {
		n := len(payload)
		if n > 255 {
			n = 255
		}
		t := byte(0xFF)
		if first {
			t = 6
		}
		out = append(out, byte(n), t)
		out = append(out, payload[:n]...)
		payload = payload[n:]
		first = false
	}
	return out
}

func mcCodecFrom(e *mcEnv, c *mcCodec, b []byte, near bool) { mcCodecFromAs(e, c, b, near, false) }

// zeros: b is all zero bytes and is written as its length in the case term (long inputs)
func mcCodecFromAs(e *mcEnv, c *mcCodec, b []byte, near bool, zeros bool) {
	in := cHex(b)
	if zeros {
		in = fmt.Sprintf("%d zero bytes", len(b))
	}
	var ints []uint64
	var blobs [][]byte
	var reser []byte
	var err error
	panicked := ""
	func() {
		defer func() {
			if r := recover(); r != nil {
				panicked = fmt.Sprint(r)
			}
		}()
		ints, blobs, reser, err = c.from(b)
	}()
	var res, cls string
	switch {
	case panicked != "":
		res, cls = "RPan", "panic"
		e.out.Fail("C18:"+c.tag+":panic", "FromBytes panicked on a "+strconv.Itoa(len(b))+"-byte input: "+panicked, in)
		e.out.Fail("C04:"+c.tag+":panic", "FromBytes panicked on a "+strconv.Itoa(len(b))+"-byte input: "+panicked, in)
	case err != nil:
		res, cls = "RErr", "err"
	default:
		res, cls = fmt.Sprintf("ROk %s %s %s", mcUList(ints), mcHexList(blobs), cHex(reser)), "ok"
		if !bytes.Equal(reser, b) {
			e.out.Fail("C18:"+c.tag+":to-from-mismatch",
				fmt.Sprintf("ToBytes(FromBytes(b)) != b: %d bytes in, %d bytes out", len(b), len(reser)), in)
		}
		if !c.validLen(b) {
			e.out.Fail("C18:"+c.tag+":accepts-wrong-length",
				fmt.Sprintf("FromBytes accepted %d bytes, which is not a length this message can have", len(b)), in)
		}
	}
	if zeros {
		e.emit(fmt.Sprintf("CFromZeros %s %d (%s)", c.coq, len(b), res), "codec:"+c.tag+":fromzeros:"+cls, near, nil)
		return
	}
	e.emit(fmt.Sprintf("CFrom %s %s (%s)", c.coq, cHex(b), res), "codec:"+c.tag+":from:"+cls, near, nil)
}

func mcCodecTo(e *mcEnv, c *mcCodec, ints []uint64, blobs [][]byte) {
	b := c.to(ints, blobs)
	e.emit(fmt.Sprintf("CTo %s %s %s %s", c.coq, mcUList(ints), mcHexList(blobs), cHex(b)), "codec:"+c.tag+":to", true, nil)
	var i2 []uint64
	var b2 [][]byte
	var err error
	panicked := false
	func() {
		defer func() {
			if r := recover(); r != nil {
				panicked = true
			}
		}()
		i2, b2, _, err = c.from(b)
	}()
	if panicked || err != nil || !mcU64Eq(ints, i2) || !mcBlobsEq(blobs, b2) {
		e.out.Fail("C18:"+c.tag+":from-to-mismatch",
			fmt.Sprintf("FromBytes(ToBytes(x)) != x (panicked=%v err=%v) for x = %v %s", panicked, err, ints, mcHexList(blobs)), cHex(b))
	}
	mcCodecFrom(e, c, b, true)
}

func mcNear(bounds []int, l int) bool {
	for _, b := range bounds {
		if l >= b-2 && l <= b+2 {
			return true
		}
	}
	return false
}

func mcRunCodecs(e *mcEnv) {
	r := e.rng
	for _, c := range mcCodecs() {
		c := c
		maxB := 0
		for _, b := range c.bounds {
			if b > maxB {
				maxB = b
			}
		}
		// every length 0 .. bound+4: random bytes, and a valid message cut / extended to that length
		for l := 0; l <= maxB+4; l++ {
			near := mcNear(c.bounds, l)
			reps := 1
			if near {
				reps = 3
			}
			if c.tag == "winbox_auth" && !near && l%7 != 0 && !vThorough() {
				reps = 0
			}
			for k := 0; k < reps; k++ {
				mcCodecFrom(e, &c, r.Bytes(l), near)
				var s []byte
				if c.tag == "winbox_auth" {
					s = mcWbSeedOfLen(r, l)
				} else {
					s = c.seed(r)
				}
				for len(s) < l {
					s = append(s, r.Bytes(l-len(s))...)
				}
				mcCodecFrom(e, &c, s[:l], near)
			}
		}
		// a valid message followed by 1..3 more bytes; Winbox: the delimiter as the last payload byte
		for k := 0; k < 12; k++ {
			var s []byte
			if c.tag == "winbox_auth" {
				s = mcWbSeedOfLen(r, []int{37, 60, 257, 258, 270, 293, 300}[k%7])
			} else {
				ints, blobs := c.gen(r)
				s = c.to(ints, blobs)
			}
			mcCodecFrom(e, &c, mcCat(s, r.Bytes(1+k%3)), true)
		}
		if c.tag == "winbox_auth" {
			mcCodecFrom(e, &c, mcCat([]byte{35, 6}, bytesRepeat('a', 34), []byte{0}), true)
			mcCodecFrom(e, &c, mcCat([]byte{255, 6}, bytesRepeat('a', 255), []byte{2, 0xFF, 'a', 0}), true)
		}
		// well-formed values over the field ranges, and single-byte corruptions of their encodings
		nv := e.n / 2
		for k := 0; k < nv; k++ {
			ints, blobs := c.gen(r)
			mcCodecTo(e, &c, ints, blobs)
			if k%3 == 0 {
				b := c.to(ints, blobs)
				if len(b) > 0 {
					b = append([]byte(nil), b...)
					b[r.Intn(len(b))] ^= byte(1 + r.Intn(255))
					mcCodecFrom(e, &c, b, true)
				}
			}
		}
	}
	mcRunCongruentLengths(e)
	mcRunRechunk(e)
	mcRunDelims(e)
	mcRunChunks(e)
	mcRunSequences(e)
}

// for every exact length check: lengths congruent to the accepted one modulo 2^8 (valid message followed by
// random bytes) and modulo 2^16 (zero bytes, one shared backing slice) - a length compared after a narrowing
// conversion accepts them and truncates
func mcRunCongruentLengths(e *mcEnv) {
	r := e.rng
	zeros := make([]byte, 3*65536+600)
	for _, c := range mcCodecs() {
		c := c
		exact := map[string]bool{"wg_initiation": true, "rdp_tpkt": true, "rdp_x224": true, "rdp_negreq": true, "rdp_corrinfo": true, "winbox_auth": true}[c.tag]
		for _, bnd := range c.bounds {
			for k := 1; k <= 3; k++ {
				for _, d := range []int{-1, 0, 1} {
					var s []byte
					if c.tag == "winbox_auth" {
						s = mcWbSeedOfLen(r, bnd)
					} else {
						s = c.seed(r)
					}
					if len(s) > bnd {
						s = s[:bnd]
					}
					l := bnd + 256*k + d
					mcCodecFrom(e, &c, mcCat(s, r.Bytes(l-len(s))), true)
					if exact && (d == 0 || k == 1) && (c.tag != "winbox_auth" || bnd == c.bounds[0]) {
						mcCodecFromAs(e, &c, zeros[:bnd+65536*k+d], true, true)
					}
				}
			}
		}
	}
}

// a Winbox payload cut into chunks of the given sizes (headers self-consistent, first type 06, then FF)
func mcWbChunked(payload []byte, sizes []int) []byte {
	var out []byte
	first := true
	for _, n := range sizes {
		t := byte(0xFF)
		if first {
			t = 6
		}
		out = append(out, byte(n), t)
		out = append(out, payload[:n]...)
		payload = payload[n:]
		first = false
	}
	return out
}

// valid payloads RE-CHUNKED at every boundary (two chunks) and at sampled pairs of boundaries (three chunks),
// any piece longer than 255 bytes cut canonically: only the canonical chunking may be accepted
func mcRunRechunk(e *mcEnv) {
	r := e.rng
	var wb *mcCodec
	cs := mcCodecs()
	for i := range cs {
		if cs[i].tag == "winbox_auth" {
			wb = &cs[i]
		}
	}
	split := func(total int, cuts []int) []int { // sizes of the pieces, long pieces cut into 255 + rest
		var sizes []int
		prev := 0
		for _, c := range append(cuts, total) {
			n := c - prev
			for n > 255 {
				sizes = append(sizes, 255)
				n -= 255
			}
			if n > 0 {
				sizes = append(sizes, n)
			}
			prev = c
		}
		return sizes
	}
	for _, ul := range []int{1, 4, 40, 221, 230} {
		payload := mcCat(mcWbUser(r, ul), []byte{0}, r.Bytes(32), []byte{byte(r.Intn(2))})
		n := len(payload)
		for a := 1; a < n; a++ {
			if n > 100 && !vThorough() && a%3 != 0 && a != 255 && a != n-1 && a != 1 {
				continue
			}
			mcCodecFrom(e, wb, mcWbChunked(payload, split(n, []int{a})), true)
			for _, b := range []int{a + 1, a + 2, (a + n) / 2, n - 1} {
				if b > a && b < n && (n <= 100 || a%9 == 0 || vThorough()) {
					mcCodecFrom(e, wb, mcWbChunked(payload, split(n, []int{a, b})), true)
				}
			}
		}
	}
}

// ToBytes is a function of the message (that is what the model says): the slice it returned must still
// hold the serialisation after later ToBytes calls of the same or of other types. Sequences of k = 2..6
// consecutive calls whose results are all compared after the last one, single-threaded (GOMAXPROCS(1), so
// that a pooled scratch buffer would be handed out again at once) and from concurrent callers.
func mcRunSequences(e *mcEnv) {
	r := e.rng
	cs := mcCodecs()
	type held struct {
		c         *mcCodec
		got, want []byte
	}
	check := func(hs []held, how string) {
		for i, h := range hs {
			if !bytes.Equal(h.got, h.want) {
				e.out.Fail("C18:"+h.c.tag+":tobytes-result-aliased",
					fmt.Sprintf("%s: the result of ToBytes call %d of %d changed after later ToBytes calls: was %x, now %x", how, i+1, len(hs), h.want, h.got), cHex(h.want))
			}
		}
	}
	pick := func(same bool, first int, j int) *mcCodec {
		if same {
			return &cs[first]
		}
		return &cs[(first+j*(1+r.Intn(3)))%len(cs)]
	}
	prev := runtime.GOMAXPROCS(1)
	nseq := 0
	for first := range cs {
		for k := 2; k <= 6; k++ {
			for _, same := range []bool{true, false} {
				for rep := 0; rep < 2; rep++ {
					hs := make([]held, 0, k)
					for j := 0; j < k; j++ {
						c := pick(same, first, j)
						ints, blobs := c.gen(r)
						var got []byte
						if rep == 1 && j%2 == 1 { // through FromBytes + ToBytes
							_, _, got, _ = c.from(c.to(ints, blobs))
						} else {
							got = c.to(ints, blobs)
						}
						hs = append(hs, held{c, got, append([]byte(nil), got...)})
					}
					check(hs, "sequence")
					nseq++
				}
			}
		}
	}
	// a request composed from its parts
	for rep := 0; rep < 20; rep++ {
		var hs []held
		for _, tag := range []string{"rdp_tpkt", "rdp_x224", "rdp_token", "rdp_negreq", "rdp_corrinfo"} {
			for i := range cs {
				if cs[i].tag == tag {
					ints, blobs := cs[i].gen(r)
					got := cs[i].to(ints, blobs)
					hs = append(hs, held{&cs[i], got, append([]byte(nil), got...)})
				}
			}
		}
		check(hs, "request composed from its parts")
		nseq++
	}
	runtime.GOMAXPROCS(prev)
	// concurrent callers
	if runtime.GOMAXPROCS(0) < 4 {
		runtime.GOMAXPROCS(4)
	}
	var wg sync.WaitGroup
	var mu sync.Mutex
	for g := 0; g < 8; g++ {
		wg.Add(1)
		rg := vNewRng(vSeed()*131 + int64(g))
		go func(g int) {
			defer wg.Done()
			for it := 0; it < 150; it++ {
				c := &cs[(g+it)%len(cs)]
				ints, blobs := c.gen(rg)
				got := c.to(ints, blobs)
				want := append([]byte(nil), got...)
				runtime.Gosched()
				c2 := &cs[(g+2*it+1)%len(cs)]
				i2, b2 := c2.gen(rg)
				got2 := c2.to(i2, b2)
				want2 := append([]byte(nil), got2...)
				runtime.Gosched()
				if !bytes.Equal(got, want) || !bytes.Equal(got2, want2) {
					mu.Lock()
					check([]held{{c, got, want}, {c2, got2, want2}}, "concurrent callers")
					mu.Unlock()
				}
			}
		}(g)
	}
	wg.Wait()
	runtime.GOMAXPROCS(prev)
	e.out.Stat("tobytes_sequences", nseq)
}

// terminator / delimiter byte patterns of the three protocols
var mcDelims = [][]byte{{0x0D, 0x0A}, {0x0D}, {0x0A}, {0}, {'='}, {'+', 'r'}, {'.'}, {0x0D, 0x0A, 0x0D, 0x0A}, {0xFF}, {0x06}}

// every variable-length part with each delimiter pattern at every position, followed by k = 0..3 more
// bytes (inserted and overwriting): parse-then-serialise, reject-don't-truncate and serialise-then-parse
// oracles plus correspondence cases
func mcRunDelims(e *mcEnv) {
	r := e.rng
	var tok, wgt, wb *mcCodec
	cs := mcCodecs()
	for i := range cs {
		switch cs[i].tag {
		case "rdp_token":
			tok = &cs[i]
		case "wg_transport":
			wgt = &cs[i]
		case "winbox_auth":
			wb = &cs[i]
		}
	}
	variants := func(base []byte, visit func(v []byte)) {
		for p := 0; p <= len(base); p++ {
			for _, d := range mcDelims {
				if !vThorough() && len(base) > 30 && p%3 != 0 && len(d) != 2 {
					continue
				}
				if !vThorough() && p%2 != 0 && p != len(base) && !(len(d) == 2 && d[0] == 0x0D) {
					continue
				}
				for k := 0; k <= 3; k++ {
					// inserted at p, k bytes after it, the rest of the base dropped / kept
					visit(mcCat(base[:p], d, r.Bytes(k)))
					if k == 0 {
						visit(mcCat(base[:p], d, base[p:]))
					}
				}
				if p+len(d) <= len(base) { // overwriting
					v := append([]byte(nil), base...)
					copy(v[p:], d)
					visit(v)
				}
			}
		}
	}
	// RDPToken.Optional (offset 11 onwards)
	for _, opt := range [][]byte{[]byte("Cookie: msts=1.2.0000\r\n"), []byte("Cookie: msts=167772170.15629.0000\r\n"), []byte("abcdefgh"), {}} {
		variants(opt, func(v []byte) {
			l := 11 + len(v)
			hdr := []byte{3, 0, byte(l >> 8), byte(l), byte(l - 5), 0xE0, 0, 0, 0, 0, 0}
			mcCodecFrom(e, tok, mcCat(hdr, v), true)
			mcCodecTo(e, tok, []uint64{3, 0, uint64(l), uint64(byte(l - 5)), 0xE0, 0, 0, 0}, [][]byte{v})
		})
	}
	// MessageTransport.Content (offset 16 onwards)
	for _, content := range [][]byte{r.Bytes(16), {}} {
		variants(content, func(v []byte) {
			mcCodecFrom(e, wgt, mcCat([]byte{4, 0, 0, 0, 1, 2, 3, 4, 9, 0, 0, 0, 0, 0, 0, 0}, v), true)
			mcCodecTo(e, wgt, []uint64{4, 0x04030201, 9}, [][]byte{v})
		})
	}
	// Winbox: every chunk header byte (length and type) of 1-, 2- and 3-chunk messages set to the interesting
	// values and to the neighbours of the right one (to-from oracle on whatever is accepted)
	for _, ul := range []int{10, 221, 222, 230, 476, 480} {
		msg := mcWbEncode(mcWbUser(r, ul), r.Bytes(32), byte(r.Intn(2)))
		for off := 0; off < len(msg); off += 257 {
			for j := 0; j < 2 && off+j < len(msg); j++ {
				o := msg[off+j]
				for _, v := range []byte{0x00, 0x01, 0x06, 0xFE, 0xFF, o - 1, o + 1, o - 2, o + 2} {
					if v == o {
						continue
					}
					b := append([]byte(nil), msg...)
					b[off+j] = v
					mcCodecFrom(e, wb, b, true)
				}
			}
		}
	}
	// Winbox: the payload (user name, NUL, key, parity) of a one-chunk and of a two-chunk message with each
	// delimiter byte written at every position; the user name part also through ToBytes
	for _, ul := range []int{4, 230} {
		u := mcWbUser(r, ul)
		key := r.Bytes(32)
		for i := range key {
			if key[i] == 0 {
				key[i] = 1
			}
		}
		msg := mcWbEncode(u, key, 1)
		for p := 2; p < len(msg); p++ {
			if p == 257 || p == 258 {
				continue // chunk header bytes: covered by the chunk corruptions
			}
			for _, d := range []byte{0, '+', 'r', 0x0D, 0x0A, '=', 0xFF, 0x06} {
				if ul > 100 && !vThorough() && p%5 != 0 && d != 0 {
					continue
				}
				v := append([]byte(nil), msg...)
				v[p] = d
				mcCodecFrom(e, wb, v, true)
			}
		}
		for p := 0; p <= len(u); p++ {
			if ul > 100 && !vThorough() && p%7 != 0 {
				continue
			}
			for _, d := range [][]byte{{0}, {'+', 'r'}, {'+'}, {0x0D, 0x0A}, {'='}} {
				mcCodecFrom(e, wb, mcWbEncode(mcCat(u[:p], d, u[p:]), key, 1), true)
				mcCodecFrom(e, wb, mcWbEncode(mcCat(u[:p], d), key, 1), true)
			}
		}
	}
}

// a Winbox message whose total length is l when that is possible (l-2-34 or l-4-34 name bytes), else the closest
func mcWbSeedOfLen(r *vRng, l int) []byte {
	ul := l - 2 - 34
	if l > 257 {
		ul = l - 4 - 34
	}
	if l > 514 {
		ul = l - 6 - 34
	}
	if ul < 1 {
		ul = 1
	}
	return mcWbEncode(mcWbUser(r, ul), r.Bytes(32), byte(r.Intn(2)))
}

// FromChunks / ToChunks called directly, also with chunk lists FromBytes never builds
func mcRunChunks(e *mcEnv) {
	r := e.rng
	chunkTerm := func(cs []*l4winbox.MessageChunk) string {
		ss := make([]string, len(cs))
		for i, c := range cs {
			ss[i] = fmt.Sprintf("(%d, %d, %s)", c.Length, c.Type, cHex(c.Bytes))
		}
		return "[" + strings.Join(ss, "; ") + "]"
	}
	for k := 0; k < e.n/3+20; k++ {
		u := mcWbUser(r, mcWbUserLen(r))
		if r.Intn(3) == 0 {
			u = append(u, '+', 'r')
		}
		m := &l4winbox.MessageAuth{PublicKeyParity: uint8(r.Intn(2)), PublicKeyBytes: r.Bytes(32), Username: string(u)}
		cs := m.ToChunks()
		e.emit(fmt.Sprintf("CToChunks [%d] %s %s", m.PublicKeyParity, mcHexList([][]byte{m.PublicKeyBytes, u}), chunkTerm(cs)),
			"codec:winbox_auth:tochunks", true, nil)
		// copy the chunks (ToChunks slices share one array) and perturb one of them sometimes
		cp := make([]*l4winbox.MessageChunk, len(cs))
		for i, c := range cs {
			cp[i] = &l4winbox.MessageChunk{Bytes: append([]byte(nil), c.Bytes...), Length: c.Length, Type: c.Type}
		}
		mut := r.Intn(7)
		if len(cp) > 0 {
			j := r.Intn(len(cp))
			switch mut {
			case 0:
				cp[j].Type = byte(r.Intn(256))
			case 1:
				cp[j].Length = byte(r.Intn(256))
			case 2:
				cp[j].Bytes = cp[j].Bytes[:r.Intn(len(cp[j].Bytes)+1)]
			case 3:
				cp[j].Bytes[r.Intn(len(cp[j].Bytes))] = 0
			case 4:
				cp = cp[:j]
			}
		}
		m2 := &l4winbox.MessageAuth{}
		var err error
		panicked := ""
		func() {
			defer func() {
				if rr := recover(); rr != nil {
					panicked = fmt.Sprint(rr)
				}
			}()
			err = m2.FromChunks(cp)
		}()
		res := ""
		switch {
		case panicked != "":
			res = "RPan"
			e.out.Fail("C18:winbox_auth:panic", "FromChunks panicked: "+panicked, chunkTerm(cp))
			e.out.Fail("C04:winbox_auth:panic", "FromChunks panicked: "+panicked, chunkTerm(cp))
		case err != nil:
			res = "RErr"
		default:
			res = fmt.Sprintf("ROk [%d] %s %s", m2.PublicKeyParity, mcHexList([][]byte{m2.PublicKeyBytes, []byte(m2.Username)}), cHex(m2.ToBytes()))
			if mut >= 5 && (m2.Username != string(u) || !bytes.Equal(m2.PublicKeyBytes, m.PublicKeyBytes) || m2.PublicKeyParity != m.PublicKeyParity) {
				e.out.Fail("C18:winbox_auth:from-to-mismatch", "FromChunks(ToChunks(x)) != x", chunkTerm(cp))
			}
		}
		if mut >= 5 && res != "" && !strings.HasPrefix(res, "ROk") {
			e.out.Fail("C18:winbox_auth:from-to-mismatch", "FromChunks(ToChunks(x)) failed: "+res, chunkTerm(cp))
		}
		e.emit(fmt.Sprintf("CFromChunks %s (%s)", chunkTerm(cp), res), "codec:winbox_auth:fromchunks:"+res[:4], true, nil)
	}
}

// ------------------------------------------------------------------------------------------------
// matchers: evaluation in real matching mode

type mcConn struct {
	reads int
	udp   bool
}

func (c *mcConn) Read(p []byte) (int, error)  { c.reads++; return 0, io.EOF }
func (c *mcConn) Write(p []byte) (int, error) { return len(p), nil }
func (c *mcConn) Close() error                { return nil }
func (c *mcConn) LocalAddr() net.Addr {
	if c.udp {
		return &net.UDPAddr{IP: net.IPv4(127, 0, 0, 1), Port: 51820}
	}
	return &net.TCPAddr{IP: net.IPv4(127, 0, 0, 1), Port: 3389}
}
func (c *mcConn) RemoteAddr() net.Addr {
	if c.udp {
		return &net.UDPAddr{IP: net.IPv4(10, 1, 2, 3), Port: 40000}
	}
	return &net.TCPAddr{IP: net.IPv4(10, 1, 2, 3), Port: 40000}
}
func (c *mcConn) SetDeadline(time.Time) error      { return nil }
func (c *mcConn) SetReadDeadline(time.Time) error  { return nil }
func (c *mcConn) SetWriteDeadline(time.Time) error { return nil }

type mcObs struct {
	verdict string
	reads   int
	alloc   uint64
	intact  bool
	panicV  string
}

func mcEval(m layer4.ConnMatcher, prefix []byte, udp bool, measure bool) mcObs {
	conn := &mcConn{udp: udp}
	cx := layer4.WrapConnection(conn, append([]byte(nil), prefix...), zap.NewNop())
	o := mcObs{intact: true}
	var ms0, ms1 runtime.MemStats
	if measure {
		runtime.ReadMemStats(&ms0)
	}
	func() {
		defer func() {
			if r := recover(); r != nil {
				o.verdict, o.panicV = "Panic", fmt.Sprint(r)
			}
		}()
		ok, err := layer4.MatcherSet{m}.Match(cx)
		switch {
		case err == nil && ok:
			o.verdict = "Yes"
		case err == nil:
			o.verdict = "No"
		case errors.Is(err, layer4.ErrConsumedAllPrefetchedBytes) && !ok:
			o.verdict = "More"
		default:
			o.verdict = "Fail"
		}
	}()
	if measure {
		runtime.ReadMemStats(&ms1)
		o.alloc = ms1.TotalAlloc - ms0.TotalAlloc
	}
	o.reads = conn.reads
	if o.verdict != "Panic" && len(prefix) > 0 {
		got := make([]byte, len(prefix))
		n, _ := io.ReadFull(cx, got)
		o.intact = n == len(prefix) && bytes.Equal(got, prefix) && conn.reads == o.reads
	}
	return o
}

type mcMatcher struct {
	tag  string // wireguard | winbox | rdp
	coq  string // Coq term of type mcfg
	m    layer4.ConnMatcher
	udp  bool
	desc string
}

type mcRx struct {
	kind int // 0 none 1 prefix 2 suffix 3 exact 4 contains
	s    string
}

func (x mcRx) pattern() string {
	q := regexp.QuoteMeta(x.s)
	switch x.kind {
	case 1:
		return "^" + q
	case 2:
		return q + "$"
	case 3:
		return "^" + q + "$"
	case 4:
		return q
	}
	return ""
}
func (x mcRx) coq() string {
	switch x.kind {
	case 1:
		return "(XPrefix " + cHex([]byte(x.s)) + ")"
	case 2:
		return "(XSuffix " + cHex([]byte(x.s)) + ")"
	case 3:
		return "(XExact " + cHex([]byte(x.s)) + ")"
	case 4:
		return "(XContains " + cHex([]byte(x.s)) + ")"
	}
	return "XNone"
}
func (x mcRx) match(s []byte) bool {
	switch x.kind {
	case 1:
		return bytes.HasPrefix(s, []byte(x.s))
	case 2:
		return bytes.HasSuffix(s, []byte(x.s))
	case 3:
		return string(s) == x.s
	case 4:
		return bytes.Contains(s, []byte(x.s))
	}
	return true
}

func mcAllocLimit() uint64 { return 16 * uint64(layer4.MaxMatchingBytes) }

// run one matcher on one input: correspondence case + the C04 oracles
func mcMatchCase(e *mcEnv, mt *mcMatcher, in []byte, nt bool, cls string) mcObs {
	o := mcEval(mt.m, in, mt.udp, true)
	if o.verdict == "Panic" {
		e.out.Fail("C04:"+mt.tag+":panic", fmt.Sprintf("Match panicked on %d prefetched bytes (%s): %s", len(in), mt.desc, o.panicV), cHex(in))
	}
	if o.alloc > mcAllocLimit() {
		// retry once: a GC cycle or the runtime itself may have allocated in between
		o2 := mcEval(mt.m, in, mt.udp, true)
		if o2.alloc > mcAllocLimit() {
			e.out.Fail("C04:"+mt.tag+":alloc", fmt.Sprintf("Match allocated %d bytes on %d prefetched bytes (limit %d)", o2.alloc, len(in), mcAllocLimit()), cHex(in))
		}
	}
	if o.reads != 0 || !o.intact {
		e.out.Fail("C06:"+mt.tag+":network-read", fmt.Sprintf("matching read from the socket %d times / changed what is read afterwards (intact=%v)", o.reads, o.intact), cHex(in))
	}
	e.emit(fmt.Sprintf("CMatch (%s) %s %s", mt.coq, cHex(in), o.verdict), "match:"+mt.tag+":"+cls+":"+o.verdict, nt, nil)
	return o
}

// the verdict chain over every prefix of a stream (C06)
func mcChain(e *mcEnv, mt *mcMatcher, stream []byte, cls string) {
	firstNo := -1
	for l := 0; l <= len(stream); l++ {
		p := stream[:l]
		o := mcMatchCase(e, mt, p, l >= 2, cls)
		o2 := mcEval(mt.m, p, mt.udp, false)
		if o2.verdict != o.verdict {
			e.out.Fail("C06:"+mt.tag+":nondeterministic", fmt.Sprintf("two evaluations of the same %d bytes: %s then %s", l, o.verdict, o2.verdict), cHex(p))
		}
		if firstNo >= 0 && o.verdict != "No" && o.verdict != "Panic" {
			e.out.Fail("C06:"+mt.tag+":no-then-not-no",
				fmt.Sprintf("No on the first %d bytes, %s on the first %d bytes of a %d-byte stream (%s)", firstNo, o.verdict, l, len(stream), mt.desc),
				cHex(stream[:l]))
			firstNo = -1 // one report per stream
			return
		}
		if o.verdict == "No" && firstNo < 0 {
			firstNo = l
		}
	}
}

var _ = binary.LittleEndian
var _ = context.Background
var _ = os.Getenv
