package l4rdp

// Engine "mcodec", part 2: matcher configurations, per-protocol generators with their reference
// predicates (written from the wire definitions and the documented options, not from the
// matchers' control flow), and the test entry point.

import (
	"context"
	"encoding/binary"
	"fmt"
	"net/netip"
	"os"
	"strconv"
	"strings"
	"testing"

	"github.com/caddyserver/caddy/v2"

	"github.com/mholt/caddy-l4/modules/l4winbox"
	"github.com/mholt/caddy-l4/modules/l4wireguard"
)

const (
	mcYes     = 1 // the reference says the message matches
	mcNotYes  = 2 // the reference says it must not match
	mcUnknown = 0 // the wire definition leaves it open / by-design choice of the matcher: correspondence only
)

func mcRef(e *mcEnv, mt *mcMatcher, in []byte, expect int, cls, what string, yesKey, noKey string) {
	o := mcMatchCase(e, mt, in, true, cls)
	if o.verdict == "Panic" {
		return
	}
	if expect == mcYes && o.verdict != "Yes" {
		k := "rejects-valid"
		if yesKey != "" {
			k += "-" + yesKey
		}
		e.out.Fail("C14:"+mt.tag+":"+k, fmt.Sprintf("%s: reference says match, matcher says %s (%s)", what, o.verdict, mt.desc), cHex(in))
	}
	if expect == mcNotYes && o.verdict == "Yes" {
		k := "accepts-invalid"
		if noKey != "" {
			k += "-" + noKey
		}
		e.out.Fail("C14:"+mt.tag+":"+k, fmt.Sprintf("%s: reference says no match, matcher says Yes (%s)", what, mt.desc), cHex(in))
	}
}

// ------------------------------------------------------------------------------------------------
// WireGuard

type mcWgCfg struct {
	zero uint32
	mt   *mcMatcher
}

func mcWgCfgs(e *mcEnv) []mcWgCfg {
	var out []mcWgCfg
	for _, z := range []uint32{0, 4285988864, 0xAB, 0x12345678, 0xFFFFFFFF, 0x00000100} {
		m := &l4wireguard.MatchWireGuard{Zero: z}
		if err := m.Provision(e.ctx); err != nil {
			panic(err)
		}
		out = append(out, mcWgCfg{z, &mcMatcher{tag: "wireguard", coq: fmt.Sprintf("MWg %d", z), m: m, udp: true, desc: fmt.Sprintf("zero=%#x", z)}})
	}
	return out
}

// a datagram of length l whose first four bytes are kind, reserved[3]
func mcWgMsg(r *vRng, kind byte, rsv [3]byte, l int) []byte {
	b := r.Bytes(l)
	h := []byte{kind, rsv[0], rsv[1], rsv[2]}
	copy(b, h)
	return b
}

func mcWgExpect(z uint32, b []byte) int {
	if len(b) == 0 {
		return mcUnknown
	}
	if len(b) < 4 {
		return mcNotYes
	}
	rsvOK := b[1] == byte(z>>8) && b[2] == byte(z>>16) && b[3] == byte(z>>24)
	if rsvOK && ((b[0] == 1 && len(b) == 148) || (b[0] == 4 && len(b) == 32)) {
		return mcYes
	}
	return mcNotYes
}

func mcRunWg(e *mcEnv, prop string) {
	r := e.rng
	for _, cf := range mcWgCfgs(e) {
		z := cf.zero
		good := [3]byte{byte(z >> 8), byte(z >> 16), byte(z >> 24)}
		try := func(b []byte, cls string) {
			mcRef(e, cf.mt, b, mcWgExpect(z, b), cls, "wireguard datagram", "", "")
		}
		// every length around the two sizes with the right and wrong message kinds
		for l := 0; l <= 152; l++ {
			if !(l <= 8 || (l >= 28 && l <= 36) || (l >= 144) || l%16 == 0 || vThorough()) {
				continue
			}
			try(mcWgMsg(r, 1, good, l), "len-init")
			try(mcWgMsg(r, 4, good, l), "len-transport")
			if l%4 == 0 {
				try(r.Bytes(l), "random")
			}
		}
		for _, l := range []int{148, 32, 92, 64} {
			for _, k := range []byte{0, 1, 2, 3, 4, 5, 0x81, 0xFF} {
				try(mcWgMsg(r, k, good, l), "kind")
			}
			// single-field corruptions of the reserved bytes
			for i := 0; i < 3; i++ {
				for _, d := range []byte{1, 0x80, 0xFF} {
					bad := good
					bad[i] ^= d
					try(mcWgMsg(r, 1, bad, l), "reserved")
					try(mcWgMsg(r, 4, bad, l), "reserved")
				}
			}
		}
		for k := 0; k < e.n/6; k++ {
			try(mcWgMsg(r, []byte{1, 4}[r.Intn(2)], [3]byte{byte(r.U64()), byte(r.U64()), byte(r.U64())}, []int{148, 32}[r.Intn(2)]), "random-reserved")
		}
	}
}

// ------------------------------------------------------------------------------------------------
// Winbox

type mcWbCfg struct {
	std, romon bool
	user       string
	rx         mcRx
	mt         *mcMatcher
}

func mcWbCfgs(e *mcEnv) []mcWbCfg {
	type c struct {
		modes []string
		user  string
		rx    mcRx
	}
	var out []mcWbCfg
	for _, x := range []c{
		{nil, "", mcRx{}},
		{[]string{"standard"}, "", mcRx{}},
		{[]string{"RoMON"}, "", mcRx{}},
		{[]string{"romon", "standard"}, "", mcRx{}},
		{nil, "toms", mcRx{}},
		{nil, "", mcRx{1, "adm"}},
		{nil, "", mcRx{2, "01"}},
		{[]string{"standard"}, "", mcRx{3, "andris"}},
		{nil, "", mcRx{4, "-"}},
		{nil, "toms", mcRx{3, "andris"}}, // username wins over username_regexp
	} {
		m := &l4winbox.MatchWinbox{Modes: x.modes, Username: x.user, UsernameRegexp: x.rx.pattern()}
		if err := m.Provision(e.ctx); err != nil {
			panic(err)
		}
		cf := mcWbCfg{user: x.user, rx: x.rx}
		if len(x.modes) == 0 {
			cf.std, cf.romon = true, true
		}
		for _, md := range x.modes {
			switch strings.ToLower(md) {
			case "standard":
				cf.std = true
			case "romon":
				cf.romon = true
			}
		}
		cf.mt = &mcMatcher{tag: "winbox", m: m, desc: fmt.Sprintf("modes=%v username=%q username_regexp=%q", x.modes, x.user, x.rx.pattern()),
			coq: fmt.Sprintf("MWb %s %s %s %s", cBool(cf.std), cBool(cf.romon), cHex([]byte(x.user)), x.rx.coq())}
		out = append(out, cf)
	}
	return out
}

// the documented username grammar: starts and ends with an alphanumeric, may contain _ . # - @ inside
func mcWbGrammar(u []byte) bool {
	if len(u) == 0 {
		return false
	}
	for i, c := range u {
		al := strings.IndexByte(mcAlnum, c) >= 0
		if !al && (i == 0 || i == len(u)-1 || strings.IndexByte(mcInner, c) < 0) {
			return false
		}
	}
	return true
}

func (cf *mcWbCfg) passes(user []byte, romon bool) bool {
	if romon && !cf.romon || !romon && !cf.std {
		return false
	}
	if cf.user != "" {
		return cf.user == string(user)
	}
	return cf.rx.match(user)
}

func mcWbUsers(r *vRng, cf *mcWbCfg) [][]byte {
	us := [][]byte{[]byte("toms"), []byte("andris"), []byte("admin01"), []byte("a"), []byte("Z"), []byte("a-b"), []byte("x#y.z@w_0"), []byte("ab"), []byte("01")}
	for _, n := range []int{1, 2, 3, 4, 17, 100, 218, 219, 220, 221, 222, 223, 230, 252, 253} {
		us = append(us, mcWbUser(r, n))
	}
	if cf.rx.kind == 1 {
		us = append(us, []byte(cf.rx.s+"x1"))
	}
	if cf.rx.kind == 2 {
		us = append(us, []byte("u"+cf.rx.s))
	}
	return us
}

func mcRunWbC14(e *mcEnv) {
	r := e.rng
	for _, cf := range mcWbCfgs(e) {
		cf := cf
		for _, u := range mcWbUsers(r, &cf) {
			for _, romon := range []bool{false, true} {
				raw := u
				if romon {
					raw = mcCat(u, []byte("+r"))
				}
				key := r.Bytes(32)
				par := byte(r.Intn(2))
				valid := mcWbGrammar(u) && len(raw) <= 255
				exp := mcNotYes
				if valid && cf.passes(u, romon) {
					exp = mcYes
				}
				mcRef(e, cf.mt, mcWbEncode(raw, key, par), exp, "valid", "well-formed auth message", "", "")
				if cf.user != "" || cf.rx.kind != 0 || len(u) > 40 && len(u) < 215 {
					continue
				}
				// single-field corruptions
				nz := func(n int) []byte { // bytes without 0x00
					b := r.Bytes(n)
					for i := range b {
						if b[i] == 0 {
							b[i] = 1
						}
					}
					return b
				}
				bad := func(b []byte, what string) { mcRef(e, cf.mt, b, mcNotYes, "corrupt:"+what, what, "", "") }
				bad(mcWbEncode(raw, key, 2+byte(r.Intn(254))), "parity above 1")
				bad(mcWbEncode(raw, nz(31), par), "31-byte key")
				bad(mcWbEncode(raw, nz(33), par), "33-byte key")
				if len(u) == 2 {
					for _, c := range []byte{'_', '.', '-', ' ', 0x80} {
						bad(mcWbEncode(mcCat([]byte{c, u[1]}, raw[2:]), key, par), "first byte of a two-byte username "+strconv.Quote(string(c)))
						bad(mcWbEncode(mcCat([]byte{u[0], c}, raw[2:]), key, par), "last byte of a two-byte username "+strconv.Quote(string(c)))
					}
				}
				if len(u) >= 3 {
					for _, c := range []byte{'_', '.', ' ', '+', 0x80, '/'} {
						v := append([]byte(nil), u...)
						v[0] = c
						bad(mcWbEncode(mcCat(v, raw[len(u):]), key, par), "first username byte "+strconv.Quote(string(c)))
						v = append([]byte(nil), u...)
						v[len(v)-1] = c
						bad(mcWbEncode(mcCat(v, raw[len(u):]), key, par), "last username byte "+strconv.Quote(string(c)))
					}
					for _, c := range []byte{' ', '+', 0x80, '/', '!', 0x7f} {
						v := append([]byte(nil), u...)
						v[1+r.Intn(len(v)-2)] = c
						bad(mcWbEncode(mcCat(v, raw[len(u):]), key, par), "inner username byte "+strconv.Quote(string(c)))
					}
				}
				if !romon {
					bad(mcWbEncode(nil, key, par), "empty username")
				} else {
					bad(mcWbEncode([]byte("+r"), key, par), "empty username with +r")
				}
				good := mcWbEncode(raw, nz(32), par)
				{ // no delimiter
					b := append([]byte(nil), good...)
					p := 2 + len(raw)
					if p >= 257 {
						p += 2
					}
					if b[p] == 0 {
						b[p] = 'a'
						bad(b, "delimiter replaced")
					}
				}
				for _, t := range []byte{5, 7, 0xFF, 0} {
					b := append([]byte(nil), good...)
					b[1] = t
					bad(b, "first chunk type")
				}
				if len(good) > 257 {
					for _, t := range []byte{6, 0xFE, 0} {
						b := append([]byte(nil), good...)
						b[258] = t
						bad(b, "second chunk type")
					}
					b := append([]byte(nil), good...)
					b[257]++
					mcRef(e, cf.mt, b, mcNotYes, "corrupt:second chunk length+1", "second chunk declares one byte more than sent", "", "")
					b = append([]byte(nil), good...)
					b[257]--
					bad(b, "second chunk length-1")
				}
				{
					b := append([]byte(nil), good...)
					b[0]--
					bad(b, "first chunk length-1")
				}
				bad(mcCat(good, []byte{0}), "one byte after the message")
				bad(mcCat(good, r.Bytes(3)), "three bytes after the message")
			}
		}
		// the two-character usernames the documented grammar allows
		for _, u := range []string{"ab", "Z9", "0a"} {
			exp := mcNotYes
			if cf.passes([]byte(u), false) {
				exp = mcYes
			}
			mcRef(e, cf.mt, mcWbEncode([]byte(u), r.Bytes(32), 1), exp, "valid-2char", "two-character username "+u, "two-char-username", "")
		}
	}
}

func mcWbStreams(r *vRng) [][]byte {
	var out [][]byte
	for _, n := range []int{1, 4, 40, 219, 220, 221, 222, 223, 224, 230, 253, 255} {
		u := mcWbUser(r, n)
		if n == 4 {
			u = []byte("toms")
		}
		out = append(out, mcWbEncode(u, r.Bytes(32), byte(r.Intn(2))))
		if n <= 253 && r.Intn(2) == 0 {
			out = append(out, mcWbEncode(mcCat(u, []byte("+r")), r.Bytes(32), byte(r.Intn(2))))
		}
	}
	n0 := len(out)
	for i := 0; i < n0; i += 2 {
		out = append(out, mcCat(out[i], r.Bytes(1+r.Intn(4))))
	}
	// malformed
	b := append([]byte(nil), out[7]...)
	b[len(b)-1] = 7
	out = append(out, b)
	out = append(out, mcCat([]byte{255, 6}, bytesRepeat('a', 255)))
	out = append(out, mcCat([]byte{255, 6}, bytesRepeat('a', 255), []byte{20, 0xFF}, r.Bytes(20)))
	out = append(out, mcCat([]byte{255, 6}, bytesRepeat('a', 255), []byte{200, 0xFF}, r.Bytes(40)))
	out = append(out, mcCat([]byte{35, 6}, bytesRepeat('a', 34), []byte{0}))
	out = append(out, mcCat([]byte{36, 6}, bytesRepeat('a', 34), []byte{0, 1}))
	return out
}

func bytesRepeat(c byte, n int) []byte {
	b := make([]byte, n)
	for i := range b {
		b[i] = c
	}
	return b
}

// ------------------------------------------------------------------------------------------------
// RDP

type mcRdpCfg struct {
	hash   string
	hashRx mcRx
	ips    []string
	ports  []uint16
	info   string
	infoRx mcRx
	mt     *mcMatcher
	pfx    []netip.Prefix
}

func mcRdpCfgs(e *mcEnv) []*mcRdpCfg {
	long := strings.Repeat("u", 240)
	cfs := []*mcRdpCfg{
		{},
		{hash: "user1"},
		{hashRx: mcRx{1, "adm"}},
		{hash: "admin", hashRx: mcRx{2, "min"}},
		{ips: []string{"10.0.0.0/8"}},
		{ports: []uint16{3389}},
		{ips: []string{"192.168.1.7", "10.0.0.0/8"}, ports: []uint16{3389, 3390}},
		{info: "lb-info-1"},
		{infoRx: mcRx{4, "tenant"}},
		{hash: "user1", ips: []string{"0.0.0.0/0"}},
		{ips: []string{"fd00::/8"}},
		{hash: long},
		{ips: []string{"0.0.0.0/0"}},
		{info: "x", ports: []uint16{1}},
	}
	for _, cf := range cfs {
		m := &MatchRDP{CookieHash: cf.hash, CookieHashRegexp: cf.hashRx.pattern(), CookieIPs: cf.ips, CookiePorts: cf.ports,
			CustomInfo: cf.info, CustomInfoRegexp: cf.infoRx.pattern()}
		if err := m.Provision(e.ctx); err != nil {
			panic(err)
		}
		var ipt []string
		for _, s := range cf.ips {
			var p netip.Prefix
			if strings.Contains(s, "/") {
				p = netip.MustParsePrefix(s)
			} else {
				a := netip.MustParseAddr(s)
				p = netip.PrefixFrom(a, a.BitLen())
			}
			cf.pfx = append(cf.pfx, p)
			if p.Addr().Is4() {
				a := p.Addr().As4()
				ipt = append(ipt, fmt.Sprintf("(%d, %d)", binary.BigEndian.Uint32(a[:]), p.Bits()))
			} else {
				ipt = append(ipt, "(0, (-1))")
			}
		}
		var pt []string
		for _, p := range cf.ports {
			pt = append(pt, strconv.Itoa(int(p)))
		}
		cf.mt = &mcMatcher{tag: "rdp", m: m,
			desc: fmt.Sprintf("cookie_hash=%q cookie_hash_regexp=%q cookie_ips=%v cookie_ports=%v custom_info=%q custom_info_regexp=%q",
				cf.hash, cf.hashRx.pattern(), cf.ips, cf.ports, cf.info, cf.infoRx.pattern()),
			coq: fmt.Sprintf("MRdp %s %s [%s] [%s] %s %s", cHex([]byte(cf.hash)), cf.hashRx.coq(), strings.Join(ipt, "; "), strings.Join(pt, "; "),
				cHex([]byte(cf.info)), cf.infoRx.coq())}
	}
	return cfs
}

const (
	rdNone = iota
	rdCookie
	rdToken
	rdTokenEmpty
	rdCustom
)

// an RDP connection request as the wire definition describes it, plus knobs for corruptions
type mcRdp struct {
	ver, rsv      byte
	lenD, xLenD   int
	tc            byte
	dst, src      uint16
	cls           byte
	kind          int
	hash, info    []byte
	ip            [4]byte
	port          uint16
	routing       []byte // encoded routing element (derived from the fields above unless overridden)
	neg, corr     []byte
	junk          []byte
	flags         byte
	protos        uint32
	hasNeg, hasCo bool
}

func mcRdpCookie(hash []byte) []byte { return mcCat([]byte("Cookie: mstshash="), hash, []byte("\r\n")) }
func mcRdpTokenCookie(ip [4]byte, port uint16) []byte {
	ipNum := binary.LittleEndian.Uint32(ip[:])
	portNum := uint16(port>>8) | uint16(port<<8)
	return []byte(fmt.Sprintf("Cookie: msts=%d.%d.0000\r\n", ipNum, portNum))
}
func mcRdpToken(opt []byte) []byte {
	l := 11 + len(opt)
	return mcCat([]byte{3, 0, byte(l >> 8), byte(l), byte(l - 5), 0xE0, 0, 0, 0, 0, 0}, opt)
}
func mcRdpNeg(flags byte, protos uint32) []byte {
	b := []byte{1, flags, 8, 0, 0, 0, 0, 0}
	binary.LittleEndian.PutUint32(b[4:], protos)
	return b
}
func mcRdpCorr(id []byte) []byte { return mcCat([]byte{6, 0, 36, 0}, id, make([]byte, 16)) }

func (m *mcRdp) encode() []byte {
	payload := mcCat(m.routing, m.neg, m.corr, m.junk)
	total := 11 + len(payload)
	return mcCat([]byte{m.ver, m.rsv, byte((total + m.lenD) >> 8), byte(total + m.lenD), byte(total - 5 + m.xLenD), m.tc,
		byte(m.dst >> 8), byte(m.dst), byte(m.src >> 8), byte(m.src), m.cls}, payload)
}

var mcRdpProtos = func() []uint32 {
	var v []uint32
	for p := uint32(0); p < 32; p++ {
		if p&8 != 0 && p&2 == 0 || p&2 != 0 && p&1 == 0 {
			continue
		}
		v = append(v, p)
	}
	return v
}()

func mcRdpID(r *vRng) []byte {
	id := r.Bytes(16)
	for i := range id {
		if id[i] == 0x0D {
			id[i] = 0x0E
		}
	}
	if id[0] == 0 || id[0] == 0xF4 {
		id[0] = 0x11
	}
	return id
}

const mcHashAlpha = mcAlnum + "/\\ .-_@$"
const mcInfoAlpha = mcAlnum + "-_=;:,"

func mcStr(r *vRng, alpha string, n int) []byte {
	b := make([]byte, n)
	for i := range b {
		b[i] = alpha[r.Intn(len(alpha))]
	}
	return b
}

// a well-formed connection request; want* steer it towards what a configuration is looking for
func mcRdpValid(r *vRng, kind int, cf *mcRdpCfg) *mcRdp {
	m := &mcRdp{ver: 3, tc: 0xE0, kind: kind}
	switch kind {
	case rdCookie:
		switch r.Intn(4) {
		case 0:
			m.hash = []byte("user1")
		case 1:
			m.hash = []byte("admin")
		case 2:
			m.hash = mcCat([]byte("adm"), mcStr(r, mcHashAlpha, r.Intn(6)))
		default:
			m.hash = mcStr(r, mcHashAlpha, 1+r.Intn([]int{9, 9, 40, 180}[r.Intn(4)]))
		}
		if cf != nil && len(cf.hash) > 229 && r.Intn(2) == 0 {
			m.hash = []byte(cf.hash[:[]int{180, 185}[r.Intn(2)]])
		}
		m.routing = mcRdpCookie(m.hash)
	case rdToken:
		switch r.Intn(4) {
		case 0:
			m.ip = [4]byte{10, byte(r.U64()), byte(r.U64()), byte(1 + r.Intn(250))}
		case 1:
			m.ip = [4]byte{192, 168, 1, 7}
		case 2:
			m.ip = [4]byte{11, 0, 0, 1}
		default:
			m.ip = [4]byte{byte(1 + r.Intn(254)), byte(r.U64()), byte(r.U64()), byte(1 + r.Intn(254))}
		}
		m.port = []uint16{3389, 3390, 3391, 443, uint16(1024 + r.Intn(60000))}[r.Intn(5)]
		// steer towards what the configuration is looking for, so that both outcomes of each filter occur
		if cf != nil && len(cf.ports) > 0 && r.Intn(2) == 0 {
			m.port = cf.ports[r.Intn(len(cf.ports))]
		}
		if cf != nil && len(cf.pfx) > 0 && r.Intn(2) == 0 {
			if p := cf.pfx[r.Intn(len(cf.pfx))]; p.Addr().Is4() {
				m.ip = p.Addr().As4()
				if p.Bits() <= 24 {
					m.ip[3] = byte(1 + r.Intn(254))
				}
			}
		}
		m.routing = mcRdpToken(mcRdpTokenCookie(m.ip, m.port))
	case rdTokenEmpty:
		m.routing = mcRdpToken([]byte{})
	case rdCustom:
		switch r.Intn(3) {
		case 0:
			m.info = []byte("lb-info-1")
		case 1:
			m.info = mcCat(mcStr(r, mcInfoAlpha, r.Intn(5)), []byte("tenant"), mcStr(r, mcInfoAlpha, r.Intn(5)))
		default:
			m.info = mcStr(r, mcInfoAlpha, 1+r.Intn(60))
		}
		m.routing = mcCat(m.info, []byte("\r\n"))
	}
	m.hasNeg = kind == rdNone || r.Intn(4) != 0
	if m.hasNeg {
		m.flags = []byte{0, 1, 2, 3, 8, 9, 10, 11}[r.Intn(8)]
		m.protos = mcRdpProtos[r.Intn(len(mcRdpProtos))]
		m.neg = mcRdpNeg(m.flags, m.protos)
		if m.flags&8 != 0 {
			m.hasCo = true
			m.corr = mcRdpCorr(mcRdpID(r))
		}
	}
	return m
}

func (cf *mcRdpCfg) passes(m *mcRdp) bool {
	hashF := cf.hash != "" || cf.hashRx.kind != 0
	ipF := len(cf.ips) > 0 || len(cf.ports) > 0
	infoF := cf.info != "" || cf.infoRx.kind != 0
	n := 0
	for _, b := range []bool{hashF, ipF, infoF} {
		if b {
			n++
		}
	}
	switch {
	case n > 1:
		return false // documented: the three filter families exclude each other
	case hashF:
		want := cf.hash
		if len(want) > 229 {
			want = want[:229]
		}
		return m.kind == rdCookie && (want == "" || want == string(m.hash)) && cf.hashRx.match(m.hash)
	case ipF:
		if m.kind != rdToken {
			return false
		}
		if len(cf.pfx) > 0 {
			ok := false
			for _, p := range cf.pfx {
				if p.Contains(netip.AddrFrom4(m.ip)) {
					ok = true
				}
			}
			if !ok {
				return false
			}
		}
		if len(cf.ports) > 0 {
			ok := false
			for _, p := range cf.ports {
				if p == m.port {
					ok = true
				}
			}
			return ok
		}
		return true
	case infoF:
		return m.kind == rdCustom && (cf.info == "" || cf.info == string(m.info)) && cf.infoRx.match(m.info)
	}
	return true
}

func mcRunRdpC14(e *mcEnv) {
	r := e.rng
	cfgs := mcRdpCfgs(e)
	for ci, cf := range cfgs {
		if ci == 0 {
			mcRunRdpSweep(e, cf)
			mcRunRdpOptionalElements(e, cfgs)
		}
		if ci == 0 || ci == 1 || ci == 6 || ci == 7 {
			mcRunRdpDelims(e, cf)
		}
		noFilter := cf.hash == "" && cf.hashRx.kind == 0 && len(cf.ips) == 0 && len(cf.ports) == 0 && cf.info == "" && cf.infoRx.kind == 0
		ipOnly := cf.hash == "" && cf.hashRx.kind == 0 && cf.info == "" && cf.infoRx.kind == 0 && !noFilter
		reps := e.n / 12
		if reps < 6 {
			reps = 6
		}
		for kind := rdNone; kind <= rdCustom; kind++ {
			for k := 0; k < reps; k++ {
				m := mcRdpValid(r, kind, cf)
				exp := mcNotYes
				if cf.passes(m) {
					exp = mcYes
				}
				if len(m.routing)+len(m.neg)+len(m.corr) == 0 {
					exp = mcUnknown // header-only requests are rejected by a documented choice
				}
				if kind == rdTokenEmpty && exp == mcYes {
					exp = mcUnknown // a routing token without a cookie has no CR LF: the wire definition does not say how it is delimited
				}
				mcRef(e, cf.mt, m.encode(), exp, "valid:"+strconv.Itoa(kind), "well-formed connection request", "", "")
				if !(noFilter || ipOnly && kind == rdToken) || k >= 4 {
					continue
				}
				// single-field corruptions (the reference: not a well-formed request, or fails the filter)
				mut := func(what string, f func(x *mcRdp)) {
					x := *m
					f(&x)
					mcRef(e, cf.mt, x.encode(), mcNotYes, "corrupt:"+what, what, "", "")
				}
				mut("tpkt version", func(x *mcRdp) { x.ver = []byte{0, 2, 4, 0x83}[r.Intn(4)] })
				mut("tpkt reserved", func(x *mcRdp) { x.rsv = byte(1 + r.Intn(255)) })
				mut("tpkt length+1", func(x *mcRdp) { x.lenD = 1 })
				mut("tpkt length-1", func(x *mcRdp) { x.lenD = -1 })
				mut("x224 length+1", func(x *mcRdp) { x.xLenD = 1 })
				mut("x224 length-1", func(x *mcRdp) { x.xLenD = -1 })
				mut("both lengths+1", func(x *mcRdp) { x.lenD, x.xLenD = 1, 1 })
				mut("x224 type/credit", func(x *mcRdp) { x.tc = []byte{0xE1, 0xD0, 0xF0, 0}[r.Intn(4)] })
				mut("x224 dst-ref", func(x *mcRdp) { x.dst = uint16(1 + r.Intn(65535)) })
				mut("x224 src-ref", func(x *mcRdp) { x.src = uint16(1 + r.Intn(65535)) })
				mut("x224 class", func(x *mcRdp) { x.cls = byte(1 + r.Intn(255)) })
				if m.hasNeg {
					mut("negreq type", func(x *mcRdp) { x.neg = append([]byte(nil), x.neg...); x.neg[0] = []byte{0, 2, 3, 6}[r.Intn(4)] })
					mut("negreq length", func(x *mcRdp) { x.neg = append([]byte(nil), x.neg...); x.neg[2] = []byte{0, 7, 9, 36}[r.Intn(4)] })
					mut("negreq length high byte", func(x *mcRdp) { x.neg = append([]byte(nil), x.neg...); x.neg[3] = 1 })
					mut("negreq unknown flag", func(x *mcRdp) { x.neg = mcRdpNeg(x.flags|[]byte{4, 0x10, 0x20, 0x40, 0x80}[r.Intn(5)], x.protos) })
					mut("negreq unknown protocol", func(x *mcRdp) {
						x.neg = mcRdpNeg(x.flags, x.protos|[]uint32{0x20, 0x100, 0x10000, 0x80000000}[r.Intn(4)])
					})
					mut("negreq hybrid without ssl", func(x *mcRdp) { x.neg = mcRdpNeg(x.flags, (x.protos|2)&^1) })
					mut("negreq hybrid_ex without hybrid", func(x *mcRdp) { x.neg = mcRdpNeg(x.flags, (x.protos|8)&^2) })
					if m.hasCo {
						mut("correlation flag without correlation info", func(x *mcRdp) { x.corr = nil })
						mut("correlation info cut short", func(x *mcRdp) { x.corr = x.corr[:35] })
						cm := func(what string, i int, v byte) {
							mut("correlation info "+what, func(x *mcRdp) { x.corr = append([]byte(nil), x.corr...); x.corr[i] = v })
						}
						cm("type", 0, []byte{0, 1, 7}[r.Intn(3)])
						cm("flags", 1, byte(1+r.Intn(255)))
						cm("length", 2, []byte{0, 35, 37}[r.Intn(3)])
						cm("length high byte", 3, 1)
						cm("identity starts with 00", 4, 0)
						cm("identity starts with F4", 4, 0xF4)
						cm("identity contains 0D", 4+r.Intn(16), 0x0D)
						cm("reserved not zero", 20+r.Intn(16), byte(1+r.Intn(255)))
						x := *m
						x.junk = r.Bytes(1 + r.Intn(3))
						for i := range x.junk {
							if x.junk[i] == 0x0D {
								x.junk[i] = 1
							}
						}
						mcRef(e, cf.mt, x.encode(), mcNotYes, "corrupt:junk after correlation info", "bytes after the correlation info inside the declared length",
							"", "trailing-after-corrinfo")
					} else {
						mut("bytes after negreq without the correlation flag", func(x *mcRdp) { x.junk = []byte{1 + byte(r.Intn(12))} })
						mut("correlation info without the flag", func(x *mcRdp) { x.corr = mcRdpCorr(mcRdpID(r)) })
					}
					mut("negreq cut short", func(x *mcRdp) { x.neg = x.neg[:7]; x.corr = nil })
				}
				if ipOnly && kind == rdToken {
					tm := func(what string, opt []byte, fix func(t []byte)) {
						mut("token "+what, func(x *mcRdp) {
							t := mcRdpToken(opt)
							if fix != nil {
								fix(t)
							}
							x.routing = t
						})
					}
					good := mcRdpTokenCookie(m.ip, m.port)
					ipNum := binary.LittleEndian.Uint32(m.ip[:])
					portNum := uint16(m.port>>8) | uint16(m.port<<8)
					tm("version", good, func(t []byte) { t[0] = 2 })
					tm("reserved", good, func(t []byte) { t[1] = 1 })
					tm("length+1", good, func(t []byte) { t[3]++ })
					tm("length indicator", good, func(t []byte) { t[4]++ })
					tm("type/credit", good, func(t []byte) { t[5] = 0xD0 })
					tm("dst-ref", good, func(t []byte) { t[7] = 1 })
					tm("src-ref", good, func(t []byte) { t[8] = 1 })
					tm("class", good, func(t []byte) { t[10] = 1 })
					tm("cookie reserved field", []byte(fmt.Sprintf("Cookie: msts=%d.%d.0001\r\n", ipNum, portNum)), nil)
					tm("cookie prefix", []byte(fmt.Sprintf("Cookie: mstS=%d.%d.0000\r\n", ipNum, portNum)), nil)
					tm("cookie extra separator", []byte(fmt.Sprintf("Cookie: msts=%d.%d.0.0000\r\n", ipNum, portNum)), nil)
					tm("cookie missing port", []byte(fmt.Sprintf("Cookie: msts=%d..0000\r\n", ipNum)), nil)
					tm("cookie ip not a number", []byte(fmt.Sprintf("Cookie: msts=%dx.%d.0000\r\n", ipNum/10, portNum)), nil)
					tm("cookie ip signed", []byte(fmt.Sprintf("Cookie: msts=+%d.%d.0000\r\n", ipNum/10, portNum)), nil)
					tm("cookie ip above 2^32", []byte(fmt.Sprintf("Cookie: msts=4294967296.%d.0000\r\n", portNum)), nil)
					tm("cookie port above 2^16", []byte(fmt.Sprintf("Cookie: msts=%d.65536.0000\r\n", ipNum)), nil)
				}
			}
		}
	}
}

// every value 0..255 of each fixed / flag / enum byte of a connection request (no filters configured):
// the reference says which values the wire definition allows
func mcRunRdpSweep(e *mcEnv, cf *mcRdpCfg) {
	r := e.rng
	for _, withCookie := range []bool{false, true} {
		if withCookie && !vThorough() {
			continue
		}
		base := func() *mcRdp {
			m := &mcRdp{ver: 3, tc: 0xE0}
			if withCookie {
				m.kind, m.hash = rdCookie, []byte("abcd")
				m.routing = mcRdpCookie(m.hash)
			}
			m.hasNeg, m.flags, m.protos = true, 0, 3
			m.neg = mcRdpNeg(0, 3)
			return m
		}
		id := mcRdpID(r)
		try := func(m *mcRdp, ok bool, what string, v int) {
			exp := mcNotYes
			if ok {
				exp = mcYes
			}
			mcRef(e, cf.mt, m.encode(), exp, "sweep:"+what, fmt.Sprintf("%s = %#02x", what, v), "", "")
		}
		for v := 0; v < 256; v++ {
			b := byte(v)
			m := base()
			m.ver = b
			try(m, b == 3, "tpkt version", v)
			m = base()
			m.rsv = b
			try(m, b == 0, "tpkt reserved", v)
			m = base()
			m.tc = b
			try(m, b == 0xE0, "x224 type/credit", v)
			m = base()
			m.dst = uint16(b) << 8
			try(m, b == 0, "x224 dst-ref high byte", v)
			m = base()
			m.dst = uint16(b)
			try(m, b == 0, "x224 dst-ref low byte", v)
			m = base()
			m.src = uint16(b) << 8
			try(m, b == 0, "x224 src-ref high byte", v)
			m = base()
			m.src = uint16(b)
			try(m, b == 0, "x224 src-ref low byte", v)
			m = base()
			m.cls = b
			try(m, b == 0, "x224 class options", v)
			// negotiation request: type, flags (with the correlation info present iff its flag is set), length, protocols
			m = base()
			m.neg[0] = b
			try(m, b == 1, "negreq type", v)
			m = base()
			m.neg = mcRdpNeg(b, 3)
			if b&8 != 0 {
				m.corr = mcRdpCorr(id)
			}
			try(m, b&^0x0B == 0, "negreq flags", v)
			m = base()
			m.neg = mcRdpNeg(b, 3) // the flag byte without / with a correlation info it does not announce
			if b&8 == 0 {
				m.corr = mcRdpCorr(id)
			}
			try(m, false, "negreq flags with the correlation info presence inverted", v)
			m = base()
			m.neg[2] = b
			try(m, b == 8, "negreq length low byte", v)
			m = base()
			m.neg[3] = b
			try(m, b == 0, "negreq length high byte", v)
			for i := 0; i < 4; i++ {
				m = base()
				p := uint32(b) << (8 * i)
				m.neg = mcRdpNeg(0, p)
				ok := p < 32 && !(p&8 != 0 && p&2 == 0) && !(p&2 != 0 && p&1 == 0)
				try(m, ok, fmt.Sprintf("negreq protocols byte %d", i), v)
			}
			// correlation info fixed bytes
			m = base()
			m.neg = mcRdpNeg(8, 3)
			m.corr = mcRdpCorr(id)
			m.corr[0] = b
			try(m, b == 6, "correlation info type", v)
			m = base()
			m.neg = mcRdpNeg(8, 3)
			m.corr = mcRdpCorr(id)
			m.corr[1] = b
			try(m, b == 0, "correlation info flags", v)
			m = base()
			m.neg = mcRdpNeg(8, 3)
			m.corr = mcRdpCorr(id)
			m.corr[2] = b
			try(m, b == 36, "correlation info length low byte", v)
			m = base()
			m.neg = mcRdpNeg(8, 3)
			m.corr = mcRdpCorr(id)
			m.corr[4] = b
			try(m, b != 0 && b != 0xF4 && b != 0x0D, "correlation info identity first byte", v)
			m = base()
			m.neg = mcRdpNeg(8, 3)
			m.corr = mcRdpCorr(id)
			m.corr[20+v%16] = b
			try(m, b == 0, "correlation info reserved byte", v)
		}
	}
}

// the variable parts of a request (cookie hash, custom info, token cookie) with each terminator / delimiter
// pattern at every position, followed by nothing, by more text, by a negotiation request: the wire
// definition does not say what such a request means, so only the correspondence with the model is checked
func mcRunRdpDelims(e *mcEnv, cf *mcRdpCfg) {
	neg := mcRdpNeg(0, 3)
	for _, base := range []string{"Cookie: mstshash=user1", "lb-info-1", "Cookie: msts=167772170.15629.0000"} {
		for p := 0; p <= len(base); p++ {
			for _, d := range [][]byte{{0x0D, 0x0A}, {0x0D}, {0x0A}, {0}, {'='}, {'.'}} {
				if !vThorough() && p%2 != 0 && len(d) != 2 {
					continue
				}
				v := mcCat([]byte(base[:p]), d, []byte(base[p:]), []byte("\r\n"))
				if strings.HasPrefix(base, "Cookie: msts=") {
					v = mcRdpToken(v)
				}
				for _, tail := range [][]byte{nil, neg, {1}} {
					m := &mcRdp{ver: 3, tc: 0xE0, routing: v, neg: tail}
					mcRef(e, cf.mt, m.encode(), mcUnknown, "delims", "delimiter inside a variable part", "", "")
				}
			}
		}
	}
}

// every inner length / indicator field of a request swept around the real size (real-20 .. real+20, 0, 1,
// 255, 65535) while the outer framing keeps describing the real byte count; the TPKT length and the X.224
// length indicator are swept alone and together as well
func mcRunRdpInnerLengths(e *mcEnv, cfs []*mcRdpCfg) {
	r := e.rng
	neg := mcRdpNeg(0, 3)
	negc := mcRdpNeg(8, 3)
	corr := mcRdpCorr(mcRdpID(r))
	type base struct {
		name    string
		payload []byte
		tokLen  int // real token length when the payload starts with a token, else 0
		negOff  int // offset of the negotiation request, -1: none
		corrOff int
	}
	tok := func(opt []byte) []byte { return mcRdpToken(opt) }
	full := tok(mcRdpTokenCookie([4]byte{10, 0, 0, 10}, 3389))
	crlf := tok([]byte("\r\n"))
	cut := tok([]byte("Cookie: msts=\r\n"))
	cookie := mcRdpCookie([]byte("user1"))
	bases := []base{
		{"token", mcCat(full, neg), len(full), len(full), -1},
		{"token-crlf-only", crlf, len(crlf), -1, -1},
		{"token-crlf-only+neg", mcCat(crlf, neg), len(crlf), len(crlf), -1},
		{"token-cut-after-prefix", cut, len(cut), -1, -1},
		{"token-cut-after-prefix+neg+corr", mcCat(cut, negc, corr), len(cut), len(cut), len(cut) + 8},
		{"cookie+neg+corr", mcCat(cookie, negc, corr), 0, len(cookie), len(cookie) + 8},
		{"neg", neg, 0, 0, -1},
	}
	values := func(real int) []int {
		v := []int{0, 1, 255, 65535}
		for d := -20; d <= 20; d++ {
			if real+d >= 0 {
				v = append(v, real+d)
			}
		}
		return v
	}
	run := func(cls string, m *mcRdp) {
		b := m.encode()
		for _, ci := range []int{0, 4, 5} {
			mcMatchCase(e, cfs[ci].mt, b, true, "innerlen:"+cls)
		}
	}
	for _, bs := range bases {
		mk := func(pl []byte) *mcRdp { return &mcRdp{ver: 3, tc: 0xE0, routing: pl} }
		total := 11 + len(bs.payload)
		if bs.tokLen > 0 {
			for _, v := range values(bs.tokLen) {
				// token Length with the indicator following it, the indicator left alone, and the indicator alone
				p := append([]byte(nil), bs.payload...)
				p[2], p[3], p[4] = byte(v>>8), byte(v), byte(v-5)
				run(bs.name+":token-length+indicator", mk(p))
				p = append([]byte(nil), bs.payload...)
				p[2], p[3] = byte(v>>8), byte(v)
				run(bs.name+":token-length", mk(p))
				p = append([]byte(nil), bs.payload...)
				p[4] = byte(v)
				run(bs.name+":token-indicator", mk(p))
			}
		}
		if bs.negOff >= 0 {
			for _, v := range values(8) {
				p := append([]byte(nil), bs.payload...)
				p[bs.negOff+2], p[bs.negOff+3] = byte(v), byte(v>>8)
				run(bs.name+":negreq-length", mk(p))
			}
		}
		if bs.corrOff >= 0 {
			for _, v := range values(36) {
				p := append([]byte(nil), bs.payload...)
				p[bs.corrOff+2], p[bs.corrOff+3] = byte(v), byte(v>>8)
				run(bs.name+":corrinfo-length", mk(p))
			}
		}
		for _, v := range values(total) {
			m := mk(bs.payload)
			m.lenD = v - total
			run(bs.name+":tpkt-length", m)
			m = mk(bs.payload)
			m.lenD, m.xLenD = v-total, v-total
			run(bs.name+":tpkt+x224-length", m)
		}
		for _, v := range values(total - 5) {
			m := mk(bs.payload)
			m.xLenD = v - (total - 5)
			run(bs.name+":x224-indicator", m)
		}
	}
}

// every optional element of the payload (routing element, negotiation request, correlation info) complete,
// truncated at every length 0..full-1 and over-long, with the correlation flag set and unset, the TPKT and
// X.224 lengths always describing the real size
func mcRunRdpOptionalElements(e *mcEnv, cfs []*mcRdpCfg) {
	r := e.rng
	id := mcRdpID(r)
	corr := mcRdpCorr(id)
	routings := [][]byte{nil, mcRdpCookie([]byte("user1")), mcRdpToken(mcRdpTokenCookie([4]byte{10, 0, 0, 10}, 3389)), []byte("lb-info-1\r\n")}
	run := func(cls string, payload []byte) {
		if len(payload) > 248 {
			return
		}
		b := (&mcRdp{ver: 3, tc: 0xE0, routing: payload}).encode()
		for _, ci := range []int{0, 4} {
			mcMatchCase(e, cfs[ci].mt, b, true, "optional:"+cls)
		}
	}
	for ri, rt := range routings {
		for _, flags := range []byte{0, 8, 3, 11} {
			neg := mcRdpNeg(flags, 3)
			// the negotiation request cut at every length, complete, and followed by 1..2 more bytes
			for l := 0; l <= len(neg); l++ {
				run(fmt.Sprintf("r%d:neg-cut", ri), mcCat(rt, neg[:l]))
			}
			run(fmt.Sprintf("r%d:neg-long", ri), mcCat(rt, neg, []byte{0}))
			run(fmt.Sprintf("r%d:neg-long", ri), mcCat(rt, neg, []byte{1, 2}))
			// the correlation info after a complete negotiation request: cut at every length, complete, over-long
			for l := 0; l <= len(corr); l++ {
				run(fmt.Sprintf("r%d:corr-cut", ri), mcCat(rt, neg, corr[:l]))
			}
			run(fmt.Sprintf("r%d:corr-long", ri), mcCat(rt, neg, corr, []byte{0}))
			run(fmt.Sprintf("r%d:corr-long", ri), mcCat(rt, neg, corr, []byte{0, 0}))
			run(fmt.Sprintf("r%d:corr-twice", ri), mcCat(rt, neg, corr, corr))
		}
		// the routing element cut at every length (alone, and followed by the other elements) and over-long
		for l := 0; l <= len(rt); l++ {
			run(fmt.Sprintf("r%d:routing-cut", ri), rt[:l])
			run(fmt.Sprintf("r%d:routing-cut+neg", ri), mcCat(rt[:l], mcRdpNeg(0, 3)))
			run(fmt.Sprintf("r%d:routing-cut+neg+corr", ri), mcCat(rt[:l], mcRdpNeg(8, 3), corr))
		}
		if len(rt) > 0 {
			run(fmt.Sprintf("r%d:routing-long", ri), mcCat(rt, []byte("\r\n")))
			run(fmt.Sprintf("r%d:routing-long", ri), mcCat(rt, []byte{0x0D}))
			run(fmt.Sprintf("r%d:routing-twice", ri), mcCat(rt, rt, mcRdpNeg(0, 3)))
		}
	}
}

// streams for the C04 / C06 runs: valid requests (with trailing data), mutations, CR/LF placements
func mcRdpStreams(r *vRng, n int) [][]byte {
	var out [][]byte
	for kind := rdNone; kind <= rdCustom; kind++ {
		for k := 0; k < n; k++ {
			m := mcRdpValid(r, kind, nil)
			b := m.encode()
			out = append(out, b)
			if k%2 == 0 {
				out = append(out, mcCat(b, r.Bytes(1+r.Intn(3))))
			}
			if k%3 == 0 {
				c := append([]byte(nil), b...)
				c[r.Intn(len(c))] ^= byte(1 + r.Intn(255))
				out = append(out, c)
			}
		}
	}
	hdr := func(pl []byte) []byte {
		m := &mcRdp{ver: 3, tc: 0xE0, routing: pl}
		return m.encode()
	}
	out = append(out, hdr([]byte{0x0D}), hdr([]byte("Cookie: mstshash=abc\r")), hdr([]byte("\r\n")), hdr([]byte("\r\r\n")), hdr([]byte("a\r\n")),
		hdr([]byte("\n\r")), hdr([]byte("Cookie: mstshash=\r\n")), hdr(mcCat([]byte("Cookie: mstshash=abc\r\n"), []byte{1, 0, 8, 0, 0x0D, 0, 0, 0})),
		hdr(mcRdpToken([]byte("\r\n"))), hdr(mcRdpToken([]byte("x\r\n"))), hdr(mcRdpToken([]byte("Cookie: msts=1.1.0000\r\n"))),
		hdr(mcRdpToken([]byte("Cookie: msts=0000000001.00001.0000\r\n"))), hdr(nil))
	for k := 0; k < n; k++ {
		pl := r.Bytes(1 + r.Intn(60))
		for j := 0; j < 3; j++ {
			pl[r.Intn(len(pl))] = []byte{0x0D, 0x0A, 0x0D}[j]
		}
		if k%2 == 0 {
			pl[len(pl)-1] = 0x0D
		}
		out = append(out, hdr(pl))
	}
	return out
}

// ------------------------------------------------------------------------------------------------

func TestVerifMCodec(t *testing.T) {
	out := vOpen()
	defer out.Close()
	ctx, cancel := caddy.NewContext(caddy.Context{Context: context.Background()})
	defer cancel()
	e := &mcEnv{out: out, rng: vNewRng(vSeed()), seen: map[string]bool{}, ctx: ctx, n: vN(120)}
	prop := os.Getenv("VERIF_PROP")
	all := prop == ""
	r := e.rng

	if all || prop == "C18" {
		mcRunCodecs(e)
	}
	if all || prop == "C14" {
		mcRunWg(e, prop)
		mcRunWbC14(e)
		mcRunRdpC14(e)
	}
	if all || prop == "C04" || prop == "C06" {
		// the known hard inputs first
		wb := mcWbCfgs(e)
		rd := mcRdpCfgs(e)
		wg := mcWgCfgs(e)
		nStreams := 3
		if prop == "C04" {
			nStreams = 6
		}
		if vThorough() {
			nStreams *= 4
		}
		wbStreams := mcWbStreams(r)
		rdStreams := mcRdpStreams(r, nStreams)
		if prop == "C06" || all {
			for i, s := range wbStreams {
				mcChain(e, wb[(i*3)%len(wb)].mt, s, "chain")
				if i%4 == 0 {
					mcChain(e, wb[0].mt, s, "chain")
				}
			}
			for i, s := range rdStreams {
				mcChain(e, rd[(i*5)%len(rd)].mt, s, "chain")
				if i%4 == 0 {
					mcChain(e, rd[0].mt, s, "chain")
				}
			}
		}
		if prop == "C04" || all {
			// whole streams and a sample of their prefixes under every configuration family, TCP-like
			// and UDP-like local addresses
			for i, s := range wbStreams {
				for _, cf := range []int{0, 4, 7} {
					mt := *wb[cf].mt
					mt.udp = i%2 == 1
					mcMatchCase(e, &mt, s, true, "stream")
					for _, l := range []int{len(s) - 1, len(s) / 2, 257, 258, 259} {
						if l >= 0 && l <= len(s) {
							mcMatchCase(e, &mt, s[:l], l > 2, "prefix")
						}
					}
				}
			}
			// winbox: every length with a self-consistent first chunk header
			for l := 0; l <= 300; l++ {
				b := mcCat([]byte{byte(l), 6}, bytesRepeat('a', l))
				if l > 255 {
					b = mcCat([]byte{255, 6}, bytesRepeat('a', 255), []byte{byte(l - 255), 0xFF}, bytesRepeat('b', l-255))
				}
				mcMatchCase(e, wb[0].mt, b, l >= 35, "selfconsistent")
				if l >= 36 {
					c := append([]byte(nil), b...)
					c[len(c)-34] = 0
					c[len(c)-1] = 1
					mcMatchCase(e, wb[0].mt, c, true, "selfconsistent")
					c = append([]byte(nil), b...)
					c[len(c)-1] = 0
					mcMatchCase(e, wb[0].mt, c, true, "selfconsistent")
				}
			}
			for i, s := range rdStreams {
				for _, cf := range []int{0, 1, 6, 7} {
					mt := *rd[cf].mt
					mt.udp = i%2 == 1
					mcMatchCase(e, &mt, s, true, "stream")
					for _, l := range []int{len(s) - 1, 11, 12, len(s) / 2} {
						if l >= 0 && l <= len(s) {
							mcMatchCase(e, &mt, s[:l], l > 11, "prefix")
						}
					}
				}
			}
			mcRunRdpInnerLengths(e, rd)
			mcRunRdpOptionalElements(e, rd)
			// rdp: every payload length with consistent headers, random payload
			for l := 0; l <= 252; l++ {
				pl := r.Bytes(l)
				m := &mcRdp{ver: 3, tc: 0xE0, routing: pl}
				if l > 248 {
					m.routing = pl[:248]
					m.junk = pl[248:]
				}
				mcMatchCase(e, rd[0].mt, m.encode(), true, "selfconsistent")
			}
			for k := 0; k < e.n*4; k++ {
				b := r.Bytes(r.Intn(64))
				mcMatchCase(e, rd[k%len(rd)].mt, b, false, "random")
				mcMatchCase(e, wb[k%len(wb)].mt, b, false, "random")
				mt := *wg[k%len(wg)].mt
				mt.udp = k%2 == 0
				mcMatchCase(e, &mt, b, false, "random")
			}
			for l := 0; l <= 152; l++ {
				mcMatchCase(e, wg[l%len(wg)].mt, mcWgMsg(r, []byte{1, 4}[l%2], [3]byte{}, l), l == 148 || l == 32, "len")
			}
		}
	}
	out.Stat("cases", len(e.seen))
}
