package integration

// C01 end-to-end engine. Real caddy-l4 servers (layer4.App started by caddy.Run) are built from
// generated route lists that use the shipped wrapping handlers (proxy_protocol, tee, throttle,
// subroute, echo). The harness registers three modules of its own: a scripted matcher
// ("need k bytes, then yes/no"), a recording handler and an in-memory network ("verifpipe":
// every accepted connection is one end of a net.Pipe, so the client's write sizes are exactly
// the server's read segmentation). A scripted client sends a position-coded stream; the
// ORACLE is the property text: the bytes every recorder read are exactly the expected part of
// the client's stream (nothing lost, duplicated, reordered or altered).

import (
	"bytes"
	"context"
	"crypto/ecdsa"
	"crypto/elliptic"
	"crypto/rand"
	"crypto/tls"
	"crypto/x509"
	"crypto/x509/pkix"
	"encoding/json"
	"encoding/pem"
	"fmt"
	"io"
	"math/big"
	"net"
	"os"
	"reflect"
	"strings"
	"sync"
	"sync/atomic"
	"testing"
	"time"

	"github.com/caddyserver/caddy/v2"

	_ "github.com/mholt/caddy-l4"
	"github.com/mholt/caddy-l4/layer4"
)

// ---------------------------------------------------------------- in-memory network
type vPipeListener struct {
	addr string
	ch   chan net.Conn
	done chan struct{}
	once sync.Once
}
type vPipeAddr string

func (a vPipeAddr) Network() string { return "verifpipe" }
func (a vPipeAddr) String() string  { return string(a) }

func (l *vPipeListener) Accept() (net.Conn, error) {
	select {
	case c := <-l.ch:
		return c, nil
	case <-l.done:
		return nil, net.ErrClosed
	}
}
func (l *vPipeListener) Close() error   { l.once.Do(func() { close(l.done) }); return nil }
func (l *vPipeListener) Addr() net.Addr { return vPipeAddr(l.addr) }

var (
	vPipeMu  sync.Mutex
	vPipeLns = map[string]*vPipeListener{}
)

func vPipeListen(_ context.Context, _ string, addr string, _ net.ListenConfig) (any, error) {
	vPipeMu.Lock()
	defer vPipeMu.Unlock()
	l := &vPipeListener{addr: addr, ch: make(chan net.Conn), done: make(chan struct{})}
	vPipeLns[addr] = l
	return l, nil
}

// the server's end of a connection carries an id, so that the harness modules can tell the
// connections of one provisioned config apart (recorders are kept per connection)
type vIDConn struct {
	net.Conn
	id string
}

var vConnSeq int64

// vConnID walks down the wrappers (layer4.Connection, proxyprotocol.Conn, tls.Conn, throttledConn,
// the tee's conns, ...) to the connection the listener accepted
func vConnID(c net.Conn) string {
	for depth := 0; depth < 64 && c != nil; depth++ {
		switch v := c.(type) {
		case *vIDConn:
			return v.id
		case *layer4.Connection:
			c = v.Conn
			continue
		case *tls.Conn:
			c = v.NetConn()
			continue
		}
		rv := reflect.ValueOf(c)
		for rv.Kind() == reflect.Ptr || rv.Kind() == reflect.Interface {
			if rv.IsNil() {
				return ""
			}
			rv = rv.Elem()
		}
		if rv.Kind() != reflect.Struct {
			return ""
		}
		f := rv.FieldByName("Conn")
		if !f.IsValid() || !f.CanInterface() {
			return ""
		}
		nc, ok := f.Interface().(net.Conn)
		if !ok {
			return ""
		}
		c = nc
	}
	return ""
}

func vRecKey(sid string, c net.Conn) string {
	if id := vConnID(c); id != "" {
		return sid + "#" + id
	}
	return sid
}

func vPipeDial(addr string) (net.Conn, error) {
	c, _, err := vPipeDialID(addr)
	return c, err
}

func vPipeDialID(addr string) (net.Conn, string, error) {
	vPipeMu.Lock()
	l := vPipeLns[addr]
	vPipeMu.Unlock()
	if l == nil {
		return nil, "", fmt.Errorf("no listener %s", addr)
	}
	c1, c2 := net.Pipe()
	id := fmt.Sprintf("c%d", atomic.AddInt64(&vConnSeq, 1))
	select {
	case l.ch <- &vIDConn{Conn: c2, id: id}:
		return c1, id, nil
	case <-l.done:
		return nil, "", net.ErrClosed
	case <-time.After(5 * time.Second):
		return nil, "", fmt.Errorf("accept timeout on %s", addr)
	}
}

// ---------------------------------------------------------------- scenario registry
type vRecording struct {
	mu   sync.Mutex
	data map[string][]byte // recorder id -> bytes read
	done map[string]bool
	errs map[string]string
	ran  map[string]int
	view []string // matcher observations that were not a prefix of the unconsumed stream
}

var (
	vRegMu sync.Mutex
	vReg   = map[string]*vRecording{}
)

func vRecOf(sid string) *vRecording {
	vRegMu.Lock()
	defer vRegMu.Unlock()
	r := vReg[sid]
	if r == nil {
		r = &vRecording{data: map[string][]byte{}, done: map[string]bool{}, errs: map[string]string{}, ran: map[string]int{}}
		vReg[sid] = r
	}
	return r
}

// ---------------------------------------------------------------- scripted matcher
type vNeed struct {
	Sid  string `json:"sid,omitempty"`
	K    int    `json:"k,omitempty"`
	Yes  bool   `json:"yes,omitempty"`
	Peek bool   `json:"peek,omitempty"`
	// raw position in the client's stream at which this matcher looks
	Pos int `json:"pos,omitempty"`
}

func (*vNeed) CaddyModule() caddy.ModuleInfo {
	return caddy.ModuleInfo{ID: "layer4.matchers.verif_need", New: func() caddy.Module { return new(vNeed) }}
}

func (m *vNeed) Match(cx *layer4.Connection) (bool, error) {
	var seen []byte
	if m.Peek {
		b := cx.MatchingBytes()
		if len(b) < m.K {
			return false, layer4.ErrConsumedAllPrefetchedBytes
		}
		seen = append(seen, b[:m.K]...)
	} else {
		buf := make([]byte, m.K)
		n, err := io.ReadFull(cx, buf)
		seen = buf[:n]
		if err != nil {
			m.check(cx, seen)
			return false, err
		}
	}
	m.check(cx, seen)
	return m.Yes, nil
}

func (m *vNeed) check(cx *layer4.Connection, seen []byte) {
	vScMu.Lock()
	sc := vScs[m.Sid]
	vScMu.Unlock()
	if sc == nil {
		return
	}
	// a route's matcher may also be evaluated before the handlers of earlier routes of its list
	// have run, i.e. at an earlier handler boundary of the stream
	ok := false
	for _, p := range sc.bounds {
		if p <= m.Pos && p+len(seen) <= len(sc.raw) && bytes.Equal(seen, sc.raw[p:p+len(seen)]) {
			ok = true
		}
	}
	if !ok {
		r := vRecOf(vRecKey(m.Sid, cx))
		r.mu.Lock()
		r.view = append(r.view, fmt.Sprintf("matcher at raw position %d (k=%d) saw %d bytes that are not the stream at that position", m.Pos, m.K, len(seen)))
		r.mu.Unlock()
	}
}

// ---------------------------------------------------------------- recording handler
type vRec struct {
	Sid      string `json:"sid,omitempty"`
	Id       string `json:"id,omitempty"`
	Consume  int    `json:"consume,omitempty"`
	ReadSize int    `json:"read_size,omitempty"`
	Terminal bool   `json:"terminal,omitempty"`
}

func (*vRec) CaddyModule() caddy.ModuleInfo {
	return caddy.ModuleInfo{ID: "layer4.handlers.verif_rec", New: func() caddy.Module { return new(vRec) }}
}

func (h *vRec) Handle(cx *layer4.Connection, next layer4.Handler) error {
	r := vRecOf(vRecKey(h.Sid, cx))
	r.mu.Lock()
	r.ran[h.Id]++
	r.mu.Unlock()
	rs := h.ReadSize
	if rs <= 0 {
		rs = 4096
	}
	var rerr error
	publish := func(b []byte) {
		r.mu.Lock()
		r.data[h.Id] = append(r.data[h.Id], b...)
		r.mu.Unlock()
	}
	if h.Terminal {
		p := make([]byte, rs)
		for {
			n, err := cx.Read(p)
			publish(p[:n])
			if err != nil {
				if err != io.EOF {
					rerr = err
				}
				break
			}
		}
	} else {
		for got := 0; got < h.Consume; {
			w := h.Consume - got
			if w > rs {
				w = rs
			}
			p := make([]byte, w)
			n, err := cx.Read(p)
			publish(p[:n])
			got += n
			if err != nil {
				rerr = err
				break
			}
		}
	}
	r.mu.Lock()
	r.done[h.Id] = true
	if rerr != nil {
		r.errs[h.Id] = rerr.Error()
	}
	r.mu.Unlock()
	if h.Terminal || rerr != nil {
		return nil
	}
	return next.Handle(cx)
}

var (
	vSlowMu sync.Mutex
	vSlow   []string
)

var vRegisterOnce sync.Once

func vRegister() {
	vRegisterOnce.Do(func() {
		caddy.RegisterModule(&vNeed{})
		caddy.RegisterModule(&vRec{})
		caddy.RegisterNetwork("verifpipe", vPipeListen)
	})
}

// ---------------------------------------------------------------- scenarios
type vElem struct {
	kind   string // pp | throttle | tee | consume | subroute | break
	n      int    // consume: byte count
	hk     int    // pp: header kind (index into vHdrKinds)
	rs     int    // read size of the recorder (consume, tee branch)
	id     string
	rawpos int // raw stream position at which the element starts
	inCx   int // bytes handlers have consumed from the current Connection before this element
}

type vExpect struct {
	id, comp string
	want     []byte
	terminal bool
}

type vScenario struct {
	sid     string
	port    int
	elems   []vElem
	echo    bool
	termRS  int
	raw     []byte // what the client sends
	segs    []int  // client write sizes
	segName string
	routes  []any
	expect  []vExpect
	echoPos int
	desc    string
	decoys  []string
	bounds  []int  // raw positions of the handler boundaries
	nots    int    // matcher sets that contain a `not` next to a reading matcher
	connNo  int    // which connection of its provisioned config this is
	rk      string // recording key of this connection (sid#connection id); empty: sid
	tls     bool   // the whole chain runs behind the real tls handler; the client speaks TLS
	tls12   bool
}

var (
	vScMu sync.Mutex
	vScs  = map[string]*vScenario{}
)

func (sc *vScenario) rec() *vRecording {
	if sc.rk != "" {
		return vRecOf(sc.rk)
	}
	return vRecOf(sc.sid)
}

func vStream(seed, n int) []byte {
	b := make([]byte, n)
	for i := range b {
		b[i] = byte((i + (i/251)*7 + seed) % 256)
	}
	return b
}

var vHdrV1 = []byte("PROXY TCP4 192.0.2.1 198.51.100.2 40000 443\r\n")
var vSigV2 = []byte{0x0D, 0x0A, 0x0D, 0x0A, 0x00, 0x0D, 0x0A, 0x51, 0x55, 0x49, 0x54, 0x0A}
var vAddr4 = []byte{192, 0, 2, 1, 198, 51, 100, 2, 0x9c, 0x40, 0x01, 0xbb}

// every header form the handler accepts, with and without declared addresses
var vHdrKinds = []struct {
	name string
	hdr  []byte
}{
	{"v1-tcp4", vHdrV1},
	{"v2-proxy-tcp4", vHdrV2},
	{"v1-unknown", []byte("PROXY UNKNOWN\r\n")},
	{"v1-unknown-with-rest", []byte("PROXY UNKNOWN ffff::1 ffff::2 1 2\r\n")},
	{"v2-local", append(append([]byte{}, vSigV2...), 0x20, 0x00, 0x00, 0x00)},
	{"v2-local-with-addresses", append(append(append([]byte{}, vSigV2...), 0x20, 0x11, 0x00, 0x0C), vAddr4...)},
	{"v2-proxy-unspec", append(append([]byte{}, vSigV2...), 0x21, 0x00, 0x00, 0x00)},
}

var vHdrV2 = append([]byte{0x0D, 0x0A, 0x0D, 0x0A, 0x00, 0x0D, 0x0A, 0x51, 0x55, 0x49, 0x54, 0x0A, 0x21, 0x11, 0x00, 0x0C},
	192, 0, 2, 1, 198, 51, 100, 2, 0x9c, 0x40, 0x01, 0xbb)

func vGenScenario(rng *vRng, idx int, port int) *vScenario {
	sc := &vScenario{sid: fmt.Sprintf("sc%d", idx), port: port}
	// chain shape
	nel := rng.Intn(5)
	kinds := []string{"pp", "throttle", "tee", "consume", "subroute", "break", "pp", "tee", "subfall"}
	nsub := 0
	for i := 0; i < nel; i++ {
		k := kinds[rng.Intn(len(kinds))]
		if k == "subroute" {
			if nsub >= 2 {
				k = "throttle"
			}
			nsub++
		}
		e := vElem{kind: k, id: fmt.Sprintf("%s%d", k, i)}
		switch k {
		case "consume":
			e.n = []int{1, 5, 100, 2048, 4096, 5000}[rng.Intn(6)]
			e.rs = []int{1, 7, 512, 4096, 32768}[rng.Intn(5)]
		case "pp":
			e.hk = rng.Intn(len(vHdrKinds))
		case "tee":
			e.rs = []int{7, 512, 4096, 32768}[rng.Intn(4)]
		}
		sc.elems = append(sc.elems, e)
	}
	// a forced interesting shape every few scenarios: matcher needing > 4096 bytes, then one wrapper
	switch idx % 8 {
	case 0:
		sc.elems = []vElem{{kind: "pp", id: "pp0", hk: rng.Intn(len(vHdrKinds))}}
	case 1:
		sc.elems = []vElem{{kind: "tee", id: "tee0", rs: 4096}}
	case 2:
		sc.elems = []vElem{{kind: "pp", id: "pp0", hk: rng.Intn(len(vHdrKinds))}, {kind: "break", id: "break1"}, {kind: "tee", id: "tee2", rs: 512}}
	}
	sc.echo = rng.Intn(4) == 0
	sc.termRS = []int{1, 7, 512, 4096, 32768}[rng.Intn(5)]

	// payload after the last element, biased to the buffer boundaries
	sizes := []int{0, 1, 100, 2047, 2048, 2049, 4095, 4096, 4097, 5000, 8191, 8192, 8193, 9000, 12000, 16384, 32768}
	tail := sizes[rng.Intn(len(sizes))]
	if rng.Intn(4) == 0 {
		tail = rng.Intn(4*layer4.MaxMatchingBytes + 1)
	}
	seed := rng.Intn(256)
	// raw stream: payload bytes are position-coded by their raw position, headers are literal
	var raw []byte
	emit := func(n int) {
		for i := 0; i < n; i++ {
			p := len(raw)
			raw = append(raw, byte((p+(p/251)*7+seed)%256))
		}
	}
	inCx := 0
	for i := range sc.elems {
		e := &sc.elems[i]
		e.rawpos = len(raw)
		e.inCx = inCx
		switch e.kind {
		case "consume":
			emit(e.n)
			inCx += e.n
		case "tee":
			inCx = 0 // a new Connection (Wrap) starts here
		case "pp":
			inCx = 0
			raw = append(raw, vHdrKinds[e.hk].hdr...)
		}
	}
	endpos := len(raw)
	endInCx := inCx
	emit(tail)
	sc.bounds = []int{0, endpos}
	for _, e := range sc.elems {
		sc.bounds = append(sc.bounds, e.rawpos)
	}
	sc.raw = raw
	sc.echoPos = endpos
	if sc.termRS == 1 && tail > 5000 {
		sc.termRS = 7
	}

	// expectations
	comp := "conn"
	sc.tls = idx%5 == 4
	sc.tls12 = rng.Bool()
	rank := map[string]int{"conn": 0, "subroute": 1, "throttle": 2, "proxy_protocol": 3, "tee": 4, "tls": 5}
	if sc.tls {
		comp = "tls"
	}
	bump := func(c string) {
		if rank[c] > rank[comp] {
			comp = c
		}
	}
	for _, e := range sc.elems {
		switch e.kind {
		case "consume":
			sc.expect = append(sc.expect, vExpect{id: e.id, comp: comp, want: raw[e.rawpos : e.rawpos+e.n]})
		case "tee":
			bc := "tee-branch"
			if sc.tls {
				bc = "tls-tee-branch"
			}
			sc.expect = append(sc.expect, vExpect{id: e.id + "-branch", comp: bc, want: raw[e.rawpos:], terminal: true})
			bump("tee")
		case "pp":
			bump("proxy_protocol")
		case "throttle":
			bump("throttle")
		case "subroute", "subfall":
			bump("subroute")
		}
	}
	if !sc.echo {
		sc.expect = append(sc.expect, vExpect{id: "term", comp: comp, want: raw[endpos:], terminal: true})
	}

	// routes
	// a matcher can be satisfied only if k <= MaxMatchingBytes - (bytes already consumed from this
	// Connection's buffer): prefetch stops once len(buf) >= MaxMatchingBytes (C05's concern, not C01's)
	needK := func(pos, inCx int) int {
		ks := []int{0, 1, 5, 100, 1500, 2048, 2049, 4096, 4097, 5000, 6000, 8000, 8192}
		k := ks[rng.Intn(len(ks))]
		if idx%8 <= 2 {
			k = []int{4097, 5000, 6000, 8192}[rng.Intn(4)]
		}
		if rem := len(raw) - pos; k > rem {
			k = rem
		}
		if lim := layer4.MaxMatchingBytes - inCx; k > lim {
			k = lim
		}
		if k < 0 {
			k = 0
		}
		return k
	}
	limK := func(pos, inCx int) int {
		lim := len(raw) - pos
		if l2 := layer4.MaxMatchingBytes - inCx; l2 < lim {
			lim = l2
		}
		if lim < 0 {
			lim = 0
		}
		return lim
	}
	matcherK := func(pos, k int, yes bool) map[string]any {
		ms := map[string]any{"verif_need": map[string]any{"sid": sc.sid, "k": k, "yes": yes, "peek": rng.Intn(3) == 0, "pos": pos}}
		if yes && rng.Intn(3) == 0 {
			// matcher set { not { need k1: no } ; need k }: the real `not` matcher (its nested
			// MatcherSet.Match) in the same set as a reading matcher. A set is a JSON object, so
			// which of the two is evaluated first is decided by Go's map iteration at provisioning.
			k1 := 0
			if k > 0 {
				k1 = rng.Intn(k + 1)
			}
			ms["not"] = []any{map[string]any{"verif_need": map[string]any{"sid": sc.sid, "k": k1, "yes": false, "peek": rng.Intn(3) == 0, "pos": pos}}}
			sc.nots++
		}
		return ms
	}
	at := func(i int) (int, int) {
		if i < len(sc.elems) {
			return sc.elems[i].rawpos, sc.elems[i].inCx
		}
		return endpos, endInCx
	}
	// prevK: the k of the previous matching route of the same list. The router evaluates later
	// routes while earlier ones still need more data, so a later route must not be satisfiable
	// with fewer bytes than an earlier one (otherwise it legitimately runs first).
	var build func(i, prevK int) []any
	build = func(i, prevK int) []any {
		var routes []any
		pos, inCx := at(i)
		if rng.Intn(3) == 0 { // a route that must not run
			id := fmt.Sprintf("decoy%d", len(sc.decoys))
			sc.decoys = append(sc.decoys, id)
			routes = append(routes, map[string]any{
				"match":  []any{matcherK(pos, needK(pos, inCx), false)},
				"handle": []any{map[string]any{"handler": "verif_rec", "sid": sc.sid, "id": id, "terminal": true}},
			})
		}
		curK := 0
		var mt map[string]any
		if prevK > 0 || rng.Intn(4) != 0 {
			curK = needK(pos, inCx)
			if curK < prevK {
				curK = prevK
			}
			mt = matcherK(pos, curK, true)
		}
		var hs []any
		closeRoute := func() map[string]any {
			route := map[string]any{"handle": hs}
			if mt != nil {
				route["match"] = []any{mt}
			}
			return route
		}
		terminalDone := false
		for j := i; j < len(sc.elems) && !terminalDone; j++ {
			e := sc.elems[j]
			switch e.kind {
			case "pp":
				hs = append(hs, map[string]any{"handler": "proxy_protocol"})
			case "throttle":
				hs = append(hs, map[string]any{"handler": "throttle", "read_bytes_per_second": 1e12, "read_burst_size": 1 << 24})
			case "tee":
				hs = append(hs, map[string]any{"handler": "tee", "branch": []any{
					map[string]any{"handler": "verif_rec", "sid": sc.sid, "id": e.id + "-branch", "terminal": true, "read_size": e.rs}}})
			case "consume":
				hs = append(hs, map[string]any{"handler": "verif_rec", "sid": sc.sid, "id": e.id, "consume": e.n, "read_size": e.rs})
			case "subroute":
				hs = append(hs, map[string]any{"handler": "subroute", "routes": build(j+1, 0)})
				terminalDone = true
			case "subfall":
				// a subroute that does not terminate the connection (one route answers no, an optional
				// one matches with a non-terminal handler): the enclosing list goes on with further routes
				id := fmt.Sprintf("decoy%d", len(sc.decoys))
				sc.decoys = append(sc.decoys, id)
				p0, i0 := at(j)
				inner := []any{map[string]any{
					"match":  []any{matcherK(p0, needK(p0, i0), false)},
					"handle": []any{map[string]any{"handler": "verif_rec", "sid": sc.sid, "id": id, "terminal": true}},
				}}
				if rng.Bool() {
					inner = append(inner, map[string]any{"handle": []any{map[string]any{"handler": "throttle", "read_bytes_per_second": 1e12, "read_burst_size": 1 << 24}}})
				}
				hs = append(hs, map[string]any{"handler": "subroute", "routes": inner})
				np, ni := at(j + 1)
				if curK > limK(np, ni) {
					continue
				}
				return append(append(routes, closeRoute()), build(j+1, curK)...)
			case "break":
				np, ni := at(j + 1)
				if len(hs) == 0 || curK > limK(np, ni) {
					continue // not expressible: keep going in the same route
				}
				return append(append(routes, closeRoute()), build(j+1, curK)...)
			}
		}
		if !terminalDone {
			if sc.echo {
				hs = append(hs, map[string]any{"handler": "echo"})
			} else {
				hs = append(hs, map[string]any{"handler": "verif_rec", "sid": sc.sid, "id": "term", "terminal": true, "read_size": sc.termRS})
			}
		}
		return append(routes, closeRoute())
	}
	sc.routes = build(0, 0)
	if sc.tls {
		// the real tls matcher and handler in front; everything generated above sees the plaintext
		sc.routes = []any{map[string]any{
			"match":  []any{map[string]any{"tls": map[string]any{}}},
			"handle": []any{map[string]any{"handler": "tls"}, map[string]any{"handler": "subroute", "routes": sc.routes}},
		}}
	}

	// segmentation of the client's writes
	switch rng.Intn(4) {
	case 0:
		sc.segName = "one-byte"
		for i := 0; i < 48 && i < len(raw); i++ {
			sc.segs = append(sc.segs, 1)
		}
	case 1:
		sc.segName = "random"
		for s := 0; s < len(raw); {
			k := 1 + rng.Intn(3000)
			sc.segs = append(sc.segs, k)
			s += k
		}
	case 2:
		sc.segName = "2048-aligned"
		for s := 0; s < len(raw); s += 2048 {
			sc.segs = append(sc.segs, 2048)
		}
	default:
		sc.segName = "all-at-once"
	}
	var ks []string
	for _, e := range sc.elems {
		if e.kind == "pp" {
			ks = append(ks, "pp("+vHdrKinds[e.hk].name+")")
			continue
		}
		ks = append(ks, e.kind)
	}
	sc.desc = fmt.Sprintf("chain=[%s] echo=%v raw=%d tail=%d seg=%s tls=%v", strings.Join(ks, ","), sc.echo, len(raw), tail, sc.segName, sc.tls)
	return sc
}

func vClassify(got, want []byte) string {
	switch {
	case bytes.Equal(got, want):
		return ""
	case len(got) > len(want):
		return "duplicate-bytes"
	case bytes.HasPrefix(want, got):
		return "lost-bytes"
	default:
		return "stream-corrupted"
	}
}

// run one scenario against the running servers; returns the echoed bytes
func vRunClient(sc *vScenario) (echoed []byte, cerr error) {
	c, id, err := vPipeDialID(fmt.Sprintf("s:%d", sc.port))
	if err != nil {
		return nil, err
	}
	sc.rk = sc.sid + "#" + id
	defer c.Close()
	_ = c.SetWriteDeadline(time.Now().Add(8 * time.Second))
	pipe := c
	if sc.tls {
		cfg := &tls.Config{ServerName: "verif.test", InsecureSkipVerify: true}
		if sc.tls12 {
			cfg.MaxVersion = tls.VersionTLS12
		}
		c = tls.Client(pipe, cfg)
	}
	var wg sync.WaitGroup
	var emu sync.Mutex
	want := len(sc.raw) - sc.echoPos
	echoDone := make(chan struct{})
	wg.Add(1)
	go func() { // reader (echo, and keeps the server's writes from blocking)
		defer wg.Done()
		p := make([]byte, 32768)
		closed := false
		for {
			n, err := c.Read(p)
			emu.Lock()
			echoed = append(echoed, p[:n]...)
			if sc.echo && len(echoed) >= want && !closed {
				closed = true
				close(echoDone)
			}
			emu.Unlock()
			if err != nil {
				if !closed {
					close(echoDone)
				}
				return
			}
		}
	}()
	off := 0
	for _, k := range sc.segs {
		if off >= len(sc.raw) {
			break
		}
		e := off + k
		if e > len(sc.raw) {
			e = len(sc.raw)
		}
		if _, err := c.Write(sc.raw[off:e]); err != nil {
			cerr = err
			break
		}
		off = e
	}
	if cerr == nil && off < len(sc.raw) {
		_, cerr = c.Write(sc.raw[off:])
	}
	if sc.echo && cerr == nil && want > 0 {
		select {
		case <-echoDone:
		case <-time.After(4 * time.Second):
		}
	}
	// close only when every recorder has received what it is expected to receive (net.Pipe has no
	// half-close and refuses SetReadDeadline once closed, which the router calls after matching)
	r := sc.rec()
	for t0 := time.Now(); cerr == nil && time.Since(t0) < 4*time.Second; {
		r.mu.Lock()
		all := true
		for _, ex := range sc.expect {
			if r.ran[ex.id] == 0 || len(r.data[ex.id]) < len(ex.want) {
				all = false
			}
		}
		r.mu.Unlock()
		if all {
			break
		}
		time.Sleep(time.Millisecond)
		if time.Since(t0) >= 4*time.Second {
			vSlowMu.Lock()
			vSlow = append(vSlow, sc.desc)
			vSlowMu.Unlock()
		}
	}
	_ = pipe.SetDeadline(time.Now().Add(3 * time.Second))
	c.Close() // for TLS: close_notify, then the pipe
	pipe.Close()
	wg.Wait()
	return echoed, cerr
}

// throw-away self-signed certificate for the tls app
func vSelfSigned() (certPEM, keyPEM string, err error) {
	key, err := ecdsa.GenerateKey(elliptic.P256(), rand.Reader)
	if err != nil {
		return "", "", err
	}
	tmpl := &x509.Certificate{
		SerialNumber: big.NewInt(1), Subject: pkix.Name{CommonName: "verif.test"},
		NotBefore: time.Now().Add(-time.Hour), NotAfter: time.Now().Add(24 * time.Hour),
		KeyUsage: x509.KeyUsageDigitalSignature, ExtKeyUsage: []x509.ExtKeyUsage{x509.ExtKeyUsageServerAuth},
		DNSNames: []string{"verif.test", "outer.test"},
	}
	der, err := x509.CreateCertificate(rand.Reader, tmpl, tmpl, &key.PublicKey, key)
	if err != nil {
		return "", "", err
	}
	kb, err := x509.MarshalECPrivateKey(key)
	if err != nil {
		return "", "", err
	}
	return string(pem.EncodeToMemory(&pem.Block{Type: "CERTIFICATE", Bytes: der})),
		string(pem.EncodeToMemory(&pem.Block{Type: "EC PRIVATE KEY", Bytes: kb})), nil
}

func TestVerifC01E2E(t *testing.T) {
	out := vOpen()
	defer out.Close()
	vRegister()
	tmp, err := os.MkdirTemp("", "verif-c01-")
	if err != nil {
		t.Fatal(err)
	}
	defer os.RemoveAll(tmp)
	os.Setenv("XDG_DATA_HOME", tmp)
	os.Setenv("XDG_CONFIG_HOME", tmp)
	os.Setenv("HOME", tmp)

	certPEM, keyPEM, err := vSelfSigned()
	if err != nil {
		t.Fatal(err)
	}
	rng := vNewRng(vSeed())
	n := vN(300)
	batch := 50
	port := 1000
	nfail := 0
	classes := map[string]int{}
	for start := 0; start < n; start += batch {
		var scs []*vScenario
		servers := map[string]any{}
		for i := start; i < start+batch && i < n; i++ {
			port++
			sc := vGenScenario(rng, i, port)
			vScMu.Lock()
			vScs[sc.sid] = sc
			vScMu.Unlock()
			scs = append(scs, sc)
			servers[sc.sid] = map[string]any{"listen": []string{fmt.Sprintf("verifpipe/s:%d", sc.port)}, "routes": sc.routes}
		}
		cfg := map[string]any{
			"admin":   map[string]any{"disabled": true, "config": map[string]any{"persist": false}},
			"logging": map[string]any{"logs": map[string]any{"default": map[string]any{"writer": map[string]any{"output": "discard"}}}},
			"apps": map[string]any{
				"layer4": map[string]any{"servers": servers},
				"tls": map[string]any{"certificates": map[string]any{"load_pem": []any{
					map[string]any{"certificate": certPEM, "key": keyPEM, "tags": []string{"verif"}}}}},
			},
		}
		raw, _ := json.Marshal(cfg)
		if err := caddy.Load(raw, true); err != nil {
			t.Fatalf("loading generated config: %v", err)
		}
		type result struct {
			echoed []byte
			err    error
		}
		// every provisioned config serves three connections: one alone, then two overlapping
		// (handlers must not keep anything of an earlier connection)
		var runs []*vScenario
		for _, sc := range scs {
			for k := 0; k < 3; k++ {
				cp := *sc
				cp.connNo = k
				runs = append(runs, &cp)
			}
		}
		results := make([]result, len(runs))
		runPhase := func(sel func(k int) bool) {
			var wg sync.WaitGroup
			for i, rc := range runs {
				if !sel(rc.connNo) {
					continue
				}
				wg.Add(1)
				go func(i int, rc *vScenario) {
					defer wg.Done()
					e, err := vRunClient(rc)
					results[i] = result{e, err}
				}(i, rc)
			}
			wg.Wait()
		}
		runPhase(func(k int) bool { return k == 0 })
		runPhase(func(k int) bool { return k > 0 })
		scs = runs
		// wait for the recorders (the branch of a tee finishes after the main chain)
		t1 := time.Now()
		deadline := time.Now().Add(5 * time.Second)
		for _, sc := range scs {
			r := sc.rec()
			for {
				r.mu.Lock()
				all := true
				for _, ex := range sc.expect {
					if !r.done[ex.id] {
						all = false
					}
				}
				r.mu.Unlock()
				if !all && time.Now().After(deadline) {
					out.Stat("recorder_never_finished", sc.desc)
				}
				if all || time.Now().After(deadline) {
					break
				}
				time.Sleep(2 * time.Millisecond)
			}
		}
		if w := time.Since(t1).Milliseconds(); w > 200 {
			out.Stat(fmt.Sprintf("batch%d_recorder_wait_ms", start/batch), w)
		}
		for i, sc := range scs {
			r := sc.rec()
			r.mu.Lock()
			in := map[string]any{"scenario": sc.sid, "desc": sc.desc, "seed": vSeed(), "connection": sc.connNo}
			rj, _ := json.Marshal(sc.routes)
			in["routes"] = string(rj)
			failed := false
			for _, ex := range sc.expect {
				got := r.data[ex.id]
				what := vClassify(got, ex.want)
				if !r.done[ex.id] && what == "lost-bytes" {
					what = "recorder-incomplete"
				}
				if what != "" {
					failed = true
					in["recorder"] = ex.id
					in["got_len"] = len(got)
					in["want_len"] = len(ex.want)
					in["recorder_error"] = r.errs[ex.id]
					d := 0
					for d < len(got) && d < len(ex.want) && got[d] == ex.want[d] {
						d++
					}
					in["first_difference_at"] = d
					out.Fail("C01:"+ex.comp+":"+what, fmt.Sprintf("recorder %s read %d bytes, expected %d bytes of the client's stream (first difference at %d)", ex.id, len(got), len(ex.want), d), in)
				}
			}
			for _, id := range sc.decoys {
				if r.ran[id] > 0 {
					failed = true
					out.Fail("C01:router:unmatched-route-ran", "a route whose matcher answered no was executed", in)
				}
			}
			for id, k := range r.ran {
				if k > 1 {
					failed = true
					in["recorder"] = id
					out.Fail("C01:router:handler-ran-twice", "a handler was invoked more than once for one connection", in)
				}
			}
			if len(r.view) > 0 {
				failed = true
				in["view"] = r.view[0]
				out.Fail("C01:matcher:view-not-stream", "a matcher saw bytes that are not the client's stream at its position", in)
			}
			if sc.echo {
				want := sc.raw[sc.echoPos:]
				if what := vClassify(results[i].echoed, want); what != "" {
					failed = true
					in["got_len"] = len(results[i].echoed)
					in["want_len"] = len(want)
					out.Fail("C01:echo:"+what, fmt.Sprintf("echo returned %d bytes, expected %d", len(results[i].echoed), len(want)), in)
				}
			}
			r.mu.Unlock()
			if failed {
				nfail++
			}
			var ks []string
			for _, e := range sc.elems {
				ks = append(ks, e.kind)
			}
			cls := sc.segName + "/" + strings.Join(ks, "+")
			if sc.nots > 0 {
				cls += "/not"
			}
			if sc.tls {
				cls += "/tls"
			}
			classes[cls]++
			nt := len(sc.elems) > 0 && len(sc.raw) > 0
			out.Case(fmt.Sprintf("CE2E %d %d", (i+3*start)*10+sc.connNo, len(sc.raw)), cls, nt, map[string]any{"desc": sc.desc, "failed": failed})
		}
	}
	_ = caddy.Stop()
	out.Stat("client_wait_timeouts", vSlow)
	out.Stat("scenarios", n)
	out.Stat("scenarios_failed", nfail)
	out.Stat("distinct_shapes", len(classes))
}
