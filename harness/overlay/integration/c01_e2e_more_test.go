package integration

// C01 end-to-end engine, part 2 (helpers are in c01_e2e_test.go):
//
//   TestVerifC01Timed  clients that keep sending AFTER the matching timeout has elapsed. Inside a
//                      subroute with a short matching_timeout an earlier route matches with a
//                      non-terminal handler, a later route needs another prefetch round and then
//                      answers no, and the handlers after the subroute (its `next`) must still
//                      receive every later byte: a matching deadline left armed on the socket
//                      would make their reads fail once the timeout has passed.
//   TestVerifC01UDP    the same stream property over UDP: real Server.servePacket / packetConn on
//                      an in-memory net.PacketConn; the stream is the concatenation of the
//                      datagrams, datagram sizes around prefetchChunkSize (2047/2048/2049) and
//                      reader buffers equal to the datagram size.

import (
	"bytes"
	"context"
	"crypto/tls"
	"encoding/hex"
	"encoding/json"
	"fmt"
	"io"
	"net"
	"os"
	"strings"
	"sync"
	"testing"
	"time"

	"github.com/caddyserver/caddy/v2"

	"github.com/mholt/caddy-l4/layer4"
)

// ---------------------------------------------------------------- shared evaluation
func vCheckExpectations(sc *vScenario) (key, detail string, in map[string]any) {
	r := sc.rec()
	r.mu.Lock()
	defer r.mu.Unlock()
	in = map[string]any{"scenario": sc.sid, "desc": sc.desc, "seed": vSeed()}
	rj, _ := json.Marshal(sc.routes)
	in["routes"] = string(rj)
	for _, ex := range sc.expect {
		got := r.data[ex.id]
		what := vClassify(got, ex.want)
		if what == "" && !r.done[ex.id] && !ex.terminal {
			what = "recorder-incomplete"
		}
		if !r.done[ex.id] && what == "lost-bytes" {
			what = "recorder-incomplete"
		}
		if what != "" {
			d := 0
			for d < len(got) && d < len(ex.want) && got[d] == ex.want[d] {
				d++
			}
			in["recorder"], in["got_len"], in["want_len"], in["recorder_error"], in["first_difference_at"] = ex.id, len(got), len(ex.want), r.errs[ex.id], d
			return "C01:" + ex.comp + ":" + what,
				fmt.Sprintf("recorder %s read %d bytes, expected %d bytes of the client's stream (first difference at %d, recorder error %q)", ex.id, len(got), len(ex.want), d, r.errs[ex.id]), in
		}
	}
	for id, k := range r.ran {
		if k > 1 {
			in["recorder"] = id
			return "C01:router:handler-ran-twice", "a handler was invoked more than once for one connection", in
		}
	}
	for _, id := range sc.decoys {
		if r.ran[id] > 0 {
			return "C01:router:unmatched-route-ran", "a route whose matcher answered no was executed", in
		}
	}
	if len(r.view) > 0 {
		in["view"] = r.view[0]
		return "C01:matcher:view-not-stream", "a matcher saw bytes that are not the client's stream at its position", in
	}
	return "", "", in
}

func vWaitRecorders(sc *vScenario, byData bool, d time.Duration) bool {
	r := sc.rec()
	for t0 := time.Now(); time.Since(t0) < d; time.Sleep(time.Millisecond) {
		r.mu.Lock()
		all := true
		for _, ex := range sc.expect {
			if byData {
				if r.ran[ex.id] == 0 || len(r.data[ex.id]) < len(ex.want) {
					all = false
				}
			} else if !r.done[ex.id] {
				all = false
			}
		}
		r.mu.Unlock()
		if all {
			return true
		}
	}
	return false
}

func vLoadServers(t *testing.T, servers map[string]any, extraApps ...map[string]any) {
	tmp := t.TempDir() // keep caddy's data/config directories out of the way
	os.Setenv("XDG_DATA_HOME", tmp)
	os.Setenv("XDG_CONFIG_HOME", tmp)
	os.Setenv("HOME", tmp)
	cfg := map[string]any{
		"admin":   map[string]any{"disabled": true, "config": map[string]any{"persist": false}},
		"logging": map[string]any{"logs": map[string]any{"default": map[string]any{"writer": map[string]any{"output": "discard"}}}},
		"apps":    map[string]any{"layer4": map[string]any{"servers": servers}},
	}
	for _, ea := range extraApps {
		for k, v := range ea {
			cfg["apps"].(map[string]any)[k] = v
		}
	}
	raw, _ := json.Marshal(cfg)
	if err := caddy.Load(raw, true); err != nil {
		t.Fatalf("loading generated config: %v", err)
	}
}

// ---------------------------------------------------------------- clients slower than the matching timeout
const (
	vTimedTimeout = 400 * time.Millisecond
	vTimedPause   = 1000 * time.Millisecond
	vTimedTries   = 3
)

type vTimed struct {
	shape  int
	seed   int
	c0     int // bytes the non-terminal handler of the first route consumes (0: throttle instead)
	k0, k1 int
	hdr    []byte // PROXY header consumed by the first route (shape 2)
	total  int
	nested bool
	a, b   int // ends of the first and second client segment
}

// positions: the first segment satisfies route 0 but leaves route 1 undecided, the second lets
// route 1 decide, the rest is sent after the matching timeout
func (tm *vTimed) layout() {
	pos := len(tm.hdr) + tm.c0
	tm.a = pos + 3
	if tm.a < tm.k0 {
		tm.a = tm.k0
	}
	if tm.k1 <= tm.a-pos {
		tm.k1 = tm.a - pos + 10
	}
	tm.b = pos + tm.k1 + 20
	if tm.total < tm.b+200-len(tm.hdr) {
		tm.total = tm.b + 200 - len(tm.hdr)
	}
}

// one attempt = one scenario instance with its own server and recorders
func (tm vTimed) build(idx, try, port int) *vScenario {
	sc := &vScenario{sid: fmt.Sprintf("tm%d_%d", idx, try), port: port, segName: "timed"}
	payload := vStream(tm.seed, tm.total)
	sc.raw = append(append([]byte{}, tm.hdr...), payload...)
	pos := len(tm.hdr) + tm.c0 // where the stream stands after the first route's handlers
	sc.bounds = []int{0, pos}
	var h0 []any
	switch {
	case len(tm.hdr) > 0:
		h0 = append(h0, map[string]any{"handler": "proxy_protocol"})
	case tm.c0 == 0:
		h0 = append(h0, map[string]any{"handler": "throttle", "read_bytes_per_second": 1e12, "read_burst_size": 1 << 24})
	}
	if tm.c0 > 0 {
		h0 = append(h0, map[string]any{"handler": "verif_rec", "sid": sc.sid, "id": "consume0", "consume": tm.c0, "read_size": 7})
		sc.expect = append(sc.expect, vExpect{id: "consume0", comp: "fallback-after-timeout", want: sc.raw[len(tm.hdr) : len(tm.hdr)+tm.c0]})
	}
	need := func(k, pos int, yes bool) []any {
		return []any{map[string]any{"verif_need": map[string]any{"sid": sc.sid, "k": k, "yes": yes, "pos": pos}}}
	}
	sc.decoys = []string{"decoy"}
	inner := []any{
		map[string]any{"match": need(tm.k0, 0, true), "handle": h0},
		// undecided on the first segment, "no" once the second one has arrived
		map[string]any{"match": need(tm.k1, pos, false), "handle": []any{map[string]any{"handler": "verif_rec", "sid": sc.sid, "id": "decoy", "terminal": true}}},
	}
	sub := map[string]any{"handler": "subroute", "matching_timeout": vTimedTimeout.String(), "routes": inner}
	term := map[string]any{"handler": "verif_rec", "sid": sc.sid, "id": "term", "terminal": true, "read_size": 4096}
	if tm.nested {
		sc.routes = []any{map[string]any{"handle": []any{
			map[string]any{"handler": "subroute", "routes": []any{map[string]any{"handle": []any{sub, term}}}}}}}
	} else {
		sc.routes = []any{map[string]any{"handle": []any{sub, term}}}
	}
	sc.expect = append(sc.expect, vExpect{id: "term", comp: "fallback-after-timeout", want: sc.raw[pos:], terminal: true})
	sc.desc = fmt.Sprintf("timed shape=%d c0=%d k0=%d k1=%d hdr=%d total=%d nested=%v timeout=%s pause=%s try=%d",
		tm.shape, tm.c0, tm.k0, tm.k1, len(tm.hdr), len(sc.raw), tm.nested, vTimedTimeout, vTimedPause, try)
	return sc
}

func (tm vTimed) client(sc *vScenario) error {
	c, id, err := vPipeDialID(fmt.Sprintf("s:%d", sc.port))
	if err != nil {
		return err
	}
	sc.rk = sc.sid + "#" + id
	defer c.Close()
	go func() { // nothing is written back, but never let a write block the server
		p := make([]byte, 4096)
		for {
			if _, err := c.Read(p); err != nil {
				return
			}
		}
	}()
	_ = c.SetWriteDeadline(time.Now().Add(10 * time.Second))
	a, b := tm.a, tm.b
	mid := b + (len(sc.raw)-b)/2 // the rest arrives after the matching timeout, in two parts
	if _, err := c.Write(sc.raw[:a]); err != nil {
		return err
	}
	if _, err := c.Write(sc.raw[a:b]); err != nil {
		return err
	}
	time.Sleep(vTimedPause)
	if _, err := c.Write(sc.raw[b:mid]); err != nil {
		return err
	}
	time.Sleep(vTimedPause / 2)
	if _, err := c.Write(sc.raw[mid:]); err != nil {
		return err
	}
	vWaitRecorders(sc, true, 4*time.Second)
	return nil
}

func TestVerifC01Timed(t *testing.T) {
	out := vOpen()
	defer out.Close()
	vRegister()
	rng := vNewRng(vSeed() + 77)
	var tms []vTimed
	n := 6
	if vThorough() {
		n = 16
	}
	for i := 0; i < n; i++ {
		tm := vTimed{shape: i % 3, seed: rng.Intn(256), nested: rng.Intn(3) == 0}
		tm.k0 = []int{1, 5, 100}[rng.Intn(3)]
		tm.k1 = []int{10, 50, 300}[rng.Intn(3)]
		tm.total = tm.k0 + tm.k1 + []int{200, 3000, 9000}[rng.Intn(3)]
		switch tm.shape {
		case 0:
			tm.c0 = []int{1, 5, 100}[rng.Intn(3)]
			if tm.c0 > tm.k0 {
				tm.c0 = tm.k0
			}
		case 2:
			tm.hdr = vHdrV1
			tm.k0 = len(vHdrV1)
		}
		tm.layout()
		tms = append(tms, tm)
	}
	// every scenario gets vTimedTries servers up front; a retry uses the next one
	servers := map[string]any{}
	scs := make([][]*vScenario, len(tms))
	port := 40000
	for i, tm := range tms {
		for try := 0; try < vTimedTries; try++ {
			port++
			sc := tm.build(i, try, port)
			vScMu.Lock()
			vScs[sc.sid] = sc
			vScMu.Unlock()
			scs[i] = append(scs[i], sc)
			servers[sc.sid] = map[string]any{"listen": []string{fmt.Sprintf("verifpipe/s:%d", sc.port)}, "routes": sc.routes}
		}
	}
	vLoadServers(t, servers)
	var wg sync.WaitGroup
	type res struct {
		key, detail string
		in          map[string]any
		tries       int
	}
	results := make([]res, len(tms))
	for i, tm := range tms {
		wg.Add(1)
		go func(i int, tm vTimed) {
			defer wg.Done()
			// timing-sensitive: a scenario is only reported when it fails on every attempt
			for try := 0; try < vTimedTries; try++ {
				sc := scs[i][try]
				cerr := tm.client(sc)
				vWaitRecorders(sc, false, 3*time.Second)
				key, detail, in := vCheckExpectations(sc)
				if cerr != nil {
					in["client_error"] = cerr.Error()
				}
				results[i] = res{key, detail, in, try + 1}
				if key == "" {
					return
				}
			}
		}(i, tm)
	}
	wg.Wait()
	retried := 0
	for i, r := range results {
		if r.tries > 1 {
			retried++
		}
		if r.key != "" {
			out.Fail(r.key, r.detail+" -- the client paused longer than the subroute's matching timeout after a non-terminal match and an undecided-then-no route", r.in)
		}
		out.Case(fmt.Sprintf("CE2E %d %d", 100000+i, tms[i].total), fmt.Sprintf("timed/shape%d", tms[i].shape), true, map[string]any{"desc": scs[i][0].desc, "failed": r.key != "", "tries": r.tries})
	}
	out.Stat("timed_scenarios", len(tms))
	out.Stat("timed_retried", retried)
}

// ---------------------------------------------------------------- UDP
type vDgram struct {
	data []byte
	from net.Addr
}
type vUDPConn struct {
	addr string
	in   chan vDgram
	done chan struct{}
	once sync.Once
}

func (u *vUDPConn) ReadFrom(p []byte) (int, net.Addr, error) {
	select {
	case d := <-u.in:
		return copy(p, d.data), d.from, nil
	case <-u.done:
		return 0, nil, net.ErrClosed
	}
}
func (u *vUDPConn) WriteTo(p []byte, _ net.Addr) (int, error) { return len(p), nil }
func (u *vUDPConn) Close() error                              { u.once.Do(func() { close(u.done) }); return nil }
func (u *vUDPConn) LocalAddr() net.Addr                       { return vPipeAddr(u.addr) }
func (u *vUDPConn) SetDeadline(time.Time) error               { return nil }
func (u *vUDPConn) SetReadDeadline(time.Time) error           { return nil }
func (u *vUDPConn) SetWriteDeadline(time.Time) error          { return nil }

var (
	vUDPMu    sync.Mutex
	vUDPConns = map[string]*vUDPConn{}
)

func vUDPListen(_ context.Context, _ string, addr string, _ net.ListenConfig) (any, error) {
	vUDPMu.Lock()
	defer vUDPMu.Unlock()
	u := &vUDPConn{addr: addr, in: make(chan vDgram, 64), done: make(chan struct{})}
	vUDPConns[addr] = u
	return u, nil
}

var vUDPRegisterOnce sync.Once

func TestVerifC01UDP(t *testing.T) {
	out := vOpen()
	defer out.Close()
	vRegister()
	vUDPRegisterOnce.Do(func() { caddy.RegisterNetwork("verifudp", vUDPListen) })
	rng := vNewRng(vSeed() + 991)
	n := 60
	if vThorough() {
		n = 600
	}
	type udpSc struct {
		sc    *vScenario
		sizes []int
	}
	var all []udpSc
	servers := map[string]any{}
	chunk := 2048 // prefetchChunkSize: the read that takes a datagram from the queue during matching
	for i := 0; i < n; i++ {
		sc := &vScenario{sid: fmt.Sprintf("udp%d", i), port: 50000 + i, segName: "udp"}
		// datagram sizes: around the prefetch chunk, equal to the reader's buffer, or arbitrary
		rs := []int{7, 100, 512, 1000, 2047, 2048, 2049, 4096}[rng.Intn(8)]
		var sizes []int
		for k := 1 + rng.Intn(5); k > 0; k-- {
			switch rng.Intn(6) {
			case 0, 1:
				sizes = append(sizes, rs) // exactly fills the handler's read buffer
			case 2:
				sizes = append(sizes, []int{chunk - 1, chunk, chunk + 1}[rng.Intn(3)])
			case 3:
				sizes = append(sizes, chunk)
			default:
				sizes = append(sizes, 1+rng.Intn(5000))
			}
		}
		if i%4 == 0 {
			sizes[0] = chunk // a first datagram of exactly one prefetch chunk
		}
		// a burst of 6..20 datagrams that all arrive before the handler's first read (the handler is
		// delayed by the throttle handler's latency): more than the association's queue holds
		burst := i%5 == 1
		if burst {
			sizes = sizes[:0]
			for k := 6 + rng.Intn(15); k > 0; k-- {
				sizes = append(sizes, []int{1, 10, 100, 600, 1200}[rng.Intn(5)])
			}
		}
		total := 0
		for _, s := range sizes {
			total += s
		}
		sc.raw = vStream(rng.Intn(256), total)
		k := []int{0, 1, 100, 2048, 2049, 4096}[rng.Intn(6)]
		if i%4 == 0 && k == 0 {
			k = 1
		}
		if k > total {
			k = total
		}
		sc.bounds = []int{0}
		rec := map[string]any{"handler": "verif_rec", "sid": sc.sid, "id": "all", "consume": total, "read_size": rs}
		route := map[string]any{"handle": []any{rec}}
		switch rng.Intn(3) {
		case 0:
			route["handle"] = []any{map[string]any{"handler": "subroute", "routes": []any{map[string]any{"handle": []any{rec}}}}}
		case 1:
			route["handle"] = []any{map[string]any{"handler": "throttle", "read_bytes_per_second": 1e12, "read_burst_size": 1 << 24}, rec}
		}
		if burst {
			k = 0
			if rng.Bool() {
				k = 1
			}
			route["handle"] = []any{map[string]any{"handler": "throttle", "latency": "150ms"}, rec}
		}
		if k > 0 || rng.Bool() {
			route["match"] = []any{map[string]any{"verif_need": map[string]any{"sid": sc.sid, "k": k, "yes": true, "peek": rng.Intn(3) == 0, "pos": 0}}}
		}
		sc.routes = []any{route}
		sc.expect = []vExpect{{id: "all", comp: "udp", want: sc.raw}}
		var ss []string
		for _, s := range sizes {
			ss = append(ss, fmt.Sprint(s))
		}
		sc.desc = fmt.Sprintf("udp datagrams=[%s] reader_buffer=%d matcher_k=%d burst_before_first_read=%v", strings.Join(ss, ","), rs, k, burst)
		vScMu.Lock()
		vScs[sc.sid] = sc
		vScMu.Unlock()
		servers[sc.sid] = map[string]any{"listen": []string{fmt.Sprintf("verifudp/u:%d", sc.port)}, "routes": sc.routes}
		all = append(all, udpSc{sc, sizes})
	}
	vLoadServers(t, servers)
	var wg sync.WaitGroup
	for _, u := range all {
		wg.Add(1)
		go func(u udpSc) {
			defer wg.Done()
			vUDPMu.Lock()
			pc := vUDPConns[fmt.Sprintf("u:%d", u.sc.port)]
			vUDPMu.Unlock()
			if pc == nil {
				return
			}
			from := vPipeAddr("client-" + u.sc.sid)
			off := 0
			for _, s := range u.sizes {
				select {
				case pc.in <- vDgram{data: u.sc.raw[off : off+s], from: from}:
				case <-time.After(5 * time.Second):
					return
				}
				off += s
			}
			vWaitRecorders(u.sc, false, 5*time.Second)
		}(u)
	}
	wg.Wait()
	nfail := 0
	for i, u := range all {
		key, detail, in := vCheckExpectations(u.sc)
		if key != "" {
			nfail++
			out.Fail(key, detail, in)
		}
		out.Case(fmt.Sprintf("CE2E %d %d", 200000+i, len(u.sc.raw)), "udp", true, map[string]any{"desc": u.sc.desc, "failed": key != ""})
	}
	_ = caddy.Stop()
	out.Stat("udp_scenarios", len(all))
	out.Stat("udp_failed", nfail)
}

// ---------------------------------------------------------------- two-layer routing under fragmentation
// A route with a stream-replacing non-terminal handler (proxy_protocol: cx.Wrap) followed by a
// route whose matcher looks at the INNER stream. The outer first message is split at every
// position, so that in one matching pass the first route still needs more data while the second
// one answers "no" on the outer bytes; after the first route has replaced the stream the second
// one must be asked again. A stream that reaches the inner route when delivered whole must reach
// it in every fragmentation (and its handler must read the whole inner stream). All connections
// of one header kind go through one provisioned config.
type vPrefix struct {
	Hex string `json:"hex,omitempty"`
	pre []byte
}

func (*vPrefix) CaddyModule() caddy.ModuleInfo {
	return caddy.ModuleInfo{ID: "layer4.matchers.verif_prefix", New: func() caddy.Module { return new(vPrefix) }}
}

func (m *vPrefix) Provision(caddy.Context) error {
	b, err := hex.DecodeString(m.Hex)
	m.pre = b
	return err
}

func (m *vPrefix) Match(cx *layer4.Connection) (bool, error) {
	p := make([]byte, len(m.pre))
	if _, err := io.ReadFull(cx, p); err != nil {
		return false, err
	}
	return bytes.Equal(p, m.pre), nil
}

var vPrefixOnce sync.Once

func TestVerifC01Layered(t *testing.T) {
	out := vOpen()
	defer out.Close()
	vRegister()
	vPrefixOnce.Do(func() { caddy.RegisterModule(&vPrefix{}) })
	prop := os.Getenv("VERIF_PROP")
	if prop == "" {
		prop = "C01"
	}
	rng := vNewRng(vSeed() + 4242)
	servers := map[string]any{}
	type run struct {
		sc    *vScenario
		kind  string
		split int
	}
	var runs []run
	for hk, k := range vHdrKinds {
		sid := fmt.Sprintf("ly%d", hk)
		payload := vStream(1+rng.Intn(250), 50+rng.Intn(400))
		for bytes.Equal(payload[:4], k.hdr[:4]) {
			payload = payload[1:]
		}
		raw := append(append([]byte{}, k.hdr...), payload...)
		routes := []any{
			map[string]any{
				"match":  []any{map[string]any{"verif_prefix": map[string]any{"hex": hex.EncodeToString(k.hdr)}}},
				"handle": []any{map[string]any{"handler": "proxy_protocol"}},
			},
			map[string]any{
				"match":  []any{map[string]any{"verif_prefix": map[string]any{"hex": hex.EncodeToString(payload[:4])}}},
				"handle": []any{map[string]any{"handler": "verif_rec", "sid": sid, "id": "term", "terminal": true, "read_size": 512}},
			},
		}
		port := 60000 + hk
		servers[sid] = map[string]any{"listen": []string{fmt.Sprintf("verifpipe/s:%d", port)}, "routes": routes}
		base := &vScenario{sid: sid, port: port, raw: raw, routes: routes, segName: "layered", echoPos: len(raw),
			expect: []vExpect{{id: "term", comp: "layered", want: payload, terminal: true}}}
		vScMu.Lock()
		vScs[sid] = base
		vScMu.Unlock()
		for split := 0; split <= len(k.hdr)+4; split++ { // 0: delivered whole
			cp := *base
			if split > 0 {
				cp.segs = []int{split}
			}
			cp.desc = fmt.Sprintf("layered header=%s (%d bytes) inner=%d bytes first segment=%d bytes (0: whole)", k.name, len(k.hdr), len(payload), split)
			runs = append(runs, run{&cp, k.name, split})
		}
	}
	// TLS in TLS: the outer ClientHello (sni outer.test) is matched and terminated by the tls handler,
	// the inner stream starts with another ClientHello (sni inner.test) that the next route's tls
	// matcher must judge on its own bytes
	certPEM, keyPEM, err := vSelfSigned()
	if err != nil {
		t.Fatal(err)
	}
	tlsApp := map[string]any{"tls": map[string]any{"certificates": map[string]any{"load_pem": []any{
		map[string]any{"certificate": certPEM, "key": keyPEM, "tags": []string{"verif"}}}}}}
	const tlsPort = 60900
	servers["lytls"] = map[string]any{"listen": []string{fmt.Sprintf("verifpipe/s:%d", tlsPort)}, "routes": []any{
		map[string]any{"match": []any{map[string]any{"tls": map[string]any{"sni": []string{"outer.test"}}}}, "handle": []any{map[string]any{"handler": "tls"}}},
		map[string]any{"match": []any{map[string]any{"tls": map[string]any{"sni": []string{"inner.test"}}}},
			"handle": []any{map[string]any{"handler": "verif_rec", "sid": "lytls", "id": "inner", "terminal": true, "read_size": 4096}}},
		map[string]any{"match": []any{map[string]any{"tls": map[string]any{"sni": []string{"outer.test"}}}},
			"handle": []any{map[string]any{"handler": "verif_rec", "sid": "lytls", "id": "wrong", "terminal": true, "read_size": 4096}}},
	}}
	vLoadServers(t, servers, tlsApp)
	for k := 0; k < 3; k++ {
		vTLSInTLS(out, prop, tlsPort, k)
	}
	var wg sync.WaitGroup
	sem := make(chan struct{}, 16)
	for _, r := range runs {
		wg.Add(1)
		go func(r run) {
			defer wg.Done()
			sem <- struct{}{}
			defer func() { <-sem }()
			_, _ = vRunClient(r.sc)
			vWaitRecorders(r.sc, false, 3*time.Second)
		}(r)
	}
	wg.Wait()
	wholeOK := map[string]bool{}
	nfail := 0
	for i, r := range runs {
		key, detail, in := vCheckExpectations(r.sc)
		if r.split == 0 {
			wholeOK[r.kind] = key == ""
		}
		if key != "" {
			nfail++
			rec := r.sc.rec()
			rec.mu.Lock()
			ran := rec.ran["term"]
			rec.mu.Unlock()
			in["first_segment"] = r.split
			k := prop + ":layered:" + key[strings.LastIndex(key, ":")+1:]
			if ran == 0 && r.split > 0 && wholeOK[r.kind] {
				k = prop + ":layered:rejected-in-fragments"
				detail = "the inner route is reached when the stream is delivered whole but not when the outer header arrives in two fragments: " + detail
			}
			out.Fail(k, detail, in)
		}
		out.Case(fmt.Sprintf("CE2E %d %d", 300000+i, len(r.sc.raw)), "layered/"+r.kind, r.split > 0, map[string]any{"desc": r.sc.desc, "failed": key != ""})
	}
	out.Stat("layered_connections", len(runs))
	out.Stat("layered_failed", nfail)
}

// records what is written through it
type vLogConn struct {
	net.Conn
	mu  sync.Mutex
	log []byte
}

func (l *vLogConn) Write(p []byte) (int, error) {
	l.mu.Lock()
	l.log = append(l.log, p...)
	l.mu.Unlock()
	return l.Conn.Write(p)
}

func vTLSInTLS(out *vOut, prop string, port, k int) {
	pipe, id, err := vPipeDialID(fmt.Sprintf("s:%d", port))
	if err != nil {
		out.Fail(prop+":layered:engine", "dial: "+err.Error(), nil)
		return
	}
	defer pipe.Close()
	_ = pipe.SetDeadline(time.Now().Add(8 * time.Second))
	cfg := &tls.Config{ServerName: "outer.test", InsecureSkipVerify: true}
	if k == 1 {
		cfg.MaxVersion = tls.VersionTLS12
	}
	outer := tls.Client(pipe, cfg)
	if err := outer.Handshake(); err != nil {
		out.Fail(prop+":layered:outer-tls-handshake", "the outer TLS handshake failed: "+err.Error(), map[string]any{"connection": k})
		return
	}
	go func() { // session tickets etc.
		p := make([]byte, 4096)
		for {
			if _, err := outer.Read(p); err != nil {
				return
			}
		}
	}()
	lc := &vLogConn{Conn: outer}
	inner := tls.Client(lc, &tls.Config{ServerName: "inner.test", InsecureSkipVerify: true})
	go func() { _ = inner.Handshake() }() // sends the inner ClientHello; nobody answers it
	rec := vRecOf("lytls#" + id)
	ok := false
	for t0 := time.Now(); time.Since(t0) < 3*time.Second; time.Sleep(2 * time.Millisecond) {
		lc.mu.Lock()
		sent := append([]byte{}, lc.log...)
		lc.mu.Unlock()
		rec.mu.Lock()
		got := append([]byte{}, rec.data["inner"]...)
		rec.mu.Unlock()
		if len(sent) > 0 && bytes.Equal(sent, got) {
			ok = true
			break
		}
	}
	rec.mu.Lock()
	wrong, ranInner, got := rec.ran["wrong"], rec.ran["inner"], len(rec.data["inner"])
	rec.mu.Unlock()
	lc.mu.Lock()
	sent := len(lc.log)
	lc.mu.Unlock()
	in := map[string]any{"connection": k, "inner_client_hello_bytes": sent, "inner_route_ran": ranInner, "inner_route_read": got, "outer_sni_route_ran_on_inner_stream": wrong}
	switch {
	case ok:
	case wrong > 0 || ranInner == 0:
		out.Fail(prop+":layered:inner-tls-hello-misjudged", "behind the tls handler the inner stream starts with a ClientHello for inner.test, but the tls matchers of the later routes did not judge it by its own bytes (route for inner.test not taken / route for outer.test taken)", in)
	default:
		out.Fail(prop+":layered:inner-stream-corrupted", "the handler of the inner route did not read exactly the inner ClientHello the client sent", in)
	}
	out.Case(fmt.Sprintf("CE2E %d %d", 400000+k, sent), "layered/tls-in-tls", true, map[string]any{"desc": "tls in tls", "failed": !ok})
}
