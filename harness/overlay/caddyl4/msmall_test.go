package caddyl4

// Engine for the "small" matchers (C04 / C06 / C14): ssh, xmpp, postgres, proxy_protocol, socks4,
// socks5, regexp (count gate), tls (record gate), http (request-line gate), not, clock, remote_ip,
// local_ip.
//
// Every matcher is evaluated the way the router does it: provisioned module value,
// layer4.WrapConnection over a net.Conn that counts Reads, layer4.MatcherSet{m}.Match (freeze /
// unfreeze), under recover().  For every generated stream every prefix is evaluated (twice on
// the same connection and once on a fresh one), the connection is drained afterwards and
// compared with the prefix, and the allocation of the whole chain is measured.  Cases go to the
// in-Coq correspondence check; the property texts are evaluated directly here (oracle keys
// C04:<m>:panic|alloc, C06:<m>:no-then-not-no|network-read|stream-changed|nondeterministic,
// C14:<m>:rejects-valid|accepts-invalid).

import (
	"bytes"
	"context"
	"encoding/binary"
	jsonMod "encoding/json"
	"errors"
	"fmt"
	"io"
	"math/big"
	"net"
	"net/netip"
	"os"
	"regexp"
	"runtime"
	"strings"
	"testing"
	"time"

	"github.com/caddyserver/caddy/v2"
	"github.com/caddyserver/caddy/v2/modules/caddyhttp"
	"go.uber.org/zap"

	"github.com/mholt/caddy-l4/layer4"
	"github.com/mholt/caddy-l4/modules/l4clock"
	"github.com/mholt/caddy-l4/modules/l4http"
	"github.com/mholt/caddy-l4/modules/l4postgres"
	"github.com/mholt/caddy-l4/modules/l4proxyprotocol"
	"github.com/mholt/caddy-l4/modules/l4regexp"
	"github.com/mholt/caddy-l4/modules/l4socks"
	"github.com/mholt/caddy-l4/modules/l4ssh"
	"github.com/mholt/caddy-l4/modules/l4tls"
	"github.com/mholt/caddy-l4/modules/l4xmpp"
)

// ---------------------------------------------------------------- scripted connection

type msAddr struct{ network, s string }

func (a msAddr) Network() string { return a.network }
func (a msAddr) String() string  { return a.s }

type msConn struct {
	reads         int
	local, remote net.Addr
}

func (c *msConn) Read(p []byte) (int, error)         { c.reads++; return 0, io.EOF }
func (c *msConn) Write(p []byte) (int, error)        { return len(p), nil }
func (c *msConn) Close() error                       { return nil }
func (c *msConn) LocalAddr() net.Addr                { return c.local }
func (c *msConn) RemoteAddr() net.Addr               { return c.remote }
func (c *msConn) SetDeadline(t time.Time) error      { return nil }
func (c *msConn) SetReadDeadline(t time.Time) error  { return nil }
func (c *msConn) SetWriteDeadline(t time.Time) error { return nil }

func msNewConn(udp bool) *msConn {
	if udp {
		return &msConn{local: &net.UDPAddr{IP: net.IPv4(127, 0, 0, 1), Port: 5353}, remote: &net.UDPAddr{IP: net.IPv4(10, 1, 2, 3), Port: 40000}}
	}
	return &msConn{local: &net.TCPAddr{IP: net.IPv4(127, 0, 0, 1), Port: 5432}, remote: &net.TCPAddr{IP: net.IPv4(10, 1, 2, 3), Port: 40000}}
}

const (
	vdYes   = "Yes"
	vdNo    = "No"
	vdMore  = "More"
	vdFail  = "Fail"
	vdPanic = "Panic"
)

// msHangOut receives the report when a matcher does not come back at all
var msHangOut *vOut

// one evaluation in matching mode, under a watchdog: a matcher that neither returns nor panics
// within 10 s (they all finish in microseconds) is reported as C04:<matcher>:hang and the run is
// abandoned, because the spinning goroutine cannot be stopped
func msEval(m layer4.ConnMatcher, cx *layer4.Connection) (string, string) {
	type res struct{ v, d string }
	ch := make(chan res, 1)
	pre := append([]byte{}, cx.MatchingBytes()...)
	go func() {
		v, d := msEvalNow(m, cx)
		ch <- res{v, d}
	}()
	timer := time.NewTimer(10 * time.Second)
	defer timer.Stop()
	select {
	case r := <-ch:
		return r.v, r.d
	case <-timer.C:
		tag := fmt.Sprintf("%T", m)
		if cm, ok := m.(caddy.Module); ok {
			id := string(cm.CaddyModule().ID)
			tag = id[strings.LastIndex(id, ".")+1:]
		} else if _, ok := m.(*msAny); ok {
			tag = "anymatch"
		}
		if msHangOut != nil {
			msHangOut.Fail("C04:"+tag+":hang", "Match did not return a verdict or an error within 10 s (it spins)",
				map[string]any{"matcher": tag, "prefix_hex": fmt.Sprintf("%x", pre)})
			msHangOut.Close()
		}
		os.Exit(1)
		return vdFail, "hang"
	}
}

func msEvalNow(m layer4.ConnMatcher, cx *layer4.Connection) (v string, detail string) {
	defer func() {
		if r := recover(); r != nil {
			v, detail = vdPanic, fmt.Sprint(r)
		}
	}()
	var ok bool
	var err error
	if a, isAny := m.(*msAny); isAny {
		ok, err = a.mss.AnyMatch(cx) // the OR over a route's matcher sets, as RouteList.Compile calls it
	} else {
		ok, err = layer4.MatcherSet{m}.Match(cx)
	}
	switch {
	case err == nil && ok:
		return vdYes, ""
	case err == nil:
		return vdNo, ""
	case errors.Is(err, layer4.ErrConsumedAllPrefetchedBytes):
		return vdMore, ""
	default:
		return vdFail, err.Error()
	}
}

// msAny carries a route's matcher sets; msEval evaluates it with MatcherSets.AnyMatch
type msAny struct{ mss layer4.MatcherSets }

func (a *msAny) Match(cx *layer4.Connection) (bool, error) { return a.mss.AnyMatch(cx) }

func msTotalAlloc() uint64 {
	var ms runtime.MemStats
	runtime.ReadMemStats(&ms)
	return ms.TotalAlloc
}

const msAllocBound = 16 * layer4.MaxMatchingBytes

// ---------------------------------------------------------------- matcher definitions

type msStream struct {
	b     []byte
	cls   string // generator class
	ref   int    // reference predicate on the whole stream: 1 matches, 0 does not, -1 not determined by the wire definition
	key   string // oracle key suffix override for a recorded finding class ("" = default)
	refc  string // optional reference cross-check case (KRef...)
	heavy bool   // evaluate only a few prefixes (huge length fields)
}

type msCfg struct {
	coq   string                    // mcfg term; may contain %REVAL% (regexp)
	build func() layer4.ConnMatcher // fresh, provisioned
	gate  int                       // bytes up to and including the first magic/length gate
	gen   func(r *vRng, i int) msStream
	reval func(b []byte) bool // regexp only
}

type msMatcher struct {
	tag  string
	cfgs []msCfg
}

func msMust(err error) {
	if err != nil {
		panic(err)
	}
}

var msCtx caddy.Context

func msPick(r *vRng, xs ...string) string { return xs[r.Intn(len(xs))] }

func msPrintable(r *vRng, n int, avoid string) []byte {
	b := make([]byte, n)
	for i := range b {
		for {
			c := byte(0x21 + r.Intn(0x7e-0x21))
			if !strings.ContainsRune(avoid, rune(c)) {
				b[i] = c
				break
			}
		}
	}
	return b
}

func msTrail(r *vRng) []byte {
	switch r.Intn(4) {
	case 0:
		return nil
	case 1:
		return r.Bytes(1 + r.Intn(4))
	default:
		return r.Bytes(r.Intn(40))
	}
}

func msZList(xs []int64) string { return cZList(xs) }

// ---- ssh
func msGenSSH(r *vRng, i int) msStream {
	lead := []byte("SSH-")
	proto := msPick(r, "2.0", "1.99", "1.5", string(msPrintable(r, 1+r.Intn(4), "-")))
	soft := string(msPrintable(r, 1+r.Intn(20), "-"))
	line := proto + "-" + soft
	if r.Intn(3) == 0 {
		line += " " + string(msPrintable(r, r.Intn(12), ""))
	}
	line += "\r\n"
	switch k := i % 8; {
	case k < 4: // valid
		return msStream{b: append(append(append([]byte{}, lead...), line...), msTrail(r)...), cls: "valid", ref: 1}
	case k < 6: // one character of the lead corrupted
		pos := r.Intn(4)
		c := lead[pos]
		for c == lead[pos] {
			switch r.Intn(3) {
			case 0:
				c = lead[pos] ^ 0x20 // case flip
			case 1:
				c = lead[pos] + byte(1+r.Intn(3))
			default:
				c = byte(r.Intn(256))
			}
		}
		l2 := append([]byte{}, lead...)
		l2[pos] = c
		return msStream{b: append(append(l2, line...), msTrail(r)...), cls: "corrupt-lead", ref: 0}
	case k == 6: // truncated identification (fewer than 4 bytes can never be decided)
		n := r.Intn(4)
		return msStream{b: append([]byte{}, lead[:n]...), cls: "short", ref: -1}
	default:
		b := r.Bytes(1 + r.Intn(30))
		if r.Intn(3) == 0 {
			b = append([]byte("SSH"), b...)
		}
		ref := 0
		if bytes.HasPrefix(b, []byte("SSH-")) {
			ref = 1
		}
		if len(b) < 4 {
			ref = -1
		}
		return msStream{b: b, cls: "random", ref: ref}
	}
}

// ---- xmpp
func msGenXMPP(r *vRng, i int) msStream {
	q := msPick(r, "'", "\"")
	decl := msPick(r, "<?xml version='1.0'?>", "<?xml version='1.0' ?>", "<?xml version=\"1.0\" encoding=\"UTF-8\"?>", "")
	ns := msPick(r, "jabber:client", "jabber:server")
	dom := msPick(r, "example.com", "im.example.org", "a.io", "chat.example.net")
	attrNS := " xmlns=" + q + ns + q
	attrStream := " xmlns:stream=" + q + "http://etherx.jabber.org/streams" + q
	attrTo := " to=" + q + dom + q
	attrVer := " version=" + q + "1.0" + q
	k := i % 8
	var hdr string
	cls, ref, key := "valid", 1, ""
	switch {
	case k < 4: // namespace declaration first (what common clients send)
		hdr = decl + "<stream:stream" + attrNS + attrTo + attrStream + attrVer + ">"
		if len(decl)+len("<stream:stream")+len(" xmlns='")+6 > 50 {
			cls, key = "valid-late-ns", "rejects-valid-late-namespace"
		}
	case k == 4: // RFC 6120 4.7 lists the attributes in any order: to/from before the namespaces
		hdr = decl + "<stream:stream from=" + q + "juliet@" + dom + q + attrTo + attrVer + " xml:lang=" + q + "en" + q + attrNS + attrStream + ">"
		cls, key = "valid-late-ns", "rejects-valid-late-namespace"
		if off := strings.Index(hdr, "jabber"); off >= 0 && off+6 <= 50 {
			cls, key = "valid", ""
		}
	case k == 5: // namespace word corrupted everywhere
		hdr = decl + "<stream:stream" + attrNS + attrTo + attrStream + attrVer + ">"
		hdr = strings.ReplaceAll(hdr, "jabber", msPick(r, "jabbir", "Jabber", "jabbe_", "xabber"))
		cls, ref = "corrupt-namespace", 0
	case k == 6:
		hdr = string(r.Bytes(50 + r.Intn(30)))
		cls, ref = "random", 0
		if strings.Contains(hdr, "jabber") {
			ref = -1
		}
	default: // short of the 50-byte minimum
		hdr = (decl + "<stream:stream" + attrNS + attrTo + attrStream + attrVer + ">")[:r.Intn(50)]
		cls, ref = "short", -1
	}
	b := []byte(hdr)
	if k < 6 {
		b = append(b, msTrail(r)...)
	}
	return msStream{b: b, cls: cls, ref: ref, key: key}
}

// ---- postgres
func msPgParams(ps [][2]string) []byte {
	var b []byte
	for _, kv := range ps {
		b = append(b, kv[0]...)
		b = append(b, 0)
		b = append(b, kv[1]...)
		b = append(b, 0)
	}
	return b
}

func msPgFrame(body []byte) []byte {
	b := make([]byte, 4, 4+len(body))
	binary.BigEndian.PutUint32(b, uint32(4+len(body)))
	return append(b, body...)
}

func msPgRefCase(ssl bool, maj, min int, ps [][2]string, enc []byte, ref bool) string {
	var pp []string
	for _, kv := range ps {
		pp = append(pp, fmt.Sprintf("(%s, %s)", cHex([]byte(kv[0])), cHex([]byte(kv[1]))))
	}
	return fmt.Sprintf("KRefPg %s %d %d [%s] %s %s", cBool(ssl), maj, min, strings.Join(pp, "; "), cHex(enc), cBool(ref))
}

func msGenPG(r *vRng, i int) msStream {
	names := []string{"user", "database", "options", "application_name", "client_encoding", "replication", "x"}
	mkParams := func(n int) [][2]string {
		var ps [][2]string
		for j := 0; j < n; j++ {
			ps = append(ps, [2]string{names[r.Intn(len(names))], string(msPrintable(r, r.Intn(12), ""))})
		}
		return ps
	}
	startup := func(maj, min int, ps [][2]string) []byte {
		body := make([]byte, 4)
		binary.BigEndian.PutUint16(body, uint16(maj))
		binary.BigEndian.PutUint16(body[2:], uint16(min))
		body = append(body, msPgParams(ps)...)
		body = append(body, 0)
		return msPgFrame(body)
	}
	k := i % 16
	switch {
	case k == 0:
		enc := msPgFrame([]byte{0x04, 0xd2, 0x16, 0x2f})
		return msStream{b: append(enc, msTrail(r)...), cls: "sslrequest", ref: 1, refc: msPgRefCase(true, 0, 0, nil, enc, true)}
	case k < 6: // StartupMessage 3.x with 1..5 parameters
		maj, min := 3, r.Intn(3)
		if r.Intn(8) == 0 {
			maj = 3 + r.Intn(1000)
		}
		if r.Intn(16) == 0 {
			maj, min = 65535, 65535
		}
		ps := mkParams(1 + r.Intn(5))
		enc := startup(maj, min, ps)
		return msStream{b: append(enc, msTrail(r)...), cls: "startup", ref: 1, refc: msPgRefCase(false, maj, min, ps, enc, true)}
	case k == 6: // protocol major below 3
		maj, min := r.Intn(3), r.Intn(4)
		ps := mkParams(1 + r.Intn(3))
		enc := startup(maj, min, ps)
		return msStream{b: append(enc, msTrail(r)...), cls: "corrupt-major", ref: 0, refc: msPgRefCase(false, maj, min, ps, enc, false)}
	case k == 7: // no parameters at all
		enc := startup(3, 0, nil)
		return msStream{b: append(enc, msTrail(r)...), cls: "corrupt-noparams", ref: 0, refc: msPgRefCase(false, 3, 0, nil, enc, false)}
	case k == 8: // a value or a name without its NUL terminator (length field consistent)
		ps := mkParams(1 + r.Intn(3))
		body := []byte{0, 3, 0, 0}
		body = append(body, msPgParams(ps)...)
		cut := 1 + r.Intn(2) // drop the last NUL, or the last NUL and its value
		if cut == 2 {
			body = body[:len(body)-1-len(ps[len(ps)-1][1])]
			body = body[:len(body)-1] // name keeps no terminator either
		} else {
			body = body[:len(body)-1]
		}
		return msStream{b: msPgFrame(body), cls: "corrupt-unterminated", ref: 0}
	case k == 9: // other first messages of the protocol: CancelRequest, GSSENCRequest
		if r.Bool() {
			return msStream{b: append(msPgFrame([]byte{0x04, 0xd2, 0x16, 0x30}), msTrail(r)...), cls: "gssencrequest", ref: -1}
		}
		return msStream{b: msPgFrame(append([]byte{0x04, 0xd2, 0x16, 0x2e}, r.Bytes(8)...)), cls: "cancelrequest", ref: -1}
	case k == 10: // length field below the size of the header / of the request code
		n := r.Intn(8)
		b := []byte{0, 0, 0, byte(n)}
		if n >= 4 {
			b = append(b, r.Bytes(n-4)...)
		}
		return msStream{b: append(b, r.Bytes(r.Intn(3))...), cls: "malformed-short-length", ref: 0, heavy: true}
	case k == 11: // length field far beyond anything the matching buffer can hold
		b := []byte{byte(0x80 + r.Intn(0x80)), byte(r.Intn(256)), byte(r.Intn(256)), byte(r.Intn(256))}
		if r.Intn(3) == 0 {
			b = []byte{0xff, 0xff, 0xff, 0xff}
		}
		return msStream{b: append(b, r.Bytes(r.Intn(3))...), cls: "malformed-huge-length", ref: 0, heavy: true}
	case k == 12: // the known crashers of the tree before the repairs
		if r.Bool() {
			return msStream{b: []byte{0, 0, 0, 4}, cls: "malformed-short-length", ref: 0}
		}
		return msStream{b: append([]byte{0, 0, 0, 12, 0, 3, 0, 0}, "user"...), cls: "corrupt-unterminated", ref: 0}
	case k == 13: // missing final terminator only (the matcher is lenient here; not judged)
		ps := mkParams(1 + r.Intn(3))
		body := append([]byte{0, 3, 0, 0}, msPgParams(ps)...)
		return msStream{b: msPgFrame(body), cls: "no-final-terminator", ref: -1}
	case k == 14 && r.Intn(2) == 0: // payload exactly at / one byte over what the matching buffer can ever hold
		over := r.Intn(2)
		val := strings.Repeat("v", layer4.MaxMatchingBytes-4-len("user")-3+over)
		ps := [][2]string{{"user", val}}
		enc := startup(3, 0, ps)
		enc = enc[:layer4.MaxMatchingBytes] // what can be prefetched at most
		if over == 1 {
			return msStream{b: enc, cls: "oversize", ref: 0}
		}
		return msStream{b: enc, cls: "limit-incomplete", ref: -1}
	case k == 14: // length larger than the payload that follows (never completes)
		ps := mkParams(1)
		enc := startup(3, 0, ps)
		binary.BigEndian.PutUint32(enc, uint32(len(enc)+1+r.Intn(200)))
		return msStream{b: enc, cls: "incomplete", ref: -1}
	default:
		b := r.Bytes(4 + r.Intn(30))
		b[0], b[1], b[2] = 0, 0, 0
		return msStream{b: b, cls: "random", ref: -1}
	}
}

// ---- proxy_protocol
var msPPv2Sig = []byte{0x0D, 0x0A, 0x0D, 0x0A, 0x00, 0x0D, 0x0A, 0x51, 0x55, 0x49, 0x54, 0x0A}

func msGenPP(r *vRng, i int) msStream {
	v1 := func() []byte {
		switch r.Intn(3) {
		case 0:
			return []byte(fmt.Sprintf("PROXY TCP4 %d.%d.%d.%d %d.%d.%d.%d %d %d\r\n", r.Intn(256), r.Intn(256), r.Intn(256), r.Intn(256), r.Intn(256), r.Intn(256), r.Intn(256), r.Intn(256), r.Intn(65536), r.Intn(65536)))
		case 1:
			return []byte(fmt.Sprintf("PROXY TCP6 2001:db8::%x ::1 %d %d\r\n", r.Intn(65536), r.Intn(65536), r.Intn(65536)))
		default:
			return []byte("PROXY UNKNOWN\r\n")
		}
	}
	v2 := func() []byte {
		b := append([]byte{}, msPPv2Sig...)
		b = append(b, byte(0x20|r.Intn(2)))
		switch r.Intn(3) {
		case 0:
			b = append(b, 0x11, 0, 12)
			b = append(b, r.Bytes(12)...)
		case 1:
			b = append(b, 0x21, 0, 36)
			b = append(b, r.Bytes(36)...)
		default:
			b = append(b, 0x00, 0, 0)
		}
		return b
	}
	k := i % 8
	switch {
	case k < 2:
		return msStream{b: append(v1(), msTrail(r)...), cls: "valid-v1", ref: 1}
	case k < 4:
		return msStream{b: append(v2(), msTrail(r)...), cls: "valid-v2", ref: 1}
	case k == 4:
		b := v1()
		pos := r.Intn(5)
		b[pos] ^= byte(1 << r.Intn(8))
		return msStream{b: append(b, msTrail(r)...), cls: "corrupt-v1-magic", ref: 0}
	case k == 5:
		b := v2()
		pos := r.Intn(12)
		b[pos] ^= byte(1 << r.Intn(8))
		return msStream{b: append(b, msTrail(r)...), cls: "corrupt-v2-signature", ref: 0}
	case k == 6:
		b := append([]byte{}, msPPv2Sig...)
		if r.Bool() {
			b = []byte("PROXY UNKNOWN")
		}
		return msStream{b: b[:r.Intn(12)], cls: "short", ref: -1}
	default:
		b := r.Bytes(12 + r.Intn(20))
		ref := 0
		if bytes.HasPrefix(b, []byte("PROXY")) || bytes.HasPrefix(b, msPPv2Sig) {
			ref = 1
		}
		return msStream{b: b, cls: "random", ref: ref}
	}
}

// ---- CIDR helpers shared by socks4 and the ip matchers
type msCIDR struct {
	text string
	pfx  netip.Prefix
	ipn  *net.IPNet // independent reference (package net)
}

func msParseCIDR(s string) msCIDR {
	c := msCIDR{text: s}
	t := s
	if !strings.Contains(t, "/") {
		if strings.Contains(t, ":") {
			t += "/128"
		} else {
			t += "/32"
		}
	}
	c.pfx = netip.MustParsePrefix(t)
	_, ipn, err := net.ParseCIDR(t)
	msMust(err)
	c.ipn = ipn
	return c
}

func msAddrZ(a netip.Addr) string {
	b := a.AsSlice()
	return new(big.Int).SetBytes(b).String()
}

// probe addresses chosen relative to EACH range of a list: its first and last address, the
// neighbours on both sides of both boundaries and a random address inside (deduplicated)
func msProbeHosts(cs []msCIDR, r *vRng) []string {
	seen := map[string]bool{}
	var hs []string
	add := func(a netip.Addr) {
		if !a.IsValid() {
			return
		}
		a = a.Unmap()
		if s := a.String(); !seen[s] {
			seen[s] = true
			hs = append(hs, s)
		}
	}
	for _, c := range cs {
		first := c.pfx.Masked().Addr()
		b := first.AsSlice()
		in := first.AsSlice()
		rnd := r.Bytes(len(b))
		for i := c.pfx.Bits(); i < len(b)*8; i++ {
			b[i/8] |= 1 << (7 - i%8)
			in[i/8] |= rnd[i/8] & (1 << (7 - i%8))
		}
		last, _ := netip.AddrFromSlice(b)
		inside, _ := netip.AddrFromSlice(in)
		for _, a := range []netip.Addr{first, first.Prev(), first.Next(), last, last.Prev(), last.Next(), inside} {
			add(a)
		}
	}
	return hs
}

func msCIDRsCoq(cs []msCIDR) string {
	var ss []string
	for _, c := range cs {
		ss = append(ss, fmt.Sprintf("(%s, %s, %d)", cBool(c.pfx.Addr().Is6()), msAddrZ(c.pfx.Addr()), c.pfx.Bits()))
	}
	return "[" + strings.Join(ss, "; ") + "]"
}

func msCIDRsRef(cs []msCIDR, ip net.IP) bool {
	for _, c := range cs {
		v4net := c.ipn.IP.To4() != nil && len(c.ipn.Mask) == 4
		v4ip := ip.To4() != nil
		if v4net != v4ip {
			continue
		}
		if c.ipn.Contains(ip) {
			return true
		}
	}
	return false
}

// ---- socks4
type msS4Cfg struct {
	commands []string
	ports    []uint16
	networks []string
}

func msS4(c msS4Cfg) msCfg {
	var cidrs []msCIDR
	for _, n := range c.networks {
		cidrs = append(cidrs, msParseCIDR(n))
	}
	cmds := []int64{}
	for _, s := range c.commands {
		if strings.EqualFold(s, "CONNECT") {
			cmds = append(cmds, 1)
		} else {
			cmds = append(cmds, 2)
		}
	}
	if len(cmds) == 0 {
		cmds = []int64{1, 2}
	}
	var ports []int64
	for _, p := range c.ports {
		ports = append(ports, int64(p))
	}
	cfgCoq := func() string { return fmt.Sprintf("%s %s %s", msZList(cmds), msZList(ports), msCIDRsCoq(cidrs)) }
	hasCmd := func(cd byte) bool {
		for _, x := range cmds {
			if int64(cd) == x {
				return true
			}
		}
		return false
	}
	gen := func(r *vRng, i int) msStream {
		vn, cd := byte(4), byte(1+r.Intn(2))
		port := uint16(r.Intn(65536))
		if len(c.ports) > 0 && r.Intn(3) != 0 {
			port = c.ports[r.Intn(len(c.ports))]
		}
		ip := make([]byte, 4)
		copy(ip, r.Bytes(4))
		if len(cidrs) > 0 && r.Intn(3) != 0 {
			// an address inside, or just outside, one of the configured IPv4 networks
			cc := cidrs[r.Intn(len(cidrs))]
			if cc.pfx.Addr().Is4() {
				a := cc.pfx.Masked().Addr().As4()
				base := binary.BigEndian.Uint32(a[:])
				hostBits := 32 - cc.pfx.Bits()
				var v uint32
				switch r.Intn(4) {
				case 0:
					v = base // first
				case 1:
					v = base | uint32((uint64(1)<<hostBits)-1) // last
				case 2:
					v = base + uint32(uint64(1)<<hostBits) // first after
				default:
					v = base - 1 // last before
				}
				binary.BigEndian.PutUint32(ip, v)
			}
		}
		cls := "valid"
		switch i % 8 {
		case 4:
			vn = byte(r.Intn(256))
			if r.Bool() {
				vn = 5
			}
			cls = "corrupt-version"
		case 5:
			cd = byte(r.Intn(256))
			if r.Bool() {
				cd = byte(msPick(r, "\x00", "\x03")[0])
			}
			cls = "corrupt-command"
		case 6:
			port = uint16(r.Intn(65536))
			if len(c.ports) > 0 {
				port = c.ports[0] + uint16(1+r.Intn(2)) - uint16(2*r.Intn(2))
			}
			cls = "other-port"
		case 7:
			copy(ip, r.Bytes(4))
			cls = "other-address"
		}
		user := msPrintable(r, r.Intn(10), "")
		enc := []byte{vn, cd, byte(port >> 8), byte(port)}
		enc = append(enc, ip...)
		enc = append(enc, user...)
		enc = append(enc, 0)
		// reference, from the wire definition and the documented filters
		ref := vn == 4 && hasCmd(cd)
		if len(c.ports) > 0 {
			ok := false
			for _, p := range c.ports {
				ok = ok || p == port
			}
			ref = ref && ok
		}
		if len(cidrs) > 0 {
			ref = ref && msCIDRsRef(cidrs, net.IP(ip))
		}
		refi := 0
		if ref {
			refi = 1
		}
		refc := fmt.Sprintf("KRefS4 %s %d %d %d %d %s %s %s", cfgCoq(), vn, cd, port, binary.BigEndian.Uint32(ip), cHex(user), cHex(enc), cBool(ref))
		if i%16 == 15 {
			b := r.Bytes(r.Intn(8))
			return msStream{b: b, cls: "short", ref: -1}
		}
		return msStream{b: append(enc, msTrail(r)...), cls: cls, ref: refi, refc: refc}
	}
	return msCfg{
		coq: "MS4 " + cfgCoq(),
		build: func() layer4.ConnMatcher {
			m := &l4socks.Socks4Matcher{Commands: c.commands, Ports: c.ports, Networks: c.networks}
			msMust(m.Provision(msCtx))
			return m
		},
		gate: 8, gen: gen,
	}
}

// ---- socks5
func msS5(auth []uint16) msCfg {
	eff := auth
	if len(eff) == 0 {
		eff = []uint16{0, 1, 2}
	}
	var effZ []int64
	for _, a := range eff {
		effZ = append(effZ, int64(a))
	}
	in := func(x byte) bool {
		for _, a := range eff {
			if a == uint16(x) {
				return true
			}
		}
		return false
	}
	gen := func(r *vRng, i int) msStream {
		ver := byte(5)
		n := 1 + r.Intn(3)
		switch i % 16 {
		case 9:
			n = 0
		case 10:
			n = 255
		case 11:
			n = 4 + r.Intn(250)
		}
		methods := make([]byte, n)
		for j := range methods {
			methods[j] = byte(eff[r.Intn(len(eff))])
			if eff[r.Intn(len(eff))] > 255 {
				methods[j] = 0
			}
		}
		cls := "valid"
		switch i % 8 {
		case 5:
			ver = byte(r.Intn(256))
			if r.Bool() {
				ver = 4
			}
			cls = "corrupt-version"
		case 6, 7:
			if n > 0 {
				methods[r.Intn(n)] = byte(r.Intn(256))
				cls = "other-method"
			}
		}
		if n == 0 {
			cls = "zero-methods"
		}
		enc := append([]byte{ver, byte(n)}, methods...)
		ref := ver == 5 && n >= 1
		for _, x := range methods {
			ref = ref && in(x)
		}
		refi := 0
		if ref {
			refi = 1
		}
		key := ""
		if n == 0 && ver == 5 {
			key = "accepts-zero-methods"
		}
		refc := fmt.Sprintf("KRefS5 %s %d %s %s %s", msZList(effZ), ver, cHex(methods), cHex(enc), cBool(ref))
		return msStream{b: append(enc, msTrail(r)...), cls: cls, ref: refi, refc: refc, key: key}
	}
	return msCfg{
		coq: "MS5 " + msZList(effZ),
		build: func() layer4.ConnMatcher {
			m := &l4socks.Socks5Matcher{AuthMethods: append([]uint16{}, auth...)}
			msMust(m.Provision(msCtx))
			return m
		},
		gate: 2, gen: gen,
	}
}

// ---- regexp
func msRe(pattern string, count uint16, good, bad []string) msCfg {
	eff := int(count)
	if eff == 0 {
		eff = 4
	}
	re := regexp.MustCompile(pattern)
	gen := func(r *vRng, i int) msStream {
		var b []byte
		cls := "valid"
		switch i % 4 {
		case 0, 1:
			b = []byte(good[r.Intn(len(good))])
		case 2:
			b = []byte(bad[r.Intn(len(bad))])
			cls = "nonmatching"
		default:
			b = r.Bytes(r.Intn(2*eff + 4))
			cls = "random"
		}
		if i%4 != 3 {
			b = append(b, msTrail(r)...)
		}
		ref := -1
		if len(b) >= eff {
			ref = 0
			if re.Match(b[:eff]) {
				ref = 1
			}
		}
		return msStream{b: b, cls: cls, ref: ref}
	}
	return msCfg{
		coq: fmt.Sprintf("MRe %d %%REVAL%%", eff),
		build: func() layer4.ConnMatcher {
			m := &l4regexp.MatchRegexp{Pattern: pattern, Count: count}
			msMust(m.Provision(msCtx))
			return m
		},
		gate: eff, gen: gen,
		reval: func(b []byte) bool { return len(b) >= eff && re.Match(b[:eff]) },
	}
}

// ---- tls record gate
func msGenTLS(r *vRng, i int) msStream {
	typ := byte(22)
	ver := []byte{3, byte(r.Intn(5))}
	var body []byte
	switch r.Intn(4) {
	case 0:
		body = nil
	case 1:
		body = r.Bytes(1 + r.Intn(8))
	default:
		// handshake header + client version + random + empty session id + two suites + null compression
		hello := []byte{3, 3}
		hello = append(hello, r.Bytes(32)...)
		hello = append(hello, 0, 0, 4, 0x13, 0x01, 0x00, 0xff, 1, 0)
		if r.Bool() {
			name := "host" + fmt.Sprint(r.Intn(100)) + ".example.com"
			sni := append([]byte{0, byte(len(name) >> 8), byte(len(name))}, name...)
			sni = append([]byte{byte((len(sni)) >> 8), byte(len(sni))}, sni...)
			ext := append([]byte{0, 0, byte(len(sni) >> 8), byte(len(sni))}, sni...)
			hello = append(hello, byte(len(ext)>>8), byte(len(ext)))
			hello = append(hello, ext...)
		}
		body = append([]byte{1, 0, byte(len(hello) >> 8), byte(len(hello))}, hello...)
	}
	cls := "valid"
	ref := 1
	switch i % 8 {
	case 5:
		typ = byte(r.Intn(256))
		if r.Bool() {
			typ = byte(msPick(r, "\x14", "\x15", "\x17")[0])
		}
		cls = "corrupt-type"
		if typ != 22 {
			ref = 0
		}
	case 6:
		ver = r.Bytes(2)
		cls = "other-version"
	case 7:
		b := r.Bytes(r.Intn(12))
		return msStream{b: b, cls: "random", ref: -1}
	}
	enc := append([]byte{typ}, ver...)
	enc = append(enc, byte(len(body)>>8), byte(len(body)))
	enc = append(enc, body...)
	if i%32 == 3 { // a record that fills the matching buffer exactly
		big := r.Bytes(layer4.MaxMatchingBytes - 5)
		enc = append([]byte{22, 3, 1, byte(len(big) >> 8), byte(len(big))}, big...)
		return msStream{b: enc, cls: "valid-large", ref: 1}
	}
	if i%32 == 19 { // the largest length a record header can declare
		enc = append([]byte{22, 3, 1, 0xff, 0xff}, r.Bytes(40)...)
		return msStream{b: enc, cls: "incomplete", ref: -1}
	}
	if i%16 == 12 { // declared length beyond what follows: never completes
		binary.BigEndian.PutUint16(enc[3:], uint16(len(body)+1+r.Intn(60000)))
		return msStream{b: enc, cls: "incomplete", ref: -1}
	}
	return msStream{b: append(enc, msTrail(r)...), cls: cls, ref: ref}
}

// ---- http request-line gate
func msGenHTTP(r *vRng, i int) msStream {
	method := msPick(r, "GET", "POST", "OPTIONS", "X", "DELETE")
	target := "/" + string(msPrintable(r, r.Intn(20), "\"<>\\^`{|}%#?"))
	if r.Intn(6) == 0 {
		target = "*"
		method = "OPTIONS"
	}
	word := "HTTP/"
	ver := msPick(r, "1.1", "1.0")
	eol := "\r\n"
	if r.Intn(4) == 0 {
		eol = "\n"
	}
	cls, ref := "valid", 1
	switch i % 8 {
	case 4:
		word = msPick(r, "HTTX/", "http/", "HTTP:", "HTTPS", "XTTP/", "HTTP ")
		cls, ref = "corrupt-protocol-word", 0
	case 5: // no request line at all within the stream
		b := msPrintable(r, r.Intn(40), "")
		if i%32 == 5 { // the matching buffer fills up before any line ends
			b = bytes.Repeat([]byte("a"), layer4.MaxMatchingBytes)
			return msStream{b: b, cls: "full-buffer", ref: -1}
		}
		return msStream{b: b, cls: "no-newline", ref: -1}
	case 6: // first lines around the shortest possible request line: LF at index 0..13, with and without CR
		idx := (i / 8) % 26
		b := msPrintable(r, idx/2, "")
		if idx%2 == 1 {
			b = append(b, '\r')
		}
		b = append(b, '\n')
		return msStream{b: append(b, msTrail(r)...), cls: "short-line", ref: -1}
	case 7:
		b := r.Bytes(10 + r.Intn(40))
		return msStream{b: b, cls: "random", ref: -1}
	}
	host := "Host: " + msPick(r, "example.com", "a.test:8080") + eol
	req := method + " " + target + " " + word + ver + eol + host + eol
	return msStream{b: []byte(req), cls: cls, ref: ref}
}

// ---------------------------------------------------------------- the driver

func TestVerifMSmall(t *testing.T) {
	out := vOpen()
	defer out.Close()
	msHangOut = out
	rng := vNewRng(vSeed())
	n := vN(96)
	prop := os.Getenv("VERIF_PROP")
	_ = prop

	var cancel context.CancelFunc
	msCtx, cancel = caddy.NewContext(caddy.Context{Context: context.Background()})
	defer cancel()

	simple := func(tag, coq string, gate int, mk func() layer4.ConnMatcher, gen func(*vRng, int) msStream) msMatcher {
		return msMatcher{tag: tag, cfgs: []msCfg{{coq: coq, build: mk, gate: gate, gen: gen}}}
	}
	mkTLS := func() layer4.ConnMatcher {
		m := &l4tls.MatchTLS{}
		msMust(m.Provision(msCtx))
		return m
	}
	mkHTTP := func() layer4.ConnMatcher {
		m := &l4http.MatchHTTP{}
		msMust(m.Provision(msCtx))
		return m
	}
	mkNot := func(sets ...[]layer4.ConnMatcher) func() layer4.ConnMatcher {
		return func() layer4.ConnMatcher {
			m := &layer4.MatchNot{}
			for _, s := range sets {
				m.MatcherSets = append(m.MatcherSets, layer4.MatcherSet(s))
			}
			return m
		}
	}
	flip := func(gen func(*vRng, int) msStream, refOf func(msStream) int) func(*vRng, int) msStream {
		return func(r *vRng, i int) msStream {
			s := gen(r, i)
			s.ref = refOf(s)
			s.refc, s.key = "", ""
			return s
		}
	}
	neg := func(s msStream) int {
		if s.ref < 0 {
			return -1
		}
		return 1 - s.ref
	}
	ssh := func() layer4.ConnMatcher { return &l4ssh.MatchSSH{} }
	pp := func() layer4.ConnMatcher { return &l4proxyprotocol.MatchProxyProtocol{} }
	s5 := msS5(nil)

	matchers := []msMatcher{
		simple("ssh", "MSsh", 4, ssh, msGenSSH),
		simple("xmpp", "MXmpp", 50, func() layer4.ConnMatcher { return &l4xmpp.MatchXMPP{} }, msGenXMPP),
		simple("postgres", "MPg", 4, func() layer4.ConnMatcher { return &l4postgres.MatchPostgres{} }, msGenPG),
		simple("proxy_protocol", "MPP", 12, pp, msGenPP),
		{tag: "socks4", cfgs: []msCfg{
			msS4(msS4Cfg{}),
			msS4(msS4Cfg{commands: []string{"CONNECT"}}),
			msS4(msS4Cfg{commands: []string{"bind"}, ports: []uint16{80, 443, 65535}}),
			msS4(msS4Cfg{networks: []string{"10.0.0.0/8", "192.168.1.1"}}),
			msS4(msS4Cfg{ports: []uint16{0, 1080}, networks: []string{"172.16.0.0/12", "203.0.113.77/31", "::/0"}}),
			msS4(msS4Cfg{networks: []string{"0.0.0.0/0"}}),
			msS4(msS4Cfg{networks: []string{"2001:db8::/32"}}),
			msS4(msS4Cfg{commands: []string{"CONNECT", "BIND"}, networks: []string{"128.0.0.0/1", "8.8.8.8/32"}}),
			msS4(msS4Cfg{networks: []string{"10.1.0.0/16", "10.0.0.0/8"}}),
			msS4(msS4Cfg{networks: []string{"10.0.0.0/8", "10.1.0.0/16", "10.1.2.3"}}),
			msS4(msS4Cfg{ports: []uint16{1080}, networks: []string{"192.168.1.7", "192.168.1.0/28", "192.168.0.0/16", "192.168.1.0/28"}}),
		}},
		{tag: "socks5", cfgs: []msCfg{
			msS5(nil), msS5([]uint16{0}), msS5([]uint16{2}), msS5([]uint16{0, 2, 128, 255}), msS5([]uint16{300}),
		}},
		{tag: "regexp", cfgs: []msCfg{
			msRe(`^GET `, 0, []string{"GET / HTTP/1.1\r\n", "GET /x"}, []string{"POST / HTTP/1.1\r\n", "get /", "GE"}),
			msRe(`^[A-Z]+ /`, 8, []string{"OPTIONS / x", "PUT /abcdef"}, []string{"options /", "PUTX_abcdef", "A"}),
			msRe(`\d\d\d`, 16, []string{"abc123def4567890", "0000000000000000"}, []string{"abcdefghijklmnop", "12a34b56c78d90ef"}),
			msRe(`^\x16\x03`, 2, []string{"\x16\x03\x01", "\x16\x03"}, []string{"\x16\x02", "\x15\x03\x03"}),
			msRe(`x$`, 300, []string{strings.Repeat("a", 299) + "x"}, []string{strings.Repeat("a", 300), strings.Repeat("x", 120)}),
		}},
		simple("tls", "MTls", 5, mkTLS, msGenTLS),
		simple("http", "MHttp", 10, mkHTTP, msGenHTTP),
		{tag: "not", cfgs: []msCfg{
			{coq: "MNot [[MSsh]]", build: mkNot([]layer4.ConnMatcher{ssh()}), gate: 4, gen: flip(msGenSSH, neg)},
			{coq: "MNot [[MPP]]", build: mkNot([]layer4.ConnMatcher{pp()}), gate: 12, gen: flip(msGenPP, neg)},
			{coq: "MNot [[MSsh]; [MPP]]", build: mkNot([]layer4.ConnMatcher{ssh()}, []layer4.ConnMatcher{pp()}), gate: 4,
				gen: func(r *vRng, i int) msStream {
					var s msStream
					if i%2 == 0 {
						s = msGenSSH(r, i/2)
					} else {
						s = msGenPP(r, i/2)
					}
					// generated ssh streams never look like PROXY headers and vice versa; both matchers
					// must have seen enough bytes to decide (12 for proxy_protocol)
					s = flip(func(*vRng, int) msStream { return s }, neg)(r, i)
					if len(s.b) < 12 {
						s.ref = -1
					}
					return s
				}},
			{coq: "MNot [[MSsh; " + s5.coq + "]]", build: mkNot([]layer4.ConnMatcher{ssh(), s5.build()}), gate: 4,
				gen: flip(msGenSSH, func(s msStream) int {
					if s.ref < 0 {
						return -1
					}
					return 1 // an SSH identification is never a SOCKS5 greeting, so the conjunction never holds
				})},
			{coq: "MNot [[MNot [[MSsh]]]]", build: mkNot([]layer4.ConnMatcher{mkNot([]layer4.ConnMatcher{ssh()})()}), gate: 4, gen: msGenSSHNoRefc},
		}},
	}

	// MatcherSets.AnyMatch over real matchers, matching set first / last / in the middle
	pg := func() layer4.ConnMatcher { return &l4postgres.MatchPostgres{} }
	xm := func() layer4.ConnMatcher { return &l4xmpp.MatchXMPP{} }
	mkAny := func(sets ...[]layer4.ConnMatcher) func() layer4.ConnMatcher {
		return func() layer4.ConnMatcher {
			a := &msAny{}
			for _, st := range sets {
				a.mss = append(a.mss, layer4.MatcherSet(st))
			}
			return a
		}
	}
	// streams of an OR come from the generators of its members in turn; the reference is only
	// claimed where every member has seen enough bytes to decide (minLen)
	orGen := func(minLen int, gens ...func(*vRng, int) msStream) func(*vRng, int) msStream {
		return func(r *vRng, i int) msStream {
			st := gens[i%len(gens)](r, i/len(gens))
			st.refc, st.key = "", ""
			if st.ref != 1 || len(st.b) < minLen || st.cls == "valid-late-ns" {
				st.ref = -1 // a stream that is invalid for its own protocol may still be valid for another member
			}
			return st
		}
	}
	s5gen := s5.gen
	matchers = append(matchers, msMatcher{tag: "anymatch", cfgs: []msCfg{
		{coq: "MAny [[MSsh]; [" + s5.coq + "]]", build: mkAny([]layer4.ConnMatcher{ssh()}, []layer4.ConnMatcher{s5.build()}), gate: 4, gen: orGen(4, msGenSSH, s5gen)},
		{coq: "MAny [[" + s5.coq + "]; [MSsh]]", build: mkAny([]layer4.ConnMatcher{s5.build()}, []layer4.ConnMatcher{ssh()}), gate: 4, gen: orGen(4, msGenSSH, s5gen)},
		{coq: "MAny [[MPP]; [MSsh]; [MPg]]", build: mkAny([]layer4.ConnMatcher{pp()}, []layer4.ConnMatcher{ssh()}, []layer4.ConnMatcher{pg()}), gate: 12, gen: orGen(12, msGenPP, msGenSSH, msGenPG)},
		{coq: "MAny [[MPg]; [MPP]; [MSsh]]", build: mkAny([]layer4.ConnMatcher{pg()}, []layer4.ConnMatcher{pp()}, []layer4.ConnMatcher{ssh()}), gate: 12, gen: orGen(12, msGenSSH, msGenPG, msGenPP)},
		{coq: "MAny [[MXmpp]; [MSsh]]", build: mkAny([]layer4.ConnMatcher{xm()}, []layer4.ConnMatcher{ssh()}), gate: 50, gen: orGen(50, msGenSSH, msGenXMPP)},
		{coq: "MAny [[MSsh; MPP]; [MTls]]", build: mkAny([]layer4.ConnMatcher{ssh(), pp()}, []layer4.ConnMatcher{mkTLS()}), gate: 5,
			gen: func(r *vRng, i int) msStream {
				if i%2 == 0 {
					return orGen(12, msGenTLS)(r, i/2)
				}
				st := msGenSSH(r, i/2) // matches ssh but not the conjunction ssh AND proxy_protocol
				st.ref, st.refc, st.key = -1, "", ""
				return st
			}},
		{coq: "MAny []", build: mkAny(), gate: 0, gen: func(r *vRng, i int) msStream { st := msGenSSH(r, i); st.ref, st.refc = 1, ""; return st }},
	}})

	// not provisioned through caddy's module loading from its JSON form (MatcherSetsRaw), the only
	// way to get more than one negated matcher set
	notJSON := func(sets ...caddy.ModuleMap) func() layer4.ConnMatcher {
		return func() layer4.ConnMatcher {
			m := &layer4.MatchNot{MatcherSetsRaw: sets}
			msMust(m.Provision(msCtx))
			return m
		}
	}
	raw := func(name, js string) caddy.ModuleMap { return caddy.ModuleMap{name: jsonMod.RawMessage(js)} }
	matchers = append(matchers, msMatcher{tag: "not", cfgs: []msCfg{
		{coq: "MNot [[MSsh]; [MPP]]", build: notJSON(raw("ssh", "{}"), raw("proxy_protocol", "{}")), gate: 4,
			gen: func(r *vRng, i int) msStream {
				var st msStream
				if i%2 == 0 {
					st = msGenSSH(r, i/2)
				} else {
					st = msGenPP(r, i/2)
				}
				st = flip(func(*vRng, int) msStream { return st }, neg)(r, i)
				if len(st.b) < 12 {
					st.ref = -1
				}
				return st
			}},
		{coq: "MNot [[MPP]; [MSsh]; [MS5 [0]]]", build: notJSON(raw("proxy_protocol", "{}"), raw("ssh", "{}"), raw("socks5", `{"auth_methods":[0]}`)), gate: 4,
			gen: func(r *vRng, i int) msStream {
				var st msStream
				switch i % 3 {
				case 0:
					st = msGenPP(r, i/3)
				case 1:
					st = msGenSSH(r, i/3)
				default:
					st = msS5([]uint16{0}).gen(r, i/3)
				}
				valid := st.ref == 1
				st.ref, st.refc, st.key = -1, "", ""
				if valid && len(st.b) >= 12 {
					st.ref = 0 // a valid message of any negated protocol must not match
				}
				return st
			}},
	}})

	seen := map[string]bool{}
	emit := func(term, cls string, nt bool, sample any) {
		if seen[term] {
			return
		}
		seen[term] = true
		out.Case(term, cls, nt, sample)
	}
	counts := map[string]int{}
	allocFails := map[string]int{}
	fullVerdicts := map[string]int{}
	evals := 0

	for _, mm := range matchers {
		for ci, cfg := range mm.cfgs {
			per := n / len(mm.cfgs)
			if per < 24 {
				per = 24
			}
			for i := 0; i < per; i++ {
				s := cfg.gen(rng, i)
				if s.heavy && allocFails[mm.tag] >= 6 {
					continue // unbounded allocation is demonstrated; every further such input costs gigabytes
				}
				if len(s.b) > layer4.MaxMatchingBytes {
					s.b = s.b[:layer4.MaxMatchingBytes]
				}
				counts[mm.tag+"/"+s.cls]++
				udp := (i+ci)%3 == 2
				lens := make([]int, 0, len(s.b)+1)
				for L := 0; L <= len(s.b); L++ {
					if s.heavy && L > 0 && L < len(s.b) && L != 4 {
						continue
					}
					// long streams: the first 96 prefixes, every 61st one, and the last 12
					if len(s.b) > 400 && L > 96 && L < len(s.b)-12 && L%61 != 0 {
						continue
					}
					lens = append(lens, L)
				}
				verd := make([]string, len(s.b)+1)
				var firstNo = -1
				m := cfg.build()
				a0 := msTotalAlloc()
				for _, L := range lens {
					pre := s.b[:L]
					conn := msNewConn(udp)
					cx := layer4.WrapConnection(conn, append(make([]byte, 0, L), pre...), zap.NewNop())
					v1, d1 := msEval(m, cx)
					evals++
					verd[L] = v1
					in := map[string]any{"matcher": mm.tag, "config": cfg.coq, "prefix_hex": fmt.Sprintf("%x", pre), "stream_hex": fmt.Sprintf("%x", s.b), "class": s.cls}
					if v1 == vdPanic {
						out.Fail("C04:"+mm.tag+":panic", "Match panicked: "+d1, in)
					}
					if conn.reads != 0 {
						out.Fail("C06:"+mm.tag+":network-read", fmt.Sprintf("Match read the socket %d times while matching", conn.reads), in)
					}
					if v1 != vdPanic && !(s.heavy && L >= 4) {
						// same connection again, then a fresh matcher value on a fresh connection
						v2, _ := msEval(m, cx)
						conn2 := msNewConn(!udp)
						cx2 := layer4.WrapConnection(conn2, append([]byte{}, pre...), zap.NewNop())
						v3, _ := msEval(cfg.build(), cx2)
						if v2 != v1 || v3 != v1 {
							out.Fail("C06:"+mm.tag+":nondeterministic", fmt.Sprintf("verdicts %s, %s (same connection), %s (fresh connection)", v1, v2, v3), in)
						}
						// what a handler would read now: the prefix, then the socket
						got := make([]byte, L+1)
						k, _ := io.ReadFull(cx, got)
						if k != L || !bytes.Equal(got[:k], pre) {
							out.Fail("C06:"+mm.tag+":stream-changed", fmt.Sprintf("after matching the connection delivers %x", got[:k]), in)
						}
					}
					if firstNo >= 0 && v1 != vdNo && v1 != vdPanic {
						out.Fail("C06:"+mm.tag+":no-then-not-no", fmt.Sprintf("No on the first %d bytes, %s on the first %d bytes", firstNo, v1, L), in)
					}
					if v1 == vdNo && firstNo < 0 {
						firstNo = L
					}
				}
				big := map[int]bool{}
				if d := msTotalAlloc() - a0; d > msAllocBound {
					// find the evaluations responsible
					for _, L := range lens {
						conn := msNewConn(udp)
						cx := layer4.WrapConnection(conn, append([]byte{}, s.b[:L]...), zap.NewNop())
						// measured without the watchdog goroutine (this input has already returned once)
						b0 := msTotalAlloc()
						msEvalNow(m, cx)
						e := msTotalAlloc() - b0
						// retry only where a concurrent runtime allocation could explain the excess
						for try := 0; try < 2 && e > msAllocBound && e < 8*msAllocBound; try++ {
							// measure again on a fresh connection: a concurrent runtime allocation must not count
							cx = layer4.WrapConnection(msNewConn(udp), append([]byte{}, s.b[:L]...), zap.NewNop())
							b1 := msTotalAlloc()
							msEvalNow(m, cx)
							if e2 := msTotalAlloc() - b1; e2 < e {
								e = e2
							}
						}
						if e > msAllocBound {
							big[L] = true
							allocFails[mm.tag]++
							out.Fail("C04:"+mm.tag+":alloc", fmt.Sprintf("one Match call allocated %d bytes (bound %d)", e, msAllocBound),
								map[string]any{"matcher": mm.tag, "config": cfg.coq, "prefix_hex": fmt.Sprintf("%x", s.b[:L]), "class": s.cls})
						}
					}
				}
				// C14: the verdict on the complete first message against the reference
				full := verd[len(s.b)]
				fullVerdicts[mm.tag+"/"+s.cls+"/"+full]++
				in := map[string]any{"matcher": mm.tag, "config": cfg.coq, "stream_hex": fmt.Sprintf("%x", s.b), "class": s.cls, "verdict": full}
				if s.ref == 1 && full != vdYes && full != vdPanic {
					k := "rejects-valid"
					if s.key != "" && strings.HasPrefix(s.key, "rejects") {
						k = s.key
					}
					out.Fail("C14:"+mm.tag+":"+k, "the reference accepts this message, the matcher answered "+full, in)
				}
				if s.ref == 0 && full == vdYes {
					k := "accepts-invalid"
					if s.key != "" && strings.HasPrefix(s.key, "accepts") {
						k = s.key
					}
					out.Fail("C14:"+mm.tag+":"+k, "the reference rejects this message, the matcher answered Yes", in)
				}
				if s.refc != "" {
					emit(s.refc, mm.tag+"/reference", true, nil)
				}
				// correspondence cases: the whole stream, the gate neighbourhood and every verdict change
				for idx, L := range lens {
					keep := L == len(s.b) || L == 0 || (L >= cfg.gate-1 && L <= cfg.gate+1)
					if idx > 0 && verd[lens[idx-1]] != verd[L] {
						keep = true
					}
					if idx+1 < len(lens) && verd[lens[idx+1]] != verd[L] {
						keep = true
					}
					if !keep {
						continue
					}
					coq := cfg.coq
					if cfg.reval != nil {
						coq = strings.ReplaceAll(coq, "%REVAL%", cBool(cfg.reval(s.b[:L])))
					}
					emit(fmt.Sprintf("MS (%s) %s %s %s", coq, cHex(s.b[:L]), verd[L], cBool(big[L])),
						mm.tag+"/"+verd[L], L > cfg.gate, map[string]any{"class": s.cls, "len": L})
				}
			}
		}
	}

	msClock(out, rng, n, emit)
	msIP(out, rng, n, emit)
	msSequence(out, rng, n, matchers, emit)

	out.Stat("streams_by_class", counts)
	out.Stat("verdict_on_whole_stream_by_class", fullVerdicts)
	out.Stat("evaluations", evals)
}

func msGenSSHNoRefc(r *vRng, i int) msStream {
	s := msGenSSH(r, i)
	s.refc, s.key = "", ""
	return s
}

// ---------------------------------------------------------------- clock

func msClock(out *vOut, r *vRng, n int, emit func(string, string, bool, any)) {
	hms := func(s int) string { return fmt.Sprintf("%02d:%02d:%02d", s/3600, s/60%60, s%60) }
	type zone struct {
		text   string
		offset int
	}
	zones := []zone{{"", 0}, {"UTC", 0}, {"+02", 7200}, {"-03:30", -12600}, {"+12:34:56", 45296}, {"-11", -39600}, {"+14:00", 50400}}
	windows := [][2]int{{0, 0}, {3600, 7200}, {7200, 3600}, {36000, 0}, {0, 43200}, {86399, 0}, {1, 86399}, {43200, 43200}, {61200, 32400}}
	for i := 0; i < 4; i++ {
		windows = append(windows, [2]int{r.Intn(86400), r.Intn(86400)})
	}
	for wi, w := range windows {
		for zi, z := range zones {
			if (wi+zi)%2 == 1 && wi > 3 {
				continue
			}
			m := &l4clock.MatchClock{After: hms(w[0]), Before: hms(w[1]), Timezone: z.text}
			if w[0] == 0 && wi%2 == 0 {
				m.After = "" // an empty After means 00:00:00
			}
			msMust(m.Provision(msCtx))
			// documented window: [min, max) after Before=0 -> 24:00:00
			b1 := w[1]
			if b1 == 0 {
				b1 = 86400
			}
			lo, hi := w[0], b1
			if hi < lo {
				lo, hi = hi, lo
			}
			var points []int64
			base := int64(1700000000 + r.Intn(40000000))
			day := base - base%86400
			for _, edge := range []int{lo - 1, lo, lo + 1, hi - 1, hi, hi + 1, 0, 86399} {
				points = append(points, day+int64(edge)-int64(z.offset))
			}
			for j := 0; j < 4; j++ {
				points = append(points, base+int64(r.Intn(200000)))
			}
			points = append(points, 0, -1, 86400*365*60+12345)
			for _, unix := range points {
				conn := msNewConn(false)
				cx := layer4.WrapConnection(conn, []byte("x"), zap.NewNop())
				repl := cx.Context.Value(layer4.ReplacerCtxKey).(*caddy.Replacer)
				repl.Set("l4.conn.wrap_time", time.Unix(unix, 0).UTC())
				v, d := msEval(m, cx)
				in := map[string]any{"matcher": "clock", "after": m.After, "before": m.Before, "timezone": z.text, "unix": unix}
				if v == vdPanic {
					out.Fail("C04:clock:panic", d, in)
				}
				if conn.reads != 0 {
					out.Fail("C06:clock:network-read", "Match read the socket", in)
				}
				sec := int(((unix+int64(z.offset))%86400 + 86400) % 86400)
				ref := lo <= sec && sec < hi
				if ref && v != vdYes {
					out.Fail("C14:clock:rejects-valid", fmt.Sprintf("second %d of the day lies in [%d,%d) but the matcher answered %s", sec, lo, hi, v), in)
				}
				if !ref && v == vdYes {
					out.Fail("C14:clock:accepts-invalid", fmt.Sprintf("second %d of the day lies outside [%d,%d) but the matcher answered Yes", sec, lo, hi), in)
				}
				emit(fmt.Sprintf("KClock %d %d %s %s %s", w[0], w[1], cZ(int64(z.offset)), cZ(unix), v), "clock/"+v, lo > 0 || hi < 86400, in)
			}
		}
	}

	// zones with daylight saving: the offset that counts is the one in force AT THE INSTANT of the
	// connection.  Instants lie in both halves of the year and within the hour around every 2026
	// switch, in northern and southern zones and in Local (set to a DST zone for the duration);
	// windows have their edges half an hour around the local time of the instant.
	savedLocal := time.Local
	defer func() { time.Local = savedLocal }()
	dstZones := []string{"America/New_York", "Europe/Berlin", "Australia/Sydney", "Pacific/Auckland", "America/Santiago", "Europe/London", "Local"}
	if ny, err := time.LoadLocation("America/New_York"); err == nil {
		time.Local = ny
	}
	utc := func(y int, mo time.Month, d, h, mi int) int64 {
		return time.Date(y, mo, d, h, mi, 0, 0, time.UTC).Unix()
	}
	instants := []int64{
		utc(2026, 1, 15, 2, 0), utc(2026, 1, 15, 14, 30), utc(2026, 7, 15, 2, 0), utc(2026, 7, 15, 14, 30),
		utc(2026, 4, 20, 9, 15), utc(2026, 11, 20, 21, 45),
		// US: 8 March 07:00Z and 1 November 06:00Z; EU: 29 March and 25 October 01:00Z
		utc(2026, 3, 8, 6, 30), utc(2026, 3, 8, 7, 30), utc(2026, 11, 1, 5, 30), utc(2026, 11, 1, 6, 30),
		utc(2026, 3, 29, 0, 30), utc(2026, 3, 29, 1, 30), utc(2026, 10, 25, 0, 30), utc(2026, 10, 25, 1, 30),
		// Sydney: 4 April 16:00Z and 3 October 16:00Z; Auckland: 4 April 14:00Z and 26 September 14:00Z
		utc(2026, 4, 4, 15, 30), utc(2026, 4, 4, 16, 30), utc(2026, 10, 3, 15, 30), utc(2026, 10, 3, 16, 30),
		utc(2026, 4, 4, 13, 30), utc(2026, 4, 4, 14, 30), utc(2026, 9, 26, 13, 30), utc(2026, 9, 26, 14, 30),
	}
	for j := 0; j < 6; j++ {
		instants = append(instants, utc(2026, time.Month(1+r.Intn(12)), 1+r.Intn(28), r.Intn(24), r.Intn(60)))
	}
	offsetsSeen := map[string]map[int]bool{}
	for _, zname := range dstZones {
		loc, err := time.LoadLocation(zname)
		if err != nil {
			out.Stat("clock_zone_unavailable_"+zname, err.Error())
			continue
		}
		offsetsSeen[zname] = map[int]bool{}
		for _, unix := range instants {
			t := time.Unix(unix, 0).UTC()
			lt := t.In(loc)
			_, off := lt.Zone() // the offset in force at this instant
			offsetsSeen[zname][off] = true
			hh, mm, ss := lt.Clock()
			sec := hh*3600 + mm*60 + ss
			for _, d := range [][2]int{{-1800, 1800}, {1800, 5400}, {-5400, -1800}, {-3600, 1}, {1, 3600}} {
				a, b := sec+d[0], sec+d[1]
				if a < 0 || b > 86400 || a >= b {
					continue
				}
				m := &l4clock.MatchClock{After: hms(a), Before: hms(b % 86400), Timezone: zname}
				msMust(m.Provision(msCtx))
				conn := msNewConn(false)
				cx := layer4.WrapConnection(conn, []byte("x"), zap.NewNop())
				repl := cx.Context.Value(layer4.ReplacerCtxKey).(*caddy.Replacer)
				repl.Set("l4.conn.wrap_time", t)
				v, dd := msEval(m, cx)
				in := map[string]any{"matcher": "clock", "after": m.After, "before": m.Before, "timezone": zname, "unix": unix, "instant": t.Format(time.RFC3339), "local": lt.Format("15:04:05"), "offset_at_instant": off}
				if v == vdPanic {
					out.Fail("C04:clock:panic", dd, in)
				}
				ref := a <= sec && sec < b
				if ref && v != vdYes {
					out.Fail("C14:clock:rejects-valid", fmt.Sprintf("local time %s lies in [%s,%s) of zone %s but the matcher answered %s", lt.Format("15:04:05"), hms(a), hms(b%86400), zname, v), in)
				}
				if !ref && v == vdYes {
					out.Fail("C14:clock:accepts-invalid", fmt.Sprintf("local time %s lies outside [%s,%s) of zone %s but the matcher answered Yes", lt.Format("15:04:05"), hms(a), hms(b%86400), zname), in)
				}
				emit(fmt.Sprintf("KClock %d %d %s %s %s", a, b%86400, cZ(int64(off)), cZ(unix), v), "clock-dst/"+v, true, in)
			}
		}
	}
	nOff := map[string]int{}
	for z, m := range offsetsSeen {
		nOff[z] = len(m)
	}
	out.Stat("clock_distinct_offsets_per_dst_zone", nOff)
}

// ---------------------------------------------------------------- remote_ip / local_ip

func msIP(out *vOut, r *vRng, n int, emit func(string, string, bool, any)) {
	rangeSets := [][]string{
		{"10.0.0.0/8"},
		{"192.168.0.0/16", "172.16.0.0/12", "127.0.0.1"},
		{"2001:db8::/32"},
		{"fe80::/10", "::1"},
		{"0.0.0.0/0"},
		{"::/0"},
		{"203.0.113.64/26", "2001:db8:aaaa::/48", "198.51.100.7/32"},
		{"::ffff:0:0/96"},
		// lists whose entries overlap: a configured list means the UNION of its ranges, whatever the order
		{"10.1.0.0/16", "10.0.0.0/8"},                          // narrow, then the wide range containing it
		{"10.0.0.0/8", "10.1.0.0/16"},                          // wide, then narrow
		{"10.1.2.3", "10.0.0.0/8"},                             // a single address inside a later CIDR
		{"10.0.0.0/8", "10.1.2.3", "10.0.0.0/8"},               // and the reverse, with a duplicate
		{"192.168.1.0/24", "192.168.1.0/28", "192.168.0.0/16"}, // same base, different prefix lengths
		{"2001:db8:1::/48", "2001:db8::/32"},
		{"2001:db8::/32", "2001:db8:1::/48", "2001:db8:1::1"},
		{"172.16.5.0/24", "203.0.113.0/24", "172.16.0.0/12", "203.0.113.128/25"},
		{"::ffff:10.1.0.0/112", "10.0.0.0/8", "::ffff:10.0.0.0/104"}, // IPv4-mapped prefixes next to the IPv4 one
		{"fe80::1", "fe80::/10", "::/0"},
	}
	// a literal next to the private ranges (what `remote_ip 10.1.2.3 private_ranges` expands to), both orders
	rangeSets = append(rangeSets, append([]string{"10.1.2.3", "fd12::1"}, caddyhttp.PrivateRangesCIDR()...))
	rangeSets = append(rangeSets, append(append([]string{}, caddyhttp.PrivateRangesCIDR()...), "192.168.7.7", "8.8.8.0/24"))
	// random nestings: a base network, a narrower and a wider one and an address inside, in random order
	for j := 0; j < 6; j++ {
		base := r.Bytes(4)
		wide := 4 + r.Intn(16)
		mid := wide + 1 + r.Intn(8)
		narrow := mid + 1 + r.Intn(32-mid)
		pf := func(bits int) string {
			return netip.PrefixFrom(netip.AddrFrom4([4]byte(base)), bits).Masked().String()
		}
		list := []string{pf(narrow), pf(mid), pf(wide), netip.AddrFrom4([4]byte(base)).String()}
		for k := len(list) - 1; k > 0; k-- {
			o := r.Intn(k + 1)
			list[k], list[o] = list[o], list[k]
		}
		rangeSets = append(rangeSets, list[:2+r.Intn(3)])
	}
	for si, rs := range rangeSets {
		var cidrs []msCIDR
		for _, s := range rs {
			cidrs = append(cidrs, msParseCIDR(s))
		}
		hosts := msProbeHosts(cidrs, r)
		for j := 0; j < 4; j++ {
			hosts = append(hosts, netip.AddrFrom4([4]byte(r.Bytes(4))).String(), netip.AddrFrom16([16]byte(r.Bytes(16))).String())
		}
		hosts = append(hosts, "::ffff:10.1.2.3", "fe80::1%eth0", "not-an-address", "", "10.1.2.3")
		for hi, h := range hosts {
			for _, local := range []bool{false, true} {
				if local && (hi+si)%2 == 0 {
					continue
				}
				var text string
				switch {
				case h == "not-an-address" || h == "":
					text = h
				case hi%3 == 0:
					text = h // no port
				case strings.Contains(h, ":"):
					text = "[" + h + "]:" + fmt.Sprint(1+r.Intn(65535))
				default:
					text = h + ":" + fmt.Sprint(1+r.Intn(65535))
				}
				conn := msNewConn(hi%2 == 0)
				var m layer4.ConnMatcher
				tag := "remote_ip"
				if local {
					tag = "local_ip"
					conn.local = msAddr{"tcp", text}
					mm := &layer4.MatchLocalIP{Ranges: rs}
					msMust(mm.Provision(msCtx))
					m = mm
				} else {
					conn.remote = msAddr{"tcp", text}
					mm := &layer4.MatchRemoteIP{Ranges: rs}
					msMust(mm.Provision(msCtx))
					m = mm
				}
				cx := layer4.WrapConnection(conn, []byte("x"), zap.NewNop())
				v, d := msEval(m, cx)
				in := map[string]any{"matcher": tag, "ranges": rs, "address": text}
				if v == vdPanic {
					out.Fail("C04:"+tag+":panic", d, in)
				}
				if conn.reads != 0 {
					out.Fail("C06:"+tag+":network-read", "Match read the socket", in)
				}
				// what ParseAddr makes of the host part goes into the case; the reference uses package net
				a, perr := netip.ParseAddr(h)
				acoq := "None"
				if perr == nil {
					acoq = fmt.Sprintf("(Some (%s, %s, %s))", cBool(a.Is6()), msAddrZ(a), cBool(a.Zone() != ""))
				}
				if perr == nil && a.Zone() == "" && !a.Is4In6() {
					mapped := false
					for _, c := range cidrs {
						mapped = mapped || c.pfx.Addr().Is4In6()
					}
					if !mapped {
						ref := msCIDRsRef(cidrs, net.ParseIP(h))
						if ref && v != vdYes {
							out.Fail("C14:"+tag+":rejects-valid", "the address lies in a configured range, the matcher answered "+v, in)
						}
						if !ref && v == vdYes {
							out.Fail("C14:"+tag+":accepts-invalid", "the address lies in no configured range, the matcher answered Yes", in)
						}
					}
				}
				emit(fmt.Sprintf("KIp %s %s %s", msCIDRsCoq(cidrs), acoq, v), tag+"/"+v, perr == nil, in)
			}
		}

		// not [{remote_ip A},{remote_ip B},...] provisioned from JSON: this range set against the next two
		if si+2 < len(rangeSets) {
			groups := [][]string{rs, rangeSets[si+1], rangeSets[si+2]}
			if si%2 == 1 {
				groups = groups[:2]
			}
			var gc [][]msCIDR
			var rawSets []caddy.ModuleMap
			mappedAny := false
			for _, g := range groups {
				var cs []msCIDR
				for _, x := range g {
					c := msParseCIDR(x)
					cs = append(cs, c)
					mappedAny = mappedAny || c.pfx.Addr().Is4In6()
				}
				gc = append(gc, cs)
				js, _ := jsonMod.Marshal(map[string]any{"ranges": g})
				rawSets = append(rawSets, caddy.ModuleMap{"remote_ip": js})
			}
			var hs []string
			for _, cs := range gc {
				hs = append(hs, msProbeHosts(cs, r)...)
			}
			hs = append(hs, "10.1.2.3", "192.168.0.1", "8.8.8.8", "2001:db8::1", "fe80::1", "::1", "203.0.113.65")
			for _, h := range hs {
				ip := net.ParseIP(h)
				if ip == nil {
					continue
				}
				m := &layer4.MatchNot{MatcherSetsRaw: rawSets}
				msMust(m.Provision(msCtx))
				conn := msNewConn(false)
				conn.remote = &net.TCPAddr{IP: ip, Port: 1 + r.Intn(65535)}
				cx := layer4.WrapConnection(conn, []byte("x"), zap.NewNop())
				v, d := msEval(m, cx)
				in := map[string]any{"matcher": "not", "negated_sets": groups, "address": conn.remote.String()}
				if v == vdPanic {
					out.Fail("C04:not:panic", d, in)
				}
				a, _ := netip.ParseAddr(h)
				var setsCoq []string
				any := false
				for _, cs := range gc {
					setsCoq = append(setsCoq, msCIDRsCoq(cs))
					any = any || msCIDRsRef(cs, ip)
				}
				if !mappedAny {
					if !any && v != vdYes {
						out.Fail("C14:not:rejects-valid", "the address lies in none of the negated range sets, the matcher answered "+v, in)
					}
					if any && v == vdYes {
						out.Fail("C14:not:accepts-invalid", "the address lies in one of the negated range sets, the matcher answered Yes", in)
					}
				}
				emit(fmt.Sprintf("KNotIpSets [%s] (Some (%s, %s, false)) %s", strings.Join(setsCoq, "; "), cBool(a.Is6()), msAddrZ(a), v), "not-remote_ip-sets/"+v, true, in)
			}
		}

		// addresses as the net package (and the proxy_protocol handler) hands them over: *net.TCPAddr and
		// *net.UDPAddr values holding an IPv4 address in its 16-byte form (net.ParseIP), in its 4-byte
		// form, IPv6 addresses and zoned addresses; under remote_ip, local_ip and not{remote_ip}
		ipHosts := msProbeHosts(cidrs, r)
		ipHosts = append(ipHosts, "10.1.2.3", "192.168.0.1", "127.0.0.1", "203.0.113.65", "8.8.8.8", "2001:db8::1", "fe80::1", "::1")
		for hi, h := range ipHosts {
			ip16 := net.ParseIP(h)
			if ip16 == nil {
				continue
			}
			forms := []net.IP{ip16}
			if ip4 := ip16.To4(); ip4 != nil {
				forms = append(forms, ip4)
			}
			for fi, ip := range forms {
				zone := ""
				if ip.To4() == nil && ip.IsLinkLocalUnicast() && hi%2 == 0 {
					zone = "eth0"
				}
				port := 1 + r.Intn(65535)
				addrs := []net.Addr{&net.TCPAddr{IP: ip, Port: port, Zone: zone}, &net.UDPAddr{IP: ip, Port: port, Zone: zone}}
				for ai, addr := range addrs {
					for mode := 0; mode < 3; mode++ { // remote_ip, local_ip, not{remote_ip}
						if mode == 1 && (hi+fi+ai)%2 == 0 {
							continue
						}
						conn := msNewConn(ai == 1)
						var m layer4.ConnMatcher
						tag := "remote_ip"
						switch mode {
						case 0, 2:
							conn.remote = addr
							mm := &layer4.MatchRemoteIP{Ranges: rs}
							msMust(mm.Provision(msCtx))
							m = mm
							if mode == 2 {
								tag = "not-remote_ip"
								m = &layer4.MatchNot{MatcherSets: []layer4.MatcherSet{{mm}}}
							}
						case 1:
							tag = "local_ip"
							conn.local = addr
							mm := &layer4.MatchLocalIP{Ranges: rs}
							msMust(mm.Provision(msCtx))
							m = mm
						}
						cx := layer4.WrapConnection(conn, []byte("x"), zap.NewNop())
						v, d := msEval(m, cx)
						in := map[string]any{"matcher": tag, "ranges": rs, "address": addr.String(), "addr_type": fmt.Sprintf("%T", addr), "ip_bytes": len(ip), "zone": zone}
						if v == vdPanic {
							out.Fail("C04:"+tag+":panic", d, in)
						}
						if conn.reads != 0 {
							out.Fail("C06:"+tag+":network-read", "Match read the socket", in)
						}
						// the address of the connection is the one its textual form denotes
						host, _, herr := net.SplitHostPort(addr.String())
						if herr != nil {
							host = addr.String()
						}
						a, perr := netip.ParseAddr(host)
						acoq := "None"
						if perr == nil {
							acoq = fmt.Sprintf("(Some (%s, %s, %s))", cBool(a.Is6()), msAddrZ(a), cBool(a.Zone() != ""))
						}
						mapped := false
						for _, c := range cidrs {
							mapped = mapped || c.pfx.Addr().Is4In6()
						}
						if zone == "" && !mapped {
							ref := msCIDRsRef(cidrs, ip) // package net: the same for both byte forms of an IPv4 address
							if mode == 2 {
								ref = !ref
							}
							if ref && v != vdYes {
								out.Fail("C14:"+tag+":rejects-valid", "reference (package net) says match, the matcher answered "+v, in)
							}
							if !ref && v == vdYes {
								out.Fail("C14:"+tag+":accepts-invalid", "reference (package net) says no match, the matcher answered Yes", in)
							}
						}
						ctor := "KIp"
						if mode == 2 {
							ctor = "KNotIp"
						}
						emit(fmt.Sprintf("%s %s %s %s", ctor, msCIDRsCoq(cidrs), acoq, v), tag+"/"+v, perr == nil, in)
					}
				}
			}
		}
	}
}

// ---------------------------------------------------------------- several matchers on one connection

// A route list evaluates many matchers on the SAME layer4.Connection.  Each verdict must be the one
// the same matcher gives on a fresh connection with the same bytes, addresses and wrap time: the
// model is a function of (configuration, bytes, connection facts) only.
type msStep struct {
	tag   string
	desc  string
	build func() layer4.ConnMatcher
	coq   func(v string) string // correspondence case carrying the verdict observed in sequence ("" = none)
}

func msSequence(out *vOut, r *vRng, n int, matchers []msMatcher, emit func(string, string, bool, any)) {
	hms := func(s int) string { return fmt.Sprintf("%02d:%02d:%02d", s/3600, s/60%60, s%60) }
	zoneNames := []string{"", "+02", "-03:30", "+12:34:56", "-11", "+14:00", "America/New_York", "Europe/Berlin", "Australia/Sydney", "Asia/Kolkata"}
	rangeSets := [][]string{{"10.0.0.0/8"}, {"192.168.0.0/16", "127.0.0.1"}, {"2001:db8::/32"}, {"0.0.0.0/0"}, {"::/0"}, {"203.0.113.64/26", "198.51.100.7/32"}, {"10.1.0.0/16", "fe80::/10"}, {"10.1.0.0/16", "10.0.0.0/8"}, {"2001:db8:1::/48", "2001:db8::/32"}, {"10.1.2.3", "10.0.0.0/8"}}
	addrPool := []string{"10.1.2.3", "10.200.0.1", "192.168.0.1", "127.0.0.1", "8.8.8.8", "203.0.113.65", "198.51.100.7", "2001:db8::1", "2001:db9::1", "fe80::1", "::1"}
	var streamCfgs []msCfg
	var streamTags []string
	byTag := map[string][]int{}
	for _, mm := range matchers {
		for _, c := range mm.cfgs {
			byTag[mm.tag] = append(byTag[mm.tag], len(streamCfgs))
			streamCfgs = append(streamCfgs, c)
			streamTags = append(streamTags, mm.tag)
		}
	}

	type facts struct {
		b             []byte
		unix          int64
		remote, local string
	}
	zoneLoc := func(name string) (*time.Location, bool) {
		if name == "" {
			return time.UTC, true
		}
		for _, layout := range []string{"-07", "-07:00", "-07:00:00"} {
			if len(layout) == len(name) {
				if t, e := time.Parse(layout, name); e == nil {
					_, off := t.Zone()
					return time.FixedZone(name, off), true
				}
			}
		}
		loc, err := time.LoadLocation(name)
		return loc, err == nil
	}
	clockStep := func(f facts, zname string, kind int) (msStep, bool) {
		loc, ok := zoneLoc(zname)
		if !ok {
			return msStep{}, false
		}
		lt := time.Unix(f.unix, 0).In(loc)
		_, off := lt.Zone()
		hh, mi, ss := lt.Clock()
		sec := hh*3600 + mi*60 + ss
		d := [][2]int{{-1800, 1800}, {1800, 5400}, {-5400, -1800}, {-600, 600}, {600, 4200}}[kind%5]
		a, b := sec+d[0], sec+d[1]
		if a < 0 {
			a = 0
		}
		if b > 86400 {
			b = 86400
		}
		if a >= b {
			return msStep{}, false
		}
		after, before := hms(a), hms(b%86400)
		return msStep{tag: "clock", desc: fmt.Sprintf("clock %s %s %q", after, before, zname),
			build: func() layer4.ConnMatcher {
				m := &l4clock.MatchClock{After: after, Before: before, Timezone: zname}
				msMust(m.Provision(msCtx))
				return m
			},
			coq: func(v string) string {
				return fmt.Sprintf("KClock %d %d %s %s %s", a, b%86400, cZ(int64(off)), cZ(f.unix), v)
			}}, true
	}
	ipStep := func(f facts, rs []string, local bool) msStep {
		var cidrs []msCIDR
		for _, x := range rs {
			cidrs = append(cidrs, msParseCIDR(x))
		}
		h, tag := f.remote, "remote_ip"
		if local {
			h, tag = f.local, "local_ip"
		}
		a, _ := netip.ParseAddr(h)
		return msStep{tag: tag, desc: fmt.Sprintf("%s %v", tag, rs),
			build: func() layer4.ConnMatcher {
				if local {
					m := &layer4.MatchLocalIP{Ranges: rs}
					msMust(m.Provision(msCtx))
					return m
				}
				m := &layer4.MatchRemoteIP{Ranges: rs}
				msMust(m.Provision(msCtx))
				return m
			},
			coq: func(v string) string {
				return fmt.Sprintf("KIp %s (Some (%s, %s, false)) %s", msCIDRsCoq(cidrs), cBool(a.Is6()), msAddrZ(a), v)
			}}
	}
	streamStep := func(f facts, idx int) msStep {
		c := streamCfgs[idx]
		return msStep{tag: streamTags[idx], desc: c.coq, build: c.build,
			coq: func(v string) string {
				term := c.coq
				if c.reval != nil {
					term = strings.ReplaceAll(term, "%REVAL%", cBool(c.reval(f.b)))
				}
				return fmt.Sprintf("MS (%s) %s %s false", term, cHex(f.b), v)
			}}
	}
	notStep := func(inner msStep) msStep {
		return msStep{tag: "not-" + inner.tag, desc: "not{" + inner.desc + "}",
			build: func() layer4.ConnMatcher {
				return &layer4.MatchNot{MatcherSets: []layer4.MatcherSet{{inner.build()}}}
			},
			coq: func(string) string { return "" }}
	}
	newCx := func(f facts) (*msConn, *layer4.Connection) {
		conn := msNewConn(false)
		conn.remote = &net.TCPAddr{IP: net.ParseIP(f.remote), Port: 40000}
		conn.local = &net.TCPAddr{IP: net.ParseIP(f.local), Port: 443}
		cx := layer4.WrapConnection(conn, append([]byte{}, f.b...), zap.NewNop())
		repl := cx.Context.Value(layer4.ReplacerCtxKey).(*caddy.Replacer)
		repl.Set("l4.conn.wrap_time", time.Unix(f.unix, 0).UTC())
		return conn, cx
	}

	scenarios, dependent := 0, 0
	kinds := map[string]int{}
	total := 2 * n
	if total < 200 {
		total = 200
	}
	for k := 0; k < total; k++ {
		f := facts{
			unix:   time.Date(2026, time.Month(1+r.Intn(12)), 1+r.Intn(28), r.Intn(24), r.Intn(60), r.Intn(60), 0, time.UTC).Unix(),
			remote: addrPool[r.Intn(len(addrPool))],
			local:  addrPool[r.Intn(len(addrPool))],
		}
		// the bytes come from the generator of one of the stream matchers
		gi := r.Intn(len(streamCfgs))
		kind := k % 6
		sameTag := []string{"socks4", "socks5", "regexp", "not", "anymatch"}[r.Intn(5)]
		if kind == 2 {
			gi = byTag[sameTag][r.Intn(len(byTag[sameTag]))]
		}
		f.b = streamCfgs[gi].gen(r, r.Intn(64)).b
		if len(f.b) > layer4.MaxMatchingBytes {
			f.b = f.b[:layer4.MaxMatchingBytes]
		}
		var steps []msStep
		addClock := func() {
			if st, ok := clockStep(f, zoneNames[r.Intn(len(zoneNames))], r.Intn(5)); ok {
				steps = append(steps, st)
			}
		}
		ln := 2 + r.Intn(3)
		kname := ""
		switch kind {
		case 0: // clock matchers of different zones and windows, in every order
			kname = "clock-clock"
			perm := r.Intn(len(zoneNames))
			for j := 0; j < ln; j++ {
				if st, ok := clockStep(f, zoneNames[(perm+j*3)%len(zoneNames)], r.Intn(5)); ok {
					steps = append(steps, st)
				}
			}
		case 1: // remote_ip / local_ip with different range sets
			kname = "ip-ip"
			for j := 0; j < ln; j++ {
				steps = append(steps, ipStep(f, rangeSets[r.Intn(len(rangeSets))], r.Intn(3) == 0))
			}
		case 2: // one kind of stream matcher under different filters
			kname = "same-matcher-different-filters"
			steps = append(steps, streamStep(f, gi))
			for j := 1; j < ln+1; j++ {
				steps = append(steps, streamStep(f, byTag[sameTag][r.Intn(len(byTag[sameTag]))]))
			}
		case 3: // a clock inside not next to another clock
			kname = "not-clock-clock"
			addClock()
			addClock()
			addClock()
			if len(steps) >= 2 {
				steps[r.Intn(len(steps))] = notStep(steps[r.Intn(len(steps))])
			}
		default: // mixed
			kname = "mixed"
			for j := 0; j < ln+1; j++ {
				switch r.Intn(4) {
				case 0:
					addClock()
				case 1:
					steps = append(steps, ipStep(f, rangeSets[r.Intn(len(rangeSets))], r.Bool()))
				default:
					steps = append(steps, streamStep(f, r.Intn(len(streamCfgs))))
				}
			}
		}
		if len(steps) < 2 {
			continue
		}
		scenarios++
		kinds[kname]++
		conn, cx := newCx(f)
		var descs []string
		for _, st := range steps {
			descs = append(descs, st.desc)
		}
		for si, st := range steps {
			vSeq, d := msEval(st.build(), cx)
			_, fresh := newCx(f)
			vFresh, _ := msEval(st.build(), fresh)
			in := map[string]any{"matcher": st.tag, "this": st.desc, "position": si, "sequence": descs, "bytes_hex": fmt.Sprintf("%x", f.b),
				"remote": f.remote, "local": f.local, "wrap_time": time.Unix(f.unix, 0).UTC().Format(time.RFC3339), "in_sequence": vSeq, "fresh": vFresh}
			if vSeq == vdPanic {
				out.Fail("C04:"+st.tag+":panic", d, in)
			}
			if vSeq != vFresh {
				dependent++
				detail := fmt.Sprintf("as matcher %d of the sequence on one connection the verdict is %s, on a fresh connection with the same bytes, addresses and time it is %s", si+1, vSeq, vFresh)
				out.Fail("C14:"+st.tag+":verdict-depends-on-earlier-matcher", detail, in)
				out.Fail("C06:"+st.tag+":nondeterministic", detail, in)
			}
			if term := st.coq(vSeq); term != "" {
				emit(term, "sequence/"+st.tag+"/"+vSeq, true, in)
			}
		}
		if conn.reads != 0 {
			out.Fail("C06:sequence:network-read", "matching a sequence of matchers read the socket", map[string]any{"sequence": descs})
		}
		got := make([]byte, len(f.b)+1)
		if kk, _ := io.ReadFull(cx, got); kk != len(f.b) || !bytes.Equal(got[:kk], f.b) {
			out.Fail("C06:sequence:stream-changed", fmt.Sprintf("after the sequence the connection delivers %x", got[:kk]), map[string]any{"sequence": descs, "bytes_hex": fmt.Sprintf("%x", f.b)})
		}
	}
	out.Stat("sequence_scenarios", scenarios)
	out.Stat("sequence_scenarios_by_kind", kinds)
	out.Stat("sequence_dependent_verdicts", dependent)
}
