package caddyl4

// C15 engine: Caddyfile and JSON configurations are equivalent, loadable and round-trip.
// Injected into the root package (it imports every module, like /repo/integration; that directory
// has no non-test Go file, which the overlay driver needs to find the package name).
//
// Corpus: the golden files of integration/caddyfile_adapt.  Generated: abstract configurations
// drawn from the grammar documented on every UnmarshalCaddyfile (all matchers, handlers and
// options with values from each module's accepted domain, nesting through not / tee / subroute,
// several servers, several global layer4 blocks, the listener-wrapper form).  Each configuration is
// printed as Caddyfile text and as the JSON it states; the text goes through the real adapter
// twice, the result is compared (as parsed values) with the stated JSON, loaded with
// caddy.Validate, decoded into layer4.App and every module struct and encoded again.  A second
// stream holds syntactically valid values outside a module's domain: the adapter must accept
// them and provisioning must reject them.  Every case in the modelled fragment is also written
// as a Coq term (abstract configuration, lexer tokens, adapter JSON) for coq/corr/C15Corr.v.

import (
	"bytes"
	"crypto/ed25519"
	"crypto/x509"
	"crypto/x509/pkix"
	"encoding/base64"
	"encoding/json"
	"fmt"
	"math/big"
	"os"
	"path/filepath"
	"sort"
	"strconv"
	"strings"
	"testing"
	"time"

	"github.com/caddyserver/caddy/v2"
	"github.com/caddyserver/caddy/v2/caddyconfig"
	"github.com/caddyserver/caddy/v2/caddyconfig/caddyfile"

	"github.com/mholt/caddy-l4/layer4"
)

// ---------------------------------------------------------------- segments (Caddyfile text)

type vSeg struct {
	ws   []string
	hb   bool
	body []*vSeg
}

func vLine(ws ...string) *vSeg { return &vSeg{ws: ws} }
func vBlock(name string, args []string, ls []*vSeg) *vSeg {
	ws := append([]string{name}, args...)
	if len(ls) == 0 {
		return &vSeg{ws: ws}
	}
	return &vSeg{ws: ws, hb: true, body: ls}
}
func vLineIf(k string, args []string) []*vSeg {
	if len(args) == 0 {
		return nil
	}
	return []*vSeg{vLine(append([]string{k}, args...)...)}
}

// an appending option: in split mode its arguments may be spread over two lines (the documented
// grammar allows repeating such options; the values accumulate)
var vSplit *vRng
var vSplits int

func vLineMulti(k string, args []string, unit int) []*vSeg {
	n := len(args) / unit
	if vSplit != nil && n >= 2 && vSplit.Intn(100) < 75 {
		// two or three lines, each with one or more values
		cuts := []int{1 + vSplit.Intn(n-1)}
		if n-cuts[0] >= 2 && vSplit.Intn(100) < 50 {
			cuts = append(cuts, cuts[0]+1+vSplit.Intn(n-cuts[0]-1))
		}
		vSplits++
		var r []*vSeg
		prev := 0
		for _, c := range append(cuts, n) {
			r = append(r, vLine(append([]string{k}, args[prev*unit:c*unit]...)...))
			prev = c
		}
		return r
	}
	return vLineIf(k, args)
}
func vLineOpt(k string, v *string) []*vSeg {
	if v == nil {
		return nil
	}
	return []*vSeg{vLine(k, *v)}
}
func vLineFlag(k string, b bool) []*vSeg {
	if !b {
		return nil
	}
	return []*vSeg{vLine(k)}
}
func vCat(ls ...[]*vSeg) []*vSeg {
	var r []*vSeg
	for _, l := range ls {
		r = append(r, l...)
	}
	return r
}

func (s *vSeg) text(ind int, sb *strings.Builder) {
	sb.WriteString(strings.Repeat("\t", ind))
	sb.WriteString(strings.Join(s.ws, " "))
	if s.hb {
		if len(s.ws) > 0 {
			sb.WriteString(" ")
		}
		sb.WriteString("{\n")
		for _, b := range s.body {
			b.text(ind+1, sb)
		}
		sb.WriteString(strings.Repeat("\t", ind))
		sb.WriteString("}")
	}
	sb.WriteString("\n")
}

// ---------------------------------------------------------------- Coq term helpers

func vPrintable(s string) bool {
	for i := 0; i < len(s); i++ {
		if s[i] < 0x20 || s[i] > 0x7e {
			return false
		}
	}
	return true
}

// long strings (keys, certificates) occur several times in one case (configuration, tokens, JSON):
// they are bound once per case with a let (type-checking long literals dominates the Coq time)
var vLong = map[string]string{}
var vLongOrder []string

func cStrLit(s string) string { return "\"" + strings.ReplaceAll(s, "\"", "\"\"") + "\"" }
func cStr(s string) string {
	if len(s) < 48 {
		return cStrLit(s)
	}
	id, ok := vLong[s]
	if !ok {
		id = fmt.Sprintf("s%d_", len(vLong))
		vLong[s] = id
		vLongOrder = append(vLongOrder, s)
	}
	return id
}
func vLongReset() { vLong, vLongOrder = map[string]string{}, nil }
func vWithLets(term string) string {
	var sb strings.Builder
	for _, s := range vLongOrder {
		sb.WriteString("let " + vLong[s] + " := " + cStrLit(s) + " in ")
	}
	sb.WriteString(term)
	return sb.String()
}
func cStrs(l []string) string {
	ss := make([]string, len(l))
	for i, s := range l {
		ss[i] = cStr(s)
	}
	return "[" + strings.Join(ss, "; ") + "]"
}
func cN(n uint64) string { return fmt.Sprintf("%d%%N", n) }
func cNs(l []uint64) string {
	ss := make([]string, len(l))
	for i, n := range l {
		ss[i] = cN(n)
	}
	return "[" + strings.Join(ss, "; ") + "]"
}
func cOptStr(s *string) string {
	if s == nil {
		return "None"
	}
	return "(Some " + cStr(*s) + ")"
}
func cOptN(n *uint64) string {
	if n == nil {
		return "None"
	}
	return "(Some " + cN(*n) + ")"
}
func cOptZ(n *int64) string {
	if n == nil {
		return "None"
	}
	return "(Some " + cZ(*n) + ")"
}
func cList(l []string) string { return "[" + strings.Join(l, "; ") + "]" }

// ---------------------------------------------------------------- value domains

type vDur struct {
	n    uint64
	unit string
}

var vUnitNs = map[string]uint64{"ns": 1, "us": 1000, "ms": 1000000, "s": 1000000000, "m": 60000000000, "h": 3600000000000, "d": 86400000000000}
var vUnitCoq = map[string]string{"ns": "Uns", "us": "Uus", "ms": "Ums", "s": "Us", "m": "Um", "h": "Uh", "d": "Ud"}

func (d vDur) String() string { return fmt.Sprintf("%d%s", d.n, d.unit) }
func (d vDur) ns() int64      { return int64(d.n * vUnitNs[d.unit]) }
func (d vDur) coq() string    { return fmt.Sprintf("(Dur %s %s)", cN(d.n), vUnitCoq[d.unit]) }
func cOptDur(d *vDur) string {
	if d == nil {
		return "None"
	}
	return "(Some " + d.coq() + ")"
}
func vDurStr(d *vDur) *string {
	if d == nil {
		return nil
	}
	s := d.String()
	return &s
}
func vDurNs(d *vDur) int64 {
	if d == nil {
		return 0
	}
	return d.ns()
}

type vGen struct {
	r          *vRng
	big        bool // this configuration may use durations above 2^53 ns (global form only: Caddy's own JSONModuleObject, used for listener wrappers, goes through float64)
	optShuffle bool // option lines inside module blocks are written in a random order
	shuffled   int
	full       bool // this configuration may use the modules outside the Coq model (tls/http/quic matchers, tls handler, decimal rates)
}

func (g *vGen) pick(l []string) string { return l[g.r.Intn(len(l))] }
func (g *vGen) chance(pct int) bool    { return g.r.Intn(100) < pct }
func (g *vGen) dur() vDur {
	units := []string{"ns", "us", "ms", "s", "s", "s", "m", "h", "d"}
	ns := []uint64{1, 2, 3, 5, 10, 30, 45, 100, 250, 1000, 1500}
	d := vDur{ns[g.r.Intn(len(ns))], g.pick(units)}
	if g.chance(4) {
		d.n = 0
	}
	if g.big && g.chance(35) {
		d = vDur{[]uint64{9007199254740993, 9007199254740995, 4611686018427387905, 9223372036854774785}[g.r.Intn(4)], "ns"}
	}
	return d
}
func (g *vGen) optDur(pct int) *vDur {
	if !g.chance(pct) {
		return nil
	}
	d := g.dur()
	return &d
}
func (g *vGen) subset(l []string, min int) []string {
	var r []string
	for _, s := range l {
		if g.r.Bool() {
			r = append(r, s)
		}
	}
	for len(r) < min {
		r = append(r, g.pick(l))
	}
	return r
}
func (g *vGen) distinct(l []string, min, max int) []string {
	n := min + g.r.Intn(max-min+1)
	p := append([]string{}, l...)
	for i := len(p) - 1; i > 0; i-- {
		j := g.r.Intn(i + 1)
		p[i], p[j] = p[j], p[i]
	}
	if n > len(p) {
		n = len(p)
	}
	return p[:n]
}
func (g *vGen) some(l []string, min, max int) []string {
	n := min + g.r.Intn(max-min+1)
	if vSplit != nil { // repeated-option mode: lists long enough to be spread over several lines
		n = max
	}
	r := make([]string, 0, n)
	for i := 0; i < n; i++ {
		r = append(r, g.pick(l))
	}
	return r
}

var vCIDRs = []string{"10.0.0.0/8", "192.168.0.0/16", "192.168.1.7", "172.16.0.0/12", "127.0.0.1", "fd00::/8", "2001:db8::/32", "::1", "203.0.113.0/24"}
var vPrivate = []string{"192.168.0.0/16", "172.16.0.0/12", "10.0.0.0/8", "127.0.0.1/8", "fd00::/8", "::1"}

// ranges: words as written, JSON strings, Coq term
func (g *vGen) ranges(min, max int) (words, js []string, coq string) {
	return g.rangesFrom(vCIDRs, min, max)
}
func (g *vGen) rangesFrom(cands []string, min, max int) (words, js []string, coq string) {
	n := min + g.r.Intn(max-min+1)
	if vSplit != nil {
		n = max + 1
	}
	var cs []string
	for i := 0; i < n; i++ {
		if g.chance(15) {
			words = append(words, "private_ranges")
			js = append(js, vPrivate...)
			cs = append(cs, "RPrivate")
		} else {
			c := g.pick(cands)
			words = append(words, c)
			js = append(js, c)
			cs = append(cs, "RCidr "+cStr(c))
		}
	}
	return words, js, cList(cs)
}
func (g *vGen) ports(min, max int) (words []string, vals []uint64) {
	n := min + g.r.Intn(max-min+1)
	if vSplit != nil {
		n = max + 1
	}
	cands := []uint64{0, 1, 22, 53, 80, 443, 1080, 3389, 8080, 65535}
	for i := 0; i < n; i++ {
		p := cands[g.r.Intn(len(cands))]
		if g.chance(30) {
			p = uint64(g.r.Intn(65536))
		}
		words = append(words, strconv.FormatUint(p, 10))
		vals = append(vals, p)
	}
	return
}
func (g *vGen) upstreamAddr() string {
	hosts := []string{"localhost", "127.0.0.1", "[::1]"}
	nets := []string{"", "", "", "tcp/", "udp/"}
	return g.pick(nets) + g.pick(hosts) + ":" + strconv.Itoa(1024+g.r.Intn(60000))
}

// ---------------------------------------------------------------- JSON building (what the config states)

type vKeep struct{ v any } // a present-but-possibly-empty struct value (non-nil pointer)

func vEmpty(v any) bool {
	switch x := v.(type) {
	case nil:
		return true
	case string:
		return x == ""
	case int64:
		return x == 0
	case bool:
		return !x
	case []any:
		return len(x) == 0
	case map[string]any:
		return len(x) == 0
	case json.Number:
		return x == "0"
	}
	return false
}

// jobj("k1", v1, "k2", v2, ...) with omitempty
func jobj(kv ...any) map[string]any {
	m := map[string]any{}
	for i := 0; i+1 < len(kv); i += 2 {
		k := kv[i].(string)
		if kp, ok := kv[i+1].(vKeep); ok {
			m[k] = kp.v
			continue
		}
		if !vEmpty(kv[i+1]) {
			m[k] = kv[i+1]
		}
	}
	return m
}
func jstrs(l []string) []any {
	r := make([]any, len(l))
	for i, s := range l {
		r[i] = s
	}
	return r
}
func jnums(l []uint64) []any {
	r := make([]any, len(l))
	for i, s := range l {
		r[i] = int64(s)
	}
	return r
}
func jstr(s *string) string {
	if s == nil {
		return ""
	}
	return *s
}
func jint(s *int64) int64 {
	if s == nil {
		return 0
	}
	return *s
}

// canonical text of a JSON value: sorted keys, compact, numbers by their literal
func vCanon(v any, sb *strings.Builder) {
	switch x := v.(type) {
	case nil:
		sb.WriteString("null")
	case bool:
		sb.WriteString(strconv.FormatBool(x))
	case string:
		b, _ := json.Marshal(x)
		sb.Write(b)
	case int64:
		sb.WriteString(strconv.FormatInt(x, 10))
	case int:
		sb.WriteString(strconv.Itoa(x))
	case json.Number:
		sb.WriteString(string(x))
	case []any:
		sb.WriteString("[")
		for i, e := range x {
			if i > 0 {
				sb.WriteString(",")
			}
			vCanon(e, sb)
		}
		sb.WriteString("]")
	case map[string]any:
		ks := make([]string, 0, len(x))
		for k := range x {
			ks = append(ks, k)
		}
		sort.Strings(ks)
		sb.WriteString("{")
		for i, k := range ks {
			if i > 0 {
				sb.WriteString(",")
			}
			b, _ := json.Marshal(k)
			sb.Write(b)
			sb.WriteString(":")
			vCanon(x[k], sb)
		}
		sb.WriteString("}")
	default:
		sb.WriteString(fmt.Sprintf("?%T", v))
	}
}

// every integer replaced by its float64 rounding (to recognise a float64 round trip)
func vFloatRound(v any) any {
	switch x := v.(type) {
	case int64:
		return json.Number(strconv.FormatFloat(float64(x), 'f', -1, 64))
	case json.Number:
		if n, err := strconv.ParseInt(string(x), 10, 64); err == nil {
			return json.Number(strconv.FormatFloat(float64(n), 'f', -1, 64))
		}
		if f, err := strconv.ParseFloat(string(x), 64); err == nil {
			return json.Number(strconv.FormatFloat(f, 'f', -1, 64))
		}
		return x
	case []any:
		r := make([]any, len(x))
		for i, e := range x {
			r[i] = vFloatRound(e)
		}
		return r
	case map[string]any:
		r := map[string]any{}
		for k, e := range x {
			r[k] = vFloatRound(e)
		}
		return r
	}
	return v
}
func vCanonS(v any) string {
	var sb strings.Builder
	vCanon(v, &sb)
	return sb.String()
}
func vParse(b []byte) (any, error) {
	dec := json.NewDecoder(bytes.NewReader(b))
	dec.UseNumber()
	var v any
	err := dec.Decode(&v)
	return v, err
}

// Coq term of a parsed JSON value (keys sorted); ok=false when it cannot be written (non-integer
// number, non-printable string)
func vJSONCoq(v any) (string, bool) {
	switch x := v.(type) {
	case nil:
		return "JNull", true
	case bool:
		return "(JBool " + cBool(x) + ")", true
	case string:
		return "(JStr " + cStr(x) + ")", vPrintable(x)
	case int64:
		return "(JNum " + cZ(x) + ")", true
	case json.Number:
		n, err := strconv.ParseInt(string(x), 10, 64)
		if err != nil {
			return "(JFloat " + cStr(string(x)) + ")", true
		}
		return "(JNum " + cZ(n) + ")", true
	case []any:
		ss := make([]string, len(x))
		ok := true
		for i, e := range x {
			s, o := vJSONCoq(e)
			ss[i], ok = s, ok && o
		}
		return "(JArr " + cList(ss) + ")", ok
	case map[string]any:
		ks := make([]string, 0, len(x))
		for k := range x {
			ks = append(ks, k)
		}
		sort.Strings(ks)
		ss := make([]string, len(ks))
		ok := true
		for i, k := range ks {
			s, o := vJSONCoq(x[k])
			ss[i], ok = "("+cStr(k)+", "+s+")", ok && o && vPrintable(k)
		}
		return "(JObj " + cList(ss) + ")", ok
	}
	return "", false
}

// ---------------------------------------------------------------- leaves

type vLeaf struct {
	name     string
	seg      *vSeg
	js       any
	coq      string // Coq term of type mleaf / hleaf ("" when not modelled)
	modelled bool
}

func vBare(name, coq string) *vLeaf {
	return &vLeaf{name: name, seg: vLine(name), js: map[string]any{}, coq: coq, modelled: true}
}

var vGroupKey = "21d94830510107f8753d3b6f3145e01ded37075115afcb0538ecdd8503ee96637218c9ed38d908d594231d7d143c73da5055310f89d336da99c8b3dcb18909c79dd44f540670ebc0f120beb7211e96839cb542572c48bfa7ffaa9a22cb8304b7869b92f4442918e598745bb78ac8877f02b00a7cdef3f2446c130d39a7c451269ef399fd6029cdfc80a7c604041312ab0a969bc906bdee6e6d707afdcbe8c7fb97beb66049c3d328340775025433ceba1e38008a826cf92443d903106199373bdadd9c2c735cf481e580db4e81b99f12e3f46b6159c687cd1b9e689f7712573c0f02735a45573dfb5cd55cf4649423892c7e91f439bdd7337a8ceebd302cfbfa"

var vMatcherKinds = []string{"ssh", "xmpp", "postgres", "proxy_protocol", "socks4", "socks5", "regexp", "clock",
	"wireguard", "winbox", "remote_ip", "local_ip", "dns", "rdp", "openvpn", "tls", "http", "quic"}

func (g *vGen) matcherLeaf(kind string) *vLeaf {
	l := g.matcherLeaf0(kind)
	g.shuffleOpts(l.seg)
	return l
}
func (g *vGen) handlerLeaf(kind string) *vLeaf {
	l := g.handlerLeaf0(kind)
	g.shuffleOpts(l.seg)
	return l
}

// option order inside a module's block is free (every UnmarshalCaddyfile is a loop over the block's
// lines): in optShuffle mode the lines of every block of a leaf (also nested: upstream,
// connection_policy) are permuted; lines with the same option name keep their relative order
// (appending options, upstream order, connection_policy order, dns allow/deny rule order)
func (g *vGen) shuffleOpts(s *vSeg) {
	if !g.optShuffle {
		return
	}
	if n := len(s.body); n > 1 {
		group := func(b *vSeg) string {
			if len(b.ws) == 0 {
				return ""
			}
			return strings.TrimSuffix(b.ws[0], "_regexp")
		}
		perm := make([]int, n)
		for i := range perm {
			perm[i] = i
		}
		for i := n - 1; i > 0; i-- {
			j := g.r.Intn(i + 1)
			perm[i], perm[j] = perm[j], perm[i]
		}
		byGroup := map[string][]int{} // positions (in the new order) holding members of a group
		for pos, idx := range perm {
			k := group(s.body[idx])
			byGroup[k] = append(byGroup[k], pos)
		}
		for _, poss := range byGroup {
			vals := make([]int, len(poss))
			for i, p := range poss {
				vals[i] = perm[p]
			}
			sort.Ints(vals)
			for i, p := range poss {
				perm[p] = vals[i]
			}
		}
		nb := make([]*vSeg, n)
		changed := false
		for pos, idx := range perm {
			nb[pos] = s.body[idx]
			changed = changed || pos != idx
		}
		if changed {
			s.body = nb
			g.shuffled++
		}
	}
	for _, b := range s.body {
		g.shuffleOpts(b)
	}
}

// a set of tls.handshake_match matchers (sni, alpn, remote_ip, local_ip) as written inside a tls or
// quic matcher or after "match" in a connection policy: lines, stated JSON, Coq terms (tlsm).
// remote_ip documents "!" (not_ranges) and both IP matchers the private_ranges shortcut.
func (g *vGen) tlsMatchSet(min int) ([]*vSeg, map[string]any, []string) {
	var ents []*vSeg
	var cs []string
	m := map[string]any{}
	cands := []string{"10.0.0.0/8", "192.168.1.7", "fd00::/8", "2001:db8::/32", "127.0.0.1"}
	for _, k := range g.subset([]string{"sni", "alpn", "remote_ip", "local_ip"}, min) {
		if _, dup := m[k]; dup {
			continue
		}
		switch k {
		case "sni":
			v := g.some([]string{"example.com", "*.example.org", "a.b.c"}, 1, 2)
			ents, m["sni"], cs = append(ents, vLine(append([]string{"sni"}, v...)...)), jstrs(v), append(cs, "TSni "+cStrs(v))
		case "alpn":
			v := g.some([]string{"h2", "http/1.1", "acme-tls/1", "custom"}, 1, 2)
			ents, m["alpn"], cs = append(ents, vLine(append([]string{"alpn"}, v...)...)), jstrs(v), append(cs, "TAlpn "+cStrs(v))
		case "local_ip":
			w, j, c := g.rangesFrom(cands, 1, 3)
			ents, m[k], cs = append(ents, vLine(append([]string{k}, w...)...)), jobj("ranges", jstrs(j)), append(cs, "TLocalIP "+c)
		default:
			n := 1 + g.r.Intn(3)
			ws := []string{k}
			var rs, nrs, rc []string
			for i := 0; i < n; i++ {
				neg := g.chance(40)
				var word, c string
				var js []string
				if g.chance(30) {
					word, js, c = "private_ranges", vPrivate, "RPrivate"
				} else {
					word = g.pick(cands)
					js, c = []string{word}, "RCidr "+cStr(word)
				}
				if neg {
					word = "!" + word
					nrs = append(nrs, js...)
				} else {
					rs = append(rs, js...)
				}
				ws = append(ws, word)
				rc = append(rc, fmt.Sprintf("(%s, %s)", cBool(neg), c))
			}
			ents, m[k], cs = append(ents, vLine(ws...)), jobj("ranges", jstrs(rs), "not_ranges", jstrs(nrs)), append(cs, "TRemoteIP "+cList(rc))
		}
	}
	return ents, m, cs
}
func (g *vGen) matcherLeaf0(kind string) *vLeaf {
	switch kind {
	case "ssh":
		return vBare("ssh", "MSsh")
	case "xmpp":
		return vBare("xmpp", "MXmpp")
	case "postgres":
		return vBare("postgres", "MPostgres")
	case "proxy_protocol":
		return vBare("proxy_protocol", "MProxyProtocol")
	case "socks4":
		var cmds []string
		if g.chance(60) {
			cmds = g.some([]string{"CONNECT", "BIND", "connect", "Bind"}, 1, 3)
		}
		var nw, nj []string
		nc := "[]"
		if g.chance(60) {
			nw, nj, nc = g.ranges(1, 3)
		}
		var pw []string
		var pv []uint64
		if g.chance(60) {
			pw, pv = g.ports(1, 4)
		}
		return &vLeaf{name: "socks4",
			seg:      vBlock("socks4", nil, vCat(vLineMulti("commands", cmds, 1), vLineMulti("networks", nw, 1), vLineMulti("ports", pw, 1))),
			js:       jobj("commands", jstrs(cmds), "networks", jstrs(nj), "ports", jnums(pv)),
			coq:      fmt.Sprintf("MSocks4 %s %s %s", cStrs(cmds), nc, cNs(pv)),
			modelled: true}
	case "socks5":
		var aw []string
		var av []uint64
		if g.chance(70) {
			n := 1 + g.r.Intn(3)
			for i := 0; i < n; i++ {
				v := uint64([]int{0, 1, 2, 3, 128, 255}[g.r.Intn(6)])
				aw, av = append(aw, strconv.FormatUint(v, 10)), append(av, v)
			}
		}
		return &vLeaf{name: "socks5", seg: vBlock("socks5", nil, vLineMulti("auth_methods", aw, 1)),
			js: jobj("auth_methods", jnums(av)), coq: "MSocks5 " + cNs(av), modelled: true}
	case "regexp":
		pat := g.pick([]string{"^GET", "^[A-Z]+", "^SSH-2.0", "hello|world", "^.{4}ftyp", "a+b*c?", "^(foo|bar)baz$"})
		ws := []string{"regexp", pat}
		var cnt *uint64
		if g.chance(50) {
			c := uint64([]int{0, 1, 4, 16, 100, 65535}[g.r.Intn(6)])
			cnt = &c
			ws = append(ws, strconv.FormatUint(c, 10))
		}
		var cj int64
		if cnt != nil {
			cj = int64(*cnt)
		}
		return &vLeaf{name: "regexp", seg: vLine(ws...), js: jobj("count", cj, "pattern", pat),
			coq: fmt.Sprintf("MRegexp %s %s", cStr(pat), cOptN(cnt)), modelled: true}
	case "clock":
		times := []string{"00:00:00", "08:30:00", "12:00:00", "17:45:30", "23:59:59"}
		var tz *string
		if g.chance(50) {
			z := g.pick([]string{"UTC", "Local"})
			tz = &z
		}
		var ws []string
		var after, before, form string
		switch g.r.Intn(3) {
		case 0:
			a, b := g.pick(times), g.pick(times)
			ws, after, before = []string{"clock", a, b}, a, b
			form = fmt.Sprintf("(CkRange %s %s)", cStr(a), cStr(b))
		case 1:
			k, tt := g.r.Intn(2), g.pick(times)
			ws, after, before = []string{"clock", []string{"after", "from"}[k], tt}, tt, "00:00:00"
			form = fmt.Sprintf("(CkAfter %s %s)", []string{"KwAfter", "KwFrom"}[k], cStr(tt))
		default:
			k, tt := g.r.Intn(4), g.pick(times)
			ws, after, before = []string{"clock", []string{"before", "till", "to", "until"}[k], tt}, "00:00:00", tt
			form = fmt.Sprintf("(CkBefore %s %s)", []string{"KwBefore", "KwTill", "KwTo", "KwUntil"}[k], cStr(tt))
		}
		if tz != nil {
			ws = append(ws, *tz)
		}
		return &vLeaf{name: "clock", seg: vLine(ws...), js: jobj("after", after, "before", before, "timezone", jstr(tz)),
			coq: fmt.Sprintf("MClock %s %s", form, cOptStr(tz)), modelled: true}
	case "wireguard":
		ws := []string{"wireguard"}
		var z *uint64
		if g.chance(50) {
			v := uint64([]uint64{0, 1, 255, 65536, 4294967295}[g.r.Intn(5)])
			z = &v
			ws = append(ws, strconv.FormatUint(v, 10))
		}
		var zj int64
		if z != nil {
			zj = int64(*z)
		}
		return &vLeaf{name: "wireguard", seg: vLine(ws...), js: jobj("zero", zj), coq: "MWireguard " + cOptN(z), modelled: true}
	case "winbox":
		var modes []string
		if g.chance(60) {
			modes = g.some([]string{"standard", "romon"}, 1, 2)
		}
		var ls []*vSeg
		ls = append(ls, vLineIf("modes", modes)...)
		user, ure, uc := "", "", "None"
		switch g.r.Intn(3) {
		case 0:
			user = g.pick([]string{"admin", "toms", "user-1"})
			ls = append(ls, vLine("username", user))
			uc = "(Some (false, " + cStr(user) + "))"
		case 1:
			ure = g.pick([]string{"^adm", "^[a-z]+$", "^(admin|root)$"})
			ls = append(ls, vLine("username_regexp", ure))
			uc = "(Some (true, " + cStr(ure) + "))"
		}
		return &vLeaf{name: "winbox", seg: vBlock("winbox", nil, ls),
			js:  jobj("modes", jstrs(modes), "username", user, "username_regexp", ure),
			coq: fmt.Sprintf("MWinbox %s %s", cStrs(modes), uc), modelled: true}
	case "remote_ip", "local_ip":
		w, j, c := g.ranges(1, 4)
		con := "MRemoteIP"
		if kind == "local_ip" {
			con = "MLocalIP"
		}
		return &vLeaf{name: kind, seg: vLine(append([]string{kind}, w...)...), js: jobj("ranges", jstrs(j)),
			coq: con + " " + c, modelled: true}
	case "dns":
		var ls []*vSeg
		var allow, deny []any
		var rc []string
		n := g.r.Intn(4)
		for i := 0; i < n; i++ {
			isDeny, isRe := g.r.Bool(), g.r.Bool()
			names := []string{"example.com.", "a.example.org.", "*"}
			types := []string{"A", "AAAA", "MX", "*"}
			classes := []string{"IN", "CH", "*"}
			if isRe {
				names = []string{"^.*example.com.$", "^(a|b).test.$", "*"}
				types = []string{"^A+$", "^(A|AAAA)$", "*"}
				classes = []string{"^IN$", "*"}
			}
			opt := "allow"
			if isDeny {
				opt = "deny"
			}
			if isRe {
				opt += "_regexp"
			}
			nm := g.pick(names)
			ws := []string{opt, nm}
			star := func(s string) string {
				if s == "*" {
					return ""
				}
				return s
			}
			cstar := func(s string) string {
				if s == "*" {
					return "None"
				}
				return "(Some " + cStr(s) + ")"
			}
			ty, cl := "", ""
			tyc, clc := "None", "None"
			if g.chance(65) {
				t := g.pick(types)
				ws = append(ws, t)
				ty, tyc = star(t), "(Some "+cstar(t)+")"
				if g.chance(50) {
					c := g.pick(classes)
					ws = append(ws, c)
					cl, clc = star(c), "(Some "+cstar(c)+")"
				}
			}
			ls = append(ls, vLine(ws...))
			var rj map[string]any
			if isRe {
				rj = jobj("class_regexp", cl, "name_regexp", star(nm), "type_regexp", ty)
			} else {
				rj = jobj("class", cl, "name", star(nm), "type", ty)
			}
			if isDeny {
				deny = append(deny, rj)
			} else {
				allow = append(allow, rj)
			}
			rc = append(rc, fmt.Sprintf("DnsRule %s %s %s %s %s", cBool(isDeny), cBool(isRe), cstar(nm), tyc, clc))
		}
		dd, pa := g.chance(30), g.chance(30)
		ls = append(ls, vLineFlag("default_deny", dd)...)
		ls = append(ls, vLineFlag("prefer_allow", pa)...)
		return &vLeaf{name: "dns", seg: vBlock("dns", nil, ls),
			js:  jobj("allow", allow, "deny", deny, "default_deny", dd, "prefer_allow", pa),
			coq: fmt.Sprintf("MDns %s %s %s", cList(rc), cBool(dd), cBool(pa)), modelled: true}
	case "rdp":
		switch g.r.Intn(4) {
		case 0:
			return &vLeaf{name: "rdp", seg: vLine("rdp"), js: map[string]any{}, coq: "MRdp RdpNone", modelled: true}
		case 1:
			re := g.r.Bool()
			v, k := g.pick([]string{"a0123", "user"}), "cookie_hash"
			if re {
				v, k = g.pick([]string{"^[a-z]\\d+$", "^adm"}), "cookie_hash_regexp"
			}
			return &vLeaf{name: "rdp", seg: vBlock("rdp", nil, []*vSeg{vLine(k, v)}), js: jobj(k, v),
				coq: fmt.Sprintf("MRdp (RdpHash %s %s)", cBool(re), cStr(v)), modelled: true}
		case 2:
			var iw, ij []string
			ic := "[]"
			if g.chance(70) {
				iw, ij, ic = g.ranges(1, 3)
			}
			var pw []string
			var pv []uint64
			if g.chance(70) || len(iw) == 0 {
				pw, pv = g.ports(1, 3)
			}
			return &vLeaf{name: "rdp", seg: vBlock("rdp", nil, vCat(vLineMulti("cookie_ip", iw, 1), vLineMulti("cookie_port", pw, 1))),
				js:  jobj("cookie_ips", jstrs(ij), "cookie_ports", jnums(pv)),
				coq: fmt.Sprintf("MRdp (RdpIPPort %s %s)", ic, cNs(pv)), modelled: true}
		default:
			re := g.r.Bool()
			v, k := g.pick([]string{"anything", "lb-token-1"}), "custom_info"
			if re {
				v, k = g.pick([]string{"^[A-Z]+$", "^lb-"}), "custom_info_regexp"
			}
			return &vLeaf{name: "rdp", seg: vBlock("rdp", nil, []*vSeg{vLine(k, v)}), js: jobj(k, v),
				coq: fmt.Sprintf("MRdp (RdpCustom %s %s)", cBool(re), cStr(v)), modelled: true}
		}
	case "openvpn":
		var modes []string
		if g.chance(70) {
			modes = g.subset([]string{"plain", "auth", "crypt"}, 1)
		}
		ic, it := g.chance(25), g.chance(25)
		var gk, ad, dir *string
		gkc := "None"
		if g.chance(50) {
			gk = &vGroupKey
			gkc = "(Some (false, " + cStr(vGroupKey) + "))"
		}
		if g.chance(40) {
			s := g.pick([]string{"sha256", "SHA512", "md5", "sha1"})
			ad = &s
		}
		if g.chance(40) {
			s := g.pick([]string{"normal", "inverse", "bidi", "bidirectional"})
			dir = &s
		}
		ls := vCat(vLineIf("modes", modes), vLineFlag("ignore_crypto", ic), vLineFlag("ignore_timestamp", it),
			vLineOpt("group_key", gk), vLineOpt("auth_digest", ad), vLineOpt("group_key_direction", dir))
		return &vLeaf{name: "openvpn", seg: vBlock("openvpn", nil, ls),
			js: jobj("modes", jstrs(modes), "ignore_crypto", ic, "ignore_timestamp", it, "group_key", jstr(gk),
				"auth_digest", jstr(ad), "group_key_direction", jstr(dir)),
			coq:      fmt.Sprintf("MOpenvpn (OpenVPN %s %s %s %s %s %s None [] [])", cStrs(modes), cBool(ic), cBool(it), gkc, cOptStr(ad), cOptStr(dir)),
			modelled: true}
	case "tls", "quic":
		ents, m, cs := g.tlsMatchSet(0)
		inl := len(ents) == 1 && g.r.Bool()
		return &vLeaf{name: kind, seg: vSetSeg(kind, inl, ents), js: m,
			coq: fmt.Sprintf("MTls %s %s %s", cBool(kind == "quic"), cBool(inl), cList(cs)), modelled: true}
	case "http":
		// http.matchers host / path / method, and not over them (Caddy's request matchers)
		simple := func(k string) ([]string, string) {
			var v []string
			switch k {
			case "host":
				v = g.distinct([]string{"example.com", "*.example.org", "localhost"}, 1, 2)
			case "path":
				v = g.distinct([]string{"/index.html", "/api/*", "/", "/admin*", "/private"}, 1, 2)
			default:
				v = g.distinct([]string{"GET", "POST", "PUT"}, 1, 2)
			}
			return v, fmt.Sprintf("(%s, %s)", map[string]string{"host": "HkHost", "path": "HkPath", "method": "HkMethod"}[k], cStrs(v))
		}
		var ents []*vSeg
		var cs []string
		m := map[string]any{}
		for _, k := range g.distinct([]string{"host", "path", "method", "not"}, 1, 3) {
			if k != "not" {
				v, c := simple(k)
				ents, m[k], cs = append(ents, vLine(append([]string{k}, v...)...)), jstrs(v), append(cs, "HmSimple "+c)
				continue
			}
			var ie []*vSeg
			var ic []string
			im := map[string]any{}
			for _, ik := range g.distinct([]string{"host", "path", "method"}, 1, 2) {
				v, c := simple(ik)
				ie, im[ik], ic = append(ie, vLine(append([]string{ik}, v...)...)), jstrs(v), append(ic, c)
			}
			iinl := len(ie) == 1 && g.chance(60)
			ents, m["not"] = append(ents, vSetSeg("not", iinl, ie)), []any{im}
			cs = append(cs, fmt.Sprintf("HmNot %s %s", cBool(iinl), cList(ic)))
		}
		inl := len(ents) == 1 && g.r.Bool()
		return &vLeaf{name: "http", seg: vSetSeg("http", inl, ents), js: []any{m},
			coq: fmt.Sprintf("MHttp %s %s", cBool(inl), cList(cs)), modelled: true}
	}
	panic("unknown matcher kind " + kind)
}

var vModelledKinds = vMatcherKinds
var vHandlerKinds = []string{"echo", "proxy_protocol", "throttle", "socks5", "proxy", "tls"}

func (g *vGen) optInt(pct int, cands []int64) *int64 {
	if !g.chance(pct) {
		return nil
	}
	v := cands[g.r.Intn(len(cands))]
	return &v
}
func vIntStr(v *int64) *string {
	if v == nil {
		return nil
	}
	s := strconv.FormatInt(*v, 10)
	return &s
}

// a self-signed CA certificate (base64 DER) for "tls_trust_pool inline { trust_der ... }"
var vCACertB64 string

func vCACert() string {
	if vCACertB64 == "" {
		key := ed25519.NewKeyFromSeed(bytes.Repeat([]byte{7}, ed25519.SeedSize)) // deterministic key and signature
		tmpl := &x509.Certificate{SerialNumber: big.NewInt(1), Subject: pkix.Name{CommonName: "verif test CA"},
			NotBefore: time.Unix(1700000000, 0), NotAfter: time.Unix(4000000000, 0), IsCA: true, BasicConstraintsValid: true,
			KeyUsage: x509.KeyUsageCertSign}
		der, err := x509.CreateCertificate(nil, tmpl, tmpl, key.Public(), key)
		if err != nil {
			panic(err)
		}
		vCACertB64 = base64.StdEncoding.EncodeToString(der)
	}
	return vCACertB64
}

func (g *vGen) upstream() (*vSeg, map[string]any, string) {
	var args, dial []string
	if g.chance(50) {
		args = []string{g.upstreamAddr()}
	}
	if g.chance(50) || len(args) == 0 {
		dial = append(dial, g.upstreamAddr())
		if g.chance(30) {
			dial = append(dial, g.upstreamAddr())
		}
	}
	mc := g.optInt(40, []int64{0, 1, 5, 100, 2147483647})
	ls := vCat(vLineMulti("dial", dial, 1), vLineOpt("max_connections", vIntStr(mc)))
	var tlsj any
	tlsc := "None"
	if g.chance(40) || (g.optShuffle && g.chance(50)) {
		ins := g.chance(50)
		var sn, re *string
		if g.chance(50) {
			s := g.pick([]string{"example.com", "internal.test"})
			sn = &s
		}
		if g.chance(40) {
			s := g.pick([]string{"never", "once", "freely"})
			re = &s
		}
		to := g.optDur(40)
		var curves, except, cauth []string
		if g.chance(30) {
			curves = g.some([]string{"x25519", "secp256r1", "secp384r1"}, 1, 2)
		}
		if g.chance(30) {
			except = g.some([]string{"80", "8080"}, 1, 2)
		}
		if g.chance(20) {
			cauth = []string{"client.example.com"}
		}
		ls = vCat(ls, []*vSeg{vLine("tls")}, vLineIf("tls_client_auth", cauth), vLineMulti("tls_curves", curves, 1), vLineMulti("tls_except_ports", except, 1),
			vLineFlag("tls_insecure_skip_verify", ins), vLineOpt("tls_renegotiation", re), vLineOpt("tls_server_name", sn),
			vLineOpt("tls_timeout", vDurStr(to)))
		ca := ""
		if len(cauth) == 1 {
			ca = cauth[0]
		}
		var caj any
		trc := "None"
		if g.chance(25) {
			certs := []string{vCACert()}
			ls = append(ls, &vSeg{ws: []string{"tls_trust_pool", "inline"}, hb: true, body: []*vSeg{vLine("trust_der", certs[0])}})
			caj = map[string]any{"provider": "inline", "trusted_ca_certs": jstrs(certs)}
			trc = "(Some " + cStrs(certs) + ")"
		}
		tlsj = vKeep{jobj("ca", caj, "client_certificate_automate", ca, "insecure_skip_verify", ins, "handshake_timeout", vDurNs(to),
			"server_name", jstr(sn), "renegotiation", jstr(re), "except_ports", jstrs(except), "curves", jstrs(curves))}
		tlsc = fmt.Sprintf("(Some (UpTLS %s %s %s %s %s %s %s %s))", cBool(ins), cOptStr(sn), cOptStr(re), cOptDur(to), cStrs(curves), cStrs(except), cStrs(cauth), trc)
	}
	all := append(append([]string{}, args...), dial...)
	return vBlock("upstream", args, ls), jobj("dial", jstrs(all), "tls", tlsj, "max_connections", jint(mc)),
		fmt.Sprintf("Upstream %s %s %s %s", cStrs(args), cStrs(dial), cOptZ(mc), tlsc)
}

func (g *vGen) handlerLeaf0(kind string) *vLeaf {
	switch kind {
	case "echo":
		return &vLeaf{name: "echo", seg: vLine("echo"), js: map[string]any{}, coq: "HEcho", modelled: true}
	case "proxy_protocol":
		var aw, aj []string
		ac := "[]"
		if g.chance(60) {
			// the handler's "allow" takes CIDR notation only (net.ParseCIDR), plus the private_ranges shortcut
			aw, aj, ac = g.rangesFrom([]string{"10.0.0.0/8", "192.168.0.0/16", "172.16.0.0/12", "fd00::/8", "2001:db8::/32", "203.0.113.7/32"}, 1, 3)
		}
		to := g.optDur(60)
		return &vLeaf{name: "proxy_protocol",
			seg: vBlock("proxy_protocol", nil, vCat(vLineMulti("allow", aw, 1), vLineOpt("timeout", vDurStr(to)))),
			js:  jobj("timeout", vDurNs(to), "allow", jstrs(aj)),
			coq: fmt.Sprintf("HProxyProtocol %s %s", ac, cOptDur(to)), modelled: true}
	case "throttle":
		lat := g.optDur(50)
		rbs := g.optInt(50, []int64{0, 1, 1024, 65536, 2147483647})
		trbs := g.optInt(50, []int64{0, 1, 4096, 1000000})
		modelled := true
		fl := func() (*string, any, string) {
			if !g.chance(50) {
				return nil, nil, "None"
			}
			if g.chance(30) {
				d := [][2]string{{"1", "5"}, {"0", "25"}, {"1024", "75"}, {"12", "125"}, {"0", "000001"}}[g.r.Intn(5)]
				s := d[0] + "." + d[1]
				ip, _ := strconv.ParseUint(d[0], 10, 64)
				return &s, json.Number(s), fmt.Sprintf("(Some (RDec %s %s))", cN(ip), cStr(d[1]))
			}
			if g.full && g.chance(15) { // exponent form: outside the model
				modelled = false
				s := "1e3"
				return &s, json.Number("1000"), ""
			}
			v := []uint64{0, 1, 100, 1000, 1048576}[g.r.Intn(5)]
			s := strconv.FormatUint(v, 10)
			return &s, int64(v), "(Some (RInt " + cN(v) + "))"
		}
		rs, rj, rc := fl()
		ts, tj, tc := fl()
		coq := ""
		if modelled {
			coq = fmt.Sprintf("HThrottle %s %s %s %s %s", cOptDur(lat), cOptZ(rbs), rc, cOptZ(trbs), tc)
		}
		return &vLeaf{name: "throttle",
			seg: vBlock("throttle", nil, vCat(vLineOpt("latency", vDurStr(lat)), vLineOpt("read_burst_size", vIntStr(rbs)),
				vLineOpt("read_bytes_per_second", rs), vLineOpt("total_read_burst_size", vIntStr(trbs)),
				vLineOpt("total_read_bytes_per_second", ts))),
			js: jobj("read_bytes_per_second", rj, "read_burst_size", jint(rbs), "total_read_bytes_per_second", tj,
				"total_read_burst_size", jint(trbs), "latency", vDurNs(lat)),
			coq: coq, modelled: modelled}
	case "socks5":
		var bind *string
		if g.chance(40) {
			s := g.pick([]string{"127.0.0.1", "10.0.0.1", "::1"})
			bind = &s
		}
		var cmds []string
		if g.chance(60) {
			cmds = g.some([]string{"CONNECT", "ASSOCIATE", "BIND", "connect"}, 1, 3)
		}
		var cw, cc []string
		creds := map[string]any{}
		if g.chance(50) {
			users := g.subset([]string{"alice", "bob", "carol"}, 1)
			for _, u := range users {
				p := g.pick([]string{"secret", "pa55", "x"})
				cw = append(cw, u, p)
				creds[u] = p
				cc = append(cc, "("+cStr(u)+", "+cStr(p)+")")
			}
		}
		return &vLeaf{name: "socks5",
			seg: vBlock("socks5", nil, vCat(vLineOpt("bind_ip", bind), vLineMulti("commands", cmds, 1), vLineMulti("credentials", cw, 2))),
			js:  jobj("commands", jstrs(cmds), "bind_ip", jstr(bind), "credentials", creds),
			coq: fmt.Sprintf("HSocks5 %s %s %s", cOptStr(bind), cStrs(cmds), cList(cc)), modelled: true}
	case "proxy":
		var args []string
		n := g.r.Intn(3)
		for i := 0; i < n; i++ {
			args = append(args, g.upstreamAddr())
		}
		var ups []any
		for _, a := range args {
			ups = append(ups, map[string]any{"dial": []any{a}})
		}
		var useg []*vSeg
		var uc []string
		nu := g.r.Intn(3)
		if len(args) == 0 && nu == 0 {
			nu = 1
		}
		if g.chance(55) && len(args) > 0 {
			nu = 0
		}
		for i := 0; i < nu; i++ {
			s, j, c := g.upstream()
			useg, ups, uc = append(useg, s), append(ups, j), append(uc, c)
		}
		simple := g.chance(45)
		pct := 30
		if simple {
			pct = 0
		}
		if g.optShuffle && g.chance(60) {
			// blocks mixing option groups that share a lazily allocated parent struct
			// (health_checks.active/passive, load_balancing): well populated, in random order
			pct = 75
		}
		hi, ht := g.optDur(pct), g.optDur(pct)
		if hi != nil && hi.ns() < 1000000000 { // keep the checker goroutine quiet during Validate
			hi = &vDur{30, "s"}
		}
		hp := g.optInt(pct, []int64{0, 80, 8080, 65535})
		fd := g.optDur(pct)
		mf := g.optInt(pct, []int64{0, 1, 3, 10})
		uc2 := g.optInt(pct, []int64{0, 1, 50})
		td, ti := g.optDur(pct), g.optDur(pct)
		var pp *string
		if g.chance(pct) {
			s := g.pick([]string{"v1", "v2"})
			pp = &s
		}
		var polSeg []*vSeg
		var polJ any
		polC := "None"
		if g.chance(pct + 10) {
			p := g.pick([]string{"random", "least_conn", "round_robin", "first", "ip_hash", "random_choose"})
			ws := []string{"lb_policy", p}
			pj := map[string]any{"policy": p}
			pc := map[string]string{"random": "PRandom", "least_conn": "PLeastConn", "round_robin": "PRoundRobin", "first": "PFirst", "ip_hash": "PIPHash"}[p]
			if p == "random_choose" {
				pc = "(PRandomChoose None)"
				if g.chance(70) {
					c := int64(2 + g.r.Intn(4))
					ws = append(ws, strconv.FormatInt(c, 10))
					pj["choose"] = c
					pc = "(PRandomChoose (Some " + cZ(c) + "))"
				}
			}
			polSeg, polJ, polC = []*vSeg{vLine(ws...)}, pj, "(Some "+pc+")"
		}
		ls := vCat(vLineOpt("health_interval", vDurStr(hi)), vLineOpt("health_port", vIntStr(hp)), vLineOpt("health_timeout", vDurStr(ht)),
			vLineOpt("fail_duration", vDurStr(fd)), vLineOpt("max_fails", vIntStr(mf)), vLineOpt("unhealthy_connection_count", vIntStr(uc2)),
			polSeg, vLineOpt("lb_try_duration", vDurStr(td)), vLineOpt("lb_try_interval", vDurStr(ti)), vLineOpt("proxy_protocol", pp), useg)
		var hc, lb any
		active := hi != nil || hp != nil || ht != nil
		passive := fd != nil || mf != nil || uc2 != nil
		if active || passive {
			var aj, pj any
			if active {
				aj = vKeep{jobj("port", jint(hp), "interval", vDurNs(hi), "timeout", vDurNs(ht))}
			}
			if passive {
				pj = vKeep{jobj("fail_duration", vDurNs(fd), "max_fails", jint(mf), "unhealthy_connection_count", jint(uc2))}
			}
			hc = vKeep{jobj("active", aj, "passive", pj)}
		}
		if polJ != nil || td != nil || ti != nil {
			lb = vKeep{jobj("selection", polJ, "try_duration", vDurNs(td), "try_interval", vDurNs(ti))}
		}
		return &vLeaf{name: "proxy", seg: vBlock("proxy", args, ls),
			js: jobj("upstreams", ups, "health_checks", hc, "load_balancing", lb, "proxy_protocol", jstr(pp)),
			coq: fmt.Sprintf("HProxy (Proxy %s %s %s %s %s %s %s %s %s %s %s %s)", cStrs(args), cList(uc), cOptDur(hi), cOptZ(hp), cOptDur(ht),
				cOptDur(fd), cOptZ(mf), cOptZ(uc2), polC, cOptDur(td), cOptDur(ti), cOptStr(pp)),
			modelled: true}
	case "tls":
		// connection policies (cert_selection and client_auth are Caddy's own parsers: not generated)
		var cps []any
		var ls []*vSeg
		var cc []string
		n := g.r.Intn(3)
		for i := 0; i < n; i++ {
			var alpn, ciphers, curves, protos []string
			if g.chance(50) {
				alpn = g.some([]string{"h2", "http/1.1"}, 1, 2)
			}
			if g.chance(25) {
				ciphers = g.distinct([]string{"TLS_ECDHE_RSA_WITH_AES_128_GCM_SHA256", "TLS_ECDHE_ECDSA_WITH_AES_256_GCM_SHA384", "TLS_ECDHE_RSA_WITH_CHACHA20_POLY1305_SHA256"}, 1, 2)
			}
			if g.chance(25) {
				curves = g.distinct([]string{"x25519", "secp256r1", "secp384r1"}, 1, 2)
			}
			var dsni, fsni *string
			if g.chance(40) {
				s := g.pick([]string{"example.com", "fallback.test"})
				dsni = &s
			}
			if g.chance(20) {
				s := g.pick([]string{"fb.example.com", "other.test"})
				fsni = &s
			}
			drop := g.chance(15)
			if g.chance(40) {
				protos = [][]string{{"tls1.2"}, {"tls1.2", "tls1.3"}, {"tls1.3"}}[g.r.Intn(3)]
			}
			var match any
			var mseg []*vSeg
			mc := "None"
			if g.chance(50) {
				ents, mm, cs := g.tlsMatchSet(1)
				minl := len(ents) == 1 && g.r.Bool()
				match = mm
				mseg = []*vSeg{vSetSeg("match", minl, ents)}
				mc = fmt.Sprintf("(Some (%s, %s))", cBool(minl), cList(cs))
			}
			// cert_selection: every option is a list that may be written on several lines
			var csj any
			var csseg []*vSeg
			csc := "None"
			if g.chance(45) {
				lines := func(k string, cands []string) ([]*vSeg, []any, string) {
					var segs []*vSeg
					var all []any
					var cl []string
					nl := g.r.Intn(4)
					if nl == 3 {
						nl = 2
					}
					for j := 0; j < nl; j++ {
						vals := make([]string, 1+g.r.Intn(3))
						for x := range vals {
							vals[x] = g.pick(cands)
						}
						segs = append(segs, vLine(append([]string{k}, vals...)...))
						all = append(all, jstrs(vals)...)
						if k == "serial_number" {
							ns := make([]string, len(vals))
							for x, v := range vals {
								ns[x] = v + "%N"
							}
							cl = append(cl, cList(ns))
						} else {
							cl = append(cl, cStrs(vals))
						}
					}
					return segs, all, cList(cl)
				}
				s1, j1, c1 := lines("all_tags", []string{"prod", "edge", "eu", "blue"})
				s2, j2, c2 := lines("any_tag", []string{"a", "b", "c"})
				s3, j3, c3 := lines("serial_number", []string{"1001", "1002", "1004", "123456789012", "340282366920938463463374607431768211457"})
				s4, j4, c4 := lines("subject_organization", []string{"Acme", "Example-Org", "ACME-Co"})
				csj = vKeep{jobj("serial_number", j3, "subject_organization", j4, "any_tag", j2, "all_tags", j1)}
				csseg = []*vSeg{vBlock("cert_selection", nil, vCat(s1, s2, s3, s4))}
				csc = fmt.Sprintf("(Some (CertSel %s %s %s %s))", c1, c2, c3, c4)
			}
			pmin, pmax := "", ""
			if len(protos) > 0 {
				pmin = protos[0]
			}
			if len(protos) > 1 {
				pmax = protos[1]
			}
			cps = append(cps, jobj("match", match, "certificate_selection", csj, "cipher_suites", jstrs(ciphers), "curves", jstrs(curves), "alpn", jstrs(alpn),
				"protocol_min", pmin, "protocol_max", pmax, "drop", drop, "default_sni", jstr(dsni), "fallback_sni", jstr(fsni)))
			ls = append(ls, &vSeg{ws: []string{"connection_policy"}, hb: true,
				body: vCat(vLineMulti("alpn", alpn, 1), vLineMulti("ciphers", ciphers, 1), vLineMulti("curves", curves, 1),
					vLineOpt("default_sni", dsni), vLineFlag("drop", drop), vLineOpt("fallback_sni", fsni), vLineIf("protocols", protos), csseg, mseg)})
			cc = append(cc, fmt.Sprintf("ConnPolicy %s %s %s %s %s %s None %s %s %s", cStrs(alpn), cStrs(ciphers), cStrs(curves),
				cOptStr(dsni), cBool(drop), cOptStr(fsni), cStrs(protos), mc, csc))
		}
		return &vLeaf{name: "tls", seg: vBlock("tls", nil, ls), js: jobj("connection_policies", cps),
			coq: "HTls " + cList(cc), modelled: true}
	}
	panic("unknown handler kind " + kind)
}

// ---------------------------------------------------------------- structure

type vMatcher struct {
	leaf *vLeaf
	not  bool
	inl  bool
	ms   []*vMatcher
}

func (m *vMatcher) name() string {
	if m.not {
		return "not"
	}
	return m.leaf.name
}
func vSetSeg(w string, inl bool, entries []*vSeg) *vSeg {
	if inl && len(entries) == 1 {
		return &vSeg{ws: append([]string{w}, entries[0].ws...), hb: entries[0].hb, body: entries[0].body}
	}
	return &vSeg{ws: []string{w}, hb: true, body: entries}
}
func vMatcherSegs(ms []*vMatcher) []*vSeg {
	r := make([]*vSeg, len(ms))
	for i, m := range ms {
		r[i] = m.seg()
	}
	return r
}
func (m *vMatcher) seg() *vSeg {
	if m.not {
		return vSetSeg("not", m.inl, vMatcherSegs(m.ms))
	}
	return m.leaf.seg
}
func vSetJSON(ms []*vMatcher) map[string]any {
	r := map[string]any{}
	for _, m := range ms {
		r[m.name()] = m.json()
	}
	return r
}
func (m *vMatcher) json() any {
	if m.not {
		return []any{vSetJSON(m.ms)}
	}
	return m.leaf.js
}
func (m *vMatcher) modelled() bool {
	if m.not {
		for _, x := range m.ms {
			if !x.modelled() {
				return false
			}
		}
		return true
	}
	return m.leaf.modelled
}
func vMatchersCoq(ms []*vMatcher) string {
	ss := make([]string, len(ms))
	for i, m := range ms {
		ss[i] = m.coq()
	}
	return cList(ss)
}
func (m *vMatcher) coq() string {
	if m.not {
		return fmt.Sprintf("MNot %s %s", cBool(m.inl), vMatchersCoq(m.ms))
	}
	return "MLeaf (" + m.leaf.coq + ")"
}
func (m *vMatcher) depth() int {
	d := 0
	for _, x := range m.ms {
		if x.depth() > d {
			d = x.depth()
		}
	}
	if m.not {
		return d + 1
	}
	return 0
}

type vMSet struct {
	name string
	inl  bool
	ms   []*vMatcher
}
type vRoute struct {
	refs []string
	hs   []*vHandler
}
type vRBlock struct {
	mt     *vDur
	sets   []*vMSet
	routes []*vRoute
	order  []int // non-canonical order of the block's directives (nil: canonical)
}
type vHandler struct {
	leaf *vLeaf
	kind int // 0 leaf, 1 tee, 2 subroute
	hs   []*vHandler
	rb   *vRBlock
}

func (h *vHandler) name() string {
	switch h.kind {
	case 1:
		return "tee"
	case 2:
		return "subroute"
	}
	return h.leaf.name
}
func vHandlerSegs(hs []*vHandler) []*vSeg {
	r := make([]*vSeg, len(hs))
	for i, h := range hs {
		r[i] = h.seg()
	}
	return r
}
func (h *vHandler) seg() *vSeg {
	switch h.kind {
	case 1:
		return &vSeg{ws: []string{"tee"}, hb: true, body: vHandlerSegs(h.hs)}
	case 2:
		return &vSeg{ws: []string{"subroute"}, hb: true, body: h.rb.segs()}
	}
	return h.leaf.seg
}
func (b *vRBlock) segs() []*vSeg {
	var r []*vSeg
	if b.mt != nil {
		r = append(r, vLine("matching_timeout", b.mt.String()))
	}
	for _, s := range b.sets {
		r = append(r, vSetSeg(s.name, s.inl, vMatcherSegs(s.ms)))
	}
	for _, rt := range b.routes {
		r = append(r, &vSeg{ws: append([]string{"route"}, rt.refs...), hb: true, body: vHandlerSegs(rt.hs)})
	}
	if b.order != nil && len(b.order) == len(r) {
		p := make([]*vSeg, len(r))
		for i, j := range b.order {
			p[i] = r[j]
		}
		return p
	}
	return r
}
func vWithInline(key, name string, v any) any {
	m, ok := v.(map[string]any)
	if !ok {
		return v
	}
	r := map[string]any{key: name}
	for k, x := range m {
		r[k] = x
	}
	return r
}
func vHandlersJSON(hs []*vHandler) []any {
	r := make([]any, len(hs))
	for i, h := range hs {
		r[i] = h.json()
	}
	return r
}
func (h *vHandler) json() any {
	switch h.kind {
	case 1:
		return vWithInline("handler", "tee", jobj("branch", vHandlersJSON(h.hs)))
	case 2:
		return vWithInline("handler", "subroute", h.rb.json())
	}
	return vWithInline("handler", h.leaf.name, h.leaf.js)
}
func (b *vRBlock) json(extra ...any) map[string]any {
	sets := map[string]any{}
	for _, s := range b.sets {
		sets[s.name] = vSetJSON(s.ms)
	}
	var rs []any
	for _, rt := range b.routes {
		var ms []any
		for _, ref := range rt.refs {
			ms = append(ms, sets[ref])
		}
		rs = append(rs, jobj("match", ms, "handle", vHandlersJSON(rt.hs)))
	}
	kv := append(extra, "routes", rs, "matching_timeout", vDurNs(b.mt))
	return jobj(kv...)
}
func (h *vHandler) modelled() bool {
	switch h.kind {
	case 1:
		for _, x := range h.hs {
			if !x.modelled() {
				return false
			}
		}
		return true
	case 2:
		return h.rb.modelled()
	}
	return h.leaf.modelled
}
func (b *vRBlock) modelled() bool {
	for _, s := range b.sets {
		for _, m := range s.ms {
			if !m.modelled() {
				return false
			}
		}
	}
	for _, rt := range b.routes {
		for _, h := range rt.hs {
			if !h.modelled() {
				return false
			}
		}
	}
	return true
}
func (b *vRBlock) canonical() bool {
	if b.order != nil {
		return false
	}
	for _, rt := range b.routes {
		for _, h := range rt.hs {
			if !h.canonical() {
				return false
			}
		}
	}
	return true
}
func (h *vHandler) canonical() bool {
	switch h.kind {
	case 1:
		for _, x := range h.hs {
			if !x.canonical() {
				return false
			}
		}
	case 2:
		return h.rb.canonical()
	}
	return true
}
func vHandlersCoq(hs []*vHandler) string {
	ss := make([]string, len(hs))
	for i, h := range hs {
		ss[i] = h.coq()
	}
	return cList(ss)
}
func (h *vHandler) coq() string {
	switch h.kind {
	case 1:
		return "HTee " + vHandlersCoq(h.hs)
	case 2:
		return "HSubroute " + h.rb.coqParts()
	}
	return "HLeaf (" + h.leaf.coq + ")"
}
func (b *vRBlock) coqParts() string {
	ss := make([]string, len(b.sets))
	for i, s := range b.sets {
		ss[i] = fmt.Sprintf("(%s, %s, %s)", cStr(s.name), cBool(s.inl), vMatchersCoq(s.ms))
	}
	rs := make([]string, len(b.routes))
	for i, r := range b.routes {
		rs[i] = fmt.Sprintf("(%s, %s)", cStrs(r.refs), vHandlersCoq(r.hs))
	}
	return fmt.Sprintf("%s %s %s", cOptDur(b.mt), cList(ss), cList(rs))
}
func (b *vRBlock) coq() string { return "(RBlock " + b.coqParts() + ")" }

// non-triviality (appendix C): at least one named matcher set and one nested handler
func (b *vRBlock) stats(named, nested, notDepth *int, depth int) {
	*named += len(b.sets)
	for _, s := range b.sets {
		for _, m := range s.ms {
			if m.depth() > *notDepth {
				*notDepth = m.depth()
			}
		}
	}
	for _, rt := range b.routes {
		for _, h := range rt.hs {
			h.stats(named, nested, notDepth, depth)
		}
	}
}
func (h *vHandler) stats(named, nested, notDepth *int, depth int) {
	switch h.kind {
	case 1:
		*nested++
		for _, x := range h.hs {
			x.stats(named, nested, notDepth, depth+1)
		}
	case 2:
		*nested++
		h.rb.stats(named, nested, notDepth, depth+1)
	}
}

type vServer struct {
	listen []string
	rb     *vRBlock
}

// ---------------------------------------------------------------- generators of structure

func (g *vGen) matcher(depth int, exclude map[string]bool) *vMatcher {
	if depth > 0 && g.chance(22) && !exclude["not"] {
		n := 1 + g.r.Intn(2)
		m := &vMatcher{not: true, ms: g.matcherSetBody(depth-1, n)}
		m.inl = len(m.ms) == 1 && g.chance(60)
		return m
	}
	for {
		k := g.pick(vMatcherKinds)
		if !g.full {
			k = g.pick(vModelledKinds)
		}
		if !exclude[k] {
			return &vMatcher{leaf: g.matcherLeaf(k)}
		}
	}
}
func (g *vGen) matcherSetBody(depth, n int) []*vMatcher {
	used := map[string]bool{}
	var ms []*vMatcher
	for i := 0; i < n; i++ {
		m := g.matcher(depth, used)
		used[m.name()] = true
		ms = append(ms, m)
	}
	return ms
}
func (g *vGen) rblock(depth int, names *int) *vRBlock {
	b := &vRBlock{}
	if g.chance(30) {
		b.mt = g.optDur(100)
	}
	nsets := g.r.Intn(4)
	for i := 0; i < nsets; i++ {
		*names++
		s := &vMSet{name: "@" + g.pick([]string{"a", "b", "m", "set", "x-y", "s_"}) + strconv.Itoa(*names)}
		s.ms = g.matcherSetBody(2, 1+g.r.Intn(3))
		s.inl = len(s.ms) == 1 && g.chance(70)
		b.sets = append(b.sets, s)
	}
	nroutes := g.r.Intn(4)
	if nsets > 0 && nroutes == 0 {
		nroutes = 1
	}
	for i := 0; i < nroutes; i++ {
		rt := &vRoute{}
		for _, s := range b.sets {
			if g.chance(45) {
				rt.refs = append(rt.refs, s.name)
			}
		}
		if g.chance(15) && len(rt.refs) > 0 { // a set may be referenced twice
			rt.refs = append(rt.refs, rt.refs[0])
		}
		rt.hs = g.handlers(depth)
		b.routes = append(b.routes, rt)
	}
	n := len(b.sets) + len(b.routes)
	if b.mt != nil {
		n++
	}
	if n > 1 && g.chance(30) {
		b.order = make([]int, n)
		for i := range b.order {
			b.order[i] = i
		}
		for i := n - 1; i > 0; i-- {
			j := g.r.Intn(i + 1)
			b.order[i], b.order[j] = b.order[j], b.order[i]
		}
		// routes keep their relative order (the JSON route list is ordered); sets and the timeout move freely
		first := n - len(b.routes)
		var pos, val []int
		for i, v := range b.order {
			if v >= first {
				pos, val = append(pos, i), append(val, v)
			}
		}
		sort.Ints(val)
		for i, p := range pos {
			b.order[p] = val[i]
		}
	}
	return b
}
func (g *vGen) handlers(depth int) []*vHandler {
	var hs []*vHandler
	n := g.r.Intn(3)
	for i := 0; i < n; i++ {
		hs = append(hs, g.handler(depth, false))
	}
	// a terminal handler last (proxy / echo / subroute)
	hs = append(hs, g.handler(depth, true))
	return hs
}
func (g *vGen) handler(depth int, terminal bool) *vHandler {
	if depth > 0 && g.chance(25) {
		if terminal || g.r.Bool() {
			n := 0
			return &vHandler{kind: 2, rb: g.rblock(depth-1, &n)}
		}
		nb := 1 + g.r.Intn(2)
		h := &vHandler{kind: 1}
		for i := 0; i < nb; i++ {
			h.hs = append(h.hs, g.handler(depth-1, true))
		}
		return h
	}
	if terminal {
		return &vHandler{leaf: g.handlerLeaf(g.pick([]string{"proxy", "proxy", "proxy", "echo", "socks5"}))}
	}
	if g.full {
		return &vHandler{leaf: g.handlerLeaf(g.pick([]string{"proxy_protocol", "throttle", "tls", "tls"}))}
	}
	return &vHandler{leaf: g.handlerLeaf(g.pick([]string{"proxy_protocol", "throttle"}))}
}
func (g *vGen) listen() []string {
	n := 1 + g.r.Intn(2)
	var r []string
	for i := 0; i < n; i++ {
		r = append(r, g.pick([]string{":", "0.0.0.0:", "[::]:", "127.0.0.1:", "udp/:", "tcp/localhost:"})+strconv.Itoa(1024+g.r.Intn(60000)))
	}
	return r
}

// ---------------------------------------------------------------- lexer tokens -> Coq

func vTokens(text string) (string, bool) {
	toks, err := caddyfile.Tokenize([]byte(text), "Caddyfile")
	if err != nil {
		return "", false
	}
	var ss []string
	ok := true
	for i, t := range toks {
		if i > 0 && toks[i-1].Line+toks[i-1].NumLineBreaks() < t.Line {
			ss = append(ss, "NL")
		}
		switch t.Text {
		case "{":
			ss = append(ss, "LB")
		case "}":
			ss = append(ss, "RB")
		default:
			ss = append(ss, "W "+cStr(t.Text))
			ok = ok && vPrintable(t.Text)
		}
	}
	ss = append(ss, "NL")
	return cList(ss), ok
}

// ---------------------------------------------------------------- the four steps on one Caddyfile

type vResult struct {
	adaptErr error
	nondet   bool
	raw      []byte
	parsed   any
}

func vAdapt(text string) vResult {
	ad := caddyconfig.GetAdapter("caddyfile")
	r1, _, err1 := ad.Adapt([]byte(text), map[string]any{"filename": "Caddyfile"})
	r2, _, err2 := ad.Adapt([]byte(text), map[string]any{"filename": "Caddyfile"})
	res := vResult{adaptErr: err1, raw: r1}
	if (err1 == nil) != (err2 == nil) || !bytes.Equal(r1, r2) {
		res.nondet = true
	}
	if err1 == nil {
		res.parsed, _ = vParse(r1)
	}
	return res
}

func vValidate(raw []byte) (err error) {
	defer func() {
		if r := recover(); r != nil {
			err = fmt.Errorf("panic: %v", r)
		}
	}()
	var cfg caddy.Config
	if e := caddy.StrictUnmarshalJSON(raw, &cfg); e != nil {
		return fmt.Errorf("decode: %v", e)
	}
	return caddy.Validate(&cfg)
}

func vGet(v any, path ...string) any {
	for _, p := range path {
		m, ok := v.(map[string]any)
		if !ok {
			return nil
		}
		v = m[p]
	}
	return v
}

// JSON -> Go struct (the module's own type, strict decoding as Caddy's loader does) -> JSON
func vModuleRT(id string, v any, inlineKey string) string {
	if m, ok := v.(map[string]any); ok && inlineKey != "" {
		c := map[string]any{}
		for k, x := range m {
			if k != inlineKey {
				c[k] = x
			}
		}
		v = c
	}
	info, err := caddy.GetModule(id)
	if err != nil {
		return fmt.Sprintf("%s: %v", id, err)
	}
	inst := info.New()
	in := vCanonS(v)
	if err := caddy.StrictUnmarshalJSON([]byte(in), inst); err != nil {
		return fmt.Sprintf("%s: decode %s: %v", id, in, err)
	}
	b, err := json.Marshal(inst)
	if err != nil {
		return fmt.Sprintf("%s: encode: %v", id, err)
	}
	back, err := vParse(b)
	if err != nil {
		return fmt.Sprintf("%s: re-parse: %v", id, err)
	}
	if out := vCanonS(back); out != in {
		return fmt.Sprintf("%s: %s became %s", id, in, out)
	}
	return ""
}

func vRoutesRT(routes any, diffs *[]string) {
	rs, _ := routes.([]any)
	for _, r := range rs {
		sets, _ := vGet(r, "match").([]any)
		for _, s := range sets {
			vSetRT(s, diffs)
		}
		hs, _ := vGet(r, "handle").([]any)
		vHandlersRT(hs, diffs)
	}
}
func vSetRT(set any, diffs *[]string) {
	m, _ := set.(map[string]any)
	for name, v := range m {
		if d := vModuleRT("layer4.matchers."+name, v, ""); d != "" {
			*diffs = append(*diffs, d)
		}
		if name == "not" {
			inner, _ := v.([]any)
			for _, s := range inner {
				vSetRT(s, diffs)
			}
		}
	}
}
func vHandlersRT(hs []any, diffs *[]string) {
	for _, h := range hs {
		name, _ := vGet(h, "handler").(string)
		if d := vModuleRT("layer4.handlers."+name, h, "handler"); d != "" {
			*diffs = append(*diffs, d)
		}
		switch name {
		case "tee":
			b, _ := vGet(h, "branch").([]any)
			vHandlersRT(b, diffs)
		case "subroute":
			vRoutesRT(vGet(h, "routes"), diffs)
		case "proxy":
			if sel := vGet(h, "load_balancing", "selection"); sel != nil {
				pn, _ := vGet(sel, "policy").(string)
				if d := vModuleRT("layer4.proxy.selection_policies."+pn, sel, "policy"); d != "" {
					*diffs = append(*diffs, d)
				}
			}
		}
	}
}

// layer4.App (or the listener wrapper) JSON -> struct -> JSON, then every module below it
func vRoundTrip(parsed any) []string {
	var diffs []string
	if app := vGet(parsed, "apps", "layer4"); app != nil {
		in := vCanonS(app)
		var a layer4.App
		if err := caddy.StrictUnmarshalJSON([]byte(in), &a); err != nil {
			diffs = append(diffs, "layer4.App decode: "+err.Error())
		} else {
			b, _ := json.Marshal(&a)
			back, _ := vParse(b)
			if out := vCanonS(back); out != in {
				diffs = append(diffs, fmt.Sprintf("layer4.App: %s became %s", in, out))
			}
		}
		srvs, _ := vGet(app, "servers").(map[string]any)
		for _, s := range srvs {
			vRoutesRT(vGet(s, "routes"), &diffs)
		}
	}
	hsrvs, _ := vGet(parsed, "apps", "http", "servers").(map[string]any)
	for _, s := range hsrvs {
		lws, _ := vGet(s, "listener_wrappers").([]any)
		for _, lw := range lws {
			if w, _ := vGet(lw, "wrapper").(string); w == "layer4" {
				if d := vModuleRT("caddy.listeners.layer4", lw, "wrapper"); d != "" {
					diffs = append(diffs, d)
				}
				vRoutesRT(vGet(lw, "routes"), &diffs)
			}
		}
	}
	return diffs
}

func vLayer4Wrappers(parsed any) []any {
	var r []any
	hsrvs, _ := vGet(parsed, "apps", "http", "servers").(map[string]any)
	names := make([]string, 0, len(hsrvs))
	for n := range hsrvs {
		names = append(names, n)
	}
	sort.Strings(names)
	for _, n := range names {
		lws, _ := vGet(hsrvs[n], "listener_wrappers").([]any)
		for _, lw := range lws {
			if w, _ := vGet(lw, "wrapper").(string); w == "layer4" {
				r = append(r, lw)
			}
		}
	}
	return r
}

// module names the Coq model covers (used to decide whether a golden is in the modelled fragment)
var vModelledMatchers = map[string]bool{"ssh": true, "xmpp": true, "postgres": true, "proxy_protocol": true, "socks4": true, "socks5": true,
	"regexp": true, "clock": true, "wireguard": true, "winbox": true, "remote_ip": true, "local_ip": true, "dns": true, "rdp": true,
	"openvpn": true, "not": true, "tls": true, "quic": true, "http": true}
var vModelledHandlers = map[string]bool{"echo": true, "proxy_protocol": true, "throttle": true, "socks5": true, "proxy": true, "tee": true, "subroute": true, "tls": true}

func vRoutesModelled(routes any) bool {
	rs, _ := routes.([]any)
	for _, r := range rs {
		sets, _ := vGet(r, "match").([]any)
		for _, s := range sets {
			if !vSetModelled(s) {
				return false
			}
		}
		hs, _ := vGet(r, "handle").([]any)
		for _, h := range hs {
			name, _ := vGet(h, "handler").(string)
			if !vModelledHandlers[name] {
				return false
			}
			if name == "proxy" {
				ups, _ := vGet(h, "upstreams").([]any)
				for _, u := range ups {
					if vGet(u, "tls", "ca") != nil || vGet(u, "tls", "root_ca_pool") != nil || vGet(u, "tls", "root_ca_pem_files") != nil {
						return false
					}
				}
			}
			if name == "tls" {
				cps, _ := vGet(h, "connection_policies").([]any)
				for _, cp := range cps {
					if vGet(cp, "certificate_selection", "public_key_algorithm") != nil || vGet(cp, "client_authentication") != nil || vGet(cp, "insecure_secrets_log") != nil {
						return false
					}
					if mm, ok := vGet(cp, "match").(map[string]any); ok && !vTLSSetModelled(mm) {
						return false
					}
				}
			}
			if name == "tee" {
				if !vRoutesModelled([]any{map[string]any{"handle": vGet(h, "branch")}}) {
					return false
				}
			}
			if name == "subroute" && !vRoutesModelled(vGet(h, "routes")) {
				return false
			}
		}
	}
	return true
}
func vSetModelled(set any) bool {
	m, _ := set.(map[string]any)
	for name, v := range m {
		if !vModelledMatchers[name] {
			return false
		}
		if name == "not" {
			inner, _ := v.([]any)
			for _, s := range inner {
				if !vSetModelled(s) {
					return false
				}
			}
		}
		if name == "tls" || name == "quic" {
			if mm, ok := v.(map[string]any); !ok || !vTLSSetModelled(mm) {
				return false
			}
		}
		if name == "http" {
			sets, _ := v.([]any)
			for _, hs := range sets {
				hm, _ := hs.(map[string]any)
				for k, hv := range hm {
					switch k {
					case "host", "path", "method":
					case "not":
						ns, _ := hv.([]any)
						for _, n := range ns {
							nm, _ := n.(map[string]any)
							for ik := range nm {
								if ik != "host" && ik != "path" && ik != "method" {
									return false
								}
							}
						}
					default:
						return false
					}
				}
			}
		}
	}
	return true
}
func vTLSSetModelled(m map[string]any) bool {
	for k := range m {
		if k != "sni" && k != "alpn" && k != "remote_ip" && k != "local_ip" {
			return false
		}
	}
	return true
}

// ---------------------------------------------------------------- the test

func TestVerifC15(t *testing.T) {
	out := vOpen()
	defer out.Close()
	g := &vGen{r: vNewRng(vSeed())}
	n := vN(300)
	counts := map[string]int{}

	// the shared steps after adapting: load, round trip
	after := func(label, text string, res vResult, expectLoad bool) {
		if res.nondet {
			out.Fail("C15:adapt:nondeterministic", label, text)
		}
		if res.adaptErr != nil || res.parsed == nil {
			return
		}
		if expectLoad {
			if err := vValidate(res.raw); err != nil {
				key := "C15:load:provision-failed"
				if strings.Contains(err.Error(), "layer4.handlers.proxy_protocol: invalid subnet '::1'") && strings.Contains(text, "private_ranges") {
					// the handler's own "allow private_ranges" shortcut expands to a list its Provision rejects
					key = "C15:load:proxy_protocol-allow-private_ranges-rejected"
				}
				out.Fail(key, label+": "+err.Error(), text)
			}
		}
		if diffs := vRoundTrip(res.parsed); len(diffs) > 0 {
			out.Fail("C15:roundtrip:json-differs", label+": "+strings.Join(diffs, " | "), text)
		}
	}

	// ---- corpus: the golden files
	files, _ := filepath.Glob("integration/caddyfile_adapt/*.caddytest")
	sort.Strings(files)
	// goldens whose option VALUES are outside the module's domain (they adapt, they are not meant to load)
	noLoad := map[string]string{
		"gd_matcher_openvpn.caddytest": "key files /etc/openvpn/* do not exist on this machine",
		"gd_matcher_socks.caddytest":   "socks4 'commands BIND GET': GET is outside the matcher's command set",
	}
	for _, f := range files {
		data, err := os.ReadFile(f)
		if err != nil {
			t.Fatal(err)
		}
		parts := strings.Split(string(data), "----------")
		if len(parts) != 2 {
			continue
		}
		text := strings.TrimSpace(parts[0]) + "\n"
		want, werr := vParse([]byte(strings.TrimSpace(parts[1])))
		res := vAdapt(text)
		base := filepath.Base(f)
		counts["golden"]++
		if res.adaptErr != nil {
			out.Fail("C15:adapt:error-on-valid-config", base+": "+res.adaptErr.Error(), text)
			continue
		}
		if werr == nil && vCanonS(want) != vCanonS(res.parsed) {
			out.Fail("C15:adapt:json-differs-from-config", base+": golden JSON differs", text)
		}
		_, skip := noLoad[base]
		after("golden "+base, text, res, !skip)
		// model vs implementation on the golden, when it lies in the modelled fragment
		vLongReset()
		toks, tok := vTokens(text)
		if app := vGet(res.parsed, "apps", "layer4"); app != nil && tok {
			ok := true
			srvs, _ := vGet(app, "servers").(map[string]any)
			for _, s := range srvs {
				ok = ok && vRoutesModelled(vGet(s, "routes"))
			}
			if obs, jok := vJSONCoq(res.parsed); ok && jok {
				out.Case(vWithLets(fmt.Sprintf("CTokG %s %s", toks, obs)), "golden-global", false, base)
			}
		} else if lws := vLayer4Wrappers(res.parsed); len(lws) > 0 && tok {
			ok := true
			for _, lw := range lws {
				ok = ok && vRoutesModelled(vGet(lw, "routes"))
			}
			if obs, jok := vJSONCoq(lws); ok && jok {
				out.Case(vWithLets(fmt.Sprintf("CTokL %s %s", toks, obs)), "golden-lw", false, base)
			}
		}
	}

	// ---- generated configurations
	for i := 0; i < n; i++ {
		vLongReset()
		lw := i%4 == 3
		g.full = i%3 == 2
		g.big = !lw && i%10 == 5
		vSplit, vSplits = nil, 0
		g.optShuffle, g.shuffled = i%2 == 1, 0
		if i%5 == 1 || i%5 == 3 {
			vSplit = g.r
		}
		depth := 1 + g.r.Intn(3)
		var text, coq, cls string
		var want any
		named, nested, notDepth := 0, 0, 0
		modelled, canonical := true, true
		if lw {
			names := 0
			rb := g.rblock(depth, &names)
			file := []*vSeg{{hb: true, body: []*vSeg{{ws: []string{"servers"}, hb: true, body: []*vSeg{{ws: []string{"listener_wrappers"}, hb: true,
				body: []*vSeg{{ws: []string{"layer4"}, hb: true, body: rb.segs()}, vLine("tls")}}}}}},
				{ws: []string{":" + strconv.Itoa(2000+g.r.Intn(1000))}, hb: true, body: []*vSeg{vLine("respond", "OK")}}}
			var sb strings.Builder
			for _, s := range file {
				s.text(0, &sb)
			}
			text = sb.String()
			want = []any{rb.json("wrapper", "layer4")}
			rb.stats(&named, &nested, &notDepth, 0)
			modelled, canonical = rb.modelled(), rb.canonical()
			coq = rb.coq()
			cls = "lw"
		} else {
			nblocks := 1
			if g.chance(20) {
				nblocks = 2
			}
			var blocks []*vSeg
			var bc []string
			servers := map[string]any{}
			idx := 0
			for b := 0; b < nblocks; b++ {
				ns := g.r.Intn(3)
				if b == 0 && ns == 0 && g.chance(80) {
					ns = 1
				}
				if g.chance(3) {
					ns = 11 // srv10 sorts before srv2
				}
				var ss []*vSeg
				var sc []string
				for s := 0; s < ns; s++ {
					names := 0
					d := depth
					if ns > 3 {
						d = 0
					}
					srv := &vServer{listen: g.listen(), rb: g.rblock(d, &names)}
					ss = append(ss, &vSeg{ws: srv.listen, hb: true, body: srv.rb.segs()})
					servers["srv"+strconv.Itoa(idx)] = srv.rb.json("listen", jstrs(srv.listen))
					idx++
					srv.rb.stats(&named, &nested, &notDepth, 0)
					modelled, canonical = modelled && srv.rb.modelled(), canonical && srv.rb.canonical()
					sc = append(sc, fmt.Sprintf("Server %s %s", cStrs(srv.listen), srv.rb.coq()))
				}
				blocks = append(blocks, &vSeg{ws: []string{"layer4"}, hb: true, body: ss})
				bc = append(bc, cList(sc))
			}
			var sb strings.Builder
			(&vSeg{hb: true, body: blocks}).text(0, &sb)
			text = sb.String()
			want = map[string]any{"apps": map[string]any{"layer4": jobj("servers", servers)}}
			coq = cList(bc)
			cls = "global"
		}
		counts[cls]++
		if vSplits > 0 {
			canonical = false
			counts["with-repeated-options"]++
		}
		if g.shuffled > 0 {
			canonical = false
			counts["with-shuffled-option-order"]++
		}
		vSplit = nil
		res := vAdapt(text)
		if res.adaptErr != nil {
			out.Fail("C15:adapt:error-on-valid-config", res.adaptErr.Error(), text)
			continue
		}
		obs := res.parsed
		if lw {
			obs = vLayer4Wrappers(res.parsed)
		}
		if vCanonS(want) != vCanonS(obs) {
			key := "C15:adapt:json-differs-from-config"
			if vCanonS(vFloatRound(want)) == vCanonS(vFloatRound(obs)) {
				// the only difference: integers above 2^53 came back rounded to the nearest float64
				key = "C15:adapt:integer-above-2^53-rounded"
			}
			out.Fail(key, "stated "+vCanonS(want)+" adapted "+vCanonS(obs), text)
		}
		after("generated", text, res, true)
		nt := named >= 1 && nested >= 1
		if !modelled {
			counts["outside-model"]++
			continue
		}
		toks, tok := vTokens(text)
		obsCoq, jok := vJSONCoq(obs)
		if !tok || !jok {
			counts["unrepresentable"]++
			continue
		}
		con := "CGlob"
		if lw {
			con = "CLw"
		}
		out.Case(vWithLets(fmt.Sprintf("%s %s (%s) %s %s", con, cBool(canonical), coq, toks, obsCoq)),
			fmt.Sprintf("%s/named=%d/nested=%d/not=%d", cls, vMin(named, 3), vMin(nested, 3), notDepth), nt, text)
	}

	// ---- syntactically valid, semantically invalid values: the adapter accepts, Provision rejects
	bad := []struct{ matcher, handler string }{
		{"socks4 {\ncommands GET\n}", ""},
		{"socks4 {\nnetworks 300.1.2.3\n}", ""},
		{"remote_ip not-an-address", ""},
		{"local_ip 10.0.0.0/40", ""},
		{"winbox {\nmodes fancy\n}", ""},
		{"openvpn {\nmodes tls\n}", ""},
		{"openvpn {\nauth_digest crc32\n}", ""},
		{"openvpn {\ngroup_key_direction sideways\n}", ""},
		{"openvpn {\ngroup_key abcd\n}", ""},
		{"openvpn {\ngroup_key_file /nonexistent/ta.key\n}", ""},
		{"openvpn {\nserver_key_file /nonexistent/v2-server.key\n}", ""},
		{"clock 25:00:00 26:00:00", ""},
		{"clock 08:00:00 09:00:00 Mars/Olympus", ""},
		{"regexp [a-", ""},
		{"", "socks5 {\ncommands LISTEN\n}"},
		{"", "proxy localhost:1 {\nproxy_protocol v3\n}"},
		{"", "proxy localhost:1 {\nlb_policy random_choose 1\n}"},
		{"", "throttle {\nread_bytes_per_second -1\n}"},
		{"", "throttle {\nread_burst_size -5\n}"},
		{"", "proxy_protocol {\nallow 10.0.0.0/33\n}"},
	}
	for _, b := range bad {
		var sb strings.Builder
		sb.WriteString("{\n\tlayer4 {\n\t\t:4000 {\n")
		if b.matcher != "" {
			sb.WriteString("\t\t\t@m " + strings.ReplaceAll(b.matcher, "\n", "\n\t\t\t") + "\n\t\t\troute @m {\n\t\t\t\tproxy localhost:4001\n\t\t\t}\n")
		} else {
			sb.WriteString("\t\t\troute {\n\t\t\t\t" + strings.ReplaceAll(b.handler, "\n", "\n\t\t\t\t") + "\n\t\t\t}\n")
		}
		sb.WriteString("\t\t}\n\t}\n}\n")
		text := sb.String()
		counts["invalid-value"]++
		res := vAdapt(text)
		if res.nondet {
			out.Fail("C15:adapt:nondeterministic", "invalid-value stream", text)
		}
		if res.adaptErr != nil {
			out.Fail("C15:adapt:invalid-value-rejected-by-adapter", res.adaptErr.Error(), text)
			continue
		}
		if err := vValidate(res.raw); err == nil {
			counts["invalid-value-accepted-by-provision"]++ // not part of the property; reported as a statistic only
		}
	}

	for k, v := range counts {
		out.Stat("c15_"+k, v)
	}
}

func vMin(a, b int) int {
	if a < b {
		return a
	}
	return b
}
