(* Lemmas about model/Layers.v: every shipped wrapping construction hands the next handler a
   connection whose stream is exactly the unconsumed (or transformed) rest of the client's stream. *)
From Coq Require Import List ZArith NArith Bool Arith Lia.
From Coq.Strings Require Import Byte.
From L4.model Require Import Conn Layers.
From L4.proofs Require Import ConnProofs.
Import ListNotations.
Local Open Scope nat_scope.

(* the connection a handler receives: a *Connection outside matching mode, cursors in range *)
Definition top_l4 (r : rd) : Prop := match r with L4 _ _ => True | _ => False end.
Definition ok (r : rd) : Prop := top_l4 r /\ notm r /\ wfr r.

Ltac okt := unfold ok in *; cbn in *; intuition (try reflexivity; try lia; auto).

(* constructor skeleton of a stack: reads never change it *)
Fixpoint shape (r : rd) : list nat :=
  match r with
  | Net _ => [0]
  | L4 _ i => 1 :: shape i
  | Bufio _ _ i => 2 :: shape i
  | TeeW i _ => 3 :: shape i
  | Thr _ i => 4 :: shape i
  | Xf _ _ _ _ i => 5 :: shape i
  end.

Lemma read_shape : forall r n orc d e r' o', read r n orc = ((d, e), r', o') -> shape r' = shape r.
Proof.
  induction r as [p | c i IH | held sz i IH | i IH sink | burst i IH | emit hist out xsz i IH];
    intros n orc d e r' o' H; cbn [read] in H.
  - destruct (net_read p n orc) as [[[d0 e0] p0] o0]. inv H. reflexivity.
  - destruct (matching c && ((length (buf c) =? 0) || (length (buf c) =? offset c)))%bool. { inv H. reflexivity. }
    destruct ((0 <? length (buf c)) && (offset c <? length (buf c)))%bool.
    { destruct (negb (matching c) && (offset c + length (firstn n (skipn (offset c) (buf c))) =? length (buf c)))%bool;
        inv H; reflexivity. }
    destruct (read i n orc) as [[[d0 e0] i0] o0] eqn:E. inv H. cbn. f_equal. eapply IH; eauto.
  - destruct (n =? 0). { inv H. reflexivity. }
    destruct held.
    + destruct (sz <=? n).
      * destruct (read i n orc) as [[[d0 e0] i0] o0] eqn:E. inv H. cbn. f_equal. eapply IH; eauto.
      * destruct (read i sz orc) as [[[d0 e0] i0] o0] eqn:E. destruct d0; inv H; cbn; f_equal; eapply IH; eauto.
    + inv H. reflexivity.
  - destruct (read i n orc) as [[[d0 e0] i0] o0] eqn:E. inv H. cbn. f_equal. eapply IH; eauto.
  - destruct (read i (Nat.min n burst) orc) as [[[d0 e0] i0] o0] eqn:E. inv H. cbn. f_equal. eapply IH; eauto.
  - destruct out.
    + destruct (read i xsz orc) as [[[d0 e0] i0] o0] eqn:E. destruct d0; inv H; cbn; f_equal; eapply IH; eauto.
    + inv H. reflexivity.
Qed.

Lemma skipn_app_exact {A} (a b : list A) : skipn (length a) (a ++ b) = b.
Proof. induction a; cbn; auto. Qed.

(* ---------------------------------------------------------------- proxy_protocol *)
Lemma bufio_fill_ok held sz inner orc r' o' :
  notm inner -> wfr inner ->
  bufio_fill (Bufio held sz inner) orc = (r', o') ->
  stream_of r' = stream_of (Bufio held sz inner) /\ notm r' /\ wfr r' /\ shape r' = shape (Bufio held sz inner).
Proof.
  intros Hm Hw H. cbn [bufio_fill] in H.
  destruct (length held <? sz).
  - destruct (read inner (sz - length held) orc) as [[[d e] i1] o1] eqn:E. inv H.
    destruct (read_stream _ _ _ _ _ _ _ Hm Hw E) as (Hs & Hm1 & Hw1 & _).
    cbn [stream_of notm wfr shape]. rewrite Hs, app_assoc. repeat split; auto.
    f_equal. eapply read_shape; eauto.
  - inv H. auto.
Qed.

Lemma run_bops_ok : forall prog b orc hdr b' o',
  (exists held sz inner, b = Bufio held sz inner) -> notm b -> wfr b ->
  run_bops prog b orc = (hdr, b', o') ->
  stream_of b = hdr ++ stream_of b' /\ notm b' /\ wfr b' /\ shape b' = shape b.
Proof.
  induction prog as [|op prog IH]; intros b orc hdr b' o' Hb Hm Hw H; cbn [run_bops] in H.
  - inv H. auto.
  - destruct op as [|n].
    + destruct Hb as (held & sz & inner & ->).
      destruct (bufio_fill (Bufio held sz inner) orc) as [r1 o1] eqn:E.
      destruct (bufio_fill_ok held sz inner orc r1 o1 Hm Hw E) as (Hs & Hm1 & Hw1 & Hsh).
      assert (Hb1 : exists h s i, r1 = Bufio h s i).
      { destruct r1; cbn in Hsh; try discriminate. eauto. }
      destruct (IH _ _ _ _ _ Hb1 Hm1 Hw1 H) as (Hs2 & Hm2 & Hw2 & Hsh2).
      rewrite <- Hs, Hs2. repeat split; auto. congruence.
    + destruct (read b n orc) as [[[d e] r1] o1] eqn:E.
      destruct (run_bops prog r1 o1) as [[ds r2] o2] eqn:E2. inv H.
      destruct (read_stream _ _ _ _ _ _ _ Hm Hw E) as (Hs & Hm1 & Hw1 & _).
      pose proof (read_shape _ _ _ _ _ _ _ E) as Hsh.
      assert (Hb1 : exists h s i, r1 = Bufio h s i).
      { destruct Hb as (h & s & i & ->). destruct r1; cbn in Hsh; try discriminate. eauto. }
      destruct (IH _ _ _ _ _ Hb1 Hm1 Hw1 E2) as (Hs2 & Hm2 & Hw2 & Hsh2).
      rewrite Hs, Hs2, app_assoc. repeat split; auto. congruence.
Qed.

Lemma proxy_protocol_ok prog r orc hdr r' o' :
  ok r -> proxy_protocol prog r orc = (hdr, r', o') ->
  stream_of r = hdr ++ stream_of r' /\ ok r'.
Proof.
  intros (Ht & Hm & Hw) H. destruct r as [|c i| | | |]; try contradiction.
  unfold proxy_protocol, proxy_protocol_with in H.
  destruct (run_bops prog (Bufio [] bufio_default_size (L4 c i)) orc) as [[h b] o1] eqn:E.
  assert (Hb : exists held sz inner, Bufio [] bufio_default_size (L4 c i) = Bufio held sz inner) by eauto.
  destruct (run_bops_ok _ _ _ _ _ _ Hb Hm Hw E) as (Hs & Hm1 & Hw1 & Hsh).
  destruct b as [|? ?|held sz inner| | |]; cbn in Hsh; try discriminate.
  destruct inner as [|c1 i1| | | |]; cbn in Hsh; try discriminate.
  inv H. cbn [stream_of app] in Hs. split.
  - rewrite wrap_stream. exact Hs.
  - cbn [notm wfr] in Hm1, Hw1. okt.
Qed.

(* ---------------------------------------------------------------- tee *)
Lemma tee_next_ok r :
  ok r ->
  ok (tee_next r) /\ stream_of (tee_next r) = stream_of r /\
  tee_total (tee_next r) = Some (stream_of r) /\ plain_above_tee (tee_next r).
Proof.
  intros (Ht & Hm & Hw). destruct r as [|c i| | | |]; try contradiction.
  cbn in *. okt.
Qed.

(* whatever the handlers after the tee read, once they have read to EOF the pipe has received
   exactly the stream the main chain had at the tee, and they have read the same bytes *)
Lemma tee_branch_same_stream r ns orc ds r2 o2 :
  ok r ->
  reads (tee_next r) ns orc = (ds, EEOF, r2, o2) ->
  ds = stream_of r /\ top_sink r2 = Some (stream_of r) /\
  (forall piped, top_sink r2 = Some piped -> stream_of (tee_branch r piped) = stream_of r).
Proof.
  intros Hok H. destruct (tee_next_ok r Hok) as ((_ & Hm & Hw) & Hs & Htt & Hp).
  pose proof (reads_to_eof _ _ _ _ _ _ Hm Hw H) as Hds.
  destruct (reads_stream _ _ _ _ _ _ _ Hm Hw H) as (_ & _ & _ & He).
  destruct (reads_tee_total _ _ _ _ _ _ _ Hm Hw H) as (Ht2 & Hp2).
  assert (Hsink : top_sink r2 = Some (stream_of r)).
  { rewrite (drained_sink r2 (Hp2 Hp) (He eq_refl)). congruence. }
  repeat split; auto; try congruence.
  intros piped Hpi. rewrite Hsink in Hpi. inv Hpi.
  destruct Hok as (Ht & _). destruct r; try contradiction. reflexivity.
Qed.

(* ---------------------------------------------------------------- throttle *)
Lemma throttle_ok b r : ok r -> ok (throttle b r) /\ stream_of (throttle b r) = stream_of r.
Proof.
  intros (Ht & Hm & Hw). destruct r; try contradiction. cbn in *. okt.
Qed.

(* ---------------------------------------------------------------- routing rounds / subroute *)
Lemma run_rounds_ok : forall rs r orc r' o',
  ok r -> run_rounds rs r orc = (r', o') -> stream_of r' = stream_of r /\ ok r'.
Proof.
  induction rs as [|rd0 rs IH]; intros r orc r' o' Hok H; cbn [run_rounds] in H.
  - inv H. auto.
  - destruct Hok as (Ht & Hm & Hw). destruct r as [|c i| | | |]; try contradiction.
    cbn [notm wfr] in Hm, Hw. destruct Hm as [Hmc Hmi]. destruct Hw as [Hwc Hwi].
    destruct rd0 as [nc|ss].
    + destruct (prefetch (L4 c i) nc orc) as [[e r1] o1] eqn:E.
      destruct (prefetch_preserves_stream _ _ _ _ _ _ _ Hmi Hwi Hwc E) as (Hs & Hw1 & Hm1).
      destruct (prefetch_spec _ _ _ _ _ _ _ Hmi Hwi E) as (c' & i' & d & -> & _).
      assert (Hok1 : ok (L4 c' i')) by (unfold ok; cbn [top_l4]; auto).
      destruct (IH _ _ _ _ Hok1 H) as (Hs2 & Hok2). split; [congruence | auto].
    + destruct (run_sets_view ss c i orc Hwc) as (c' & E & Hc). rewrite E in H.
      assert (Hok1 : ok (L4 c' i)).
      { unfold ok. destruct Hc; subst c'; cbn; auto. }
      assert (Hs1 : stream_of (L4 c' i) = stream_of (L4 c i)) by (destruct Hc; subst c'; reflexivity).
      destruct (IH _ _ _ _ Hok1 H) as (Hs2 & Hok2). split; [congruence | auto].
Qed.

(* ---------------------------------------------------------------- tls *)
Lemma pulls_ok : forall k x orc x' o',
  notm x -> wfr x -> pulls k x orc = (x', o') ->
  stream_of x' = stream_of x /\ notm x' /\ wfr x' /\ shape x' = shape x.
Proof.
  induction k as [|k IH]; intros x orc x' o' Hm Hw H; cbn [pulls] in H.
  - inv H. auto.
  - destruct (read x 0 orc) as [[[d e] x1] o1] eqn:E.
    destruct (read_stream _ _ _ _ _ _ _ Hm Hw E) as (Hs & Hm1 & Hw1 & _).
    destruct (read_basic _ _ _ _ _ _ _ E) as (Hl & _).
    assert (d = []) by (destruct d; cbn in Hl; [reflexivity | lia]). subst d.
    destruct (IH _ _ _ _ Hm1 Hw1 H) as (Hs2 & Hm2 & Hw2 & Hsh2).
    pose proof (read_shape _ _ _ _ _ _ _ E). cbn [app] in Hs.
    repeat split; auto; congruence.
Qed.

Lemma tls_ok emit xsz k r orc r' o' :
  ok r -> tls_terminate emit xsz k r orc = (r', o') ->
  stream_of r' = xf_run emit [] (stream_of r) /\ ok r'.
Proof.
  intros (Ht & Hm & Hw) H. destruct r as [|c i| | | |]; try contradiction.
  unfold tls_terminate in H.
  destruct (pulls k (Xf emit [] [] xsz (L4 c i)) orc) as [x o1] eqn:E.
  destruct (pulls_ok k (Xf emit [] [] xsz (L4 c i)) orc x o1 Hm Hw E) as (Hs & Hm1 & Hw1 & Hsh).
  destruct x as [| | | | |em hist out xs inner]; cbn in Hsh; try discriminate.
  destruct inner as [|c1 i1| | | |]; cbn in Hsh; try discriminate.
  inv H. split.
  - rewrite wrap_stream, Hs. reflexivity.
  - cbn [notm wfr] in Hm1, Hw1. okt.
Qed.

(* ---------------------------------------------------------------- chains *)
Lemma handler_ok h r orc c r' o' :
  ok r -> apply_handler h r orc = (c, r', o') ->
  stream_of r' = expected_after h c (stream_of r) /\ ok r'.
Proof.
  intros Hok H. destruct h as [prog| |b|rs|emit xsz k|ns]; cbn [apply_handler expected_after] in *.
  - destruct (proxy_protocol_ok _ _ _ _ _ _ Hok H) as (Hs & Hok'). rewrite Hs, skipn_app_exact. auto.
  - inv H. destruct (tee_next_ok r Hok) as (Hok' & Hs & _). cbn [length skipn]. auto.
  - inv H. destruct (throttle_ok b r Hok) as (Hok' & Hs). cbn [length skipn]. auto.
  - destruct (run_rounds rs r orc) as [r1 o1] eqn:E. inv H.
    destruct (run_rounds_ok _ _ _ _ _ Hok E) as (Hs & Hok'). cbn [length skipn]. auto.
  - destruct (tls_terminate emit xsz k r orc) as [r1 o1] eqn:E. inv H.
    apply (tls_ok _ _ _ _ _ _ _ Hok E).
  - destruct (reads r ns orc) as [[[ds e] r1] o1] eqn:E. inv H.
    destruct Hok as (Ht & Hm & Hw).
    destruct (reads_stream _ _ _ _ _ _ _ Hm Hw E) as (Hs & Hm1 & Hw1 & _).
    rewrite Hs, skipn_app_exact. split; [reflexivity|].
    unfold ok. repeat split; auto.
    (* reads keep the top Connection *)
    clear -Ht E. revert r orc c e r' o' Ht E.
    induction ns as [|n ns IH]; intros r orc c e r' o' Ht E; cbn [reads] in E.
    + inv E. auto.
    + destruct (read r n orc) as [[[d e1] r1] o1] eqn:E1.
      assert (Ht1 : top_l4 r1).
      { pose proof (read_shape _ _ _ _ _ _ _ E1) as Hsh. destruct r; try contradiction.
        destruct r1; cbn in Hsh; try discriminate. exact I. }
      destruct e1; try (inv E; auto; fail).
      destruct (reads r1 ns o1) as [[[ds2 e2] r2] o2] eqn:E2. inv E. eapply IH; eauto.
Qed.

Lemma chain_ok : forall hs r orc cs r' o',
  ok r -> run_chain hs r orc = (cs, r', o') ->
  stream_of r' = expected_chain hs cs (stream_of r) /\ ok r'.
Proof.
  induction hs as [|h hs IH]; intros r orc cs r' o' Hok H; cbn [run_chain] in H.
  - inv H. auto.
  - destruct (apply_handler h r orc) as [[c r1] o1] eqn:E.
    destruct (run_chain hs r1 o1) as [[cs2 r2] o2] eqn:E2. inv H.
    destruct (handler_ok _ _ _ _ _ _ Hok E) as (Hs & Hok1).
    destruct (IH _ _ _ _ _ Hok1 E2) as (Hs2 & Hok2).
    cbn [expected_chain]. rewrite <- Hs. auto.
Qed.

(* the property: a handler behind any chain of the modelled wrappers, reading to EOF with any
   buffer sizes under any segmentation, reads exactly the expected rest of the client's stream *)
Lemma chain_delivers_suffix hs r orc cs r1 o1 ns ds r2 o2 :
  ok r ->
  run_chain hs r orc = (cs, r1, o1) ->
  reads r1 ns o1 = (ds, EEOF, r2, o2) ->
  ds = expected_chain hs cs (stream_of r).
Proof.
  intros Hok Hc Hr. destruct (chain_ok _ _ _ _ _ _ Hok Hc) as (Hs & (_ & Hm & Hw)).
  rewrite <- Hs. eapply reads_to_eof; eauto.
Qed.

(* and whatever it reads before EOF is a prefix of it *)
Lemma chain_delivers_prefix hs r orc cs r1 o1 ns ds e r2 o2 :
  ok r ->
  run_chain hs r orc = (cs, r1, o1) ->
  reads r1 ns o1 = (ds, e, r2, o2) ->
  exists rest, expected_chain hs cs (stream_of r) = ds ++ rest.
Proof.
  intros Hok Hc Hr. destruct (chain_ok _ _ _ _ _ _ Hok Hc) as (Hs & (_ & Hm & Hw)).
  destruct (reads_stream _ _ _ _ _ _ _ Hm Hw Hr) as (Hs2 & _).
  exists (stream_of r2). congruence.
Qed.

Lemma initial_ok S b cap0 : ok (wrap_connection (Net S) b cap0).
Proof. unfold ok. cbn. repeat split; auto. lia. Qed.

(* ---------------------------------------------------------------- the constructions before the repairs *)
Definition zeros (n : nat) : list byte := repeat x00 n.

(* Wrap copying buf/offset: 5000 prefetched bytes behind proxy_protocol (bufio of 4096 bytes) *)
Lemma proxy_protocol_old_refuted :
  exists r prog orc, ok r /\
    let '(hdr, r', _) := proxy_protocol_old prog r orc in
    stream_of r <> hdr ++ stream_of r' /\
    Z.of_nat (length (stream_of r')) = 5903%Z /\ Z.of_nat (length (stream_of r) - length hdr) = 4999%Z.
Proof.
  exists (L4 (mkC (zeros (Z.to_nat 5000)) (Z.to_nat 5000) 0 0 false) (Net [])), [BRead 1], [].
  split.
  - unfold ok. cbn [top_l4 notm wfr matching offset buf]. repeat split; auto. lia.
  - vm_compute. split; [|split; reflexivity].
    intros C. apply (f_equal (@length _)) in C. revert C. vm_compute. discriminate.
Qed.

(* the tee's struct copies: one buffered byte is delivered twice *)
Lemma tee_old_refuted :
  exists r, ok r /\ stream_of (tee_next_old r) <> stream_of r /\
    (forall piped, stream_of (tee_branch_old r piped) <> piped).
Proof.
  exists (L4 (mkC ["a"%byte] 1 0 0 false) (Net [])). split.
  - unfold ok. cbn. repeat split; auto.
  - split.
    + vm_compute. discriminate.
    + intros piped. cbn. intros C. apply (f_equal (@length _)) in C. cbn in C. lia.
Qed.

(* ---------------------------------------------------------------- tee followed by more routing *)
Lemma run_rounds_tee : forall rs r orc r' o',
  ok r -> run_rounds rs r orc = (r', o') ->
  tee_total r' = tee_total r /\ (plain_above_tee r -> plain_above_tee r').
Proof.
  induction rs as [|rd0 rs IH]; intros r orc r' o' Hok H; cbn [run_rounds] in H.
  - inv H. auto.
  - destruct (run_rounds_ok [rd0] r orc) with (r' := fst (run_rounds [rd0] r orc)) (o' := snd (run_rounds [rd0] r orc))
      as (_ & Hok1); [exact Hok | now destruct (run_rounds [rd0] r orc) |].
    destruct Hok as (Ht & Hm & Hw). destruct r as [|c i| | | |]; try contradiction.
    cbn [notm wfr] in Hm, Hw. destruct Hm as [Hmc Hmi]. destruct Hw as [Hwc Hwi].
    destruct rd0 as [nc|ss]; cbn [run_rounds fst snd] in Hok1.
    + destruct (prefetch (L4 c i) nc orc) as [[e r1] o1] eqn:E. cbn [fst] in Hok1.
      destruct (prefetch_tee_total _ _ _ _ _ _ _ Hmi Hwi E) as (Ht1 & Hp1).
      destruct (IH _ _ _ _ Hok1 H) as (Ht2 & Hp2). split; [congruence | auto].
    + destruct (run_sets_view ss c i orc Hwc) as (c' & E & Hc). rewrite E in H, Hok1. cbn [fst] in Hok1.
      destruct (IH _ _ _ _ Hok1 H) as (Ht2 & Hp2). cbn [tee_total plain_above_tee] in *. auto.
Qed.

(* tee, then any matching rounds of later routes / a subroute on the adopted connection, then a
   handler reading to EOF: the pipe has received exactly the stream at the tee *)
Lemma tee_then_rounds_same_stream r rs orc r1 o1 ns ds r2 o2 :
  ok r ->
  run_rounds rs (tee_next r) orc = (r1, o1) ->
  reads r1 ns o1 = (ds, EEOF, r2, o2) ->
  ds = stream_of r /\ top_sink r2 = Some (stream_of r).
Proof.
  intros Hok Hr H. destruct (tee_next_ok r Hok) as (Hok0 & Hs & Htt & Hp).
  destruct (run_rounds_ok _ _ _ _ _ Hok0 Hr) as (Hs1 & (_ & Hm & Hw)).
  destruct (run_rounds_tee _ _ _ _ _ Hok0 Hr) as (Ht1 & Hp1).
  pose proof (reads_to_eof _ _ _ _ _ _ Hm Hw H) as Hds.
  destruct (reads_stream _ _ _ _ _ _ _ Hm Hw H) as (_ & _ & _ & He).
  destruct (reads_tee_total _ _ _ _ _ _ _ Hm Hw H) as (Ht2 & Hp2).
  split; [congruence|].
  rewrite (drained_sink r2 (Hp2 (Hp1 Hp)) (He eq_refl)). congruence.
Qed.
