(* Lemmas about model/Pool.v: under a discipline that never returns an array to the pool while a
   live Connection still refers to it (good_disc), every array has one owner (the pool or exactly
   one live Connection), so the bytes a Connection reads are the bytes its own prefetches stored:
   exactly what it reads when it is alone. *)
From Coq Require Import List Arith Bool Lia ZArith.
From Coq.Strings Require Import Byte.
From L4.gen Require Import Consts Shape.
From L4.model Require Import Pool.
Import ListNotations.
Local Open Scope nat_scope.

(* ---------- lists ---------- *)

Lemma remove_nth_spec : forall (l : list nat) i b, nth_error l i = Some b ->
  exists l1 l2, l = l1 ++ b :: l2 /\ remove_nth i l = l1 ++ l2.
Proof.
  intros l i b H. destruct (nth_error_split l i H) as [l1 [l2 [E L]]].
  exists l1, l2. split; [assumption|]. unfold remove_nth. subst l. subst i.
  rewrite firstn_app, Nat.sub_diag, firstn_all. cbn [firstn]. rewrite app_nil_r.
  replace (S (length l1)) with (length l1 + 1) by lia.
  rewrite skipn_app. rewrite skipn_all2 by lia. cbn [app].
  replace (length l1 + 1 - length l1) with 1 by lia. reflexivity.
Qed.

Lemma pool_get_spec : forall k fr nx b fr' nx',
  NoDup fr -> (forall x, In x fr -> x < nx) -> pool_get k fr nx = (b, fr', nx') ->
  NoDup fr' /\ (forall x, In x fr' -> x < nx') /\ b < nx' /\ ~ In b fr' /\ nx <= nx' /\
  (forall x, In x fr' -> In x fr) /\ (In b fr \/ b = nx).
Proof.
  intros k fr nx b fr' nx' Hnd Hlt H. unfold pool_get in H. unfold bid in *.
  assert (forall b0 fr0 nx0, (nx, fr, S nx) = (b0, fr0, nx0) ->
    NoDup fr0 /\ (forall x, In x fr0 -> x < nx0) /\ b0 < nx0 /\ ~ In b0 fr0 /\ nx <= nx0 /\
    (forall x, In x fr0 -> In x fr) /\ (In b0 fr \/ b0 = nx)) as Hfresh.
  { intros b0 fr0 nx0 E. inversion E; subst. repeat split; auto.
    - intros x Hx. specialize (Hlt x Hx). lia.
    - intros Hin. specialize (Hlt _ Hin). lia. }
  destruct k as [i|]; [|apply Hfresh; assumption].
  destruct (nth_error fr i) as [b0|] eqn:E; [|apply Hfresh; assumption].
  inversion H; subst. destruct (remove_nth_spec _ _ _ E) as [l1 [l2 [E1 E2]]].
  rewrite E2. rewrite E1 in Hnd. pose proof (NoDup_remove _ _ _ Hnd) as [Hnd' Hnin].
  repeat split; auto.
  - intros x Hx. apply Hlt. rewrite E1. apply in_app_or in Hx. apply in_or_app. destruct Hx; [left|right; right]; assumption.
  - apply Hlt. rewrite E1. apply in_or_app. right. now left.
  - intros x Hx. rewrite E1. apply in_app_or in Hx. apply in_or_app. destruct Hx; [left|right; right]; assumption.
  - left. rewrite E1. apply in_or_app. right. now left.
Qed.

Lemma write_at_firstn : forall pos (data old own : list byte),
  firstn pos old = own -> length own = pos ->
  firstn (pos + length data) (write_at pos data old) = own ++ data.
Proof.
  intros pos data old own H L. unfold write_at. rewrite H.
  rewrite app_assoc. rewrite firstn_app.
  replace (pos + length data - length (own ++ data)) with 0 by (rewrite app_length; lia).
  cbn [firstn]. rewrite app_nil_r. apply firstn_all2. rewrite app_length. lia.
Qed.

Lemma write_at_zero_firstn : forall (data old : list byte), firstn (length data) (write_at 0 data old) = data.
Proof.
  intros. unfold write_at. cbn [firstn app]. rewrite firstn_app, Nat.sub_diag. cbn [firstn].
  rewrite app_nil_r. apply firstn_all.
Qed.

Lemma updc_same : forall f c v, updc f c v c = Some v.
Proof. intros. unfold updc. now rewrite Nat.eqb_refl. Qed.
Lemma updc_other : forall f c v x, x <> c -> updc f c v x = f x.
Proof. intros f c v x H. unfold updc. destruct (Nat.eqb_spec x c); [contradiction|reflexivity]. Qed.
Lemma updh_same : forall f c v, updh f c v c = v.
Proof. intros. unfold updh. now rewrite Nat.eqb_refl. Qed.
Lemma updh_other : forall f c v x, x <> c -> updh f c v x = f x.
Proof. intros f c v x H. unfold updh. destruct (Nat.eqb_spec x c); [contradiction|reflexivity]. Qed.

(* ---------- the ownership invariant ---------- *)

Record pinv (s : pstate) : Prop := mkPinv {
  p_nodup : NoDup (free s);
  p_free_lt : forall b, In b (free s) -> b < next s;
  p_refs : forall c st, cs s c = Some st -> live st = true ->
             forall b, In b (refs st) -> b < next s /\ ~ In b (free s);
  p_sep : forall c c' st st', c <> c' -> cs s c = Some st -> cs s c' = Some st' ->
             live st = true -> live st' = true -> forall b, In b (refs st) -> ~ In b (refs st');
  p_content : forall c st, cs s c = Some st -> live st = true ->
             firstn (vlen st) (heap s (vid st)) = own st /\ length (own st) = vlen st /\ voff st <= vlen st;
  p_got : forall c st, cs s c = Some st -> got st = exp st
}.

Lemma pinv_init : pinv pinit.
Proof. constructor; cbn; try discriminate; try contradiction. constructor. Qed.

Lemma pinv_update : forall s c st' heap' free' next',
  pinv s ->
  NoDup free' ->
  (forall b, In b free' -> b < next') ->
  next s <= next' ->
  (forall c0 st0, c0 <> c -> cs s c0 = Some st0 -> live st0 = true ->
       (forall b, In b (refs st0) -> ~ In b free') /\ heap' (vid st0) = heap s (vid st0)) ->
  (live st' = true ->
       (forall b, In b (refs st') -> b < next' /\ ~ In b free' /\
            forall c0 st0, c0 <> c -> cs s c0 = Some st0 -> live st0 = true -> ~ In b (refs st0)) /\
       firstn (vlen st') (heap' (vid st')) = own st' /\ length (own st') = vlen st' /\ voff st' <= vlen st') ->
  got st' = exp st' ->
  pinv (mkP heap' free' next' (updc (cs s) c st')).
Proof.
  intros s c st' heap' free' next' I Hnd Hlt Hnx Hoth Hnew Hgot.
  constructor; cbn [heap free next cs].
  - assumption.
  - assumption.
  - intros c0 st0 Hc Hl b Hb. destruct (Nat.eq_dec c0 c) as [->|Hne].
    + rewrite updc_same in Hc. inversion Hc; subst st0. destruct (Hnew Hl) as [H1 _].
      destruct (H1 b Hb) as [A [B _]]. split; assumption.
    + rewrite updc_other in Hc by assumption. split.
      * destruct (p_refs _ I c0 st0 Hc Hl b Hb). lia.
      * apply (proj1 (Hoth c0 st0 Hne Hc Hl)). assumption.
  - intros c1 c2 st1 st2 Hne H1 H2 L1 L2 b Hb1 Hb2.
    destruct (Nat.eq_dec c1 c) as [->|N1]; destruct (Nat.eq_dec c2 c) as [->|N2].
    + congruence.
    + rewrite updc_same in H1. inversion H1; subst st1. rewrite updc_other in H2 by assumption.
      destruct (Hnew L1) as [X _]. destruct (X b Hb1) as [_ [_ Y]]. exact (Y c2 st2 N2 H2 L2 Hb2).
    + rewrite updc_same in H2. inversion H2; subst st2. rewrite updc_other in H1 by assumption.
      destruct (Hnew L2) as [X _]. destruct (X b Hb2) as [_ [_ Y]]. exact (Y c1 st1 N1 H1 L1 Hb1).
    + rewrite updc_other in H1, H2 by assumption. exact (p_sep _ I c1 c2 st1 st2 Hne H1 H2 L1 L2 b Hb1 Hb2).
  - intros c0 st0 Hc Hl. destruct (Nat.eq_dec c0 c) as [->|Hne].
    + rewrite updc_same in Hc. inversion Hc; subst st0. exact (proj2 (Hnew Hl)).
    + rewrite updc_other in Hc by assumption. rewrite (proj2 (Hoth c0 st0 Hne Hc Hl)).
      exact (p_content _ I c0 st0 Hc Hl).
  - intros c0 st0 Hc. destruct (Nat.eq_dec c0 c) as [->|Hne].
    + rewrite updc_same in Hc. inversion Hc; subst st0. assumption.
    + rewrite updc_other in Hc by assumption. exact (p_got _ I c0 st0 Hc).
Qed.

(* a Connection whose arrays are a subset of what it held, with nothing else changed *)
Lemma pinv_shrink : forall s c st st',
  pinv s -> cs s c = Some st -> live st = true ->
  (forall b, In b (refs st') -> In b (refs st)) ->
  (live st' = true -> firstn (vlen st') (heap s (vid st')) = own st' /\ length (own st') = vlen st' /\ voff st' <= vlen st') ->
  got st' = exp st' ->
  pinv (mkP (heap s) (free s) (next s) (updc (cs s) c st')).
Proof.
  intros s c st st' I Hc Hl Hsub Hcont Hgot.
  apply pinv_update; try assumption.
  - apply (p_nodup _ I).
  - apply (p_free_lt _ I).
  - lia.
  - intros c0 st0 Hne H0 L0. split; [|reflexivity]. intros b Hb. apply (p_refs _ I c0 st0 H0 L0 b Hb).
  - intros L'. split; [|apply Hcont; assumption].
    intros b Hb. specialize (Hsub b Hb). destruct (p_refs _ I c st Hc Hl b Hsub) as [A B].
    repeat split; try assumption.
    intros c0 st0 Hne H0 L0. apply (p_sep _ I c c0 st st0); auto.
Qed.

Lemma window_own : forall s c st, pinv s -> cs s c = Some st -> live st = true ->
  window s st = skipn (voff st) (own st).
Proof. intros s c st I Hc Hl. unfold window. now rewrite (proj1 (p_content _ I c st Hc Hl)). Qed.

Lemma live_negb : forall st, negb (live st) = false -> live st = true.
Proof. intros st H. destruct (live st); [reflexivity|discriminate]. Qed.

Lemma step_pinv : forall d s e, good_disc d -> pinv s -> pinv (step d s e).
Proof.
  intros d s e [G1 [G2 [G3 G4]]] I. destruct e; cbn [step].
  - (* PGet *)
    destruct (cs s c) eqn:Hc; [assumption|].
    destruct (pool_get k (free s) (next s)) as [[b fr] nx] eqn:Hg.
    destruct (pool_get_spec _ _ _ _ _ _ (p_nodup _ I) (p_free_lt _ I) Hg) as [A1 [A2 [A3 [A4 [A5 [A6 A7]]]]]].
    rewrite G2. apply pinv_update; auto.
    + intros c0 st0 Hne H0 L0. split; [|reflexivity]. intros x Hx Hin.
      destruct (p_refs _ I c0 st0 H0 L0 x Hx) as [_ N]. apply N. apply A6. assumption.
    + intros _. cbn [refs vid orig vlen own voff]. split; [|repeat split; auto].
      intros x Hx. unfold refs in Hx; cbn in Hx. assert (x = b) as -> by (destruct Hx as [E|[E|[]]]; congruence).
      repeat split; auto. intros c0 st0 Hne H0 L0 Hin.
      destruct (p_refs _ I c0 st0 H0 L0 b Hin) as [Hlt Hnf]. destruct A7 as [A7|A7]; [contradiction|lia].
  - (* PPrefetch *)
    destruct (cs s c) as [st|] eqn:Hc; [|assumption].
    destruct (negb (live st)) eqn:Hl; [assumption|]. apply live_negb in Hl.
    destruct (Nat.leb maxb (vlen st)); [assumption|].
    destruct (p_content _ I c st Hc Hl) as [C1 [C2 C3]].
    set (dat := firstn chunk data).
    destruct (Nat.leb chunk (vcap st - vlen st)).
    + (* in place *)
      apply pinv_update; try apply I; try lia.
      * intros c0 st0 Hne H0 L0. split; [intros b Hb; apply (p_refs _ I c0 st0 H0 L0 b Hb)|].
        apply updh_other. intro E. apply (p_sep _ I c c0 st st0 (not_eq_sym Hne) Hc H0 Hl L0 (vid st)); [now left|rewrite <- E; now left].
      * intros _. unfold set_view, refs; cbn [vid orig vlen own voff]; fold (refs st). split.
        -- intros b Hb. destruct (p_refs _ I c st Hc Hl b Hb) as [A B]. repeat split; auto.
           intros c0 st0 Hne H0 L0. apply (p_sep _ I c c0 st st0); auto.
        -- rewrite updh_same. split; [apply write_at_firstn; assumption|]. rewrite app_length. split; lia.
      * cbn. apply (p_got _ I c st Hc).
    + (* through a temporary array *)
      destruct (pool_get k (free s) (next s)) as [[t fr] nx] eqn:Hg.
      destruct (pool_get_spec _ _ _ _ _ _ (p_nodup _ I) (p_free_lt _ I) Hg) as [A1 [A2 [A3 [A4 [A5 [A6 A7]]]]]].
      assert (forall c0 st0, cs s c0 = Some st0 -> live st0 = true -> forall b, In b (refs st0) -> b <> t /\ ~ In b fr /\ b < next s) as Hfar.
      { intros c0 st0 H0 L0 b Hb. destruct (p_refs _ I c0 st0 H0 L0 b Hb) as [Hlt Hnf].
        repeat split; auto. intro E; subst b. destruct A7 as [A7|A7]; [contradiction|lia]. }
      assert (vid st <> t) as Hvt by (apply (Hfar c st Hc Hl); now left).
      set (h1 := updh (heap s) t (write_at 0 dat (heap s t))).
      assert (firstn (length dat) (h1 t) = dat) as Ht.
      { unfold h1. rewrite updh_same. apply write_at_zero_firstn. }
      assert (h1 (vid st) = heap s (vid st)) as Hv by (unfold h1; apply updh_other; assumption).
      rewrite G4. cbn [andb].
      destruct (Nat.leb (vlen st + length dat) (vcap st)).
      * (* append in place *)
        apply pinv_update; try apply I; auto.
        -- constructor; assumption.
        -- intros b [<-|Hb]; auto.
        -- intros c0 st0 Hne H0 L0. split.
           ++ intros b Hb [E|Hin]; destruct (Hfar c0 st0 H0 L0 b Hb) as [X [Y _]]; [congruence|contradiction].
           ++ rewrite updh_other.
              ** unfold h1. apply updh_other. apply (Hfar c0 st0 H0 L0). now left.
              ** intro E. apply (p_sep _ I c c0 st st0 (not_eq_sym Hne) Hc H0 Hl L0 (vid st)); [now left|rewrite <- E; now left].
        -- intros _. unfold set_view, refs; cbn [vid orig vlen own voff]; fold (refs st). split.
           ++ intros b Hb. destruct (Hfar c st Hc Hl b Hb) as [X [Y Z]]. repeat split; try lia.
              ** intros [E|Hin]; [congruence|contradiction].
              ** intros c0 st0 Hne H0 L0. apply (p_sep _ I c c0 st st0); auto.
           ++ rewrite updh_same, Ht, Hv. split; [apply write_at_firstn; assumption|]. rewrite app_length. split; lia.
        -- cbn. apply (p_got _ I c st Hc).
      * (* append reallocates *)
        apply pinv_update; try apply I; auto.
        -- constructor; assumption.
        -- intros b [<-|Hb]; [lia|]. specialize (A2 b Hb). lia.
        -- intros c0 st0 Hne H0 L0. split.
           ++ intros b Hb [E|Hin]; destruct (Hfar c0 st0 H0 L0 b Hb) as [X [Y _]]; [congruence|contradiction].
           ++ destruct (Hfar c0 st0 H0 L0 (vid st0) (or_introl eq_refl)) as [X [_ Z]].
              rewrite updh_other by lia. unfold h1. apply updh_other. assumption.
        -- intros _. unfold set_view, refs; cbn [vid orig vlen own voff]; fold (refs st). split.
           ++ intros b [<-|Hb].
              ** repeat split; try lia.
                 --- intros [E|Hin]; [lia|]. specialize (A2 _ Hin). lia.
                 --- intros c0 st0 Hne H0 L0 Hin. destruct (Hfar c0 st0 H0 L0 _ Hin) as [_ [_ Z]]. lia.
              ** assert (In b (refs st)) as Hb' by (unfold refs; right; assumption).
                 destruct (Hfar c st Hc Hl b Hb') as [X [Y Z]]. repeat split; try lia.
                 --- intros [E|Hin]; [congruence|contradiction].
                 --- intros c0 st0 Hne H0 L0. apply (p_sep _ I c c0 st st0); auto.
           ++ rewrite updh_same, Ht, Hv, C1. rewrite app_length.
              split; [apply firstn_all2; rewrite app_length; lia|split; lia].
        -- cbn. apply (p_got _ I c st Hc).
  - (* PPeek *)
    destruct (cs s c) as [st|] eqn:Hc; [|assumption].
    destruct (negb (live st)) eqn:Hl; [assumption|]. apply live_negb in Hl.
    apply (pinv_shrink s c st); auto;
      try (intros _; exact (p_content _ I c st Hc Hl));
      try (cbn; rewrite (window_own s c st I Hc Hl), (p_got _ I c st Hc); reflexivity).
  - (* PRead *)
    destruct (cs s c) as [st|] eqn:Hc; [|assumption].
    destruct (negb (live st)) eqn:Hl; [assumption|]. apply live_negb in Hl.
    destruct (p_content _ I c st Hc Hl) as [C1 [C2 C3]].
    destruct (Nat.eqb (voff st + Nat.min n (vlen st - voff st)) (vlen st));
      (apply (pinv_shrink s c st); auto;
       try (intros _; cbn; repeat split; auto; lia);
       try (cbn; rewrite (window_own s c st I Hc Hl), (p_got _ I c st Hc); reflexivity)).
  - (* PReturn *)
    destruct (cs s c) as [st|] eqn:Hc; [|assumption].
    destruct (ph st) eqn:Hp; try assumption.
    assert (live st = true) as Hl by (unfold live; now rewrite Hp).
    rewrite G1, G2. rewrite orb_false_r, andb_true_r.
    destruct hij; cbn [negb].
    + (* lives on: nothing goes back to the pool *)
      assert ((match orig st with Some b => free s | None => free s end) = free s) as -> by (destruct (orig st); reflexivity).
      apply (pinv_shrink s c st); auto.
      * intros b Hb. cbn in Hb. destruct Hb as [<-|[]]. now left.
      * intros _. exact (p_content _ I c st Hc Hl).
      * cbn. apply (p_got _ I c st Hc).
    + (* finished: its array goes back *)
      destruct (orig st) as [b|] eqn:Ho.
      * assert (In b (refs st)) as Hb by (unfold refs; rewrite Ho; right; now left).
        destruct (p_refs _ I c st Hc Hl b Hb) as [B1 B2].
        apply pinv_update; auto; try apply I.
        -- constructor; [assumption|apply (p_nodup _ I)].
        -- intros x [<-|Hx]; [assumption|apply (p_free_lt _ I); assumption].
        -- intros c0 st0 Hne H0 L0. split; [|reflexivity]. intros x Hx [E|Hin].
           ++ subst x. apply (p_sep _ I c c0 st st0 (not_eq_sym Hne) Hc H0 Hl L0 b Hb Hx).
           ++ apply (p_refs _ I c0 st0 H0 L0 x Hx). assumption.
        -- cbn. discriminate.
        -- cbn. apply (p_got _ I c st Hc).
      * apply pinv_update; auto; try apply I.
        -- intros c0 st0 Hne H0 L0. split; [|reflexivity]. intros x Hx. apply (p_refs _ I c0 st0 H0 L0 x Hx).
        -- cbn. discriminate.
        -- cbn. apply (p_got _ I c st Hc).
  - (* PFork *)
    destruct (cs s c) eqn:Hc; [assumption|]. rewrite G3.
    apply pinv_update; auto; try apply I.
    + intros b Hb. pose proof (p_free_lt _ I b Hb). lia.
    + intros c0 st0 Hne H0 L0. split; [intros b Hb; apply (p_refs _ I c0 st0 H0 L0 b Hb)|].
      apply updh_other. destruct (p_refs _ I c0 st0 H0 L0 (vid st0) (or_introl eq_refl)). lia.
    + intros _. cbn. split; [|repeat split; auto].
      intros b [<-|[]]. repeat split; [lia| |].
      * intro Hin. pose proof (p_free_lt _ I _ Hin). lia.
      * intros c0 st0 Hne H0 L0 Hin. destruct (p_refs _ I c0 st0 H0 L0 _ Hin). lia.
  - (* PEnd *)
    destruct (cs s c) as [st|] eqn:Hc; [|assumption].
    destruct (ph st) eqn:Hp; try assumption.
    assert (live st = true) as Hl by (unfold live; now rewrite Hp).
    apply (pinv_shrink s c st); auto.
    + cbn. discriminate.
    + cbn. apply (p_got _ I c st Hc).
Qed.

Lemma prun_pinv : forall d es s, good_disc d -> pinv s -> pinv (prun d s es).
Proof.
  intros d es. induction es as [|e es IH]; intros s G I; cbn; [assumption|].
  apply IH; [assumption|]. apply step_pinv; assumption.
Qed.

(* ---------- locality: what a Connection's reads must return depends on its own events only ---------- *)

Definition loc_of (o : option cstate) :=
  match o with
  | Some st => Some (vlen st, vcap st, voff st, ph st, own st, exp st)
  | None => None
  end.

Lemma step_other : forall d s e c, subject e <> c -> cs (step d s e) c = cs s c.
Proof.
  intros d s e c H. destruct e; cbn [step subject] in *;
    repeat match goal with
    | |- context [match ?x with _ => _ end] => destruct x
    end; cbn [cs]; try reflexivity; apply updc_other; congruence.
Qed.

Lemma step_same : forall d s1 s2 e c, fork_alias d = false -> subject e = c ->
  loc_of (cs s1 c) = loc_of (cs s2 c) -> loc_of (cs (step d s1 e) c) = loc_of (cs (step d s2 e) c).
Proof.
  intros d s1 s2 e c Hf Hs H. destruct e; cbn [subject] in Hs; subst c0 || subst c; cbn [step].
  - (* PGet *)
    destruct (cs s1 c) as [a|] eqn:E1; destruct (cs s2 c) as [b|] eqn:E2; try discriminate; cbv iota; [rewrite E1, E2; assumption|].
    destruct (pool_get k (free s1) (next s1)) as [[b1 f1] n1].
    destruct (pool_get k (free s2) (next s2)) as [[b2 f2] n2].
    cbn [cs]. rewrite !updc_same. reflexivity.
  - (* PPrefetch *)
    destruct (cs s1 c) as [a|] eqn:E1; destruct (cs s2 c) as [b|] eqn:E2; try discriminate; [|rewrite E1, E2; reflexivity].
    cbn [loc_of] in H. inversion H as [[V1 V2 V3 V4 V5 V6]].
    assert (live a = live b) as Hl by (unfold live; now rewrite V4). rewrite Hl, V1, V2.
    destruct (negb (live b)); [rewrite E1, E2; assumption|].
    destruct (Nat.leb maxb (vlen b)); [rewrite E1, E2; assumption|].
    destruct (Nat.leb chunk (vcap b - vlen b)).
    + cbn [cs]. rewrite !updc_same. cbn. rewrite V3, V4, V5, V6. reflexivity.
    + destruct (pool_get k (free s1) (next s1)) as [[b1 f1] n1].
      destruct (pool_get k (free s2) (next s2)) as [[b2 f2] n2].
      destruct (adopt_tmp d && Nat.eqb (vlen b) 0);
        [|destruct (Nat.leb (vlen b + length (firstn chunk data)) (vcap b))]; cbn [cs]; rewrite !updc_same; cbn; rewrite V3, V4, V5, V6; reflexivity.
  - (* PPeek *)
    destruct (cs s1 c) as [a|] eqn:E1; destruct (cs s2 c) as [b|] eqn:E2; try discriminate; [|rewrite E1, E2; reflexivity].
    cbn [loc_of] in H. inversion H as [[V1 V2 V3 V4 V5 V6]].
    assert (live a = live b) as Hl by (unfold live; now rewrite V4). rewrite Hl.
    destruct (negb (live b)); [rewrite E1, E2; assumption|].
    cbn [cs]. rewrite !updc_same. cbn. rewrite V1, V2, V3, V4, V5, V6. reflexivity.
  - (* PRead *)
    destruct (cs s1 c) as [a|] eqn:E1; destruct (cs s2 c) as [b|] eqn:E2; try discriminate; [|rewrite E1, E2; reflexivity].
    cbn [loc_of] in H. inversion H as [[V1 V2 V3 V4 V5 V6]].
    assert (live a = live b) as Hl by (unfold live; now rewrite V4). rewrite Hl, V1, V3.
    destruct (negb (live b)); [rewrite E1, E2; assumption|].
    destruct (Nat.eqb (voff b + Nat.min n (vlen b - voff b)) (vlen b)); cbn [cs]; rewrite !updc_same; cbn; rewrite V2, V4, V5, V6; reflexivity.
  - (* PReturn *)
    destruct (cs s1 c) as [a|] eqn:E1; destruct (cs s2 c) as [b|] eqn:E2; try discriminate; [|rewrite E1, E2; reflexivity].
    cbn [loc_of] in H. inversion H as [[V1 V2 V3 V4 V5 V6]]. rewrite V4.
    destruct (ph b) eqn:Ep; try (rewrite E1, E2; cbn [loc_of]; congruence).
    cbn [cs]. rewrite !updc_same. cbn. rewrite V1, V2, V3, V5, V6. reflexivity.
  - (* PFork *)
    destruct (cs s1 c) as [a|] eqn:E1; destruct (cs s2 c) as [b|] eqn:E2; try discriminate; cbv iota; [rewrite E1, E2; assumption|].
    rewrite Hf. cbn [cs]. rewrite !updc_same. reflexivity.
  - (* PEnd *)
    destruct (cs s1 c) as [a|] eqn:E1; destruct (cs s2 c) as [b|] eqn:E2; try discriminate; [|rewrite E1, E2; reflexivity].
    cbn [loc_of] in H. inversion H as [[V1 V2 V3 V4 V5 V6]]. rewrite V4.
    destruct (ph b) eqn:Ep; try (rewrite E1, E2; cbn [loc_of]; congruence).
    cbn [cs]. rewrite !updc_same. cbn. rewrite V1, V2, V3, V5, V6. reflexivity.
Qed.

Lemma alone_local : forall d c es s1 s2, fork_alias d = false ->
  loc_of (cs s1 c) = loc_of (cs s2 c) ->
  loc_of (cs (prun d s1 es) c) = loc_of (cs (prun d s2 (alone c es)) c).
Proof.
  intros d c es. induction es as [|e es IH]; intros s1 s2 Hf H; cbn [prun alone filter fold_left]; [assumption|].
  destruct (Nat.eqb_spec (subject e) c) as [E|E].
  - cbn [fold_left]. apply IH; [assumption|]. apply step_same; assumption.
  - apply IH; [assumption|]. rewrite step_other by assumption. assumption.
Qed.

Lemma alone_good : forall d c es, good_disc d -> pinv (prun d pinit (alone c es)).
Proof. intros. apply prun_pinv; [assumption|apply pinv_init]. Qed.

(* the bytes a connection reads in any interleaving are the bytes it reads alone *)
Lemma noninterference : forall d, good_disc d -> forall es c,
  got_of (prun d pinit es) c = got_of (prun d pinit (alone c es)) c.
Proof.
  intros d G es c. pose proof (prun_pinv d es pinit G pinv_init) as I1.
  pose proof (alone_good d c es G) as I2.
  pose proof (alone_local d c es pinit pinit (proj1 (proj2 (proj2 G))) eq_refl) as L.
  unfold got_of.
  destruct (cs (prun d pinit es) c) as [a|] eqn:E1; destruct (cs (prun d pinit (alone c es)) c) as [b|] eqn:E2;
    cbn [loc_of] in L; try discriminate; [|reflexivity].
  rewrite (p_got _ I1 c a E1), (p_got _ I2 c b E2). inversion L; reflexivity.
Qed.

(* in every reachable state no array of the pool is referenced by a live Connection, and no two
   live Connections share an array *)
Lemma no_free_referenced : forall d, good_disc d -> forall es c st b,
  cs (prun d pinit es) c = Some st -> live st = true -> In b (refs st) -> ~ In b (free (prun d pinit es)).
Proof.
  intros d G es c st b Hc Hl Hb. pose proof (prun_pinv d es pinit G pinv_init) as I.
  exact (proj2 (p_refs _ I c st Hc Hl b Hb)).
Qed.

Lemma no_sharing : forall d, good_disc d -> forall es c c' st st' b,
  c <> c' -> cs (prun d pinit es) c = Some st -> cs (prun d pinit es) c' = Some st' ->
  live st = true -> live st' = true -> In b (refs st) -> ~ In b (refs st').
Proof.
  intros d G es c c' st st' b Hne H1 H2 L1 L2 Hb. pose proof (prun_pinv d es pinit G pinv_init) as I.
  exact (p_sep _ I c c' st st' Hne H1 H2 L1 L2 b Hb).
Qed.

(* ---------- today's life cycles (facts from gen/Shape.v) ---------- *)

Lemma server_disc_good : good_disc server_disc.
Proof. repeat split; vm_compute; reflexivity. Qed.
Lemma listener_disc_good : good_disc listener_disc.
Proof. repeat split; vm_compute; reflexivity. Qed.
Lemma tee_disc_good : good_disc tee_disc.
Proof. repeat split; vm_compute; reflexivity. Qed.

Lemma consts_ok : 0 < chunk /\ chunk <= maxb.
Proof. vm_compute. split; [apply Nat.leb_le|apply Nat.leb_le]; reflexivity. Qed.

Lemma noninterference_server : forall es c,
  got_of (prun server_disc pinit es) c = got_of (prun server_disc pinit (alone c es)) c.
Proof. exact (noninterference server_disc server_disc_good). Qed.
Lemma noninterference_listener : forall es c,
  got_of (prun listener_disc pinit es) c = got_of (prun listener_disc pinit (alone c es)) c.
Proof. exact (noninterference listener_disc listener_disc_good). Qed.
Lemma noninterference_tee : forall es c,
  got_of (prun tee_disc pinit es) c = got_of (prun tee_disc pinit (alone c es)) c.
Proof. exact (noninterference tee_disc tee_disc_good). Qed.

Lemma verdicts_independent : forall d, good_disc d -> forall (A : Type) (f : list byte -> A) es c,
  f (got_of (prun d pinit es) c) = f (got_of (prun d pinit (alone c es)) c).
Proof. intros d G A f es c. f_equal. apply noninterference; assumption. Qed.

Lemma no_free_referenced_server : forall es c st b,
  cs (prun server_disc pinit es) c = Some st -> live st = true -> In b (refs st) ->
  ~ In b (free (prun server_disc pinit es)).
Proof. exact (no_free_referenced server_disc server_disc_good). Qed.
Lemma no_free_referenced_listener : forall es c st b,
  cs (prun listener_disc pinit es) c = Some st -> live st = true -> In b (refs st) ->
  ~ In b (free (prun listener_disc pinit es)).
Proof. exact (no_free_referenced listener_disc listener_disc_good). Qed.
Lemma no_sharing_server : forall es c c' st st' b,
  c <> c' -> cs (prun server_disc pinit es) c = Some st -> cs (prun server_disc pinit es) c' = Some st' ->
  live st = true -> live st' = true -> In b (refs st) -> ~ In b (refs st').
Proof. exact (no_sharing server_disc server_disc_good). Qed.

(* the schedule without the events of connection c *)
Definition without (c : cid) (es : list pevent) : list pevent :=
  filter (fun e => negb (Nat.eqb (subject e) c)) es.
