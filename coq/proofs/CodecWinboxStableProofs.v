(* Proofs about MatchWinbox.Match, part 4: a No is final for streams of any number of chunks (C06). *)
From Coq Require Import List NArith ZArith Bool Arith Lia.
From Coq.Strings Require Import Byte.
From L4.gen Require Import Consts.
From L4.model Require Import GoBase CodecBase CodecWinbox.
From L4.proofs Require Import GoBaseProofs CodecBaseProofs CodecWinboxProofs CodecWinboxCodecProofs.
Import ListNotations.
Local Open Scope nat_scope.

(* what FromBytes = Ok means: a good chunk list that re-serialises to the input and whose bodies parse *)
Lemma auth_from_bytes_inv b m : auth_from_bytes b = Ok m ->
  exists cs, good true cs /\ chunks_to_bytes cs = b /\ auth_of_payload (flat_map ch_bytes cs) = Ok m.
Proof.
  unfold auth_from_bytes. destruct (Nat.ltb_spec (length b) wb_auth_min) as [Hs|Hs]; [discriminate|].
  assert (Hne : b <> []) by (intro E; subst; cbn in Hs; change wb_auth_min with 37 in Hs; lia).
  destruct (chunks_from (length b) true b) as [cs| |] eqn:Ec; try discriminate.
  destruct (chunks_from_good (length b) true b cs Hne (le_n _) Ec) as [Hg Hw].
  unfold auth_from_chunks. rewrite (good_types true cs Hg). cbn [negb]. rewrite (good_payload true cs Hg).
  intro Hp. exists cs. repeat split; assumption.
Qed.

Lemma auth_from_bytes_not_ok_err b : (forall m, auth_from_bytes b <> Ok m) -> auth_from_bytes b = Err.
Proof.
  intro H. pose proof (auth_from_bytes_no_panic b) as Hp. destruct (auth_from_bytes b) as [m| |]; [exfalso; exact (H m eq_refl)|reflexivity|congruence].
Qed.

Lemma ctb_cons c cs : chunks_to_bytes (c :: cs) = (nb (ch_len c) :: ch_type c :: ch_bytes c) ++ chunks_to_bytes cs.
Proof. reflexivity. Qed.
Lemma ctb_length_cons c cs : length (chunks_to_bytes (c :: cs)) = 2 + length (ch_bytes c) + length (chunks_to_bytes cs).
Proof. rewrite ctb_cons, app_length. cbn [length]. lia. Qed.
Lemma ctb_length_nil : length (chunks_to_bytes []) = 0.
Proof. reflexivity. Qed.

(* a parsed message of more than one stride and at most two: the second chunk header carries the exact length *)
Lemma good_two_chunk_length cs b l2 : good true cs -> chunks_to_bytes cs = b -> wb_stride < length b <= 2 * wb_stride ->
  nth_error b wb_stride = Some l2 -> length b = wb_stride + 2 + N.to_nat (bN l2).
Proof.
  intros Hg Hb Hl Hn. change wb_stride with 257 in *.
  destruct cs as [|c1 cs1]; [cbn in Hg; contradiction|]. cbn [good] in Hg. destruct Hg as (_ & Hl1 & Hrest).
  destruct cs1 as [|c2 cs2].
  - exfalso. subst b. rewrite ctb_length_cons, ctb_length_nil in Hl. change wb_chunk_max with 255 in Hrest. lia.
  - destruct Hrest as [Hb1 Hg2]. change wb_chunk_max with 255 in Hb1. cbn [good] in Hg2. destruct Hg2 as (_ & Hl2 & Hrest2).
    assert (Hb2 : length (ch_bytes c2) <= 255) by (destruct cs2; change wb_chunk_max with 255 in *; lia).
    subst b. rewrite ctb_cons in Hn. rewrite nth_error_app2 in Hn by (cbn [length]; lia).
    cbn [length] in Hn. rewrite Hb1 in Hn. change (2 + 255 - 257) with 0 in Hn. replace (257 - S (S 255)) with 0 in Hn by lia.
    rewrite ctb_cons in Hn. cbn [app nth_error] in Hn. inversion Hn; subst l2; clear Hn.
    rewrite Hl2, bN_nb by lia. rewrite Nat2N.id.
    rewrite !ctb_length_cons in *. destruct cs2 as [|c3 cs3].
    + rewrite ctb_length_nil. lia.
    + exfalso. destruct Hrest2 as [Hb2' _]. change wb_chunk_max with 255 in Hb2'. rewrite ctb_length_cons in Hl. lia.
Qed.

Lemma from_bytes_two_chunk_length b m l2 : auth_from_bytes b = Ok m -> wb_stride < length b <= 2 * wb_stride ->
  nth_error b wb_stride = Some l2 -> length b = wb_stride + 2 + N.to_nat (bN l2).
Proof.
  intros H Hl Hn. destruct (auth_from_bytes_inv b m H) as (cs & Hg & Hb & _). exact (good_two_chunk_length cs b l2 Hg Hb Hl Hn).
Qed.

(* two parses whose bodies are d1 and d1 ++ d2: the user name ends at the same delimiter, so the key
   lengths differ by |d2| *)
Lemma auth_of_payload_prefix_free d1 d2 m1 m2 : auth_of_payload d1 = Ok m1 -> auth_of_payload (d1 ++ d2) = Ok m2 -> d2 = [].
Proof.
  intros H1 H2. apply auth_of_payload_spec in H1. apply auth_of_payload_spec in H2.
  destruct H1 as [E1 W1]. destruct H2 as [E2 W2].
  pose proof (wf_user_nz m1 W1) as N1. pose proof (wf_user_nz m2 W2) as N2.
  destruct W1 as (_ & K1 & _ & _). destruct W2 as (_ & K2 & _ & _).
  unfold auth_payload in *. cbn [app] in *.
  assert (I1 : index_byte (d1 ++ d2) wb_delim = Some (length (ma_user m1))).
  { rewrite E1. rewrite <- app_assoc. cbn [app]. apply index_byte_app. exact N1. }
  assert (I2 : index_byte (d1 ++ d2) wb_delim = Some (length (ma_user m2))).
  { rewrite E2. apply index_byte_app. exact N2. }
  rewrite I1 in I2. inversion I2 as [Hu].
  apply (f_equal (@length byte)) in E1. apply (f_equal (@length byte)) in E2.
  rewrite !app_length in *. cbn [length] in *. rewrite !app_length in *. cbn [length] in *.
  destruct d2; [reflexivity|cbn [length] in *; lia].
Qed.

(* if the first stride alone is a complete message, nothing longer parses *)
Lemma first_stride_excludes_longer b m1 : wb_stride < length b -> auth_from_bytes (firstn wb_stride b) = Ok m1 ->
  forall m, auth_from_bytes b <> Ok m.
Proof.
  intros Hl H1 m H. change wb_stride with 257 in *.
  destruct (auth_from_bytes_inv _ _ H1) as (cs1 & Hg1 & Hb1 & Hp1).
  destruct (auth_from_bytes_inv _ _ H) as (cs & Hg & Hb & Hp).
  assert (L1 : length (firstn 257 b) = 257) by (rewrite firstn_length; lia).
  (* the short one is a single chunk of 255 bytes *)
  destruct cs1 as [|c1 cs1']; [cbn in Hg1; contradiction|]. cbn [good] in Hg1. destruct Hg1 as (_ & Hl1 & Hr1).
  destruct cs1' as [|c1' cs1''].
  2:{ exfalso. destruct Hr1 as [Hb255 Hg']. rewrite <- Hb1 in L1. rewrite !ctb_length_cons in L1. change wb_chunk_max with 255 in Hb255. lia. }
  cbn [chunks_to_bytes flat_map] in Hb1. rewrite app_nil_r in Hb1. cbn [flat_map] in Hp1. rewrite app_nil_r in Hp1.
  (* the long one has a full first chunk and more *)
  destruct cs as [|c cs']; [cbn in Hg; contradiction|]. cbn [good] in Hg. destruct Hg as (_ & Hl0 & Hr).
  destruct cs' as [|c2 cs2].
  { exfalso. rewrite <- Hb in Hl. rewrite ctb_length_cons, ctb_length_nil in Hl. change wb_chunk_max with 255 in Hr. lia. }
  destruct Hr as [Hb255 Hg2]. change wb_chunk_max with 255 in Hb255.
  cbn [chunks_to_bytes flat_map] in Hb. fold (chunks_to_bytes (c2 :: cs2)) in Hb.
  cbn [flat_map] in Hp. fold (flat_map ch_bytes (c2 :: cs2)) in Hp.
  assert (Ebody : ch_bytes c1 = ch_bytes c).
  { rewrite <- Hb in Hb1. rewrite firstn_app_le in Hb1 by (cbn [length]; lia).
    rewrite firstn_all2 in Hb1 by (cbn [length]; lia). inversion Hb1. reflexivity. }
  rewrite Ebody in Hp1.
  pose proof (auth_of_payload_prefix_free (ch_bytes c) (flat_map ch_bytes (c2 :: cs2)) _ _ Hp1 Hp) as Hnil.
  pose proof (good_count false (c2 :: cs2) Hg2) as Hc. rewrite Hnil in Hc. cbn [length] in Hc. lia.
Qed.

(* ---- the matcher on a stream whose first chunk is full ---- *)
Definition wb_tail (c : wb_cfg) (hdr got : list byte) : verdict :=
  match auth_from_bytes (hdr ++ got) with
  | RPanic => Panic
  | Ok m => wb_filters c m
  | Err =>
      if length got =? wb_chunk_max then More
      else match index got wb_chunk_max with
           | None => Panic
           | Some l2 =>
               if (length got <? wb_stride + N.to_nat (bN l2)) && (wb_stride + N.to_nat (bN l2) <=? wb_auth_max - 2) &&
                  match auth_from_bytes (firstn wb_stride (hdr ++ got)) with Ok _ => false | _ => true end
               then More else No
           end
  end.

Lemma wb_match_full_first c hdr r1 : length hdr = 2 -> N.to_nat (bN (nth 0 hdr x00)) = wb_chunk_max ->
  wb_match c (hdr ++ r1) =
    if negb (Byte.eqb (nth 1 hdr x00) wb_type_auth) then No
    else match read_at_least (wb_auth_max - 2 + 1) wb_chunk_max r1 with
         | None => More
         | Some (got, _) => if wb_auth_max - 2 <? length got then No else wb_tail c hdr got
         end.
Proof.
  intros Lh Hh. unfold wb_match. rewrite read_full_exact by exact Lh. cbv beta iota zeta.
  match goal with |- context [N.to_nat (bN (@nth ?A 0 hdr ?d))] => replace (N.to_nat (bN (@nth A 0 hdr d))) with wb_chunk_max by (symmetry; exact Hh) end.
  change (wb_chunk_max <? wb_auth_min - 2) with false. cbn [orb]. rewrite Nat.eqb_refl. reflexivity.
Qed.

Lemma wb_tail_stable c hdr r1 s : length hdr = 2 -> wb_chunk_max <= length r1 -> s <> [] -> length r1 + length s <= wb_auth_max - 2 ->
  wb_tail c hdr r1 = No -> wb_tail c hdr (r1 ++ s) = No.
Proof.
  intros Lh Hr Hs Hls. change wb_chunk_max with 255 in *. change wb_auth_max with 293 in *.
  assert (Ls : 1 <= length s) by (destruct s; [contradiction|cbn; lia]).
  set (P := hdr ++ r1). set (P' := hdr ++ r1 ++ s).
  assert (LP : length P = 2 + length r1) by (unfold P; rewrite app_length; lia).
  assert (LP' : length P' = 2 + length r1 + length s) by (unfold P'; rewrite !app_length; lia).
  assert (Efirst : length r1 >= 255 -> firstn wb_stride P' = firstn wb_stride P).
  { intros _. unfold P', P. rewrite app_assoc. apply firstn_app_le. rewrite app_length. change wb_stride with 257. lia. }
  unfold wb_tail. fold P. fold P'. rewrite app_length. change wb_chunk_max with 255. change wb_auth_max with 293.
  destruct (Nat.eqb_spec (length r1 + length s) 255) as [E|_]; [lia|].
  assert (Hi' : forall l2, index r1 255 = Some l2 -> index (r1 ++ s) 255 = Some l2).
  { intros l2 H. unfold index in *. rewrite nth_error_app1; [exact H|]. apply nth_error_Some. congruence. }
  destruct (Nat.eqb_spec (length r1) 255) as [E255|E255].
  - (* exactly the first stride has arrived: a No means it is a complete message that fails a filter *)
    destruct (auth_from_bytes P) as [m| |] eqn:EP; [|discriminate|discriminate]. intro Hf.
    assert (EP1 : auth_from_bytes (firstn wb_stride P') = Ok m).
    { rewrite Efirst by lia. rewrite firstn_all2 by (change wb_stride with 257; lia). exact EP. }
    rewrite (auth_from_bytes_not_ok_err P') by (apply (first_stride_excludes_longer P' m); [change wb_stride with 257; lia|exact EP1]).
    destruct (index_ok (r1 ++ s) 255) as [l2 El2]; [rewrite app_length; lia|]. rewrite El2.
    rewrite EP1. rewrite andb_false_r. reflexivity.
  - destruct (index_ok r1 255) as [l2 El2]; [lia|]. rewrite (Hi' l2 El2).
    assert (N257 : nth_error P wb_stride = Some l2 /\ nth_error P' wb_stride = Some l2).
    { unfold P, P'. change wb_stride with 257. split.
      - rewrite nth_error_app2 by lia. rewrite Lh. exact El2.
      - rewrite nth_error_app2 by lia. rewrite Lh. exact (Hi' l2 El2). }
    destruct N257 as [NP NP'].
    set (need := wb_stride + N.to_nat (bN l2)).
    (* P' parses only if its length is exactly what the second chunk header announces *)
    assert (HP' : length r1 + length s <> need -> auth_from_bytes P' = Err).
    { intro Hne. apply auth_from_bytes_not_ok_err. intros m Hm.
      pose proof (from_bytes_two_chunk_length P' m l2 Hm) as Hlen. change wb_stride with 257 in *. unfold need in Hne.
      specialize (Hlen ltac:(lia) NP'). lia. }
    destruct (auth_from_bytes P) as [m| |] eqn:EP.
    + intros _. pose proof (from_bytes_two_chunk_length P m l2 EP) as Hlen. change wb_stride with 257 in *.
      specialize (Hlen ltac:(lia) NP). rewrite HP' by (unfold need; lia).
      destruct (Nat.ltb_spec (length r1 + length s) need) as [Hlt|_]; [unfold need in Hlt; lia|]. reflexivity.
    + rewrite El2. fold need.
      destruct (Nat.ltb_spec (length r1) need) as [Hlt|Hge].
      * destruct (Nat.leb_spec need (293 - 2)) as [Hle|Hgt]; cbn [andb].
        -- (* the first stride alone is a complete message *)
           destruct (auth_from_bytes (firstn wb_stride P)) as [m1| |] eqn:E1; [|discriminate|discriminate]. intros _.
           rewrite Efirst by lia. rewrite E1, andb_false_r.
           rewrite (auth_from_bytes_not_ok_err P'); [reflexivity|].
           apply (first_stride_excludes_longer P' m1); [change wb_stride with 257; lia|rewrite Efirst by lia; exact E1].
        -- intros _. rewrite HP' by lia. destruct (Nat.leb_spec need (293 - 2)); [lia|]. rewrite andb_false_r. reflexivity.
      * intros _. rewrite HP' by lia. destruct (Nat.ltb_spec (length r1 + length s) need); [lia|]. reflexivity.
    + discriminate.
Qed.

Theorem wb_no_stable c : no_stable (wb_match c).
Proof.
  intros p s. destruct (Nat.eq_dec (wb_first_len p) wb_chunk_max) as [E0|E0]; [|apply wb_no_stable_single; exact E0].
  destruct s as [|b0 s0]; [rewrite app_nil_r; tauto|]. set (s := b0 :: s0).
  destruct (read_full 2 p) as [[hdr r1]|] eqn:E1.
  2:{ unfold wb_match. rewrite E1. discriminate. }
  apply read_full_some in E1. destruct E1 as [Ep Lh]. subst p.
  assert (Hh : N.to_nat (bN (nth 0 hdr x00)) = wb_chunk_max).
  { unfold wb_first_len in E0. destruct hdr as [|a hdr']; [cbn in Lh; lia|]. exact E0. }
  rewrite <- app_assoc. rewrite !wb_match_full_first by assumption.
  destruct (negb _); [reflexivity|].
  unfold read_at_least. rewrite app_length.
  destruct (Nat.ltb_spec (length r1) wb_chunk_max) as [Hlt|Hge]; [discriminate|].
  destruct (Nat.ltb_spec (length r1 + length s) wb_chunk_max) as [Hlt2|_]; [lia|].
  rewrite !firstn_length. change wb_auth_max with 293 in *. change wb_chunk_max with 255 in *.
  destruct (Nat.ltb_spec (293 - 2) (Nat.min (293 - 2 + 1) (length r1))) as [Hbig|Hsmall].
  - intros _. rewrite app_length. destruct (Nat.ltb_spec (293 - 2) (Nat.min (293 - 2 + 1) (length r1 + length s))); [reflexivity|lia].
  - rewrite (firstn_all2 r1) by lia. rewrite app_length.
    destruct (Nat.ltb_spec (293 - 2) (Nat.min (293 - 2 + 1) (length r1 + length s))) as [|Hsm2]; [reflexivity|].
    rewrite (firstn_all2 (r1 ++ s)) by (rewrite app_length; lia).
    apply wb_tail_stable; try assumption; [discriminate|change wb_auth_max with 293; lia].
Qed.

Theorem wb_yes_not_rejected c : yes_not_rejected_on_prefix (wb_match c).
Proof. intros w p s Hw Hy Hn. subst w. rewrite (wb_no_stable c p s Hn) in Hy. discriminate. Qed.
