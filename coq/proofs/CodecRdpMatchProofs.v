(* Proofs about MatchRDP.Match (model/CodecRdp.v): never panics, a No is final, fragments of a
   matching request are never rejected. *)
From Coq Require Import List NArith ZArith Bool Arith Lia.
From Coq.Strings Require Import Byte.
From L4.gen Require Import Consts.
From L4.model Require Import GoBase CodecBase CodecRdp.
From L4.proofs Require Import GoBaseProofs CodecBaseProofs CodecRdpCodecProofs.
Import ListNotations.
Local Open Scope nat_scope.

Lemma slice_ok s a b : a <= b -> b <= length s -> exists r, slice s a b = Some r /\ length r = b - a.
Proof.
  intros H1 H2. unfold slice. destruct (Nat.leb_spec a b); [|lia]. destruct (Nat.leb_spec b (length s)); [|lia]. cbn [andb].
  eexists. split; [reflexivity|]. rewrite firstn_length, skipn_length. lia.
Qed.

Lemma find_crlf_le s : forall i, find_crlf i s <= i + length s.
Proof.
  induction s as [|b r IH]; intro i; cbn [find_crlf length]; [lia|].
  destruct (Byte.eqb b CR).
  - destruct r as [|n r']; [lia|]. destruct (Byte.eqb n LF); [cbn [length]; lia|]. specialize (IH (S i)). lia.
  - specialize (IH (S i)). lia.
Qed.

(* ---- the header ---- *)
Lemma rdp_header_no_panic hdr : length hdr = connreq_min -> rdp_header hdr <> HPanic.
Proof.
  intro Hl. change connreq_min with 11 in Hl. unfold rdp_header.
  destruct (slice_ok hdr 0 tpkt_total) as (hb & Ehb & Lhb); [lia|change tpkt_total with 4; lia|]. rewrite Ehb.
  pose proof (tpkt_no_panic hb). destruct (tpkt_from_bytes hb) as [h| |]; [|discriminate|congruence].
  destruct (_ || _ || _ || _); [discriminate|].
  destruct (slice_ok hdr tpkt_total (tpkt_total + x224_total)) as (xb & Exb & Lxb); [lia|change (tpkt_total + x224_total) with 11; lia|]. rewrite Exb.
  pose proof (x224_no_panic xb). destruct (x224_from_bytes xb) as [x| |]; [|discriminate|congruence].
  destruct (_ || _ || _ || _ || _); [discriminate|].
  destruct (_ =? 0)%N; discriminate.
Qed.

(* payload length is below 2^16 and positive *)
Lemma rdp_header_plen hdr x plen : rdp_header hdr = HOk x plen -> 0 < plen /\ (N.of_nat plen < two16)%N.
Proof.
  unfold rdp_header. destruct (slice hdr 0 tpkt_total) as [hb|]; [|discriminate].
  destruct (tpkt_from_bytes hb) as [h| |]; try discriminate. destruct (_ || _ || _ || _); [discriminate|].
  destruct (slice hdr tpkt_total (tpkt_total + x224_total)) as [xb|]; [|discriminate].
  destruct (x224_from_bytes xb) as [xx| |]; try discriminate. destruct (_ || _ || _ || _ || _); [discriminate|].
  destruct (N.eqb_spec (sub16 (x_length xx) (N.of_nat (x224_total - 1))) 0) as [E|E]; [discriminate|].
  intro H; inversion H; subst; clear H. unfold sub16 in *. unfold two16 in *. change (N.of_nat (x224_total - 1)) with 6%N in *.
  pose proof (N.mod_lt (x_length x + 65536 - 6) 65536 ltac:(lia)) as Hm.
  set (v := ((x_length x + 65536 - 6) mod 65536)%N) in *. lia.
Qed.

(* ---- the has-valid blocks ---- *)
Lemma cookie_valid_total c h payload start : start <= length payload -> exists b, cookie_valid c h payload start = Ok b.
Proof.
  intro Hs. unfold cookie_valid. destruct (Nat.ltb_spec start (zn l4rdp_RDPCookieBytesMin)) as [H1|H1]; [eexists; reflexivity|].
  change (zn l4rdp_RDPCookieBytesMin) with 20 in H1.
  destruct (slice_ok payload 0 start) as (ck & Eck & Lck); [lia|lia|]. rewrite Eck.
  destruct (_ || _); [eexists; reflexivity|]. change (length cookie_prefix) with 17.
  destruct (slice_ok ck 17 (17 + (start - 17 - 2))) as (hs & Ehs & _); [lia|lia|]. rewrite Ehs.
  destruct (_ && _); [eexists; reflexivity|]. destruct (negb _); eexists; reflexivity.
Qed.

Lemma custom_valid_total c h payload start : start <= length payload -> exists b, custom_valid c h payload start = Ok b.
Proof.
  intro Hs. unfold custom_valid. destruct (Nat.ltb_spec start (zn l4rdp_RDPCustomBytesMin)) as [H1|H1]; [eexists; reflexivity|].
  destruct (slice_ok payload 0 start) as (cu & Ecu & Lcu); [lia|lia|]. rewrite Ecu.
  destruct (_ <? _); [eexists; reflexivity|].
  destruct (slice_ok cu 0 (start - 2)) as (info & Ei & _); [lia|lia|]. rewrite Ei.
  destruct (_ && _); [eexists; reflexivity|]. destruct (negb _); eexists; reflexivity.
Qed.

Lemma token_optional_length b t : token_from_bytes b = Ok t -> length (tk_optional t) = length b - token_min /\ token_min <= length b /\ (tk_length t < two16)%N.
Proof.
  intro H. assert (Hge : token_min <= length b).
  { destruct (Nat.le_gt_cases token_min (length b)) as [|Hlt]; [assumption|]. rewrite token_rejects_wrong_length in H by exact Hlt. discriminate. }
  destruct (token_accepts_length b Hge) as (t' & Ht' & Hl). rewrite H in Ht'. inversion Ht'; subst t'.
  split; [exact Hl|]. split; [exact Hge|].
  unfold token_from_bytes in H. do 8 rf H. inversion H; subst; clear H. cbn [tk_length]. bounds.
Qed.

Lemma token_valid_total c x payload start : start <= length payload -> exists b, token_valid c x payload start = Ok b.
Proof.
  intro Hs. unfold token_valid. destruct (Nat.ltb_spec start token_min) as [H1|H1]; [eexists; reflexivity|].
  destruct (slice_ok payload 0 start) as (tb & Etb & Ltb); [lia|lia|]. rewrite Etb.
  pose proof (token_no_panic tb) as Hnp. destruct (token_from_bytes tb) as [t| |] eqn:Et; [|eexists; reflexivity|congruence].
  destruct (token_optional_length tb t Et) as (Lopt & _ & Hlt).
  destruct (negb (tk_version t =? _)%N || _ || negb (tk_length t =? N.of_nat start)%N || _ || _ || _ || _ || _) eqn:Echk; [eexists; reflexivity|].
  assert (Hlen : tk_length t = N.of_nat start).
  { repeat (apply orb_false_iff in Echk; destruct Echk as [Echk ?]).
    match goal with H : negb (tk_length t =? N.of_nat start)%N = false |- _ => apply negb_false_iff, N.eqb_eq in H; exact H end. }
  destruct (sub16 (tk_length t) (N.of_nat token_min) =? 0)%N; [eexists; reflexivity|].
  set (l := sub16 (tk_length t) (N.of_nat token_min)).
  assert (Hl : l = N.of_nat (start - token_min)).
  { unfold l, sub16. rewrite Hlen. unfold two16 in *. rewrite Hlen in Hlt.
    replace (N.of_nat start + 65536 - N.of_nat token_min)%N with (N.of_nat (start - token_min) + 1 * 65536)%N by lia.
    rewrite N.mod_add by lia. apply N.mod_small. lia. }
  destruct (N.ltb_spec (sub16 l 2) (Z.to_N l4rdp_RDPTokenOptionalCookieBytesMin)) as [H2|H2]; [eexists; reflexivity|].
  destruct (N.ltb_spec (Z.to_N l4rdp_RDPTokenOptionalCookieBytesMax) (sub16 l 2)) as [H3|H3]; [eexists; reflexivity|]. cbn [orb].
  change (Z.to_N l4rdp_RDPTokenOptionalCookieBytesMin) with 23%N in H2. change (Z.to_N l4rdp_RDPTokenOptionalCookieBytesMax) with 36%N in H3.
  assert (Hc : (sub16 l 2 = l - 2)%N /\ (2 <= l)%N).
  { unfold sub16 in *. unfold two16 in *. rewrite Hlen in Hlt.
    destruct (N.le_gt_cases 2 l) as [Hge|Hlt2].
    - split; [|exact Hge]. replace (l + 65536 - 2)%N with (l - 2 + 1 * 65536)%N by lia. rewrite N.mod_add by lia. apply N.mod_small. lia.
    - exfalso. assert (l = 0 \/ l = 1)%N as [E|E] by lia; rewrite E in *; vm_compute in H3; apply H3; reflexivity. }
  destruct Hc as [Hc Hge2]. rewrite Hc in *.
  destruct (slice_ok (tk_optional t) 0 (N.to_nat (l - 2))) as (ck & Eck & Lck); [lia|rewrite Lopt, Ltb; lia|]. rewrite Eck.
  destruct (negb (has_prefix ck token_prefix)); [eexists; reflexivity|]. change (length token_prefix) with 13.
  destruct (slice_ok ck 13 (length ck)) as (rest & Er & _); [lia|lia|]. rewrite Er.
  destruct (split_on _ rest) as [|s1 [|s2 [|s3 [|]]]]; try (eexists; reflexivity).
  destruct (negb (bytes_eqb s3 _)); [eexists; reflexivity|].
  destruct (parse_uint s1 two32); [|eexists; reflexivity]. destruct (parse_uint s2 two16); [|eexists; reflexivity].
  match goal with |- context [if negb ?e then Ok false else _] => destruct (negb e); [eexists; reflexivity|] end.
  match goal with |- context [if negb ?e then Ok false else _] => destruct (negb e); eexists; reflexivity end.
Qed.

Lemma corr_ok_total i : corr_wf i -> exists b, corr_ok i = Ok b.
Proof.
  intros (_ & _ & _ & H4 & _). unfold corr_ok. destruct (ci_identity i) as [|id0 r]; [cbn in H4; lia|]. cbn [index nth_error]. eexists; reflexivity.
Qed.

Lemma rdp_decide_no_panic c x payload : rdp_decide c x payload <> Panic.
Proof.
  unfold rdp_decide. set (start := find_crlf 0 payload).
  assert (Hs : start <= length payload) by (pose proof (find_crlf_le payload 0); unfold start; lia).
  destruct (cookie_valid_total c (firstn (zn l4rdp_RDPCookieHashBytesMax) (rc_hash c)) payload start Hs) as [hc Ehc]. rewrite Ehc.
  destruct (_ && _); [discriminate|].
  assert (Et : exists ht, (if hc then Ok false else token_valid c x payload start) = Ok ht).
  { destruct hc; [eexists; reflexivity|apply token_valid_total; exact Hs]. }
  destruct Et as [ht Eht]. rewrite Eht. destruct (_ && _); [discriminate|].
  assert (Ec : exists hu, (if hc || ht then Ok false else custom_valid c (firstn (zn l4rdp_RDPCustomInfoBytesMax) (rc_info c)) payload start) = Ok hu).
  { destruct (hc || ht); [eexists; reflexivity|apply custom_valid_total; exact Hs]. }
  destruct Ec as [hu Ehu]. rewrite Ehu. destruct (_ && _); [discriminate|].
  destruct (_ && _ && _ && _); [discriminate|].
  destruct (start =? length payload); [discriminate|].
  destruct (Nat.ltb_spec (length payload) (start + negreq_total)) as [H1|H1]; [discriminate|].
  destruct (slice_ok payload start (start + negreq_total)) as (nbs & En & Ln); [lia|lia|]. rewrite En.
  pose proof (negreq_no_panic nbs). destruct (negreq_from_bytes nbs) as [r| |]; [|discriminate|congruence].
  destruct (negb (negreq_ok r)); [discriminate|].
  destruct (_ =? 0)%N; [destruct (_ <? _); discriminate|].
  destruct (Nat.eqb_spec (length payload) (start + negreq_total + corr_total)) as [H2|H2]; cbn [negb]; [|discriminate].
  destruct (slice_ok payload (start + negreq_total) (start + negreq_total + corr_total)) as (cb & Ecb & Lcb); [lia|lia|]. rewrite Ecb.
  pose proof (corr_no_panic cb). destruct (corr_from_bytes cb) as [i| |] eqn:Ei; [|discriminate|congruence].
  destruct (corr_ok_total i (corr_from_bytes_wf cb i Ei)) as [b Eb]. rewrite Eb. destruct b; discriminate.
Qed.

Theorem rdp_match_no_panic c : never_panics (rdp_match c).
Proof.
  intro p. unfold rdp_match. destruct (read_full connreq_min p) as [[hdr r1]|] eqn:E; [|discriminate].
  apply read_full_some in E. destruct E as [_ Lh]. pose proof (rdp_header_no_panic hdr Lh).
  destruct (rdp_header hdr) as [| |x plen]; [discriminate|congruence|].
  destruct (read_full plen r1) as [[payload r2]|]; [|discriminate].
  destruct (read_full 1 r2); [discriminate|]. apply rdp_decide_no_panic.
Qed.

Lemma rdp_decide_yes_no c x payload : rdp_decide c x payload = Yes \/ rdp_decide c x payload = No.
Proof.
  pose proof (rdp_decide_no_panic c x payload) as Hnp. revert Hnp. unfold rdp_decide.
  repeat match goal with
  | |- context [match ?e with _ => _ end] => destruct e; try (intros; tauto); try (intro Hc; exfalso; apply Hc; reflexivity)
  end.
Qed.

(* ---- C06 ---- *)
Theorem rdp_no_stable c : no_stable (rdp_match c).
Proof.
  intros p s. unfold rdp_match.
  destruct (read_full connreq_min p) as [[hdr r1]|] eqn:E1; [|discriminate].
  rewrite (read_full_app _ _ s _ _ E1).
  destruct (rdp_header hdr) as [| |x plen]; [reflexivity|discriminate|].
  destruct (read_full plen r1) as [[payload r2]|] eqn:E2; [|discriminate].
  rewrite (read_full_app _ _ s _ _ E2).
  destruct (read_full 1 r2) as [[a r3]|] eqn:E3.
  - rewrite (read_full_app _ _ s _ _ E3). reflexivity.
  - intro Hd. apply read_full_none in E3. destruct r2; [|cbn in E3; lia]. cbn [app].
    destruct s as [|b s']; [cbn [read_full length Nat.ltb Nat.leb]; exact Hd|]. reflexivity.
Qed.

Lemma no_stable_yes_prefix m : no_stable m -> yes_not_rejected_on_prefix m.
Proof. intros H w p s Hw Hy Hn. subst w. rewrite (H p s Hn) in Hy. discriminate. Qed.

Theorem rdp_yes_not_rejected c : yes_not_rejected_on_prefix (rdp_match c).
Proof. apply no_stable_yes_prefix, rdp_no_stable. Qed.

(* on every proper prefix of a request that matches, the matcher asks for more data *)
Theorem rdp_prefix_more c w p s : w = p ++ s -> s <> [] -> rdp_match c w = Yes -> rdp_match c p = More.
Proof.
  intros Hw Hs. subst w. unfold rdp_match.
  destruct (read_full connreq_min p) as [[hdr r1]|] eqn:E1; [|reflexivity].
  rewrite (read_full_app _ _ s _ _ E1).
  destruct (rdp_header hdr) as [| |x plen]; [discriminate|discriminate|].
  destruct (read_full plen r1) as [[payload r2]|] eqn:E2; [|reflexivity].
  rewrite (read_full_app _ _ s _ _ E2).
  destruct (read_full 1 r2) as [[a r3]|] eqn:E3.
  - rewrite (read_full_app _ _ s _ _ E3). discriminate.
  - apply read_full_none in E3. destruct r2; [|cbn in E3; lia]. cbn [app].
    destruct s as [|b s']; [contradiction|]. discriminate.
Qed.

Lemma rdp_alloc_bounded p : (rdp_alloc p <= 16 * Z.to_N layer4_MaxMatchingBytes)%N.
Proof. vm_compute. discriminate. Qed.
