(* Lemmas about model/UdpPool.v: under the discipline of today's source (lastPacket cleared when
   drained, one packet struct per datagram) every datagram array has at most one holder at any
   time (the pool, the packets channel, the loop, one association), hence it is Put at most once
   per Get, no queued packet refers to an array of the pool, and an association reads exactly the
   bytes of the datagrams that were dispatched to it, all of which came from its own client. *)
From Coq Require Import List Arith Bool Lia ZArith.
From Coq.Strings Require Import Byte.
From L4.gen Require Import Consts Shape.
From L4.model Require Import UdpPool.
Import ListNotations.
Local Open Scope nat_scope.

Local Notation cnt := (count_occ Nat.eq_dec).

(* ---------- helpers ---------- *)

Fixpoint sumn (f : nat -> nat) (l : list nat) : nat :=
  match l with [] => 0 | x :: r => f x + sumn f r end.

Lemma sumn_ext : forall f g l, (forall x, In x l -> f x = g x) -> sumn f l = sumn g l.
Proof.
  induction l as [|x l IH]; intros H; cbn [sumn]; [reflexivity|].
  rewrite (H x (or_introl eq_refl)), IH; [reflexivity|]. intros y Hy. apply H. now right.
Qed.

Lemma sumn_app : forall f l1 l2, sumn f (l1 ++ l2) = sumn f l1 + sumn f l2.
Proof. induction l1 as [|x l IH]; intros; cbn [sumn app]; [reflexivity|]. rewrite IH. lia. Qed.

Lemma sumn_upd : forall f g a l, NoDup l -> In a l -> (forall x, x <> a -> g x = f x) ->
  sumn g l + f a = sumn f l + g a.
Proof.
  induction l as [|x l IH]; intros Hnd Hin Hg; [contradiction|].
  inversion Hnd as [|? ? Hx Hnd']; subst. cbn [sumn]. destruct Hin as [->|Hin].
  - rewrite (sumn_ext g f l); [lia|]. intros y Hy. apply Hg. intro E; subst; contradiction.
  - rewrite (Hg x) by (intro E; subst; contradiction). specialize (IH Hnd' Hin Hg). lia.
Qed.

Lemma sumn_le : forall f a l, In a l -> f a <= sumn f l.
Proof.
  induction l as [|x l IH]; intros H; [contradiction|]. cbn [sumn]. destruct H as [->|H]; [lia|].
  specialize (IH H). lia.
Qed.

Lemma sumn_zero : forall f l, (forall x, In x l -> f x = 0) -> sumn f l = 0.
Proof.
  induction l as [|x l IH]; intros H; cbn [sumn]; [reflexivity|].
  rewrite (H x (or_introl eq_refl)), IH; [reflexivity|]. intros y Hy. apply H. now right.
Qed.

Lemma seq_S_app : forall n, seq 0 (S n) = seq 0 n ++ [n].
Proof. intros. rewrite seq_S. reflexivity. Qed.

Lemma cnt_app : forall l1 l2 x, cnt (l1 ++ l2) x = cnt l1 x + cnt l2 x.
Proof. intros; apply count_occ_app. Qed.

Lemma cnt_in : forall l x, In x l -> 1 <= cnt l x.
Proof. intros l x H. apply (count_occ_In Nat.eq_dec) in H. lia. Qed.

Lemma cnt_zero_notin : forall l x, cnt l x = 0 -> ~ In x l.
Proof. intros l x H Hin. apply cnt_in in Hin. lia. Qed.

Lemma cnt_remove1 : forall l b x, cnt (remove1 b l) x + (if Nat.eq_dec b x then (if mem b l then 1 else 0) else 0) = cnt l x.
Proof.
  induction l as [|y l IH]; intros b x; cbn [remove1 count_occ mem existsb].
  - destruct (Nat.eq_dec b x); reflexivity.
  - specialize (IH b x). unfold mem in *.
    destruct (Nat.eqb_spec y b) as [->|Hne].
    + rewrite Nat.eqb_refl. cbn [orb]. destruct (Nat.eq_dec b x); lia.
    + assert (Nat.eqb b y = false) as -> by (apply Nat.eqb_neq; congruence). cbn [orb count_occ].
      destruct (Nat.eq_dec y x); destruct (Nat.eq_dec b x); try congruence; lia.
Qed.

Lemma mem_in : forall b l, mem b l = true -> In b l.
Proof.
  intros b l H. unfold mem in H. apply existsb_exists in H. destruct H as [x [Hx E]].
  apply Nat.eqb_eq in E. now subst.
Qed.

Lemma upda_same : forall f a v, upda f a v a = Some v.
Proof. intros. unfold upda. now rewrite Nat.eqb_refl. Qed.
Lemma upda_other : forall f a v x, x <> a -> upda f a v x = f x.
Proof. intros f a v x H. unfold upda. destruct (Nat.eqb_spec x a); [contradiction|reflexivity]. Qed.
Lemma updp_same : forall f a v, updp f a v a = v.
Proof. intros. unfold updp. now rewrite Nat.eqb_refl. Qed.
Lemma updp_other : forall f a v x, x <> a -> updp f a v x = f x.
Proof. intros f a v x H. unfold updp. destruct (Nat.eqb_spec x a); [contradiction|reflexivity]. Qed.
Lemma updb_same : forall f a v, updb f a v a = v.
Proof. intros. unfold updb. now rewrite Nat.eqb_refl. Qed.
Lemma updb_other : forall f a v x, x <> a -> updb f a v x = f x.
Proof. intros f a v x H. unfold updb. destruct (Nat.eqb_spec x a); [contradiction|reflexivity]. Qed.

Lemma store_firstn : forall (data old : list byte), firstn (length data) (store data old) = data.
Proof.
  intros. unfold store. rewrite firstn_app, Nat.sub_diag. cbn [firstn]. rewrite app_nil_r. apply firstn_all.
Qed.

(* ---------- accounting ---------- *)

Definition chanrefs (s : ustate) : list bid := map (fun e => fst (fst e)) (uchan s).
Definition pendrefs (s : ustate) : list bid :=
  match upend s with Some (p, _, _) => [fst (upk s p)] | None => [] end.
Definition arefs_of (pk : pid -> bid * nat) (st : assoc) : list bid :=
  match a_last st with Some (p, _) => [fst (pk p)] | None => [] end ++
  map (fun e => fst (pk (fst e))) (a_q st).
Definition acount (pk : pid -> bid * nat) (f : aid -> option assoc) (b : bid) (a : aid) : nat :=
  match f a with Some st => cnt (arefs_of pk st) b | None => 0 end.
Definition total (s : ustate) (b : bid) : nat :=
  cnt (ufree s) b + cnt (chanrefs s) b + cnt (pendrefs s) b + sumn (acount (upk s) (uas s) b) (seq 0 (unas s)).

Definition pids_ok (n : pid) (st : assoc) : Prop :=
  (forall p g, In (p, g) (a_q st) -> p < n) /\ (forall p g, a_last st = Some (p, g) -> p < n).

Definition entry_ok (s : ustate) (st : assoc) (p : pid) (g : dg) : Prop :=
  pbytes s p = g_data g /\ snd (upk s p) = length (g_data g) /\ g_from g = a_addr st.

Record uinv (s : ustate) : Prop := mkUinv {
  v_total : forall b, total s b <= 1;
  v_lt : forall b, unext s <= b -> total s b = 0;
  v_dom : forall a, unas s <= a -> uas s a = None;
  v_ppid : forall p g a, upend s = Some (p, g, a) -> p < unpk s;
  v_apid : forall a st, uas s a = Some st -> pids_ok (unpk s) st;
  v_chan : forall b n g, In (b, n, g) (uchan s) -> firstn n (uheap s b) = g_data g /\ length (g_data g) = n;
  v_pend : forall p g a, upend s = Some (p, g, a) ->
             pbytes s p = g_data g /\ snd (upk s p) = length (g_data g) /\
             exists st, uas s a = Some st /\ a_addr st = g_from g;
  v_q : forall a st p g, uas s a = Some st -> In (p, g) (a_q st) \/ a_last st = Some (p, g) -> entry_ok s st p g;
  v_last : forall a st p g, uas s a = Some st -> a_last st = Some (p, g) ->
             exists off, a_off st = Some off /\ off < snd (upk s p);
  v_got : forall a st, uas s a = Some st -> a_got st = a_exp st;
  v_cur : forall cl a, ucur s cl = Some a -> exists st, uas s a = Some st /\ a_addr st = cl
}.

Lemma uinv_init : uinv uinit.
Proof.
  constructor; cbn; try discriminate; try contradiction; try reflexivity; auto;
    try (intros b; unfold total; cbn; lia).
Qed.

Lemma arefs_eq : forall s st, arefs s st = arefs_of (upk s) st.
Proof. reflexivity. Qed.

(* packet structs below the allocation mark are untouched by an update at or above it *)
Lemma arefs_updp : forall pk n v st p, pids_ok n st -> n <= p -> arefs_of (updp pk p v) st = arefs_of pk st.
Proof.
  intros pk n v st p [Hq Hl] Hp. unfold arefs_of. f_equal.
  - destruct (a_last st) as [[q g]|] eqn:E; [|reflexivity].
    specialize (Hl q g eq_refl). rewrite updp_other by lia. reflexivity.
  - apply map_ext_in. intros [q g] Hin. cbn [fst]. specialize (Hq q g Hin). rewrite updp_other by lia. reflexivity.
Qed.

Lemma in_seq0 : forall a n, a < n -> In a (seq 0 n).
Proof. intros. apply in_seq. lia. Qed.

(* an array held by association a is counted *)
Lemma held_counted : forall s a st b, uas s a = Some st -> a < unas s -> In b (arefs_of (upk s) st) ->
  1 <= sumn (acount (upk s) (uas s) b) (seq 0 (unas s)).
Proof.
  intros s a st b Ha Hlt Hin. pose proof (sumn_le (acount (upk s) (uas s) b) a _ (in_seq0 _ _ Hlt)) as H.
  unfold acount at 1 in H. rewrite Ha in H. apply cnt_in in Hin. lia.
Qed.

Lemma dom_lt : forall s a st, uinv s -> uas s a = Some st -> a < unas s.
Proof.
  intros s a st I H. destruct (Nat.lt_ge_cases a (unas s)) as [L|G]; [assumption|].
  rewrite (v_dom _ I a G) in H. discriminate.
Qed.

Lemma entry_ref : forall s st p g, In (p, g) (a_q st) \/ a_last st = Some (p, g) -> In (fst (upk s p)) (arefs_of (upk s) st).
Proof.
  intros s st p g [H|H]; unfold arefs_of; apply in_or_app.
  - right. apply in_map_iff. exists (p, g). auto.
  - left. rewrite H. now left.
Qed.

(* an array that is in the pool, or not yet made, is referenced by nobody *)
Lemma unreferenced : forall s b, uinv s -> In b (ufree s) \/ unext s <= b ->
  (forall b' n g, In (b', n, g) (uchan s) -> b' <> b) /\
  (forall p g a, upend s = Some (p, g, a) -> fst (upk s p) <> b) /\
  (forall a st p g, uas s a = Some st -> In (p, g) (a_q st) \/ a_last st = Some (p, g) -> fst (upk s p) <> b).
Proof.
  intros s b I Hb.
  assert (cnt (chanrefs s) b = 0 /\ cnt (pendrefs s) b = 0 /\ sumn (acount (upk s) (uas s) b) (seq 0 (unas s)) = 0) as [Z1 [Z2 Z3]].
  { destruct Hb as [Hb|Hb].
    - pose proof (v_total _ I b) as T. unfold total in T. apply cnt_in in Hb. lia.
    - pose proof (v_lt _ I b Hb) as T. unfold total in T. lia. }
  repeat split.
  - intros b' n g Hin E. subst b'. apply (cnt_zero_notin _ _ Z1). unfold chanrefs. apply in_map_iff. exists (b, n, g). auto.
  - intros p g a Hp E. apply (cnt_zero_notin _ _ Z2). unfold pendrefs. rewrite Hp. left. assumption.
  - intros a st p g Ha Hin E. subst b.
    pose proof (held_counted s a st _ Ha (dom_lt _ _ _ I Ha) (entry_ref s st p g Hin)) as H. lia.
Qed.

Ltac inv_pair H := inversion H; subst; clear H.

(* ---------- preservation ---------- *)

(* association a changes its state; arrays move between it, the pool and the packet the loop holds;
   nothing else changes *)
Definition pendrefs_of (pk : pid -> bid * nat) (pe : option (pid * dg * aid)) : list bid :=
  match pe with Some (p, _, _) => [fst (pk p)] | None => [] end.

Lemma assoc_update_gen : forall s a st st' fr' pe', uinv s -> uas s a = Some st ->
  (pe' = upend s \/ pe' = None) ->
  (forall x, cnt fr' x + cnt (pendrefs_of (upk s) pe') x + cnt (arefs_of (upk s) st') x
           = cnt (ufree s) x + cnt (pendrefs s) x + cnt (arefs_of (upk s) st) x) ->
  a_addr st' = a_addr st ->
  (forall p g, In (p, g) (a_q st') \/ a_last st' = Some (p, g) ->
               In (p, g) (a_q st) \/ a_last st = Some (p, g) \/ upend s = Some (p, g, a)) ->
  (forall p g, a_last st' = Some (p, g) -> exists off, a_off st' = Some off /\ off < snd (upk s p)) ->
  a_got st' = a_exp st' ->
  uinv (mkU (uheap s) fr' (unext s) (upk s) (unpk s) (uchan s) pe' (upda (uas s) a st') (unas s) (ucur s) (ubadget s)).
Proof.
  intros s a st st' fr' pe' I Ha Hpe Hcons Haddr Hsub Hlast Hgot.
  pose proof (dom_lt _ _ _ I Ha) as Hlt.
  assert (forall x, sumn (acount (upk s) (upda (uas s) a st') x) (seq 0 (unas s)) + cnt (arefs_of (upk s) st) x
                  = sumn (acount (upk s) (uas s) x) (seq 0 (unas s)) + cnt (arefs_of (upk s) st') x) as Hsum.
  { intros x.
    pose proof (sumn_upd (acount (upk s) (uas s) x) (acount (upk s) (upda (uas s) a st') x) a (seq 0 (unas s))
                         (seq_NoDup _ _) (in_seq0 _ _ Hlt)) as H.
    assert (acount (upk s) (uas s) x a = cnt (arefs_of (upk s) st) x) as E1 by (unfold acount; rewrite Ha; reflexivity).
    assert (acount (upk s) (upda (uas s) a st') x a = cnt (arefs_of (upk s) st') x) as E2 by (unfold acount; rewrite upda_same; reflexivity).
    rewrite E1, E2 in H. apply H.
    intros y Hy. unfold acount. rewrite upda_other by assumption. reflexivity. }
  assert (forall p g y, pe' = Some (p, g, y) -> upend s = Some (p, g, y)) as Hpe2.
  { intros p g y E. destruct Hpe as [Hpe|Hpe]; congruence. }
  constructor; cbn [uheap ufree unext upk unpk uchan upend uas unas ucur].
  - intros x. pose proof (v_total _ I x) as T. unfold total in *. cbn [ufree upk uas unas].
    unfold chanrefs in *. cbn [uchan]. change (pendrefs (mkU (uheap s) fr' (unext s) (upk s) (unpk s) (uchan s) pe' (upda (uas s) a st') (unas s) (ucur s) (ubadget s))) with (pendrefs_of (upk s) pe').
    specialize (Hcons x). specialize (Hsum x). lia.
  - intros x Hx. pose proof (v_lt _ I x Hx) as T. unfold total in *. cbn [ufree upk uas unas].
    unfold chanrefs in *. cbn [uchan]. change (pendrefs (mkU (uheap s) fr' (unext s) (upk s) (unpk s) (uchan s) pe' (upda (uas s) a st') (unas s) (ucur s) (ubadget s))) with (pendrefs_of (upk s) pe').
    specialize (Hcons x). specialize (Hsum x). lia.
  - intros y Hy. rewrite upda_other by lia. apply (v_dom _ I y Hy).
  - intros p g y E. apply (v_ppid _ I p g y (Hpe2 p g y E)).
  - intros y sy Hy. destruct (Nat.eq_dec y a) as [->|Hne].
    + rewrite upda_same in Hy. inv_pair Hy. destruct (v_apid _ I a st Ha) as [P1 P2]. split.
      * intros p g Hin. destruct (Hsub p g (or_introl Hin)) as [H|[H|H]]; [apply (P1 p g H)|apply (P2 p g H)|apply (v_ppid _ I p g a H)].
      * intros p g Hl. destruct (Hsub p g (or_intror Hl)) as [H|[H|H]]; [apply (P1 p g H)|apply (P2 p g H)|apply (v_ppid _ I p g a H)].
    + rewrite upda_other in Hy by assumption. apply (v_apid _ I y sy Hy).
  - apply (v_chan _ I).
  - intros p g y E. destruct (v_pend _ I p g y (Hpe2 p g y E)) as [A [B [sy [C D]]]]. repeat split; auto.
    destruct (Nat.eq_dec y a) as [->|Hne].
    + exists st'. rewrite upda_same. split; [reflexivity|]. rewrite Ha in C. inv_pair C. congruence.
    + exists sy. rewrite upda_other by assumption. auto.
  - intros y sy p g Hy Hin. destruct (Nat.eq_dec y a) as [->|Hne].
    + rewrite upda_same in Hy. inv_pair Hy. unfold entry_ok, pbytes. cbn [uheap upk].
      destruct (Hsub p g Hin) as [H|[H|H]].
      * destruct (v_q _ I a st p g Ha (or_introl H)) as [A [B C]]. repeat split; auto. congruence.
      * destruct (v_q _ I a st p g Ha (or_intror H)) as [A [B C]]. repeat split; auto. congruence.
      * destruct (v_pend _ I p g a H) as [A [B [sz [C D]]]]. rewrite Ha in C. inv_pair C. repeat split; auto. congruence.
    + rewrite upda_other in Hy by assumption. apply (v_q _ I y sy p g Hy Hin).
  - intros y sy p g Hy Hl. destruct (Nat.eq_dec y a) as [->|Hne].
    + rewrite upda_same in Hy. inv_pair Hy. apply (Hlast p g Hl).
    + rewrite upda_other in Hy by assumption. apply (v_last _ I y sy p g Hy Hl).
  - intros y sy Hy. destruct (Nat.eq_dec y a) as [->|Hne].
    + rewrite upda_same in Hy. inv_pair Hy. assumption.
    + rewrite upda_other in Hy by assumption. apply (v_got _ I y sy Hy).
  - intros cl y Hc. destruct (v_cur _ I cl y Hc) as [sy [A B]]. destruct (Nat.eq_dec y a) as [->|Hne].
    + exists st'. rewrite upda_same. split; [reflexivity|]. rewrite Ha in A. inv_pair A. congruence.
    + exists sy. rewrite upda_other by assumption. auto.
Qed.

Lemma assoc_update : forall s a st st' fr', uinv s -> uas s a = Some st ->
  (forall x, cnt fr' x + cnt (arefs_of (upk s) st') x = cnt (ufree s) x + cnt (arefs_of (upk s) st) x) ->
  a_addr st' = a_addr st ->
  (forall p g, In (p, g) (a_q st') \/ a_last st' = Some (p, g) -> In (p, g) (a_q st) \/ a_last st = Some (p, g)) ->
  (forall p g, a_last st' = Some (p, g) -> exists off, a_off st' = Some off /\ off < snd (upk s p)) ->
  a_got st' = a_exp st' ->
  uinv (set_as_free s (upda (uas s) a st') fr').
Proof.
  intros s a st st' fr' I Ha Hcons Haddr Hsub Hlast Hgot. unfold set_as_free.
  apply (assoc_update_gen s a st st' fr' (upend s)); auto.
  - intros x. specialize (Hcons x). change (pendrefs_of (upk s) (upend s)) with (pendrefs s). lia.
  - intros p g H. destruct (Hsub p g H); auto.
Qed.

Lemma set_as_is : forall s f, set_as s f = set_as_free s f (ufree s).
Proof. reflexivity. Qed.

Lemma read_uinv : forall d s a m, good_udisc d -> uinv s -> uinv (ustep d s (URead a m)).
Proof.
  intros d s a m [G1 G2] I. cbn [ustep]. destruct (uas s a) as [st|] eqn:Ha; [|assumption]. rewrite G1.
  destruct (a_last st) as [[p g]|] eqn:El.
  - (* a partially read datagram is pending *)
    destruct (v_last _ I a st p g Ha El) as [off [Eo Hoff]]. rewrite Eo.
    destruct (v_q _ I a st p g Ha (or_intror El)) as [Q1 [Q2 Q3]].
    destruct (Nat.leb (snd (upk s p)) (off + length (firstn m (skipn off (pbytes s p))))) eqn:Ed.
    + apply (assoc_update s a st); auto; cbn [a_addr a_q a_last a_off a_got a_exp].
      * intros x. unfold arefs_of. cbn [a_last a_q]. rewrite El. cbn [app count_occ]. destruct (Nat.eq_dec (fst (upk s p)) x); lia.
      * intros q h [H|H]; [left; assumption|discriminate].
      * intros q h H; discriminate.
      * rewrite Q1, (v_got _ I a st Ha). reflexivity.
    + rewrite set_as_is. apply Nat.leb_gt in Ed.
      apply (assoc_update s a st); auto; cbn [a_addr a_q a_last a_off a_got a_exp].
      * intros x. unfold arefs_of. cbn [a_last a_q]. rewrite El. reflexivity.
      * intros q h [H|H]; [left; assumption|right; congruence].
      * intros q h H. try rewrite El in H. inv_pair H. eexists; split; [reflexivity|assumption].
      * rewrite Q1, (v_got _ I a st Ha). reflexivity.
  - destruct (a_closed st); [assumption|].
    destruct (a_q st) as [|[p g] rest] eqn:Eq; [assumption|].
    assert (In (p, g) (a_q st)) as Hin by (rewrite Eq; now left).
    destruct (v_q _ I a st p g Ha (or_introl Hin)) as [Q1 [Q2 Q3]].
    destruct (Nat.leb (snd (upk s p)) (length (firstn m (pbytes s p)))) eqn:Ed.
    + apply (assoc_update s a st); auto; cbn [a_addr a_q a_last a_off a_got a_exp].
      * intros x. unfold arefs_of. cbn [a_last a_q]. rewrite El, Eq. cbn [app map fst count_occ].
        destruct (Nat.eq_dec (fst (upk s p)) x); lia.
      * intros q h [H|H]; [left; rewrite Eq; now right|discriminate].
      * intros q h H. try rewrite El in H. discriminate.
      * rewrite Q1, (v_got _ I a st Ha). reflexivity.
    + rewrite set_as_is. apply Nat.leb_gt in Ed.
      apply (assoc_update s a st); auto; cbn [a_addr a_q a_last a_off a_got a_exp].
      * intros x. unfold arefs_of. cbn [a_last a_q]. rewrite El, Eq. cbn [app map fst count_occ]. reflexivity.
      * intros q h [H|H]; [left; rewrite Eq; now right|]. inv_pair H. left. assumption.
      * intros q h H. inv_pair H. eexists; split; [reflexivity|assumption].
      * rewrite Q1, (v_got _ I a st Ha). reflexivity.
Qed.

Lemma cnt_map_app_cons : forall (l : list bid) b fr x, cnt (l ++ b :: fr) x = cnt l x + cnt [b] x + cnt fr x.
Proof. intros. rewrite cnt_app. cbn [count_occ]. destruct (Nat.eq_dec b x); lia. Qed.

Lemma close_uinv : forall d s a, uinv s -> uinv (ustep d s (UClose a)).
Proof.
  intros d s a I. cbn [ustep]. destruct (uas s a) as [st|] eqn:Ha; [|assumption].
  apply (assoc_update s a st); auto; cbn [a_addr a_q a_last a_off a_got a_exp].
  - intros x. unfold arefs_of. cbn [a_last a_q map app count_occ].
    destruct (a_last st) as [[p g]|]; rewrite !cnt_app; cbn [count_occ];
      try destruct (Nat.eq_dec (fst (upk s p)) x); lia.
  - intros q h [H|H]; [contradiction|discriminate].
  - intros q h H; discriminate.
  - apply (v_got _ I a st Ha).
Qed.

Lemma idle_uinv : forall d s a, uinv s -> uinv (ustep d s (UIdle a)).
Proof.
  intros d s a I. cbn [ustep]. destruct (uas s a) as [st|] eqn:Ha; [|assumption].
  rewrite set_as_is. apply (assoc_update s a st); auto; cbn [a_addr a_q a_last a_off a_got a_exp].
  - intros p g H. apply (v_last _ I a st p g Ha H).
  - apply (v_got _ I a st Ha).
Qed.

Lemma send_uinv : forall d s, uinv s -> uinv (ustep d s USend).
Proof.
  intros d s I. cbn [ustep]. destruct (upend s) as [[[p g] a]|] eqn:Ep; [|assumption].
  destruct (v_pend _ I p g a Ep) as [P1 [P2 [st [Ha Haddr]]]]. rewrite Ha.
  destruct (a_closed st) eqn:Ecl.
  - (* the association ended meanwhile: the datagram is dropped, its array goes back *)
    apply (assoc_update_gen s a st st); auto.
    + intros x. unfold pendrefs. rewrite Ep. cbn [pendrefs_of count_occ]. destruct (Nat.eq_dec (fst (upk s p)) x); lia.
    + intros q h [H|H]; auto.
    + intros q h H; apply (v_last _ I a st q h Ha H).
    + apply (v_got _ I a st Ha).
  - apply (assoc_update_gen s a st); auto; cbn [a_addr a_q a_last a_off a_got a_exp].
    + intros x. unfold pendrefs, arefs_of. rewrite Ep. cbn [pendrefs_of a_last a_q count_occ].
      rewrite map_app, !cnt_app. cbn [map fst count_occ]. destruct (Nat.eq_dec (fst (upk s p)) x); lia.
    + intros q h [H|H]; [|auto]. apply in_app_or in H. destruct H as [H|[H|[]]]; [auto|]. inv_pair H. auto.
    + intros q h H; apply (v_last _ I a st q h Ha H).
    + apply (v_got _ I a st Ha).
Qed.

Lemma forget_uinv : forall d s a, uinv s -> uinv (ustep d s (UForget a)).
Proof.
  intros d s a I. cbn [ustep]. destruct (uas s a) as [st|] eqn:Ha; [|assumption].
  destruct (a_closed st || a_idle st); [|assumption].
  destruct (ucur s (a_addr st)) as [a'|] eqn:Ec; [|assumption].
  destruct (Nat.eqb a' a); [|assumption].
  destruct I. constructor; cbn [uheap ufree unext upk unpk uchan upend uas unas ucur]; auto.
  intros cl y Hc. unfold updcur in Hc. destruct (Nat.eqb cl (a_addr st)); [discriminate|]. apply v_cur0. assumption.
Qed.

Lemma recv_uinv : forall d s cl data b, uinv s -> uinv (ustep d s (URecv cl data b)).
Proof.
  intros d s cl data b I. cbn [ustep]. set (dat := firstn dgram_cap data).
  assert (forall fr nx,
            (forall x, cnt fr x + (if Nat.eq_dec b x then 1 else 0)
                     = cnt (ufree s) x + (if Nat.eq_dec b x then (if Nat.leb (unext s) b then 1 else 0) else 0)) ->
            unext s <= nx -> (Nat.leb (unext s) b = true -> nx = S b /\ b = unext s) ->
            (In b (ufree s) \/ unext s <= b) ->
            uinv (mkU (updb (uheap s) b (store dat (uheap s b))) fr nx (upk s) (unpk s)
                      (uchan s ++ [(b, length dat, mkDg cl dat)]) (upend s) (uas s) (unas s) (ucur s) (ubadget s))) as Hgen.
  { intros fr nx Hfr Hnx Hfresh Hb.
    destruct (unreferenced s b I Hb) as [U1 [U2 U3]].
    assert (forall p, fst (upk s p) <> b ->
              pbytes (mkU (updb (uheap s) b (store dat (uheap s b))) fr nx (upk s) (unpk s)
                          (uchan s ++ [(b, length dat, mkDg cl dat)]) (upend s) (uas s) (unas s) (ucur s) (ubadget s)) p = pbytes s p) as Hpb.
    { intros p Hp. unfold pbytes. cbn [uheap upk]. rewrite updb_other by assumption. reflexivity. }
    constructor; cbn [uheap ufree unext upk unpk uchan upend uas unas ucur].
    - intros x. pose proof (v_total _ I x) as T. pose proof (Hfr x) as F. unfold total in *. cbn [ufree upk uas unas].
      unfold chanrefs, pendrefs in *. cbn [uchan upend upk]. rewrite map_app, cnt_app. cbn [map fst count_occ].
      destruct (Nat.eq_dec b x) as [->|Hne]; [|lia].
      destruct (Nat.leb (unext s) x) eqn:El; [|lia].
      apply Nat.leb_le in El. pose proof (v_lt _ I x El) as Z. unfold total, chanrefs, pendrefs in Z. lia.
    - intros x Hx. pose proof (Hfr x) as F. unfold total. cbn [ufree upk uas unas].
      unfold chanrefs, pendrefs. cbn [uchan upend upk]. rewrite map_app, cnt_app. cbn [map fst count_occ].
      assert (unext s <= x) as Hx' by lia. pose proof (v_lt _ I x Hx') as Z. unfold total, chanrefs, pendrefs in Z.
      destruct (Nat.eq_dec b x) as [->|Hne]; [|lia].
      destruct (Nat.leb (unext s) x) eqn:El.
      + destruct (Hfresh eq_refl) as [E1 E2]. lia.
      + apply Nat.leb_gt in El. lia.
    - apply (v_dom _ I).
    - apply (v_ppid _ I).
    - apply (v_apid _ I).
    - intros b' n g Hin. apply in_app_or in Hin. destruct Hin as [Hin|[E|[]]].
      + rewrite updb_other by (apply (U1 b' n g Hin)). apply (v_chan _ I b' n g Hin).
      + inv_pair E. rewrite updb_same. split; [apply store_firstn|reflexivity].
    - intros p g a Hp. destruct (v_pend _ I p g a Hp) as [A [B C]]. rewrite (Hpb p (U2 p g a Hp)). auto.
    - intros a st p g Ha Hin. destruct (v_q _ I a st p g Ha Hin) as [A [B C]]. unfold entry_ok.
      rewrite (Hpb p (U3 a st p g Ha Hin)). auto.
    - apply (v_last _ I).
    - apply (v_got _ I).
    - apply (v_cur _ I). }
  destruct (mem b (ufree s)) eqn:Em.
  - apply Hgen; auto.
    + intros x. pose proof (cnt_remove1 (ufree s) b x) as R. rewrite Em in R.
      pose proof (mem_in _ _ Em) as Hin. destruct (Nat.eq_dec b x) as [->|Hne]; [|lia].
      destruct (Nat.leb (unext s) x) eqn:El; [|lia].
      apply Nat.leb_le in El. pose proof (v_lt _ I x El) as Z. unfold total in Z. apply cnt_in in Hin. lia.
    + intros El. apply Nat.leb_le in El. pose proof (v_lt _ I b El) as Z. unfold total in Z.
      pose proof (cnt_in _ _ (mem_in _ _ Em)). lia.
    + left. apply mem_in. assumption.
  - destruct (Nat.eqb_spec b (unext s)) as [E|Hne].
    + apply Hgen; auto.
      * intros x. destruct (Nat.eq_dec b x) as [->|Hn]; [|lia]. subst x. rewrite Nat.leb_refl. lia.
      * right. lia.
    + destruct I. constructor; cbn [uheap ufree unext upk unpk uchan upend uas unas ucur]; auto.
Qed.

Definition empty_assoc (cl : client) : assoc := mkA cl [] None None false false [] [].

Lemma dispatch_gen : forall s b n g rest a uas' unas' ucur',
  uinv s -> upend s = None -> uchan s = (b, n, g) :: rest ->
  (forall x, sumn (acount (upk s) uas' x) (seq 0 unas') = sumn (acount (upk s) (uas s) x) (seq 0 (unas s))) ->
  (forall y, unas' <= y -> uas' y = None) ->
  (forall y st, uas' y = Some st -> uas s y = Some st \/ st = empty_assoc (g_from g)) ->
  (exists st, uas' a = Some st /\ a_addr st = g_from g) ->
  (forall cl y, ucur' cl = Some y -> exists st, uas' y = Some st /\ a_addr st = cl) ->
  uinv (mkU (uheap s) (ufree s) (unext s) (updp (upk s) (unpk s) (b, n)) (S (unpk s)) rest (Some (unpk s, g, a))
            uas' unas' ucur' (ubadget s)).
Proof.
  intros s b n g rest a uas' unas' ucur' I Ep Ec Hsum Hdom Hext Ha Hcur.
  assert (In (b, n, g) (uchan s)) as Hin by (rewrite Ec; now left).
  destruct (v_chan _ I b n g Hin) as [C1 C2].
  assert (forall y st, uas' y = Some st -> pids_ok (unpk s) st) as Hpids.
  { intros y st Hy. destruct (Hext y st Hy) as [H|H]; [apply (v_apid _ I y st H)|].
    subst st. split; cbn; intros; [contradiction|discriminate]. }
  assert (forall x y, acount (updp (upk s) (unpk s) (b, n)) uas' x y = acount (upk s) uas' x y) as Hac.
  { intros x y. unfold acount. destruct (uas' y) as [st|] eqn:E; [|reflexivity].
    rewrite (arefs_updp (upk s) (unpk s) (b, n) st (unpk s) (Hpids y st E) (le_n _)). reflexivity. }
  assert (forall x, cnt (chanrefs s) x = (if Nat.eq_dec b x then 1 else 0) + cnt (map (fun e : bid * nat * dg => fst (fst e)) rest) x) as Hch.
  { intros x. unfold chanrefs. rewrite Ec. cbn [map fst count_occ]. destruct (Nat.eq_dec b x); lia. }
  assert (forall x, total (mkU (uheap s) (ufree s) (unext s) (updp (upk s) (unpk s) (b, n)) (S (unpk s)) rest (Some (unpk s, g, a))
            uas' unas' ucur' (ubadget s)) x = total s x) as Htot.
  { intros x. unfold total, chanrefs, pendrefs. cbn [ufree uchan upend upk uas unas]. rewrite Ep, updp_same. cbn [fst count_occ].
    rewrite (sumn_ext _ _ _ (fun y _ => Hac x y)), Hsum. pose proof (Hch x) as H. unfold chanrefs in H. rewrite H.
    destruct (Nat.eq_dec b x); lia. }
  assert (forall q, q < unpk s -> updp (upk s) (unpk s) (b, n) q = upk s q) as Hold by (intros q Hq; apply updp_other; lia).
  constructor; cbn [uheap ufree unext upk unpk uchan upend uas unas ucur].
  - intros x. rewrite Htot. apply (v_total _ I).
  - intros x Hx. rewrite Htot. apply (v_lt _ I x Hx).
  - assumption.
  - intros p h y E. inv_pair E. lia.
  - intros y st Hy. destruct (Hpids y st Hy) as [P1 P2]. split; intros p h H; [specialize (P1 p h H)|specialize (P2 p h H)]; lia.
  - intros b' n' g' H. apply (v_chan _ I). rewrite Ec. now right.
  - intros p h y E. inv_pair E. unfold pbytes. cbn [uheap upk]. rewrite updp_same. cbn [fst snd]. repeat split; auto.
  - intros y st p h Hy Hen. destruct (Hpids y st Hy) as [P1 P2].
    assert (p < unpk s) as Hp by (destruct Hen as [H|H]; [apply (P1 p h H)|apply (P2 p h H)]).
    destruct (Hext y st Hy) as [H|H].
    + destruct (v_q _ I y st p h H Hen) as [A [B C]]. unfold entry_ok, pbytes in *. cbn [uheap upk]. rewrite (Hold p Hp). auto.
    + subst st. cbn in Hen. destruct Hen; [contradiction|discriminate].
  - intros y st p h Hy Hl. destruct (Hpids y st Hy) as [P1 P2]. rewrite (Hold p (P2 p h Hl)).
    destruct (Hext y st Hy) as [H|H]; [apply (v_last _ I y st p h H Hl)|]. subst st. discriminate.
  - intros y st Hy. destruct (Hext y st Hy) as [H|H]; [apply (v_got _ I y st H)|]. subst st. reflexivity.
  - assumption.
Qed.

Lemma dispatch_uinv : forall d s, good_udisc d -> uinv s -> uinv (ustep d s UDispatch).
Proof.
  intros d s [G1 G2] I. cbn [ustep].
  destruct (upend s) as [[[p0 g0] a0]|] eqn:Ep; [assumption|].
  destruct (uchan s) as [|[[b n] g] rest] eqn:Ec; [assumption|].
  rewrite G2.
  destruct (match ucur s (g_from g) with Some a => if alive s a then Some a else None | None => None end) as [a|] eqn:Ea.
  - apply (dispatch_gen s b n g rest a); auto.
    + apply (v_dom _ I).
    + destruct (ucur s (g_from g)) as [a'|] eqn:Ecur; [|discriminate].
      destruct (alive s a'); [|discriminate]. inv_pair Ea. apply (v_cur _ I _ _ Ecur).
    + apply (v_cur _ I).
  - apply (dispatch_gen s b n g rest (unas s)); auto.
    + intros x. rewrite seq_S_app, sumn_app. cbn [sumn].
      assert (acount (upk s) (upda (uas s) (unas s) (mkA (g_from g) [] None None false false [] [])) x (unas s) = 0) as ->
        by (unfold acount; rewrite upda_same; reflexivity).
      rewrite (sumn_ext (acount (upk s) (upda (uas s) (unas s) (mkA (g_from g) [] None None false false [] [])) x) (acount (upk s) (uas s) x)); [lia|].
      intros y Hy. apply in_seq in Hy. unfold acount. rewrite upda_other by lia. reflexivity.
    + intros y Hy. rewrite upda_other by lia. apply (v_dom _ I). lia.
    + intros y st Hy. destruct (Nat.eq_dec y (unas s)) as [->|Hne].
      * rewrite upda_same in Hy. inv_pair Hy. right. reflexivity.
      * rewrite upda_other in Hy by assumption. now left.
    + eexists. rewrite upda_same. split; reflexivity.
    + intros cl y Hc. unfold updcur in Hc. destruct (Nat.eqb_spec cl (g_from g)) as [->|Hne].
      * inv_pair Hc. eexists. rewrite upda_same. split; reflexivity.
      * destruct (v_cur _ I cl y Hc) as [st [A B]]. exists st. split; [|assumption].
        rewrite upda_other; [assumption|]. pose proof (dom_lt _ _ _ I A). lia.
Qed.

Lemma step_uinv : forall d s e, good_udisc d -> uinv s -> uinv (ustep d s e).
Proof.
  intros d s e G I. destruct e.
  - apply recv_uinv; assumption.
  - apply dispatch_uinv; assumption.
  - apply send_uinv; assumption.
  - apply read_uinv; assumption.
  - apply idle_uinv; assumption.
  - apply close_uinv; assumption.
  - apply forget_uinv; assumption.
Qed.

Lemma urun_uinv : forall d es s, good_udisc d -> uinv s -> uinv (urun d s es).
Proof.
  intros d es. induction es as [|e es IH]; intros s G I; cbn; [assumption|].
  apply IH; [assumption|]. apply step_uinv; assumption.
Qed.

(* ---------- the statements used by props/C08_udp.v ---------- *)

Lemma udp_discipline_good : good_udisc udp_disc.
Proof. split; vm_compute; reflexivity. Qed.

Lemma udp_consts_ok : 0 < dgram_cap.
Proof. vm_compute. apply Nat.leb_le. reflexivity. Qed.

Lemma udp_put_at_most_once : forall d, good_udisc d -> forall es, NoDup (ufree (urun d uinit es)).
Proof.
  intros d G es. pose proof (urun_uinv d es uinit G uinv_init) as I.
  apply (NoDup_count_occ Nat.eq_dec). intros x. pose proof (v_total _ I x) as T. unfold total in T. lia.
Qed.

Lemma udp_no_free_referenced : forall d, good_udisc d -> forall es b, In b (ufree (urun d uinit es)) ->
  let s := urun d uinit es in
  (forall b' n g, In (b', n, g) (uchan s) -> b' <> b) /\
  (forall p g a, upend s = Some (p, g, a) -> fst (upk s p) <> b) /\
  (forall a st p g, uas s a = Some st -> In (p, g) (a_q st) \/ a_last st = Some (p, g) -> fst (upk s p) <> b).
Proof.
  intros d G es b Hb. pose proof (urun_uinv d es uinit G uinv_init) as I.
  exact (unreferenced _ b I (or_introl Hb)).
Qed.

(* no array is held twice: not by two queue entries of one association, not by two associations *)
Lemma udp_no_shared_array : forall d, good_udisc d -> forall es a1 a2 st1 st2 b,
  let s := urun d uinit es in
  uas s a1 = Some st1 -> uas s a2 = Some st2 -> In b (arefs s st1) -> In b (arefs s st2) ->
  a1 = a2 /\ NoDup (arefs s st1).
Proof.
  intros d G es a1 a2 st1 st2 b s H1 H2 B1 B2. pose proof (urun_uinv d es uinit G uinv_init) as I. fold s in I.
  split.
  - destruct (Nat.eq_dec a1 a2) as [E|Hne]; [assumption|exfalso].
    pose proof (v_total _ I b) as T. unfold total in T.
    pose proof (dom_lt _ _ _ I H1) as L1. pose proof (dom_lt _ _ _ I H2) as L2.
    (* split the sum at a1: the rest still contains a2 *)
    pose proof (sumn_upd (acount (upk s) (uas s) b) (fun y => if Nat.eqb y a1 then 0 else acount (upk s) (uas s) b y) a1
                         (seq 0 (unas s)) (seq_NoDup _ _) (in_seq0 _ _ L1)) as S1.
    cbv beta in S1. rewrite Nat.eqb_refl in S1.
    assert (forall x, x <> a1 -> (if Nat.eqb x a1 then 0 else acount (upk s) (uas s) b x) = acount (upk s) (uas s) b x) as Hx.
    { intros x Hn. destruct (Nat.eqb_spec x a1); [contradiction|reflexivity]. }
    specialize (S1 Hx).
    pose proof (sumn_le (fun y => if Nat.eqb y a1 then 0 else acount (upk s) (uas s) b y) a2 _ (in_seq0 _ _ L2)) as S2.
    cbv beta in S2. destruct (Nat.eqb_spec a2 a1) as [E|_]; [congruence|].
    assert (1 <= acount (upk s) (uas s) b a1) by (unfold acount; rewrite H1; apply cnt_in; assumption).
    assert (1 <= acount (upk s) (uas s) b a2) by (unfold acount; rewrite H2; apply cnt_in; assumption).
    lia.
  - apply (NoDup_count_occ Nat.eq_dec). intros x. pose proof (v_total _ I x) as T. unfold total in T.
    pose proof (sumn_le (acount (upk s) (uas s) x) a1 _ (in_seq0 _ _ (dom_lt _ _ _ I H1))) as S.
    unfold acount at 1 in S. rewrite H1 in S. rewrite arefs_eq. lia.
Qed.

(* what an association reads is what the datagrams dispatched to it contain, and every datagram
   it holds came from its own client *)
Lemma udp_reads_own : forall d, good_udisc d -> forall es a st,
  uas (urun d uinit es) a = Some st ->
  a_got st = a_exp st /\ forall g, In g (aghosts st) -> g_from g = a_addr st.
Proof.
  intros d G es a st Ha. pose proof (urun_uinv d es uinit G uinv_init) as I. split.
  - apply (v_got _ I a st Ha).
  - intros g Hg. unfold aghosts in Hg. apply in_app_or in Hg. destruct Hg as [Hg|Hg].
    + destruct (a_last st) as [[p g']|] eqn:El; [|contradiction]. destruct Hg as [<-|[]].
      apply (v_q _ I a st p g' Ha (or_intror El)).
    + apply in_map_iff in Hg. destruct Hg as [[p g'] [E Hin]]. cbn in E. subst g'.
      apply (v_q _ I a st p g Ha (or_introl Hin)).
Qed.

Lemma udp_pool_noninterference : forall d, good_udisc d -> forall es,
  let s := urun d uinit es in
  NoDup (ufree s) /\
  (forall b, In b (ufree s) ->
     (forall b' n g, In (b', n, g) (uchan s) -> b' <> b) /\
     (forall p g a, upend s = Some (p, g, a) -> fst (upk s p) <> b) /\
     (forall a st p g, uas s a = Some st -> In (p, g) (a_q st) \/ a_last st = Some (p, g) -> fst (upk s p) <> b)) /\
  (forall a st, uas s a = Some st -> a_got st = a_exp st /\ forall g, In g (aghosts st) -> g_from g = a_addr st).
Proof.
  intros d G es s. split; [apply udp_put_at_most_once; assumption|]. split.
  - intros b Hb. apply (udp_no_free_referenced d G es b Hb).
  - intros a st Ha. apply (udp_reads_own d G es a st Ha).
Qed.

Lemma udp_pool_noninterference_today : forall es,
  let s := urun udp_disc uinit es in
  NoDup (ufree s) /\
  (forall b, In b (ufree s) ->
     (forall b' n g, In (b', n, g) (uchan s) -> b' <> b) /\
     (forall p g a, upend s = Some (p, g, a) -> fst (upk s p) <> b) /\
     (forall a st p g, uas s a = Some st -> In (p, g) (a_q st) \/ a_last st = Some (p, g) -> fst (upk s p) <> b)) /\
  (forall a st, uas s a = Some st -> a_got st = a_exp st /\ forall g, In g (aghosts st) -> g_from g = a_addr st).
Proof. exact (udp_pool_noninterference udp_disc udp_discipline_good). Qed.
