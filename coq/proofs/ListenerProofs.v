(* Lemmas about model/Listener.v: the accounting invariant (every accepted connection has exactly
   one holder), exactly-once delivery, Accept after Close, termination and progress of the
   wrapper's goroutines after Close. *)
From Coq Require Import List Arith Bool Lia.
From L4.model Require Import Listener.
Import ListNotations.

Local Notation cnt := (count_occ Nat.eq_dec).

(* ---------- generic helpers ---------- *)

Lemma upd_same : forall f c v, upd f c v c = v.
Proof. intros; unfold upd; now rewrite Nat.eqb_refl. Qed.

Lemma upd_other : forall f c v x, x <> c -> upd f c v x = f x.
Proof. intros f c v x H; unfold upd. destruct (Nat.eqb_spec x c); [contradiction|reflexivity]. Qed.

Lemma sumf_upd_notin : forall w f c v l, ~ In c l -> sumf w (upd f c v) l = sumf w f l.
Proof.
  induction l as [|x l IH]; intros Hn; cbn [sumf]; [reflexivity|].
  rewrite upd_other by (intro E; apply Hn; left; congruence).
  rewrite IH; [reflexivity|]. intro; apply Hn; now right.
Qed.

Lemma sumf_upd_in : forall w f c v l, NoDup l -> In c l ->
  sumf w (upd f c v) l + w (f c) = sumf w f l + w v.
Proof.
  induction l as [|x l IH]; intros Hnd Hin; [contradiction|].
  inversion Hnd as [|? ? Hx Hnd']; subst. cbn [sumf].
  destruct Hin as [->|Hin].
  - rewrite upd_same, sumf_upd_notin by assumption. lia.
  - rewrite upd_other by (intro E; subst; contradiction).
    specialize (IH Hnd' Hin). lia.
Qed.

Lemma sumf_zero : forall w f l, sumf w f l = 0 -> forall c, In c l -> w (f c) = 0.
Proof.
  induction l as [|x l IH]; intros H c Hin; [contradiction|]. cbn [sumf] in H.
  destruct Hin as [->|Hin]; [lia|]. apply IH; [lia|assumption].
Qed.

Lemma sumf_pos : forall w f l, 0 < sumf w f l -> exists c, In c l /\ 0 < w (f c).
Proof.
  induction l as [|x l IH]; cbn [sumf]; intros H; [lia|].
  destruct (Nat.eq_dec (w (f x)) 0) as [E|E].
  - destruct IH as [c [Hin Hc]]; [lia|]. exists c; split; [now right|assumption].
  - exists x; split; [now left|lia].
Qed.

Lemma known_false : forall s c, known s c = false -> ~ In c (conns s).
Proof.
  intros s c H Hin. unfold known in H. unfold conns in Hin.
  apply in_map_iff in Hin. destruct Hin as [p [E Hp]].
  assert (existsb (fun p => Nat.eqb (fst p) c) (arrived s) = true) as T.
  { apply existsb_exists. exists p; split; [assumption|]. subst. apply Nat.eqb_refl. }
  congruence.
Qed.

Lemma cnt_app : forall l1 l2 x, cnt (l1 ++ l2) x = cnt l1 x + cnt l2 x.
Proof. intros; apply count_occ_app. Qed.

Lemma cnt_notin : forall l x, ~ In x l -> cnt l x = 0.
Proof. intros l x H. now apply count_occ_not_In. Qed.

Lemma cnt_nodup_in : forall l x, NoDup l -> In x l -> cnt l x = 1.
Proof.
  intros l x Hnd Hin. pose proof (proj1 (NoDup_count_occ Nat.eq_dec l) Hnd x) as Hle.
  pose proof (proj1 (count_occ_In Nat.eq_dec l x) Hin). lia.
Qed.

(* ---------- the invariant ---------- *)

Record inv (cap : nat) (s : state) : Prop := mkInv {
  i_nodup : NoDup (conns s);
  i_dom : forall c, hs s c <> None -> In c (conns s);
  i_count : forall c, owns (hs s c) + cnt (chan s) c + cnt (delivered s) c + cnt (closedc s) c = cnt (conns s) c;
  i_wg : wg s = sumf counts_wg (hs s) (conns s);
  i_closed : chan_closed s = true -> wg s = 0 /\ loop s <> LAccept;
  i_nopanic : panicked s = false;
  i_cap : length (chan s) <= cap;
  i_done : done s = true <-> (loop s = LDrain \/ loop s = LExit);
  i_exit : loop s = LExit -> chan_closed s = true /\ chan s = [];
  i_tstart : forall c o, hs s c = Some (HStart o) -> In (c, o) (arrived s);
  i_thij : forall c, hs s c = Some HSending \/ hs s c = Some HSent -> In (c, Hijack) (arrived s);
  i_tfail : forall c, hs s c = Some HFailed \/ hs s c = Some HWgDone ->
                      exists o, In (c, o) (arrived s) /\ is_hijack o = false;
  i_tchan : forall c, In c (chan s) \/ In c (delivered s) -> In (c, Hijack) (arrived s)
}.

Lemma inv_init : forall cap, inv cap init.
Proof.
  intros cap. constructor; cbn.
  - constructor.
  - intros c H; now elim H.
  - reflexivity.
  - reflexivity.
  - discriminate.
  - reflexivity.
  - lia.
  - split; [discriminate|]. intros [H|H]; discriminate.
  - discriminate.
  - discriminate.
  - intros c [H|H]; discriminate.
  - intros c [H|H]; discriminate.
  - intros c [H|H]; contradiction.
Qed.

Lemma wg_zero_no_counted : forall cap s, inv cap s -> wg s = 0 -> forall c, counts_wg (hs s c) = 0.
Proof.
  intros cap s I H c. destruct (in_dec Nat.eq_dec c (conns s)) as [Hin|Hn].
  - apply (sumf_zero counts_wg (hs s) (conns s)); [rewrite <- (i_wg _ _ I); assumption|assumption].
  - destruct (hs s c) eqn:E; [|reflexivity]. exfalso. apply Hn. apply (i_dom _ _ I). congruence.
Qed.

Ltac inv_step H :=
  match type of H with
  | Some _ = Some _ => inversion H; subst; clear H
  | None = Some _ => discriminate H
  | (if ?b then _ else _) = Some _ => let E := fresh "E" in destruct b eqn:E; inv_step H
  | (match ?x with _ => _ end) = Some _ => let E := fresh "E" in destruct x eqn:E; inv_step H
  end.

Ltac bat :=
  solve [ assumption | discriminate | lia | tauto
        | let Hc := fresh "Hc" in intros Hc;
          match goal with H : chan_closed _ = true -> _ |- _ =>
            destruct (H Hc) as [? ?]; split; [ first [assumption|lia] | first [assumption|congruence|discriminate] ] end ].

Lemma in_arrived_conns : forall s c o, In (c, o) (arrived s) -> In c (conns s).
Proof. intros s c o H. unfold conns. apply in_map_iff. exists (c, o); auto. Qed.

Lemma hs_in_conns : forall cap s c h, inv cap s -> hs s c = Some h -> In c (conns s).
Proof. intros cap s c h I H. apply (i_dom _ _ I). congruence. Qed.

Lemma step_inv : forall cap s e s', inv cap s -> step cap s e = Some s' -> inv cap s'.
Proof.
  intros cap s e s' I H.
  destruct e; cbn [step] in H.
  - (* EArrive *)
    inv_step H. apply orb_false_iff in E0. destruct E0 as [Ecl Ekn].
    pose proof (known_false _ _ Ekn) as Hnot.
    constructor; cbn -[cnt]; unfold conns; cbn -[cnt]; fold (conns s).
    + constructor; [assumption|apply (i_nodup _ _ I)].
    + intros x Hx. unfold upd in Hx. destruct (Nat.eqb_spec x c); [left; congruence|right; apply (i_dom _ _ I); assumption].
    + intros x. unfold upd. cbn [count_occ]. destruct (Nat.eqb_spec x c) as [Heq|Hne]; [subst x|].
      * destruct (Nat.eq_dec c c) as [_|N]; [|congruence].
        pose proof (i_count _ _ I c) as Hc. rewrite (cnt_notin _ _ Hnot) in Hc.
        assert (owns (hs s c) = 0) by lia. cbn [owns]. rewrite (cnt_notin _ _ Hnot). lia.
      * destruct (Nat.eq_dec c x) as [Y|_]; [congruence|]. cbv iota. apply (i_count _ _ I).
    + cbn [sumf]. rewrite upd_same. rewrite sumf_upd_notin by assumption. cbn [counts_wg].
      rewrite (i_wg _ _ I). reflexivity.
    + intros Hc. destruct (i_closed _ _ I Hc) as [_ Hl]. congruence.
    + apply (i_nopanic _ _ I).
    + apply (i_cap _ _ I).
    + rewrite (i_done _ _ I). rewrite E. tauto.
    + discriminate.
    + intros x o' Hx. unfold upd in Hx. destruct (Nat.eqb_spec x c) as [Heq|Hne]; [subst x|].
      * left. congruence.
      * right. apply (i_tstart _ _ I); assumption.
    + intros x Hx. unfold upd in Hx. destruct (Nat.eqb_spec x c) as [Heq|Hne]; [subst x|].
      * destruct Hx; discriminate.
      * right. apply (i_thij _ _ I); assumption.
    + intros x Hx. unfold upd in Hx. destruct (Nat.eqb_spec x c) as [Heq|Hne]; [subst x|].
      * destruct Hx; discriminate.
      * destruct (i_tfail _ _ I x Hx) as [o' [Ho' Hh]]. exists o'; split; [now right|assumption].
    + intros x Hx. right. apply (i_tchan _ _ I); assumption.
  - (* ETempErr *) inv_step H. assumption.
  - (* EAcceptFail *)
    inv_step H. destruct I. constructor; cbn -[cnt] in *; unfold conns in *; cbn -[cnt] in *; auto; try bat.
    split; intro X; [apply i_done0 in X; rewrite E in X; destruct X; discriminate|destruct X; discriminate].
  - (* ECloseDone *)
    inv_step H. destruct I. constructor; cbn -[cnt] in *; unfold conns in *; cbn -[cnt] in *; auto; try bat.
  - (* EDrainRecv *)
    inv_step H. destruct I. constructor; cbn -[cnt] in *; unfold conns in *; cbn -[cnt] in *; auto; try bat.
    + intros x. specialize (i_count0 x). rewrite E0 in i_count0. cbn [count_occ] in *.
      destruct (Nat.eq_dec c x); cbv iota in *; lia.
    + rewrite E0 in i_cap0. cbn in i_cap0. lia.
    + intros x [Hx|Hx]; apply i_tchan0; [left; rewrite E0; now right|now right].
  - (* EDrainExit *)
    inv_step H. destruct I. constructor; cbn -[cnt] in *; unfold conns in *; cbn -[cnt] in *; auto; try bat.
    + intros x. specialize (i_count0 x). rewrite E0 in i_count0. exact i_count0.
    + intros _. destruct (i_closed0 E1). split; [assumption|discriminate].
    + intros x [Hx|Hx]; [contradiction|]. apply i_tchan0; now right.
  - (* EWaiter *)
    destruct (loop s) eqn:El; [discriminate| | |];
      (inv_step H; destruct I; constructor; cbn -[cnt] in *; unfold conns in *; cbn -[cnt] in *; auto; try bat;
       try (intros _; split; [reflexivity|discriminate]); try (rewrite El in i_done0; exact i_done0)).
  - (* ERun *)
    inv_step H. pose proof (hs_in_conns _ _ _ _ I E) as Hin. destruct I.
    constructor; cbn -[cnt] in *; unfold conns in *; cbn -[cnt] in *; auto; try bat.
    + intros x Hx. unfold upd in Hx. destruct (Nat.eqb_spec x c) as [Heq|Hne]; [subst x|]; [assumption|apply i_dom0; assumption].
    + intros x. specialize (i_count0 x). unfold upd. destruct (Nat.eqb_spec x c) as [Heq|Hne]; [subst x|]; [|assumption].
      rewrite E in i_count0. destruct (is_hijack o); cbn [owns] in *; assumption.
    + pose proof (sumf_upd_in counts_wg (hs s) c (Some (if is_hijack o then HSending else HFailed)) _ i_nodup0 Hin) as Hs.
      rewrite E in Hs. destruct (is_hijack o); cbn [counts_wg] in Hs; lia.
    + intros x o' Hx. unfold upd in Hx. destruct (Nat.eqb_spec x c) as [Heq|Hne]; [subst x|]; [|apply i_tstart0; assumption].
      destruct (is_hijack o); discriminate.
    + intros x Hx. unfold upd in Hx. destruct (Nat.eqb_spec x c) as [Heq|Hne]; [subst x|]; [|apply i_thij0; assumption].
      specialize (i_tstart0 _ _ E). destruct o; cbn in Hx; try (destruct Hx; discriminate). assumption.
    + intros x Hx. unfold upd in Hx. destruct (Nat.eqb_spec x c) as [Heq|Hne]; [subst x|]; [|apply i_tfail0; assumption].
      exists o. split; [apply i_tstart0; assumption|]. destruct o; cbn in *; try reflexivity. destruct Hx; discriminate.
  - (* ESend *)
    inv_step H.
    + (* channel closed: impossible *)
      exfalso. destruct (i_closed _ _ I E2) as [Hz _].
      pose proof (wg_zero_no_counted _ _ I Hz c) as Hc. rewrite E in Hc. discriminate.
    + pose proof (hs_in_conns _ _ _ _ I E) as Hin. apply Nat.ltb_lt in E1. destruct I.
      constructor; cbn -[cnt] in *; unfold conns in *; cbn -[cnt] in *; auto; try bat.
      * intros x Hx. unfold upd in Hx. destruct (Nat.eqb_spec x c) as [Heq|Hne]; [subst x|]; [assumption|apply i_dom0; assumption].
      * intros x. specialize (i_count0 x). rewrite cnt_app. cbn [count_occ]. unfold upd.
        destruct (Nat.eqb_spec x c) as [Heq|Hne]; [subst x|].
        -- rewrite E in i_count0. destruct (Nat.eq_dec c c); [|congruence]. cbn [owns] in *. lia.
        -- destruct (Nat.eq_dec c x); [congruence|]. cbv iota in *. lia.
      * pose proof (sumf_upd_in counts_wg (hs s) c (Some HSent) _ i_nodup0 Hin) as Hs.
        rewrite E in Hs. cbn [counts_wg] in Hs. lia.
      * rewrite app_length. cbn. lia.
      * intros X. destruct (i_exit0 X). congruence.
      * intros x o' Hx. unfold upd in Hx. destruct (Nat.eqb_spec x c) as [Heq|Hne]; [subst x|]; [discriminate|apply i_tstart0; assumption].
      * intros x Hx. unfold upd in Hx. destruct (Nat.eqb_spec x c) as [Heq|Hne]; [subst x|]; [|apply i_thij0; assumption].
        apply i_thij0. now left.
      * intros x Hx. unfold upd in Hx. destruct (Nat.eqb_spec x c) as [Heq|Hne]; [subst x|]; [destruct Hx; discriminate|apply i_tfail0; assumption].
      * intros x [Hx|Hx]; [|apply i_tchan0; now right].
        apply in_app_or in Hx. destruct Hx as [Hx|[<-|[]]]; [apply i_tchan0; now left|].
        apply i_thij0. now left.
  - (* EWgDone *)
    inv_step H.
    + (* HSent *)
      pose proof (hs_in_conns _ _ _ _ I E) as Hin. destruct I.
      pose proof (sumf_upd_in counts_wg (hs s) c None _ i_nodup0 Hin) as Hs. rewrite E in Hs. cbn [counts_wg] in Hs.
      constructor; cbn -[cnt] in *; unfold conns in *; cbn -[cnt] in *; auto; try bat.
      * intros x Hx. unfold upd in Hx. destruct (Nat.eqb_spec x c) as [Heq|Hne]; [subst x|]; [assumption|apply i_dom0; assumption].
      * intros x. specialize (i_count0 x). unfold upd. destruct (Nat.eqb_spec x c) as [Heq|Hne]; [subst x|]; [|assumption].
        rewrite E in i_count0. cbn [owns] in *. assumption.
      * rewrite i_nopanic0. cbn. apply Nat.eqb_neq. lia.
      * intros x o' Hx. unfold upd in Hx. destruct (Nat.eqb_spec x c) as [Heq|Hne]; [subst x|]; [discriminate|apply i_tstart0; assumption].
      * intros x Hx. unfold upd in Hx. destruct (Nat.eqb_spec x c) as [Heq|Hne]; [subst x|]; [destruct Hx; discriminate|apply i_thij0; assumption].
      * intros x Hx. unfold upd in Hx. destruct (Nat.eqb_spec x c) as [Heq|Hne]; [subst x|]; [destruct Hx; discriminate|apply i_tfail0; assumption].
    + (* HFailed *)
      pose proof (hs_in_conns _ _ _ _ I E) as Hin. destruct I.
      pose proof (sumf_upd_in counts_wg (hs s) c (Some HWgDone) _ i_nodup0 Hin) as Hs. rewrite E in Hs. cbn [counts_wg] in Hs.
      constructor; cbn -[cnt] in *; unfold conns in *; cbn -[cnt] in *; auto; try bat.
      * intros x Hx. unfold upd in Hx. destruct (Nat.eqb_spec x c) as [Heq|Hne]; [subst x|]; [assumption|apply i_dom0; assumption].
      * intros x. specialize (i_count0 x). unfold upd. destruct (Nat.eqb_spec x c) as [Heq|Hne]; [subst x|]; [|assumption].
        rewrite E in i_count0. cbn [owns] in *. assumption.
      * rewrite i_nopanic0. cbn. apply Nat.eqb_neq. lia.
      * intros x o' Hx. unfold upd in Hx. destruct (Nat.eqb_spec x c) as [Heq|Hne]; [subst x|]; [discriminate|apply i_tstart0; assumption].
      * intros x Hx. unfold upd in Hx. destruct (Nat.eqb_spec x c) as [Heq|Hne]; [subst x|]; [destruct Hx; discriminate|apply i_thij0; assumption].
      * intros x Hx. unfold upd in Hx. destruct (Nat.eqb_spec x c) as [Heq|Hne]; [subst x|]; [|apply i_tfail0; assumption].
        apply i_tfail0. now left.
  - (* EConnClose *)
    inv_step H. pose proof (hs_in_conns _ _ _ _ I E) as Hin. destruct I.
    pose proof (sumf_upd_in counts_wg (hs s) c None _ i_nodup0 Hin) as Hs. rewrite E in Hs. cbn [counts_wg] in Hs.
    constructor; cbn -[cnt] in *; unfold conns in *; cbn -[cnt] in *; auto; try bat.
    + intros x Hx. unfold upd in Hx. destruct (Nat.eqb_spec x c) as [Heq|Hne]; [subst x|]; [assumption|apply i_dom0; assumption].
    + intros x. specialize (i_count0 x). unfold upd. cbn [count_occ]. destruct (Nat.eqb_spec x c) as [Heq|Hne]; [subst x|].
      * rewrite E in i_count0. destruct (Nat.eq_dec c c); [|congruence]. cbn [owns] in *. lia.
      * destruct (Nat.eq_dec c x); [congruence|]. cbv iota in *. assumption.
    + intros x o' Hx. unfold upd in Hx. destruct (Nat.eqb_spec x c) as [Heq|Hne]; [subst x|]; [discriminate|apply i_tstart0; assumption].
    + intros x Hx. unfold upd in Hx. destruct (Nat.eqb_spec x c) as [Heq|Hne]; [subst x|]; [destruct Hx; discriminate|apply i_thij0; assumption].
    + intros x Hx. unfold upd in Hx. destruct (Nat.eqb_spec x c) as [Heq|Hne]; [subst x|]; [destruct Hx; discriminate|apply i_tfail0; assumption].
  - (* EAcceptRecv *)
    inv_step H.
    + destruct I. constructor; cbn -[cnt] in *; unfold conns in *; cbn -[cnt] in *; auto; try bat.
      * intros x. specialize (i_count0 x). rewrite E in i_count0. exact i_count0.
      * intros x [Hx|Hx]; [contradiction|]. apply i_tchan0; now right.
    + destruct I. constructor; cbn -[cnt] in *; unfold conns in *; cbn -[cnt] in *; auto; try bat.
      * intros x. specialize (i_count0 x). rewrite E in i_count0. cbn [count_occ] in *.
        destruct (Nat.eq_dec c x); cbv iota in *; lia.
      * rewrite E in i_cap0. cbn in i_cap0. lia.
      * intros X. destruct (i_exit0 X) as [_ Y]. congruence.
      * intros x [Hx|[Hx|Hx]].
        -- apply i_tchan0. left. rewrite E. now right.
        -- subst. apply i_tchan0. left. rewrite E. now left.
        -- apply i_tchan0. now right.
  - (* EAcceptDone *)
    inv_step H. destruct I. constructor; cbn -[cnt] in *; unfold conns in *; cbn -[cnt] in *; auto; try bat.
  - (* EClose *)
    inv_step H. destruct I. constructor; cbn -[cnt] in *; unfold conns in *; cbn -[cnt] in *; auto; try bat.
Qed.

Lemma run_inv : forall cap es s s', inv cap s -> run cap s es = Some s' -> inv cap s'.
Proof.
  induction es as [|e es IH]; intros s s' I H; cbn [run] in H.
  - inversion H; subst; assumption.
  - destruct (step cap s e) eqn:E; [|discriminate]. eapply IH; [eapply step_inv; eassumption|eassumption].
Qed.

Lemma reachable_inv : forall cap s, reachable cap s -> inv cap s.
Proof. intros cap s [es H]. eapply run_inv; [apply inv_init|eassumption]. Qed.

Lemma run_app : forall cap es1 es2 s, run cap s (es1 ++ es2) =
  match run cap s es1 with Some s1 => run cap s1 es2 | None => None end.
Proof.
  induction es1 as [|e es1 IH]; intros es2 s; cbn [run app]; [reflexivity|].
  destruct (step cap s e); [apply IH|reflexivity].
Qed.

Lemma reachable_run : forall cap s es s', reachable cap s -> run cap s es = Some s' -> reachable cap s'.
Proof. intros cap s es s' [es0 H0] H. exists (es0 ++ es). rewrite run_app, H0. assumption. Qed.

(* ---------- exactly-once delivery ---------- *)

Lemma outcome_of_in : forall s c o, NoDup (conns s) -> In (c, o) (arrived s) -> outcome_of s c = Some o.
Proof.
  intros s c o. unfold outcome_of, conns. induction (arrived s) as [|[c' o'] l IH]; intros Hnd Hin; [contradiction|].
  cbn [map fst] in Hnd. inversion Hnd as [|? ? Hx Hnd']; subst. cbn [find fst].
  destruct (Nat.eqb_spec c' c) as [->|Hne].
  - destruct Hin as [E|Hin]; [inversion E; reflexivity|].
    exfalso. apply Hx. apply in_map_iff. exists (c, o); auto.
  - destruct Hin as [E|Hin]; [inversion E; congruence|]. apply IH; assumption.
Qed.

Lemma once_safety : forall cap s, reachable cap s ->
  NoDup (delivered s ++ closedc s) /\
  (forall c, In c (delivered s) -> outcome_of s c = Some Hijack) /\
  (forall c, In c (delivered s ++ closedc s) -> In c (conns s)).
Proof.
  intros cap s R. pose proof (reachable_inv _ _ R) as I. repeat split.
  - apply (NoDup_count_occ Nat.eq_dec). intros c. rewrite cnt_app.
    pose proof (i_count _ _ I c). pose proof (proj1 (NoDup_count_occ Nat.eq_dec _) (i_nodup _ _ I) c). lia.
  - intros c Hc. apply outcome_of_in; [apply (i_nodup _ _ I)|]. apply (i_tchan _ _ I). now right.
  - intros c Hc. apply (count_occ_In Nat.eq_dec). pose proof (i_count _ _ I c) as H.
    apply (count_occ_In Nat.eq_dec) in Hc. rewrite cnt_app in Hc. lia.
Qed.

(* no goroutine of the wrapper still holds a connection *)
Definition quiescent (s : state) : Prop := (forall c, hs s c = None) /\ chan s = [].

Lemma once_final : forall cap s, reachable cap s -> quiescent s ->
  forall c o, In (c, o) (arrived s) ->
    (o = Hijack -> cnt (delivered s) c + cnt (closedc s) c = 1) /\
    (o <> Hijack -> cnt (delivered s) c = 0 /\ cnt (closedc s) c = 1).
Proof.
  intros cap s R [Hh Hc] c o Hin. pose proof (reachable_inv _ _ R) as I.
  pose proof (i_count _ _ I c) as H. rewrite Hh, Hc in H. cbn [owns count_occ] in H.
  rewrite (cnt_nodup_in _ _ (i_nodup _ _ I) (in_arrived_conns _ _ _ Hin)) in H.
  split; intros Ho; [lia|].
  assert (cnt (delivered s) c = 0) as Hz.
  { apply cnt_notin. intros Hd. pose proof (i_tchan _ _ I c (or_intror Hd)) as Hj.
    pose proof (outcome_of_in _ _ _ (i_nodup _ _ I) Hj). pose proof (outcome_of_in _ _ _ (i_nodup _ _ I) Hin). congruence. }
  lia.
Qed.

(* ---------- Accept after Close ---------- *)

Definition drained (s : state) : Prop := done s = true /\ chan_closed s = true /\ chan s = [].

Lemma drained_step : forall cap s e s', inv cap s -> drained s -> step cap s e = Some s' ->
  drained s' /\ delivered s' = delivered s.
Proof.
  intros cap s e s' I [Hd [Hc Hch]] H.
  destruct (i_closed _ _ I Hc) as [Hwg Hl].
  destruct e; cbn [step] in H; try (inv_step H; unfold drained; cbn; try rewrite Hch in *; try congruence; auto; fail).
Qed.

Lemma drained_run : forall cap es s s', inv cap s -> drained s -> run cap s es = Some s' ->
  drained s' /\ delivered s' = delivered s.
Proof.
  induction es as [|e es IH]; intros s s' I D H; cbn [run] in H.
  - inversion H; subst; auto.
  - destruct (step cap s e) as [s1|] eqn:E; [|discriminate].
    destruct (drained_step _ _ _ _ I D E) as [D1 E1].
    destruct (IH _ _ (step_inv _ _ _ _ I E) D1 H) as [D2 E2]. split; [assumption|congruence].
Qed.

Lemma accept_done_enabled : forall cap s, done s = true ->
  exists s', step cap s EAcceptDone = Some s' /\ delivered s' = delivered s /\ accept_errs s' = S (accept_errs s).
Proof. intros cap s H. cbn [step]. rewrite H. eexists; repeat split. Qed.

(* ---------- termination and progress of the wrapper's goroutines ---------- *)

Lemma closed_flag_mono : forall cap s e s', step cap s e = Some s' -> closed_flag s = true -> closed_flag s' = true.
Proof. intros cap s e s' H Hc. destruct e; cbn [step] in H; inv_step H; cbn; auto; congruence. Qed.

Lemma measure_system : forall cap s e s', inv cap s -> step cap s e = Some s' -> system_event e = true ->
  measure s' < measure s.
Proof.
  intros cap s e s' I H Hs. unfold measure.
  destruct e; try discriminate Hs; cbn [step] in H.
  - inv_step H. unfold conns; cbn. lia.
  - inv_step H. unfold conns; cbn. lia.
  - inv_step H. unfold conns; cbn. try rewrite E0. cbn. lia.
  - inv_step H. unfold conns; cbn. try rewrite E1. cbn. lia.
  - destruct (loop s) eqn:El; [discriminate| | |]; inv_step H; unfold conns; cbn; try rewrite El; cbn; lia.
  - inv_step H. pose proof (hs_in_conns _ _ _ _ I E) as Hin.
    pose proof (sumf_upd_in hweight (hs s) c (Some (if is_hijack o then HSending else HFailed)) _ (i_nodup _ _ I) Hin) as Hw.
    rewrite E in Hw. unfold conns in *; cbn in *. destruct (is_hijack o); cbn [hweight] in Hw; lia.
  - inv_step H.
    + exfalso. destruct (i_closed _ _ I E2) as [Hz _].
      pose proof (wg_zero_no_counted _ _ I Hz c) as Hc. rewrite E in Hc. discriminate.
    + pose proof (hs_in_conns _ _ _ _ I E) as Hin.
      pose proof (sumf_upd_in hweight (hs s) c (Some HSent) _ (i_nodup _ _ I) Hin) as Hw.
      rewrite E in Hw. unfold conns in *; cbn in *. rewrite app_length. cbn. try rewrite E2. cbn [hweight] in Hw. lia.
  - inv_step H.
    + pose proof (hs_in_conns _ _ _ _ I E) as Hin.
      pose proof (sumf_upd_in hweight (hs s) c None _ (i_nodup _ _ I) Hin) as Hw.
      rewrite E in Hw. unfold conns in *; cbn in *. cbn [hweight] in Hw. lia.
    + pose proof (hs_in_conns _ _ _ _ I E) as Hin.
      pose proof (sumf_upd_in hweight (hs s) c (Some HWgDone) _ (i_nodup _ _ I) Hin) as Hw.
      rewrite E in Hw. unfold conns in *; cbn in *. cbn [hweight] in Hw. lia.
  - inv_step H. pose proof (hs_in_conns _ _ _ _ I E) as Hin.
    pose proof (sumf_upd_in hweight (hs s) c None _ (i_nodup _ _ I) Hin) as Hw.
    rewrite E in Hw. unfold conns in *; cbn in *. cbn [hweight] in Hw. lia.
Qed.

Lemma measure_env : forall cap s e s', step cap s e = Some s' -> system_event e = false ->
  closed_flag s = true -> measure s' <= measure s.
Proof.
  intros cap s e s' H Hs Hc. unfold measure.
  destruct e; try discriminate Hs; cbn [step] in H.
  - destruct (loop s); try discriminate. rewrite Hc in H. discriminate.
  - inv_step H. lia.
  - inv_step H; unfold conns; cbn; try rewrite E; try rewrite E0; cbn; lia.
  - inv_step H. unfold conns; cbn. lia.
  - inv_step H. unfold conns; cbn. lia.
Qed.

Lemma sumf_none : forall w f l, w None = 0 -> (forall c, In c l -> f c = None) -> sumf w f l = 0.
Proof.
  induction l as [|x l IH]; intros Hw H; cbn [sumf]; [reflexivity|].
  rewrite (H x (or_introl eq_refl)), Hw. apply IH; [assumption|]. intros c Hc. apply H. now right.
Qed.

Lemma progress : forall cap s, inv cap s -> 0 < cap -> ~ final s ->
  exists e s', system_event e = true /\ step cap s e = Some s'.
Proof.
  intros cap s I Hcap Hnf.
  destruct (Nat.eq_dec (sumf hweight (hs s) (conns s)) 0) as [Hz|Hnz].
  - (* no handler is running *)
    assert (forall c, hs s c = None) as Hnone.
    { intros c. destruct (hs s c) as [h|] eqn:E; [|reflexivity]. exfalso.
      pose proof (hs_in_conns _ _ _ _ I E) as Hin.
      pose proof (sumf_zero _ _ _ Hz c Hin) as Hw. rewrite E in Hw. destruct h; discriminate. }
    assert (wg s = 0) as Hwg.
    { rewrite (i_wg _ _ I). apply sumf_none; [reflexivity|]. intros; apply Hnone. }
    destruct (loop s) eqn:El.
    + exists EAcceptFail. eexists. split; [reflexivity|]. cbn [step]. rewrite El. reflexivity.
    + destruct (chan_closed s) eqn:Ec.
      * exists ECloseDone. eexists. split; [reflexivity|]. cbn [step]. rewrite El. reflexivity.
      * exists EWaiter. eexists. split; [reflexivity|]. cbn [step]. rewrite El, Ec, Hwg. reflexivity.
    + destruct (chan s) as [|c rest] eqn:Ech.
      * destruct (chan_closed s) eqn:Ec.
        -- exists EDrainExit. eexists. split; [reflexivity|]. cbn [step]. rewrite El, Ech, Ec. reflexivity.
        -- exists EWaiter. eexists. split; [reflexivity|]. cbn [step]. rewrite El, Ec, Hwg. reflexivity.
      * exists EDrainRecv. eexists. split; [reflexivity|]. cbn [step]. rewrite El, Ech. reflexivity.
    + exfalso. apply Hnf. destruct (i_exit _ _ I El) as [Hc Hch]. repeat split; assumption.
  - (* some handler is running *)
    destruct (sumf_pos hweight (hs s) (conns s)) as [c [Hin Hw]]; [lia|].
    destruct (hs s c) as [h|] eqn:E; [|cbn in Hw; lia].
    destruct h.
    + exists (ERun c). eexists. split; [reflexivity|]. cbn [step]. rewrite E. reflexivity.
    + destruct (Nat.ltb (length (chan s)) cap) eqn:El.
      * exists (ESend c). destruct (chan_closed s) eqn:Ec; eexists; (split; [reflexivity|]); cbn [step]; rewrite E, El, Ec; reflexivity.
      * apply Nat.ltb_ge in El. destruct (chan s) as [|c0 rest] eqn:Ech; [cbn in El; lia|].
        destruct (loop s) eqn:Elo.
        -- exists EAcceptFail. eexists. split; [reflexivity|]. cbn [step]. rewrite Elo. reflexivity.
        -- exists ECloseDone. eexists. split; [reflexivity|]. cbn [step]. rewrite Elo. reflexivity.
        -- exists EDrainRecv. eexists. split; [reflexivity|]. cbn [step]. rewrite Elo, Ech. reflexivity.
        -- exfalso. destruct (i_exit _ _ I Elo) as [_ Hch]. congruence.
    + exists (EWgDone c). eexists. split; [reflexivity|]. cbn [step]. rewrite E. reflexivity.
    + exists (EWgDone c). eexists. split; [reflexivity|]. cbn [step]. rewrite E. reflexivity.
    + exists (EConnClose c). eexists. split; [reflexivity|]. cbn [step]. rewrite E. reflexivity.
Qed.

Lemma system_steps_bounded : forall cap es s s', inv cap s -> closed_flag s = true -> run cap s es = Some s' ->
  count_system es + measure s' <= measure s.
Proof.
  induction es as [|e es IH]; intros s s' I Hc H; cbn [run] in H.
  - inversion H; subst. cbn. lia.
  - destruct (step cap s e) as [s1|] eqn:E; [|discriminate].
    pose proof (IH _ _ (step_inv _ _ _ _ I E) (closed_flag_mono _ _ _ _ E Hc) H) as Hb.
    cbn [count_system]. destruct (system_event e) eqn:Es.
    + pose proof (measure_system _ _ _ _ I E Es). lia.
    + pose proof (measure_env _ _ _ _ E Es Hc). lia.
Qed.

Lemma stuck_is_final : forall cap s, inv cap s -> 0 < cap ->
  (forall e, system_event e = true -> step cap s e = None) -> final s.
Proof.
  intros cap s I Hcap Hst.
  assert (~ ~ final s) as NN.
  { intros Hnf. destruct (progress _ _ I Hcap Hnf) as [e [s' [Hs He]]]. rewrite (Hst e Hs) in He. discriminate. }
  (* final is decidable enough here: reason by cases on the loop state *)
  destruct (loop s) eqn:El.
  - exfalso. specialize (Hst EAcceptFail eq_refl). cbn [step] in Hst. rewrite El in Hst. discriminate.
  - exfalso. specialize (Hst ECloseDone eq_refl). cbn [step] in Hst. rewrite El in Hst. discriminate.
  - exfalso. apply NN. intros [F _]. congruence.
  - destruct (i_exit _ _ I El) as [Hc Hch]. destruct (i_closed _ _ I Hc) as [Hwg _].
    repeat split; try assumption.
    intros c. destruct (hs s c) as [h|] eqn:E; [|reflexivity]. exfalso.
    pose proof (wg_zero_no_counted _ _ I Hwg c) as Hx. rewrite E in Hx.
    destruct h; try discriminate.
    specialize (Hst (EConnClose c) eq_refl). cbn [step] in Hst. rewrite E in Hst. discriminate.
Qed.

(* ---------- the statements as used by props/C13.v (over reachable states) ---------- *)

Lemma accept_after_close_reach : forall cap s, reachable cap s -> drained s ->
  forall es s', run cap s es = Some s' -> drained s' /\ delivered s' = delivered s.
Proof. intros cap s R D es s' H. exact (drained_run cap es s s' (reachable_inv cap s R) D H). Qed.

Lemma no_panic_reach : forall cap s, reachable cap s -> panicked s = false.
Proof. intros cap s R. exact (i_nopanic cap s (reachable_inv cap s R)). Qed.

Lemma system_steps_bounded_reach : forall cap s, reachable cap s -> closed_flag s = true ->
  forall es s', run cap s es = Some s' -> count_system es + measure s' <= measure s.
Proof. intros cap s R Hc es s' H. exact (system_steps_bounded cap es s s' (reachable_inv cap s R) Hc H). Qed.

Lemma stuck_is_final_reach : forall cap s, 0 < cap -> reachable cap s ->
  (forall e, system_event e = true -> step cap s e = None) -> final s.
Proof. intros cap s Hc R H. exact (stuck_is_final cap s (reachable_inv cap s R) Hc H). Qed.

Lemma progress_reach : forall cap s, 0 < cap -> reachable cap s -> ~ final s ->
  exists e s', system_event e = true /\ step cap s e = Some s'.
Proof. intros cap s Hc R H. exact (progress cap s (reachable_inv cap s R) Hc H). Qed.

Lemma chan_bounded_reach : forall cap s, reachable cap s -> length (chan s) <= cap.
Proof. intros cap s R. exact (i_cap cap s (reachable_inv cap s R)). Qed.

(* ---------- registration in the loop: the fact-driven model is the model above ---------- *)

Lemma run2_in_loop : forall cap es s2 s2', spawned s2 = [] -> run2 true cap s2 es = Some s2' ->
  spawned s2' = [] /\ exists es0, run cap (base s2) es0 = Some (base s2').
Proof.
  induction es as [|e es IH]; intros s2 s2' Hs H; cbn [run2] in H.
  - inversion H; subst. split; [assumption|]. exists []. reflexivity.
  - destruct e as [e0|c o|c]; cbn [step2] in H; try discriminate.
    destruct (step cap (base s2) e0) as [b|] eqn:E; [|discriminate].
    destruct (IH (mkState2 b (spawned s2)) s2' Hs H) as [A [es0 B]].
    split; [assumption|]. exists (e0 :: es0). cbn [run base] in *. rewrite E. assumption.
Qed.

Lemma run2_reachable : forall cap es s2, run2 true cap init2 es = Some s2 -> reachable cap (base s2) /\ spawned s2 = [].
Proof.
  intros cap es s2 H. destruct (run2_in_loop cap es init2 s2 eq_refl H) as [A [es0 B]].
  split; [exists es0; assumption|assumption].
Qed.

From L4.gen Require Import Shape.

Lemma wg_fact : layer4_listener_wg_add_before_go = true.
Proof. vm_compute. reflexivity. Qed.

(* every state the source's wrapper can reach (registration where the source has it) is a state
   of the model the theorems are about *)
Lemma source_model_reachable : forall cap es s2,
  run2 layer4_listener_wg_add_before_go cap init2 es = Some s2 -> reachable cap (base s2) /\ spawned s2 = [].
Proof. rewrite wg_fact. exact run2_reachable. Qed.

Lemma source_no_panic : forall cap es s2,
  run2 layer4_listener_wg_add_before_go cap init2 es = Some s2 -> panicked (base s2) = false.
Proof. intros cap es s2 H. apply (no_panic_reach cap). apply (source_model_reachable cap es s2 H). Qed.
