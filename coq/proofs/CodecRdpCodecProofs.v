(* Proofs about the five codecs of model/CodecRdp.v: inverse laws, wrong lengths rejected, no panic. *)
From Coq Require Import List NArith ZArith Bool Arith Lia.
From Coq.Strings Require Import Byte.
From L4.gen Require Import Consts.
From L4.model Require Import GoBase CodecBase CodecRdp.
From L4.proofs Require Import GoBaseProofs CodecBaseProofs.
Import ListNotations.
Local Open Scope nat_scope.

Lemma rdp_consts_ok : tpkt_total = 4 /\ x224_total = 7 /\ negreq_total = 8 /\ corr_total = 36 /\ token_min = 11 /\ connreq_min = 11.
Proof. vm_compute. repeat split. Qed.

Lemma N_to_be_be_N' n l : length l = n -> N_to_be n (be_N l) = l.
Proof. intro; subst; apply N_to_be_be_N. Qed.
Lemma N_to_le_le_N' n l : length l = n -> N_to_le n (le_N l) = l.
Proof. intro; subst; apply N_to_le_le_N. Qed.
Lemma be_N_lt' n l : length l = n -> (be_N l < 256 ^ N.of_nat n)%N.
Proof. intro; subst; apply be_N_lt. Qed.
Lemma le_N_lt' n l : length l = n -> (le_N l < 256 ^ N.of_nat n)%N.
Proof. intro; subst; apply le_N_lt. Qed.

Ltac rf H :=
  match type of H with
  | context [match read_full ?n ?p with _ => _ end] =>
      let a := fresh "a" in let r := fresh "r" in let E := fresh "E" in
      destruct (read_full n p) as [[a r]|] eqn:E; [apply read_full_some in E; destruct E as [? ?]; subst p|discriminate H]
  end.
Ltac pows := change two8 with (256 ^ N.of_nat 1)%N in *; change two16 with (256 ^ N.of_nat 2)%N in *; change two32 with (256 ^ N.of_nat 4)%N in *.
Ltac bounds := pows; first [apply be_N_lt'; assumption | apply le_N_lt'; assumption | assumption].
Ltac rexact := first [apply N_to_be_length | apply N_to_le_length | assumption].
(* read_full fails only on short input *)
Ltac rfl E := match goal with
  | |- context [match read_full ?n ?p with _ => _ end] =>
      let a := fresh "a" in let r := fresh "r" in
      destruct (read_full n p) as [[a r]|] eqn:E; [apply read_full_length in E|apply read_full_none in E; cbn [length] in *; lia]
  end.

(* ---- TPKTHeader ---- *)
Lemma tpkt_read_spec b m r : tpkt_read b = Some (m, r) -> b = tpkt_to_bytes m ++ r /\ tpkt_wf m.
Proof.
  unfold tpkt_read. intro H. do 3 rf H. inversion H; subst; clear H. unfold tpkt_to_bytes, tpkt_wf. cbn [tp_version tp_reserved tp_length].
  split; [rewrite !N_to_be_be_N' by assumption; rewrite <- !app_assoc; reflexivity|repeat split; bounds].
Qed.
Lemma tpkt_to_bytes_length m : length (tpkt_to_bytes m) = tpkt_total.
Proof. unfold tpkt_to_bytes. rewrite !app_length, !N_to_be_length. reflexivity. Qed.
Lemma tpkt_read_to_bytes m r : tpkt_wf m -> tpkt_read (tpkt_to_bytes m ++ r) = Some (m, r).
Proof.
  intros (H1 & H2 & H3). unfold tpkt_read, tpkt_to_bytes. rewrite <- !app_assoc.
  repeat (rewrite read_full_exact by rexact). rewrite !be_N_N_to_be by bounds. destruct m; reflexivity.
Qed.
Lemma tpkt_to_from b x : tpkt_from_bytes b = Ok x -> tpkt_to_bytes x = b.
Proof.
  unfold tpkt_from_bytes. destruct (Nat.eqb_spec (length b) tpkt_total) as [Hl|Hl]; cbn [negb]; [|discriminate].
  destruct (tpkt_read b) as [[m r]|] eqn:E; [|discriminate]. intro H; inversion H; subst m; clear H.
  apply tpkt_read_spec in E. destruct E as [Hb Hwf]. pose proof (tpkt_to_bytes_length x) as Hlen.
  subst b. rewrite app_length in Hl. destruct r; [symmetry; apply app_nil_r|cbn [length] in Hl; lia].
Qed.
Lemma tpkt_from_to x : tpkt_wf x -> tpkt_from_bytes (tpkt_to_bytes x) = Ok x.
Proof.
  intro Hwf. unfold tpkt_from_bytes. rewrite tpkt_to_bytes_length, Nat.eqb_refl. cbn [negb].
  rewrite <- (app_nil_r (tpkt_to_bytes x)). rewrite tpkt_read_to_bytes by exact Hwf. reflexivity.
Qed.
Lemma tpkt_rejects_wrong_length b : length b <> tpkt_total -> tpkt_from_bytes b = Err.
Proof. intro H. unfold tpkt_from_bytes. apply Nat.eqb_neq in H. rewrite H. reflexivity. Qed.
Lemma tpkt_no_panic b : tpkt_from_bytes b <> RPanic.
Proof. unfold tpkt_from_bytes. destruct (negb _); [discriminate|]. destruct (tpkt_read b) as [[m r]|]; discriminate. Qed.
Lemma tpkt_accepts_length b : length b = tpkt_total -> exists x, tpkt_from_bytes b = Ok x.
Proof.
  intro Hl. unfold tpkt_from_bytes. rewrite Hl, Nat.eqb_refl. cbn [negb]. unfold tpkt_read. change tpkt_total with 4 in Hl.
  rfl E1. rfl E2. rfl E3. eexists; reflexivity.
Qed.

(* ---- X224Crq ---- *)
Lemma x224_read_spec b m r : x224_read b = Some (m, r) -> b = x224_to_bytes m ++ r /\ x224_wf m.
Proof.
  unfold x224_read. intro H. do 5 rf H. inversion H; subst; clear H. unfold x224_to_bytes, x224_wf.
  cbn [x_length x_typecredit x_dstref x_srcref x_classopts].
  split; [rewrite !N_to_be_be_N' by assumption; rewrite <- !app_assoc; reflexivity|repeat split; bounds].
Qed.
Lemma x224_to_bytes_length m : length (x224_to_bytes m) = x224_total.
Proof. unfold x224_to_bytes. rewrite !app_length, !N_to_be_length. reflexivity. Qed.
Lemma x224_read_to_bytes m r : x224_wf m -> x224_read (x224_to_bytes m ++ r) = Some (m, r).
Proof.
  intros (H1 & H2 & H3 & H4 & H5). unfold x224_read, x224_to_bytes. rewrite <- !app_assoc.
  repeat (rewrite read_full_exact by rexact). rewrite !be_N_N_to_be by bounds. destruct m; reflexivity.
Qed.
Lemma x224_to_from b x : x224_from_bytes b = Ok x -> x224_to_bytes x = b.
Proof.
  unfold x224_from_bytes. destruct (Nat.eqb_spec (length b) x224_total) as [Hl|Hl]; cbn [negb]; [|discriminate].
  destruct (x224_read b) as [[m r]|] eqn:E; [|discriminate]. intro H; inversion H; subst m; clear H.
  apply x224_read_spec in E. destruct E as [Hb Hwf]. pose proof (x224_to_bytes_length x) as Hlen.
  subst b. rewrite app_length in Hl. destruct r; [symmetry; apply app_nil_r|cbn [length] in Hl; lia].
Qed.
Lemma x224_from_to x : x224_wf x -> x224_from_bytes (x224_to_bytes x) = Ok x.
Proof.
  intro Hwf. unfold x224_from_bytes. rewrite x224_to_bytes_length, Nat.eqb_refl. cbn [negb].
  rewrite <- (app_nil_r (x224_to_bytes x)). rewrite x224_read_to_bytes by exact Hwf. reflexivity.
Qed.
Lemma x224_rejects_wrong_length b : length b <> x224_total -> x224_from_bytes b = Err.
Proof. intro H. unfold x224_from_bytes. apply Nat.eqb_neq in H. rewrite H. reflexivity. Qed.
Lemma x224_no_panic b : x224_from_bytes b <> RPanic.
Proof. unfold x224_from_bytes. destruct (negb _); [discriminate|]. destruct (x224_read b) as [[m r]|]; discriminate. Qed.
Lemma x224_accepts_length b : length b = x224_total -> exists x, x224_from_bytes b = Ok x.
Proof.
  intro Hl. unfold x224_from_bytes. rewrite Hl, Nat.eqb_refl. cbn [negb]. unfold x224_read. change x224_total with 7 in Hl.
  rfl E1. rfl E2. rfl E3. rfl E4. rfl E5. eexists; reflexivity.
Qed.

(* ---- RDPNegReq ---- *)
Lemma negreq_read_spec b m r : negreq_read b = Some (m, r) -> b = negreq_to_bytes m ++ r /\ negreq_wf m.
Proof.
  unfold negreq_read. intro H. do 4 rf H. inversion H; subst; clear H. unfold negreq_to_bytes, negreq_wf.
  cbn [nr_type nr_flags nr_length nr_protocols].
  split; [rewrite !N_to_le_le_N' by assumption; rewrite <- !app_assoc; reflexivity|repeat split; bounds].
Qed.
Lemma negreq_to_bytes_length m : length (negreq_to_bytes m) = negreq_total.
Proof. unfold negreq_to_bytes. rewrite !app_length, !N_to_le_length. reflexivity. Qed.
Lemma negreq_read_to_bytes m r : negreq_wf m -> negreq_read (negreq_to_bytes m ++ r) = Some (m, r).
Proof.
  intros (H1 & H2 & H3 & H4). unfold negreq_read, negreq_to_bytes. rewrite <- !app_assoc.
  repeat (rewrite read_full_exact by rexact). rewrite !le_N_N_to_le by bounds. destruct m; reflexivity.
Qed.
Lemma negreq_to_from b x : negreq_from_bytes b = Ok x -> negreq_to_bytes x = b.
Proof.
  unfold negreq_from_bytes. destruct (Nat.eqb_spec (length b) negreq_total) as [Hl|Hl]; cbn [negb]; [|discriminate].
  destruct (negreq_read b) as [[m r]|] eqn:E; [|discriminate]. intro H; inversion H; subst m; clear H.
  apply negreq_read_spec in E. destruct E as [Hb Hwf]. pose proof (negreq_to_bytes_length x) as Hlen.
  subst b. rewrite app_length in Hl. destruct r; [symmetry; apply app_nil_r|cbn [length] in Hl; lia].
Qed.
Lemma negreq_from_to x : negreq_wf x -> negreq_from_bytes (negreq_to_bytes x) = Ok x.
Proof.
  intro Hwf. unfold negreq_from_bytes. rewrite negreq_to_bytes_length, Nat.eqb_refl. cbn [negb].
  rewrite <- (app_nil_r (negreq_to_bytes x)). rewrite negreq_read_to_bytes by exact Hwf. reflexivity.
Qed.
Lemma negreq_rejects_wrong_length b : length b <> negreq_total -> negreq_from_bytes b = Err.
Proof. intro H. unfold negreq_from_bytes. apply Nat.eqb_neq in H. rewrite H. reflexivity. Qed.
Lemma negreq_no_panic b : negreq_from_bytes b <> RPanic.
Proof. unfold negreq_from_bytes. destruct (negb _); [discriminate|]. destruct (negreq_read b) as [[m r]|]; discriminate. Qed.
Lemma negreq_accepts_length b : length b = negreq_total -> exists x, negreq_from_bytes b = Ok x.
Proof.
  intro Hl. unfold negreq_from_bytes. rewrite Hl, Nat.eqb_refl. cbn [negb]. unfold negreq_read. change negreq_total with 8 in Hl.
  rfl E1. rfl E2. rfl E3. rfl E4. eexists; reflexivity.
Qed.

(* ---- RDPCorrInfo ---- *)
Lemma corr_read_spec b m r : corr_read b = Some (m, r) -> b = corr_to_bytes m ++ r /\ corr_wf m.
Proof.
  unfold corr_read. intro H. do 5 rf H. inversion H; subst; clear H. unfold corr_to_bytes, corr_wf.
  cbn [ci_type ci_flags ci_length ci_identity ci_reserved].
  split; [rewrite !N_to_le_le_N' by assumption; rewrite <- !app_assoc; reflexivity|repeat split; bounds].
Qed.
Lemma corr_to_bytes_length m : corr_wf m -> length (corr_to_bytes m) = corr_total.
Proof. intros (_ & _ & _ & H4 & H5). unfold corr_to_bytes. rewrite !app_length, !N_to_le_length, H4, H5. reflexivity. Qed.
Lemma corr_read_to_bytes m r : corr_wf m -> corr_read (corr_to_bytes m ++ r) = Some (m, r).
Proof.
  intros (H1 & H2 & H3 & H4 & H5). unfold corr_read, corr_to_bytes. rewrite <- !app_assoc.
  repeat (rewrite read_full_exact by rexact). rewrite !le_N_N_to_le by bounds. destruct m; reflexivity.
Qed.
Lemma corr_to_from b x : corr_from_bytes b = Ok x -> corr_to_bytes x = b.
Proof.
  unfold corr_from_bytes. destruct (Nat.eqb_spec (length b) corr_total) as [Hl|Hl]; cbn [negb]; [|discriminate].
  destruct (corr_read b) as [[m r]|] eqn:E; [|discriminate]. intro H; inversion H; subst m; clear H.
  apply corr_read_spec in E. destruct E as [Hb Hwf]. pose proof (corr_to_bytes_length x Hwf) as Hlen.
  subst b. rewrite app_length in Hl. destruct r; [symmetry; apply app_nil_r|cbn [length] in Hl; lia].
Qed.
Lemma corr_from_to x : corr_wf x -> corr_from_bytes (corr_to_bytes x) = Ok x.
Proof.
  intro Hwf. unfold corr_from_bytes. rewrite (corr_to_bytes_length x Hwf), Nat.eqb_refl. cbn [negb].
  rewrite <- (app_nil_r (corr_to_bytes x)). rewrite corr_read_to_bytes by exact Hwf. reflexivity.
Qed.
Lemma corr_rejects_wrong_length b : length b <> corr_total -> corr_from_bytes b = Err.
Proof. intro H. unfold corr_from_bytes. apply Nat.eqb_neq in H. rewrite H. reflexivity. Qed.
Lemma corr_no_panic b : corr_from_bytes b <> RPanic.
Proof. unfold corr_from_bytes. destruct (negb _); [discriminate|]. destruct (corr_read b) as [[m r]|]; discriminate. Qed.
Lemma corr_from_bytes_wf b x : corr_from_bytes b = Ok x -> corr_wf x.
Proof.
  unfold corr_from_bytes. destruct (negb _); [discriminate|]. destruct (corr_read b) as [[m r]|] eqn:E; [|discriminate].
  intro H; inversion H; subst. apply corr_read_spec in E. tauto.
Qed.
Lemma corr_accepts_length b : length b = corr_total -> exists x, corr_from_bytes b = Ok x.
Proof.
  intro Hl. unfold corr_from_bytes. rewrite Hl, Nat.eqb_refl. cbn [negb]. unfold corr_read. change corr_total with 36 in Hl.
  rfl E1. rfl E2. rfl E3. rfl E4. rfl E5. eexists; reflexivity.
Qed.

(* ---- RDPToken (variable length: every length >= 11 is an encoding) ---- *)
Lemma token_to_from b x : token_from_bytes b = Ok x -> token_to_bytes x = b.
Proof.
  unfold token_from_bytes. intro H. do 8 rf H. inversion H; subst; clear H. unfold token_to_bytes.
  cbn [tk_version tk_reserved tk_length tk_li tk_typecredit tk_dstref tk_srcref tk_classopts tk_optional].
  rewrite !N_to_be_be_N' by assumption. reflexivity.
Qed.
Lemma token_from_to x : token_wf x -> token_from_bytes (token_to_bytes x) = Ok x.
Proof.
  intros (H1 & H2 & H3 & H4 & H5 & H6 & H7 & H8). unfold token_from_bytes, token_to_bytes.
  repeat (rewrite read_full_exact by rexact). rewrite !be_N_N_to_be by bounds. destruct x; reflexivity.
Qed.
Lemma token_rejects_wrong_length b : length b < token_min -> token_from_bytes b = Err.
Proof.
  intro Hl. change token_min with 11 in Hl. unfold token_from_bytes.
  destruct (read_full 1 b) as [[a1 r1]|] eqn:E1; [apply read_full_length in E1|reflexivity].
  destruct (read_full 1 r1) as [[a2 r2]|] eqn:E2; [apply read_full_length in E2|reflexivity].
  destruct (read_full 2 r2) as [[a3 r3]|] eqn:E3; [apply read_full_length in E3|reflexivity].
  destruct (read_full 1 r3) as [[a4 r4]|] eqn:E4; [apply read_full_length in E4|reflexivity].
  destruct (read_full 1 r4) as [[a5 r5]|] eqn:E5; [apply read_full_length in E5|reflexivity].
  destruct (read_full 2 r5) as [[a6 r6]|] eqn:E6; [apply read_full_length in E6|reflexivity].
  destruct (read_full 2 r6) as [[a7 r7]|] eqn:E7; [apply read_full_length in E7|reflexivity].
  destruct (read_full 1 r7) as [[a8 r8]|] eqn:E8; [apply read_full_length in E8|reflexivity]. lia.
Qed.
Lemma token_accepts_length b : token_min <= length b -> exists x, token_from_bytes b = Ok x /\ length (tk_optional x) = length b - token_min.
Proof.
  intro Hl. change token_min with 11 in *. unfold token_from_bytes.
  rfl E1. rfl E2. rfl E3. rfl E4. rfl E5. rfl E6. rfl E7.
  destruct (read_full 1 r5) as [[a6 r6]|] eqn:E8; [apply read_full_length in E8|apply read_full_none in E8; lia].
  eexists; split; [reflexivity|]. cbn [tk_optional]. lia.
Qed.
Lemma token_no_panic b : token_from_bytes b <> RPanic.
Proof.
  unfold token_from_bytes.
  repeat match goal with |- context [match read_full ?n ?p with _ => _ end] => destruct (read_full n p) as [[? ?]|]; [|discriminate] end.
  discriminate.
Qed.
