(* Lemmas for C09 over model/Udp.v: invariants of every execution of the channel-level state
   machine (induction over the step list). *)
From Coq Require Import List Arith ZArith NArith Lia Bool.
From L4.gen Require Import Shape.
From L4.model Require Import Udp.
Import ListNotations.
Close Scope Z_scope.
Open Scope nat_scope.

(* ------------------------------------------------------------------ lists *)

Lemma nth_error_upd_same {A} (l : list A) i x : i < length l -> nth_error (upd l i x) i = Some x.
Proof. revert i; induction l as [|y r IH]; intros [|i] H; cbn in *; try lia; auto. apply IH; lia. Qed.
Lemma nth_error_upd_other {A} (l : list A) i j x : i <> j -> nth_error (upd l i x) j = nth_error l j.
Proof. revert i j; induction l as [|y r IH]; intros [|i] [|j] H; cbn; auto; try congruence. Qed.
Lemma length_upd {A} (l : list A) i x : length (upd l i x) = length l.
Proof. revert i; induction l as [|y r IH]; intros [|i]; cbn; auto. Qed.
Lemma map_upd {A B} (f : A -> B) (l : list A) i x y :
  nth_error l i = Some y -> f x = f y -> map f (upd l i x) = map f l.
Proof. revert i; induction l as [|z r IH]; intros [|i] H E; cbn in *; try discriminate; auto.
  - inversion H; subst. now rewrite E. - f_equal. eauto. Qed.

Lemma get_lt s c k : get s c = Some k -> c < length (conns s).
Proof. unfold get. intro H. apply nth_error_Some. congruence. Qed.

Lemma subseq_refl {A} (l : list A) : subseq l l.
Proof. induction l; constructor; auto. Qed.
Lemma subseq_app_r {A} (l1 l2 r : list A) : subseq l1 l2 -> subseq l1 (l2 ++ r).
Proof. induction 1; cbn; constructor; auto. Qed.
Lemma subseq_snoc {A} (l1 l2 : list A) x : subseq l1 l2 -> subseq (l1 ++ [x]) (l2 ++ [x]).
Proof. induction 1; cbn.
  - induction l as [|y l IH]; cbn; [repeat constructor|]. now apply sub_skip.
  - now constructor. - now constructor. Qed.
Lemma subseq_trans {A} (l1 l2 l3 : list A) : subseq l1 l2 -> subseq l2 l3 -> subseq l1 l3.
Proof. intros H12 H23. revert l1 H12. induction H23; intros l0 H12.
  - inversion H12; subst. constructor.
  - inversion H12; subst; constructor; auto.
  - constructor. auto. Qed.
Lemma subseq_drop_mid {A} (l1 l2 l : list A) x : subseq (l1 ++ x :: l2) l -> subseq (l1 ++ l2) l.
Proof. intro H. eapply subseq_trans; [|exact H]. clear H.
  induction l1; cbn; [constructor; apply subseq_refl|constructor; auto]. Qed.
Lemma subseq_app_l {A} (l1 l2 : list A) : subseq l1 (l1 ++ l2).
Proof. apply subseq_app_r, subseq_refl. Qed.
Lemma subseq_prefix {A} (l1 l2 l : list A) : subseq (l1 ++ l2) l -> subseq l1 l.
Proof. intro H. eapply subseq_trans; [apply subseq_app_l|exact H]. Qed.
Lemma subseq_filter {A} (f : A -> bool) l1 l2 : subseq l1 l2 -> subseq (filter f l1) (filter f l2).
Proof. induction 1; cbn; try constructor.
  - destruct (f x); [constructor|]; auto. - destruct (f x); [constructor|]; auto. Qed.
Lemma filter_all {A} (f : A -> bool) l : Forall (fun x => f x = true) l -> filter f l = l.
Proof. induction 1; cbn; auto. rewrite H. now f_equal. Qed.
Lemma subseq_In {A} (l1 l2 : list A) x : subseq l1 l2 -> In x l1 -> In x l2.
Proof. induction 1; cbn; intros; tauto. Qed.
Lemma subseq_NoDup {A} (l1 l2 : list A) : subseq l1 l2 -> NoDup l2 -> NoDup l1.
Proof. induction 1; intro N; [constructor| |].
  - inversion N; subst. constructor; auto. intro. eapply H2, subseq_In; eauto.
  - inversion N; auto. Qed.

(* ------------------------------------------------------------------ table *)

Lemma lookup_cons a c t a' : lookup a' ((a, c) :: t) = if Nat.eqb a a' then Some c else lookup a' t.
Proof. unfold lookup. cbn. destruct (Nat.eqb a a'); reflexivity. Qed.
Lemma lookup_remove a t a' : lookup a' (remove a t) = if Nat.eqb a' a then None else lookup a' t.
Proof. unfold lookup, remove. destruct (Nat.eqb a' a) eqn:E.
  - apply Nat.eqb_eq in E; subst. induction t as [|[b c] t IH]; cbn; [reflexivity|].
    destruct (Nat.eqb b a) eqn:E1; cbn; [exact IH|]. rewrite E1. exact IH.
  - induction t as [|[b c] t IH]; cbn; [reflexivity|].
    destruct (Nat.eqb b a) eqn:E1; cbn.
    + apply Nat.eqb_eq in E1; subst. rewrite Nat.eqb_sym, E. exact IH.
    + destruct (Nat.eqb b a'); [reflexivity|exact IH]. Qed.

(* ------------------------------------------------------------------ case analysis of a step *)

Ltac break_match H :=
  repeat match type of H with
  | context [match ?x with _ => _ end] =>
      match x with
      | context [match _ with _ => _ end] => fail 1
      | _ => let E := fresh "E" in destruct x eqn:E; try discriminate H
      end
  end.

Ltac exec_cases H :=
  unfold exec in H;
  match type of H with context [if panicked ?s then _ else _] =>
    let Epan := fresh "Epan" in destruct (panicked s) eqn:Epan; [discriminate H|] end;
  match type of H with context [match ?t with SockRecv _ => _ | _ => _ end] => destruct t end;
  break_match H; inversion H; subst; clear H.

Lemma get_upd s c k' c0 k0 k :
  get s c = Some k ->
  nth_error (upd (conns s) c k') c0 = Some k0 ->
  (c0 = c /\ k0 = k') \/ (c0 <> c /\ get s c0 = Some k0).
Proof. intros G H. destruct (Nat.eq_dec c0 c) as [->|N].
  - rewrite nth_error_upd_same in H by (eapply get_lt; eauto). left. split; congruence.
  - rewrite nth_error_upd_other in H by congruence. right. auto. Qed.

Lemma get_snoc s k' c0 k0 :
  nth_error (conns s ++ [k']) c0 = Some k0 ->
  (c0 = length (conns s) /\ k0 = k') \/ (c0 < length (conns s) /\ get s c0 = Some k0).
Proof. intro H. destruct (Nat.lt_ge_cases c0 (length (conns s))).
  - rewrite nth_error_app1 in H by auto. right. auto.
  - rewrite nth_error_app2 in H by auto. destruct (c0 - length (conns s)) eqn:E.
    + cbn in H. left. split; [lia|congruence]. + cbn in H. destruct n; discriminate. Qed.

(* G : get s' cx = Some kx for the successor state of a step: which association is it *)
Ltac conn_cases G :=
  unfold get, with_conn, with_conn_note in G; cbn [conns] in G;
  first [ eapply get_upd in G; [|eassumption]; destruct G as [[-> ->]|[? G]]
        | eapply get_snoc in G; destruct G as [[-> ->]|[? G]]
        | idtac ].

(* ------------------------------------------------------------------ the loop never panics unless readCh is closed *)

Definition never_closes (g : cfg) : Prop := ~ In CCloseRead (close_ops g).
Definition open_inv (s : state) : Prop :=
  panicked s = false /\ forall c k, get s c = Some k -> rclosed k = false.

Lemma open_inv_step g s t s' : never_closes g -> open_inv s -> exec g s t = Some s' -> open_inv s'.
Proof.
  intros NC [P I] H. exec_cases H;
  try (match goal with E: rclosed ?k = true, G: get s ?c = Some ?k |- _ => rewrite (I _ _ G) in E; discriminate E end);
  (split; [cbn; auto|]); intros cx kx G; conn_cases G; cbn; eauto.
  all: try (exfalso; apply NC; eapply nth_error_In; eassumption).
Qed.

Lemma open_inv_init : open_inv init.
Proof. split; [reflexivity|]. intros [|c] k H; discriminate H. Qed.

Lemma run_inv (P : state -> Prop) g :
  (forall s t s', P s -> exec g s t = Some s' -> P s') ->
  forall ts s s', P s -> run g s ts = Some s' -> P s'.
Proof. intros St. induction ts as [|t r IH]; cbn; intros s s' Hs H.
  - congruence. - destruct (exec g s t) eqn:E; [|discriminate]. eauto. Qed.

Lemma never_closes_no_panic g ts s : never_closes g -> run g init ts = Some s -> panicked s = false.
Proof. intros NC H. eapply (run_inv open_inv g) in H; [apply H| |apply open_inv_init].
  intros; eapply open_inv_step; eauto. Qed.

(* a panic is always a send on a closed readCh, and once it happened nothing runs *)
Lemma panicked_stuck g s t : panicked s = true -> exec g s t = None.
Proof. intro H. unfold exec. now rewrite H. Qed.

(* ------------------------------------------------------------------ well-formed table / addresses are stable *)

Lemma exec_caddr g s t s' c k :
  exec g s t = Some s' -> get s c = Some k -> exists k', get s' c = Some k' /\ caddr k' = caddr k.
Proof.
  intros H G. exec_cases H; unfold get, with_conn, with_conn_note in *; cbn [conns] in *; eauto;
  try (match goal with G' : nth_error (conns s) ?c' = Some ?k' |- context [upd (conns s) ?c' ?x] =>
         destruct (Nat.eq_dec c c') as [->|N];
         [ rewrite nth_error_upd_same by (apply nth_error_Some; congruence);
           eexists; split; [reflexivity|]; cbn; congruence
         | rewrite nth_error_upd_other by congruence; eauto ] end).
  all: rewrite nth_error_app1 by (apply nth_error_Some; congruence); eauto.
Qed.

Lemma exec_len g s t s' : exec g s t = Some s' -> length (conns s) <= length (conns s').
Proof. intro H. exec_cases H; unfold with_conn, with_conn_note; cbn [conns];
  rewrite ?length_upd, ?app_length; cbn; lia. Qed.

Lemma usable_lookup g s a c : usable g s a = Some c -> lookup a (table s) = Some c.
Proof. unfold usable. destruct (lookup a (table s)); [|discriminate].
  destruct (get s c0); [|discriminate]. destruct (skips_closed g && sclosed c1); congruence. Qed.

Definition wf (s : state) : Prop :=
  (forall a c, lookup a (table s) = Some c -> exists k, get s c = Some k /\ caddr k = a) /\
  (forall p c, pending s = Some (p, c) -> exists k, get s c = Some k /\ caddr k = src p).

Lemma wf_init : wf init.
Proof. split; intros; discriminate. Qed.
Lemma table_step g s t s' a c :
  exec g s t = Some s' -> lookup a (table s') = Some c ->
  lookup a (table s) = Some c \/ (c = length (conns s) /\ get s' c = Some (new_conn a)).
Proof.
  intros H L. exec_cases H; unfold with_conn, with_conn_note in L; cbn [table] in L; auto.
  all: try (rewrite lookup_remove in L; match type of L with context [Nat.eqb ?x ?y] => destruct (Nat.eqb x y) end; [discriminate|auto]; fail).
  rewrite lookup_cons, lookup_remove in L. destruct (Nat.eqb (src p) a) eqn:E1'.
  + apply Nat.eqb_eq in E1'. subst a. inversion L; subst. right. split; [reflexivity|].
    unfold get; cbn [conns]. rewrite nth_error_app2 by lia. rewrite Nat.sub_diag. reflexivity.
  + rewrite Nat.eqb_sym, E1' in L. auto.
Qed.

Lemma pending_step g s t s' p c :
  exec g s t = Some s' -> pending s' = Some (p, c) ->
  pending s = Some (p, c) \/ lookup (src p) (table s') = Some c.
Proof.
  intros H L. exec_cases H; unfold with_conn, with_conn_note in L; cbn [pending table] in *; auto; try discriminate.
  - inversion L; subst. right. eapply usable_lookup; eauto.
  - inversion L; subst. right. rewrite lookup_cons, Nat.eqb_refl. reflexivity.
Qed.

Lemma wf_step g s t s' : wf s -> exec g s t = Some s' -> wf s'.
Proof.
  intros [T P] H.
  assert (T' : forall a c, lookup a (table s') = Some c -> exists k, get s' c = Some k /\ caddr k = a).
  { intros a c L. destruct (table_step _ _ _ _ _ _ H L) as [L0|[-> G]].
    - destruct (T _ _ L0) as (k & G & A). destruct (exec_caddr _ _ _ _ _ _ H G) as (k' & G' & A'). exists k'. split; congruence.
    - eexists; split; [exact G|reflexivity]. }
  split; [exact T'|].
  intros p c L. destruct (pending_step _ _ _ _ _ _ H L) as [L0|L0].
  - destruct (P _ _ L0) as (k & G & A). destruct (exec_caddr _ _ _ _ _ _ H G) as (k' & G' & A'). exists k'. split; congruence.
  - auto.
Qed.

(* ------------------------------------------------------------------ projections of the trace *)

Lemma arrivals_app a b : arrivals (a ++ b) = arrivals a ++ arrivals b.
Proof. apply flat_map_app. Qed.
Lemma reads_of_app c a b : reads_of c (a ++ b) = reads_of c a ++ reads_of c b.
Proof. apply flat_map_app. Qed.
Lemma routed_to_app c a b : routed_to c (a ++ b) = routed_to c a ++ routed_to c b.
Proof. apply flat_map_app. Qed.
Lemma routed_app a b : routed (a ++ b) = routed a ++ routed b.
Proof. apply flat_map_app. Qed.
Lemma writes_app a b : writes (a ++ b) = writes a ++ writes b.
Proof. apply flat_map_app. Qed.
Lemma news_app a b : news (a ++ b) = news a ++ news b.
Proof. apply flat_map_app. Qed.

Definition pkts (q : list qitem) : list pkt :=
  flat_map (fun i => match i with QPkt p => [p] | QErr => [] end) q.
Definition pend (s : state) : list pkt := match pending s with Some (p, _) => [p] | None => [] end.
Lemma pkts_app a b : pkts (a ++ b) = pkts a ++ pkts b.
Proof. apply flat_map_app. Qed.

(* ------------------------------------------------------------------ order / ownership invariant *)

Definition ord_inv (s : state) : Prop :=
  (forall c k, get s c = Some k ->
       Forall (fun p => src p = caddr k) (routed_to c (trace s)) /\
       subseq (reads_of c (trace s) ++ readq k) (routed_to c (trace s))) /\
  subseq (routed (trace s) ++ pend s ++ pkts (packets s)) (arrivals (trace s)) /\
  (forall c, length (conns s) <= c -> routed_to c (trace s) = [] /\ reads_of c (trace s) = []).

Ltac eqb_simpl :=
  rewrite ?Nat.eqb_refl;
  repeat match goal with
  | N : ?a <> ?b |- context [Nat.eqb ?b ?a] => rewrite (proj2 (Nat.eqb_neq b a)) by congruence
  | N : ?a <> ?b |- context [Nat.eqb ?a ?b] => rewrite (proj2 (Nat.eqb_neq a b)) by congruence
  end.

Ltac tr_simpl :=
  unfold with_conn, with_conn_note, pend; cbn [trace conns packets pending readq caddr set_readq set_last set_phase set_rclosed set_sclosed new_conn];
  rewrite ?arrivals_app, ?reads_of_app, ?routed_to_app, ?routed_app, ?pkts_app;
  cbn [arrivals reads_of routed_to routed pkts flat_map app]; eqb_simpl; rewrite ?app_nil_r.


Ltac lt_facts s :=
  repeat match goal with
  | G : get s ?c = Some _ |- _ =>
      lazymatch goal with
      | _ : c < length (conns s) |- _ => fail
      | _ => pose proof (get_lt _ _ _ G)
      end
  end.

Ltac part3 I3 :=
  let cz := fresh "cz" in let Hz := fresh "Hz" in
  intros cz Hz; unfold with_conn, with_conn_note in Hz; cbn [conns] in Hz;
  rewrite ?length_upd, ?app_length in Hz; cbn [length] in Hz; tr_simpl;
  repeat match goal with |- context [Nat.eqb ?a ?b] => destruct (Nat.eqb_spec a b); [subst; exfalso; lia|] end;
  rewrite ?app_nil_r; apply I3; lia.

Lemma ord_inv_step g s t s' : wf s -> ord_inv s -> exec g s t = Some s' -> ord_inv s'.
Proof.
  intros [WT WP] (I1 & I2 & I3) H.
  exec_cases H.
  all: try match goal with E : pending _ = Some (?p, ?c) |- _ =>
         let k := fresh "kp" in let G := fresh "Gp" in let A := fresh "Ap" in
         destruct (WP _ _ eq_refl) as (k & G & A) end.
  all: match goal with _ : panicked ?s0 = false |- _ => lt_facts s0 end.
  all: unfold pend in I2.
  all: repeat match goal with E : pending _ = _ |- _ => rewrite E in I2 end.
  all: repeat match goal with E : packets _ = _ |- _ => rewrite E in I2 end.
  all: cbn [pkts flat_map app] in I2.
  all: split; [| split; [| solve [part3 I3] ] ].
  all: try (intros cx kx G; conn_cases G).
  all: tr_simpl.
  all: try (apply I1; assumption).
  all: try assumption.
  all: try (destruct (I3 _ (le_n _)) as [R0 R1]; rewrite R0, R1; split; constructor; fail).
  all: repeat match goal with G1 : get ?s0 ?c = Some ?k1, G2 : get ?s0 ?c = Some ?k2 |- _ =>
         rewrite G1 in G2; inversion G2; subst; clear G2 end.
  all: try match goal with G : get _ ?c = Some ?k |- Forall _ _ /\ _ =>
         let F := fresh "F" in let S := fresh "S" in destruct (I1 _ _ G) as [F S];
         repeat match goal with E : readq k = _ |- _ => rewrite E in S end end.
  (* SockRecv *)
  all: try (rewrite !app_assoc; apply subseq_snoc; rewrite <- !app_assoc; exact I2).
  (* a datagram leaves the loop's hand: dropped, or lost in the panic *)
  all: try (eapply subseq_drop_mid; exact I2).
  all: try (rewrite <- app_assoc; exact I2).
  (* LoopSend *)
  all: try (split; [apply Forall_app; split; [assumption|constructor; [congruence|constructor]]
                   | rewrite app_assoc; apply subseq_snoc; assumption]).
  (* Read takes the head of readCh *)
  all: try (split; [assumption| rewrite <- app_assoc; exact S]).
  (* Close drains *)
  all: try (split; [assumption| eapply subseq_prefix; exact S]).
  all: try (split; [assumption| eapply subseq_drop_mid; exact S]).
Qed.

Lemma ord_inv_init : ord_inv init.
Proof. split; [|split]; cbn.
  - intros [|c] k H; discriminate H.
  - constructor.
  - auto. Qed.

Definition inv (s : state) : Prop := wf s /\ ord_inv s.

Lemma inv_run g ts s : run g init ts = Some s -> inv s.
Proof. intro H. eapply (run_inv inv g) in H; [exact H| |split; [apply wf_init|apply ord_inv_init]].
  intros s0 t s1 [W O] E. split; [eapply wf_step|eapply ord_inv_step]; eauto. Qed.

Lemma routed_to_sub c tr : subseq (routed_to c tr) (routed tr).
Proof. induction tr as [|e tr IH]; cbn; [constructor|].
  destruct e; cbn; auto. destruct (Nat.eqb c0 c); cbn; constructor; auto. Qed.

Lemma from_all a l : Forall (fun p => src p = a) l -> from a l = l.
Proof. intro F. apply filter_all. eapply Forall_impl; [|exact F]. cbn. intros p E. now apply Nat.eqb_eq. Qed.

(* every execution: what an association takes from its readCh is, in arrival order, a
   subsequence of the datagrams that arrived from its own address *)
Lemma reads_in_order g ts s c k :
  run g init ts = Some s -> get s c = Some k ->
  subseq (reads_of c (trace s)) (from (caddr k) (arrivals (trace s))).
Proof.
  intros R G. destruct (inv_run _ _ _ R) as [_ (I1 & I2 & _)]. destruct (I1 _ _ G) as [F S].
  eapply subseq_trans; [eapply subseq_prefix; exact S|].
  rewrite <- (from_all _ _ F).
  apply subseq_filter. eapply subseq_trans; [apply routed_to_sub|].
  eapply subseq_prefix. exact I2.
Qed.

Lemma reads_own g ts s c k p :
  run g init ts = Some s -> get s c = Some k -> In p (reads_of c (trace s)) -> src p = caddr k.
Proof.
  intros R G I. pose proof (reads_in_order _ _ _ _ _ R G) as S.
  eapply subseq_In in S; [|exact I]. unfold from in S. apply filter_In in S. now apply Nat.eqb_eq. Qed.

(* ------------------------------------------------------------------ fresh association after the close was processed *)

Lemma loop_close_forgets g s s1 a c r :
  exec g s LoopClose = Some s1 -> closeCh s = (a, c) :: r ->
  notify_identity g = false \/ lookup a (table s) = Some c \/ lookup a (table s) = None ->
  lookup a (table s1) = None.
Proof.
  intros H C Hy. unfold exec in H. destruct (panicked s); [discriminate|]. destruct (stopped s); [discriminate|].
  destruct (pending s); [discriminate|]. rewrite C in H. inversion H; subst; clear H. cbn [table].
  destruct (lookup a (table s)) as [c'|] eqn:L.
  - destruct Hy as [Hy|[Hy|Hy]]; try discriminate.
    + rewrite Hy. rewrite lookup_remove, Nat.eqb_refl. reflexivity.
    + inversion Hy; subst. rewrite Nat.eqb_refl. destruct (notify_identity g); rewrite lookup_remove, Nat.eqb_refl; reflexivity.
  - exact L.
Qed.

Definition fresh_from (n : nat) (a : addr) (s : state) : Prop :=
  (forall c, lookup a (table s) = Some c -> n <= c) /\
  (forall p c, pending s = Some (p, c) -> src p = a -> n <= c).

Lemma fresh_from_step g n a s t s' :
  n <= length (conns s) -> fresh_from n a s -> exec g s t = Some s' -> fresh_from n a s'.
Proof.
  intros Hn [T P] H.
  assert (T' : forall c, lookup a (table s') = Some c -> n <= c).
  { intros c L. destruct (table_step _ _ _ _ _ _ H L) as [L0|[-> _]]; [eauto|lia]. }
  split; [exact T'|]. intros p c L A.
  destruct (pending_step _ _ _ _ _ _ H L) as [L0|L0]; [eauto|]. subst a. eauto.
Qed.

Lemma fresh_from_run g n a : forall ts s s',
  n <= length (conns s) -> fresh_from n a s -> run g s ts = Some s' -> fresh_from n a s' /\ n <= length (conns s').
Proof. induction ts as [|t r IH]; cbn; intros s s' Hn F R.
  - inversion R; subst; auto.
  - destruct (exec g s t) eqn:E; [|discriminate].
    eapply IH; [|eapply fresh_from_step; eauto|exact R]. pose proof (exec_len _ _ _ _ E). lia. Qed.

(* once the loop has processed the close notification of the association that owns address a,
   every datagram from a that the loop takes afterwards goes to an association created afterwards *)
Lemma fresh_after_close g s s1 a c r ts s2 :
  exec g s LoopClose = Some s1 -> closeCh s = (a, c) :: r ->
  notify_identity g = false \/ lookup a (table s) = Some c \/ lookup a (table s) = None ->
  run g s1 ts = Some s2 ->
  (forall c', lookup a (table s2) = Some c' -> length (conns s1) <= c') /\
  (forall p c', pending s2 = Some (p, c') -> src p = a -> length (conns s1) <= c').
Proof.
  intros H C Hy R. pose proof (loop_close_forgets _ _ _ _ _ _ H C Hy) as L.
  assert (P1 : pending s1 = None).
  { unfold exec in H. destruct (panicked s); [discriminate|]. destruct (stopped s); [discriminate|].
    destruct (pending s); [discriminate|]. rewrite C in H. inversion H; reflexivity. }
  assert (F : fresh_from (length (conns s1)) a s1).
  { split; intros; congruence. }
  destruct (fresh_from_run g _ a ts s1 s2 (le_n _) F R) as [[T P] _]. split; assumption.
Qed.

(* the next datagram from an address without an entry creates a new association *)
Lemma absent_creates g s p l :
  panicked s = false -> stopped s = false -> pending s = None -> packets s = QPkt p :: l ->
  lookup (src p) (table s) = None ->
  exists s', exec g s LoopRecv = Some s' /\
    conns s' = conns s ++ [new_conn (src p)] /\
    lookup (src p) (table s') = Some (length (conns s)) /\
    pending s' = Some (p, length (conns s)) /\
    trace s' = trace s ++ [ENew (length (conns s)) (src p)].
Proof.
  intros P S Pe Pk L. unfold exec. rewrite P, S, Pe, Pk. unfold usable. rewrite L.
  eexists. split; [reflexivity|]. cbn. rewrite lookup_cons, Nat.eqb_refl. auto. Qed.

(* ------------------------------------------------------------------ witnesses (the code before the repair) *)

Definition D (a i : nat) (n : N) : pkt := {| src := a; pid := i; size := n |}.

(* a datagram, the handler reads it and returns, Close reaches close(readCh), a second datagram
   arrives before the loop has seen the notification: the loop sends on the closed channel *)
Definition panic_witness : list step :=
  [SockRecv (D 7 1 100%N); LoopRecv; LoopSend; ConnRead 0 9000%N; HandlerReturn 0; CloseStep 0; CloseStep 0;
   SockRecv (D 7 2 100%N); LoopRecv; LoopSend].

(* the handler never reads: five datagrams fill readCh, the loop blocks in the send of the sixth,
   the handler returns and Close closes the channel under the blocked sender *)
Definition panic_witness_blocked : list step :=
  [SockRecv (D 7 1 8%N); LoopRecv; LoopSend; SockRecv (D 7 2 8%N); LoopRecv; LoopSend; SockRecv (D 7 3 8%N); LoopRecv; LoopSend;
   SockRecv (D 7 4 8%N); LoopRecv; LoopSend; SockRecv (D 7 5 8%N); LoopRecv; LoopSend; SockRecv (D 7 6 8%N); LoopRecv;
   HandlerReturn 0; CloseStep 0; CloseStep 0; LoopSend].

Lemma legacy_panics : exists ts s, run legacy_cfg init ts = Some s /\ panicked s = true.
Proof. exists panic_witness. eexists. split; [vm_compute; reflexivity|reflexivity]. Qed.
Lemma legacy_panics_blocked : exists ts s, run legacy_cfg init ts = Some s /\ panicked s = true.
Proof. exists panic_witness_blocked. eexists. split; [vm_compute; reflexivity|reflexivity]. Qed.

(* association 0 idles out (first notification), the loop forgets it, a datagram creates
   association 1, then handler 0 returns and Close notifies again: the loop deletes the entry of
   association 1, which is alive; the next datagram creates association 2 next to it *)
Definition stale_witness : list step :=
  [SockRecv (D 7 1 8%N); LoopRecv; LoopSend; ConnRead 0 9000%N; ConnIdle 0; LoopClose;
   SockRecv (D 7 2 8%N); LoopRecv; LoopSend; ConnRead 1 9000%N;
   HandlerReturn 0; CloseStep 0; CloseStep 0; CloseStep 0; CloseStep 0; LoopClose;
   SockRecv (D 7 3 8%N); LoopRecv; LoopSend; ConnRead 2 9000%N].

Definition two_live (s : state) : Prop :=
  exists c1 c2 k1 k2, c1 <> c2 /\ get s c1 = Some k1 /\ get s c2 = Some k2 /\ caddr k1 = caddr k2 /\
    ended c1 (trace s) = false /\ ended c2 (trace s) = false.

Lemma legacy_stale_close : exists ts s, run legacy_cfg init ts = Some s /\ panicked s = false /\ two_live s.
Proof. exists stale_witness. eexists. split; [vm_compute; reflexivity|]. split; [reflexivity|].
  exists 1, 2. eexists. eexists. split; [discriminate|]. repeat split; reflexivity. Qed.

(* ------------------------------------------------------------------ one live association per address (notifications identify the association) *)

Lemma ended_app c a b : ended c (a ++ b) = ended c a || ended c b.
Proof. apply existsb_app. Qed.

Definition live_inv (s : state) : Prop :=
  (forall c k, get s c = Some k -> (cphase k <> Running \/ sclosed k = true) -> ended c (trace s) = true) /\
  (forall a c, In (a, c) (closeCh s) -> ended c (trace s) = true) /\
  (forall c k, get s c = Some k -> ended c (trace s) = false -> lookup (caddr k) (table s) = Some c).

Ltac ended_simpl :=
  unfold with_conn, with_conn_note; cbn [trace conns table closeCh];
  rewrite ?ended_app; cbn [ended existsb]; rewrite ?orb_false_r.

Lemma live_A g s t s' :
  (forall c k, get s c = Some k -> (cphase k <> Running \/ sclosed k = true) -> ended c (trace s) = true) ->
  exec g s t = Some s' ->
  (forall c k, get s' c = Some k -> (cphase k <> Running \/ sclosed k = true) -> ended c (trace s') = true).
Proof.
  intros A H. exec_cases H; intros cx kx G Hp; conn_cases G; ended_simpl; eqb_simpl.
  all: try (rewrite (A _ _ ltac:(eassumption)); [reflexivity|]; cbn in Hp; auto; fail).
  all: try (eapply A; [eassumption|]; cbn in Hp; auto; fail).
  all: try (cbn in Hp; destruct Hp; congruence).
  all: try (apply orb_true_r).
  all: try (eapply A; [eassumption|left; congruence]).
Qed.

Lemma ended_mono c tr e : ended c tr = true -> ended c (tr ++ e) = true.
Proof. intro H. rewrite ended_app, H. reflexivity. Qed.

Lemma live_B g s t s' :
  (forall c k, get s c = Some k -> (cphase k <> Running \/ sclosed k = true) -> ended c (trace s) = true) ->
  (forall a c, In (a, c) (closeCh s) -> ended c (trace s) = true) ->
  exec g s t = Some s' ->
  (forall a c, In (a, c) (closeCh s') -> ended c (trace s') = true).
Proof.
  intros A B H. exec_cases H; intros ax cx I; unfold with_conn, with_conn_note in *; cbn [closeCh trace] in *.
  all: try (apply in_app_or in I; destruct I as [I|[I|[]]]; [|inversion I; subst]).
  all: try (apply ended_mono; eapply B; eauto; fail).
  all: try (eapply B; eauto; fail).
  all: try (rewrite ?app_nil_r; eapply B; eauto; fail).
  all: try (apply ended_mono; eapply B; right; eauto; fail).
  all: try (rewrite ended_app; cbn [ended existsb]; rewrite Nat.eqb_refl; apply orb_true_r).
  all: try (rewrite app_nil_r; eapply A; [eassumption|left; congruence]).
Qed.

Lemma live_M g s t s' :
  notify_identity g = true -> wf s ->
  (forall c k, get s c = Some k -> (cphase k <> Running \/ sclosed k = true) -> ended c (trace s) = true) ->
  (forall a c, In (a, c) (closeCh s) -> ended c (trace s) = true) ->
  (forall c k, get s c = Some k -> ended c (trace s) = false -> lookup (caddr k) (table s) = Some c) ->
  exec g s t = Some s' ->
  (forall c k, get s' c = Some k -> ended c (trace s') = false -> lookup (caddr k) (table s') = Some c).
Proof.
  intros NI [WT WP] A B M H. exec_cases H; intros cx kx G Hp; conn_cases G; revert Hp; ended_simpl; eqb_simpl; intro Hp.
  all: try (apply orb_false_elim in Hp; destruct Hp as [Hp Hq]).
  all: try discriminate.
  all: try (eapply M; eauto; fail).
  all: try (cbn [caddr set_readq set_last set_phase set_rclosed set_sclosed]; eapply M; eauto; fail).
  - rewrite lookup_remove. destruct (Nat.eqb (caddr kx) a) eqn:Q.
    + apply Nat.eqb_eq in Q. subst a. exfalso. pose proof (M _ _ G Hp) as L. rewrite L in E3. inversion E3; subst c0.
      apply Nat.eqb_eq in E5. subst c. rewrite (B _ _ (or_introl eq_refl)) in Hp. discriminate.
    + eapply M; eauto.
  - cbn [caddr new_conn]. rewrite lookup_cons, Nat.eqb_refl. reflexivity.
  - rewrite lookup_cons. destruct (Nat.eqb (src p) (caddr kx)) eqn:Q.
    + exfalso. apply Nat.eqb_eq in Q. pose proof (M _ _ G Hp) as L.
      match goal with U : usable _ _ _ = None |- _ => rename U into UU end. unfold usable in UU. rewrite Q, L in UU. cbv beta iota in UU. rewrite G in UU.
      destruct (skips_closed g && sclosed kx) eqn:SK; [|discriminate].
      apply andb_prop in SK. destruct SK as [_ SK]. rewrite (A _ _ G (or_intror SK)) in Hp. discriminate.
    + rewrite lookup_remove. rewrite Nat.eqb_sym in Q. rewrite Q. eapply M; eauto.
Qed.




Lemma live_inv_init : live_inv init.
Proof. split; [|split]; cbn.
  - intros [|c] k H; discriminate H.
  - intros a c [].
  - intros [|c] k H; discriminate H. Qed.

Lemma live_inv_step g s t s' :
  notify_identity g = true -> wf s -> live_inv s -> exec g s t = Some s' -> live_inv s'.
Proof. intros NI W (A & B & M) H. split; [|split].
  - eapply live_A; eauto. - eapply live_B; eauto. - eapply live_M; eauto. Qed.

Lemma live_run g ts s : notify_identity g = true -> run g init ts = Some s -> wf s /\ live_inv s.
Proof. intros NI H. eapply (run_inv (fun s => wf s /\ live_inv s) g) in H; [exact H| |split; [apply wf_init|apply live_inv_init]].
  intros s0 t s1 [W L] E. split; [eapply wf_step|eapply live_inv_step]; eauto. Qed.

(* two associations of one address that have neither seen EOF nor returned are the same one *)
Lemma live_unique g ts s c1 c2 k1 k2 :
  notify_identity g = true -> run g init ts = Some s ->
  get s c1 = Some k1 -> get s c2 = Some k2 -> caddr k1 = caddr k2 ->
  ended c1 (trace s) = false -> ended c2 (trace s) = false -> c1 = c2.
Proof.
  intros NI R G1 G2 A E1 E2. destruct (live_run _ _ _ NI R) as [_ (_ & _ & M)].
  pose proof (M _ _ G1 E1) as L1. pose proof (M _ _ G2 E2) as L2. rewrite A in L1. congruence. Qed.

(* ------------------------------------------------------------------ the boolean acceptance conditions hold for every trace of the model *)

Lemma pkt_eqb_eq p q : pkt_eqb p q = true <-> p = q.
Proof. unfold pkt_eqb. destruct p as [a i n], q as [b j m]; cbn. split.
  - destruct (Nat.eqb i j) eqn:E1; [|discriminate]. destruct (Nat.eqb a b) eqn:E2; [|discriminate]. intro E3.
    apply Nat.eqb_eq in E1, E2. apply N.eqb_eq in E3. congruence.
  - intro H. inversion H; subst. rewrite !Nat.eqb_refl. apply N.eqb_refl. Qed.

Lemma subseq_tail {A} (x : A) l1 l2 : subseq (x :: l1) l2 -> subseq l1 l2.
Proof. intro H. eapply subseq_trans; [|exact H]. constructor. apply subseq_refl. Qed.

Lemma subseqb_complete l2 : forall l1, subseq l1 l2 -> subseqb l1 l2 = true.
Proof. induction l2 as [|y l2 IH]; intros l1 H.
  - inversion H; subst. reflexivity.
  - destruct l1 as [|x r1]; [reflexivity|]. cbn. destruct (pkt_eqb x y) eqn:E.
    + apply IH. inversion H; subst; [assumption|]. eapply subseq_tail; eauto.
    + inversion H; subst.
      * assert (pkt_eqb y y = true) by (apply pkt_eqb_eq; reflexivity). congruence.
      * apply IH. assumption. Qed.

(* ---- the ENew events list the associations with their addresses ---- *)
Definition news_inv (s : state) : Prop :=
  (forall c a, In (c, a) (news (trace s)) -> c < length (conns s)) /\
  (forall c k, get s c = Some k -> addr_in (news (trace s)) c = Some (caddr k)).

Lemma addr_in_app nw x c : 
  addr_in (nw ++ [x]) c = match addr_in nw c with Some a => Some a | None => if Nat.eqb (fst x) c then Some (snd x) else None end.
Proof. unfold addr_in. destruct x as [cx ax]. induction nw as [|[cy ay] nw IH]; simpl.
  - destruct (Nat.eqb cx c); reflexivity.
  - destruct (Nat.eqb cy c); [reflexivity|exact IH]. Qed.

Lemma addr_in_none nw c : (forall c' a, In (c', a) nw -> c' <> c) -> addr_in nw c = None.
Proof. unfold addr_in. induction nw as [|[c' a] nw IH]; cbn; intro H; [reflexivity|].
  destruct (Nat.eqb_spec c' c) as [->|N].
  - exfalso. eapply H; [left; reflexivity|reflexivity].
  - apply IH. intros. eapply H. right. eauto. Qed.

Ltac news_simpl :=
  unfold with_conn, with_conn_note; cbn [trace conns]; rewrite ?news_app; cbn [news flat_map app]; rewrite ?app_nil_r.

Lemma news_inv_step g s t s' : news_inv s -> exec g s t = Some s' -> news_inv s'.
Proof.
  intros [N1 N2] H. split.
  - pose proof (exec_len _ _ _ _ H) as Ln. intros c a. exec_cases H; news_simpl; intro I.
    all: try (apply N1 in I; unfold with_conn, with_conn_note in Ln; cbn [conns] in Ln; lia).
    apply in_app_or in I. destruct I as [I|[I|[]]].
    + apply N1 in I. rewrite app_length. cbn. lia.
    + inversion I; subst. rewrite app_length. cbn. lia.
  - exec_cases H; intros cx kx G; conn_cases G; news_simpl.
    all: try (cbn [caddr set_readq set_last set_phase set_rclosed set_sclosed]; eapply N2; eauto; fail).
    + rewrite addr_in_app. rewrite addr_in_none; [cbn; rewrite Nat.eqb_refl; reflexivity|].
      intros c' a I. apply N1 in I. lia.
    + rewrite addr_in_app. rewrite (N2 _ _ G). reflexivity.
Qed.

Lemma news_inv_init : news_inv init.
Proof. split; cbn; [tauto|]. intros [|c] k H; discriminate H. Qed.

(* ---- ownership checker ---- *)
Lemma own_ev_mono nw x e : own_ev nw e = true -> own_ev (nw ++ [x]) e = true.
Proof. destruct e; cbn; auto; rewrite addr_in_app; destruct (addr_in nw c); auto; discriminate. Qed.

Definition own_inv (s : state) : Prop :=
  (forall c k p off, get s c = Some k -> last k = Some (p, off) -> src p = caddr k) /\
  Forall (fun e => own_ev (news (trace s)) e = true) (trace s).

Lemma readq_own s c k p : ord_inv s -> get s c = Some k -> In p (readq k) -> src p = caddr k.
Proof. intros (I1 & _ & _) G I. destruct (I1 _ _ G) as [F S].
  eapply subseq_In in S; [|apply in_or_app; right; exact I].
  rewrite Forall_forall in F. auto. Qed.

Lemma own_inv_step g s t s' : ord_inv s -> news_inv s -> own_inv s -> exec g s t = Some s' -> own_inv s'.
Proof.
  intros O [N1 N2] [L F] H. split.
  - exec_cases H; intros cx kx px ox G Hl; conn_cases G;
      cbn [last caddr set_readq set_last set_phase set_rclosed set_sclosed new_conn] in *; try discriminate; eauto.
    all: try (inversion Hl; subst; eauto; fail).
    all: try (inversion Hl; subst; eapply readq_own; eauto; match goal with E : readq _ = _ |- _ => rewrite E; left; reflexivity end).
  - exec_cases H; news_simpl; rewrite ?app_nil_r; auto.
    all: try (apply Forall_app; split; [assumption|constructor; [|constructor]]; cbn [own_ev]; auto).
    all: try (rewrite (N2 _ _ ltac:(eassumption))).
    all: try (apply Nat.eqb_refl).
    all: try (apply Nat.eqb_eq; eauto; fail).
    all: try (apply Nat.eqb_eq; eapply readq_own; eauto; match goal with E : readq _ = _ |- _ => rewrite E; left; reflexivity end).
    apply Forall_app; split; [|constructor; [reflexivity|constructor]].
    eapply Forall_impl; [|exact F]. intros e He. apply own_ev_mono. exact He.
Qed.

Lemma own_inv_init : own_inv init.
Proof. split; [intros [|c] k p off H; discriminate H|constructor]. Qed.

Definition news3 (s : state) : Prop :=
  forall c a, In (c, a) (news (trace s)) -> exists k, get s c = Some k /\ caddr k = a.

Lemma news3_step g s t s' : news3 s -> exec g s t = Some s' -> news3 s'.
Proof.
  intros N H.
  assert (K : forall c a, In (c, a) (news (trace s)) -> exists k, get s' c = Some k /\ caddr k = a).
  { intros c a I. destruct (N _ _ I) as (k & G & A). destruct (exec_caddr _ _ _ _ _ _ H G) as (k' & G' & A'). exists k'. split; congruence. }
  intros c a. exec_cases H; revert K; news_simpl; intros K I; auto.
  apply in_app_or in I. destruct I as [I|[I|[]]]; [auto|]. inversion I; subst.
  eexists. split; [unfold get; cbn [conns]; rewrite nth_error_app2 by lia; rewrite Nat.sub_diag; reflexivity|reflexivity].
Qed.

Definition obs_inv (s : state) : Prop := wf s /\ ord_inv s /\ news_inv s /\ own_inv s /\ news3 s.

Lemma obs_run g ts s : run g init ts = Some s -> obs_inv s.
Proof. intro H. eapply (run_inv obs_inv g) in H; [exact H| |].
  - intros s0 t s1 (W & O & N & Ow & N3) E. split; [|split; [|split; [|split]]].
    + eapply wf_step; eauto.
    + eapply ord_inv_step; eauto.
    + eapply news_inv_step; eauto.
    + eapply own_inv_step; eauto.
    + eapply news3_step; eauto.
  - split; [|split; [|split; [|split]]].
    + apply wf_init. + apply ord_inv_init. + apply news_inv_init. + apply own_inv_init.
    + intros c a [].
Qed.

(* the boolean conditions evaluated on recorded event logs hold for every trace of the model *)
Lemma own_ok_run g ts s : run g init ts = Some s -> own_ok (trace s) = true.
Proof. intro R. destruct (obs_run _ _ _ R) as (_ & _ & _ & [_ F] & _). unfold own_ok. cbv zeta.
  apply forallb_forall. rewrite Forall_forall in F. exact F. Qed.

Lemma order_ok_run g ts s : run g init ts = Some s -> order_ok (trace s) = true.
Proof. intro R. destruct (obs_run _ _ _ R) as (_ & _ & _ & _ & N3). unfold order_ok.
  apply forallb_forall. intros [c a] I. cbn [fst snd]. destruct (N3 _ _ I) as (k & G & <-).
  apply subseqb_complete. eapply reads_in_order; eauto. Qed.

(* ---- fresh_ok ---- *)
Fixpoint acc_nw (nw : list (cid * addr)) (tr : list ev) : list (cid * addr) :=
  match tr with [] => nw | e :: r => match e with ENew c a => acc_nw ((c, a) :: nw) r | _ => acc_nw nw r end end.
Fixpoint acc_es (es : list cid) (tr : list ev) : list cid :=
  match tr with [] => es | e :: r => match e with EEof c | ERet c => acc_es (c :: es) r | _ => acc_es es r end end.

Lemma fresh_go_app tr1 tr2 : forall nw es,
  fresh_go nw es (tr1 ++ tr2) = fresh_go nw es tr1 && fresh_go (acc_nw nw tr1) (acc_es es tr1) tr2.
Proof. induction tr1 as [|e r IH]; intros nw es; [reflexivity|].
  destruct e; cbn [app fresh_go acc_nw acc_es]; rewrite ?IH; auto. rewrite andb_assoc. reflexivity. Qed.

Lemma acc_nw_in x tr : forall nw, In x (acc_nw nw tr) -> In x nw \/ In x (news tr).
Proof. induction tr as [|e r IH]; intros nw I; [auto|].
  destruct e; cbn [acc_nw] in I; cbn [news flat_map app]; try (apply IH in I; tauto).
  apply IH in I. destruct I as [[I|I]|I]; [right; left; auto|auto|right; right; exact I]. Qed.

Lemma acc_es_in c tr : forall es, nat_in c (acc_es es tr) = nat_in c es || ended c tr.
Proof. induction tr as [|e r IH]; intros es; cbn [acc_es ended existsb]; [now rewrite orb_false_r|].
  destruct e; rewrite ?IH; cbn [nat_in existsb]; auto.
  - fold (nat_in c es). fold (ended c r). rewrite (Nat.eqb_sym c c0). destruct (Nat.eqb c0 c), (nat_in c es); reflexivity.
  - fold (nat_in c es). fold (ended c r). rewrite (Nat.eqb_sym c c0). destruct (Nat.eqb c0 c), (nat_in c es); reflexivity.
Qed.

Lemma create_all_ended g s a c k :
  live_inv s -> usable g s a = None -> get s c = Some k -> caddr k = a -> ended c (trace s) = true.
Proof.
  intros (A & _ & M) U G Ca. destruct (ended c (trace s)) eqn:E; [reflexivity|exfalso].
  pose proof (M _ _ G E) as L. rewrite Ca in L. unfold usable in U. rewrite L, G in U.
  destruct (skips_closed g && sclosed k) eqn:SK; [|discriminate].
  apply andb_prop in SK. destruct SK as [_ SK]. rewrite (A _ _ G (or_intror SK)) in E. discriminate. Qed.

Lemma fresh_ok_step g s t s' :
  live_inv s -> news3 s -> fresh_ok (trace s) = true -> exec g s t = Some s' -> fresh_ok (trace s') = true.
Proof.
  intros LI N3 F H. unfold fresh_ok in *.
  exec_cases H; unfold with_conn, with_conn_note; cbn [trace]; rewrite ?app_nil_r; auto;
    rewrite fresh_go_app, F; cbn [fresh_go andb]; auto.
  rewrite andb_true_r. apply forallb_forall. intros [c' a'] I. cbn [fst snd].
  apply acc_nw_in in I. destruct I as [[]|I].
  destruct (Nat.eqb_spec a' (src p)) as [->|Ne]; [|reflexivity]. cbn [negb orb].
  rewrite acc_es_in. cbn [nat_in existsb orb].
  destruct (N3 _ _ I) as (k & G & Ca). eapply create_all_ended; eauto.
Qed.

Lemma fresh_ok_run g ts s : notify_identity g = true -> run g init ts = Some s -> fresh_ok (trace s) = true.
Proof. intros NI H.
  eapply (run_inv (fun s => (wf s /\ live_inv s) /\ news3 s /\ fresh_ok (trace s) = true) g) in H; [apply H| |].
  - intros s0 t s1 ((W & L) & N3 & F) E. split; [split|split].
    + eapply wf_step; eauto. + eapply live_inv_step; eauto. + eapply news3_step; eauto. + eapply fresh_ok_step; eauto.
  - split; [split; [apply wf_init|apply live_inv_init]|split; [intros c a []|reflexivity]].
Qed.

(* replies go to the association's own address; what it reads comes from that address *)
Lemma writes_own g ts s c w a :
  run g init ts = Some s -> In (EWrite c w a) (trace s) -> exists k, get s c = Some k /\ caddr k = a.
Proof.
  intros R I. destruct (obs_run _ _ _ R) as (_ & _ & [N1 N2] & [_ F] & N3).
  rewrite Forall_forall in F. specialize (F _ I). cbn [own_ev] in F.
  destruct (addr_in (news (trace s)) c) as [a'|] eqn:E; [|discriminate]. apply Nat.eqb_eq in F. subst a'.
  unfold addr_in in E. destruct (find (fun x => Nat.eqb (fst x) c) (news (trace s))) as [[c' a']|] eqn:Fd; [|discriminate].
  inversion E; subst a'. apply find_some in Fd. destruct Fd as [In' Eq]. cbn in Eq. apply Nat.eqb_eq in Eq. subst c'.
  exact (N3 _ _ In'). Qed.

Lemma reads_event_own g ts s c p f off len :
  run g init ts = Some s -> In (ERead c p f off len) (trace s) -> exists k, get s c = Some k /\ src p = caddr k.
Proof.
  intros R I. destruct (obs_run _ _ _ R) as (_ & _ & [N1 N2] & [_ F] & N3).
  rewrite Forall_forall in F. specialize (F _ I). cbn [own_ev] in F.
  destruct (addr_in (news (trace s)) c) as [a'|] eqn:E; [|discriminate]. apply Nat.eqb_eq in F.
  unfold addr_in in E. destruct (find (fun x => Nat.eqb (fst x) c) (news (trace s))) as [[c' a'']|] eqn:Fd; [|discriminate].
  inversion E; subst a''. apply find_some in Fd. destruct Fd as [In' Eq]. cbn in Eq. apply Nat.eqb_eq in Eq. subst c'.
  destruct (N3 _ _ In') as (k & G & Ca). exists k. split; congruence. Qed.

(* as soon as Close has signalled closure, the next datagram from that address that the loop takes
   starts a new association (code that looks at conn.closed before using the table entry) *)
Lemma closed_creates g s p l c k :
  skips_closed g = true ->
  panicked s = false -> stopped s = false -> pending s = None -> packets s = QPkt p :: l ->
  lookup (src p) (table s) = Some c -> get s c = Some k -> sclosed k = true ->
  exists s', exec g s LoopRecv = Some s' /\
    conns s' = conns s ++ [new_conn (src p)] /\
    lookup (src p) (table s') = Some (length (conns s)) /\
    pending s' = Some (p, length (conns s)).
Proof.
  intros SK P S Pe Pk L G C. unfold exec. rewrite P, S, Pe, Pk. unfold usable. rewrite L, G, SK, C. cbn [andb].
  eexists. split; [reflexivity|]. cbn. rewrite lookup_cons, Nat.eqb_refl. auto. Qed.

(* ------------------------------------------------------------------ the configuration read from the source *)

Definition cop_known (o : cop) : bool := match o with COther => false | _ => true end.

Lemma src_shape_ok :
  forallb cop_known (close_ops src_cfg) = true /\
  1 <= cap_packets src_cfg /\ 1 <= cap_close src_cfg /\ 1 <= cap_read src_cfg /\
  existsb (fun o => match o with CNotify => true | _ => false end) (close_ops src_cfg) = true /\
  read_eof_notifies src_cfg = true.
Proof. vm_compute. repeat split; try reflexivity; repeat constructor. Qed.

Lemma src_never_closes : never_closes src_cfg.
Proof. unfold never_closes. vm_compute. intuition discriminate. Qed.

Lemma src_notify_identity : notify_identity src_cfg = true.
Proof. reflexivity. Qed.

Lemma src_skips_closed : skips_closed src_cfg = true.
Proof. reflexivity. Qed.

Lemma src_no_panic ts s : run src_cfg init ts = Some s -> panicked s = false.
Proof. apply never_closes_no_panic. exact src_never_closes. Qed.

(* the histories that broke the old code, run on the configuration read from the source *)
Lemma src_survives_panic_witness :
  exists s, run src_cfg init panic_witness = Some s /\ panicked s = false /\ length (conns s) = 2.
Proof. eexists. split; [vm_compute; reflexivity|]. split; reflexivity. Qed.

Definition blocked_then_drop : list step :=
  firstn 20 panic_witness_blocked ++ [LoopDrop].
Lemma src_survives_blocked_witness :
  exists s, run src_cfg init blocked_then_drop = Some s /\ panicked s = false /\ pending s = None.
Proof. eexists. split; [vm_compute; reflexivity|]. split; reflexivity. Qed.

(* two clients interleaved, one reads through a small buffer: who got what *)
Definition demo : list step :=
  [SockRecv (D 1 0 100%N); SockRecv (D 2 1 300%N); SockRecv (D 1 2 50%N); LoopRecv; LoopSend; LoopRecv; LoopSend; LoopRecv; LoopSend;
   ConnRead 1 128%N; ConnRead 0 9000%N; ConnWrite 0 0; ConnRead 1 128%N; ConnRead 1 128%N; ConnWrite 1 1; ConnRead 0 9000%N;
   HandlerReturn 0; CloseStep 0; CloseStep 0; CloseStep 0; CloseStep 0; LoopClose; SockRecv (D 1 3 10%N); LoopRecv; LoopSend; ConnRead 2 9000%N].
Lemma demo_runs : exists s, run src_cfg init demo = Some s /\
  reads_of 0 (trace s) = [D 1 0 100%N; D 1 2 50%N] /\ reads_of 1 (trace s) = [D 2 1 300%N] /\ reads_of 2 (trace s) = [D 1 3 10%N] /\
  writes (trace s) = [(0, 0, 1); (1, 1, 2)] /\ news (trace s) = [(0, 1); (1, 2); (2, 1)] /\
  accepts src_cfg (trace s) = true.
Proof. eexists. split; [vm_compute; reflexivity|]. repeat split; vm_compute; reflexivity. Qed.

(* the stale-notification history is harmless on the source configuration: association 1 keeps its entry *)
Lemma src_stale_witness_harmless :
  exists s, run src_cfg init (firstn 16 stale_witness ++ [SockRecv (D 7 3 8%N); LoopRecv; LoopSend; ConnRead 1 9000%N]) = Some s /\
    length (conns s) = 2 /\ reads_of 1 (trace s) = [D 7 2 8%N; D 7 3 8%N].
Proof. eexists. split; [vm_compute; reflexivity|]. split; reflexivity. Qed.

(* ---- successive associations of one address are served in arrival order ---- *)
Definition routes (tr : list ev) : list (pkt * cid) :=
  flat_map (fun e => match e with ERoute p c => [(p, c)] | _ => [] end) tr.
Lemma routes_app a b : routes (a ++ b) = routes a ++ routes b.
Proof. apply flat_map_app. Qed.

(* newest first *)
Fixpoint mono (l : list (pkt * cid)) : Prop :=
  match l with
  | [] => True
  | x :: r => Forall (fun y => src (fst y) = src (fst x) -> snd y <= snd x) r /\ mono r
  end.

Definition mono_inv (s : state) : Prop :=
  Forall (fun x => snd x < length (conns s)) (routes (trace s)) /\
  (forall a ct, lookup a (table s) = Some ct -> Forall (fun x => src (fst x) = a -> snd x <= ct) (routes (trace s))) /\
  (forall p c, pending s = Some (p, c) -> lookup (src p) (table s) = Some c) /\
  mono (rev (routes (trace s))).

Ltac routes_simpl :=
  unfold with_conn, with_conn_note; cbn [trace conns table pending];
  rewrite ?routes_app; cbn [routes flat_map app]; rewrite ?app_nil_r.

Lemma Forall_lt_mono (l : list (pkt * cid)) n m : n <= m -> Forall (fun x => snd x < n) l -> Forall (fun x => snd x < m) l.
Proof. intros L F. eapply Forall_impl; [|exact F]. cbn. intros; lia. Qed.

Lemma mono_inv_step g s t s' : mono_inv s -> exec g s t = Some s' -> mono_inv s'.
Proof.
  intros (B & T & P & M) H. pose proof (exec_len _ _ _ _ H) as Ln.
  exec_cases H; unfold with_conn, with_conn_note in Ln; cbn [conns] in Ln.
  all: (split; [|split; [|split]]); routes_simpl.
  all: try (eapply Forall_lt_mono; [exact Ln|exact B]).
  all: try assumption.
  all: try (intros; discriminate).
  - intros a0 ct L. rewrite lookup_remove in L. destruct (Nat.eqb a0 a); [discriminate|]. eauto.
  - intros a0 ct L. rewrite lookup_remove in L. destruct (Nat.eqb a0 a); [discriminate|]. eauto.
  - intros p0 c0 Hp. inversion Hp; subst. eapply usable_lookup; eauto.
  - intros a ct L. rewrite lookup_cons, lookup_remove in L. destruct (Nat.eqb (src p) a) eqn:Q.
    + inversion L; subst. eapply Forall_impl; [|exact B]. cbn. intros; lia.
    + rewrite Nat.eqb_sym, Q in L. eauto.
  - intros p0 c Hp. inversion Hp; subst. rewrite lookup_cons, Nat.eqb_refl. reflexivity.
  - rewrite length_upd. apply Forall_app. split; [exact B|]. constructor; [|constructor]. cbn. eapply get_lt; eauto.
  - intros a ct L. apply Forall_app. split; [eauto|]. constructor; [|constructor]. cbn. intro Sa. subst a.
    rewrite (P _ _ eq_refl) in L. inversion L; lia.
  - rewrite rev_app_distr. cbn [rev app mono]. split; [|exact M]. cbn [fst snd].
    apply Forall_rev. apply (T _ _ (P _ _ eq_refl)).
Qed.

Lemma mono_inv_init : mono_inv init.
Proof. split; [constructor|split; [intros; discriminate|split; [intros; discriminate|exact I]]]. Qed.

Lemma mono_suffix l1 l2 : mono (l1 ++ l2) -> mono l2.
Proof. induction l1 as [|x r IH]; cbn; [auto|]. intros [_ M]. auto. Qed.

(* in the order in which the loop handed datagrams over (which is arrival order), a later datagram
   of the same address never goes to an older association *)
Lemma routes_monotone g ts s l1 p1 c1 l2 p2 c2 l3 :
  run g init ts = Some s ->
  routes (trace s) = l1 ++ (p1, c1) :: l2 ++ (p2, c2) :: l3 -> src p1 = src p2 -> c1 <= c2.
Proof.
  intros R E Sa.
  eapply (run_inv mono_inv g) in R; [|intros; eapply mono_inv_step; eauto|apply mono_inv_init].
  destruct R as (_ & _ & _ & M). rewrite E in M.
  rewrite rev_app_distr in M. cbn [rev] in M. rewrite rev_app_distr in M. cbn [rev] in M.
  rewrite <- !app_assoc in M. cbn [app] in M.
  apply mono_suffix in M. cbn [mono] in M. destruct M as [F _].
  rewrite Forall_forall in F. specialize (F (p1, c1)). cbn [fst snd] in F. apply F; [|exact Sa].
  apply in_or_app. right. left. reflexivity.
Qed.


Lemma routed_to_routes c tr :
  routed_to c tr = map fst (filter (fun x => Nat.eqb (snd x) c) (routes tr)).
Proof. induction tr as [|e tr IH]; [reflexivity|]. destruct e; cbn [routed_to routes flat_map app]; auto.
  fold (routed_to c tr). fold (routes tr). cbn [filter snd]. destruct (Nat.eqb c0 c); cbn [map fst app]; congruence. Qed.

(* ---- causal_ok ---- *)
Fixpoint acc_cs (cs : list cid) (tr : list ev) : list cid :=
  match tr with [] => cs | e :: r => match e with ENew c _ => acc_cs (c :: cs) r | _ => acc_cs cs r end end.
Fixpoint acc_ps (ps : list pkt) (tr : list ev) : list pkt :=
  match tr with [] => ps | e :: r => match e with EArr p => acc_ps (p :: ps) r | _ => acc_ps ps r end end.

Lemma causal_go_app tr1 tr2 : forall cs ps,
  causal_go cs ps (tr1 ++ tr2) = causal_go cs ps tr1 && causal_go (acc_cs cs tr1) (acc_ps ps tr1) tr2.
Proof. induction tr1 as [|e r IH]; intros cs ps; [reflexivity|].
  destruct e; cbn [app causal_go acc_cs acc_ps]; rewrite ?IH; rewrite ?andb_assoc; reflexivity. Qed.

Lemma acc_cs_in c tr : forall cs, (In c cs \/ exists a, In (c, a) (news tr)) -> nat_in c (acc_cs cs tr) = true.
Proof. induction tr as [|e r IH]; intros cs H.
  - cbn. destruct H as [H|[a []]]. unfold nat_in. apply existsb_exists. exists c. split; [exact H|apply Nat.eqb_refl].
  - destruct e; cbn [acc_cs]; apply IH; cbn [news flat_map app] in H; try tauto.
    destruct H as [H|[a0 [H|H]]].
    + left. right. exact H. + inversion H; subst. left. left. reflexivity. + right. eauto. Qed.

Lemma acc_cs_notin c tr : forall cs, ~ In c cs -> (forall a, ~ In (c, a) (news tr)) -> nat_in c (acc_cs cs tr) = false.
Proof. induction tr as [|e r IH]; intros cs H1 H2.
  - cbn. unfold nat_in. destruct (existsb (Nat.eqb c) cs) eqn:E; [|reflexivity].
    apply existsb_exists in E. destruct E as (x & I & Q). apply Nat.eqb_eq in Q. subst x. tauto.
  - destruct e; cbn [acc_cs]; cbn [news flat_map app] in H2; try (apply IH; [exact H1|exact H2]).
    apply IH.
    + intros [Q|Q]; [subst c0; eapply H2; left; reflexivity|tauto].
    + intros a0 I. eapply H2. right. exact I. Qed.

Lemma acc_ps_in p tr : forall ps, (In p ps \/ In p (arrivals tr)) -> existsb (pkt_eqb p) (acc_ps ps tr) = true.
Proof. induction tr as [|e r IH]; intros ps H.
  - cbn. destruct H as [H|[]]. apply existsb_exists. exists p. split; [exact H|]. apply pkt_eqb_eq. reflexivity.
  - destruct e; cbn [acc_ps]; apply IH; cbn [arrivals flat_map app] in H; try tauto.
    destruct H as [H|[H|H]]; [left; right; exact H|subst; left; left; reflexivity|right; exact H]. Qed.

Lemma news_has s c k : news_inv s -> get s c = Some k -> exists a, In (c, a) (news (trace s)).
Proof. intros [_ N2] G. specialize (N2 _ _ G). unfold addr_in in N2.
  destruct (find (fun x => Nat.eqb (fst x) c) (news (trace s))) as [[c' a]|] eqn:F; [|discriminate].
  apply find_some in F. destruct F as [I Q]. cbn in Q. apply Nat.eqb_eq in Q. subst c'. eauto. Qed.

Lemma readq_arrived s c k p : ord_inv s -> get s c = Some k -> In p (readq k) -> In p (arrivals (trace s)).
Proof. intros (I1 & I2 & _) G I. destruct (I1 _ _ G) as [_ S].
  eapply subseq_In in S; [|apply in_or_app; right; exact I].
  eapply subseq_In; [|eapply subseq_In; [apply routed_to_sub|exact S]].
  eapply subseq_prefix. exact I2. Qed.

Definition last_arrived (s : state) : Prop :=
  forall c k p off, get s c = Some k -> last k = Some (p, off) -> In p (arrivals (trace s)).

Lemma last_arrived_step g s t s' : ord_inv s -> last_arrived s -> exec g s t = Some s' -> last_arrived s'.
Proof.
  intros O L H. exec_cases H; intros cx kx px ox G Hl; conn_cases G;
    unfold with_conn, with_conn_note; cbn [trace]; rewrite ?arrivals_app; cbn [arrivals flat_map app]; rewrite ?app_nil_r;
    cbn [last caddr set_readq set_last set_phase set_rclosed set_sclosed new_conn] in *; try discriminate; eauto.
  all: try (apply in_or_app; left; eauto; fail).
  all: try (inversion Hl; subst; eauto; fail).
  all: try (inversion Hl; subst; eapply readq_arrived; eauto; match goal with E : readq _ = _ |- _ => rewrite E; left; reflexivity end).
Qed.

Lemma causal_ok_step g s t s' :
  ord_inv s -> news_inv s -> last_arrived s -> causal_ok (trace s) = true -> exec g s t = Some s' -> causal_ok (trace s') = true.
Proof.
  intros O N L F H. unfold causal_ok in *. pose proof N as [N1 N2].
  exec_cases H; unfold with_conn, with_conn_note; cbn [trace]; rewrite ?app_nil_r; auto;
    rewrite causal_go_app, F; cbn [causal_go andb]; rewrite ?andb_true_r; auto.
  all: repeat match goal with G : get ?s0 ?c = Some ?k |- _ =>
         lazymatch goal with | _ : In (c, _) (news (trace s0)) |- _ => fail
         | _ => let a := fresh "a" in let I := fresh "I" in destruct (news_has _ _ _ N G) as [a I] end end.
  all: try (apply acc_cs_in; right; eauto; fail).
  all: try (apply andb_true_intro; split; apply acc_cs_in; right; eauto; fail).
  all: try (apply andb_true_intro; split; [apply acc_cs_in; right; eauto|apply acc_ps_in; right]).
  all: try (eapply L; eauto; fail).
  all: try (eapply readq_arrived; eauto; match goal with E : readq _ = _ |- _ => rewrite E; left; reflexivity end).
  rewrite acc_cs_notin; [reflexivity|tauto|]. intros a I. apply N1 in I. lia.
Qed.

Lemma causal_ok_run g ts s : run g init ts = Some s -> causal_ok (trace s) = true.
Proof. intro H.
  eapply (run_inv (fun s => obs_inv s /\ last_arrived s /\ causal_ok (trace s) = true) g) in H; [apply H| |].
  - intros s0 t s1 (Ob & L & F) E. pose proof Ob as (W & O & N & Ow & N3). split; [|split].
    + split; [|split; [|split; [|split]]].
      * eapply wf_step; eauto. * eapply ord_inv_step; eauto. * eapply news_inv_step; eauto.
      * eapply own_inv_step; eauto. * eapply news3_step; eauto.
    + eapply last_arrived_step; eauto.
    + eapply causal_ok_step; eauto.
  - split; [|split].
    + split; [|split; [|split; [|split]]].
      * apply wf_init. * apply ord_inv_init. * apply news_inv_init. * apply own_inv_init. * intros c a [].
    + intros [|c] k p off G; discriminate G.
    + reflexivity.
Qed.

(* ---- an association that has returned io.EOF is forgotten once its notification is worked off ---- *)
Definition eofs (tr : list ev) : list cid := flat_map (fun e => match e with EEof c => [c] | _ => [] end) tr.
Lemma eofs_app a b : eofs (a ++ b) = eofs a ++ eofs b.
Proof. apply flat_map_app. Qed.

Definition eof_inv (s : state) : Prop :=
  (forall c, In c (eofs (trace s)) -> c < length (conns s)) /\
  forall c k, get s c = Some k -> In c (eofs (trace s)) ->
    In (caddr k, c) (closeCh s) \/ lookup (caddr k) (table s) <> Some c.

Definition notifies_reliably (g : cfg) : Prop := read_eof_notifies g = true /\ read_notify_blocking g = true.

Ltac eofs_simpl :=
  unfold with_conn, with_conn_note; cbn [trace conns table closeCh];
  rewrite ?eofs_app; cbn [eofs flat_map app]; rewrite ?app_nil_r.

Lemma eof_inv_step g s t s' : notifies_reliably g -> eof_inv s -> exec g s t = Some s' -> eof_inv s'.
Proof.
  intros [RN RB] [B K] H. split.
  { pose proof (exec_len _ _ _ _ H) as Ln. exec_cases H; try congruence; intros cx; eofs_simpl; intro I.
    all: unfold with_conn, with_conn_note in Ln; cbn [conns] in Ln.
    all: try (apply B in I; lia).
    all: apply in_app_or in I; destruct I as [I|[I|[]]]; [apply B in I; lia|subst; rewrite length_upd; eapply get_lt; eauto]. }
  exec_cases H; try congruence; intros cx kx G; conn_cases G; eofs_simpl; intro I.
  all: cbn [caddr set_readq set_last set_phase set_rclosed set_sclosed new_conn].
  all: try (apply in_app_or in I; destruct I as [I|[I|[]]]).
  all: try (eapply K; eauto; fail).
  all: try (destruct (K _ _ ltac:(eassumption) I) as [J|J]; [left; apply in_or_app; left; exact J|right; exact J]; fail).
  all: try (left; apply in_or_app; right; left; reflexivity).
  all: try (apply B in I; lia).
  all: try (exfalso; congruence).
  (* LoopClose *)
  all: try (destruct (K _ _ G I) as [[J|J]|J];
            [ inversion J; subst; right; rewrite ?lookup_remove, ?Nat.eqb_refl; try discriminate
            | left; exact J
            | right; rewrite ?lookup_remove; try (destruct (Nat.eqb (caddr kx) a)); [discriminate|exact J] || exact J ]).
  - destruct (K _ _ G I) as [[J|J]|J]; [|left; exact J|right; exact J].
    inversion J; subst. right. rewrite E3. intro Q. inversion Q; subst. rewrite Nat.eqb_refl in E5. discriminate.
  - destruct (K _ _ G I) as [[J|J]|J]; [|left; exact J|right; exact J].
    inversion J; subst. right. match goal with L : lookup _ _ = None |- _ => rewrite L end. discriminate.
  - destruct (K _ _ G I) as [J|J]; [left; exact J|right].
    rewrite lookup_cons. destruct (Nat.eqb (src p) (caddr kx)) eqn:Q.
    + intro Z. inversion Z. apply get_lt in G. lia.
    + rewrite lookup_remove. rewrite Nat.eqb_sym in Q. rewrite Q. exact J.
Qed.

Lemma eof_inv_init : eof_inv init.
Proof. split; [intros c []|intros c k _ []]. Qed.

(* every execution of a configuration whose Read notifies with a blocking send: an association
   that has returned io.EOF and whose notification is no longer queued does not own a table entry,
   so the loop cannot hand it another datagram it takes from now on *)
Lemma eof_forgotten g ts s c k :
  notifies_reliably g -> run g init ts = Some s ->
  get s c = Some k -> In c (eofs (trace s)) -> ~ In (caddr k, c) (closeCh s) ->
  lookup (caddr k) (table s) <> Some c.
Proof.
  intros NR R G I NQ. eapply (run_inv eof_inv g) in R; [|intros; eapply eof_inv_step; eauto|apply eof_inv_init].
  destruct R as [_ K]. destruct (K _ _ G I) as [J|J]; [contradiction|exact J]. Qed.

Lemma src_notifies_reliably : notifies_reliably src_cfg.
Proof. split; reflexivity. Qed.

(* the lossy variant: victim (address 1) gets association 0; ten short-lived associations
   (addresses 10..19) and a slow one (address 2) follow; the slow handler does not read, so the
   loop blocks in its send; the ten handlers return and their notifications fill closeCh; the
   victim idles out - its notification is dropped; the slow handler reads, the loop works
   everything off; a later datagram of the victim is handed to association 0, which has ended *)
Definition closer_arrive (i : nat) : list step := [SockRecv (D (10 + i) (1 + i) 8%N); LoopRecv; LoopSend].
Definition closer_finish (i : nat) : list step :=
  [HandlerReturn (1 + i); CloseStep (1 + i); CloseStep (1 + i); CloseStep (1 + i); CloseStep (1 + i)].
Definition lossy_witness : list step :=
  [SockRecv (D 1 0 8%N); LoopRecv; LoopSend; ConnRead 0 9000%N] ++
  flat_map closer_arrive (seq 0 10) ++
  flat_map (fun i => [SockRecv (D 2 (20 + i) 8%N); LoopRecv; LoopSend]) (seq 0 5) ++
  [SockRecv (D 2 25 8%N); LoopRecv] ++
  flat_map closer_finish (seq 0 10) ++
  [ConnIdle 0; ConnRead 11 9000%N; LoopSend] ++ repeat LoopClose 10 ++
  [SockRecv (D 1 30 8%N); LoopRecv].

Lemma lossy_serves_ended_association :
  exists s, run lossy_cfg init lossy_witness = Some s /\
    In 0 (eofs (trace s)) /\ closeCh s = [] /\ pending s = Some (D 1 30 8%N, 0) /\ length (conns s) = 12.
Proof. eexists. split; [vm_compute; reflexivity|]. repeat split; vm_compute; auto. Qed.

(* the same history on the source configuration is not an execution: Read blocks in its send *)
Lemma src_blocks_instead : run src_cfg init lossy_witness = None.
Proof. vm_compute. reflexivity. Qed.

(* ------------------------------------------------------------------ Read after Close *)

(* the Close statement that releases lastPacket leaves no remainder behind *)
Lemma close_release_clears g s s' c k i :
  exec g s (CloseStep c) = Some s' -> get s c = Some k -> cphase k = Closing i ->
  nth_error (close_ops g) i = Some CRelease ->
  exists k', get s' c = Some k' /\ last k' = None /\ cphase k' = Closing (S i).
Proof.
  intros H G P O. unfold exec in H. destruct (panicked s); [discriminate|]. rewrite G, P, O in H.
  inversion H; subst; clear H. unfold get, with_conn; cbn [conns].
  rewrite nth_error_upd_same by (eapply get_lt; eauto). eexists. split; [reflexivity|]. split; reflexivity. Qed.

(* without a remainder and with an empty readCh, Read returns no bytes ... *)
Lemma read_nothing_held g s c k n :
  get s c = Some k -> last k = None -> readq k = [] -> exec g s (ConnRead c n) = None.
Proof. intros G L Q. unfold exec. destruct (panicked s); [reflexivity|]. rewrite G, L, Q. reflexivity. Qed.

(* ... and on an association whose Close has signalled closure it returns io.EOF *)
Lemma read_closed_eof g s c k :
  panicked s = false -> read_selects_closed g = true -> get s c = Some k -> sclosed k = true -> last k = None ->
  length (closeCh s) < cap_close g ->
  exists s', exec g s (ConnEof c) = Some s' /\ trace s' = trace s ++ [EEof c].
Proof.
  intros P R G S L Cap. unfold exec. rewrite P, G, L, R, S. rewrite orb_true_r.
  apply Nat.ltb_lt in Cap. rewrite Cap.
  destruct (read_eof_notifies g); eexists; split; reflexivity. Qed.

Lemma src_close_releases_first :
  nth_error (close_ops src_cfg) 0 = Some CRelease /\ read_selects_closed src_cfg = true.
Proof. split; reflexivity. Qed.

(* a large datagram read in part, Close, then Read again: EOF, no bytes *)
Definition read_after_close : list step :=
  [SockRecv (D 1 0 9000%N); LoopRecv; LoopSend; ConnRead 0 2048%N; HandlerReturn 0;
   CloseStep 0; CloseStep 0; CloseStep 0; CloseStep 0; CloseStep 0].
Lemma src_read_after_close :
  exists s, run src_cfg init read_after_close = Some s /\
    exec src_cfg s (ConnRead 0 2048%N) = None /\
    (exists s', exec src_cfg s (ConnEof 0) = Some s' /\ List.last (trace s') EStop = EEof 0) /\
    chunks_ok (trace s ++ [ERead 0 (D 1 0 9000%N) false 2048%N 2048%N]) = false.
Proof. eexists. split; [vm_compute; reflexivity|]. split; [reflexivity|]. split; [eexists; split; vm_compute; reflexivity|reflexivity]. Qed.

(* ---- no end of stream without a cause ---- *)
Fixpoint acc_rs (rs : list cid) (tr : list ev) : list cid :=
  match tr with [] => rs | e :: r => match e with ERet c => acc_rs (c :: rs) r | _ => acc_rs rs r end end.
Fixpoint acc_idle (idle : option cid) (tr : list ev) : option cid :=
  match tr with [] => idle | e :: r => acc_idle (match e with EIdle c => Some c | _ => None end) r end.

Lemma eofc_go_app tr1 tr2 : forall rs idle,
  eofc_go rs idle (tr1 ++ tr2) = eofc_go rs idle tr1 && eofc_go (acc_rs rs tr1) (acc_idle idle tr1) tr2.
Proof. induction tr1 as [|e r IH]; intros rs idle; [reflexivity|].
  destruct e; cbn [app eofc_go acc_rs acc_idle]; rewrite ?IH; rewrite ?andb_assoc; reflexivity. Qed.

Lemma acc_rs_in c tr : forall rs, (In c rs \/ In (ERet c) tr) -> nat_in c (acc_rs rs tr) = true.
Proof. induction tr as [|e r IH]; intros rs H.
  - cbn. destruct H as [H|[]]. unfold nat_in. apply existsb_exists. exists c. split; [exact H|apply Nat.eqb_refl].
  - destruct e; cbn [acc_rs]; apply IH; destruct H as [H|[H|H]]; try discriminate; auto.
    + left. right. exact H. + inversion H; subst. left. left. reflexivity. Qed.

Definition ret_inv (s : state) : Prop :=
  forall c k, get s c = Some k -> (cphase k <> Running \/ sclosed k = true \/ rclosed k = true) -> In (ERet c) (trace s).

Lemma ret_inv_step g s t s' : ret_inv s -> exec g s t = Some s' -> ret_inv s'.
Proof.
  intros A H. exec_cases H; intros cx kx G Hp; conn_cases G; unfold with_conn, with_conn_note; cbn [trace]; rewrite ?app_nil_r.
  all: cbn [cphase sclosed rclosed set_readq set_last set_phase set_rclosed set_sclosed new_conn] in Hp.
  all: try (apply in_or_app; right; left; reflexivity).
  all: try (apply in_or_app; left).
  all: try (eapply A; eauto; fail).
  all: try (destruct Hp as [Hp|[Hp|Hp]]; congruence).
  all: try (eapply A; [eassumption|left; congruence]).
Qed.

Lemma ret_inv_init : ret_inv init.
Proof. intros [|c] k H; discriminate H. Qed.

Lemma eofc_ok_step g s t s' : ret_inv s -> eofc_ok (trace s) = true -> exec g s t = Some s' -> eofc_ok (trace s') = true.
Proof.
  intros A F H. unfold eofc_ok in *.
  exec_cases H; unfold with_conn, with_conn_note; cbn [trace]; rewrite ?app_nil_r; auto;
    rewrite eofc_go_app, F; cbn [eofc_go andb]; rewrite ?andb_true_r; auto.
  all: try (rewrite Nat.eqb_refl; reflexivity).
  all: try (apply orb_true_iff; right; apply acc_rs_in; right; eapply A; [eassumption|]).
  all: match goal with E : _ || _ = true |- _ => apply orb_true_iff in E; destruct E as [E|E]; apply andb_prop in E; destruct E as [E1' E2'] end.
  all: try (right; right; assumption).
  all: right; left; assumption.
Qed.

Lemma eofc_ok_run g ts s : run g init ts = Some s -> eofc_ok (trace s) = true.
Proof. intro H.
  eapply (run_inv (fun s => ret_inv s /\ eofc_ok (trace s) = true) g) in H; [apply H| |split; [apply ret_inv_init|reflexivity]].
  intros s0 t s1 [A F] E. split; [eapply ret_inv_step|eapply eofc_ok_step]; eauto. Qed.

(* Read returns io.EOF through the closed path only after Close has begun *)
Lemma eof_needs_close g ts s s' c k :
  run g init ts = Some s -> exec g s (ConnEof c) = Some s' -> get s c = Some k -> In (ERet c) (trace s).
Proof.
  intros R H G. eapply (run_inv ret_inv g) in R; [|intros; eapply ret_inv_step; eauto|apply ret_inv_init].
  unfold exec in H. destruct (panicked s); [discriminate|]. rewrite G in H. destruct (last k); [discriminate|].
  destruct (rclosed k && match readq k with [] => true | _ :: _ => false end || read_selects_closed g && sclosed k) eqn:E; [|discriminate].
  apply orb_true_iff in E. destruct E as [E|E]; apply andb_prop in E; destruct E as [E1 E2]; eapply R; eauto. Qed.

(* a datagram that fits the caller's buffer exactly is consumed entirely: nothing is kept *)
Lemma exact_fit_clears g s c k p q n :
  panicked s = false -> get s c = Some k -> last k = None -> readq k = p :: q -> (size p <= n)%N ->
  exists s' k', exec g s (ConnRead c n) = Some s' /\ get s' c = Some k' /\ last k' = None /\ readq k' = q /\
    trace s' = trace s ++ [ERead c p true 0%N (size p)].
Proof.
  intros P G L Q Le. unfold exec. rewrite P, G, L, Q. rewrite (N.min_r n (size p)) by exact Le.
  rewrite N.ltb_irrefl. eexists. eexists. split; [reflexivity|]. unfold get, with_conn; cbn [conns trace].
  rewrite nth_error_upd_same by (eapply get_lt; eauto). repeat split; reflexivity. Qed.

