(* Lemmas for C09 over model/Udp.v: invariants of every execution of the channel-level state
   machine (induction over the step list). *)
From Coq Require Import List Arith ZArith NArith Lia Bool.
From L4.gen Require Import Shape.
From L4.model Require Import Udp.
Import ListNotations.
Close Scope Z_scope.
Open Scope nat_scope.

(* ------------------------------------------------------------------ lists *)

Lemma nth_error_upd_same {A} (l : list A) i x : i < length l -> nth_error (upd l i x) i = Some x.
Proof. revert i; induction l as [|y r IH]; intros [|i] H; cbn in *; try lia; auto. apply IH; lia. Qed.
Lemma nth_error_upd_other {A} (l : list A) i j x : i <> j -> nth_error (upd l i x) j = nth_error l j.
Proof. revert i j; induction l as [|y r IH]; intros [|i] [|j] H; cbn; auto; try congruence. Qed.
Lemma length_upd {A} (l : list A) i x : length (upd l i x) = length l.
Proof. revert i; induction l as [|y r IH]; intros [|i]; cbn; auto. Qed.
Lemma map_upd {A B} (f : A -> B) (l : list A) i x y :
  nth_error l i = Some y -> f x = f y -> map f (upd l i x) = map f l.
Proof. revert i; induction l as [|z r IH]; intros [|i] H E; cbn in *; try discriminate; auto.
  - inversion H; subst. now rewrite E. - f_equal. eauto. Qed.

Lemma get_lt s c k : get s c = Some k -> c < length (conns s).
Proof. unfold get. intro H. apply nth_error_Some. congruence. Qed.

Lemma subseq_refl {A} (l : list A) : subseq l l.
Proof. induction l; constructor; auto. Qed.
Lemma subseq_app_r {A} (l1 l2 r : list A) : subseq l1 l2 -> subseq l1 (l2 ++ r).
Proof. induction 1; cbn; constructor; auto. Qed.
Lemma subseq_snoc {A} (l1 l2 : list A) x : subseq l1 l2 -> subseq (l1 ++ [x]) (l2 ++ [x]).
Proof. induction 1; cbn.
  - induction l as [|y l IH]; cbn; [repeat constructor|]. now apply sub_skip.
  - now constructor. - now constructor. Qed.
Lemma subseq_trans {A} (l1 l2 l3 : list A) : subseq l1 l2 -> subseq l2 l3 -> subseq l1 l3.
Proof. intros H12 H23. revert l1 H12. induction H23; intros l0 H12.
  - inversion H12; subst. constructor.
  - inversion H12; subst; constructor; auto.
  - constructor. auto. Qed.
Lemma subseq_drop_mid {A} (l1 l2 l : list A) x : subseq (l1 ++ x :: l2) l -> subseq (l1 ++ l2) l.
Proof. intro H. eapply subseq_trans; [|exact H]. clear H.
  induction l1; cbn; [constructor; apply subseq_refl|constructor; auto]. Qed.
Lemma subseq_app_l {A} (l1 l2 : list A) : subseq l1 (l1 ++ l2).
Proof. apply subseq_app_r, subseq_refl. Qed.
Lemma subseq_prefix {A} (l1 l2 l : list A) : subseq (l1 ++ l2) l -> subseq l1 l.
Proof. intro H. eapply subseq_trans; [apply subseq_app_l|exact H]. Qed.
Lemma subseq_filter {A} (f : A -> bool) l1 l2 : subseq l1 l2 -> subseq (filter f l1) (filter f l2).
Proof. induction 1; cbn; try constructor.
  - destruct (f x); [constructor|]; auto. - destruct (f x); [constructor|]; auto. Qed.
Lemma filter_all {A} (f : A -> bool) l : Forall (fun x => f x = true) l -> filter f l = l.
Proof. induction 1; cbn; auto. rewrite H. now f_equal. Qed.
Lemma subseq_In {A} (l1 l2 : list A) x : subseq l1 l2 -> In x l1 -> In x l2.
Proof. induction 1; cbn; intros; tauto. Qed.
Lemma subseq_NoDup {A} (l1 l2 : list A) : subseq l1 l2 -> NoDup l2 -> NoDup l1.
Proof. induction 1; intro N; [constructor| |].
  - inversion N; subst. constructor; auto. intro. eapply H2, subseq_In; eauto.
  - inversion N; auto. Qed.

(* ------------------------------------------------------------------ table *)

Lemma lookup_cons a c t a' : lookup a' ((a, c) :: t) = if Nat.eqb a a' then Some c else lookup a' t.
Proof. unfold lookup. cbn. destruct (Nat.eqb a a'); reflexivity. Qed.
Lemma lookup_remove a t a' : lookup a' (remove a t) = if Nat.eqb a' a then None else lookup a' t.
Proof. unfold lookup, remove. destruct (Nat.eqb a' a) eqn:E.
  - apply Nat.eqb_eq in E; subst. induction t as [|[b c] t IH]; cbn; [reflexivity|].
    destruct (Nat.eqb b a) eqn:E1; cbn; [exact IH|]. rewrite E1. exact IH.
  - induction t as [|[b c] t IH]; cbn; [reflexivity|].
    destruct (Nat.eqb b a) eqn:E1; cbn.
    + apply Nat.eqb_eq in E1; subst. rewrite Nat.eqb_sym, E. exact IH.
    + destruct (Nat.eqb b a'); [reflexivity|exact IH]. Qed.

(* ------------------------------------------------------------------ case analysis of a step *)

Ltac break_match H :=
  repeat match type of H with
  | context [match ?x with _ => _ end] =>
      match x with
      | context [match _ with _ => _ end] => fail 1
      | _ => let E := fresh "E" in destruct x eqn:E; try discriminate H
      end
  end.

Ltac exec_cases H :=
  unfold exec in H;
  match type of H with context [if panicked ?s then _ else _] =>
    let Epan := fresh "Epan" in destruct (panicked s) eqn:Epan; [discriminate H|] end;
  match type of H with context [match ?t with SockRecv _ => _ | _ => _ end] => destruct t end;
  break_match H; inversion H; subst; clear H.

Lemma get_upd s c k' c0 k0 k :
  get s c = Some k ->
  nth_error (upd (conns s) c k') c0 = Some k0 ->
  (c0 = c /\ k0 = k') \/ (c0 <> c /\ get s c0 = Some k0).
Proof. intros G H. destruct (Nat.eq_dec c0 c) as [->|N].
  - rewrite nth_error_upd_same in H by (eapply get_lt; eauto). left. split; congruence.
  - rewrite nth_error_upd_other in H by congruence. right. auto. Qed.

Lemma get_snoc s k' c0 k0 :
  nth_error (conns s ++ [k']) c0 = Some k0 ->
  (c0 = length (conns s) /\ k0 = k') \/ (c0 < length (conns s) /\ get s c0 = Some k0).
Proof. intro H. destruct (Nat.lt_ge_cases c0 (length (conns s))).
  - rewrite nth_error_app1 in H by auto. right. auto.
  - rewrite nth_error_app2 in H by auto. destruct (c0 - length (conns s)) eqn:E.
    + cbn in H. left. split; [lia|congruence]. + cbn in H. destruct n; discriminate. Qed.

(* G : get s' cx = Some kx for the successor state of a step: which association is it *)
Ltac conn_cases G :=
  unfold get, with_conn, with_conn_note in G; cbn [conns] in G;
  first [ eapply get_upd in G; [|eassumption]; destruct G as [[-> ->]|[? G]]
        | eapply get_snoc in G; destruct G as [[-> ->]|[? G]]
        | idtac ].

(* ------------------------------------------------------------------ the loop never panics unless readCh is closed *)

Definition never_closes (g : cfg) : Prop := ~ In CCloseRead (close_ops g).
Definition open_inv (s : state) : Prop :=
  panicked s = false /\ forall c k, get s c = Some k -> rclosed k = false.

Lemma open_inv_step g s t s' : never_closes g -> open_inv s -> exec g s t = Some s' -> open_inv s'.
Proof.
  intros NC [P I] H. exec_cases H;
  try (match goal with E: rclosed ?k = true, G: get s ?c = Some ?k |- _ => rewrite (I _ _ G) in E; discriminate E end);
  (split; [cbn; auto|]); intros cx kx G; conn_cases G; cbn; eauto.
  all: try (exfalso; apply NC; eapply nth_error_In; eassumption).
Qed.

Lemma open_inv_init : open_inv init.
Proof. split; [reflexivity|]. intros [|c] k H; discriminate H. Qed.

Lemma run_inv (P : state -> Prop) g :
  (forall s t s', P s -> exec g s t = Some s' -> P s') ->
  forall ts s s', P s -> run g s ts = Some s' -> P s'.
Proof. intros St. induction ts as [|t r IH]; cbn; intros s s' Hs H.
  - congruence. - destruct (exec g s t) eqn:E; [|discriminate]. eauto. Qed.

Lemma never_closes_no_panic g ts s : never_closes g -> run g init ts = Some s -> panicked s = false.
Proof. intros NC H. eapply (run_inv open_inv g) in H; [apply H| |apply open_inv_init].
  intros; eapply open_inv_step; eauto. Qed.

(* a panic is always a send on a closed readCh, and once it happened nothing runs *)
Lemma panicked_stuck g s t : panicked s = true -> exec g s t = None.
Proof. intro H. unfold exec. now rewrite H. Qed.

(* ------------------------------------------------------------------ well-formed table / addresses are stable *)

Lemma exec_caddr g s t s' c k :
  exec g s t = Some s' -> get s c = Some k -> exists k', get s' c = Some k' /\ caddr k' = caddr k.
Proof.
  intros H G. exec_cases H; unfold get, with_conn, with_conn_note in *; cbn [conns] in *; eauto;
  try (match goal with G' : nth_error (conns s) ?c' = Some ?k' |- context [upd (conns s) ?c' ?x] =>
         destruct (Nat.eq_dec c c') as [->|N];
         [ rewrite nth_error_upd_same by (apply nth_error_Some; congruence);
           eexists; split; [reflexivity|]; cbn; congruence
         | rewrite nth_error_upd_other by congruence; eauto ] end).
  all: rewrite nth_error_app1 by (apply nth_error_Some; congruence); eauto.
Qed.

Lemma exec_len g s t s' : exec g s t = Some s' -> length (conns s) <= length (conns s').
Proof. intro H. exec_cases H; unfold with_conn, with_conn_note; cbn [conns];
  rewrite ?length_upd, ?app_length; cbn; lia. Qed.

Lemma usable_lookup g s a c : usable g s a = Some c -> lookup a (table s) = Some c.
Proof. unfold usable. destruct (lookup a (table s)); [|discriminate].
  destruct (get s c0); [|discriminate]. destruct (skips_closed g && sclosed c1); congruence. Qed.

Definition wf (s : state) : Prop :=
  (forall a c, lookup a (table s) = Some c -> exists k, get s c = Some k /\ caddr k = a) /\
  (forall p c, pending s = Some (p, c) -> exists k, get s c = Some k /\ caddr k = src p).

Lemma wf_init : wf init.
Proof. split; intros; discriminate. Qed.
Lemma table_step g s t s' a c :
  exec g s t = Some s' -> lookup a (table s') = Some c ->
  lookup a (table s) = Some c \/ (c = length (conns s) /\ get s' c = Some (new_conn a)).
Proof.
  intros H L. exec_cases H; unfold with_conn, with_conn_note in L; cbn [table] in L; auto.
  all: try (rewrite lookup_remove in L; match type of L with context [Nat.eqb ?x ?y] => destruct (Nat.eqb x y) end; [discriminate|auto]; fail).
  rewrite lookup_cons, lookup_remove in L. destruct (Nat.eqb (src p) a) eqn:E1'.
  + apply Nat.eqb_eq in E1'. subst a. inversion L; subst. right. split; [reflexivity|].
    unfold get; cbn [conns]. rewrite nth_error_app2 by lia. rewrite Nat.sub_diag. reflexivity.
  + rewrite Nat.eqb_sym, E1' in L. auto.
Qed.

Lemma pending_step g s t s' p c :
  exec g s t = Some s' -> pending s' = Some (p, c) ->
  pending s = Some (p, c) \/ lookup (src p) (table s') = Some c.
Proof.
  intros H L. exec_cases H; unfold with_conn, with_conn_note in L; cbn [pending table] in *; auto; try discriminate.
  - inversion L; subst. right. eapply usable_lookup; eauto.
  - inversion L; subst. right. rewrite lookup_cons, Nat.eqb_refl. reflexivity.
Qed.

Lemma wf_step g s t s' : wf s -> exec g s t = Some s' -> wf s'.
Proof.
  intros [T P] H.
  assert (T' : forall a c, lookup a (table s') = Some c -> exists k, get s' c = Some k /\ caddr k = a).
  { intros a c L. destruct (table_step _ _ _ _ _ _ H L) as [L0|[-> G]].
    - destruct (T _ _ L0) as (k & G & A). destruct (exec_caddr _ _ _ _ _ _ H G) as (k' & G' & A'). exists k'. split; congruence.
    - eexists; split; [exact G|reflexivity]. }
  split; [exact T'|].
  intros p c L. destruct (pending_step _ _ _ _ _ _ H L) as [L0|L0].
  - destruct (P _ _ L0) as (k & G & A). destruct (exec_caddr _ _ _ _ _ _ H G) as (k' & G' & A'). exists k'. split; congruence.
  - auto.
Qed.

(* ------------------------------------------------------------------ projections of the trace *)

Lemma arrivals_app a b : arrivals (a ++ b) = arrivals a ++ arrivals b.
Proof. apply flat_map_app. Qed.
Lemma reads_of_app c a b : reads_of c (a ++ b) = reads_of c a ++ reads_of c b.
Proof. apply flat_map_app. Qed.
Lemma routed_to_app c a b : routed_to c (a ++ b) = routed_to c a ++ routed_to c b.
Proof. apply flat_map_app. Qed.
Lemma routed_app a b : routed (a ++ b) = routed a ++ routed b.
Proof. apply flat_map_app. Qed.
Lemma writes_app a b : writes (a ++ b) = writes a ++ writes b.
Proof. apply flat_map_app. Qed.
Lemma news_app a b : news (a ++ b) = news a ++ news b.
Proof. apply flat_map_app. Qed.

Definition pkts (q : list qitem) : list pkt :=
  flat_map (fun i => match i with QPkt p => [p] | QErr => [] end) q.
Definition pend (s : state) : list pkt := match pending s with Some (p, _) => [p] | None => [] end.
Lemma pkts_app a b : pkts (a ++ b) = pkts a ++ pkts b.
Proof. apply flat_map_app. Qed.

(* ------------------------------------------------------------------ order / ownership invariant *)

Definition ord_inv (s : state) : Prop :=
  (forall c k, get s c = Some k ->
       Forall (fun p => src p = caddr k) (routed_to c (trace s)) /\
       subseq (reads_of c (trace s) ++ readq k) (routed_to c (trace s))) /\
  subseq (routed (trace s) ++ pend s ++ pkts (packets s)) (arrivals (trace s)) /\
  (forall c, length (conns s) <= c -> routed_to c (trace s) = [] /\ reads_of c (trace s) = []).

Ltac eqb_simpl :=
  rewrite ?Nat.eqb_refl;
  repeat match goal with
  | N : ?a <> ?b |- context [Nat.eqb ?b ?a] => rewrite (proj2 (Nat.eqb_neq b a)) by congruence
  | N : ?a <> ?b |- context [Nat.eqb ?a ?b] => rewrite (proj2 (Nat.eqb_neq a b)) by congruence
  end.

Ltac tr_simpl :=
  unfold with_conn, with_conn_note, pend; cbn [trace conns packets pending readq caddr set_readq set_last set_phase set_rclosed set_sclosed new_conn];
  rewrite ?arrivals_app, ?reads_of_app, ?routed_to_app, ?routed_app, ?pkts_app;
  cbn [arrivals reads_of routed_to routed pkts flat_map app]; eqb_simpl; rewrite ?app_nil_r.


Ltac lt_facts s :=
  repeat match goal with
  | G : get s ?c = Some _ |- _ =>
      lazymatch goal with
      | _ : c < length (conns s) |- _ => fail
      | _ => pose proof (get_lt _ _ _ G)
      end
  end.

Ltac part3 I3 :=
  let cz := fresh "cz" in let Hz := fresh "Hz" in
  intros cz Hz; unfold with_conn, with_conn_note in Hz; cbn [conns] in Hz;
  rewrite ?length_upd, ?app_length in Hz; cbn [length] in Hz; tr_simpl;
  repeat match goal with |- context [Nat.eqb ?a ?b] => destruct (Nat.eqb_spec a b); [subst; exfalso; lia|] end;
  rewrite ?app_nil_r; apply I3; lia.

Lemma ord_inv_step g s t s' : wf s -> ord_inv s -> exec g s t = Some s' -> ord_inv s'.
Proof.
  intros [WT WP] (I1 & I2 & I3) H.
  exec_cases H.
  all: try match goal with E : pending _ = Some (?p, ?c) |- _ =>
         let k := fresh "kp" in let G := fresh "Gp" in let A := fresh "Ap" in
         destruct (WP _ _ eq_refl) as (k & G & A) end.
  all: match goal with _ : panicked ?s0 = false |- _ => lt_facts s0 end.
  all: unfold pend in I2.
  all: repeat match goal with E : pending _ = _ |- _ => rewrite E in I2 end.
  all: repeat match goal with E : packets _ = _ |- _ => rewrite E in I2 end.
  all: cbn [pkts flat_map app] in I2.
  all: split; [| split; [| solve [part3 I3] ] ].
  all: try (intros cx kx G; conn_cases G).
  all: tr_simpl.
  all: try (apply I1; assumption).
  all: try assumption.
  all: try (destruct (I3 _ (le_n _)) as [R0 R1]; rewrite R0, R1; split; constructor; fail).
  all: repeat match goal with G1 : get ?s0 ?c = Some ?k1, G2 : get ?s0 ?c = Some ?k2 |- _ =>
         rewrite G1 in G2; inversion G2; subst; clear G2 end.
  all: try match goal with G : get _ ?c = Some ?k |- Forall _ _ /\ _ =>
         let F := fresh "F" in let S := fresh "S" in destruct (I1 _ _ G) as [F S];
         repeat match goal with E : readq k = _ |- _ => rewrite E in S end end.
  (* SockRecv *)
  all: try (rewrite !app_assoc; apply subseq_snoc; rewrite <- !app_assoc; exact I2).
  (* a datagram leaves the loop's hand: dropped, or lost in the panic *)
  all: try (eapply subseq_drop_mid; exact I2).
  all: try (rewrite <- app_assoc; exact I2).
  (* LoopSend *)
  all: try (split; [apply Forall_app; split; [assumption|constructor; [congruence|constructor]]
                   | rewrite app_assoc; apply subseq_snoc; assumption]).
  (* Read takes the head of readCh *)
  all: try (split; [assumption| rewrite <- app_assoc; exact S]).
  (* Close drains *)
  all: try (split; [assumption| eapply subseq_prefix; exact S]).
  all: try (split; [assumption| eapply subseq_drop_mid; exact S]).
Qed.

Lemma ord_inv_init : ord_inv init.
Proof. split; [|split]; cbn.
  - intros [|c] k H; discriminate H.
  - constructor.
  - auto. Qed.

Definition inv (s : state) : Prop := wf s /\ ord_inv s.

Lemma inv_run g ts s : run g init ts = Some s -> inv s.
Proof. intro H. eapply (run_inv inv g) in H; [exact H| |split; [apply wf_init|apply ord_inv_init]].
  intros s0 t s1 [W O] E. split; [eapply wf_step|eapply ord_inv_step]; eauto. Qed.

Lemma routed_to_sub c tr : subseq (routed_to c tr) (routed tr).
Proof. induction tr as [|e tr IH]; cbn; [constructor|].
  destruct e; cbn; auto. destruct (Nat.eqb c0 c); cbn; constructor; auto. Qed.

Lemma from_all a l : Forall (fun p => src p = a) l -> from a l = l.
Proof. intro F. apply filter_all. eapply Forall_impl; [|exact F]. cbn. intros p E. now apply Nat.eqb_eq. Qed.

(* every execution: what an association takes from its readCh is, in arrival order, a
   subsequence of the datagrams that arrived from its own address *)
Lemma reads_in_order g ts s c k :
  run g init ts = Some s -> get s c = Some k ->
  subseq (reads_of c (trace s)) (from (caddr k) (arrivals (trace s))).
Proof.
  intros R G. destruct (inv_run _ _ _ R) as [_ (I1 & I2 & _)]. destruct (I1 _ _ G) as [F S].
  eapply subseq_trans; [eapply subseq_prefix; exact S|].
  rewrite <- (from_all _ _ F).
  apply subseq_filter. eapply subseq_trans; [apply routed_to_sub|].
  eapply subseq_prefix. exact I2.
Qed.

Lemma reads_own g ts s c k p :
  run g init ts = Some s -> get s c = Some k -> In p (reads_of c (trace s)) -> src p = caddr k.
Proof.
  intros R G I. pose proof (reads_in_order _ _ _ _ _ R G) as S.
  eapply subseq_In in S; [|exact I]. unfold from in S. apply filter_In in S. now apply Nat.eqb_eq. Qed.

(* ------------------------------------------------------------------ fresh association after the close was processed *)

Lemma loop_close_forgets g s s1 a c r :
  exec g s LoopClose = Some s1 -> closeCh s = (a, c) :: r ->
  notify_identity g = false \/ lookup a (table s) = Some c \/ lookup a (table s) = None ->
  lookup a (table s1) = None.
Proof.
  intros H C Hy. unfold exec in H. destruct (panicked s); [discriminate|]. destruct (stopped s); [discriminate|].
  destruct (pending s); [discriminate|]. rewrite C in H. inversion H; subst; clear H. cbn [table].
  destruct (lookup a (table s)) as [c'|] eqn:L.
  - destruct Hy as [Hy|[Hy|Hy]]; try discriminate.
    + rewrite Hy. rewrite lookup_remove, Nat.eqb_refl. reflexivity.
    + inversion Hy; subst. rewrite Nat.eqb_refl. destruct (notify_identity g); rewrite lookup_remove, Nat.eqb_refl; reflexivity.
  - exact L.
Qed.

Definition fresh_from (n : nat) (a : addr) (s : state) : Prop :=
  (forall c, lookup a (table s) = Some c -> n <= c) /\
  (forall p c, pending s = Some (p, c) -> src p = a -> n <= c).

Lemma fresh_from_step g n a s t s' :
  n <= length (conns s) -> fresh_from n a s -> exec g s t = Some s' -> fresh_from n a s'.
Proof.
  intros Hn [T P] H.
  assert (T' : forall c, lookup a (table s') = Some c -> n <= c).
  { intros c L. destruct (table_step _ _ _ _ _ _ H L) as [L0|[-> _]]; [eauto|lia]. }
  split; [exact T'|]. intros p c L A.
  destruct (pending_step _ _ _ _ _ _ H L) as [L0|L0]; [eauto|]. subst a. eauto.
Qed.

Lemma fresh_from_run g n a : forall ts s s',
  n <= length (conns s) -> fresh_from n a s -> run g s ts = Some s' -> fresh_from n a s' /\ n <= length (conns s').
Proof. induction ts as [|t r IH]; cbn; intros s s' Hn F R.
  - inversion R; subst; auto.
  - destruct (exec g s t) eqn:E; [|discriminate].
    eapply IH; [|eapply fresh_from_step; eauto|exact R]. pose proof (exec_len _ _ _ _ E). lia. Qed.

(* once the loop has processed the close notification of the association that owns address a,
   every datagram from a that the loop takes afterwards goes to an association created afterwards *)
Lemma fresh_after_close g s s1 a c r ts s2 :
  exec g s LoopClose = Some s1 -> closeCh s = (a, c) :: r ->
  notify_identity g = false \/ lookup a (table s) = Some c \/ lookup a (table s) = None ->
  run g s1 ts = Some s2 ->
  (forall c', lookup a (table s2) = Some c' -> length (conns s1) <= c') /\
  (forall p c', pending s2 = Some (p, c') -> src p = a -> length (conns s1) <= c').
Proof.
  intros H C Hy R. pose proof (loop_close_forgets _ _ _ _ _ _ H C Hy) as L.
  assert (P1 : pending s1 = None).
  { unfold exec in H. destruct (panicked s); [discriminate|]. destruct (stopped s); [discriminate|].
    destruct (pending s); [discriminate|]. rewrite C in H. inversion H; reflexivity. }
  assert (F : fresh_from (length (conns s1)) a s1).
  { split; intros; congruence. }
  destruct (fresh_from_run g _ a ts s1 s2 (le_n _) F R) as [[T P] _]. split; assumption.
Qed.

(* the next datagram from an address without an entry creates a new association *)
Lemma absent_creates g s p l :
  panicked s = false -> stopped s = false -> pending s = None -> packets s = QPkt p :: l ->
  lookup (src p) (table s) = None ->
  exists s', exec g s LoopRecv = Some s' /\
    conns s' = conns s ++ [new_conn (src p)] /\
    lookup (src p) (table s') = Some (length (conns s)) /\
    pending s' = Some (p, length (conns s)) /\
    trace s' = trace s ++ [ENew (length (conns s)) (src p)].
Proof.
  intros P S Pe Pk L. unfold exec. rewrite P, S, Pe, Pk. unfold usable. rewrite L.
  eexists. split; [reflexivity|]. cbn. rewrite lookup_cons, Nat.eqb_refl. auto. Qed.

(* ------------------------------------------------------------------ witnesses (the code before the repair) *)

Definition D (a i : nat) (n : N) : pkt := {| src := a; pid := i; size := n |}.

(* a datagram, the handler reads it and returns, Close reaches close(readCh), a second datagram
   arrives before the loop has seen the notification: the loop sends on the closed channel *)
Definition panic_witness : list step :=
  [SockRecv (D 7 1 100%N); LoopRecv; LoopSend; ConnRead 0 9000%N; HandlerReturn 0; CloseStep 0; CloseStep 0;
   SockRecv (D 7 2 100%N); LoopRecv; LoopSend].

(* the handler never reads: five datagrams fill readCh, the loop blocks in the send of the sixth,
   the handler returns and Close closes the channel under the blocked sender *)
Definition panic_witness_blocked : list step :=
  [SockRecv (D 7 1 8%N); LoopRecv; LoopSend; SockRecv (D 7 2 8%N); LoopRecv; LoopSend; SockRecv (D 7 3 8%N); LoopRecv; LoopSend;
   SockRecv (D 7 4 8%N); LoopRecv; LoopSend; SockRecv (D 7 5 8%N); LoopRecv; LoopSend; SockRecv (D 7 6 8%N); LoopRecv;
   HandlerReturn 0; CloseStep 0; CloseStep 0; LoopSend].

Lemma legacy_panics : exists ts s, run legacy_cfg init ts = Some s /\ panicked s = true.
Proof. exists panic_witness. eexists. split; [vm_compute; reflexivity|reflexivity]. Qed.
Lemma legacy_panics_blocked : exists ts s, run legacy_cfg init ts = Some s /\ panicked s = true.
Proof. exists panic_witness_blocked. eexists. split; [vm_compute; reflexivity|reflexivity]. Qed.

(* association 0 idles out (first notification), the loop forgets it, a datagram creates
   association 1, then handler 0 returns and Close notifies again: the loop deletes the entry of
   association 1, which is alive; the next datagram creates association 2 next to it *)
Definition stale_witness : list step :=
  [SockRecv (D 7 1 8%N); LoopRecv; LoopSend; ConnRead 0 9000%N; ConnIdle 0; LoopClose;
   SockRecv (D 7 2 8%N); LoopRecv; LoopSend; ConnRead 1 9000%N;
   HandlerReturn 0; CloseStep 0; CloseStep 0; CloseStep 0; CloseStep 0; LoopClose;
   SockRecv (D 7 3 8%N); LoopRecv; LoopSend; ConnRead 2 9000%N].

Definition two_live (s : state) : Prop :=
  exists c1 c2 k1 k2, c1 <> c2 /\ get s c1 = Some k1 /\ get s c2 = Some k2 /\ caddr k1 = caddr k2 /\
    ended c1 (trace s) = false /\ ended c2 (trace s) = false.

Lemma legacy_stale_close : exists ts s, run legacy_cfg init ts = Some s /\ panicked s = false /\ two_live s.
Proof. exists stale_witness. eexists. split; [vm_compute; reflexivity|]. split; [reflexivity|].
  exists 1, 2. eexists. eexists. split; [discriminate|]. repeat split; reflexivity. Qed.
