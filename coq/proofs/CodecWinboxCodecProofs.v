(* Proofs about model/CodecWinbox.v, part 2: FromBytes/ToBytes (through FromChunks/ToChunks) are
   exact inverses. *)
From Coq Require Import List NArith ZArith Bool Arith Lia.
From Coq.Strings Require Import Byte.
From L4.gen Require Import Consts.
From L4.model Require Import GoBase CodecBase CodecWinbox.
From L4.proofs Require Import GoBaseProofs CodecBaseProofs CodecWinboxProofs.
Import ListNotations.
Local Open Scope nat_scope.

Definition ty_of (first : bool) : byte := if first then wb_type_auth else wb_type_prev.

(* the chunk lists FromBytes builds and ToChunks produces: full chunks, then one of 1..255 bytes *)
Fixpoint good (first : bool) (cs : list chunk) : Prop :=
  match cs with
  | [] => False
  | c :: cs' =>
      ch_type c = ty_of first /\ ch_len c = N.of_nat (length (ch_bytes c)) /\
      match cs' with
      | [] => 1 <= length (ch_bytes c) <= wb_chunk_max
      | _ => length (ch_bytes c) = wb_chunk_max /\ good false cs'
      end
  end.

Lemma firstn_skipn_2 (rest : list byte) lb ty n :
  index rest 0 = Some lb -> index rest 1 = Some ty -> lb :: ty :: firstn n (skipn 2 rest) = firstn (2 + n) rest.
Proof. destruct rest as [|a [|b r]]; cbn; intros H1 H2; try discriminate. inversion H1; inversion H2; subst. reflexivity. Qed.

Lemma slice_2 (rest : list byte) n bs : slice rest 2 (2 + n) = Some bs -> bs = firstn n (skipn 2 rest) /\ 2 + n <= length rest.
Proof.
  unfold slice. destruct (Nat.leb_spec 2 (2 + n)); [|lia]. destruct (Nat.leb_spec (2 + n) (length rest)); [|discriminate].
  cbn [andb]. intro Hs. replace (2 + n - 2) with n in Hs by lia. split; [congruence|lia].
Qed.

(* ---- FromBytes side: what chunks_from returns is good and re-serialises to the input ---- *)
Lemma chunks_from_good fuel : forall first rest cs, rest <> [] -> length rest <= fuel ->
  chunks_from fuel first rest = Ok cs -> good first cs /\ chunks_to_bytes cs = rest.
Proof.
  induction fuel as [|f IH]; intros first rest cs Hne Hf; [destruct rest; [contradiction|cbn in Hf; lia]|].
  cbn [chunks_from]. destruct (index rest 0) as [lb|] eqn:Elb; [|discriminate]. cbv beta iota zeta.
  set (len := N.to_nat (bN lb)).
  match goal with |- context [if ?c then Err else _] => destruct c eqn:Ec; [discriminate|] end.
  apply orb_false_iff in Ec; destruct Ec as [Ec E4]; apply orb_false_iff in Ec; destruct Ec as [Ec E3]; apply orb_false_iff in Ec; destruct Ec as [E1 E2].
  apply Nat.ltb_ge in E2. apply Nat.ltb_ge in E3.
  destruct (index rest 1) as [ty|] eqn:Ety; [|discriminate]. cbv beta iota.
  destruct (Byte.eqb ty (if first then wb_type_auth else wb_type_prev)) eqn:Et; cbn [negb]; [|discriminate]. apply byte_eqb_eq in Et.
  destruct (slice rest 2 (2 + len)) as [bs|] eqn:Ebs; [|discriminate]. cbv beta iota.
  apply slice_2 in Ebs. destruct Ebs as [Ebs Hlen2].
  assert (Lbs : length bs = len) by (subst bs; rewrite firstn_length, skipn_length; lia).
  assert (Hnb : nb (bN lb) = lb) by apply nb_bN.
  assert (HbN : bN lb = N.of_nat len) by (unfold len; rewrite N2Nat.id; reflexivity).
  destruct (Nat.leb_spec (length rest) wb_stride) as [Hlast|Hnl].
  - intro H; inversion H; subst cs; clear H. cbn [andb negb] in E4. apply negb_false_iff, Nat.eqb_eq in E4.
    split.
    + cbn [good ch_type ch_len ch_bytes]. change wb_chunk_min with 1 in E3. change wb_stride with 257 in Hlast. change wb_chunk_max with 255.
      split; [exact Et|]. split; [rewrite Lbs; exact HbN|]. rewrite Lbs. lia.
    + cbn [chunks_to_bytes flat_map ch_type ch_len ch_bytes]. rewrite app_nil_r, Hnb. subst bs.
      rewrite (firstn_skipn_2 rest lb ty len Elb Ety). rewrite <- E4. apply firstn_all.
  - cbn [negb andb] in E1. apply negb_false_iff, Nat.eqb_eq in E1.
    assert (Hsk : skipn wb_stride rest <> []).
    { intro Hnil. apply (f_equal (@length byte)) in Hnil. rewrite skipn_length in Hnil. cbn [length] in Hnil. lia. }
    destruct (chunks_from f false (skipn wb_stride rest)) as [cs'| |] eqn:Erec; try discriminate.
    intro H; inversion H; subst cs; clear H.
    destruct (IH false (skipn wb_stride rest) cs' Hsk) as [Hg Hw]; [rewrite skipn_length; change wb_stride with 257 in *; lia|exact Erec|].
    split.
    + cbn [good ch_type ch_len ch_bytes]. split; [exact Et|]. split; [rewrite Lbs; exact HbN|].
      destruct cs' as [|c2 cs2]; [cbn in Hg; contradiction|]. split; [rewrite Lbs; exact E1|exact Hg].
    + cbn [chunks_to_bytes flat_map ch_type ch_len ch_bytes]. fold (chunks_to_bytes cs'). rewrite Hw, Hnb. subst bs.
      change (lb :: ty :: firstn len (skipn 2 rest) ++ skipn wb_stride rest) with ((lb :: ty :: firstn len (skipn 2 rest)) ++ skipn wb_stride rest).
      rewrite (firstn_skipn_2 rest lb ty len Elb Ety). rewrite E1. change (2 + wb_chunk_max) with wb_stride. apply firstn_skipn.
Qed.

Lemma good_payload first cs : good first cs -> chunks_payload cs = flat_map ch_bytes cs.
Proof.
  revert first. induction cs as [|c cs' IH]; intros first Hg; [reflexivity|].
  cbn [good] in Hg. destruct Hg as (_ & Hl & Hrest). unfold chunks_payload. cbn [flat_map]. fold (chunks_payload cs').
  rewrite Hl, Nat2N.id, Nat.min_id, firstn_all. f_equal.
  destruct cs' as [|c2 cs2]; [reflexivity|]. destruct Hrest as [_ Hg']. exact (IH false Hg').
Qed.

Lemma good_types first cs : good first cs -> forallb chunk_type_ok cs = true.
Proof.
  revert first. induction cs as [|c cs' IH]; intros first Hg; [reflexivity|].
  cbn [good] in Hg. destruct Hg as (Ht & _ & Hrest). cbn [forallb]. apply andb_true_iff. split.
  - unfold chunk_type_ok. rewrite Ht. destruct first; cbn [ty_of]; rewrite byte_eqb_refl; [reflexivity|apply orb_true_r].
  - destruct cs' as [|c2 cs2]; [reflexivity|]. destruct Hrest as [_ Hg']. exact (IH false Hg').
Qed.

(* ---- ToChunks side: cutting the concatenated bodies of a good list gives the list back ---- *)
Lemma cut_good fuel : forall first cs, good first cs -> length cs <= fuel -> cut fuel first (flat_map ch_bytes cs) = cs.
Proof.
  induction fuel as [|f IH]; intros first cs Hg Hf; [destruct cs; [cbn in Hg; contradiction|cbn in Hf; lia]|].
  destruct cs as [|c cs']; [cbn in Hg; contradiction|]. cbn [good] in Hg. destruct Hg as (Ht & Hl & Hrest).
  cbn [flat_map cut]. destruct cs' as [|c2 cs2].
  - cbn [flat_map]. rewrite app_nil_r. rewrite Nat.min_r by lia.
    destruct (Nat.eqb_spec (length (ch_bytes c)) 0) as [E|E]; [lia|]. rewrite firstn_all.
    rewrite skipn_all2 by lia.
    replace (cut f false []) with (@nil chunk) by (destruct f; reflexivity).
    destruct c as [bs ln ty]; cbn [ch_bytes ch_len ch_type] in *. subst. reflexivity.
  - destruct Hrest as [Hl2 Hg']. rewrite app_length, Hl2.
    rewrite Nat.min_l by lia. change (wb_chunk_max =? 0) with false. cbv beta iota.
    set (X := flat_map ch_bytes (c2 :: cs2)).
    replace (firstn wb_chunk_max (ch_bytes c ++ X)) with (ch_bytes c)
      by (rewrite firstn_app_le by lia; rewrite <- Hl2; symmetry; apply firstn_all).
    replace (skipn wb_chunk_max (ch_bytes c ++ X)) with X
      by (rewrite skipn_app_le by lia; rewrite <- Hl2, skipn_all; reflexivity).
    unfold X. rewrite (IH false (c2 :: cs2) Hg') by (cbn [length] in *; lia).
    destruct c as [bs ln ty]; cbn [ch_bytes ch_len ch_type] in *. subst. rewrite Hl2. reflexivity.
Qed.

Lemma good_count first cs : good first cs -> wb_chunk_max * (length cs - 1) < length (flat_map ch_bytes cs).
Proof.
  revert first. induction cs as [|c cs' IH]; intros first Hg; [cbn in Hg; contradiction|].
  cbn [good] in Hg. destruct Hg as (_ & _ & Hrest). cbn [flat_map length]. rewrite app_length.
  destruct cs' as [|c2 cs2]; [cbn [flat_map length]; lia|]. destruct Hrest as [Hl Hg']. specialize (IH false Hg'). cbn [length] in *. lia.
Qed.

(* ---- the tail of FromChunks ---- *)
Lemma index_byte_split (s : list byte) (c : byte) : forall i, index_byte s c = Some i -> s = firstn i s ++ c :: skipn (S i) s /\ forallb (fun b : byte => negb (Byte.eqb b c)) (firstn i s) = true.
Proof.
  induction s as [|x r IH]; intros i H; cbn [index_byte] in H; [discriminate|].
  destruct (Byte.eqb x c) eqn:E.
  - inversion H; subst. apply byte_eqb_eq in E. subst. split; reflexivity.
  - destruct (index_byte r c) as [j|]; [|discriminate]. cbn [option_map] in H. inversion H; subst.
    destruct (IH j eq_refl) as [H1 H2]. cbn [firstn skipn app forallb]. rewrite E. cbn [negb andb]. split; [f_equal; exact H1|exact H2].
Qed.

Lemma index_byte_app (u : list byte) (c : byte) (t : list byte) : forallb (fun b : byte => negb (Byte.eqb b c)) u = true -> index_byte (u ++ c :: t) c = Some (length u).
Proof.
  induction u as [|x r IH]; intro H; cbn [app index_byte length].
  - rewrite byte_eqb_refl. reflexivity.
  - cbn [forallb] in H. apply andb_true_iff in H. destruct H as [H1 H2]. apply negb_true_iff in H1. rewrite H1, (IH H2). reflexivity.
Qed.

Lemma list_last_split (t : list byte) par : nth_error t (length t - 1) = Some par -> t = firstn (length t - 1) t ++ [par].
Proof.
  induction t as [|a t IH]; [cbn; discriminate|]. destruct t as [|b t'].
  - cbn. intro H; inversion H; reflexivity.
  - replace (length (a :: b :: t') - 1) with (S (length (b :: t') - 1)) by (cbn [length]; lia).
    cbn [nth_error firstn]. intro H. cbn [app]. f_equal. apply IH. exact H.
Qed.

Lemma nth_error_skipn' {A} n : forall (l : list A) i, nth_error (skipn n l) i = nth_error l (n + i).
Proof.
  induction n as [|n IH]; intros l i; [reflexivity|]. destruct l as [|x l]; [destruct i; reflexivity|]. cbn [skipn Nat.add nth_error]. apply IH.
Qed.

Lemma auth_of_payload_spec src x : auth_of_payload src = Ok x -> src = auth_payload x /\ auth_wf x.
Proof.
  unfold auth_of_payload. destruct (index_byte src wb_delim) as [i|] eqn:Ei; [|discriminate].
  pose proof (index_byte_lt _ _ _ Ei) as Hi. destruct (index_byte_split _ _ _ Ei) as [Hsplit _].
  destruct (Nat.eqb_spec i (length src - 1)) as [E|E]; [discriminate|].
  destruct (slice src (i + 1) (length src - 1)) as [key|] eqn:Ek; [|discriminate].
  destruct (index src (length src - 1)) as [par|] eqn:Ep; [|discriminate].
  match goal with |- context [if ?c then Err else _] => destruct c eqn:Ec; [discriminate|] end.
  intro H; inversion H; subst x; clear H.
  apply orb_false_iff in Ec; destruct Ec as [Ec E4]; apply orb_false_iff in Ec; destruct Ec as [Ec E3]; apply orb_false_iff in Ec; destruct Ec as [E1 E2].
  cbn [ma_user] in E1. apply Nat.eqb_neq in E1. apply negb_false_iff, Nat.eqb_eq in E2. apply N.ltb_ge in E3. apply negb_false_iff in E4.
  split.
  - unfold auth_payload. cbn [ma_user ma_key ma_parity app].
    rewrite Hsplit at 1. f_equal. f_equal.
    set (t := skipn (S i) src). assert (Lt : length t = length src - S i) by (unfold t; apply skipn_length).
    unfold slice in Ek. destruct ((i + 1 <=? length src - 1) && (length src - 1 <=? length src)); [|discriminate]. inversion Ek; subst key; clear Ek.
    replace (i + 1) with (S i) by lia. fold t. replace (length src - 1 - S i) with (length t - 1) by lia.
    apply list_last_split. unfold index in Ep. unfold t. rewrite nth_error_skipn'. replace (S i + (length (skipn (S i) src) - 1)) with (length src - 1) by (rewrite skipn_length; lia). exact Ep.
  - unfold auth_wf. cbn [ma_parity ma_key ma_user]. repeat split; try assumption.
    intro Hnil. apply E1. rewrite Hnil. reflexivity.
Qed.

(* every byte of a user name that passes the grammar is non-zero *)
Lemma alnum_nonzero b : is_alnum b = true -> Byte.eqb b wb_delim = false.
Proof.
  intro H. destruct (Byte.eqb b wb_delim) eqn:E; [|reflexivity]. apply byte_eqb_eq in E. subst b. vm_compute in H. discriminate.
Qed.
Lemma inner_nonzero b : is_inner b = true -> Byte.eqb b wb_delim = false.
Proof.
  intro H. destruct (Byte.eqb b wb_delim) eqn:E; [|reflexivity]. apply byte_eqb_eq in E. subst b. vm_compute in H. discriminate.
Qed.
Definition nz (b : byte) : bool := negb (Byte.eqb b wb_delim).

Lemma username_ok_nz u : username_ok u = true -> forallb nz u = true.
Proof.
  destruct u as [|a r]; [discriminate|]. destruct r as [|b r'].
  - cbn [username_ok forallb]. intro H. unfold nz. rewrite (alnum_nonzero a H). reflexivity.
  - set (r := b :: r'). intro H. change (username_ok (a :: r)) with (is_alnum a && forallb is_inner (removelast r) && is_alnum (last r x00)) in H.
    apply andb_true_iff in H; destruct H as [H H4]; apply andb_true_iff in H; destruct H as [H1 H3].
    cbn [forallb]. unfold nz at 1. rewrite (alnum_nonzero a H1). cbn [negb andb].
    rewrite (app_removelast_last x00 (l := r)) by discriminate. rewrite forallb_app. apply andb_true_iff. split.
    + rewrite forallb_forall in *. intros y Hy. unfold nz. rewrite (inner_nonzero y (H3 y Hy)). reflexivity.
    + cbn [forallb]. unfold nz. rewrite (alnum_nonzero _ H4). reflexivity.
Qed.

Lemma has_suffix_split s suf : has_suffix s suf = true -> s = firstn (length s - length suf) s ++ suf.
Proof.
  unfold has_suffix. intro H. apply andb_true_iff in H. destruct H as [_ H]. apply bytes_eqb_eq in H.
  transitivity (firstn (length s - length suf) s ++ skipn (length s - length suf) s); [symmetry; apply firstn_skipn|rewrite H; reflexivity].
Qed.

Lemma wf_user_nz x : auth_wf x -> forallb nz (ma_user x) = true.
Proof.
  intros (_ & _ & _ & Hu). apply username_ok_nz in Hu. unfold get_username in Hu. destruct (get_romon x) eqn:Er; [|exact Hu].
  unfold get_romon in Er. rewrite (has_suffix_split _ _ Er). rewrite forallb_app, Hu. reflexivity.
Qed.

Lemma auth_of_payload_build (u k : list byte) (par : byte) :
  forallb nz u = true -> length u <> 0 -> length k = wb_key_sz -> (bN par <= 1)%N ->
  username_ok (get_username {| ma_parity := par; ma_key := k; ma_user := u |}) = true ->
  auth_of_payload (u ++ wb_delim :: k ++ [par]) = Ok {| ma_parity := par; ma_key := k; ma_user := u |}.
Proof.
  intros Hnz Hne Hk Hp Hu. unfold auth_of_payload. rewrite index_byte_app by exact Hnz. cbv beta iota.
  set (src := u ++ wb_delim :: k ++ [par]).
  assert (Ll : length src = length u + 1 + wb_key_sz + 1) by (unfold src; rewrite !app_length; cbn [length]; rewrite app_length; cbn [length]; lia).
  match goal with |- context [if ?c then Err else _] => replace c with false by (symmetry; apply Nat.eqb_neq; lia) end.
  assert (Ek : slice src (length u + 1) (length src - 1) = Some k).
  { unfold slice. rewrite Ll. destruct (Nat.leb_spec (length u + 1) (length u + 1 + wb_key_sz + 1 - 1)); [|lia].
    destruct (Nat.leb_spec (length u + 1 + wb_key_sz + 1 - 1) (length u + 1 + wb_key_sz + 1)); [|lia]. cbn [andb]. f_equal.
    unfold src. replace (u ++ wb_delim :: k ++ [par]) with ((u ++ [wb_delim]) ++ k ++ [par]) by (rewrite <- app_assoc; reflexivity).
    rewrite skipn_app_le by (rewrite app_length; cbn [length]; lia).
    rewrite skipn_all2 by (rewrite app_length; cbn [length]; lia). cbn [app].
    replace (length u + 1 + wb_key_sz + 1 - 1 - (length u + 1)) with (length k) by lia.
    rewrite firstn_app_le by lia. apply firstn_all. }
  rewrite Ek.
  assert (Ep : index src (length src - 1) = Some par).
  { unfold index. rewrite Ll. unfold src. replace (u ++ wb_delim :: k ++ [par]) with ((u ++ wb_delim :: k) ++ [par]) by (rewrite <- app_assoc; reflexivity).
    rewrite nth_error_app2 by (rewrite !app_length; cbn [length]; lia).
    replace (length u + 1 + wb_key_sz + 1 - 1 - length (u ++ wb_delim :: k)) with 0 by (rewrite !app_length; cbn [length]; lia). reflexivity. }
  rewrite Ep.
  replace (firstn (length u) src) with u by (unfold src; rewrite firstn_app_le by lia; symmetry; apply firstn_all).
  cbn [ma_user]. destruct (Nat.eqb_spec (length u) 0) as [E0|E0]; [contradiction|].
  rewrite Hk, Nat.eqb_refl. destruct (N.ltb_spec 1 (bN par)); [lia|]. rewrite Hu. reflexivity.
Qed.

Lemma auth_of_payload_payload x : auth_wf x -> auth_of_payload (auth_payload x) = Ok x.
Proof.
  intro Hwf. pose proof (wf_user_nz x Hwf) as Hnz. destruct Hwf as (Hp & Hk & Hne & Hu).
  destruct x as [par k u]. cbn [ma_parity ma_key ma_user] in *. unfold auth_payload. cbn [ma_parity ma_key ma_user app].
  apply auth_of_payload_build; try assumption. destruct u; [contradiction|cbn; lia].
Qed.

(* ---- ToBytes side ---- *)
Lemma cut_spec fuel : forall first d, d <> [] -> length d / wb_chunk_max < fuel ->
  good first (cut fuel first d) /\ flat_map ch_bytes (cut fuel first d) = d.
Proof.
  induction fuel as [|f IH]; intros first d Hne Hf; [lia|].
  cbn [cut]. change wb_chunk_max with 255 in *.
  destruct (Nat.eqb_spec (Nat.min 255 (length d)) 0) as [E|E]; [destruct d; [contradiction|cbn [length] in E; lia]|].
  destruct (Nat.le_gt_cases (length d) 255) as [Hle|Hgt].
  - rewrite Nat.min_r by lia. rewrite firstn_all. rewrite skipn_all2 by lia.
    replace (cut f false []) with (@nil chunk) by (destruct f; reflexivity).
    cbn [good flat_map ch_type ch_len ch_bytes]. rewrite app_nil_r. repeat split; try reflexivity; try lia.
    change wb_chunk_max with 255. lia.
  - rewrite Nat.min_l by lia.
    assert (Hsk : skipn 255 d <> []).
    { intro Hnil. apply (f_equal (@length byte)) in Hnil. rewrite skipn_length in Hnil. cbn [length] in Hnil. lia. }
    assert (Hf' : length (skipn 255 d) / 255 < f).
    { rewrite skipn_length. assert (length d = (length d - 255) + 1 * 255) as Hd by lia. rewrite Hd in Hf. rewrite Nat.div_add in Hf by lia. lia. }
    destruct (IH false (skipn 255 d) Hsk Hf') as [Hg Hfm].
    assert (Lf : length (firstn 255 d) = 255) by (rewrite firstn_length; lia).
    split.
    + destruct (cut f false (skipn 255 d)) as [|c2 cs2] eqn:Ec; [cbn in Hg; contradiction|].
      cbn [good ch_type ch_len ch_bytes]. rewrite Lf. split; [reflexivity|]. split; [reflexivity|]. split; [reflexivity|exact Hg].
    + cbn [flat_map ch_bytes]. rewrite Hfm. apply firstn_skipn.
Qed.

Lemma chunks_from_to_bytes fuel : forall first cs, good first cs -> length (chunks_to_bytes cs) <= fuel ->
  chunks_from fuel first (chunks_to_bytes cs) = Ok cs.
Proof.
  induction fuel as [|f IH]; intros first cs Hg Hf; [destruct cs; [cbn in Hg; contradiction|cbn in Hf; lia]|].
  destruct cs as [|c cs']; [cbn in Hg; contradiction|]. cbn [good] in Hg. destruct Hg as (Ht & Hl & Hrest).
  destruct c as [bs ln ty]. cbn [ch_bytes ch_len ch_type] in *. subst ln ty.
  cbn [chunks_to_bytes flat_map ch_bytes ch_len ch_type] in *. fold (chunks_to_bytes cs') in *.
  set (lb := nb (N.of_nat (length bs))) in *.
  set (rest := (lb :: ty_of first :: bs) ++ chunks_to_bytes cs') in *.
  assert (Hb : length bs <= 255) by (destruct cs'; change wb_chunk_max with 255 in *; lia).
  assert (HbN : N.to_nat (bN lb) = length bs) by (unfold lb; rewrite bN_nb by lia; apply Nat2N.id).
  assert (HbN' : bN lb = N.of_nat (length bs)) by (unfold lb; apply bN_nb; lia).
  assert (Ei0 : index rest 0 = Some lb) by reflexivity.
  assert (Ei1 : index rest 1 = Some (ty_of first)) by reflexivity.
  assert (Lr : length rest = 2 + length bs + length (chunks_to_bytes cs')) by (unfold rest; cbn [app length]; rewrite app_length; lia).
  assert (Es : slice rest 2 (2 + length bs) = Some bs).
  { unfold slice. rewrite Lr. destruct (Nat.leb_spec 2 (2 + length bs)); [|lia]. destruct (Nat.leb_spec (2 + length bs) (2 + length bs + length (chunks_to_bytes cs'))); [|lia].
    cbn [andb]. f_equal. unfold rest. cbn [app skipn]. replace (2 + length bs - 2) with (length bs) by lia. rewrite firstn_app_le by lia. apply firstn_all. }
  cbn [chunks_from]. rewrite Ei0. cbv beta iota zeta. rewrite HbN, Ei1. cbv beta iota. fold (ty_of first). rewrite byte_eqb_refl. cbn [negb]. rewrite Es. cbv beta iota.
  destruct cs' as [|c2 cs2].
  - cbn [chunks_to_bytes flat_map] in Lr. cbn [length] in Lr.
    destruct (Nat.leb_spec (length rest) wb_stride) as [Hlast|Hnl]; [|change wb_stride with 257 in Hnl; lia].
    cbn [negb andb orb]. destruct (Nat.ltb_spec (length rest) (2 + length bs)); [lia|].
    destruct (Nat.ltb_spec (length bs) wb_chunk_min); [change wb_chunk_min with 1 in *; lia|].
    replace (length rest =? 2 + length bs) with true by (symmetry; apply Nat.eqb_eq; lia). cbn [negb orb].
    rewrite HbN'. reflexivity.
  - destruct Hrest as [Hl2 Hg'].
    assert (Lc : 1 <= length (chunks_to_bytes (c2 :: cs2))) by (cbn [chunks_to_bytes flat_map app length]; lia).
    destruct (Nat.leb_spec (length rest) wb_stride) as [Hlast|Hnl]; [change wb_stride with 257 in Hlast; change wb_chunk_max with 255 in Hl2; lia|].
    cbn [negb andb orb]. rewrite Hl2, Nat.eqb_refl. cbn [negb orb].
    destruct (Nat.ltb_spec (length rest) (2 + wb_chunk_max)); [lia|].
    destruct (Nat.ltb_spec wb_chunk_max wb_chunk_min); [change wb_chunk_min with 1 in *; change wb_chunk_max with 255 in *; lia|]. cbn [orb].
    assert (Esk : skipn wb_stride rest = chunks_to_bytes (c2 :: cs2)).
    { unfold rest. change wb_stride with (2 + wb_chunk_max). cbn [app skipn Nat.add]. rewrite skipn_app_le by lia. rewrite <- Hl2, skipn_all. reflexivity. }
    rewrite Esk. rewrite (IH false (c2 :: cs2) Hg') by (rewrite <- Esk, skipn_length; change wb_stride with 257; lia).
    rewrite HbN', ?Hl2. reflexivity.
Qed.

Lemma chunks_to_bytes_length_ge cs : length (flat_map ch_bytes cs) <= length (chunks_to_bytes cs).
Proof. induction cs as [|c cs IH]; [cbn; lia|]. cbn [flat_map chunks_to_bytes]. fold (chunks_to_bytes cs). rewrite app_length. cbn [length app]. rewrite app_length. lia. Qed.

(* ---- the inverse laws ---- *)
Theorem auth_to_from b x : auth_from_bytes b = Ok x -> auth_to_bytes x = b.
Proof.
  unfold auth_from_bytes. destruct (Nat.ltb_spec (length b) wb_auth_min) as [Hs|Hs]; [discriminate|].
  assert (Hne : b <> []) by (intro E; subst; cbn in Hs; change wb_auth_min with 37 in Hs; lia).
  destruct (chunks_from (length b) true b) as [cs| |] eqn:Ec; try discriminate.
  destruct (chunks_from_good (length b) true b cs Hne (le_n _) Ec) as [Hg Hw].
  unfold auth_from_chunks. rewrite (good_types true cs Hg). cbn [negb]. rewrite (good_payload true cs Hg).
  intro Hp. apply auth_of_payload_spec in Hp. destruct Hp as [Hp _].
  unfold auth_to_bytes, auth_to_chunks. rewrite <- Hp. rewrite cut_good; [exact Hw|exact Hg|].
  pose proof (good_count true cs Hg) as Hc. change wb_chunk_max with 255 in *.
  assert (length cs - 1 <= length (flat_map ch_bytes cs) / 255) by (apply Nat.div_le_lower_bound; lia). lia.
Qed.

Theorem auth_from_to x : auth_wf x -> auth_from_bytes (auth_to_bytes x) = Ok x.
Proof.
  intro Hwf. unfold auth_to_bytes, auth_to_chunks. set (d := auth_payload x).
  assert (Ld : length d = length (ma_user x) + 1 + wb_key_sz + 1).
  { destruct Hwf as (_ & Hk & _ & _). unfold d, auth_payload. rewrite !app_length. cbn [length]. lia. }
  assert (Hu : 1 <= length (ma_user x)) by (destruct Hwf as (_ & _ & Hne & _); destruct (ma_user x); [contradiction|cbn; lia]).
  assert (Hne : d <> []) by (intro E; rewrite E in Ld; cbn in Ld; lia).
  destruct (cut_spec (length d / wb_chunk_max + 1) true d Hne) as [Hg Hfm]; [lia|].
  set (cs := cut (length d / wb_chunk_max + 1) true d) in *.
  unfold auth_from_bytes. pose proof (chunks_to_bytes_length_ge cs) as Hge. rewrite Hfm in Hge.
  destruct (Nat.ltb_spec (length (chunks_to_bytes cs)) wb_auth_min) as [Hs|Hs].
  { exfalso. destruct cs as [|c cs']; [cbn in Hg; contradiction|]. cbn [chunks_to_bytes flat_map] in Hs. cbn [flat_map] in Hfm.
    apply (f_equal (@length byte)) in Hfm. rewrite app_length in Hfm. cbn [length app] in Hs. rewrite app_length in Hs.
    fold (chunks_to_bytes cs') in Hs. pose proof (chunks_to_bytes_length_ge cs'). change wb_auth_min with 37 in Hs. change wb_key_sz with 32 in Ld. lia. }
  rewrite (chunks_from_to_bytes _ true cs Hg (le_n _)).
  unfold auth_from_chunks. rewrite (good_types true cs Hg). cbn [negb]. rewrite (good_payload true cs Hg), Hfm.
  apply auth_of_payload_payload. exact Hwf.
Qed.

Theorem auth_from_bytes_wf b x : auth_from_bytes b = Ok x -> auth_wf x.
Proof.
  unfold auth_from_bytes. destruct (length b <? wb_auth_min); [discriminate|].
  destruct (chunks_from (length b) true b) as [cs| |]; try discriminate.
  unfold auth_from_chunks. destruct (negb _); [discriminate|]. intro H. apply auth_of_payload_spec in H. tauto.
Qed.

Theorem auth_rejects_short b : length b < wb_auth_min -> auth_from_bytes b = Err.
Proof. intro H. unfold auth_from_bytes. apply Nat.ltb_lt in H. rewrite H. reflexivity. Qed.

(* the only length FromBytes accepts for a message is the length of its encoding: no trailing bytes, no padding *)
Theorem auth_rejects_wrong_length b x : length b <> length (auth_to_bytes x) -> auth_from_bytes b <> Ok x.
Proof. intros Hl H. apply auth_to_from in H. rewrite H in Hl. contradiction. Qed.

Theorem auth_rejects_extension b x t : auth_from_bytes b = Ok x -> t <> [] -> auth_from_bytes (b ++ t) <> Ok x.
Proof.
  intros H Ht H2. apply auth_to_from in H. apply auth_to_from in H2. rewrite H in H2.
  apply (f_equal (@length byte)) in H2. rewrite app_length in H2. destruct t; [contradiction|cbn in H2; lia].
Qed.
