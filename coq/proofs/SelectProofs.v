(* Lemmas about model/Select.v (C10). *)
From Coq Require Import List ZArith NArith Bool Lia Arith.
From Coq.Strings Require Import Byte.
From L4 Require Import Hex.
From L4.model Require Import Select.
Import ListNotations.
Open Scope Z_scope.

(* ---------- indexed ---------- *)
Definition indexed_from {A} (k : nat) (l : list A) : list (nat * A) := combine (seq k (length l)) l.

Lemma indexed_from_cons {A} k (x : A) l : indexed_from k (x :: l) = (k, x) :: indexed_from (S k) l.
Proof. reflexivity. Qed.
Lemma indexed_is_from {A} (l : list A) : indexed l = indexed_from 0 l.
Proof. reflexivity. Qed.

Lemma indexed_from_In {A} (l : list A) : forall k i x,
  In (i, x) (indexed_from k l) -> (k <= i)%nat /\ nth_error l (i - k) = Some x.
Proof.
  induction l as [|y r IH]; intros k i x H; [destruct H|].
  rewrite indexed_from_cons in H. destruct H as [H|H].
  - inversion H; subst. split; [lia|]. replace (i - i)%nat with 0%nat by lia. reflexivity.
  - apply IH in H. destruct H as [Hk Hn]. split; [lia|].
    replace (i - k)%nat with (S (i - S k)) by lia. exact Hn.
Qed.

Lemma indexed_from_In_conv {A} (l : list A) : forall k j x,
  nth_error l j = Some x -> In ((k + j)%nat, x) (indexed_from k l).
Proof.
  induction l as [|y r IH]; intros k j x H; [destruct j; discriminate|].
  rewrite indexed_from_cons. destruct j as [|j]; simpl in H.
  - inversion H; subst. left. f_equal. lia.
  - right. replace (k + S j)%nat with (S k + j)%nat by lia. apply IH. exact H.
Qed.

Definition wf_idx (pool : list upstream) (l : list (nat * upstream)) : Prop :=
  forall i u, In (i, u) l -> nth_error pool i = Some u.

Lemma wf_indexed pool : wf_idx pool (indexed pool).
Proof.
  intros i u H. rewrite indexed_is_from in H. apply indexed_from_In in H.
  destruct H as [_ H]. replace (i - 0)%nat with i in H by lia. exact H.
Qed.

Lemma wf_tail pool a l : wf_idx pool (a :: l) -> wf_idx pool l.
Proof. intros H i u Hin. apply H. right. exact Hin. Qed.

Lemma avail_in_indexed pool :
  (exists u, In u pool /\ available u = true) ->
  exists i u, In (i, u) (indexed pool) /\ available u = true.
Proof.
  intros (u & Hin & Ha). apply In_nth_error in Hin. destruct Hin as [j Hj].
  exists j, u. split; [|exact Ha]. rewrite indexed_is_from.
  apply (indexed_from_In_conv pool 0 j u Hj).
Qed.

(* ---------- first ---------- *)
Lemma first_go_sound l : forall i, first_go l = Sel i -> exists u, In (i, u) l /\ available u = true.
Proof.
  induction l as [|[j v] r IH]; intros i H; cbn in H; [discriminate|].
  destruct (available v) eqn:E.
  - inversion H; subst. exists v. split; [left; reflexivity|exact E].
  - destruct (IH i H) as (u & Hin & Ha). exists u. split; [right; exact Hin|exact Ha].
Qed.

Lemma first_go_complete l :
  (exists i u, In (i, u) l /\ available u = true) -> exists i, first_go l = Sel i.
Proof.
  induction l as [|[j v] r IH]; intros (i & u & Hin & Ha); [destruct Hin|].
  cbn. destruct (available v) eqn:E; [eauto|].
  apply IH. destruct Hin as [Heq|Hin]; [inversion Heq; subst; congruence|eauto].
Qed.

Lemma first_go_nopanic l : first_go l <> Panic.
Proof. induction l as [|[j v] r IH]; cbn; [discriminate|]. destruct (available v); [discriminate|exact IH]. Qed.

Lemma first_go_earliest pool : forall k i,
  first_go (indexed_from k pool) = Sel i ->
  (k <= i)%nat /\ forall j v, (j < i - k)%nat -> nth_error pool j = Some v -> available v = false.
Proof.
  induction pool as [|u r IH]; intros k i H; [discriminate|].
  rewrite indexed_from_cons in H. cbn in H. destruct (available u) eqn:E.
  - inversion H; subst. split; [lia|]. intros j v Hj. lia.
  - apply IH in H. destruct H as [Hk Hall]. split; [lia|].
    intros j v Hj Hn. destruct j as [|j]; simpl in Hn.
    + inversion Hn; subst. exact E.
    + apply (Hall j v); [lia|exact Hn].
Qed.

Lemma first_sound pool i : first pool = Sel i -> exists u, nth_error pool i = Some u /\ available u = true.
Proof.
  intro H. apply first_go_sound in H. destruct H as (u & Hin & Ha).
  exists u. split; [apply wf_indexed; exact Hin|exact Ha].
Qed.
Lemma first_complete pool : (exists u, In u pool /\ available u = true) -> exists i, first pool = Sel i.
Proof. intro H. apply first_go_complete. apply avail_in_indexed. exact H. Qed.
Lemma first_none_only_if pool : first pool = Nil -> forall u, In u pool -> available u = false.
Proof.
  intros H u Hin. destruct (available u) eqn:E; [|reflexivity].
  destruct (first_complete pool) as [i Hi]; [eauto|]. congruence.
Qed.
Lemma first_nopanic pool : first pool <> Panic.
Proof. apply first_go_nopanic. Qed.
Lemma first_earliest pool i :
  first pool = Sel i -> forall j v, (j < i)%nat -> nth_error pool j = Some v -> available v = false.
Proof.
  intro H. unfold first in H. rewrite indexed_is_from in H. apply first_go_earliest in H.
  destruct H as [_ H]. intros j v Hj. apply H. lia.
Qed.

(* ---------- random ---------- *)
Lemma random_go_shape l : forall ints count cur,
  random_go l ints count cur = cur \/
  exists i u, In (i, u) l /\ available u = true /\ random_go l ints count cur = Sel i.
Proof.
  induction l as [|[j v] r IH]; intros ints count cur; cbn; [left; reflexivity|].
  destruct (available v) eqn:E.
  - destruct (IH (tl ints) (count + 1) (if hd 0 ints mod (count + 1) =? 0 then Sel j else cur)) as [H|(i & u & Hin & Ha & H)].
    + rewrite H. destruct (hd 0 ints mod (count + 1) =? 0); [|left; reflexivity].
      right. exists j, v. split; [left; reflexivity|]. split; [exact E|reflexivity].
    + right. exists i, u. split; [right; exact Hin|]. split; [exact Ha|exact H].
  - destruct (IH ints count cur) as [H|(i & u & Hin & Ha & H)]; [left; exact H|].
    right. exists i, u. split; [right; exact Hin|]. split; [exact Ha|exact H].
Qed.

Lemma random_go_complete l : forall ints cur,
  (exists i u, In (i, u) l /\ available u = true) -> exists i, random_go l ints 0 cur = Sel i.
Proof.
  induction l as [|[j v] r IH]; intros ints cur (i & u & Hin & Ha); [destruct Hin|].
  cbn [random_go]. destruct (available v) eqn:E.
  - replace (hd 0 ints mod (0 + 1) =? 0) with true by (rewrite Z.mod_1_r; reflexivity).
    destruct (random_go_shape r (tl ints) (0 + 1) (Sel j)) as [H|(i' & u' & _ & _ & H)]; rewrite H; eauto.
  - apply IH. destruct Hin as [Heq|Hin]; [inversion Heq; subst; congruence|eauto].
Qed.

Lemma random_sound pool ints i :
  random pool ints = Sel i -> exists u, nth_error pool i = Some u /\ available u = true.
Proof.
  unfold random. intro H.
  destruct (random_go_shape (indexed pool) ints 0 Nil) as [H'|(i' & u & Hin & Ha & H')]; [congruence|].
  rewrite H' in H. inversion H; subst. exists u. split; [apply wf_indexed; exact Hin|exact Ha].
Qed.
Lemma random_complete pool ints :
  (exists u, In u pool /\ available u = true) -> exists i, random pool ints = Sel i.
Proof. intro H. apply random_go_complete. apply avail_in_indexed. exact H. Qed.
Lemma random_nopanic pool ints : random pool ints <> Panic.
Proof.
  unfold random. destruct (random_go_shape (indexed pool) ints 0 Nil) as [H|(i & u & _ & _ & H)]; rewrite H; discriminate.
Qed.

(* ---------- least_conn ---------- *)
Definition conns_nonneg (l : list (nat * upstream)) : Prop :=
  forall i u, In (i, u) l -> available u = true -> 0 <= totalConns u.

Lemma least_conn_go_shape l : forall ints least count best,
  least_conn_go l ints least count best = best \/
  exists i u, In (i, u) l /\ available u = true /\ least_conn_go l ints least count best = Sel i.
Proof.
  induction l as [|[j v] r IH]; intros ints least count best; cbn [least_conn_go]; [left; reflexivity|].
  destruct (available v) eqn:E.
  - destruct ((least =? -1) || (totalConns v <? least)); cbn [fst snd].
    + destruct (totalConns v =? totalConns v).
      * match goal with |- context [least_conn_go r ?a ?b ?c ?d] => destruct (IH a b c d) as [H|(i & u & Hin & Ha & H)] end.
        -- rewrite H. destruct (hd 0 ints mod (0 + 1) =? 0); [|left; reflexivity].
           right. exists j, v. split; [left; reflexivity|]. split; [exact E|reflexivity].
        -- right. exists i, u. split; [right; exact Hin|]. split; [exact Ha|exact H].
      * match goal with |- context [least_conn_go r ?a ?b ?c ?d] => destruct (IH a b c d) as [H|(i & u & Hin & Ha & H)] end.
        -- left. exact H.
        -- right. exists i, u. split; [right; exact Hin|]. split; [exact Ha|exact H].
    + destruct (totalConns v =? least).
      * match goal with |- context [least_conn_go r ?a ?b ?c ?d] => destruct (IH a b c d) as [H|(i & u & Hin & Ha & H)] end.
        -- rewrite H. destruct (hd 0 ints mod (count + 1) =? 0); [|left; reflexivity].
           right. exists j, v. split; [left; reflexivity|]. split; [exact E|reflexivity].
        -- right. exists i, u. split; [right; exact Hin|]. split; [exact Ha|exact H].
      * match goal with |- context [least_conn_go r ?a ?b ?c ?d] => destruct (IH a b c d) as [H|(i & u & Hin & Ha & H)] end.
        -- left. exact H.
        -- right. exists i, u. split; [right; exact Hin|]. split; [exact Ha|exact H].
  - destruct (IH ints least count best) as [H|(i & u & Hin & Ha & H)]; [left; exact H|].
    right. exists i, u. split; [right; exact Hin|]. split; [exact Ha|exact H].
Qed.

Lemma least_conn_go_complete l : forall ints count best,
  (exists i u, In (i, u) l /\ available u = true) -> exists i, least_conn_go l ints (-1) count best = Sel i.
Proof.
  induction l as [|[j v] r IH]; intros ints count best (i & u & Hin & Ha); [destruct Hin|].
  cbn [least_conn_go]. destruct (available v) eqn:E.
  - cbn [orb Z.eqb Pos.eqb]. rewrite Z.eqb_refl.
    replace (hd 0 ints mod (0 + 1) =? 0) with true by (rewrite Z.mod_1_r; reflexivity).
    match goal with |- context [least_conn_go r ?a ?b ?c ?d] => destruct (least_conn_go_shape r a b c d) as [H|(i' & u' & _ & _ & H)] end;
      rewrite H; eauto.
  - apply IH. destruct Hin as [Heq|Hin]; [inversion Heq; subst; congruence|eauto].
Qed.

(* minimality: the invariant carried through the loop *)
Definition lc_inv (pool : list upstream) (least : Z) (best : sel) : Prop :=
  (least = -1 /\ best = Nil) \/
  (0 <= least /\ exists b ub, best = Sel b /\ nth_error pool b = Some ub /\ totalConns ub = least).

Lemma least_conn_go_min pool l : forall ints least count best r,
  wf_idx pool l -> conns_nonneg l -> lc_inv pool least best ->
  least_conn_go l ints least count best = Sel r ->
  exists ur, nth_error pool r = Some ur /\
    (least <> -1 -> totalConns ur <= least) /\
    (forall i u, In (i, u) l -> available u = true -> totalConns ur <= totalConns u).
Proof.
  induction l as [|[j v] rest IH]; intros ints least count best r Hwf Hnn Hinv H; cbn [least_conn_go] in H.
  - destruct Hinv as [[Hl Hb]|(Hl & b & ub & Hb & Hnb & Htb)]; [congruence|].
    subst best. inversion H; subst b. exists ub. split; [exact Hnb|]. split; [lia|]. intros i u [].
  - assert (Hwf' : wf_idx pool rest) by (eapply wf_tail; exact Hwf).
    assert (Hnn' : conns_nonneg rest) by (intros i u Hin Ha; apply (Hnn i u); [right; exact Hin|exact Ha]).
    destruct (available v) eqn:E.
    + assert (Ht : 0 <= totalConns v) by (apply (Hnn j v); [left; reflexivity|exact E]).
      assert (Hv : nth_error pool j = Some v) by (apply Hwf; left; reflexivity).
      destruct ((least =? -1) || (totalConns v <? least)) eqn:C.
      * (* new minimum *)
        rewrite Z.eqb_refl in H.
        replace (hd 0 ints mod (0 + 1) =? 0) with true in H by (rewrite Z.mod_1_r; reflexivity).
        apply IH in H; [|exact Hwf'|exact Hnn'|right; split; [exact Ht|exists j, v; auto]].
        destruct H as (ur & Hur & Hle & Hall). exists ur. split; [exact Hur|].
        assert (Hle' : totalConns ur <= totalConns v) by (apply Hle; lia).
        split.
        -- intro Hne. apply orb_true_iff in C. destruct C as [C|C]; [apply Z.eqb_eq in C; congruence|].
           apply Z.ltb_lt in C. lia.
        -- intros i u [Heq|Hin] Ha; [inversion Heq; subst; exact Hle'|apply (Hall i u Hin Ha)].
      * apply orb_false_iff in C. destruct C as [C1 C2]. apply Z.eqb_neq in C1. apply Z.ltb_ge in C2.
        destruct Hinv as [[Hl _]|(Hl & b & ub & Hb & Hnb & Htb)]; [congruence|].
        destruct (totalConns v =? least) eqn:C3.
        -- apply Z.eqb_eq in C3.
           apply IH in H; [|exact Hwf'|exact Hnn'|].
           ++ destruct H as (ur & Hur & Hle & Hall). exists ur. split; [exact Hur|]. split; [exact Hle|].
              intros i u [Heq|Hin] Ha; [inversion Heq; subst; specialize (Hle C1); lia|apply (Hall i u Hin Ha)].
           ++ right. split; [exact Hl|]. destruct (hd 0 ints mod (count + 1) =? 0).
              ** exists j, v. auto.
              ** exists b, ub. auto.
        -- apply IH in H; [|exact Hwf'|exact Hnn'|right; split; [exact Hl|exists b, ub; auto]].
           destruct H as (ur & Hur & Hle & Hall). exists ur. split; [exact Hur|]. split; [exact Hle|].
           intros i u [Heq|Hin] Ha; [inversion Heq; subst; specialize (Hle C1); lia|apply (Hall i u Hin Ha)].
    + apply IH in H; [|exact Hwf'|exact Hnn'|exact Hinv].
      destruct H as (ur & Hur & Hle & Hall). exists ur. split; [exact Hur|]. split; [exact Hle|].
      intros i u [Heq|Hin] Ha; [inversion Heq; subst; congruence|apply (Hall i u Hin Ha)].
Qed.

Lemma least_conn_sound pool ints i :
  least_conn pool ints = Sel i -> exists u, nth_error pool i = Some u /\ available u = true.
Proof.
  unfold least_conn. intro H.
  destruct (least_conn_go_shape (indexed pool) ints (-1) 0 Nil) as [H'|(i' & u & Hin & Ha & H')]; [congruence|].
  rewrite H' in H. inversion H; subst. exists u. split; [apply wf_indexed; exact Hin|exact Ha].
Qed.
Lemma least_conn_complete pool ints :
  (exists u, In u pool /\ available u = true) -> exists i, least_conn pool ints = Sel i.
Proof. intro H. apply least_conn_go_complete. apply avail_in_indexed. exact H. Qed.
Lemma least_conn_nopanic pool ints : least_conn pool ints <> Panic.
Proof.
  unfold least_conn. destruct (least_conn_go_shape (indexed pool) ints (-1) 0 Nil) as [H|(i & u & _ & _ & H)]; rewrite H; discriminate.
Qed.
Lemma least_conn_minimal pool ints i :
  (forall u, In u pool -> available u = true -> 0 <= totalConns u) ->
  least_conn pool ints = Sel i ->
  exists ui, nth_error pool i = Some ui /\
    forall u, In u pool -> available u = true -> totalConns ui <= totalConns u.
Proof.
  intros Hnn H. unfold least_conn in H.
  apply (least_conn_go_min pool) in H.
  - destruct H as (ur & Hur & _ & Hall). exists ur. split; [exact Hur|].
    intros u Hin Ha. apply In_nth_error in Hin. destruct Hin as [k Hk].
    apply (Hall k u); [|exact Ha]. rewrite indexed_is_from. apply (indexed_from_In_conv pool 0 k u Hk).
  - apply wf_indexed.
  - intros k u Hin Ha. apply Hnn; [|exact Ha]. apply wf_indexed in Hin. eapply nth_error_In; exact Hin.
  - left. split; reflexivity.
Qed.

(* ---------- round_robin ---------- *)
Lemma rr_go_sound pool n : forall fuel robin i robin',
  rr_go pool n fuel robin = (Sel i, robin') -> exists u, nth_error pool i = Some u /\ available u = true.
Proof.
  induction fuel as [|f IH]; intros robin i robin' H; cbn [rr_go] in H; [discriminate|].
  destruct (nth_error pool (Z.to_nat (((robin + 1) mod two32) mod n))) as [host|] eqn:E; [|discriminate].
  destruct (available host) eqn:Ea.
  - inversion H; subst. exists host. auto.
  - eapply IH. exact H.
Qed.

Lemma idx_in_range (pool : list upstream) x :
  0 < Z.of_nat (length pool) -> exists host, nth_error pool (Z.to_nat (x mod Z.of_nat (length pool))) = Some host.
Proof.
  intro Hn. destruct (nth_error pool (Z.to_nat (x mod Z.of_nat (length pool)))) as [h|] eqn:E; [eauto|].
  apply nth_error_None in E. pose proof (Z.mod_pos_bound x (Z.of_nat (length pool)) Hn). lia.
Qed.

Lemma rr_go_nopanic (pool : list upstream) : forall fuel robin,
  0 < Z.of_nat (length pool) -> fst (rr_go pool (Z.of_nat (length pool)) fuel robin) <> Panic.
Proof.
  induction fuel as [|f IH]; intros robin Hn; cbn [rr_go]; [discriminate|].
  destruct (idx_in_range pool ((robin + 1) mod two32) Hn) as [host Hh]. rewrite Hh.
  destruct (available host); [discriminate|apply IH; exact Hn].
Qed.

Lemma rr_go_complete (pool : list upstream) : forall fuel robin a ua,
  0 < Z.of_nat (length pool) ->
  nth_error pool a = Some ua -> available ua = true ->
  0 <= robin -> robin + Z.of_nat fuel < two32 ->
  (exists j, 0 <= j < Z.of_nat fuel /\ (robin + 1 + j) mod Z.of_nat (length pool) = Z.of_nat a) ->
  exists i r', rr_go pool (Z.of_nat (length pool)) fuel robin = (Sel i, r').
Proof.
  induction fuel as [|f IH]; intros robin a ua Hn Ha Hav Hr Hw (j & Hj & Hm); [lia|].
  cbn [rr_go]. assert (Hmod : (robin + 1) mod two32 = robin + 1) by (apply Z.mod_small; lia).
  rewrite Hmod. destruct (idx_in_range pool (robin + 1) Hn) as [host Hh]. rewrite Hh.
  destruct (available host) eqn:E; [eauto|].
  assert (j <> 0).
  { intro; subst j. replace (robin + 1 + 0) with (robin + 1) in Hm by lia. rewrite Hm in Hh.
    rewrite Nat2Z.id in Hh. congruence. }
  apply (IH (robin + 1) a ua); try assumption; try lia.
  exists (j - 1). split; [lia|]. replace (robin + 1 + 1 + (j - 1)) with (robin + 1 + j) by lia. exact Hm.
Qed.

Lemma round_robin_sound pool robin i robin' :
  round_robin pool robin = (Sel i, robin') -> exists u, nth_error pool i = Some u /\ available u = true.
Proof.
  unfold round_robin. destruct (Z.of_nat (length pool) =? 0); [discriminate|]. apply rr_go_sound.
Qed.

Lemma round_robin_nopanic pool robin : fst (round_robin pool robin) <> Panic.
Proof.
  unfold round_robin. destruct (Z.eqb_spec (Z.of_nat (length pool)) 0); [discriminate|].
  apply rr_go_nopanic. lia.
Qed.

Lemma round_robin_complete pool robin :
  0 <= robin -> robin + Z.of_nat (length pool) < two32 ->
  (exists u, In u pool /\ available u = true) ->
  exists i r', round_robin pool robin = (Sel i, r').
Proof.
  intros Hr Hw (u & Hin & Ha). apply In_nth_error in Hin. destruct Hin as [a Hna].
  assert (Hlt : (a < length pool)%nat) by (apply nth_error_Some; congruence).
  unfold round_robin. destruct (Z.eqb_spec (Z.of_nat (length pool)) 0); [lia|].
  apply (rr_go_complete pool (length pool) robin a u); try assumption; try lia.
  set (nn := Z.of_nat (length pool)) in *.
  exists ((Z.of_nat a - robin - 1) mod nn). split; [apply Z.mod_pos_bound; lia|].
  rewrite Zplus_mod_idemp_r. replace (robin + 1 + (Z.of_nat a - robin - 1)) with (Z.of_nat a) by lia.
  apply Z.mod_small. lia.
Qed.

(* ---------- ip_hash (HRW over an arbitrary hash function) ---------- *)
Section HRWProofs.
  Variable hashf : list byte -> N.

  Lemma hrw_go_shape l : forall s cur highest,
    hrw_go hashf l s cur highest = cur \/
    exists i u, In (i, u) l /\ available u = true /\ hrw_go hashf l s cur highest = Sel i.
  Proof.
    induction l as [|[j v] r IH]; intros s cur highest; cbn [hrw_go]; [left; reflexivity|].
    destruct (available v) eqn:E.
    - destruct ((match cur with Sel _ => false | _ => true end) || (highest <? hashf (uname v ++ s))%N).
      + destruct (IH s (Sel j) (hashf (uname v ++ s))) as [H|(i & u & Hin & Ha & H)].
        * right. exists j, v. split; [left; reflexivity|]. split; [exact E|exact H].
        * right. exists i, u. split; [right; exact Hin|]. split; [exact Ha|exact H].
      + destruct (IH s cur highest) as [H|(i & u & Hin & Ha & H)]; [left; exact H|].
        right. exists i, u. split; [right; exact Hin|]. split; [exact Ha|exact H].
    - destruct (IH s cur highest) as [H|(i & u & Hin & Ha & H)]; [left; exact H|].
      right. exists i, u. split; [right; exact Hin|]. split; [exact Ha|exact H].
  Qed.

  Lemma hrw_go_complete l : forall s highest,
    (exists i u, In (i, u) l /\ available u = true) -> exists i, hrw_go hashf l s Nil highest = Sel i.
  Proof.
    induction l as [|[j v] r IH]; intros s highest (i & u & Hin & Ha); [destruct Hin|].
    cbn [hrw_go]. destruct (available v) eqn:E.
    - cbn [orb]. destruct (hrw_go_shape r s (Sel j) (hashf (uname v ++ s))) as [H|(i' & u' & _ & _ & H)]; rewrite H; eauto.
    - apply IH. destruct Hin as [Heq|Hin]; [inversion Heq; subst; congruence|eauto].
  Qed.

  Lemma hrw_sound pool s i : hrw hashf pool s = Sel i -> exists u, nth_error pool i = Some u /\ available u = true.
  Proof.
    unfold hrw. intro H.
    destruct (hrw_go_shape (indexed pool) s Nil 0%N) as [H'|(i' & u & Hin & Ha & H')]; [congruence|].
    rewrite H' in H. inversion H; subst. exists u. split; [apply wf_indexed; exact Hin|exact Ha].
  Qed.
  Lemma hrw_complete pool s : (exists u, In u pool /\ available u = true) -> exists i, hrw hashf pool s = Sel i.
  Proof. intro H. apply hrw_go_complete. apply avail_in_indexed. exact H. Qed.
  Lemma hrw_nopanic pool s : hrw hashf pool s <> Panic.
  Proof.
    unfold hrw. destruct (hrw_go_shape (indexed pool) s Nil 0%N) as [H|(i & u & _ & _ & H)]; rewrite H; discriminate.
  Qed.
End HRWProofs.

(* ---------- random_choose ---------- *)
Definition good (pool : list upstream) (c : nat) : Prop :=
  exists u, nth_error pool c = Some u /\ available u = true.

Lemma set_nth_length {A} (l : list A) : forall i x, length (set_nth l i x) = length l.
Proof. induction l as [|y r IH]; intros [|i] x; cbn; auto. Qed.

Lemma set_nth_Forall {A} (P : A -> Prop) (l : list A) : forall i x, Forall P l -> P x -> Forall P (set_nth l i x).
Proof.
  induction l as [|y r IH]; intros [|i] x Hl Hx; cbn; auto; inversion Hl; subst; constructor; auto.
Qed.

Lemma rc_go_good pool l : forall k draws n choices cs,
  wf_idx pool l -> Forall (good pool) choices ->
  rc_go l k draws n choices = Some cs -> Forall (good pool) cs.
Proof.
  induction l as [|[j v] r IH]; intros k draws n choices cs Hwf Hc H; cbn [rc_go] in H.
  - inversion H; subst. exact Hc.
  - assert (Hwf' : wf_idx pool r) by (eapply wf_tail; exact Hwf).
    destruct (available v) eqn:E; [|eapply IH; eauto].
    assert (Hg : good pool j) by (exists v; split; [apply Hwf; left; reflexivity|exact E]).
    destruct (Z.of_nat (length choices) <? k).
    + eapply IH; [exact Hwf'| |exact H]. apply Forall_app. split; [exact Hc|constructor; [exact Hg|constructor]].
    + destruct (hd 0 draws <? k).
      * match type of H with context [if ?c then _ else None] => destruct c end; [|discriminate].
        eapply IH; [exact Hwf'| |exact H]. apply set_nth_Forall; assumption.
      * eapply IH; eauto.
Qed.

Lemma rc_go_length l : forall k draws n choices cs,
  rc_go l k draws n choices = Some cs -> (length choices <= length cs)%nat.
Proof.
  induction l as [|[j v] r IH]; intros k draws n choices cs H; cbn [rc_go] in H.
  - inversion H; subst. lia.
  - destruct (available v); [|eapply IH; eauto].
    destruct (Z.of_nat (length choices) <? k).
    + apply IH in H. rewrite app_length in H. cbn in H. lia.
    + destruct (hd 0 draws <? k).
      * match type of H with context [if ?c then _ else None] => destruct c end; [|discriminate].
        apply IH in H. rewrite set_nth_length in H. exact H.
      * eapply IH; eauto.
Qed.

Lemma rc_go_nonempty l : forall k draws n choices cs,
  0 < k -> (exists i u, In (i, u) l /\ available u = true) ->
  rc_go l k draws n choices = Some cs -> cs <> [].
Proof.
  induction l as [|[j v] r IH]; intros k draws n choices cs Hk (i & u & Hin & Ha) H; [destruct Hin|].
  cbn [rc_go] in H. destruct (available v) eqn:E.
  - destruct (Z.ltb_spec (Z.of_nat (length choices)) k).
    + apply rc_go_length in H. rewrite app_length in H. cbn in H. destruct cs; [cbn in H; lia|discriminate].
    + assert (length choices <> 0)%nat by lia.
      destruct (hd 0 draws <? k).
      * match type of H with context [if ?c then _ else None] => destruct c end; [|discriminate].
        apply rc_go_length in H. rewrite set_nth_length in H. destruct cs; [cbn in H; lia|discriminate].
      * apply rc_go_length in H. destruct cs; [cbn in H; lia|discriminate].
  - eapply IH; [exact Hk| |exact H]. destruct Hin as [Heq|Hin]; [inversion Heq; subst; congruence|eauto].
Qed.

Lemma rc_go_some l : forall k draws n choices,
  Forall (fun x => 0 <= x) draws -> rc_go l k draws n choices <> None.
Proof.
  induction l as [|[j v] r IH]; intros k draws n choices Hd; cbn [rc_go]; [discriminate|].
  assert (Htl : Forall (fun x => 0 <= x) (tl draws)) by (destruct draws; [constructor|inversion Hd; assumption]).
  assert (Hhd : 0 <= hd 0 draws) by (destruct draws; [cbn; lia|inversion Hd; assumption]).
  destruct (available v); [|apply IH; exact Hd].
  destruct (Z.ltb_spec (Z.of_nat (length choices)) k); [apply IH; exact Hd|].
  destruct (Z.ltb_spec (hd 0 draws) k); [|apply IH; exact Htl].
  replace (0 <=? hd 0 draws) with true by (symmetry; apply Z.leb_le; exact Hhd).
  replace (Nat.ltb (Z.to_nat (hd 0 draws)) (length choices)) with true by (symmetry; apply Nat.ltb_lt; lia).
  cbn [andb]. apply IH. exact Htl.
Qed.

Lemma lc_go_sel pool : forall cs best bestReqs c, lc_go pool cs best bestReqs = inl (Sel c) -> In c cs.
Proof.
  induction cs as [|x r IH]; intros best bestReqs c H; cbn [lc_go] in H; [discriminate|].
  destruct (nth_error pool x) as [u|]; [|discriminate].
  destruct (totalConns u =? 0); [inversion H; subst; left; reflexivity|].
  destruct ((bestReqs =? -1) || (totalConns u <? bestReqs)); cbn [fst snd] in H.
  - destruct (totalConns u =? totalConns u); right; eapply IH; exact H.
  - destruct (totalConns u =? bestReqs); right; eapply IH; exact H.
Qed.

Lemma lc_go_best pool : forall cs best bestReqs b,
  lc_go pool cs best bestReqs = inr b -> forall x, In x b -> In x best \/ In x cs.
Proof.
  induction cs as [|c r IH]; intros best bestReqs b H x Hx; cbn [lc_go] in H.
  - inversion H; subst. left. exact Hx.
  - destruct (nth_error pool c) as [u|]; [|discriminate].
    destruct (totalConns u =? 0); [discriminate|].
    destruct ((bestReqs =? -1) || (totalConns u <? bestReqs)); cbn [fst snd] in H.
    + destruct (totalConns u =? totalConns u).
      * destruct (IH _ _ _ H x Hx) as [Hb|Hr]; [|right; right; exact Hr].
        cbn in Hb. destruct Hb as [Hb|[]]. right; left; exact Hb.
      * destruct (IH _ _ _ H x Hx) as [[]|Hr]. right; right; exact Hr.
    + destruct (totalConns u =? bestReqs).
      * destruct (IH _ _ _ H x Hx) as [Hb|Hr]; [|right; right; exact Hr].
        apply in_app_or in Hb. destruct Hb as [Hb|[Hb|[]]]; [left; exact Hb|right; left; exact Hb].
      * destruct (IH _ _ _ H x Hx) as [Hb|Hr]; [left; exact Hb|right; right; exact Hr].
Qed.

Lemma lc_go_nopanic pool : forall cs best bestReqs,
  Forall (good pool) cs -> lc_go pool cs best bestReqs <> inl Panic.
Proof.
  induction cs as [|c r IH]; intros best bestReqs Hg; cbn [lc_go]; [discriminate|].
  inversion Hg as [|? ? (u & Hu & _) Hr]; subst. rewrite Hu.
  destruct (totalConns u =? 0); [discriminate|].
  destruct ((bestReqs =? -1) || (totalConns u <? bestReqs)); cbn [fst snd].
  - destruct (totalConns u =? totalConns u); apply IH; exact Hr.
  - destruct (totalConns u =? bestReqs); apply IH; exact Hr.
Qed.

Lemma lc_go_nil pool : forall cs best bestReqs, lc_go pool cs best bestReqs <> inl Nil.
Proof.
  induction cs as [|c r IH]; intros best bestReqs; cbn [lc_go]; [discriminate|].
  destruct (nth_error pool c) as [u|]; [|discriminate].
  destruct (totalConns u =? 0); [discriminate|].
  destruct ((bestReqs =? -1) || (totalConns u <? bestReqs)); cbn [fst snd].
  - destruct (totalConns u =? totalConns u); apply IH.
  - destruct (totalConns u =? bestReqs); apply IH.
Qed.

Lemma lc_go_nonempty pool : forall cs best bestReqs b,
  (cs <> [] \/ best <> []) -> (bestReqs = -1 \/ best <> []) ->
  lc_go pool cs best bestReqs = inr b -> b <> [].
Proof.
  induction cs as [|c r IH]; intros best bestReqs b H1 H2 H; cbn [lc_go] in H.
  - inversion H; subst. destruct H1 as [H1|H1]; [congruence|exact H1].
  - destruct (nth_error pool c) as [u|]; [|discriminate].
    destruct (totalConns u =? 0); [discriminate|].
    destruct ((bestReqs =? -1) || (totalConns u <? bestReqs)) eqn:C; cbn [fst snd] in H.
    + rewrite Z.eqb_refl in H. eapply IH; [| |exact H]; right; cbn; discriminate.
    + apply orb_false_iff in C. destruct C as [C _]. apply Z.eqb_neq in C.
      destruct H2 as [H2|H2]; [congruence|].
      destruct (totalConns u =? bestReqs).
      * eapply IH; [| |exact H]; right; intro Hc; apply app_eq_nil in Hc; destruct Hc; congruence.
      * eapply IH; [| |exact H]; right; exact H2.
Qed.

Definition final_ok (final : list Z) : Prop := forall m, 0 <= nth m final 0 <= Z.of_nat m.

Lemma leastConns_sound pool cs final c : leastConns pool cs final = Sel c -> In c cs.
Proof.
  unfold leastConns. destruct cs as [|c0 r]; [discriminate|].
  destruct (lc_go pool (c0 :: r) [] (-1)) as [s|b] eqn:E.
  - intro; subst s. eapply lc_go_sel; exact E.
  - destruct b as [|b0 br]; [discriminate|].
    destruct (0 <=? nth (length (b0 :: br) - 1) final 0); [|discriminate].
    destruct (nth_error (b0 :: br) (Z.to_nat (nth (length (b0 :: br) - 1) final 0))) as [x|] eqn:En; [|discriminate].
    intro H; inversion H; subst x. apply nth_error_In in En.
    destruct (lc_go_best pool _ _ _ _ E c En) as [[]|Hin]. exact Hin.
Qed.

Lemma leastConns_total pool cs final :
  cs <> [] -> Forall (good pool) cs -> final_ok final -> exists c, leastConns pool cs final = Sel c.
Proof.
  intros Hne Hg Hf. unfold leastConns. destruct cs as [|c0 r]; [congruence|].
  destruct (lc_go pool (c0 :: r) [] (-1)) as [s|b] eqn:E.
  - destruct s as [c| |]; [eauto| |].
    + exfalso. eapply lc_go_nil; exact E.
    + exfalso. eapply lc_go_nopanic; [exact Hg|exact E].
  - assert (Hb : b <> []) by (eapply lc_go_nonempty; [| |exact E]; [left; discriminate|left; reflexivity]).
    destruct b as [|b0 br]; [congruence|].
    pose proof (Hf (length (b0 :: br) - 1)%nat) as [Hlo Hhi].
    replace (0 <=? nth (length (b0 :: br) - 1) final 0) with true by (symmetry; apply Z.leb_le; exact Hlo).
    destruct (nth_error (b0 :: br) (Z.to_nat (nth (length (b0 :: br) - 1) final 0))) as [x|] eqn:En; [eauto|].
    apply nth_error_None in En. cbn [length] in *. lia.
Qed.

Lemma random_choose_sound choose pool draws final i :
  random_choose choose pool draws final = Sel i -> exists u, nth_error pool i = Some u /\ available u = true.
Proof.
  unfold random_choose. destruct (rc_go (indexed pool) _ draws 0 []) as [cs|] eqn:E; [|discriminate].
  intro H. apply leastConns_sound in H.
  assert (Hg : Forall (good pool) cs) by (eapply rc_go_good; [apply wf_indexed|constructor|exact E]).
  rewrite Forall_forall in Hg. exact (Hg i H).
Qed.

Lemma random_choose_complete choose pool draws final :
  1 <= choose -> Forall (fun x => 0 <= x) draws -> final_ok final ->
  (exists u, In u pool /\ available u = true) ->
  exists i, random_choose choose pool draws final = Sel i.
Proof.
  intros Hc Hd Hf Hex. unfold random_choose.
  destruct (rc_go (indexed pool) (Z.min choose (Z.of_nat (length pool))) draws 0 []) as [cs|] eqn:E.
  - apply leastConns_total; [|eapply rc_go_good; [apply wf_indexed|constructor|exact E]|exact Hf].
    eapply rc_go_nonempty; [|apply avail_in_indexed; exact Hex|exact E].
    destruct Hex as (u & Hin & _). destruct pool; [destruct Hin|]. cbn [length]. lia.
  - exfalso. eapply rc_go_some; [exact Hd|exact E].
Qed.

Lemma random_choose_nopanic choose pool draws final :
  Forall (fun x => 0 <= x) draws -> final_ok final -> random_choose choose pool draws final <> Panic.
Proof.
  intros Hd Hf. unfold random_choose.
  destruct (rc_go (indexed pool) (Z.min choose (Z.of_nat (length pool))) draws 0 []) as [cs|] eqn:E.
  - destruct cs as [|c0 r]; [discriminate|].
    destruct (leastConns_total pool (c0 :: r) final) as [c Hc]; [discriminate| |exact Hf|rewrite Hc; discriminate].
    eapply rc_go_good; [apply wf_indexed|constructor|exact E].
  - exfalso. eapply rc_go_some; [exact Hd|exact E].
Qed.

(* round_robin returns the first available upstream, cyclically, after the previous position *)
Definition avail_pos (pool : list upstream) (p : Z) : bool :=
  match nth_error pool (Z.to_nat (p mod Z.of_nat (length pool))) with
  | Some u => available u
  | None => false
  end.

Lemma rr_go_next (pool : list upstream) : forall fuel robin i r',
  0 <= robin -> robin + Z.of_nat fuel < two32 ->
  rr_go pool (Z.of_nat (length pool)) fuel robin = (Sel i, r') ->
  robin < r' <= robin + Z.of_nat fuel /\ i = Z.to_nat (r' mod Z.of_nat (length pool)) /\
  avail_pos pool r' = true /\ forall p, robin < p < r' -> avail_pos pool p = false.
Proof.
  induction fuel as [|f IH]; intros robin i r' Hr Hw H; cbn [rr_go] in H; [discriminate|].
  assert (Hmod : (robin + 1) mod two32 = robin + 1) by (apply Z.mod_small; lia).
  rewrite Hmod in H.
  destruct (nth_error pool (Z.to_nat ((robin + 1) mod Z.of_nat (length pool)))) as [host|] eqn:E; [|discriminate].
  destruct (available host) eqn:Ea.
  - inversion H; subst. split; [lia|]. split; [reflexivity|]. split; [unfold avail_pos; rewrite E; exact Ea|].
    intros p Hp. lia.
  - apply IH in H; [|lia|lia]. destruct H as (Hrange & Hi & Hav & Hbetween).
    split; [lia|]. split; [exact Hi|]. split; [exact Hav|].
    intros p Hp. destruct (Z.eq_dec p (robin + 1)) as [->|Hne]; [unfold avail_pos; rewrite E; exact Ea|].
    apply Hbetween. lia.
Qed.

Lemma round_robin_next pool robin i r' :
  0 <= robin -> robin + Z.of_nat (length pool) < two32 ->
  round_robin pool robin = (Sel i, r') ->
  robin < r' <= robin + Z.of_nat (length pool) /\ i = Z.to_nat (r' mod Z.of_nat (length pool)) /\
  avail_pos pool r' = true /\ forall p, robin < p < r' -> avail_pos pool p = false.
Proof.
  intros Hr Hw. unfold round_robin. destruct (Z.of_nat (length pool) =? 0); [discriminate|].
  apply rr_go_next; assumption.
Qed.
