(* check (model/Discipline.v) is sound and complete for data-race freedom in the abstract thread model. *)
From Coq Require Import String List Bool Arith.
From L4.gen Require Import Access.
From L4.model Require Import Discipline.
Import ListNotations.

Lemma check_pair : forall t a b, check t = true -> In a t -> In b t -> pair_ok a b = true.
Proof.
  intros t a b H Ha Hb. unfold check in H. rewrite forallb_forall in H.
  specialize (H a Ha). rewrite forallb_forall in H. exact (H b Hb).
Qed.

Lemma discipline_sound : forall t, check t = true -> forall tr, wf t tr -> ~ race tr.
Proof.
  intros t H tr [W1 W2] [e1 [e2 [I1 [I2 [Ht [Ho [Hl Hk]]]]]]].
  pose proof (check_pair t _ _ H (W1 e1 I1) (W1 e2 I2)) as P. unfold pair_ok in P.
  assert (String.eqb (a_loc (e_acc e1)) (a_loc (e_acc e2)) = true) as El by (apply String.eqb_eq; assumption).
  rewrite El, Hk in P. cbn in P. rewrite orb_false_r in P. apply negb_true_iff in P.
  unfold concurrent in P. destruct (String.eqb (a_fn (e_acc e1)) (a_fn (e_acc e2))) eqn:Ef; [|discriminate].
  apply orb_false_iff in P. destruct P as [M1 M2]. apply String.eqb_eq in Ef.
  exact (Ht (W2 e1 e2 I1 I2 Ef Ho M1 M2)).
Qed.

Lemma forallb_false : forall (A : Type) (f : A -> bool) (l : list A),
  forallb f l = false -> exists x, In x l /\ f x = false.
Proof.
  intros A f l. induction l as [|x u IH]; cbn; intros H; [discriminate|].
  apply andb_false_iff in H. destruct H as [H|H].
  - exists x; split; [now left|assumption].
  - destruct (IH H) as [a [Ha Hf]]. exists a; split; [now right|assumption].
Qed.

Lemma check_false_pair : forall t, check t = false -> exists a b, In a t /\ In b t /\ pair_ok a b = false.
Proof.
  intros t H. unfold check in H.
  destruct (forallb_false _ _ _ H) as [a [Ha Hf]].
  destruct (forallb_false _ _ _ Hf) as [b [Hb Hp]].
  exists a, b. auto.
Qed.

(* the check is exact: a table it rejects has a two-thread execution with a race *)
Lemma discipline_complete : forall t, check t = false -> exists tr, wf t tr /\ race tr.
Proof.
  intros t H. destruct (check_false_pair t H) as [a [b [Ha [Hb Hp]]]].
  unfold pair_ok in Hp. apply orb_false_iff in Hp. destruct Hp as [Hp Hk].
  apply orb_false_iff in Hp. destruct Hp as [Hl Hc].
  apply negb_false_iff in Hl. apply negb_false_iff in Hc. apply String.eqb_eq in Hl.
  exists [mkEv 0 0 a; mkEv 1 0 b]. split.
  - split.
    + intros e [<-|[<-|[]]]; assumption.
    + intros e1 e2 [<-|[<-|[]]] [<-|[<-|[]]] Ef _ M1 M2; cbn in *; try reflexivity; exfalso;
        unfold concurrent in Hc.
      * apply String.eqb_eq in Ef. rewrite Ef, M1, M2 in Hc. discriminate.
      * symmetry in Ef. apply String.eqb_eq in Ef. rewrite Ef, M1, M2 in Hc. discriminate.
  - exists (mkEv 0 0 a), (mkEv 1 0 b). cbn. repeat split; auto.
Qed.
