(* Lemmas about model/TlsHello.v: the cryptobyte readers undo the RFC encoder's writers, the
   extension loop of parse_hello over an encoded extension list is a fold of per-extension effects,
   and the framing lemmas of the record gate. *)
From Coq Require Import List NArith ZArith Bool Arith Lia.
From Coq.Strings Require Import Byte.
From L4.model Require Import GoBase TlsHello.
From L4.proofs Require Import GoBaseProofs.
From L4.gen Require Import Consts.
Import ListNotations.

(* ------------------------------------------------------------------ integers *)
Lemma tlsh_len_N_to_be w : forall v, length (N_to_be w v) = w.
Proof.
  induction w as [|w IH]; intro v; [reflexivity|].
  cbn [N_to_be]. rewrite app_length, IH. cbn [length]. lia.
Qed.

Lemma tlsh_be_N_snoc l b : be_N (l ++ [b]) = (be_N l * 256 + bN b)%N.
Proof. unfold be_N. rewrite fold_left_app. reflexivity. Qed.

Lemma tlsh_byte_of_N n : (n < 256)%N ->
  bN (match Byte.of_N n with Some b => b | None => x00 end) = n.
Proof.
  intro Hlt. destruct (Byte.of_N n) as [b|] eqn:E.
  - unfold bN. apply Byte.to_of_N. exact E.
  - apply Byte.of_N_None_iff in E. lia.
Qed.

Lemma tlsh_pow_succ w : (256 ^ N.of_nat (S w) = 256 * 256 ^ N.of_nat w)%N.
Proof. rewrite Nat2N.inj_succ. apply N.pow_succ_r'. Qed.

Lemma tlsh_be_N_to_be w : forall v, fits w v -> be_N (N_to_be w v) = v.
Proof.
  unfold fits. induction w as [|w IH]; intros v Hv.
  - cbn in Hv. cbn. lia.
  - rewrite tlsh_pow_succ in Hv. cbn [N_to_be]. rewrite tlsh_be_N_snoc.
    rewrite IH by (apply N.div_lt_upper_bound; lia).
    rewrite tlsh_byte_of_N by (apply N.mod_lt; lia).
    rewrite (N.div_mod v 256) at 3 by lia. lia.
Qed.

Lemma tlsh_N_to_be_nonempty w v : w <> 0%nat -> N_to_be w v <> [].
Proof.
  intros Hw He. apply (f_equal (@length byte)) in He. rewrite tlsh_len_N_to_be in He. cbn in He. lia.
Qed.

(* ------------------------------------------------------------------ cryptobyte readers *)
Lemma tlsh_read_app n a r : length a = n -> cb_read n (a ++ r) = Some (a, r).
Proof.
  intro Hl. unfold cb_read, read_full. rewrite app_length.
  destruct (Nat.ltb_spec (length a + length r) n) as [Hlt|Hge]; [lia|].
  rewrite firstn_app_le, skipn_app_le by lia.
  rewrite <- Hl, firstn_all, skipn_all. rewrite app_nil_l. reflexivity.
Qed.

Lemma tlsh_skip_app n a r : length a = n -> cb_skip n (a ++ r) = Some r.
Proof. intro Hl. unfold cb_skip. rewrite tlsh_read_app by exact Hl. reflexivity. Qed.

Lemma tlsh_uint_enc w v r : fits w v -> cb_uint w (N_to_be w v ++ r) = Some (v, r).
Proof.
  intro Hv. unfold cb_uint. rewrite tlsh_read_app by apply tlsh_len_N_to_be.
  rewrite tlsh_be_N_to_be by exact Hv. reflexivity.
Qed.

(* THE reusable lemma: reading a length-prefixed vector that the encoder wrote returns the vector
   and the rest *)
Lemma tlsh_lp_vec w body r : vfits w body -> cb_lp w (vec w body ++ r) = Some (body, r).
Proof.
  intro Hv. unfold cb_lp, vec. rewrite <- app_assoc.
  rewrite tlsh_read_app by apply tlsh_len_N_to_be.
  rewrite tlsh_be_N_to_be by exact Hv. rewrite Nat2N.id.
  apply tlsh_read_app. reflexivity.
Qed.

Lemma tlsh_lp_vec_nil w body : vfits w body -> cb_lp w (vec w body) = Some (body, []).
Proof. intro Hv. rewrite <- (app_nil_r (vec w body)). apply tlsh_lp_vec. exact Hv. Qed.

Lemma tlsh_vec_nonempty w body : w <> 0%nat -> vec w body <> [].
Proof.
  intros Hw He. unfold vec in He. apply app_eq_nil in He. destruct He as [He _].
  revert He. apply tlsh_N_to_be_nonempty. exact Hw.
Qed.

Lemma tlsh_cb_empty_false s : s <> [] -> cb_empty s = false.
Proof. destruct s; [congruence|reflexivity]. Qed.

Lemma tlsh_cb_empty_app_false a b : a <> [] -> cb_empty (a ++ b) = false.
Proof. destruct a; [congruence|reflexivity]. Qed.

(* ------------------------------------------------------------------ loops over encoded items *)
Lemma tlsh_flat_map_len {B} (enc : B -> list byte) (P : B -> Prop) :
  (forall x, P x -> enc x <> []) ->
  forall items, Forall P items -> (length items <= length (flat_map enc items))%nat.
Proof.
  intros Hne items HP. induction HP as [|x items Hx HP IH]; [cbn; lia|].
  cbn [flat_map length]. rewrite app_length.
  specialize (Hne x Hx). destruct (enc x) as [|b e]; [congruence|]. cbn [length]. lia.
Qed.

Lemma tlsh_many_enc {A B} (enc : B -> list byte) (dec : B -> A)
  (step : list byte -> option (A * list byte)) (P : B -> Prop) :
  (forall x r, P x -> step (enc x ++ r) = Some (dec x, r)) ->
  (forall x, P x -> enc x <> []) ->
  forall items fuel, Forall P items -> (length items <= fuel)%nat ->
    cb_many fuel step (flat_map enc items) = (map dec items, true).
Proof.
  intros Hstep Hne items. induction items as [|x items IH]; intros fuel HP Hf.
  - destruct fuel; reflexivity.
  - inversion HP as [|? ? Hx HP']; subst. cbn [flat_map map].
    destruct fuel as [|f]; [cbn in Hf; lia|].
    destruct (enc x ++ flat_map enc items) as [|b s] eqn:E.
    + apply app_eq_nil in E. destruct E as [E _]. exfalso. revert E. apply Hne. exact Hx.
    + cbn [cb_many]. rewrite <- E. rewrite Hstep by exact Hx.
      rewrite IH by (try exact HP'; cbn in Hf; lia). reflexivity.
Qed.

Lemma tlsh_all_enc {A B} (enc : B -> list byte) (dec : B -> A)
  (step : list byte -> option (A * list byte)) (P : B -> Prop) :
  (forall x r, P x -> step (enc x ++ r) = Some (dec x, r)) ->
  (forall x, P x -> enc x <> []) ->
  forall items, Forall P items -> cb_all step (flat_map enc items) = (map dec items, true).
Proof.
  intros Hstep Hne items HP. unfold cb_all.
  apply (tlsh_many_enc enc dec step P Hstep Hne); [exact HP|].
  apply (tlsh_flat_map_len enc P Hne). exact HP.
Qed.

(* a vector of uint16 *)
Lemma tlsh_all_u16s l : Forall (fits 2) l -> cb_all cb_u16 (u16s l) = (l, true).
Proof.
  intro Hl. unfold u16s.
  rewrite (tlsh_all_enc (N_to_be 2) (fun x => x) cb_u16 (fits 2)).
  - rewrite map_id. reflexivity.
  - intros x r Hx. apply tlsh_uint_enc. exact Hx.
  - intros x _. apply tlsh_N_to_be_nonempty. discriminate.
  - exact Hl.
Qed.

Lemma tlsh_u16s_nonempty l : l <> [] -> u16s l <> [].
Proof.
  destruct l as [|x l]; [congruence|]. intros _ He. unfold u16s in He. cbn [flat_map] in He.
  apply app_eq_nil in He. destruct He as [He _]. revert He. apply tlsh_N_to_be_nonempty. discriminate.
Qed.

(* a vector of 8-bit-length-prefixed non-empty strings (ALPN protocol names, PSK binders) *)
Lemma tlsh_nonempty_lp_vec w v r : v <> [] -> vfits w v -> nonempty_lp w (vec w v ++ r) = Some (v, r).
Proof.
  intros Hne Hv. unfold nonempty_lp. rewrite tlsh_lp_vec by exact Hv.
  rewrite tlsh_cb_empty_false by exact Hne. reflexivity.
Qed.

Lemma tlsh_all_vecs ps : Forall (fun p => p <> [] /\ vfits 1 p) ps ->
  cb_all (nonempty_lp 1) (flat_map (vec 1) ps) = (ps, true).
Proof.
  intro Hps.
  rewrite (tlsh_all_enc (vec 1) (fun x => x) (nonempty_lp 1) (fun p => p <> [] /\ vfits 1 p)).
  - rewrite map_id. reflexivity.
  - intros x r [Hne Hv]. apply tlsh_nonempty_lp_vec; assumption.
  - intros x _. apply tlsh_vec_nonempty. discriminate.
  - exact Hps.
Qed.

Lemma tlsh_flat_map_nonempty {B} (enc : B -> list byte) l :
  l <> [] -> (forall x, In x l -> enc x <> []) -> flat_map enc l <> [].
Proof.
  destruct l as [|x l]; [congruence|]. intros _ Hne He. cbn [flat_map] in He.
  apply app_eq_nil in He. destruct He as [He _]. revert He. apply Hne. left. reflexivity.
Qed.

(* ------------------------------------------------------------------ extension cases *)
Lemma tlsh_case_u16_vector w get set l i :
  l <> [] -> Forall (fits 2) l -> vfits w (u16s l) ->
  case_u16_vector w get set (vec w (u16s l)) i = (set i (get i ++ l), Some []).
Proof.
  intros Hne Hl Hv. unfold case_u16_vector. rewrite tlsh_lp_vec_nil by exact Hv.
  rewrite tlsh_cb_empty_false by (apply tlsh_u16s_nonempty; exact Hne).
  rewrite tlsh_all_u16s by exact Hl. reflexivity.
Qed.

Lemma tlsh_case_bytes w set ne v i :
  vfits w v -> (ne = true -> v <> []) ->
  case_bytes w set ne (vec w v) i = (set i v, Some []).
Proof.
  intros Hv Hne. unfold case_bytes. rewrite tlsh_lp_vec_nil by exact Hv.
  destruct ne; [rewrite tlsh_cb_empty_false by (apply Hne; reflexivity)|]; reflexivity.
Qed.

Lemma tlsh_case_alpn ps i :
  ps <> [] -> Forall (fun p => p <> [] /\ vfits 1 p) ps -> vfits 2 (flat_map (vec 1) ps) ->
  case_alpn (vec 2 (flat_map (vec 1) ps)) i = (set_protos i (i_protos i ++ ps), Some []).
Proof.
  intros Hne Hps Hv. unfold case_alpn. rewrite tlsh_lp_vec_nil by exact Hv.
  rewrite tlsh_cb_empty_false
    by (apply tlsh_flat_map_nonempty; [exact Hne|intros; apply tlsh_vec_nonempty; discriminate]).
  rewrite tlsh_all_vecs by exact Hps. reflexivity.
Qed.

Lemma tlsh_key_share_step e r :
  fits 2 (fst e) /\ snd e <> [] /\ vfits 2 (snd e) ->
  key_share_step (encode_key_share e ++ r) = Some (e, r).
Proof.
  destruct e as [g k]. cbn [fst snd]. intros [Hg [Hne Hk]].
  unfold key_share_step, encode_key_share, cb_u16. cbn [fst snd]. rewrite <- app_assoc.
  rewrite tlsh_uint_enc by exact Hg. rewrite tlsh_lp_vec by exact Hk.
  rewrite tlsh_cb_empty_false by exact Hne. reflexivity.
Qed.

Lemma tlsh_case_key_share ks i :
  Forall (fun e => fits 2 (fst e) /\ snd e <> [] /\ vfits 2 (snd e)) ks ->
  vfits 2 (flat_map encode_key_share ks) ->
  case_key_share (vec 2 (flat_map encode_key_share ks)) i = (set_keyshares i (i_keyshares i ++ ks), Some []).
Proof.
  intros Hks Hv. unfold case_key_share. rewrite tlsh_lp_vec_nil by exact Hv.
  rewrite (tlsh_all_enc encode_key_share (fun x => x) key_share_step
             (fun e => fits 2 (fst e) /\ snd e <> [] /\ vfits 2 (snd e))).
  - rewrite map_id. reflexivity.
  - intros x r Hx. apply tlsh_key_share_step. exact Hx.
  - intros x _. unfold encode_key_share. intro He. apply app_eq_nil in He. destruct He as [He _].
    revert He. apply tlsh_N_to_be_nonempty. discriminate.
  - exact Hks.
Qed.

Lemma tlsh_psk_identity_step e r :
  fst e <> [] /\ vfits 2 (fst e) /\ fits 4 (snd e) ->
  psk_identity_step (encode_psk_identity e ++ r) = Some (e, r).
Proof.
  destruct e as [l a]. cbn [fst snd]. intros [Hne [Hl Ha]].
  unfold psk_identity_step, encode_psk_identity, cb_u32. cbn [fst snd]. rewrite <- app_assoc.
  rewrite tlsh_lp_vec by exact Hl. rewrite tlsh_uint_enc by exact Ha.
  rewrite tlsh_cb_empty_false by exact Hne. reflexivity.
Qed.

Lemma tlsh_case_pre_shared_key ids bs i :
  ids <> [] -> Forall (fun e => fst e <> [] /\ vfits 2 (fst e) /\ fits 4 (snd e)) ids ->
  vfits 2 (flat_map encode_psk_identity ids) ->
  bs <> [] -> Forall (fun b => b <> [] /\ vfits 1 b) bs -> vfits 2 (flat_map (vec 1) bs) ->
  case_pre_shared_key true (vec 2 (flat_map encode_psk_identity ids) ++ vec 2 (flat_map (vec 1) bs)) i =
  (ext_effect (EPreSharedKey ids bs) i, Some []).
Proof.
  intros Hine Hids Hiv Hbne Hbs Hbv. unfold case_pre_shared_key. cbn [negb].
  rewrite tlsh_lp_vec by exact Hiv.
  assert (Hidne : forall x : list byte * N, encode_psk_identity x <> []).
  { intros x. unfold encode_psk_identity. intro He. apply app_eq_nil in He. destruct He as [He _].
    revert He. apply tlsh_vec_nonempty. discriminate. }
  rewrite tlsh_cb_empty_false by (apply tlsh_flat_map_nonempty; [exact Hine|intros; apply Hidne]).
  rewrite (tlsh_all_enc encode_psk_identity (fun x => x) psk_identity_step
             (fun e => fst e <> [] /\ vfits 2 (fst e) /\ fits 4 (snd e))).
  - rewrite map_id. cbn [negb]. rewrite tlsh_lp_vec_nil by exact Hbv.
    rewrite tlsh_cb_empty_false
      by (apply tlsh_flat_map_nonempty; [exact Hbne|intros; apply tlsh_vec_nonempty; discriminate]).
    rewrite tlsh_all_vecs by exact Hbs. reflexivity.
  - intros x r Hx. apply tlsh_psk_identity_step. exact Hx.
  - intros x _. apply Hidne.
  - exact Hids.
Qed.

Lemma tlsh_case_status_request t r x i :
  fits 1 t -> vfits 2 r -> vfits 2 x ->
  case_status_request (N_to_be 1 t ++ vec 2 r ++ vec 2 x) i = (set_ocsp i (t =? 1)%N, Some []).
Proof.
  intros Ht Hr Hx. unfold case_status_request, cb_u8.
  rewrite tlsh_uint_enc by exact Ht. rewrite tlsh_lp_vec by exact Hr.
  rewrite tlsh_lp_vec_nil by exact Hx. reflexivity.
Qed.

Lemma tlsh_find_none {A} (f : A -> bool) l : (forall x, In x l -> f x = false) -> find f l = None.
Proof.
  induction l as [|x l IH]; intro H; [reflexivity|]. cbn [find].
  rewrite (H x) by (left; reflexivity). apply IH. intros y Hy. apply H. right. exact Hy.
Qed.

(* the name loop: entries of other name types are skipped, the host_name entry is taken; the
   "already set" test is only reached for a host_name entry *)
Lemma tlsh_sni_loop names : forall fuel i,
  Forall wf_server_name names -> NoDup (map fst names) ->
  (In 0%N (map fst names) -> i_server_name i = []) ->
  (length names <= fuel)%nat ->
  sni_loop fuel (flat_map encode_server_name names) i =
  (match find (fun e => (fst e =? 0)%N) names with Some e => set_server_name i (snd e) | None => i end, true).
Proof.
  induction names as [|[t n] names IH]; intros fuel i Hwf Hnd Hpre Hf.
  - destruct fuel; reflexivity.
  - inversion Hwf as [|? ? Hx Hwf']; subst. inversion Hnd as [|? ? Hnin Hnd']; subst.
    destruct Hx as [Ht [Hne [Hv Hdot]]]. cbn [fst snd] in *.
    destruct fuel as [|f]; [cbn in Hf; lia|].
    cbn [flat_map]. unfold encode_server_name at 1. cbn [fst snd]. rewrite <- !app_assoc.
    destruct (N_to_be 1 t ++ vec 2 n ++ flat_map encode_server_name names) as [|b s] eqn:E.
    { apply app_eq_nil in E. destruct E as [E _]. exfalso. revert E. apply tlsh_N_to_be_nonempty. discriminate. }
    cbn [sni_loop]. rewrite <- E. unfold cb_u8. rewrite tlsh_uint_enc by exact Ht.
    rewrite tlsh_lp_vec by exact Hv. rewrite tlsh_cb_empty_false by exact Hne.
    cbn [find fst snd]. destruct (N.eqb_spec t 0) as [Ht0|Ht0]; cbn [negb].
    + subst t. rewrite Hpre by (left; reflexivity). cbn [cb_empty negb].
      rewrite Hdot by reflexivity.
      rewrite IH; [|exact Hwf'|exact Hnd'|intro Hin; contradiction|cbn in Hf; lia].
      replace (find (fun e : N * list byte => (fst e =? 0)%N) names) with (@None (N * list byte)); [reflexivity|].
      symmetry. apply tlsh_find_none. intros [t' n'] Hin. cbn [fst]. apply N.eqb_neq. intro Hz. subst t'.
      apply Hnin. change 0%N with (fst (0%N, n')). apply in_map. exact Hin.
    + rewrite IH; [reflexivity|exact Hwf'|exact Hnd'| |cbn in Hf; lia].
      intro Hin. apply Hpre. right. exact Hin.
Qed.

Lemma tlsh_case_sni names i :
  names <> [] -> Forall wf_server_name names -> vfits 2 (flat_map encode_server_name names) ->
  NoDup (map fst names) -> i_server_name i = [] ->
  case_sni (vec 2 (flat_map encode_server_name names)) i = (ext_effect (EServerName names) i, Some []).
Proof.
  intros Hne Hwf Hv Hnd Hpre. unfold case_sni. rewrite tlsh_lp_vec_nil by exact Hv.
  assert (Henc : forall x : N * list byte, encode_server_name x <> []).
  { intros x He. unfold encode_server_name in He. apply app_eq_nil in He. destruct He as [He _].
    revert He. apply tlsh_N_to_be_nonempty. discriminate. }
  rewrite tlsh_cb_empty_false by (apply tlsh_flat_map_nonempty; [exact Hne|intros; apply Henc]).
  rewrite tlsh_sni_loop; [reflexivity|exact Hwf|exact Hnd|intros _; exact Hpre|].
  apply (tlsh_flat_map_len encode_server_name (fun _ => True)); [intros; apply Henc|].
  apply Forall_forall. intros; exact I.
Qed.

(* ------------------------------------------------------------------ the switch *)
(* the implementation's extension numbers (regenerated from the source) are the IANA numbers the
   encoder uses; these break when a constant in parsehello.go changes *)
Lemma tlsh_consts_ok :
  [ext_server_name; ext_status_request; ext_supported_curves; ext_supported_points;
   ext_signature_algorithms; ext_alpn; ext_sct; ext_session_ticket; ext_pre_shared_key; ext_early_data;
   ext_supported_versions; ext_cookie; ext_psk_modes; ext_signature_algorithms_cert; ext_key_share;
   ext_renegotiation_info] = known_ext_types /\
  scsv_renegotiation = 255%N /\ status_type_ocsp = 1%N.
Proof. vm_compute. repeat split. Qed.

Lemma tlsh_dispatch_opaque t d last i : ~ In t known_ext_types -> parse_ext t d last i = Continue i.
Proof.
  intro H. unfold parse_ext.
  repeat match goal with
  | |- context [N.eqb t ?c] =>
      let E := fresh "E" in
      destruct (N.eqb_spec t c) as [E|E];
      [exfalso; apply H; rewrite E; vm_compute; repeat (try (left; reflexivity); right)|]
  end.
  reflexivity.
Qed.

Lemma tlsh_parse_ext_wf e last i :
  wf_ext e -> (is_psk e = true -> last = true) -> (ext_type e = 0%N -> i_server_name i = []) ->
  parse_ext (ext_type e) (ext_data e) last i = Continue (ext_effect e i).
Proof.
  intros [_ [_ Hwf]] Hlast Hsni.
  destruct e; cbn [ext_type ext_data].
  - (* server_name *) destruct Hwf as [Hne [Hn [Hv Hnd]]].
    change (parse_ext 0 ?d last i) with (after_switch (case_sni d i)).
    rewrite tlsh_case_sni by (try assumption; apply Hsni; reflexivity). reflexivity.
  - (* status_request *) destruct Hwf as [Ht [Hr Hx]].
    change (parse_ext 5 ?d last i) with (after_switch (case_status_request d i)).
    rewrite tlsh_case_status_request by assumption. reflexivity.
  - (* supported_groups *) destruct Hwf as [Hne [Hl Hv]].
    change (parse_ext 10 ?d last i) with (after_switch (case_u16_vector 2 i_curves set_curves d i)).
    rewrite tlsh_case_u16_vector by assumption. reflexivity.
  - (* ec_point_formats *) destruct Hwf as [Hne Hv].
    change (parse_ext 11 ?d last i) with (after_switch (case_bytes 1 set_points true d i)).
    rewrite tlsh_case_bytes by (try assumption; intros _; exact Hne). reflexivity.
  - (* session_ticket *) reflexivity.
  - (* signature_algorithms *) destruct Hwf as [Hne [Hl Hv]].
    change (parse_ext 13 ?d last i) with (after_switch (case_u16_vector 2 i_sigschemes set_sigschemes d i)).
    rewrite tlsh_case_u16_vector by assumption. reflexivity.
  - (* signature_algorithms_cert *) destruct Hwf as [Hne [Hl Hv]].
    change (parse_ext 50 ?d last i) with (after_switch (case_u16_vector 2 i_sigschemes_cert set_sigschemes_cert d i)).
    rewrite tlsh_case_u16_vector by assumption. reflexivity.
  - (* renegotiation_info *)
    change (parse_ext 65281 ?d last i) with
      (after_switch (match case_bytes 1 set_secure_reneg false d i with
                     | (i', Some r) => (set_reneg_supported i' true, Some r)
                     | (_, None) => (i, None)
                     end)).
    rewrite tlsh_case_bytes by (try assumption; discriminate). reflexivity.
  - (* ALPN *) destruct Hwf as [Hne [Hl Hv]].
    change (parse_ext 16 ?d last i) with (after_switch (case_alpn d i)).
    rewrite tlsh_case_alpn by assumption. reflexivity.
  - (* signed_certificate_timestamp *) reflexivity.
  - (* supported_versions *) destruct Hwf as [Hne [Hl Hv]].
    change (parse_ext 43 ?d last i) with (after_switch (case_u16_vector 1 i_versions set_versions d i)).
    rewrite tlsh_case_u16_vector by assumption. reflexivity.
  - (* cookie *) destruct Hwf as [Hne Hv].
    change (parse_ext 44 ?d last i) with (after_switch (case_bytes 2 set_cookie true d i)).
    rewrite tlsh_case_bytes by (try assumption; intros _; exact Hne). reflexivity.
  - (* key_share *) destruct Hwf as [Hl Hv].
    change (parse_ext 51 ?d last i) with (after_switch (case_key_share d i)).
    rewrite tlsh_case_key_share by assumption. reflexivity.
  - (* early_data *) reflexivity.
  - (* psk_key_exchange_modes *)
    change (parse_ext 45 ?d last i) with (after_switch (case_bytes 1 set_pskmodes false d i)).
    rewrite tlsh_case_bytes by (try assumption; discriminate). reflexivity.
  - (* pre_shared_key *) destruct Hwf as [Hine [Hids [Hiv [Hbne [Hbs Hbv]]]]].
    rewrite (Hlast eq_refl).
    change (parse_ext 41 ?d true i) with (after_switch (case_pre_shared_key true d i)).
    rewrite tlsh_case_pre_shared_key by assumption. reflexivity.
  - (* any other extension *) apply tlsh_dispatch_opaque. exact Hwf.
Qed.

(* ------------------------------------------------------------------ the extension loop *)
Lemma tlsh_parse_exts_cons fuel t d rest i :
  fits 2 t -> vfits 2 d ->
  parse_exts (S fuel) (N_to_be 2 t ++ vec 2 d ++ rest) i =
  match parse_ext t d (cb_empty rest) (set_extensions i (i_extensions i ++ [t])) with
  | Return i' => i'
  | Continue i' => parse_exts fuel rest i'
  end.
Proof.
  intros Ht Hd.
  destruct (N_to_be 2 t ++ vec 2 d ++ rest) as [|b s] eqn:E.
  { apply app_eq_nil in E. destruct E as [E _]. exfalso. revert E. apply tlsh_N_to_be_nonempty. discriminate. }
  cbn [parse_exts]. rewrite <- E. unfold cb_u16. rewrite tlsh_uint_enc by exact Ht.
  rewrite tlsh_lp_vec by exact Hd. reflexivity.
Qed.

Lemma tlsh_encode_ext_nonempty e : encode_ext e <> [].
Proof.
  unfold encode_ext. intro He. apply app_eq_nil in He. destruct He as [He _].
  revert He. apply tlsh_N_to_be_nonempty. discriminate.
Qed.

Lemma tlsh_server_name_kept e i : ext_type e <> 0%N -> wf_ext e -> i_server_name (ext_step i e) = i_server_name i.
Proof.
  intros Ht [_ [_ Hwf]]. unfold ext_step. destruct e; try reflexivity.
  exfalso. apply Ht. reflexivity.
Qed.

Lemma tlsh_parse_exts_encoded es : forall fuel i,
  Forall wf_ext es -> NoDup (map ext_type es) -> psk_only_last es ->
  (In 0%N (map ext_type es) -> i_server_name i = []) ->
  (length es <= fuel)%nat ->
  parse_exts fuel (flat_map encode_ext es) i = fold_left ext_step es i.
Proof.
  induction es as [|e es IH]; intros fuel i Hwf Hnd Hpsk Hsni Hf.
  - destruct fuel; reflexivity.
  - inversion Hwf as [|? ? He Hwf']; subst. inversion Hnd as [|? ? Hnin Hnd']; subst.
    destruct Hpsk as [Hlast Hpsk'].
    destruct fuel as [|f]; [cbn in Hf; lia|].
    cbn [flat_map fold_left]. unfold encode_ext at 1. rewrite <- !app_assoc.
    pose proof He as [Ht [Hd _]].
    rewrite tlsh_parse_exts_cons by assumption.
    rewrite tlsh_parse_ext_wf.
    + fold (ext_step i e). apply IH; [exact Hwf'|exact Hnd'|exact Hpsk'| |cbn in Hf; lia].
      intro Hin. rewrite tlsh_server_name_kept; [apply Hsni; right; exact Hin| |exact He].
      intro Hz. apply Hnin. rewrite Hz. exact Hin.
    + exact He.
    + intro Hp. rewrite (Hlast Hp). reflexivity.
    + intro Hz. cbn [i_server_name set_extensions]. apply Hsni. left. exact Hz.
Qed.

(* ------------------------------------------------------------------ projections of the fold *)
Lemma tlsh_find_ext_none {A} (sel : ext -> option A) (c : N) es :
  (forall e y, sel e = Some y -> ext_type e = c) -> ~ In c (map ext_type es) -> find_ext sel es = None.
Proof.
  intros Hc. induction es as [|e es IH]; intro Hnin; [reflexivity|].
  cbn [find_ext fold_right]. destruct (sel e) as [y|] eqn:E.
  - exfalso. apply Hnin. left. apply (Hc e y E).
  - apply IH. intro Hin. apply Hnin. right. exact Hin.
Qed.

(* a field that only extensions of type c touch holds, after the loop, what the unique such
   extension put there *)
Lemma tlsh_fold_field {X Y} (g : info -> X) (sel : ext -> option Y) (upd : X -> Y -> X) (c : N) :
  (forall e i, sel e = None -> g (ext_step i e) = g i) ->
  (forall e y i, sel e = Some y -> g (ext_step i e) = upd (g i) y) ->
  (forall e y, sel e = Some y -> ext_type e = c) ->
  forall es i, NoDup (map ext_type es) ->
    g (fold_left ext_step es i) = match find_ext sel es with Some y => upd (g i) y | None => g i end.
Proof.
  intros H1 H2 H3 es. induction es as [|e es IH]; intros i Hnd; [reflexivity|].
  inversion Hnd as [|? ? Hnin Hnd']; subst. cbn [fold_left]. rewrite IH by exact Hnd'.
  change (find_ext sel (e :: es)) with (match sel e with Some a => Some a | None => find_ext sel es end).
  destruct (sel e) as [y|] eqn:E.
  - rewrite (tlsh_find_ext_none sel c es H3) by (rewrite <- (H3 e y E); exact Hnin).
    apply H2. exact E.
  - rewrite H1 by exact E. reflexivity.
Qed.

Lemma tlsh_fold_kept {X} (g : info -> X) :
  (forall e i, g (ext_step i e) = g i) -> forall es i, g (fold_left ext_step es i) = g i.
Proof.
  intros H es. induction es as [|e es IH]; intro i; [reflexivity|]. cbn [fold_left]. rewrite IH. apply H.
Qed.

Lemma tlsh_fold_extensions es : forall i,
  i_extensions (fold_left ext_step es i) = i_extensions i ++ map ext_type es.
Proof.
  induction es as [|e es IH]; intro i; [cbn; rewrite app_nil_r; reflexivity|].
  cbn [fold_left map]. rewrite IH.
  replace (i_extensions (ext_step i e)) with (i_extensions i ++ [ext_type e]).
  - rewrite <- app_assoc. reflexivity.
  - unfold ext_step. destruct e; try reflexivity.
    cbn [ext_effect]. destruct (find _ names); reflexivity.
Qed.

(* ------------------------------------------------------------------ the whole hello *)
Lemma tlsh_fixed_fields h :
  i_version (info_of_fixed h) = h_legacy_version h /\ i_server_name (info_of_fixed h) = [] /\
  i_protos (info_of_fixed h) = [] /\ i_versions (info_of_fixed h) = [] /\ i_curves (info_of_fixed h) = [] /\
  i_ciphers (info_of_fixed h) = h_ciphers h /\ i_sigschemes (info_of_fixed h) = [] /\
  i_points (info_of_fixed h) = [] /\ i_extensions (info_of_fixed h) = [] /\
  i_random (info_of_fixed h) = h_random h /\ i_session_id (info_of_fixed h) = h_session_id h /\
  i_compression (info_of_fixed h) = h_compression h.
Proof. unfold info_of_fixed. destruct (existsb _ (h_ciphers h)); repeat split; reflexivity. Qed.

Lemma tlsh_parse_body_encoded hdr h :
  length hdr = 4%nat -> wf_hello h ->
  parse_body (hdr ++ encode_hello h) = fold_left ext_step (exts_of h) (info_of_fixed h).
Proof.
  intros Hl [Hv [Hr [Hsid [Hcs [Hcsv [Hcomp Hext]]]]]].
  unfold parse_body, encode_hello, cb_u16.
  rewrite tlsh_skip_app by exact Hl. cbv beta iota zeta.
  rewrite tlsh_uint_enc by exact Hv. cbv beta iota zeta.
  rewrite tlsh_read_app by exact Hr. cbv beta iota zeta.
  rewrite tlsh_lp_vec by exact Hsid. cbv beta iota zeta.
  rewrite tlsh_lp_vec by exact Hcsv. cbv beta iota zeta.
  fold cb_u16. rewrite tlsh_all_u16s by exact Hcs. cbv beta iota zeta. cbn [negb].
  rewrite tlsh_lp_vec by exact Hcomp. cbv beta iota zeta.
  unfold exts_of. destruct (h_extensions h) as [es|].
  - destruct Hext as [Hwf [Hnd [Hpsk Hfit]]]. unfold encode_extensions.
    rewrite tlsh_cb_empty_false by (apply tlsh_vec_nonempty; discriminate).
    rewrite tlsh_lp_vec_nil by exact Hfit. cbn [cb_empty negb].
    change (if existsb (fun x : N => (x =? scsv_renegotiation)%N) (h_ciphers h) then _ else _)
      with (if existsb (fun x : N => (x =? 255)%N) (h_ciphers h)
            then set_reneg_supported (set_ciphers (set_session_id (set_random (set_version empty_info (h_legacy_version h)) (h_random h)) (h_session_id h)) (h_ciphers h)) true
            else set_ciphers (set_session_id (set_random (set_version empty_info (h_legacy_version h)) (h_random h)) (h_session_id h)) (h_ciphers h)).
    fold (info_of_fixed h).
    apply tlsh_parse_exts_encoded; [exact Hwf|exact Hnd|exact Hpsk| |].
    + intros _. apply (tlsh_fixed_fields h).
    + apply (tlsh_flat_map_len encode_ext (fun _ => True)); [intros; apply tlsh_encode_ext_nonempty|].
      apply Forall_forall. intros; exact I.
  - cbn [cb_empty fold_left]. reflexivity.
Qed.

Lemma tlsh_version_kept e i : i_version (ext_step i e) = i_version i.
Proof. unfold ext_step. destruct e; try reflexivity. cbn [ext_effect]. destruct (find _ names); reflexivity. Qed.

(* the parser returns the complete abstract reading of every well-formed hello *)
Lemma tlsh_parse_encode_full hdr h :
  length hdr = 4%nat -> wf_hello h -> parse_hello (hdr ++ encode_hello h) = info_of_hello h.
Proof.
  intros Hl Hwf. unfold parse_hello, info_of_hello. rewrite tlsh_parse_body_encoded by assumption.
  rewrite (tlsh_fold_kept i_version tlsh_version_kept).
  destruct (tlsh_fixed_fields h) as [Hv _]. rewrite Hv. reflexivity.
Qed.

Lemma tlsh_find_ext_in {A} (sel : ext -> option A) es y :
  find_ext sel es = Some y -> exists e, In e es /\ sel e = Some y.
Proof.
  induction es as [|e es IH]; [discriminate|].
  change (find_ext sel (e :: es)) with (match sel e with Some a => Some a | None => find_ext sel es end).
  destruct (sel e) as [a|] eqn:E; intro H.
  - inversion H; subst. exists e. split; [left; reflexivity|exact E].
  - destruct (IH H) as [e' [Hin Hs]]. exists e'. split; [right; exact Hin|exact Hs].
Qed.

Ltac tlsh_field_other :=
  let e := fresh "e" in let i := fresh "i" in let Hs := fresh "Hs" in
  intros e i Hs; destruct e; cbn in Hs; try discriminate; unfold ext_step; cbn [ext_effect];
  try (match goal with |- context [find ?f ?l] => destruct (find f l) end); reflexivity.
Ltac tlsh_field_own :=
  let e := fresh "e" in let y := fresh "y" in let i := fresh "i" in let Hs := fresh "Hs" in
  intros e y i Hs; destruct e; cbn in Hs; try discriminate; inversion Hs; subst; unfold ext_step; cbn [ext_effect];
  try (match goal with |- context [find ?f ?l] => destruct (find f l) end); reflexivity.
Ltac tlsh_field_type :=
  let e := fresh "e" in let y := fresh "y" in let Hs := fresh "Hs" in
  intros e y Hs; destruct e; cbn in Hs; try discriminate; reflexivity.

Lemma tlsh_exts_nodup h : wf_hello h -> NoDup (map ext_type (exts_of h)).
Proof.
  intros [_ [_ [_ [_ [_ [_ Hext]]]]]]. unfold exts_of. destruct (h_extensions h) as [es|]; [apply Hext|constructor].
Qed.

Lemma tlsh_exts_wf h : wf_hello h -> Forall wf_ext (exts_of h).
Proof.
  intros [_ [_ [_ [_ [_ [_ Hext]]]]]]. unfold exts_of. destruct (h_extensions h) as [es|]; [apply Hext|constructor].
Qed.

Definition tlsh_fold h := fold_left ext_step (exts_of h) (info_of_fixed h).

Lemma tlsh_fold_sni h : wf_hello h -> i_server_name (tlsh_fold h) = sni h.
Proof.
  intro Hwf. unfold tlsh_fold, sni.
  rewrite (tlsh_fold_field i_server_name sni_sel (fun x y => match y with Some e => snd e | None => x end) 0%N);
    [|tlsh_field_other|tlsh_field_own|tlsh_field_type|apply tlsh_exts_nodup; exact Hwf].
  destruct (tlsh_fixed_fields h) as [_ [Hs _]]. rewrite Hs.
  destruct (find_ext sni_sel (exts_of h)) as [[e|]|]; reflexivity.
Qed.

Lemma tlsh_fold_alpn h : wf_hello h -> i_protos (tlsh_fold h) = alpn h.
Proof.
  intro Hwf. unfold tlsh_fold, alpn.
  rewrite (tlsh_fold_field i_protos alpn_sel (fun x y => x ++ y) 16%N);
    [|tlsh_field_other|tlsh_field_own|tlsh_field_type|apply tlsh_exts_nodup; exact Hwf].
  destruct (tlsh_fixed_fields h) as [_ [_ [Hs _]]]. rewrite Hs.
  destruct (find_ext alpn_sel (exts_of h)); reflexivity.
Qed.

Lemma tlsh_fold_curves h : wf_hello h -> i_curves (tlsh_fold h) = curves h.
Proof.
  intro Hwf. unfold tlsh_fold, curves.
  rewrite (tlsh_fold_field i_curves curves_sel (fun x y => x ++ y) 10%N);
    [|tlsh_field_other|tlsh_field_own|tlsh_field_type|apply tlsh_exts_nodup; exact Hwf].
  destruct (tlsh_fixed_fields h) as [_ [_ [_ [_ [Hs _]]]]]. rewrite Hs.
  destruct (find_ext curves_sel (exts_of h)); reflexivity.
Qed.

Lemma tlsh_fold_sigs h : wf_hello h -> i_sigschemes (tlsh_fold h) = sig_schemes h.
Proof.
  intro Hwf. unfold tlsh_fold, sig_schemes.
  rewrite (tlsh_fold_field i_sigschemes sigs_sel (fun x y => x ++ y) 13%N);
    [|tlsh_field_other|tlsh_field_own|tlsh_field_type|apply tlsh_exts_nodup; exact Hwf].
  destruct (tlsh_fixed_fields h) as [_ [_ [_ [_ [_ [_ [Hs _]]]]]]]. rewrite Hs.
  destruct (find_ext sigs_sel (exts_of h)); reflexivity.
Qed.

Lemma tlsh_fold_points h : wf_hello h -> i_points (tlsh_fold h) = point_formats h.
Proof.
  intro Hwf. unfold tlsh_fold, point_formats.
  rewrite (tlsh_fold_field i_points points_sel (fun x y => y) 11%N);
    [|tlsh_field_other|tlsh_field_own|tlsh_field_type|apply tlsh_exts_nodup; exact Hwf].
  destruct (tlsh_fixed_fields h) as [_ [_ [_ [_ [_ [_ [_ [Hs _]]]]]]]]. rewrite Hs.
  destruct (find_ext points_sel (exts_of h)); reflexivity.
Qed.

Lemma tlsh_fold_versions h : wf_hello h ->
  i_versions (tlsh_fold h) = or_nil (find_ext versions_sel (exts_of h)).
Proof.
  intro Hwf. unfold tlsh_fold.
  rewrite (tlsh_fold_field i_versions versions_sel (fun x y => x ++ y) 43%N);
    [|tlsh_field_other|tlsh_field_own|tlsh_field_type|apply tlsh_exts_nodup; exact Hwf].
  destruct (tlsh_fixed_fields h) as [_ [_ [_ [Hs _]]]]. rewrite Hs.
  destruct (find_ext versions_sel (exts_of h)); reflexivity.
Qed.

Lemma tlsh_fold_ciphers h : i_ciphers (tlsh_fold h) = h_ciphers h.
Proof.
  unfold tlsh_fold. rewrite (tlsh_fold_kept i_ciphers).
  - apply (tlsh_fixed_fields h).
  - intros e i. unfold ext_step. destruct e; try reflexivity. cbn [ext_effect]. destruct (find _ names); reflexivity.
Qed.

Lemma tlsh_versions_nonempty h v :
  wf_hello h -> find_ext versions_sel (exts_of h) = Some v -> v <> [].
Proof.
  intros Hwf Hf. destruct (tlsh_find_ext_in _ _ _ Hf) as [e [Hin Hs]].
  pose proof (tlsh_exts_wf h Hwf) as Hall. rewrite Forall_forall in Hall. specialize (Hall e Hin).
  destruct e; cbn in Hs; try discriminate. inversion Hs; subst. destruct Hall as [_ [_ [Hne _]]]. exact Hne.
Qed.

(* what the deferred function leaves alone *)
Lemma tlsh_deferred_other {X} (g : info -> X) i vs :
  (forall l, g (set_versions i l) = g i) ->
  g (match i_versions i with [] => set_versions i vs | _ :: _ => i end) = g i.
Proof. intro H. destruct (i_versions i); [apply H|reflexivity]. Qed.

Lemma tlsh_parse_encode hdr h :
  length hdr = 4%nat -> wf_hello h ->
  let i := parse_hello (hdr ++ encode_hello h) in
  i_server_name i = sni h /\ i_protos i = alpn h /\ i_versions i = versions h /\
  i_ciphers i = h_ciphers h /\ i_curves i = curves h /\
  i_sigschemes i = sig_schemes h /\ i_points i = point_formats h /\
  i_version i = h_legacy_version h /\ i_extensions i = map ext_type (exts_of h).
Proof.
  intros Hl Hwf. cbv zeta. rewrite tlsh_parse_encode_full by assumption.
  unfold info_of_hello. fold (tlsh_fold h).
  repeat split.
  - rewrite tlsh_deferred_other by reflexivity. apply tlsh_fold_sni. exact Hwf.
  - rewrite tlsh_deferred_other by reflexivity. apply tlsh_fold_alpn. exact Hwf.
  - unfold versions. pose proof (tlsh_fold_versions h Hwf) as Hv.
    destruct (find_ext versions_sel (exts_of h)) as [v|] eqn:E; cbn [or_nil] in Hv.
    + pose proof (tlsh_versions_nonempty h v Hwf E) as Hne.
      rewrite Hv. destruct v; [congruence|]. rewrite <- Hv. reflexivity.
    + rewrite Hv. reflexivity.
  - rewrite tlsh_deferred_other by reflexivity. apply tlsh_fold_ciphers.
  - rewrite tlsh_deferred_other by reflexivity. apply tlsh_fold_curves. exact Hwf.
  - rewrite tlsh_deferred_other by reflexivity. apply tlsh_fold_sigs. exact Hwf.
  - rewrite tlsh_deferred_other by reflexivity. apply tlsh_fold_points. exact Hwf.
  - rewrite tlsh_deferred_other by reflexivity. unfold tlsh_fold.
    rewrite (tlsh_fold_kept i_version tlsh_version_kept). apply (tlsh_fixed_fields h).
  - rewrite tlsh_deferred_other by reflexivity. unfold tlsh_fold. rewrite tlsh_fold_extensions.
    destruct (tlsh_fixed_fields h) as [_ [_ [_ [_ [_ [_ [_ [_ [He _]]]]]]]]]. rewrite He. reflexivity.
Qed.

(* ------------------------------------------------------------------ the record gate *)
Lemma tlsh_two (l : list byte) : length l = 2%nat -> exists a b, l = [a; b].
Proof. destruct l as [|a [|b [|c l]]]; cbn; intro H; try lia. exists a, b. reflexivity. Qed.

Lemma tlsh_record_shape v frag :
  exists a b c d, tls_record v frag = x16 :: a :: b :: c :: d :: frag /\
                  be_N [c; d] = be_N (N_to_be 2 (N.of_nat (length frag))).
Proof.
  destruct (tlsh_two (N_to_be 2 v) (tlsh_len_N_to_be 2 v)) as [a [b Hab]].
  destruct (tlsh_two (N_to_be 2 (N.of_nat (length frag))) (tlsh_len_N_to_be 2 _)) as [c [d Hcd]].
  exists a, b, c, d. unfold tls_record, vec. rewrite Hab, Hcd. split; reflexivity.
Qed.

Lemma tlsh_gate_short p : (length p < 5)%nat -> tls_gate p = TGMore.
Proof. intro H. unfold tls_gate. apply read_full_none in H. rewrite H. reflexivity. Qed.

Lemma tlsh_gate_non_handshake t p :
  t <> x16 -> (4 <= length p)%nat -> tls_gate (t :: p) = TGNo.
Proof.
  intros Ht Hl.
  destruct p as [|a [|b [|c [|d p]]]]; cbn in Hl; try lia.
  unfold tls_gate. change (t :: a :: b :: c :: d :: p) with ([t; a; b; c; d] ++ p).
  change (read_full 5) with (cb_read 5). rewrite tlsh_read_app by reflexivity.
  unfold tlsh_record_type_handshake.
  destruct (Byte.eqb t x16) eqn:E; [apply byte_eqb_eq in E; contradiction|reflexivity].
Qed.

Lemma tlsh_gate_non_handshake_never t p raw : t <> x16 -> tls_gate (t :: p) <> TGHello raw.
Proof.
  intros Ht. destruct (Nat.lt_ge_cases (length p) 4) as [Hlt|Hge].
  - rewrite tlsh_gate_short; [discriminate|]. unfold byte in *. cbn [length]. lia.
  - rewrite tlsh_gate_non_handshake by assumption. discriminate.
Qed.

Lemma tlsh_gate_shape a b c d rest :
  tls_gate (x16 :: a :: b :: c :: d :: rest) =
  match read_full (N.to_nat (be_N [c; d])) rest with None => TGMore | Some (raw, _) => TGHello raw end.
Proof.
  unfold tls_gate.
  change (x16 :: a :: b :: c :: d :: rest) with ([x16; a; b; c; d] ++ rest).
  change (read_full 5) with (cb_read 5). rewrite tlsh_read_app by reflexivity. reflexivity.
Qed.

Lemma tlsh_gate_record v frag rest :
  vfits 2 frag -> tls_gate (tls_record v frag ++ rest) = TGHello frag.
Proof.
  intro Hf. destruct (tlsh_record_shape v frag) as [a [b [c [d [Hs Hlen]]]]].
  rewrite Hs. cbn [app]. rewrite tlsh_gate_shape. unfold byte in *. rewrite Hlen.
  rewrite tlsh_be_N_to_be by exact Hf. rewrite Nat2N.id.
  change read_full with cb_read. rewrite tlsh_read_app by reflexivity. reflexivity.
Qed.

(* every proper prefix of a record asks for more *)
Lemma tlsh_gate_prefix v frag p s :
  vfits 2 frag -> tls_record v frag = p ++ s -> s <> [] -> tls_gate p = TGMore.
Proof.
  intros Hf Hrec Hs.
  destruct (Nat.lt_ge_cases (length p) 5) as [Hlt|Hge]; [apply tlsh_gate_short; exact Hlt|].
  destruct (tlsh_record_shape v frag) as [a [b [c [d [Hsh Hlen]]]]]. rewrite Hsh in Hrec.
  assert (Hp : p = [x16; a; b; c; d] ++ firstn (length p - 5) frag).
  { rewrite <- (firstn_all p) at 1. rewrite <- (firstn_app_le (length p) p s) by lia. rewrite <- Hrec.
    change (x16 :: a :: b :: c :: d :: frag) with ([x16; a; b; c; d] ++ frag).
    rewrite firstn_app. rewrite firstn_all2 by (cbn; lia). reflexivity. }
  assert (Hlp : (length p < 5 + length frag)%nat).
  { apply (f_equal (@length byte)) in Hrec. cbn [length] in Hrec. rewrite app_length in Hrec.
    destruct s; [congruence|]. cbn [length] in Hrec. lia. }
  rewrite Hp. cbn [app]. rewrite tlsh_gate_shape. unfold byte in *. rewrite Hlen.
  rewrite tlsh_be_N_to_be by exact Hf. rewrite Nat2N.id.
  assert (Hnone : read_full (length frag) (firstn (length p - 5) frag) = None).
  { apply read_full_none. rewrite firstn_length. lia. }
  rewrite Hnone. reflexivity.
Qed.

(* ---- the matcher on top of the gate ---- *)
Lemma tlsh_match_non_handshake subs t p :
  t <> x16 ->
  (r_verdict (tls_match subs (t :: p)) = No \/ r_verdict (tls_match subs (t :: p)) = More) /\
  r_server_name (tls_match subs (t :: p)) = None /\
  ((4 <= length p)%nat -> r_verdict (tls_match subs (t :: p)) = No).
Proof.
  intro Ht. unfold tls_match.
  destruct (Nat.lt_ge_cases (length p) 4) as [Hlt|Hge].
  - rewrite tlsh_gate_short by (unfold byte in *; cbn [length]; lia). cbn. repeat split; [right; reflexivity|unfold byte in *; lia].
  - rewrite tlsh_gate_non_handshake by assumption. cbn. repeat split; left; reflexivity.
Qed.

Lemma tlsh_match_prefix subs v frag p s :
  vfits 2 frag -> tls_record v frag = p ++ s -> s <> [] ->
  tls_match subs p = {| r_verdict := More; r_server_name := None; r_version := None |}.
Proof. intros Hf Hr Hs. unfold tls_match. rewrite (tlsh_gate_prefix v frag p s) by assumption. reflexivity. Qed.

Lemma tlsh_match_record subs v h rest :
  wf_hello h -> vfits 2 (hs_header (encode_hello h) ++ encode_hello h) ->
  tls_match subs (encode_record v h ++ rest) =
  {| r_verdict := if subs (info_of_hello h) then Yes else No;
     r_server_name := Some (sni h); r_version := Some (h_legacy_version h) |}.
Proof.
  intros Hwf Hf. unfold tls_match, encode_record. rewrite tlsh_gate_record by exact Hf.
  assert (Hl : length (hs_header (encode_hello h)) = 4%nat).
  { unfold hs_header. cbn [length]. rewrite tlsh_len_N_to_be. reflexivity. }
  destruct (tlsh_parse_encode _ h Hl Hwf) as [Hsni [_ [_ [_ [_ [_ [_ [Hver _]]]]]]]].
  rewrite Hsni, Hver. rewrite tlsh_parse_encode_full by assumption. reflexivity.
Qed.

(* MatchALPN: some configured value is among the client's protocols *)
Lemma tlsh_alpn_match_spec cfg protos :
  alpn_match cfg protos = true <-> exists a, In a cfg /\ In a protos.
Proof.
  unfold alpn_match. rewrite existsb_exists. split.
  - intros [a [Ha Hex]]. apply existsb_exists in Hex. destruct Hex as [p [Hp He]].
    apply bytes_eqb_eq in He. subst p. exists a. split; assumption.
  - intros [a [Ha Hp]]. exists a. split; [exact Ha|]. apply existsb_exists. exists a.
    split; [exact Hp|]. apply bytes_eqb_eq. reflexivity.
Qed.

(* fuel never runs out: each step consumes at least one byte *)
Lemma tlsh_read_shorter n s v r : cb_read n s = Some (v, r) -> (length r = length s - n)%nat /\ (n <= length s)%nat.
Proof.
  unfold cb_read, read_full. destruct (Nat.ltb_spec (length s) n) as [Hlt|Hge]; [discriminate|].
  intro H; inversion H; subst. rewrite skipn_length. lia.
Qed.

(* ------------------------------------------------------------------ decisions are stable *)
(* once the gate has decided (No, or a complete record), further bytes do not change the answer *)
Lemma tlsh_gate_stable p s :
  tls_gate p <> TGMore -> tls_gate (p ++ s) = tls_gate p.
Proof.
  unfold tls_gate. destruct (read_full 5 p) as [[hdr r]|] eqn:E; [|congruence].
  rewrite (read_full_app _ _ s _ _ E).
  destruct hdr as [|t [|a [|b [|l1 [|l2 hdr]]]]]; try reflexivity.
  destruct (negb (Byte.eqb t tlsh_record_type_handshake)); [reflexivity|].
  destruct (read_full (N.to_nat (be_N [l1; l2])) r) as [[raw r']|] eqn:E2; [|congruence].
  rewrite (read_full_app _ _ s _ _ E2). reflexivity.
Qed.

Lemma tlsh_match_stable subs p s :
  r_verdict (tls_match subs p) <> More -> tls_match subs (p ++ s) = tls_match subs p.
Proof.
  unfold tls_match. intro H. rewrite tlsh_gate_stable; [reflexivity|].
  intro E. rewrite E in H. apply H. reflexivity.
Qed.

(* ------------------------------------------------------------------ fuel is never exhausted *)
(* every loop of the parser is given fuel = number of bytes it iterates over and every iteration
   consumes at least one byte; hence the result does not depend on the fuel (the out-of-fuel
   branches of the model are unreachable for every input, not just encoded ones) *)
Definition tlsh_shortens {A} (step : list byte -> option (A * list byte)) : Prop :=
  forall s a r, step s = Some (a, r) -> (length r < length s)%nat.

Lemma tlsh_many_fuel {A} (step : list byte -> option (A * list byte)) :
  tlsh_shortens step ->
  forall f1 s f2, (length s <= f1)%nat -> (length s <= f2)%nat -> cb_many f1 step s = cb_many f2 step s.
Proof.
  intros Hsh f1. induction f1 as [|f1 IH]; intros s f2 H1 H2.
  - destruct s; [destruct f2; reflexivity|cbn in H1; lia].
  - destruct s as [|b s]; [destruct f2; reflexivity|].
    destruct f2 as [|f2]; [cbn in H2; lia|]. cbn [cb_many].
    destruct (step (b :: s)) as [[a r]|] eqn:E; [|reflexivity].
    apply Hsh in E. rewrite (IH r f2) by (cbn [length] in *; lia). reflexivity.
Qed.

Lemma tlsh_read_shortens n s v r : cb_read n s = Some (v, r) -> (length r + n = length s)%nat.
Proof.
  unfold cb_read, read_full. destruct (Nat.ltb_spec (length s) n) as [Hlt|Hge]; [discriminate|].
  intro H; inversion H; subst. rewrite skipn_length. lia.
Qed.

Lemma tlsh_uint_shortens w s v r : cb_uint w s = Some (v, r) -> (length r + w = length s)%nat.
Proof.
  unfold cb_uint. destruct (cb_read w s) as [[x y]|] eqn:E; [|discriminate].
  intro H; inversion H; subst. apply (tlsh_read_shortens _ _ _ _ E).
Qed.

Lemma tlsh_lp_shortens w s v r : cb_lp w s = Some (v, r) -> (length r + w <= length s)%nat.
Proof.
  unfold cb_lp. destruct (cb_read w s) as [[x y]|] eqn:E; [|discriminate].
  intro H. apply tlsh_read_shortens in E. apply tlsh_read_shortens in H. lia.
Qed.

Lemma tlsh_u16_shortens : tlsh_shortens cb_u16.
Proof. intros s a r H. apply tlsh_uint_shortens in H. lia. Qed.

Lemma tlsh_nonempty_lp_shortens : tlsh_shortens (nonempty_lp 1).
Proof.
  intros s a r. unfold nonempty_lp. destruct (cb_lp 1 s) as [[v r']|] eqn:E; [|discriminate].
  destruct (cb_empty v); [discriminate|]. intro H; inversion H; subst. apply tlsh_lp_shortens in E. lia.
Qed.

Lemma tlsh_key_share_shortens : tlsh_shortens key_share_step.
Proof.
  intros s a r. unfold key_share_step. destruct (cb_u16 s) as [[g r1]|] eqn:E1; [|discriminate].
  destruct (cb_lp 2 r1) as [[k r2]|] eqn:E2; [|discriminate]. destruct (cb_empty k); [discriminate|].
  intro H; inversion H; subst. apply tlsh_uint_shortens in E1. apply tlsh_lp_shortens in E2. lia.
Qed.

Lemma tlsh_psk_identity_shortens : tlsh_shortens psk_identity_step.
Proof.
  intros s a r. unfold psk_identity_step. destruct (cb_lp 2 s) as [[l r1]|] eqn:E1; [|discriminate].
  destruct (cb_u32 r1) as [[g r2]|] eqn:E2; [|discriminate]. destruct (cb_empty l); [discriminate|].
  intro H; inversion H; subst. apply tlsh_lp_shortens in E1. apply tlsh_uint_shortens in E2. lia.
Qed.

Lemma tlsh_sni_fuel : forall f1 nl f2 i,
  (length nl <= f1)%nat -> (length nl <= f2)%nat -> sni_loop f1 nl i = sni_loop f2 nl i.
Proof.
  induction f1 as [|f1 IH]; intros nl f2 i H1 H2.
  - destruct nl; [destruct f2; reflexivity|cbn in H1; lia].
  - destruct nl as [|b nl]; [destruct f2; reflexivity|].
    destruct f2 as [|f2]; [cbn in H2; lia|]. cbn [sni_loop].
    destruct (cb_u8 (b :: nl)) as [[nt r1]|] eqn:E1; [|reflexivity].
    destruct (cb_lp 2 r1) as [[name r2]|] eqn:E2; [|reflexivity].
    apply tlsh_uint_shortens in E1. apply tlsh_lp_shortens in E2.
    assert (Hr : (length r2 <= f1)%nat /\ (length r2 <= f2)%nat) by (cbn [length] in *; lia).
    destruct Hr as [Hr1 Hr2].
    destruct (cb_empty name); [reflexivity|].
    destruct (negb (nt =? 0)%N); [apply IH; assumption|].
    destruct (negb (cb_empty (i_server_name i))); [reflexivity|].
    destruct (has_suffix_dot name); [reflexivity|]. apply IH; assumption.
Qed.

Lemma tlsh_exts_fuel : forall f1 exts f2 i,
  (length exts <= f1)%nat -> (length exts <= f2)%nat -> parse_exts f1 exts i = parse_exts f2 exts i.
Proof.
  induction f1 as [|f1 IH]; intros exts f2 i H1 H2.
  - destruct exts; [destruct f2; reflexivity|cbn in H1; lia].
  - destruct exts as [|b exts]; [destruct f2; reflexivity|].
    destruct f2 as [|f2]; [cbn in H2; lia|]. cbn [parse_exts].
    destruct (cb_u16 (b :: exts)) as [[t r1]|] eqn:E1; [|reflexivity].
    destruct (cb_lp 2 r1) as [[d r2]|] eqn:E2; [|reflexivity].
    apply tlsh_uint_shortens in E1. apply tlsh_lp_shortens in E2.
    destruct (parse_ext t d (cb_empty r2) _); [|reflexivity].
    apply IH; cbn [length] in *; lia.
Qed.

(* ------------------------------------------------------------------ routing on a complete record *)
Lemma tlsh_info_protos h : wf_hello h -> i_protos (info_of_hello h) = alpn h.
Proof.
  intro Hwf. rewrite <- (tlsh_parse_encode_full (repeat x00 4) h eq_refl Hwf).
  apply (tlsh_parse_encode (repeat x00 4) h eq_refl Hwf).
Qed.

Lemma tlsh_alpn_routing cfg v h rest :
  wf_hello h -> vfits 2 (hs_header (encode_hello h) ++ encode_hello h) ->
  (r_verdict (tls_match (fun i => alpn_match cfg (i_protos i)) (encode_record v h ++ rest)) = Yes
   <-> exists a, In a cfg /\ In a (alpn h)) /\
  (r_verdict (tls_match (fun i => alpn_match cfg (i_protos i)) (encode_record v h ++ rest)) = No
   <-> ~ exists a, In a cfg /\ In a (alpn h)).
Proof.
  intros Hwf Hf. rewrite tlsh_match_record by assumption. cbn [r_verdict].
  rewrite tlsh_info_protos by exact Hwf. rewrite <- tlsh_alpn_match_spec.
  destruct (alpn_match cfg (alpn h)); split; split; intro H; try reflexivity; try discriminate; try congruence.
Qed.

(* ------------------------------------------------------------------ no per-connection memo *)
Lemma tlsh_rematch_bytes_only subs st p :
  fst (tls_rematch subs st p) = r_verdict (tls_match subs p) /\
  (forall n v, r_server_name (tls_match subs p) = Some n -> r_version (tls_match subs p) = Some v ->
     snd (tls_rematch subs st p) = Some (n, v)) /\
  (r_server_name (tls_match subs p) = None -> snd (tls_rematch subs st p) = st).
Proof.
  unfold tls_rematch. cbn [fst snd]. split; [reflexivity|]. split.
  - intros n v Hn Hv. rewrite Hn, Hv. reflexivity.
  - intro Hn. rewrite Hn. reflexivity.
Qed.

(* after any earlier hello on the same connection, a record of another type is still answered No and
   a complete hello B is decided on B and sets B's placeholders *)
Lemma tlsh_rematch_after subs subs0 st0 pA :
  let st := snd (tls_rematch subs0 st0 pA) in
  (forall t p, t <> x16 -> (4 <= length p)%nat -> fst (tls_rematch subs st (t :: p)) = No) /\
  (forall v h rest, wf_hello h -> vfits 2 (hs_header (encode_hello h) ++ encode_hello h) ->
     tls_rematch subs st (encode_record v h ++ rest) =
     (if subs (info_of_hello h) then Yes else No, Some (sni h, h_legacy_version h))).
Proof.
  cbv zeta. split.
  - intros t p Ht Hl. unfold tls_rematch. cbn [fst].
    apply (tlsh_match_non_handshake subs t p Ht). exact Hl.
  - intros v h rest Hwf Hf. unfold tls_rematch. rewrite tlsh_match_record by assumption. reflexivity.
Qed.
