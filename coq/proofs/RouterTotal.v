(* Totality of model/Router.v's [compile]: with fuel >= need_rs rs (model/RouterSpec.v) an invocation never
   returns Exhausted, over any network whose reads make progress (a successful read of a non-empty buffer
   returns at least one byte). *)
From Coq Require Import List NArith ZArith Bool Arith Lia.
From Coq.Strings Require Import Byte.
From L4.model Require Import GoBase Router RouterSpec.
From L4.proofs Require Import RouterProofs.
Import ListNotations.
Close Scope Z_scope.
Open Scope nat_scope.

Lemma need_h_sub rs t : need_h (HSub rs t) = S (need_rs rs).
Proof.
  cbn [need_h]. unfold need_rs. apply f_equal. apply f_equal.
  induction rs as [|[mss hs] rs IH]; [reflexivity|]. cbn [need_routes]. rewrite <- IH. reflexivity.
Qed.

Section Net.
Variable net : Type.
Variable now : net -> Z.
Variable set_dl : option Z -> net -> net.
Variable nread : nat -> net -> rres * net.
Variable npush : list byte -> net -> net.
(* an invariant of the network under which reads make progress *)
Variable net_ok : net -> Prop.
Hypothesis H_ok_read : forall m n, net_ok n -> net_ok (snd (nread m n)).
Hypothesis H_ok_set : forall v n, net_ok n -> net_ok (set_dl v n).
Hypothesis H_ok_push : forall b n, net_ok n -> net_ok (npush b n).
Hypothesis H_progress : forall m n dta n', net_ok n -> 0 < m -> nread m n = (RData dta, n') -> dta <> [].
Hypothesis chunk_pos : 0 < CHUNK.

Notation st := (st net).
Notation res := (res net).
Notation emit := (emit net now).
Notation arm := (arm net now set_dl).
Notation clear := (clear net now set_dl).
Notation prefetch := (prefetch net nread).
Notation read_full_st := (read_full_st net nread).
Notation chain := (chain net now nread npush).
Notation pass := (pass net now set_dl nread npush).
Notation loop := (loop net now set_dl nread npush).
Notation compile := (compile net now set_dl nread npush).

Definition sok (s : st) : Prop := net_ok (nt s).
Definition ok_res (r : res) : Prop := is_exh r = false /\ sok (res_st r).
Definition bufsz (s : st) : nat := off s + length (avail s).
Definition cnt (lm : option nat) : nat := match lm with Some j => S j | None => 0 end.

Lemma net_read_full_ok g : forall need acc n, net_ok n -> net_ok (snd (net_read_full net nread g need acc n)).
Proof.
  induction g as [|g IH]; intros need acc n Hn; destruct need; cbn; auto.
  pose proof (H_ok_read (S need) n Hn) as Hr. destruct (nread (S need) n) as [r n']. cbn in Hr.
  destruct r; cbn; auto.
Qed.

Lemma read_full_st_ok k s r s' : sok s -> read_full_st k s = (r, s') -> sok s'.
Proof.
  unfold Router.read_full_st, sok. intro Hs. destruct (k <=? length (avail s)).
  - intro H; inversion H; subst; exact Hs.
  - pose proof (net_read_full_ok (S k) (k - length (avail s)) (avail s) (nt s) Hs) as Hr.
    destruct (net_read_full net nread (S k) (k - length (avail s)) (avail s) (nt s)) as [r0 n']. cbn in Hr.
    intro H; inversion H; subst; exact Hr.
Qed.

Lemma prefetch_ok s : sok s ->
  match prefetch s with
  | inl s' => sok s' /\ bufsz s < MAXB /\ bufsz s < bufsz s'
  | inr (_, s') => sok s'
  end.
Proof.
  unfold Router.prefetch, sok, bufsz. intro Hs. destruct (MAXB <=? off s + length (avail s)) eqn:E; [exact Hs|].
  apply Nat.leb_gt in E. pose proof (H_ok_read CHUNK (nt s) Hs) as Hr.
  destruct (nread CHUNK (nt s)) as [r n'] eqn:ER. cbn in Hr. destruct r; cbn [nt off avail]; auto.
  pose proof (H_progress _ _ _ _ Hs chunk_pos ER) as Hd. rewrite app_length. destruct d; [contradiction|]. cbn [length]. repeat split; auto; lia.
Qed.

Section Level.
Variable sub : nat -> list route -> Z -> (st -> res) -> st -> res.
Hypothesis sub_tail : tail_ok net sub.
Variable F : nat.    (* the fuel the nested Compile runs with *)
Hypothesis sub_total : forall d rs t s, need_rs rs <= F -> sok s -> ok_res (sub d rs t (fun s' => Cont s') s).
Variable d : nat.

Lemma chain_total idx hs : forall s, need_hs hs <= S F -> sok s -> ok_res (chain sub d idx hs (fun s' => Cont s') s).
Proof.
  induction hs as [|h hs IH]; intros s Hn Hs; cbn [Router.chain]; cbn [need_hs] in Hn.
  - split; [reflexivity|exact Hs].
  - destruct h.
    + split; [reflexivity|exact Hs].
    + destruct (read_full_st k s) as [[dta|] s'] eqn:ER; pose proof (read_full_st_ok _ _ _ _ Hs ER) as Hs'.
      * apply IH; [lia|exact Hs'].
      * split; [reflexivity|exact Hs'].
    + split; [reflexivity|exact Hs].
    + apply IH; [lia|]. unfold sok. cbn. apply H_ok_push. exact Hs.
    + rewrite need_h_sub in Hn. rewrite (sub_tail (S d) rs timeout).
      destruct (sub_total (S d) rs timeout s ltac:(lia) Hs) as [He Hs1].
      destruct (sub (S d) rs timeout (fun s' => Cont s') s) as [s1|s1|s1|s1]; cbn [bind res_st is_exh] in *; try (split; [reflexivity|exact Hs1]).
      * apply IH; [lia|exact Hs1].
      * discriminate.
Qed.

(* a pass either lets a further route match or leaves the connection as it was *)
Definition pass_total_post (n : nat) (lm : option nat) (s : st) (pr : passres net) : Prop :=
  match pr with
  | PFinal r => ok_res r
  | PState lm' _ _ s' => sok s' /\ cnt lm' <= Nat.max (cnt lm) n /\ ((lm' = lm /\ bufsz s' = bufsz s) \/ cnt lm < cnt lm')
  end.

Lemma pass_total : forall rest i lm lnm stt nm s, need_routes rest <= S F -> sok s ->
  pass_total_post (i + length rest) lm s (pass sub d i rest lm lnm stt nm s).
Proof.
  induction rest as [|[mss hs] rest IH]; intros i lm lnm stt nm s Hn Hs; cbn [Router.pass]; cbn [need_routes] in Hn.
  - cbn. repeat split; auto; lia.
  - assert (Hstep : forall lm1 lnm1 stt1 s1, sok s1 ->
              ((lm1 = lm /\ bufsz s1 = bufsz s) \/ cnt lm < cnt lm1) -> cnt lm1 <= Nat.max (cnt lm) (S i) ->
              pass_total_post (i + length (Route mss hs :: rest)) lm s (pass sub d (S i) rest lm1 lnm1 stt1 nm s1)).
    { intros lm1 lnm1 stt1 s1 Hs1 Hrel Hc. specialize (IH (S i) lm1 lnm1 stt1 nm s1 ltac:(lia) Hs1).
      destruct (pass sub d (S i) rest lm1 lnm1 stt1 nm s1) as [r|lm' lnm' stt' s']; cbn [pass_total_post] in *; [exact IH|].
      destruct IH as (Hs' & Hc' & Hrel'). cbn [length]. split; [exact Hs'|]. split; [lia|].
      destruct Hrel as [[-> Hb]|Hlt]; destruct Hrel' as [[-> Hb']|Hlt']; try (right; lia). left. split; [reflexivity|lia]. }
    destruct (leo i lm) eqn:Elm; [apply Hstep; auto; lia|].
    destruct (is_no (stt i) && leo i lnm); [apply Hstep; auto; lia|].
    destruct (anymatch mss (avail s)).
    + set (s1 := emit (ERun d i (avail s)) (clear s)).
      assert (Hs1 : sok s1) by (unfold sok; cbn; apply H_ok_set; exact Hs).
      destruct (chain_total i hs s1 ltac:(lia) Hs1) as [He Hs2].
      destruct (chain sub d i hs (fun st' => Cont st') s1) as [s2|s2|s2|s2]; cbn [res_st is_exh] in *; try (cbn; split; [reflexivity|exact Hs2]).
      * apply Hstep; [exact Hs2| |cbn; lia]. right.
        destruct lm as [j|]; cbn in *; [apply Nat.leb_gt in Elm; lia|lia].
      * discriminate.
    + apply Hstep; auto; lia.
    + destruct nm; [apply Hstep; auto; lia|]. cbn. repeat split; auto; lia.
    + cbn. split; [reflexivity|exact Hs].
    + cbn. split; [reflexivity|exact Hs].
Qed.

(* passes still possible: a further match costs at most MAXB + 1 of them, a byte one *)
Definition pot (n : nat) (lm : option nat) (s : st) : nat :=
  (n - cnt lm) * (MAXB + 1) + (MAXB - Nat.min MAXB (bufsz s)).

Lemma pot_match n lm lm' s s' : cnt lm < cnt lm' -> cnt lm' <= n -> pot n lm' s' + 1 <= pot n lm s.
Proof.
  unfold pot. intros H1 H2. assert (n - cnt lm = (n - cnt lm') + (cnt lm' - cnt lm)) as -> by lia.
  rewrite Nat.mul_add_distr_r. assert (1 * (MAXB + 1) <= (cnt lm' - cnt lm) * (MAXB + 1)) by (apply Nat.mul_le_mono_r; lia). lia.
Qed.

Lemma loop_total rs dl g : forall lm lnm stt (nm : bool) s,
  need_routes rs <= S F -> sok s -> cnt lm <= length rs ->
  pot (length rs) lm s + (if nm then 1 else 2) <= g ->
  ok_res (loop sub d rs dl (fun s' => Cont s') g lm lnm stt nm s).
Proof.
  induction g as [|g IH]; intros lm lnm stt nm s Hn Hs Hc Hg; [destruct nm; lia|]. cbn [Router.loop].
  assert (Hsa : sok (arm dl s)) by (unfold sok; cbn; apply H_ok_set; exact Hs).
  assert (Hba : bufsz (arm dl s) = bufsz s) by reflexivity.
  pose proof (prefetch_ok (arm dl s) Hsa) as Hpf.
  destruct (if nm then prefetch (arm dl s) else inl (arm dl s)) as [s'|[w s']] eqn:Epf.
  2: { destruct nm; [|discriminate]. rewrite Epf in Hpf. split; [reflexivity|exact Hpf]. }
  assert (Hs' : sok s' /\ (if nm then bufsz s < MAXB /\ bufsz s < bufsz s' else bufsz s' = bufsz s)).
  { destruct nm.
    - rewrite Epf in Hpf. destruct Hpf as (H1 & H2 & H3). rewrite Hba in *. auto.
    - inversion Epf; subst s'. auto. }
  destruct Hs' as (Hss' & Hb').
  pose proof (pass_total rs 0 lm lnm stt nm s' Hn Hss') as HP. cbn [Nat.add] in HP.
  destruct (pass sub d 0 rs lm lnm stt nm s') as [r|lm' lnm' stt' s'']; cbn [pass_total_post] in HP; [exact HP|].
  destruct HP as (Hs'' & Hc' & Hrel).
  destruct (match lm' with Some j => S j =? length rs | None => length rs =? 0 end) eqn:Eexit.
  { cbn [ok_res res_st is_exh]. split; [reflexivity|]. unfold sok. cbn [nt Router.emit].
    destruct (last_exit_clears && _); [cbn; apply H_ok_set|]; exact Hs''. }
  destruct (undecided (length rs) lm' stt').
  2: { split; [reflexivity|]. unfold sok. cbn. apply H_ok_set. exact Hs''. }
  apply IH; [exact Hn|exact Hs''|lia|]. cbv iota.
  assert (Hc'' : cnt lm' <= length rs) by lia.
  destruct Hrel as [[-> Hb'']|Hlt].
  - (* no route matched in this pass: the buffer did not shrink, and grew if the pass began with a prefetch *)
    unfold pot in *. rewrite Hb''. destruct nm.
    + destruct Hb' as [Hb1 Hb2]. assert (Nat.min MAXB (bufsz s) < Nat.min MAXB (bufsz s')) by lia. lia.
    + rewrite Hb'. lia.
  - pose proof (pot_match (length rs) lm lm' s s'' Hlt Hc''). destruct nm; lia.
Qed.
End Level.

Lemma loop_bound_pot n lm (s : st) : pot n lm s + 2 <= loop_bound n.
Proof.
  unfold pot, loop_bound. assert ((n - cnt lm) * (MAXB + 1) <= n * (MAXB + 1)) by (apply Nat.mul_le_mono_r; lia). lia.
Qed.

(* with enough fuel an invocation ends properly (and leaves the network in order) *)
Lemma compile_total_cont : forall fuel d rs t s, fuel_ok rs fuel -> sok s ->
  ok_res (compile fuel d rs t (fun s' => Cont s') s).
Proof.
  induction fuel as [|f IH]; intros d rs t s Hf Hs; unfold fuel_ok, need_rs in Hf.
  - unfold loop_bound in Hf. lia.
  - cbn [Router.compile].
    apply (loop_total (compile f) (compile_tail net now set_dl nread npush f) f (fun d' rs' t' s' H Hs' => IH d' rs' t' s' H Hs')).
    + lia.
    + exact Hs.
    + cbn. lia.
    + pose proof (loop_bound_pot (length rs) None s). lia.
Qed.

Theorem compile_total fuel d rs t next s : fuel_ok rs fuel -> sok s ->
  (forall s', is_exh (next s') = false) ->
  is_exh (compile fuel d rs t next s) = false.
Proof.
  intros Hf Hs Hnext. rewrite (compile_bind net now set_dl nread npush).
  destruct (compile_total_cont fuel d rs t s Hf Hs) as [He _].
  destruct (compile fuel d rs t (fun s' => Cont s') s); cbn [bind] in *; auto.
Qed.
End Net.

(* ------------------------------------------------------------ the scripted network makes progress when no chunk is empty *)
Definition chunks_nonempty (n : snet) : Prop := Forall (fun a => match a with Chunk [] => False | _ => True end) n.

Lemma sread_ok m n : chunks_nonempty n -> chunks_nonempty (snd (sread m n)).
Proof.
  unfold chunks_nonempty. intro H. destruct n as [|a n]; [constructor|]. inversion H; subst.
  destruct a; cbn; auto. destruct (skipn m d) eqn:E; cbn; auto; try (constructor; auto).
Qed.
Lemma spush_ok b n : chunks_nonempty n -> chunks_nonempty (spush b n).
Proof. unfold chunks_nonempty, spush. intro H. destruct b; auto; try (constructor; auto). Qed.
Lemma sread_progress m n dta n' : chunks_nonempty n -> 0 < m -> sread m n = (RData dta, n') -> dta <> [].
Proof.
  unfold chunks_nonempty. intros H Hm. destruct n as [|a n]; [discriminate|]. inversion H; subst.
  destruct a; cbn; try discriminate. intro E; inversion E; subst. destruct d; [contradiction|]. destruct m; [lia|]. discriminate.
Qed.

Lemma chunk_pos_ok : 0 < CHUNK.
Proof. apply Nat.ltb_lt. vm_compute. reflexivity. Qed.

(* the model run by the C02 engine's comparison never runs out of fuel when given need_rs rs *)
Theorem s_serve_total rs pre script : chunks_nonempty script ->
  is_exh (s_serve (need_rs rs) rs pre script) = false.
Proof.
  intro H. unfold s_serve, serve.
  apply (compile_total snet snow sset_dl sread spush chunks_nonempty sread_ok (fun v n Hn => Hn) spush_ok sread_progress chunk_pos_ok).
  - unfold fuel_ok. lia.
  - exact H.
  - intros s'. reflexivity.
Qed.
