(* Lemmas about model/Relay.v (C03), second part: safety theorem, the shutdown handshake, terminal
   states are final, termination. *)
From Coq Require Import List Bool Arith Lia.
From Coq.Strings Require Import Byte.
From L4.gen Require Import Shape.
From L4.model Require Import Relay.
From L4.proofs Require Import RelayProofs.
Import ListNotations.

Theorem relay_safety : forall c s, reachable c s ->
  forall i, i < n_up c ->
    prefix (u_log (ups s i)) (c_total c) /\ prefix (proj i (c_log (cl s))) (u_total c i).
Proof.
  intros c s Hr i Hi. destruct (reachable_inv c s Hr) as [HU _].
  destruct (HU i Hi) as (HA & HB & _). unfold inv_up in HA. unfold inv_down in HB. split.
  - destruct (pump_running (pump (px s))).
    + eapply prefix_of_eq; exact HA.
    + destruct HA as [HA _]. eapply prefix_app_l; exact HA.
  - rewrite proj_app in HB. destruct (copy_done (cp (ups s i))).
    + destruct HB as [HB _]. eapply prefix_app_l; exact HB.
    + rewrite <- app_assoc in HB. eapply prefix_of_eq; exact HB.
Qed.

(* the second invariant: the shutdown handshake *)
Definition pump_closed_upto (pm : pumpst) (i : nat) : bool := match pm with PClose j => i <? j | PDone => true | _ => false end.
Definition main_defer_upto (mn : mainst) (i : nat) : bool := match mn with MDefer j => i <? j | MReturned => true | _ => false end.
Definition main_before_recv (mn : mainst) : bool := match mn with MWait | MCw | MRecv => true | _ => false end.
Definition main_after_cw (mn : mainst) : bool := match mn with MRecv | MDefer _ | MReturned => true | _ => false end.

Definition Inv2 (c : cfg) (s : st) : Prop :=
  (forall i, i < n_up c ->
     (pump_closed_upto (pump (px s)) i = true -> p2u_fin (ups s i) = true) /\
     (main_defer_upto (mainp (px s)) i = true -> u_sock (ups s i) = SClosed)) /\
  (pump_running (pump (px s)) = false -> main_before_recv (mainp (px s)) = true -> chan (px s) = true) /\
  (main_after_cw (mainp (px s)) = true -> cw_effect (down c) = true -> p2c_fin (cl s) = true) /\
  (d_sock (cl s) = SClosed -> p2c_fin (cl s) = true).

Lemma inv2_init : forall c, Inv2 c (init c).
Proof. intros c; unfold Inv2, init; cbn. repeat split; intros; discriminate. Qed.

Ltac simp2 := cbn [cl px ups c_tosend c_finned c2p c2p_fin c_rst p2c p2c_fin c_log c_eof d_sock pump chan mainp lossy
                   u_tosend u_finned u2p u2p_fin u_rst p2u p2u_fin u_log u_eof u_sock cp
                   pump_running pump_closed_upto main_defer_upto main_before_recv main_after_cw] in *.

Lemma ltb_S : forall q j, (q <? S j) = true -> q <> j -> (q <? j) = true.
Proof. intros q j H Hn. apply Nat.ltb_lt in H. apply Nat.ltb_lt. lia. Qed.

Lemma inv2_step : forall c s l s', Inv2 c s -> step c s l = Some s' -> Inv2 c s'.
Proof.
  intros c s l s' HI H. destr_st s. destruct HI as (HU & HCh & HP & HD).
  destruct l; step_cases H; unfold Inv2 in *; simp2.
  all: (split; [intros q Hq; pose proof (HU q Hq) as HUq; destruct HUq as (HG1 & HG2);
                try match goal with |- context [upd _ ?i _ q] => updcase q i end; simp2; split | split; [|split]]).
  all: try easy.
  all: try (intros; discriminate).
  all: try (intros Hx; first [apply HG1 | apply HG2]; apply ltb_S; assumption).
  all: try (intros; destruct ds; cbn in *; try discriminate; tauto).
  - intros Hx. rewrite (HG2 Hx). reflexivity.
  - intros _. apply HG1. apply Nat.ltb_lt. lia.
  - intros _. apply HG2. apply Nat.ltb_lt. lia.
Qed.

Lemma exec_inv2 : forall c ls s s', Inv2 c s -> exec c s ls = Some s' -> Inv2 c s'.
Proof.
  intros c ls. induction ls as [|l r IH]; intros s s' HI H; cbn in H.
  - inversion H; subst; assumption.
  - destruct (step c s l) as [s1|] eqn:E; [|discriminate]. eapply IH; [|eassumption]. eapply inv2_step; eassumption.
Qed.
Lemma reachable_inv2 : forall c s, reachable c s -> Inv2 c s.
Proof. intros c s [ls H]. eapply exec_inv2; [apply inv2_init|eassumption]. Qed.

(* ------------------------------------------------------------------------------------------ *)
(* terminal states                                                                             *)

Lemma okk_full : forall {A} (l : list A), l <> [] -> okk (length l) l = true.
Proof. intros A [|a l] H; [congruence|]. unfold okk. cbn [length]. rewrite Nat.leb_refl. reflexivity. Qed.

Lemma is_nil_dec : forall {A} (l : list A), {l = []} + {l <> []}.
Proof. intros A [|a l]; [left; reflexivity|right; discriminate]. Qed.

Ltac bcase b E := destruct (bool_dec b true) as [E|E]; [|apply not_true_is_false in E].
Ltac use_term Ht L T := pose proof (Ht L eq_refl) as T; unfold step in T; cbv beta iota zeta in T; simp2.

Section Terminal.
  Variable c : cfg.
  Variables (ts : list byte) (cf : bool) (c2 : list byte) (c2f crst : bool) (pc : list (nat * byte)) (pcf : bool)
            (clog : list (nat * byte)) (ceof : bool) (ds : sock) (pm : pumpst) (ch : bool) (mn : mainst) (ls : bool) (us : nat -> ust).
  Local Notation s := (mkS (mkC ts cf c2 c2f crst pc pcf clog ceof ds) (mkP pm ch mn ls) us).
  Hypothesis Ht : terminal c s.
  Hypothesis HI : Inv c s.
  Hypothesis HI2 : Inv2 c s.
  Hypothesis Hls : ls = false.

  Lemma t_crst : crst = false.
  Proof. destruct HI as (_ & (_ & _ & H) & _). simp2. destruct crst; [rewrite H in Hls by reflexivity; discriminate|reflexivity]. Qed.

  Lemma t_urst : forall i, i < n_up c -> u_rst (us i) = false.
  Proof.
    intros i Hi. destruct HI as (HU & _). destruct (HU i Hi) as (_ & _ & _ & _ & H & _). simp2.
    destruct (u_rst (us i)); [rewrite H in Hls by reflexivity; discriminate|reflexivity].
  Qed.

  Lemma t_ts : ts = [].
  Proof.
    destruct HI as (_ & (_ & H2 & _) & _). simp2. bcase cf Ecf; [apply H2; assumption|].
    destruct (is_nil_dec ts) as [|Hn]; [assumption|]. use_term Ht (CSend (length ts)) T.
    rewrite Ecf, t_crst, (okk_full ts Hn) in T. discriminate.
  Qed.

  Lemma t_utosend : forall i, i < n_up c -> u_tosend (us i) = [].
  Proof.
    intros i Hi. destruct HI as (HU & _). destruct (HU i Hi) as (_ & _ & _ & H2 & _). simp2.
    bcase (u_finned (us i)) Ef; [apply H2; assumption|].
    destruct (is_nil_dec (u_tosend (us i))) as [|Hn]; [assumption|]. use_term Ht (USend i (length (u_tosend (us i)))) T.
    apply Nat.ltb_lt in Hi. rewrite Hi, Ef, (t_urst i) , (okk_full _ Hn) in T by (apply Nat.ltb_lt; assumption). discriminate.
  Qed.

  Lemma t_pump : pm = PRead \/ pm = PDone.
  Proof.
    destruct pm as [|chk j|j|]; auto.
    - use_term Ht PumpWrite T. destruct (j <? n_up c); [destruct (u_rst (us j))|]; discriminate.
    - use_term Ht PumpClose T. destruct (j <? n_up c); [destruct (up_cw c j)|]; discriminate.
  Qed.

  Lemma t_p2u : forall i, i < n_up c -> p2u (us i) = [].
  Proof.
    intros i Hi. destruct (is_nil_dec (p2u (us i))) as [|Hn]; [assumption|].
    use_term Ht (URecv i (length (p2u (us i)))) T. apply Nat.ltb_lt in Hi.
    rewrite Hi, (t_urst i), (okk_full _ Hn) in T by (apply Nat.ltb_lt; assumption). discriminate.
  Qed.

  Lemma t_pc : pc = [].
  Proof.
    destruct (is_nil_dec pc) as [|Hn]; [assumption|]. use_term Ht (CRecv (length pc)) T.
    rewrite t_crst, (okk_full _ Hn) in T. discriminate.
  Qed.

  Lemma t_main : mn = MWait \/ mn = MRecv \/ mn = MReturned.
  Proof.
    destruct mn as [| | |j|]; auto.
    - use_term Ht MainCloseWrite T. destruct (cw_effect (down c)); discriminate.
    - use_term Ht MainDeferClose T. destruct (j <? n_up c); discriminate.
  Qed.

  (* a blocked pump means the client is waiting for EOF before it finishes *)
  Lemma t_pump_blocked : pm = PRead -> after_eof (cfin c) = true /\ ceof = false /\ cf = false.
  Proof.
    intros Hp. destruct HI as (_ & (H1 & _ & _) & _). simp2.
    use_term Ht (PumpRead (length c2)) T. rewrite Hp, t_crst in T.
    destruct (is_nil_dec c2) as [Ec2|Ec2]; [rewrite Ec2 in T|destruct c2 as [|b l]; [congruence|]].
    - bcase c2f Ef; [rewrite Ef in T; discriminate|]. rewrite Ef in H1. symmetry in H1.
      rename H1 into Ecf.
      use_term Ht CFin T2. rewrite Ecf, t_crst, t_ts in T2. cbn [negb andb] in T2.
      destruct (after_eof (cfin c)); [|discriminate]. bcase ceof Ece; [rewrite Ece in T2; discriminate|]. auto.
    - rewrite okk_full in T by discriminate. discriminate.
  Qed.

  Hypothesis Hcompat : compatible c.

  Lemma after_eof_spec : forall p, after_eof p = true -> p = FinAfterEof.
  Proof. destruct p; cbn; congruence. Qed.

  Lemma t_copy_done : forall i, i < n_up c -> cp (us i) = CDone.
  Proof.
    intros i Hi. destruct HI as (HU & _). destruct (HU i Hi) as (_ & _ & HF1 & _). simp2.
    destruct HI2 as (HG & _). destruct (HG i Hi) as (HG1 & _). simp2.
    assert (Hib : (i <? n_up c) = true) by (apply Nat.ltb_lt; assumption).
    destruct (cp (us i)) as [|chk|] eqn:Ecp; [| |reflexivity]; exfalso.
    - (* blocked in read *)
      use_term Ht (CopyRead i (length (u2p (us i)))) T. rewrite Hib, Ecp, (t_urst i Hi) in T. cbn [orb] in T.
      destruct (is_closed (u_sock (us i))); [discriminate|].
      destruct (u2p (us i)) as [|b l] eqn:Eu; [|rewrite okk_full in T by discriminate; discriminate].
      destruct (u2p_fin (us i)) eqn:Ef; [discriminate|].
      (* the upstream has not finished: it waits for EOF *)
      use_term Ht (UFin i) T2. rewrite Hib, <- HF1, (t_urst i Hi), (t_utosend i Hi) in T2. cbn [negb andb] in T2.
      destruct (after_eof (ufin c i)) eqn:Eaf; [|discriminate]. cbn [negb orb] in T2.
      destruct (u_eof (us i)) eqn:Eeof; [discriminate|].
      use_term Ht (UEof i) T3. rewrite Hib, (t_urst i Hi), Eeof, (t_p2u i Hi) in T3. cbn [negb andb] in T3.
      destruct (p2u_fin (us i)) eqn:Epf; [discriminate|].
      destruct t_pump as [Hp|Hp].
      + destruct (t_pump_blocked Hp) as (Hc & _ & _). destruct Hcompat as ([Hc1|Hc1] & _ & _).
        * rewrite Hc1 in Hc. discriminate.
        * rewrite (Hc1 i Hi) in Eaf. discriminate.
      + rewrite Hp in HG1. simp2. specialize (HG1 eq_refl). congruence.
    - use_term Ht (CopyWrite i) T. rewrite Hib, Ecp in T. destruct crst; discriminate.
  Qed.

  Lemma t_all_done : all_done (n_up c) us = true.
  Proof.
    unfold all_done. apply forallb_forall. intros i Hin. apply in_seq in Hin. rewrite t_copy_done by lia. reflexivity.
  Qed.

  Lemma t_returned : mn = MReturned.
  Proof.
    destruct t_main as [Hm|[Hm|Hm]]; [| |assumption]; exfalso.
    - use_term Ht MainWait T. rewrite Hm, t_all_done in T. discriminate.
    - use_term Ht MainRecv T. rewrite Hm in T. bcase ch Ech; [rewrite Ech in T; discriminate|].
      pose proof HI2 as (_ & HCh & HP & _). simp2. rewrite Hm in HCh, HP. simp2.
      destruct t_pump as [Hp|Hp].
      + destruct (t_pump_blocked Hp) as (Hc & Hce & _).
        destruct Hcompat as (_ & Hcw & _). specialize (Hcw (after_eof_spec _ Hc)).
        use_term Ht CEof T2. rewrite t_crst, Hce, t_pc, (HP eq_refl Hcw) in T2. discriminate.
      + rewrite Hp in HCh. simp2. rewrite HCh in Ech by reflexivity. discriminate.
  Qed.

  Lemma t_final : final c s.
  Proof.
    pose proof t_returned as Hm.
    destruct HI2 as (HG & _ & _ & HD). simp2.
    assert (Hds : ds = SClosed).
    { use_term Ht ServerClose T. rewrite Hm in T. destruct ds; cbn in T; try discriminate; reflexivity. }
    assert (Hpcf : pcf = true) by (apply HD; assumption).
    assert (Hce : ceof = true).
    { use_term Ht CEof T. rewrite t_crst, t_pc, Hpcf in T. bcase ceof E; [assumption|rewrite E in T; discriminate]. }
    assert (Hcf : cf = true).
    { use_term Ht CFin T. rewrite t_crst, t_ts, Hce in T. rewrite orb_true_r in T. bcase cf E; [assumption|rewrite E in T; discriminate]. }
    assert (Hp : pm = PDone).
    { destruct t_pump as [Hp|Hp]; [|assumption]. destruct (t_pump_blocked Hp) as (_ & _ & Hx). congruence. }
    unfold final; simp2. split; [assumption|]. split; [assumption|]. split; [assumption|].
    destruct HI as (HU & _ & HT). unfold inv_tags in HT. simp2. rewrite t_pc, app_nil_r in HT. split; [assumption|].
    intros i Hi. destruct (HU i Hi) as (HA & HB & _). unfold inv_up in HA. unfold inv_down in HB. simp2.
    destruct (HG i Hi) as (HG1 & HG2). rewrite Hp in HG1, HA. rewrite Hm in HG2. simp2. cbn [pump_running] in HA.
    destruct HA as (_ & HA). specialize (HA Hls). rewrite (t_p2u i Hi), app_nil_r in HA.
    rewrite (t_copy_done i Hi) in HB. cbn [copy_done] in HB. destruct HB as (_ & HB). specialize (HB Hls).
    rewrite t_pc, app_nil_r in HB.
    assert (Hib : (i <? n_up c) = true) by (apply Nat.ltb_lt; assumption).
    assert (Hue : u_eof (us i) = true).
    { use_term Ht (UEof i) T. rewrite Hib, (t_urst i Hi), (t_p2u i Hi), (HG1 eq_refl) in T.
      destruct (u_eof (us i)); [reflexivity|discriminate]. }
    repeat split; auto.
  Qed.
End Terminal.

Theorem terminal_is_final : forall c s,
  compatible c -> reachable c s -> lossy (px s) = false -> terminal c s -> final c s.
Proof.
  intros c s Hc Hr Hl Ht. pose proof (reachable_inv c s Hr) as HI. pose proof (reachable_inv2 c s Hr) as HI2.
  destr_st s. simp2. eapply t_final; eassumption.
Qed.

(* ------------------------------------------------------------------------------------------ *)
(* executions, the executable scheduler                                                        *)

Lemma exec_app : forall c l1 l2 s,
  exec c s (l1 ++ l2) = match exec c s l1 with Some s1 => exec c s1 l2 | None => None end.
Proof.
  intros c l1. induction l1 as [|l r IH]; intros l2 s; [reflexivity|].
  cbn. destruct (step c s l); [apply IH|reflexivity].
Qed.

Definition reachable_ff (c : cfg) (s : st) : Prop := exists ls, fault_free ls /\ exec c (init c) ls = Some s.

Lemma reachable_ff_reachable : forall c s, reachable_ff c s -> reachable c s.
Proof. intros c s [ls [_ H]]. exists ls; assumption. Qed.

Lemma reachable_ff_step : forall c s l s', reachable_ff c s -> is_fault l = false -> step c s l = Some s' -> reachable_ff c s'.
Proof.
  intros c s l s' [ls [Hf H]] Hl Hs. exists (ls ++ [l]). split.
  - apply Forall_app. split; [assumption|constructor; [assumption|constructor]].
  - rewrite exec_app, H. cbn. rewrite Hs. reflexivity.
Qed.

Lemma candidates_no_fault : forall c s l, In l (candidates c s) -> is_fault l = false.
Proof.
  intros c s l H. unfold candidates in H. apply in_app_or in H. destruct H as [H|H].
  - cbn in H. intuition (subst; reflexivity).
  - apply in_app_or in H. destruct H as [H|H].
    + apply in_flat_map in H. destruct H as [i [_ H]]. cbn in H. intuition (subst; reflexivity).
    + cbn in H. intuition (subst; reflexivity).
Qed.

Lemma first_enabled_some : forall c s ls s', first_enabled c s ls = Some s' -> exists l, In l ls /\ step c s l = Some s'.
Proof.
  intros c s ls. induction ls as [|l r IH]; intros s' H; cbn in H; [discriminate|].
  destruct (step c s l) eqn:E.
  - inversion H; subst. exists l. split; [left; reflexivity|assumption].
  - destruct (IH _ H) as [l' [Hin Hs]]. exists l'. split; [right; assumption|assumption].
Qed.

Lemma run_reachable_ff : forall fuel c s, reachable_ff c s -> reachable_ff c (run fuel c s).
Proof.
  induction fuel as [|f IH]; intros c s H; cbn [run]; [assumption|].
  destruct (first_enabled c s (candidates c s)) as [s'|] eqn:E; [|assumption].
  apply first_enabled_some in E. destruct E as [l [Hin Hs]]. apply IH.
  eapply reachable_ff_step; [eassumption|eapply candidates_no_fault; eassumption|eassumption].
Qed.

Lemma init_reachable_ff : forall c, reachable_ff c (init c).
Proof. intros c. exists []. split; [constructor|reflexivity]. Qed.

(* without faults, and with upstream transports that offer CloseWrite, nothing is lost *)
Lemma step_lossy : forall c s l s',
  (forall i, i < n_up c -> up_cw c i = true) -> is_fault l = false ->
  step c s l = Some s' -> lossy (px s) = false -> lossy (px s') = false.
Proof.
  intros c s l s' Hcw Hf H Hl. destr_st s. simp2. destruct l; try discriminate Hf; step_cases H; simp2; try assumption.
  rewrite Hcw in * by assumption. discriminate.
Qed.

Lemma reachable_ff_lossy : forall c s,
  (forall i, i < n_up c -> up_cw c i = true) -> reachable_ff c s -> lossy (px s) = false.
Proof.
  intros c s Hcw [ls [Hf H]]. revert H. generalize (eq_refl : lossy (px (init c)) = false). generalize (init c) as s0.
  induction Hf as [|l r Hl Hr IH]; intros s0 H0 H; cbn in H.
  - inversion H; subst; assumption.
  - destruct (step c s0 l) as [s1|] eqn:E; [|discriminate]. eapply IH; [|eassumption]. eapply step_lossy; eassumption.
Qed.

(* the candidate labels decide whether anything (but a fault) can happen *)
Definition enabled (c : cfg) (s : st) (l : label) : bool := match step c s l with Some _ => true | None => false end.

Lemma okk_max : forall {A} k (l : list A), okk k l = true -> okk (length l) l = true.
Proof. intros A k l H. apply okk_spec in H. apply okk_full. destruct l; [cbn in H; lia|discriminate]. Qed.

Lemma candidates_complete : forall c s l,
  is_fault l = false -> enabled c s l = true -> exists l', In l' (candidates c s) /\ enabled c s l' = true.
Proof.
  intros c s l Hf He.
  assert (Hidx : forall i (f : nat -> label), (i <? n_up c) = true ->
            In (f i) [URecv i (length (p2u (ups s i))); UEof i; USend i (length (u_tosend (ups s i)));
                      CopyRead i (length (u2p (ups s i))); CopyWrite i; UFin i] -> In (f i) (candidates c s)).
  { intros i f Hi Hin. unfold candidates. apply in_or_app. right. apply in_or_app. left.
    apply in_flat_map. exists i. split; [apply in_seq; apply Nat.ltb_lt in Hi; lia|exact Hin]. }
  assert (Hhead : forall l0, In l0 [CSend (length (c_tosend (cl s))); PumpRead (length (c2p (cl s))); PumpWrite; PumpClose] -> In l0 (candidates c s)).
  { intros l0 H. unfold candidates. apply in_or_app. left. exact H. }
  assert (Htail : forall l0, In l0 [CRecv (length (p2c (cl s))); CEof; CFin; MainWait; MainCloseWrite; MainRecv; MainDeferClose; ServerClose] -> In l0 (candidates c s)).
  { intros l0 H. unfold candidates. apply in_or_app. right. apply in_or_app. right. exact H. }
  destr_st s. simp2. unfold enabled in *.
  destruct l; try discriminate Hf.
  - (* CSend *) exists (CSend (length ts)). split; [apply Hhead; cbn; auto|].
    unfold step in *. destruct (negb cf && negb crst); cbn [andb] in *; [|discriminate].
    destruct (okk k ts) eqn:E; [|discriminate]. rewrite (okk_max _ _ E). reflexivity.
  - exists CFin. split; [apply Htail; cbn; auto|exact He].
  - (* CRecv *) exists (CRecv (length pc)). split; [apply Htail; cbn; auto|].
    unfold step in *. destruct (negb crst); cbn [andb] in *; [|discriminate].
    destruct (okk k pc) eqn:E; [|discriminate]. rewrite (okk_max _ _ E). reflexivity.
  - exists CEof. split; [apply Htail; cbn; auto|exact He].
  - (* USend *) unfold step in He. cbv zeta in He. destruct (i <? n_up c) eqn:Ei; [|discriminate].
    exists (USend i (length (u_tosend (us i)))). split; [apply (Hidx i (fun i => USend i (length (u_tosend (us i)))) Ei); cbn; auto|].
    unfold step. cbv zeta. rewrite Ei. cbn [andb] in *.
    destruct (negb (u_finned (us i)) && negb (u_rst (us i))); cbn [andb] in *; [|discriminate].
    destruct (okk k (u_tosend (us i))) eqn:E; [|discriminate]. rewrite (okk_max _ _ E). reflexivity.
  - unfold step in He. cbv zeta in He. destruct (i <? n_up c) eqn:Ei; [|discriminate].
    exists (UFin i). split; [apply (Hidx i UFin Ei); cbn; auto 10|]. unfold step. cbv zeta. rewrite Ei. exact He.
  - (* URecv *) unfold step in He. cbv zeta in He. destruct (i <? n_up c) eqn:Ei; [|discriminate].
    exists (URecv i (length (p2u (us i)))). split; [apply (Hidx i (fun i => URecv i (length (p2u (us i)))) Ei); cbn; auto|].
    unfold step. cbv zeta. rewrite Ei. cbn [andb] in *.
    destruct (negb (u_rst (us i))); cbn [andb] in *; [|discriminate].
    destruct (okk k (p2u (us i))) eqn:E; [|discriminate]. rewrite (okk_max _ _ E). reflexivity.
  - unfold step in He. cbv zeta in He. destruct (i <? n_up c) eqn:Ei; [|discriminate].
    exists (UEof i). split; [apply (Hidx i UEof Ei); cbn; auto|]. unfold step. cbv zeta. rewrite Ei. exact He.
  - (* PumpRead *) exists (PumpRead (length c2)). split; [apply Hhead; cbn; auto|].
    unfold step in *. destruct pm; try discriminate. destruct crst; [reflexivity|].
    destruct c2 as [|b l]; [exact He|]. destruct (okk k (b :: l)) eqn:E; [|discriminate]. rewrite (okk_max _ _ E). reflexivity.
  - exists PumpWrite. split; [apply Hhead; cbn; auto|exact He].
  - exists PumpClose. split; [apply Hhead; cbn; auto|exact He].
  - (* CopyRead *) unfold step in He. cbv zeta in He. destruct (i <? n_up c) eqn:Ei; [|discriminate].
    exists (CopyRead i (length (u2p (us i)))). split; [apply (Hidx i (fun i => CopyRead i (length (u2p (us i)))) Ei); cbn; auto 10|].
    unfold step. cbv zeta. rewrite Ei. destruct (cp (us i)); try discriminate.
    destruct (u_rst (us i) || is_closed (u_sock (us i))); [reflexivity|].
    destruct (u2p (us i)) as [|b l]; [exact He|]. destruct (okk k (b :: l)) eqn:E; [|discriminate]. rewrite (okk_max _ _ E). reflexivity.
  - unfold step in He. cbv zeta in He. destruct (i <? n_up c) eqn:Ei; [|discriminate].
    exists (CopyWrite i). split; [apply (Hidx i CopyWrite Ei); cbn; auto 10|]. unfold step. cbv zeta. rewrite Ei. exact He.
  - exists MainWait. split; [apply Htail; cbn; auto 10|exact He].
  - exists MainCloseWrite. split; [apply Htail; cbn; auto 10|exact He].
  - exists MainRecv. split; [apply Htail; cbn; auto 10|exact He].
  - exists MainDeferClose. split; [apply Htail; cbn; auto 10|exact He].
  - exists ServerClose. split; [apply Htail; cbn; auto 10|exact He].
Qed.

Definition terminalb (c : cfg) (s : st) : bool := forallb (fun l => negb (enabled c s l)) (candidates c s).

Lemma terminalb_sound : forall c s, terminalb c s = true -> terminal c s.
Proof.
  intros c s H l Hf. destruct (step c s l) eqn:E; [|reflexivity]. exfalso.
  destruct (candidates_complete c s l Hf) as [l' [Hin He]]; [unfold enabled; rewrite E; reflexivity|].
  unfold terminalb in H. rewrite forallb_forall in H. specialize (H l' Hin). rewrite He in H. discriminate.
Qed.

(* ------------------------------------------------------------------------------------------ *)
(* what the final state looks like to the harness                                              *)

Lemma final_observe : forall c s, final c s -> observe c s = final_obs c.
Proof.
  intros c s (Hm & _ & Hce & _ & Hu). unfold observe, final_obs. rewrite Hm, Hce.
  assert (Hin : forall i, In i (seq 0 (n_up c)) -> i < n_up c) by (intros i H; apply in_seq in H; lia).
  f_equal; apply map_ext_in; intros i Hi; destruct (Hu i (Hin i Hi)) as (H1 & H2 & H3 & H4); try assumption.
  rewrite H3. reflexivity.
Qed.

(* ------------------------------------------------------------------------------------------ *)
(* half-close and the chain of connection layers                                               *)

(* every wrapper type of this repository forwards CloseWrite (facts generated from the source) *)
Lemma repo_wrappers_forward :
  has_cw_method LL4Conn = true /\ has_cw_method LThrottle = true /\ has_cw_method LTeeNext = true /\
  has_cw_method LProxyProtocol = true.
Proof. vm_compute. repeat split. Qed.

Lemma cw_effect_repo : forall ch, ~ In LHiding ch -> cw_effect ch = transport_offers ch.
Proof.
  destruct repo_wrappers_forward as (H1 & H2 & H3 & H4).
  induction ch as [|l r IH]; intros Hn; [reflexivity|].
  assert (Hr : ~ In LHiding r) by (intro; apply Hn; right; assumption).
  cbn [cw_effect transport_offers]. destruct l; cbn [is_wrapper]; rewrite ?andb_true_r; try reflexivity.
  - rewrite H1. apply IH; assumption.
  - rewrite H2. apply IH; assumption.
  - rewrite H4. apply IH; assumption.
  - rewrite H3. apply IH; assumption.
  - exfalso; apply Hn; left; reflexivity.
Qed.

Theorem relay_final : forall c s,
  compatible c -> reachable_ff c s -> terminal c s -> final c s.
Proof.
  intros c s Hc Hr Ht. apply terminal_is_final; try assumption.
  - apply reachable_ff_reachable; assumption.
  - apply (reachable_ff_lossy c s); [apply Hc|assumption].
Qed.

(* upstreams finish first, the client waits for EOF before it finishes: stated for every chain
   whose transport offers half-close and whose wrappers are the connection types of this repository *)
Theorem half_close_to_client : forall c s,
  ~ In LHiding (down c) -> transport_offers (down c) = true ->
  (forall i, i < n_up c -> ufin c i = FinFree /\ up_cw c i = true) ->
  reachable_ff c s -> terminal c s -> final c s.
Proof.
  intros c s Hn Ht Hu Hr Hterm. apply relay_final; try assumption.
  split; [right; intros i Hi; apply Hu; assumption|]. split.
  - intros _. rewrite cw_effect_repo; assumption.
  - intros i Hi; apply Hu; assumption.
Qed.

(* the client finishes first, upstreams wait for EOF before they finish *)
Theorem half_close_to_upstreams : forall c s,
  cfin c = FinFree -> (forall i, i < n_up c -> up_cw c i = true) ->
  reachable_ff c s -> terminal c s -> final c s.
Proof.
  intros c s Hc Hu Hr Hterm. apply relay_final; try assumption.
  split; [left; assumption|]. split; [intros H; rewrite Hc in H; discriminate|assumption].
Qed.

(* the deadlock behind a wrapper that hides CloseWrite *)
Definition lost_cfg : cfg :=
  mkCfg 1 [x68; x69] 0 (fun _ => [x6f; x6b]) FinAfterEof (fun _ => FinFree) (fun _ => true) chain_hiding.
Definition lost_state : st := run (run_fuel lost_cfg) lost_cfg (init lost_cfg).

Theorem half_close_lost : 
  transport_offers (down lost_cfg) = true /\ cw_effect (down lost_cfg) = false /\
  reachable_ff lost_cfg lost_state /\ terminal lost_cfg lost_state /\ lossy (px lost_state) = false /\
  (* the upstream has sent everything and finished, the client has received all of it ... *)
  u_finned (ups lost_state 0) = true /\ proj 0 (c_log (cl lost_state)) = u_total lost_cfg 0 /\
  (* ... the client's own bytes have reached the upstream ... *)
  u_log (ups lost_state 0) = c_total lost_cfg /\
  (* ... but nobody observes EOF and Handle never returns *)
  c_eof (cl lost_state) = false /\ u_eof (ups lost_state 0) = false /\ mainp (px lost_state) = MRecv.
Proof.
  split; [vm_compute; reflexivity|]. split; [vm_compute; reflexivity|].
  split; [apply run_reachable_ff; apply init_reachable_ff|].
  split; [apply terminalb_sound; vm_compute; reflexivity|].
  vm_compute. repeat split.
Qed.

(* non-vacuity: a concrete scenario is compatible and its run ends in a reachable, terminal, final state *)
Definition ex_cfg (ch : chain) (cf uf : finpol) : cfg :=
  mkCfg 2 [x61; x62; x63; x64; x65] 2 (fun i => if Nat.eqb i 0 then [x41; x42; x43] else [x31]) cf (fun _ => uf) (fun _ => true) ch.
Definition ex_state (c : cfg) : st := run (run_fuel c) c (init c).

Lemma ex_runs : forall c, reachable_ff c (ex_state c).
Proof. intros c. apply run_reachable_ff. apply init_reachable_ff. Qed.

Lemma ex_compatible_upfirst : compatible (ex_cfg chain_tee FinAfterEof FinFree).
Proof.
  split; [right; intros; reflexivity|]. split; [intros _; vm_compute; reflexivity|intros; reflexivity].
Qed.
Lemma ex_terminal_upfirst : terminal (ex_cfg chain_tee FinAfterEof FinFree) (ex_state (ex_cfg chain_tee FinAfterEof FinFree)).
Proof. apply terminalb_sound. vm_compute. reflexivity. Qed.
Lemma ex_obs_upfirst : observe (ex_cfg chain_tee FinAfterEof FinFree) (ex_state (ex_cfg chain_tee FinAfterEof FinFree)) = final_obs (ex_cfg chain_tee FinAfterEof FinFree).
Proof. vm_compute. reflexivity. Qed.

Lemma filter_all : forall {A} (f : A -> bool) l, (forall x, In x l -> f x = true) -> filter f l = l.
Proof.
  induction l as [|a l IH]; intros H; [reflexivity|]. cbn. rewrite (H a (or_introl eq_refl)).
  f_equal. apply IH. intros x Hx. apply H. right. assumption.
Qed.

Lemma final_one_peer : forall c s, n_up c = 1 -> final c s -> map snd (c_log (cl s)) = u_total c 0.
Proof.
  intros c s Hn (_ & _ & _ & Ht & Hu). destruct (Hu 0 ltac:(lia)) as (_ & _ & _ & H). rewrite <- H.
  unfold proj. rewrite filter_all; [reflexivity|].
  intros x Hx. rewrite Forall_forall in Ht. specialize (Ht x Hx). apply Nat.eqb_eq. lia.
Qed.

Lemma half_close_lost_witness : exists c s,
  transport_offers (down c) = true /\ cfin c = FinAfterEof /\ (forall i, i < n_up c -> ufin c i = FinFree /\ up_cw c i = true) /\
  reachable_ff c s /\ terminal c s /\ lossy (px s) = false /\
  u_finned (ups s 0) = true /\ proj 0 (c_log (cl s)) = u_total c 0 /\ u_log (ups s 0) = c_total c /\
  c_eof (cl s) = false /\ u_eof (ups s 0) = false /\ mainp (px s) = MRecv /\ ~ final c s.
Proof.
  destruct half_close_lost as (H1 & H2 & H3 & H4 & H5 & H6 & H7 & H8 & H9 & H10 & H11).
  exists lost_cfg, lost_state. repeat split; try assumption; try reflexivity.
  intros (Hm & _). rewrite H11 in Hm. discriminate.
Qed.

Lemma ex_nonvacuous :
  let c := ex_cfg chain_tee FinAfterEof FinFree in
  compatible c /\ reachable_ff c (ex_state c) /\ terminal c (ex_state c) /\ final c (ex_state c) /\
  observe c (ex_state c) = final_obs c.
Proof.
  cbv zeta. split; [exact ex_compatible_upfirst|]. split; [apply ex_runs|]. split; [exact ex_terminal_upfirst|].
  split; [|exact ex_obs_upfirst].
  apply relay_final; [exact ex_compatible_upfirst|apply ex_runs|exact ex_terminal_upfirst].
Qed.
