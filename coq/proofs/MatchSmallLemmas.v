(* Lemmas shared by the proofs about the small matcher models (model/MatchSmall.v). *)
From Coq Require Import String.
From Coq Require Import List NArith ZArith Bool Arith Lia.
From Coq.Strings Require Import Byte.
From L4 Require Import Hex.
From L4.model Require Import GoBase MatchSmall.
From L4.proofs Require Import GoBaseProofs.
Import ListNotations.

(* ---- stability notions ---- *)
(* once a matcher has decided (anything but "need more") more bytes do not change the answer *)
Definition decided_stable (m : matcher) : Prop := forall p s, m p <> More -> m (p ++ s) = m p.
(* the weaker form that is enough for C06: Yes and No are permanent *)
Definition stable_yn (m : matcher) : Prop := forall p s, m p = Yes \/ m p = No -> m (p ++ s) = m p.

Lemma decided_stable_yn m : decided_stable m -> stable_yn m.
Proof. intros H p s [Hy|Hn]; apply H; congruence. Qed.

Lemma stable_yn_no_stable m : stable_yn m -> no_stable m.
Proof. intros H p s Hn. rewrite (H p s (or_intror Hn)). exact Hn. Qed.

Lemma stable_yn_yes_not_rejected m : stable_yn m -> yes_not_rejected_on_prefix m.
Proof.
  intros H w p s Hw Hy Hn. subst w. rewrite (H p s (or_intror Hn)) in Hy. congruence.
Qed.

(* ---- read_fullN ---- *)
Lemma read_fullN_some n p a r : read_fullN n p = Some (a, r) -> p = a ++ r /\ N.of_nat (length a) = n.
Proof.
  unfold read_fullN. destruct (N.ltb_spec (N.of_nat (length p)) n) as [Hlt|Hge]; [discriminate|].
  intro H; inversion H; subst. split; [symmetry; apply firstn_skipn|].
  rewrite firstn_length_le by lia. lia.
Qed.

Lemma read_fullN_app n p s a r : read_fullN n p = Some (a, r) -> read_fullN n (p ++ s) = Some (a, r ++ s).
Proof.
  unfold read_fullN. destruct (N.ltb_spec (N.of_nat (length p)) n) as [Hlt|Hge]; [discriminate|].
  intro H; inversion H; subst. rewrite app_length.
  destruct (N.ltb_spec (N.of_nat (length p + length s)) n) as [Hlt2|Hge2]; [lia|].
  rewrite firstn_app_le, skipn_app_le by lia. reflexivity.
Qed.

Lemma read_fullN_none n p : read_fullN n p = None <-> (N.of_nat (length p) < n)%N.
Proof.
  unfold read_fullN. destruct (N.ltb_spec (N.of_nat (length p)) n) as [Hlt|Hge]; split; intro H; try discriminate; try lia; reflexivity.
Qed.

Lemma read_fullN_exact n a r : N.of_nat (length a) = n -> read_fullN n (a ++ r) = Some (a, r).
Proof.
  intro H. unfold read_fullN. rewrite app_length.
  destruct (N.ltb_spec (N.of_nat (length a + length r)) n) as [Hlt|Hge]; [lia|].
  replace (N.to_nat n) with (length a) by lia.
  rewrite firstn_app_le, skipn_app_le by lia. rewrite firstn_all, skipn_all. rewrite app_nil_l. reflexivity.
Qed.

Lemma read_full_exact n a r : length a = n -> read_full n (a ++ r) = Some (a, r).
Proof.
  intro H. unfold read_full. rewrite app_length.
  destruct (Nat.ltb_spec (length a + length r) n) as [Hlt|Hge]; [lia|]. subst n.
  rewrite firstn_app_le, skipn_app_le by lia. rewrite firstn_all, skipn_all. rewrite app_nil_l. reflexivity.
Qed.

(* ---- index_byte / index / contains ---- *)
Lemma index_byte_app s c : forall t i, index_byte s c = Some i -> index_byte (s ++ t) c = Some i.
Proof.
  induction s as [|x s IH]; intros t i H; cbn in *; [discriminate|].
  destruct (Byte.eqb x c); [exact H|].
  destruct (index_byte s c) as [j|] eqn:E; [|discriminate]. rewrite (IH t j eq_refl). exact H.
Qed.

Lemma index_byte_some s c : forall i, index_byte s c = Some i ->
  (i < length s)%nat /\ nth_error s i = Some c /\ ~ In c (firstn i s).
Proof.
  induction s as [|x s IH]; intros i H; cbn in *; [discriminate|].
  destruct (Byte.eqb x c) eqn:E.
  - inversion H; subst. apply byte_eqb_eq in E. subst. cbn. repeat split; [lia|tauto].
  - destruct (index_byte s c) as [j|] eqn:Ej; [|discriminate]. inversion H; subst.
    destruct (IH j eq_refl) as (H1 & H2 & H3). cbn. repeat split; [lia|exact H2|].
    intros [Hx|Hin]; [subst; rewrite byte_eqb_refl in E; discriminate|tauto].
Qed.

Lemma index_byte_none s c : index_byte s c = None <-> ~ In c s.
Proof.
  induction s as [|x s IH]; cbn; [tauto|].
  destruct (Byte.eqb x c) eqn:E.
  - apply byte_eqb_eq in E. subst. split; [discriminate|]. intro H. exfalso. apply H. left. reflexivity.
  - destruct (index_byte s c) as [j|] eqn:Ej; cbn.
    + split; [discriminate|]. intro H. exfalso. assert (Hn : ~ In c s) by tauto. apply IH in Hn. discriminate.
    + split; [|reflexivity]. intros _ [Hx|Hin]; [subst; rewrite byte_eqb_refl in E; discriminate|].
      apply (proj1 IH eq_refl). exact Hin.
Qed.

(* the first occurrence of c in  a ++ c :: b  when a is free of c *)
Lemma index_byte_first a c b : ~ In c a -> index_byte (a ++ c :: b) c = Some (length a).
Proof.
  induction a as [|x a IH]; intro H; cbn.
  - rewrite byte_eqb_refl. reflexivity.
  - destruct (Byte.eqb x c) eqn:E.
    + apply byte_eqb_eq in E. subst. exfalso. apply H. left. reflexivity.
    + rewrite IH; [reflexivity|]. intro Hin. apply H. right. exact Hin.
Qed.

Lemma index_app s t i b : index s i = Some b -> index (s ++ t) i = Some b.
Proof.
  unfold index. intro H. rewrite nth_error_app1; [exact H|]. apply nth_error_Some. congruence.
Qed.

Lemma contains_spec s w : contains s w = true <-> exists a b, s = a ++ w ++ b.
Proof.
  induction s as [|x s IH]; cbn [contains].
  - rewrite orb_false_r. rewrite has_prefix_spec. split.
    + intros [t Ht]. exists [], t. exact Ht.
    + intros (a & b & H). destruct a; [exists b; exact H|discriminate].
  - rewrite orb_true_iff, has_prefix_spec, IH. split.
    + intros [[t Ht]|(a & b & H)]; [exists [], t; exact Ht|exists (x :: a), b; cbn; congruence].
    + intros (a & b & H). destruct a as [|y a]; [left; exists b; exact H|right].
      inversion H; subst. exists a, b. reflexivity.
Qed.

(* ---- slices of exact layouts ---- *)
Lemma slice_mid (a m b : list byte) : slice (a ++ m ++ b) (length a) (length a + length m) = Some m.
Proof.
  unfold slice. rewrite !app_length.
  replace ((length a <=? length a + length m)%nat && (length a + length m <=? length a + (length m + length b))%nat) with true
    by (symmetry; apply andb_true_iff; split; apply Nat.leb_le; lia).
  replace (length a + length m - length a)%nat with (length m) by lia.
  rewrite skipn_app_le by lia. rewrite skipn_all. cbn [app]. rewrite firstn_app_le by lia. rewrite firstn_all. reflexivity.
Qed.

Lemma nth_error_mid (a : list byte) (x : byte) (b : list byte) : nth_error (a ++ x :: b) (length a) = Some x.
Proof. rewrite nth_error_app2 by lia. rewrite Nat.sub_diag. reflexivity. Qed.

(* ---- big-endian encodings ---- *)
Lemma byte_of_to_N (v : N) : (v < 256)%N -> Byte.to_N (match Byte.of_N v with Some b => b | None => x00 end) = v.
Proof.
  intro H. destruct (Byte.of_N v) as [b|] eqn:E.
  - apply Byte.to_of_N in E. exact E.
  - apply Byte.of_N_None_iff in E. lia.
Qed.

Lemma be_N_app a b : be_N (a ++ b) = (be_N a * 256 ^ N.of_nat (length b) + be_N b)%N.
Proof.
  unfold be_N. revert a. induction b as [|x b IH]; intro a.
  - rewrite app_nil_r. cbn. lia.
  - replace (a ++ x :: b) with ((a ++ [x]) ++ b) by (rewrite <- app_assoc; reflexivity).
    rewrite IH. rewrite fold_left_app. cbn [fold_left length].
    rewrite Nat2N.inj_succ, N.pow_succ_r by lia.
    set (fa := fold_left (fun a0 b0 => (a0 * 256 + bN b0)%N) a 0%N).
    assert (Hb : forall (l : list byte) (acc : N), fold_left (fun a0 b0 => (a0 * 256 + bN b0)%N) l acc =
             (acc * 256 ^ N.of_nat (length l) + fold_left (fun a0 b0 => (a0 * 256 + bN b0)%N) l 0)%N).
    { clear. induction l as [|y l IHl]; intro acc; cbn [fold_left length].
      - cbn. lia.
      - rewrite IHl. rewrite (IHl (0 * 256 + bN y)%N). rewrite Nat2N.inj_succ, N.pow_succ_r by lia. lia. }
    rewrite (Hb b (0 * 256 + bN x)%N). lia.
Qed.

Lemma N_to_be_length w : forall v, length (N_to_be w v) = w.
Proof. induction w as [|w IH]; intro v; cbn [N_to_be]; [reflexivity|]. rewrite app_length, IH. cbn. lia. Qed.

Lemma be_N_to_be w : forall v, (v < 256 ^ N.of_nat w)%N -> be_N (N_to_be w v) = v.
Proof.
  induction w as [|w IH]; intros v Hv.
  - cbn in *. lia.
  - cbn [N_to_be]. rewrite be_N_app. cbn [length]. rewrite Nat2N.inj_succ, N.pow_succ_r in Hv by lia.
    rewrite IH by (apply N.div_lt_upper_bound; lia).
    unfold be_N at 1. cbn [fold_left]. unfold bN. rewrite byte_of_to_N by (apply N.mod_lt; lia).
    change (256 ^ N.of_nat 1)%N with 256%N.
    rewrite (N.div_mod v 256) at 3 by lia. lia.
Qed.

Lemma bN_lt b : (bN b < 256)%N.
Proof. unfold bN. pose proof (Byte.to_N_bounded b) as H. lia. Qed.

(* ---- bits: the shift/mask forms of netip.Prefix.Contains against "same leading bits" ---- *)
Lemma shiftr_lxor_zero_iff (w bits a b : N) :
  (bits <= w)%N -> (a < 2 ^ w)%N -> (b < 2 ^ w)%N ->
  (N.shiftr (N.lxor a b) (w - bits) = 0%N <-> same_top_bits w bits a b).
Proof.
  intros Hb Ha Hbb. unfold same_top_bits. split.
  - intros H i Hi.
    assert (Hx : N.testbit (N.shiftr (N.lxor a b) (w - bits)) (i - (w - bits)) = false) by (rewrite H; apply N.bits_0).
    rewrite N.shiftr_spec in Hx by lia. replace (i - (w - bits) + (w - bits))%N with i in Hx by lia.
    rewrite N.lxor_spec in Hx. destruct (N.testbit a i), (N.testbit b i); cbn in Hx; congruence.
  - intro H. apply N.bits_inj_0. intro n. rewrite N.shiftr_spec by lia. rewrite N.lxor_spec.
    destruct (N.lt_ge_cases (n + (w - bits)) w) as [Hlt|Hge].
    + rewrite (H (n + (w - bits))%N) by lia. apply xorb_nilpotent.
    + assert (Hta : N.testbit a (n + (w - bits)) = false).
      { destruct (N.eq_dec a 0) as [->|Hnz]; [apply N.bits_0|]. apply N.bits_above_log2.
        apply N.log2_lt_pow2; [lia|]. eapply N.lt_le_trans; [exact Ha|]. apply N.pow_le_mono_r; lia. }
      assert (Htb : N.testbit b (n + (w - bits)) = false).
      { destruct (N.eq_dec b 0) as [->|Hnz]; [apply N.bits_0|]. apply N.bits_above_log2.
        apply N.log2_lt_pow2; [lia|]. eapply N.lt_le_trans; [exact Hbb|]. apply N.pow_le_mono_r; lia. }
      rewrite Hta, Htb. reflexivity.
Qed.

Lemma land_mask_zero_iff (w bits x : N) :
  (bits <= w)%N -> (x < 2 ^ w)%N ->
  (N.land x (N.shiftl (N.ones bits) (w - bits)) = 0%N <-> N.shiftr x (w - bits) = 0%N).
Proof.
  intros Hb Hx. split; intro H; apply N.bits_inj_0; intro n.
  - rewrite N.shiftr_spec by lia.
    destruct (N.lt_ge_cases (n + (w - bits)) w) as [Hlt|Hge].
    + assert (Hy : N.testbit (N.land x (N.shiftl (N.ones bits) (w - bits))) (n + (w - bits)) = false) by (rewrite H; apply N.bits_0).
      rewrite N.land_spec in Hy. rewrite N.shiftl_spec_high in Hy by lia.
      replace (n + (w - bits) - (w - bits))%N with n in Hy by lia.
      rewrite N.ones_spec_low in Hy by lia. rewrite andb_true_r in Hy. exact Hy.
    + destruct (N.eq_dec x 0) as [->|Hnz]; [apply N.bits_0|]. apply N.bits_above_log2.
      apply N.log2_lt_pow2; [lia|]. eapply N.lt_le_trans; [exact Hx|]. apply N.pow_le_mono_r; lia.
  - rewrite N.land_spec.
    destruct (N.lt_ge_cases n (w - bits)) as [Hlo|Hhi].
    + rewrite N.shiftl_spec_low by lia. apply andb_false_r.
    + assert (Hy : N.testbit (N.shiftr x (w - bits)) (n - (w - bits)) = false) by (rewrite H; apply N.bits_0).
      rewrite N.shiftr_spec in Hy by lia. replace (n - (w - bits) + (w - bits))%N with n in Hy by lia.
      rewrite Hy. reflexivity.
Qed.

Lemma testbit_high (w a n : N) : (a < 2 ^ w)%N -> (w <= n)%N -> N.testbit a n = false.
Proof.
  intros Ha Hn. destruct (N.eq_dec a 0) as [->|Hnz]; [apply N.bits_0|]. apply N.bits_above_log2.
  apply N.log2_lt_pow2; [lia|]. eapply N.lt_le_trans; [exact Ha|]. apply N.pow_le_mono_r; lia.
Qed.

(* comparing the leading bits after shifting both operands (how a mask comparison reads) *)
Lemma shiftr_eq_iff (w bits a b : N) :
  (bits <= w)%N -> (a < 2 ^ w)%N -> (b < 2 ^ w)%N ->
  (N.shiftr a (w - bits) = N.shiftr b (w - bits) <-> same_top_bits w bits a b).
Proof.
  intros Hb Ha Hbb. unfold same_top_bits. split.
  - intros H i Hi.
    assert (Hx : N.testbit (N.shiftr a (w - bits)) (i - (w - bits)) = N.testbit (N.shiftr b (w - bits)) (i - (w - bits))) by (rewrite H; reflexivity).
    rewrite !N.shiftr_spec in Hx by lia. replace (i - (w - bits) + (w - bits))%N with i in Hx by lia. exact Hx.
  - intro H. apply N.bits_inj. intro n. rewrite !N.shiftr_spec by lia.
    destruct (N.lt_ge_cases (n + (w - bits)) w) as [Hlt|Hge].
    + apply H. lia.
    + rewrite (testbit_high w a) by assumption. rewrite (testbit_high w b) by assumption. reflexivity.
Qed.
