(* The OpenVPN matcher model (model/MatchOpenVpn.v) against the independent reference (model/OpenVpnRef.v):
   per mode,  match (provision rc) (encode msg) = Yes  <->  passes rc msg. *)
From Coq Require Import List NArith ZArith Bool Arith Lia.
From Coq.Strings Require Import Byte.
From L4.gen Require Import Consts.
From L4.model Require Import GoBase CodecOpenVpn MatchOpenVpn OpenVpnRef.
From L4.proofs Require Import GoBaseProofs CodecOpenVpnProofs MatchOpenVpnProofs.
Import ListNotations.

(* ---- header byte ---- *)
Definition hb_ok (o k : N) : bool :=
  (N.lor (k mod 256) (N.shiftl o op_shift mod 256) =? o * 8 + k)%N.
Lemma hb_all : forallb (fun o => forallb (fun k => hb_ok (N.of_nat o) (N.of_nat k)) (seq 0 8)) (seq 0 32) = true.
Proof. vm_compute. reflexivity. Qed.
Lemma hb_eq o k : (o < 32)%N -> (k < 8)%N -> N.lor (k mod 256) (N.shiftl o op_shift mod 256) = (o * 8 + k)%N.
Proof.
  intros Ho Hk. pose proof hb_all as H. rewrite forallb_forall in H.
  specialize (H (N.to_nat o)). rewrite forallb_forall in H.
  assert (Hin : In (N.to_nat o) (seq 0 32)) by (apply in_seq; lia).
  specialize (H Hin (N.to_nat k)). rewrite !N2Nat.id in H.
  assert (Hin2 : In (N.to_nat k) (seq 0 8)) by (apply in_seq; lia).
  apply N.eqb_eq. exact (H Hin2).
Qed.

Lemma hdr_byte_to_bytes o k : (o < 32)%N -> (k < 8)%N -> header_to_bytes {| opcode := o; keyid := k |} = [hdr_byte o k].
Proof. intros Ho Hk. unfold header_to_bytes, hdr_byte. cbn [opcode keyid]. rewrite hb_eq by assumption. reflexivity. Qed.

Lemma hdr_byte_parse o k : (o < 32)%N -> (k < 8)%N -> header_from_bytes [hdr_byte o k] = ROk {| opcode := o; keyid := k |}.
Proof.
  intros Ho Hk. rewrite <- hdr_byte_to_bytes by assumption. apply header_from_to. split; assumption.
Qed.

Lemma be_length w v : length (be w v) = w.
Proof. apply N_to_be_length. Qed.

Lemma u8_small n : (n < 256)%N -> u8 n = [byte_of n].
Proof. intro H. unfold u8. rewrite N.mod_small by exact H. reflexivity. Qed.

Lemma provision_wf rc : rcfg_wf rc -> cfg_wf (provision rc).
Proof.
  intros [Hg [Hs [Hd Hc]]]. unfold cfg_wf, provision. cbn [gk_auth gk_crypt server_key client_keys auth_digest].
  change sz_key with 256%nat. change sz_key_half with 128%nat.
  repeat split.
  - destruct (group_key rc); cbn; auto.
  - destruct (group_key rc); cbn; auto.
  - destruct (srv_key rc); cbn; auto.
  - apply Forall_forall. intros ck Hin. apply in_map_iff in Hin. destruct Hin as [x [E Hx]]. subst ck. cbn.
    rewrite Forall_forall in Hc. exact (Hc x Hx).
  - exact Hd.
Qed.

Definition wire (tcp : bool) (w : list byte) : list byte := if tcp then tcp_frame w else w.

Section RefProofs.
  Variable hmac : nat -> list byte -> list byte -> list byte.
  Variable ctr : list byte -> list byte -> list byte -> list byte.
  Variable now : Z.
  Notation omatch := (ovpn_match hmac ctr now).

  Lemma ts_valid_iff ts : ts_valid now ts = true <-> ts_ok now ts.
  Proof.
    unfold ts_valid, ts_ok. change l4openvpn_TimestampValidationInterval with 15000000000%Z. cbv zeta.
    rewrite andb_true_iff, !Z.ltb_lt. tauto.
  Qed.

  (* ---- framing, both transports, for a packet "header byte :: body" ---- *)
  Lemma framed_v2 c ld tcp kid body : (kid < 8)%N -> (1 <= length body)%nat -> (N.of_nat (length body) < 65535)%N ->
    fst (omatch c ld tcp (wire tcp (hdr_byte 7 kid :: body))) =
      if (0 <? kid)%N then No else
      if acc_plain c || acc_auth c || acc_crypt c then
        (if (length body <? 13)%nat || (85 <? length body)%nat then No else fst (try_v2 hmac ctr now c ld body {| opcode := 7; keyid := kid |}))
      else No.
  Proof.
    intros Hk Hb1 Hb2. pose proof (hdr_byte_parse 7 kid ltac:(lia) Hk) as Hh. destruct tcp; unfold wire.
    - unfold tcp_frame. change (hdr_byte 7 kid :: body) with ([hdr_byte 7 kid] ++ body).
      assert (Hbe : be_N (be 2 (N.of_nat (length ([hdr_byte 7 kid] ++ body)))) = N.of_nat (1 + length body)).
      { unfold be. rewrite be_N_N_to_be; [cbn [length app]; lia|]. cbn [length app]. change (256 ^ N.of_nat 2)%N with 65536%N. lia. }
      rewrite (ovpn_tcp_framed hmac ctr now c ld _ [hdr_byte 7 kid] body {| opcode := 7; keyid := kid |} (be_length _ _) eq_refl Hbe Hh).
      cbv zeta. cbn [keyid opcode]. sizes. change (7 =? op_v2)%N with true. cbn [andb].
      destruct (0 <? kid)%N.
      + destruct (_ || _); reflexivity.
      + destruct (acc_plain c || acc_auth c || acc_crypt c).
        * destruct (Nat.ltb_spec (1 + length body) 14) as [A|A]; destruct (Nat.ltb_spec 1078 (1 + length body)) as [B|B];
            destruct (Nat.ltb_spec (length body) 13) as [C|C]; destruct (Nat.ltb_spec 85 (length body)) as [D|D];
            destruct (Nat.ltb_spec 86 (1 + length body)) as [E|E]; cbn [orb fst]; try reflexivity; try lia.
        * change (7 =? op_v3)%N with false. cbn [andb]. destruct (_ || _); reflexivity.
    - change (hdr_byte 7 kid :: body) with ([hdr_byte 7 kid] ++ body).
      rewrite (ovpn_udp_framed hmac ctr now c ld [hdr_byte 7 kid] body {| opcode := 7; keyid := kid |} eq_refl Hh Hb1).
      cbn [keyid opcode]. sizes. change (7 =? op_v2)%N with true. change (7 =? op_v3)%N with false. cbn [andb].
      destruct (0 <? kid)%N; [reflexivity|]. destruct (acc_plain c || acc_auth c || acc_crypt c); [|reflexivity].
      destruct (_ || _); reflexivity.
  Qed.

  (* ================= plain ================= *)
  Lemma plain_body_parse r : reset_fits r ->
    plain_from_headless (be 8 (r_sid r) ++ [byte_of (r_ack r)] ++ be 4 (r_pid r)) {| opcode := 7; keyid := r_keyid r |} =
      ROk {| p_hdr := {| opcode := 7; keyid := r_keyid r |}; p_sid := r_sid r; p_prev := r_ack r; p_pid := r_pid r |}.
  Proof.
    intros [Hk [Hs [Ha Hp]]].
    pose proof (plain_headless_from_to {| p_hdr := {| opcode := 7; keyid := r_keyid r |}; p_sid := r_sid r; p_prev := r_ack r; p_pid := r_pid r |}) as H.
    cbn [p_hdr p_sid p_prev p_pid] in H. rewrite u8_small in H by exact Ha. apply H.
    repeat split; cbn; try assumption; lia.
  Qed.

  Theorem plain_match_iff_ref rc ld tcp r : rcfg_wf rc -> ld_ok ld -> reset_fits r ->
    (fst (omatch (provision rc) ld tcp (wire tcp (encode (Plain r)))) = Yes <-> passes hmac ctr now rc (Plain r)).
  Proof.
    intros Hrc Hld Hf. pose proof Hf as [Hk [Hs [Ha Hp]]]. cbn [encode passes].
    set (body := be 8 (r_sid r) ++ [byte_of (r_ack r)] ++ be 4 (r_pid r)).
    assert (Hlen : length body = 13%nat) by (unfold body; rewrite !app_length, !be_length; reflexivity).
    rewrite framed_v2 by (try assumption; rewrite ?Hlen; lia). rewrite Hlen. cbn [Nat.ltb Nat.leb orb].
    destruct (N.ltb_spec 0 (r_keyid r)) as [K|K]; [split; [discriminate|intros [_ [E _]]; lia]|].
    assert (K0 : r_keyid r = 0%N) by lia.
    destruct (acc_plain (provision rc) || acc_auth (provision rc) || acc_crypt (provision rc)) eqn:Em.
    2:{ split; [discriminate|]. intros [E _]. cbn [provision acc_plain] in Em. rewrite E in Em. discriminate. }
    rewrite (try_v2_iff hmac ctr now _ ld body _ (provision_wf rc Hrc) Hld).
    rewrite auth_headless_rejects by (left; lia). rewrite crypt_headless_rejects by lia.
    unfold body. rewrite plain_body_parse by exact Hf.
    cbn [provision acc_plain]. split.
    - intros [[E [m [Em1 Em2]]]|[[_ [m [Em1 _]]]|[_ [m [Em1 _]]]]]; try discriminate.
      inversion Em1; subst m; clear Em1. cbn [p_sid p_prev p_pid] in Em2. unfold plain_match in Em2.
      apply andb_true_iff in Em2. destruct Em2 as [Em2 E3]. apply andb_true_iff in Em2. destruct Em2 as [E1 E2].
      apply N.ltb_lt in E1. apply N.eqb_eq in E2. apply N.eqb_eq in E3. auto.
    - intros [E [_ [E1 [E2 E3]]]]. left. split; [exact E|]. eexists. split; [reflexivity|]. cbn [p_sid p_prev p_pid].
      unfold plain_match. rewrite E2, E3. cbn [N.eqb andb]. rewrite andb_true_r, andb_true_r. apply N.ltb_lt. exact E1.
  Qed.

  (* ================= tls-auth ================= *)
  Definition auth_of (r : reset) (rp : replay) (tag : list byte) : auth :=
    {| a_hdr := {| opcode := 7; keyid := r_keyid r |}; a_sid := r_sid r; a_hmac := tag; a_rpid := rp_id rp; a_rts := rp_ts rp;
       a_prev := r_ack r; a_pid := r_pid r |}.
  Definition auth_body (r : reset) (rp : replay) (tag : list byte) : list byte :=
    be 8 (r_sid r) ++ tag ++ be 4 (rp_id rp) ++ be 4 (rp_ts rp) ++ [byte_of (r_ack r)] ++ be 4 (r_pid r).

  Lemma auth_body_length r rp tag : length (auth_body r rp tag) = (21 + length tag)%nat.
  Proof. unfold auth_body. rewrite !app_length, !be_length. cbn [length]. lia. Qed.

  Lemma auth_body_parse r rp tag : reset_fits r -> replay_fits rp -> size_ok (length tag) = true ->
    auth_from_headless (auth_body r rp tag) {| opcode := 7; keyid := r_keyid r |} = ROk (auth_of r rp tag).
  Proof.
    intros [Hk [Hs [Ha Hp]]] [Hi Ht] Hz. pose proof (auth_headless_from_to (auth_of r rp tag)) as H.
    cbn [auth_of a_hdr a_sid a_hmac a_rpid a_rts a_prev a_pid] in H. rewrite u8_small in H by exact Ha. apply H.
    unfold auth_wf, header_wf. cbn. repeat split; try assumption; lia.
  Qed.

  Lemma auth_body_no_parse r rp tag m : size_ok (length tag) = false ->
    auth_from_headless (auth_body r rp tag) {| opcode := 7; keyid := r_keyid r |} <> ROk m.
  Proof.
    intros Hz H. apply auth_headless_ok_length in H. destruct H as [_ [H _]]. rewrite auth_body_length in H.
    replace (21 + length tag - 21)%nat with (length tag) in H by lia. congruence.
  Qed.

  Lemma auth_text_eq r rp tag : reset_fits r -> auth_to_bytes_auth (auth_of r rp tag) = auth_text r rp.
  Proof.
    intros [Hk [Hs [Ha Hp]]]. unfold auth_to_bytes_auth, auth_text, auth_of. cbn [a_hdr a_sid a_hmac a_rpid a_rts a_prev a_pid].
    rewrite hdr_byte_to_bytes by (try assumption; lia). rewrite u8_small by exact Ha. reflexivity.
  Qed.

  (* key selection of the module against the documented quarters *)
  Definition dir_key (k : list byte) (d : direction) : skey :=
    {| k_bidi := match d with DBidi => true | _ => false end; k_inverse := match d with DInverse => true | _ => false end; k_bytes := k |}.

  Lemma quarter_doc sk q : length (k_bytes sk) = 256%nat -> (q < 4)%nat -> quarter sk q = Some (sub (k_bytes sk) (q * 64) 64).
  Proof.
    intros Hl Hq. unfold quarter. change sz_key with 256%nat. change sz_key_half with 128%nat. change sz_key_quarter with 64%nat.
    rewrite Hl. rewrite (Nat.mod_small q 4) by exact Hq. cbn [Nat.ltb Nat.leb].
    rewrite slice_ok by lia. unfold sl, sub. f_equal. f_equal. lia.
  Qed.

  Lemma key_of_doc k a size : (a + 64 <= length k)%nat -> key_of (Some (sub k a 64)) size = Some (sub k a (Nat.min size 64)).
  Proof.
    intro H. unfold key_of. change sz_key_quarter with 64%nat.
    assert (Hl : length (sub k a 64) = 64%nat) by (unfold sub; rewrite firstn_length, skipn_length; lia).
    rewrite slice_ok by lia. unfold sl, sub. cbn [skipn]. rewrite Nat.sub_0_r. rewrite firstn_firstn. f_equal. f_equal. lia.
  Qed.

  Lemma client_auth_key_doc k d size : length k = 256%nat -> client_auth_key (dir_key k d) size = Some (auth_key k d size).
  Proof.
    intro Hl. unfold client_auth_key, auth_key, dir_key. cbn [k_inverse k_bidi].
    destruct d; cbn [orb]; rewrite quarter_doc by (cbn [k_bytes]; try exact Hl; lia); cbn [k_bytes Nat.mul Nat.add];
      rewrite key_of_doc by lia; reflexivity.
  Qed.

  Lemma bytes_eqb_true_iff a b : bytes_eqb a b = true <-> b = a.
  Proof. rewrite bytes_eqb_eq. split; congruence. Qed.

  Lemma good_server_iff k d text tag w : length k = 256%nat ->
    good (fun x => validate_on_server hmac x (dir_key k d) text tag) (length tag) w = true <->
    length tag = digest_size w /\ tag = hmac w (auth_key k d (digest_size w)) text.
  Proof.
    intro Hl. unfold good, validate_on_server. rewrite client_auth_key_doc by exact Hl.
    rewrite andb_true_iff, Nat.eqb_eq.
    destruct (bytes_eqb (hmac w (auth_key k d (digest_size w)) text) tag) eqn:E.
    - apply bytes_eqb_true_iff in E. tauto.
    - split; [intros [_ F]; discriminate|]. intros [_ F]. apply bytes_eqb_true_iff in F. congruence.
  Qed.

  Lemma existsb_seq_iff f n : existsb f (seq 0 n) = true <-> exists d, (d < n)%nat /\ f d = true.
  Proof.
    rewrite existsb_exists. split; intros [d [H1 H2]]; exists d; split; try assumption; apply in_seq in H1 || apply in_seq; lia.
  Qed.

  Lemma auth_match_iff rc ld r rp tag : rcfg_wf rc -> ld_ok ld -> reset_fits r -> (16 <= length tag)%nat ->
    (fst (auth_match hmac now (provision rc) ld (auth_of r rp tag)) = BTrue <->
       (0 < r_sid r)%N /\ r_ack r = 0%N /\ r_pid r = 0%N /\ rp_id rp = 1%N /\ (no_ts rc = true \/ ts_ok now (rp_ts rp)) /\
       match want_digest rc with Some w => digest_size w = length tag | None => True end /\
       (no_crypto rc = true \/ match group_key rc with None => True | Some k => auth_tag_ok hmac rc k r rp tag end)).
  Proof.
    intros Hrc Hld Hf Htag. pose proof Hrc as [Hg [_ [Hd _]]].
    unfold auth_match. cbn [auth_of a_sid a_prev a_pid a_rpid a_rts a_hmac provision ign_ts ign_crypto auth_digest gk_auth].
    set (C := plain_match (r_sid r) (r_ack r) (r_pid r) && (rp_id rp =? 1)%N && (no_ts rc || ts_valid now (rp_ts rp)) &&
              match want_digest rc with Some d => (digest_size d =? length tag)%nat | None => true end).
    assert (HC : C = true <-> (0 < r_sid r)%N /\ r_ack r = 0%N /\ r_pid r = 0%N /\ rp_id rp = 1%N /\ (no_ts rc = true \/ ts_ok now (rp_ts rp)) /\
                              match want_digest rc with Some w => digest_size w = length tag | None => True end).
    { unfold C, plain_match. rewrite !andb_true_iff, orb_true_iff, N.ltb_lt, !N.eqb_eq, ts_valid_iff.
      destruct (want_digest rc); [rewrite Nat.eqb_eq|]; tauto. }
    destruct C.
    2:{ cbn [fst]. split; [discriminate|]. intros [A [B [D [E [F [G _]]]]]]. assert (false = true) by (apply HC; tauto). discriminate. }
    assert (HC' : (0 < r_sid r)%N /\ r_ack r = 0%N /\ r_pid r = 0%N /\ rp_id rp = 1%N /\ (no_ts rc = true \/ ts_ok now (rp_ts rp)) /\
                  match want_digest rc with Some w => digest_size w = length tag | None => True end) by (apply HC; reflexivity).
    destruct (no_crypto rc) eqn:Enc; [cbn [fst]; split; [tauto|reflexivity]|].
    destruct (group_key rc) as [k|] eqn:Egk; cbn [option_map]; [|cbn [fst]; split; [tauto|reflexivity]].
    fold (dir_key k (gk_dir rc)).
    rewrite authenticate_spec; [|apply validate_server_no_panic; left; exact Hg|exact Hld].
    replace (length tag =? 0)%nat with false by (symmetry; apply Nat.eqb_neq; lia).
    cbn [k_bytes dir_key]. change sz_key with 256%nat. rewrite Hg, Nat.eqb_refl. cbn [negb].
    rewrite (auth_text_eq r rp tag Hf).
    split.
    - intro H. repeat split; try tauto. right. unfold auth_tag_ok.
      destruct (want_digest rc) as [w|] eqn:Ew.
      + destruct (good _ _ w) eqn:Eg; [|discriminate]. apply good_server_iff in Eg; [|exact Hg]. exists w. tauto.
      + destruct (existsb _ _) eqn:Ee; [|discriminate]. apply existsb_seq_iff in Ee. destruct Ee as [d [Hdl Eg]].
        apply good_server_iff in Eg; [|exact Hg]. exists d. tauto.
    - intros [_ [_ [_ [_ [_ [_ [F|F]]]]]]]; [discriminate|]. destruct F as [d [Hdl [Hw [Hs Ht]]]].
      destruct (want_digest rc) as [w|] eqn:Ew.
      + subst d. replace (good _ _ w) with true; [reflexivity|]. symmetry. apply good_server_iff; [exact Hg|tauto].
      + replace (existsb _ _) with true; [reflexivity|]. symmetry. apply existsb_seq_iff. exists d. split; [exact Hdl|].
        apply good_server_iff; [exact Hg|tauto].
  Qed.

  Theorem auth_match_iff_ref rc ld tcp r rp tag : rcfg_wf rc -> ld_ok ld -> reset_fits r -> replay_fits rp ->
    (N.of_nat (length tag) < 60000)%N ->
    (m_crypt rc = false \/ length tag <> 32%nat) ->
    (fst (omatch (provision rc) ld tcp (wire tcp (encode (TlsAuth r rp tag)))) = Yes <-> passes hmac ctr now rc (TlsAuth r rp tag)).
  Proof.
    intros Hrc Hld Hf Hfp Hlen Hx. pose proof Hf as [Hk _]. cbn [encode passes]. fold (auth_body r rp tag).
    pose proof (auth_body_length r rp tag) as Hbl.
    rewrite framed_v2 by (try assumption; rewrite ?Hbl; lia).
    destruct (N.ltb_spec 0 (r_keyid r)) as [K|K]; [split; [discriminate|intros [_ [E _]]; lia]|].
    assert (K0 : r_keyid r = 0%N) by lia.
    destruct (acc_plain (provision rc) || acc_auth (provision rc) || acc_crypt (provision rc)) eqn:Em.
    2:{ split; [discriminate|]. intros [E _]. cbn [provision acc_plain acc_auth] in Em. rewrite E in Em. rewrite orb_true_r in Em. discriminate. }
    destruct (size_ok (length tag)) eqn:Ez.
    - pose proof (size_ok_bounds _ Ez) as Hb.
      replace ((length (auth_body r rp tag) <? 13)%nat || (85 <? length (auth_body r rp tag))%nat) with false
        by (symmetry; apply orb_false_iff; split; apply Nat.ltb_ge; lia).
      rewrite (try_v2_iff hmac ctr now _ ld _ _ (provision_wf rc Hrc) Hld).
      rewrite plain_headless_rejects by lia. rewrite auth_body_parse by assumption.
      cbn [provision acc_plain acc_auth acc_crypt].
      split.
      + intros [[_ [m [E _]]]|[[E [m [Em1 Em2]]]|[E [m [Em1 _]]]]]; try discriminate.
        * inversion Em1; subst m; clear Em1. apply auth_match_iff in Em2; try assumption; [|lia]. tauto.
        * exfalso. destruct Hx as [Hx|Hx]; [congruence|]. rewrite crypt_headless_rejects in Em1 by lia. discriminate.
      + intros [E H]. right. left. split; [exact E|]. eexists. split; [reflexivity|]. apply auth_match_iff; try assumption; [lia|tauto].
    - split; [|intros [_ [_ [_ [_ [_ [F _]]]]]]; discriminate].
      destruct ((length (auth_body r rp tag) <? 13)%nat || (85 <? length (auth_body r rp tag))%nat); [intro; discriminate|].
      rewrite (try_v2_iff hmac ctr now _ ld _ _ (provision_wf rc Hrc) Hld).
      intros [[_ [m [E _]]]|[[_ [m [E _]]]|[_ [m [E _]]]]].
      + rewrite plain_headless_rejects in E by lia. discriminate.
      + exfalso. exact (auth_body_no_parse r rp tag m Ez E).
      + destruct (Nat.eq_dec (length tag) 32) as [L|L]; [rewrite L in Ez; vm_compute in Ez; discriminate|].
        rewrite crypt_headless_rejects in E by lia. discriminate.
  Qed.

  (* every tls-auth reset that passes is matched, whatever else is enabled *)
  Theorem auth_complete rc ld tcp r rp tag : rcfg_wf rc -> ld_ok ld -> reset_fits r -> replay_fits rp ->
    passes hmac ctr now rc (TlsAuth r rp tag) ->
    fst (omatch (provision rc) ld tcp (wire tcp (encode (TlsAuth r rp tag)))) = Yes.
  Proof.
    intros Hrc Hld Hf Hfp H. pose proof Hf as [Hk _]. pose proof H as [Em [K0 [_ [_ [_ [Ez _]]]]]].
    pose proof (size_ok_bounds _ Ez) as Hb. cbn [encode]. fold (auth_body r rp tag).
    pose proof (auth_body_length r rp tag) as Hbl.
    rewrite framed_v2 by (try assumption; rewrite ?Hbl; lia). replace (0 <? r_keyid r)%N with false by (rewrite K0; reflexivity).
    cbn [provision acc_plain acc_auth acc_crypt]. rewrite Em, orb_true_r. cbn [orb].
    replace ((length (auth_body r rp tag) <? 13)%nat || (85 <? length (auth_body r rp tag))%nat) with false
      by (symmetry; apply orb_false_iff; split; apply Nat.ltb_ge; lia).
    apply (try_v2_iff hmac ctr now _ ld _ _ (provision_wf rc Hrc) Hld). right. left. cbn [provision acc_auth]. split; [exact Em|].
    exists (auth_of r rp tag). split; [apply auth_body_parse; assumption|]. apply auth_match_iff; try assumption; [lia|]. cbn [passes] in H. tauto.
  Qed.

  (* an honest tls-auth client holding the configured key, using digest d and a key direction that pairs with the server's *)
  Theorem honest_auth_matches rc ld tcp k cd d r rp :
    (forall key text, length (hmac d key text) = digest_size d) ->
    rcfg_wf rc -> ld_ok ld -> group_key rc = Some k -> m_auth rc = true -> (d < length auth_digests)%nat ->
    match want_digest rc with Some w => w = d | None => True end ->
    (* the client's "key-direction 1" pairs with the server's 0 (normal); 0 with 1 (inverse); none with none (bidi) *)
    match gk_dir rc, cd with DNormal, DNormal => True | DNormal, _ => False | _, DNormal => False | _, _ => True end ->
    reset_fits r -> replay_fits rp -> r_keyid r = 0%N -> (0 < r_sid r)%N -> r_ack r = 0%N -> r_pid r = 0%N ->
    rp_id rp = 1%N -> (no_ts rc = true \/ ts_ok now (rp_ts rp)) ->
    fst (omatch (provision rc) ld tcp (wire tcp (encode (honest_auth hmac k cd d r rp)))) = Yes.
  Proof.
    intros Hhl Hrc Hld Hgk Hm Hd Hw Hdir Hf Hfp K0 Hs Ha Hp Hid Hts. unfold honest_auth.
    assert (Hz : size_ok (digest_size d) = true).
    { clear - Hd. unfold auth_digests in Hd. cbn [length] in Hd.
      do 18 (destruct d as [|d]; [vm_compute; reflexivity|]). lia. }
    apply auth_complete; try assumption. cbn [passes]. rewrite Hhl.
    repeat split; try assumption.
    - destruct (want_digest rc); [subst; reflexivity|exact I].
    - right. rewrite Hgk. exists d. repeat split; try assumption.
      + destruct (want_digest rc); [symmetry; exact Hw|exact I].
      + apply Hhl.
      + f_equal. unfold auth_key. destruct (gk_dir rc); destruct cd; try contradiction; reflexivity.
  Qed.

  (* ================= tls-crypt ================= *)
  Definition crypt_of (op kid sid : N) (rp : replay) (tag enc : list byte) : crypt :=
    {| c_hdr := {| opcode := op; keyid := kid |}; c_sid := sid; c_rpid := rp_id rp; c_rts := rp_ts rp; c_hmac := tag; c_enc := enc;
       c_prev := 0; c_pid := 0 |}.
  Definition crypt_body (sid : N) (rp : replay) (tag enc : list byte) : list byte :=
    be 8 sid ++ be 4 (rp_id rp) ++ be 4 (rp_ts rp) ++ tag ++ enc.
  Definition plain_key (k : list byte) : skey := {| k_bidi := false; k_inverse := false; k_bytes := k |}.
  Definition zeros5 : list byte := repeat x00 5.

  Lemma crypt_body_parse op kid sid rp tag enc : (op < 32)%N -> (kid < 8)%N -> (sid < 2 ^ 64)%N -> replay_fits rp ->
    length tag = 32%nat -> length enc = 5%nat ->
    crypt_from_headless (crypt_body sid rp tag enc) {| opcode := op; keyid := kid |} = ROk (crypt_of op kid sid rp tag enc).
  Proof.
    intros Ho Hk Hs [Hi Ht] Hlt Hle. pose proof (crypt_headless_from_to (crypt_of op kid sid rp tag enc)) as H.
    cbn [crypt_of c_hdr c_sid c_rpid c_rts c_hmac c_enc] in H. apply H.
    unfold crypt_wf, header_wf. cbn. sizes. repeat split; try assumption; lia.
  Qed.

  Lemma server_decrypt_key_doc k : length k = 256%nat -> server_decrypt_key (plain_key k) cipher_key = Some (sub k 128 32).
  Proof.
    intro Hl. unfold server_decrypt_key, client_encrypt_key, plain_key. cbn [k_inverse].
    rewrite quarter_doc by (cbn [k_bytes]; try exact Hl; lia). cbn [k_bytes Nat.mul Nat.add]. rewrite key_of_doc by lia. reflexivity.
  Qed.

  Lemma client_auth_key_plain k size : length k = 256%nat -> client_auth_key (plain_key k) size = Some (sub k 192 (Nat.min size 64)).
  Proof. intro Hl. exact (client_auth_key_doc k DNormal size Hl). Qed.

  Lemma zero_tail (pl : list byte) : length pl = 5%nat -> bN (nth 0 pl x00) = 0%N -> be_N (sl pl 1 5) = 0%N -> pl = zeros5.
  Proof.
    intros Hl Hb Ht.
    assert (E1 : nth 0 pl x00 = x00) by (rewrite <- (byte_of_bN (nth 0 pl x00)), Hb; reflexivity).
    assert (E2 : sl pl 1 5 = repeat x00 4).
    { rewrite <- (N_to_be_be_N 4 (sl pl 1 5)) by (rewrite sl_length; lia). rewrite Ht. reflexivity. }
    destruct (index_ok pl 0) as [_ E0]; [lia|].
    rewrite <- (sl_full pl), Hl. rewrite <- (sl_cat pl 0 1 5) by lia. rewrite <- E0, E1, E2. reflexivity.
  Qed.

  Definition crypt_text_of (m : crypt) : list byte :=
    crypt_to_bytes_auth {| c_hdr := c_hdr m; c_sid := c_sid m; c_rpid := c_rpid m; c_rts := c_rts m; c_hmac := c_hmac m; c_enc := c_enc m;
                           c_prev := 0; c_pid := 0 |}.

  (* DecryptAndAuthenticate followed by the test of the decrypted fields, in terms of the documented key quarters *)
  Lemma crypt_decrypt_auth_iff k m : length k = 256%nat -> length (c_hmac m) = 32%nat -> length (c_enc m) = 5%nat ->
    (crypt_decrypt_auth hmac ctr m (plain_key k) = BTrue <->
       ctr (sub k 128 32) (firstn 16 (c_hmac m)) (c_enc m) = zeros5 /\
       exists d, (d < length auth_digests)%nat /\ digest_size d = 32%nat /\ c_hmac m = hmac d (sub k 192 32) (crypt_text_of m)).
  Proof.
    intros Hk Hh He. unfold crypt_decrypt_auth. sizes. change (Nat.min cipher_block 32) with 16%nat.
    rewrite He, Hh. cbn [Nat.eqb Nat.add negb]. rewrite server_decrypt_key_doc by exact Hk.
    rewrite slice_ok by lia. change (sl (c_hmac m) 0 16) with (firstn 16 (c_hmac m)).
    set (pl := ctr (sub k 128 32) (firstn 16 (c_hmac m)) (c_enc m)).
    unfold crypt_from_bytes_crypt. rewrite He. sizes.
    destruct (Nat.eqb_spec (length pl) 5) as [Hp|Hp]; cbn [negb].
    2:{ split; [discriminate|]. intros [E _]. rewrite E in Hp. cbn in Hp. lia. }
    destruct (index_ok pl 0) as [Ei _]; [lia|]. rewrite Ei. rewrite Hp. rewrite slice_ok by lia.
    set (m' := {| c_hdr := c_hdr m; c_sid := c_sid m; c_rpid := c_rpid m; c_rts := c_rts m; c_hmac := c_hmac m; c_enc := c_enc m;
                  c_prev := bN (nth 0 pl x00); c_pid := be_N (sl pl 1 5) |}).
    cbn [c_prev c_pid c_hmac].
    rewrite authenticate_spec; [|apply validate_server_no_panic; left; exact Hk|unfold ld_ok, digest_default, auth_digests; cbn [length]; lia].
    change (c_hmac m') with (c_hmac m). change (c_prev m') with (bN (nth 0 pl x00)). change (c_pid m') with (be_N (sl pl 1 5)).
    rewrite Hh. cbn [Nat.eqb]. cbn [plain_key k_bytes]. change sz_key with 256%nat. rewrite Hk, Nat.eqb_refl. cbn [negb].
    split.
    - intro H. destruct (existsb _ _) eqn:Ee; cbn [band] in H; [|discriminate].
      destruct ((bN (nth 0 pl x00) =? 0)%N && (be_N (sl pl 1 5) =? 0)%N) eqn:Ez; [|discriminate].
      apply andb_true_iff in Ez. destruct Ez as [Z1 Z2]. apply N.eqb_eq in Z1. apply N.eqb_eq in Z2.
      split; [exact (zero_tail pl Hp Z1 Z2)|].
      apply existsb_seq_iff in Ee. destruct Ee as [d [Hd Eg]].
      change (plain_key k) with (dir_key k DNormal) in Eg. rewrite <- Hh in Eg.
      apply good_server_iff in Eg; [|exact Hk]. destruct Eg as [G1 G2]. exists d. split; [exact Hd|]. split; [lia|].
      rewrite G2 at 1. unfold auth_key. rewrite <- G1, Hh. change (Nat.min 32 64) with 32%nat.
      f_equal. unfold crypt_text_of, m'. rewrite Z1, Z2. reflexivity.
    - intros [Epl [d [Hd [Hs Ht]]]].
      assert (Z1 : bN (nth 0 pl x00) = 0%N) by (rewrite Epl; reflexivity).
      assert (Z2 : be_N (sl pl 1 5) = 0%N) by (rewrite Epl; reflexivity).
      replace (existsb _ _) with true.
      + rewrite Z1, Z2. reflexivity.
      + symmetry. apply existsb_seq_iff. exists d. split; [exact Hd|].
        change (plain_key k) with (dir_key k DNormal). rewrite <- Hh.
        apply good_server_iff; [exact Hk|]. split; [lia|]. rewrite Ht at 1. unfold auth_key. rewrite Hs. change (Nat.min 32 64) with 32%nat.
        f_equal. unfold crypt_text_of, m'. rewrite Z1, Z2. reflexivity.
  Qed.

  Lemma crypt_text_eq op kid sid rp tag enc : (op < 32)%N -> (kid < 8)%N ->
    crypt_text_of (crypt_of op kid sid rp tag enc) = crypt_text op kid sid rp zeros5.
  Proof.
    intros Ho Hk. unfold crypt_text_of, crypt_to_bytes_auth, crypt_text, crypt_of. cbn [c_hdr c_sid c_rpid c_rts c_prev c_pid].
    rewrite hdr_byte_to_bytes by assumption. reflexivity.
  Qed.

  (* the tag is not the output of one of the other 32-byte digests of the module's table (tls-crypt fixes HMAC-SHA256; the
     module would accept those too: recorded finding C14:openvpn-crypt-foreign-digest:accepts-invalid) *)
  Definition sha256_only (tag : list byte) : Prop :=
    forall d key text, d <> sha256 -> digest_size d = 32%nat -> tag <> hmac d key text.

  Lemma crypt_match_iff rc kid sid rp tag enc : rcfg_wf rc -> (kid < 8)%N -> length tag = 32%nat -> length enc = 5%nat ->
    (crypt_match hmac ctr now (provision rc) (crypt_of 7 kid sid rp tag enc) = BTrue ->
       (0 < sid)%N /\ rp_id rp = 1%N /\ (no_ts rc = true \/ ts_ok now (rp_ts rp)) /\
       (no_crypto rc = true \/ match group_key rc with None => True | Some k =>
          ctr (sub k 128 32) (firstn 16 tag) enc = zeros5 /\
          exists d, (d < length auth_digests)%nat /\ digest_size d = 32%nat /\ tag = hmac d (sub k 192 32) (crypt_text 7 kid sid rp zeros5) end)) /\
    ((0 < sid)%N /\ rp_id rp = 1%N /\ (no_ts rc = true \/ ts_ok now (rp_ts rp)) /\
       (no_crypto rc = true \/ match group_key rc with None => True | Some k => crypt_ok hmac ctr k 7 kid sid rp tag enc end) ->
     crypt_match hmac ctr now (provision rc) (crypt_of 7 kid sid rp tag enc) = BTrue).
  Proof.
    intros Hrc Hk Hlt Hle. pose proof Hrc as [Hg _].
    unfold crypt_match. cbn [crypt_of c_sid c_rpid c_rts provision ign_ts ign_crypto gk_crypt].
    set (C := (0 <? sid)%N && (rp_id rp =? 1)%N && (no_ts rc || ts_valid now (rp_ts rp))).
    assert (HC : C = true <-> (0 < sid)%N /\ rp_id rp = 1%N /\ (no_ts rc = true \/ ts_ok now (rp_ts rp))).
    { unfold C. rewrite !andb_true_iff, orb_true_iff, N.ltb_lt, N.eqb_eq, ts_valid_iff. tauto. }
    fold (crypt_of 7 kid sid rp tag enc).
    destruct C.
    2:{ split; [discriminate|]. intros [A [B [D _]]]. assert (false = true) by (apply HC; tauto). discriminate. }
    assert (HC' : (0 < sid)%N /\ rp_id rp = 1%N /\ (no_ts rc = true \/ ts_ok now (rp_ts rp))) by (apply HC; reflexivity).
    destruct (no_crypto rc); [split; [tauto|reflexivity]|].
    destruct (group_key rc) as [k|]; cbn [option_map]; [|split; [tauto|reflexivity]].
    fold (plain_key k).
    pose proof (crypt_decrypt_auth_iff k (crypt_of 7 kid sid rp tag enc) Hg Hlt Hle) as HI.
    cbn [crypt_of c_hmac c_enc] in HI. fold (crypt_of 7 kid sid rp tag enc) in HI. rewrite crypt_text_eq in HI by (try assumption; lia).
    split.
    - intro H. apply HI in H. tauto.
    - intros [_ [_ [_ [F|[F1 F2]]]]]; [discriminate|]. apply HI. split; [exact F1|].
      exists sha256. split; [unfold sha256, auth_digests; cbn [length]; lia|]. split; [reflexivity|exact F2].
  Qed.

  (* every tls-crypt reset that passes is matched, whatever else is enabled *)
  Theorem crypt_complete rc ld tcp kid sid rp tag enc : rcfg_wf rc -> ld_ok ld -> fits (TlsCrypt kid sid rp tag enc) ->
    passes hmac ctr now rc (TlsCrypt kid sid rp tag enc) ->
    fst (omatch (provision rc) ld tcp (wire tcp (encode (TlsCrypt kid sid rp tag enc)))) = Yes.
  Proof.
    intros Hrc Hld [Hk [Hs [Hfp [Hlt Hle]]]] [Em [K0 H]]. cbn [encode]. fold (crypt_body sid rp tag enc).
    assert (Hbl : length (crypt_body sid rp tag enc) = 53%nat) by (unfold crypt_body; rewrite !app_length, !be_length, Hlt, Hle; reflexivity).
    rewrite framed_v2 by (try assumption; rewrite ?Hbl; lia). subst kid. cbn [N.ltb N.compare].
    cbn [provision acc_plain acc_auth acc_crypt]. rewrite Em, !orb_true_r. rewrite Hbl. cbn [Nat.ltb Nat.leb orb].
    apply (try_v2_iff hmac ctr now _ ld _ _ (provision_wf rc Hrc) Hld). right. right. cbn [provision acc_crypt]. split; [exact Em|].
    exists (crypt_of 7 0 sid rp tag enc). split; [apply crypt_body_parse; try assumption; lia|].
    apply (proj2 (crypt_match_iff rc 0 sid rp tag enc Hrc ltac:(lia) Hlt Hle)). exact H.
  Qed.

  (* and, when auth mode is not enabled (a 53-byte body also reads as a tls-auth packet with a 32-byte tag) and the tag is
     not the output of a foreign digest, nothing else is *)
  Theorem crypt_match_iff_ref_partial rc ld tcp kid sid rp tag enc : rcfg_wf rc -> ld_ok ld -> fits (TlsCrypt kid sid rp tag enc) ->
    m_auth rc = false -> sha256_only tag ->
    (fst (omatch (provision rc) ld tcp (wire tcp (encode (TlsCrypt kid sid rp tag enc)))) = Yes <->
     passes hmac ctr now rc (TlsCrypt kid sid rp tag enc)).
  Proof.
    intros Hrc Hld Hf Hna Hsha. split; [|apply crypt_complete; assumption].
    destruct Hf as [Hk [Hs [Hfp [Hlt Hle]]]]. cbn [encode passes]. fold (crypt_body sid rp tag enc).
    assert (Hbl : length (crypt_body sid rp tag enc) = 53%nat) by (unfold crypt_body; rewrite !app_length, !be_length, Hlt, Hle; reflexivity).
    rewrite framed_v2 by (try assumption; rewrite ?Hbl; lia).
    destruct (N.ltb_spec 0 kid) as [K|K]; [discriminate|]. assert (K0 : kid = 0%N) by lia.
    destruct (acc_plain (provision rc) || acc_auth (provision rc) || acc_crypt (provision rc)); [|discriminate].
    rewrite Hbl. cbn [Nat.ltb Nat.leb orb].
    rewrite (try_v2_iff hmac ctr now _ ld _ _ (provision_wf rc Hrc) Hld).
    cbn [provision acc_plain acc_auth acc_crypt]. rewrite Hna.
    intros [[_ [m [E _]]]|[[E _]|[E [m [Em1 Em2]]]]].
    - rewrite plain_headless_rejects in E by lia. discriminate.
    - discriminate.
    - rewrite crypt_body_parse in Em1 by (try assumption; lia). inversion Em1; subst m; clear Em1.
      apply (proj1 (crypt_match_iff rc kid sid rp tag enc Hrc Hk Hlt Hle)) in Em2. destruct Em2 as [A [B [D F]]].
      repeat split; try assumption. destruct F as [F|F]; [left; exact F|right].
      destruct (group_key rc) as [k|]; [|exact I]. destruct F as [F1 [d [Hd [Hz Ht]]]]. split; [exact F1|].
      destruct (Nat.eq_dec d sha256) as [Ed|Ed]; [subst d; exact Ht|]. exfalso. exact (Hsha d _ _ Ed Hz Ht).
  Qed.

  (* an honest client holding the configured key is matched (needs only that CTR decryption undoes encryption) *)
  Theorem honest_crypt_matches rc ld tcp k sid rp :
    (forall key iv x, ctr key iv (ctr key iv x) = x) ->
    (forall key text, length (hmac sha256 key text) = 32%nat) -> (forall key iv x, length (ctr key iv x) = length x) ->
    rcfg_wf rc -> ld_ok ld -> group_key rc = Some k -> m_crypt rc = true -> (0 < sid < 2 ^ 64)%N -> replay_fits rp ->
    rp_id rp = 1%N -> (no_ts rc = true \/ ts_ok now (rp_ts rp)) ->
    fst (omatch (provision rc) ld tcp (wire tcp (encode (honest_crypt hmac ctr k 0 sid rp 0 0)))) = Yes.
  Proof.
    intros Hinv Hhl Hcl Hrc Hld Hgk Hm Hs Hfp Hid Hts. unfold honest_crypt. cbv zeta.
    apply crypt_complete; try assumption.
    - pose proof Hfp as [Hf1 Hf2]. cbn [fits]. rewrite Hhl, Hcl. repeat split; first [assumption | lia | reflexivity].
    - cbn [passes]. repeat split; try assumption; try lia. right. rewrite Hgk. unfold crypt_ok. split.
      + rewrite Hinv. reflexivity.
      + reflexivity.
  Qed.

  (* ================= tls-crypt-v2 ================= *)
  Lemma framed_v3 c ld tcp kid body : (kid < 8)%N -> (1 <= length body)%nat -> (N.of_nat (length body) < 65535)%N ->
    fst (omatch c ld tcp (wire tcp (hdr_byte 10 kid :: body))) =
      if (0 <? kid)%N then No else
      if acc_crypt2 c then
        (if (length body <? 343)%nat || (1077 <? length body)%nat then No else fst (try_v3 hmac ctr now c ld body {| opcode := 10; keyid := kid |}))
      else No.
  Proof.
    intros Hk Hb1 Hb2. pose proof (hdr_byte_parse 10 kid ltac:(lia) Hk) as Hh. destruct tcp; unfold wire.
    - unfold tcp_frame. change (hdr_byte 10 kid :: body) with ([hdr_byte 10 kid] ++ body).
      assert (Hbe : be_N (be 2 (N.of_nat (length ([hdr_byte 10 kid] ++ body)))) = N.of_nat (1 + length body)).
      { unfold be. rewrite be_N_N_to_be; [cbn [length app]; lia|]. cbn [length app]. change (256 ^ N.of_nat 2)%N with 65536%N. lia. }
      rewrite (ovpn_tcp_framed hmac ctr now c ld _ [hdr_byte 10 kid] body {| opcode := 10; keyid := kid |} (be_length _ _) eq_refl Hbe Hh).
      cbv zeta. cbn [keyid opcode]. sizes. change (10 =? op_v2)%N with false. change (10 =? op_v3)%N with true. cbn [andb].
      destruct (0 <? kid)%N.
      + destruct (_ || _); reflexivity.
      + destruct (acc_crypt2 c).
        * destruct (Nat.ltb_spec (1 + length body) 14) as [A|A]; destruct (Nat.ltb_spec 1078 (1 + length body)) as [B|B];
            destruct (Nat.ltb_spec (length body) 343) as [C|C]; destruct (Nat.ltb_spec 1077 (length body)) as [D|D];
            destruct (Nat.ltb_spec (1 + length body) 344) as [E|E]; cbn [orb fst]; try reflexivity; try lia.
        * destruct (_ || _); reflexivity.
    - change (hdr_byte 10 kid :: body) with ([hdr_byte 10 kid] ++ body).
      rewrite (ovpn_udp_framed hmac ctr now c ld [hdr_byte 10 kid] body {| opcode := 10; keyid := kid |} eq_refl Hh Hb1).
      cbn [keyid opcode]. sizes. change (10 =? op_v2)%N with false. change (10 =? op_v3)%N with true. cbn [andb].
      destruct (0 <? kid)%N; [reflexivity|]. destruct (acc_crypt2 c); [|reflexivity]. destruct (_ || _); reflexivity.
  Qed.

  Definition crypt2_of (kid sid : N) (rp : replay) (tag enc wtag wenc : list byte) : crypt2 :=
    {| r_crypt := crypt_of 10 kid sid rp tag enc; r_wk := {| w_hmac := wtag; w_enc := wenc |} |}.
  Definition crypt2_body (sid : N) (rp : replay) (tag enc wtag wenc : list byte) : list byte :=
    crypt_body sid rp tag enc ++ wtag ++ wenc ++ be 2 (N.of_nat (length wtag + length wenc + 2)).

  Lemma crypt2_body_parse kid sid rp tag enc wtag wenc : (kid < 8)%N -> (sid < 2 ^ 64)%N -> replay_fits rp ->
    length tag = 32%nat -> length enc = 5%nat -> length wtag = 32%nat -> (256 <= length wenc)%nat -> (length wtag + length wenc + 2 <= 1024)%nat ->
    crypt2_from_headless (crypt2_body sid rp tag enc wtag wenc) {| opcode := 10; keyid := kid |} = ROk (crypt2_of kid sid rp tag enc wtag wenc).
  Proof.
    intros Hk Hs [Hi Ht] Hlt Hle Hwt Hwe Hmax.
    pose proof (crypt2_headless_from_to (crypt2_of kid sid rp tag enc wtag wenc)) as H.
    cbn [crypt2_of r_crypt r_wk crypt_of c_hdr c_sid c_rpid c_rts c_hmac c_enc] in H.
    unfold wkey_to_bytes in H. cbn [w_hmac w_enc] in H. sizes. rewrite N.mod_small in H by lia.
    unfold crypt2_body, crypt_body, be. rewrite <- !app_assoc in *. apply H.
    unfold crypt2_wf, crypt_wf, wkey_wf, header_wf. cbn. sizes. repeat split; try assumption; lia.
  Qed.

  (* key selectors on the 1024-bit server key *)
  Lemma quarter_doc128 sk q : length (k_bytes sk) = 128%nat -> (q < 2)%nat -> quarter sk q = Some (sub (k_bytes sk) (q * 64) 64).
  Proof.
    intros Hl Hq. unfold quarter. change sz_key with 256%nat. change sz_key_half with 128%nat. change sz_key_quarter with 64%nat.
    rewrite Hl. rewrite (Nat.mod_small q 4) by lia. cbn [Nat.ltb Nat.leb]. rewrite (Nat.mod_small q 2) by exact Hq.
    rewrite slice_ok by lia. unfold sl, sub. f_equal. f_equal. lia.
  Qed.
  Lemma client_decrypt_key_srv ks : length ks = 128%nat -> client_decrypt_key (plain_key ks) cipher_key = Some (sub ks 0 32).
  Proof.
    intro Hl. unfold client_decrypt_key, plain_key. cbn [k_inverse]. rewrite quarter_doc128 by (cbn [k_bytes]; try exact Hl; lia).
    cbn [k_bytes Nat.mul]. rewrite key_of_doc by lia. reflexivity.
  Qed.
  Lemma server_auth_key_srv ks size : length ks = 128%nat -> server_auth_key (plain_key ks) size = Some (sub ks 64 (Nat.min size 64)).
  Proof.
    intro Hl. unfold server_auth_key, plain_key. cbn [k_inverse k_bidi andb]. rewrite quarter_doc128 by (cbn [k_bytes]; try exact Hl; lia).
    cbn [k_bytes Nat.mul Nat.add]. rewrite key_of_doc by lia. reflexivity.
  Qed.

  (* ToBytesAuth of the unwrapped key against the documented text  len | Kc | metadata: they agree unless the metadata is a
     single (type) byte - recorded finding C14:openvpn-crypt2-type-only-metadata:rejects-valid *)
  Lemma wk_text_eq (pl : list byte) : (256 <= length pl)%nat -> (length pl <= 990)%nat -> length pl <> 257%nat ->
    wk_to_bytes_auth pl = be 2 (N.of_nat (32 + length pl + 2)) ++ pl.
  Proof.
    intros H1 H2 H3. unfold wk_to_bytes_auth. sizes. rewrite skipn_length, firstn_length.
    replace (Nat.min 256 (length pl)) with 256%nat by lia.
    destruct (Nat.ltb_spec 0 (length pl - (256 + 1))) as [P|P].
    - rewrite N.mod_small by lia. unfold be. f_equal; [f_equal; lia|].
      assert (E : firstn 1 (skipn 256 pl) ++ skipn (256 + 1) pl = skipn 256 pl).
      { replace (256 + 1)%nat with (1 + 256)%nat by lia. rewrite <- (skipn_add 1 256 pl). apply firstn_skipn. }
      rewrite E. apply firstn_skipn.
    - assert (E : length pl = 256%nat) by lia. rewrite N.mod_small by lia. unfold be. f_equal; [f_equal; lia|].
      rewrite <- E. apply firstn_all.
  Qed.

  Lemma good_client_iff ks text tag w : length ks = 128%nat ->
    good (fun x => validate_on_client hmac x (plain_key ks) text tag) (length tag) w = true <->
    length tag = digest_size w /\ tag = hmac w (sub ks 64 (Nat.min (digest_size w) 64)) text.
  Proof.
    intro Hl. unfold good, validate_on_client. rewrite server_auth_key_srv by exact Hl.
    rewrite andb_true_iff, Nat.eqb_eq.
    destruct (bytes_eqb (hmac w (sub ks 64 (Nat.min (digest_size w) 64)) text) tag) eqn:E.
    - apply bytes_eqb_true_iff in E. tauto.
    - split; [intros [_ F]; discriminate|]. intros [_ F]. apply bytes_eqb_true_iff in F. congruence.
  Qed.

  Lemma wk_decrypt_auth_iff ks wtag wenc : length ks = 128%nat -> length wtag = 32%nat -> (256 <= length wenc)%nat -> (length wenc <= 990)%nat ->
    length wenc <> 257%nat ->
    let pl := ctr (sub ks 0 32) (firstn 16 wtag) wenc in
    (fst (wk_decrypt_auth hmac ctr {| w_hmac := wtag; w_enc := wenc |} (plain_key ks)) = BTrue <->
       length pl = length wenc /\
       exists d, (d < length auth_digests)%nat /\ digest_size d = 32%nat /\
                 wtag = hmac d (sub ks 64 32) (be 2 (N.of_nat (length wtag + length wenc + 2)) ++ pl)) /\
    (fst (wk_decrypt_auth hmac ctr {| w_hmac := wtag; w_enc := wenc |} (plain_key ks)) = BTrue ->
       snd (wk_decrypt_auth hmac ctr {| w_hmac := wtag; w_enc := wenc |} (plain_key ks)) = firstn 256 pl).
  Proof.
    intros Hk Hwt Hw1 Hw2 Hw3 pl. unfold wk_decrypt_auth. cbn [w_hmac w_enc]. sizes. change (Nat.min cipher_block 32) with 16%nat.
    replace ((length wenc <? 256)%nat || (1024 - 2 - 32 <? length wenc)%nat) with false
      by (symmetry; apply orb_false_iff; split; apply Nat.ltb_ge; lia).
    rewrite Hwt. cbn [Nat.eqb negb]. rewrite client_decrypt_key_srv by exact Hk. rewrite slice_ok by lia.
    change (sl wtag 0 16) with (firstn 16 wtag). fold pl.
    destruct (Nat.eqb_spec (length pl) (length wenc)) as [Hp|Hp]; cbn [negb].
    2:{ split; [split; [discriminate|intros [E _]; contradiction]|discriminate]. }
    rewrite slice_ok by lia. cbn [fst snd]. change (sl pl 0 256) with (firstn 256 pl). split; [|reflexivity].
    rewrite authenticate_spec; [|apply validate_client_no_panic; right; exact Hk|unfold ld_ok, digest_default, auth_digests; cbn [length]; lia].
    rewrite Hwt. cbn [Nat.eqb]. cbn [plain_key k_bytes]. change sz_key with 256%nat. change sz_key_half with 128%nat.
    rewrite Hk. cbn [Nat.eqb orb negb].
    rewrite wk_text_eq by lia. rewrite Hp.
    split.
    - intro H. split; [reflexivity|]. destruct (existsb _ _) eqn:Ee; [|discriminate].
      apply existsb_seq_iff in Ee. destruct Ee as [d [Hd Eg]]. rewrite <- Hwt in Eg. apply good_client_iff in Eg; [|exact Hk].
      destruct Eg as [G1 G2]. exists d. split; [exact Hd|]. split; [lia|]. rewrite G2 at 1. rewrite <- G1, Hwt. reflexivity.
    - intros [_ [d [Hd [Hs Ht]]]]. replace (existsb _ _) with true; [reflexivity|]. symmetry. apply existsb_seq_iff. exists d. split; [exact Hd|].
      rewrite <- Hwt. apply good_client_iff; [exact Hk|]. split; [lia|]. rewrite Ht at 1. rewrite Hs, Hwt. reflexivity.
  Qed.

  Definition ck_of (ck : list byte * wkey) : ckey := {| ck_static := plain_key (fst ck); ck_wk := snd ck |}.

  Lemma find_ck_some cks w ck' : find_ck (map ck_of cks) w = Some ck' ->
    exists ck, In ck cks /\ ck' = ck_of ck /\ w_hmac (snd ck) = w_hmac w /\ w_enc (snd ck) = w_enc w.
  Proof.
    induction cks as [|x r IH]; [discriminate|]. cbn [map find_ck ck_of ck_wk].
    destruct (bytes_eqb (w_hmac (snd x)) (w_hmac w) && bytes_eqb (w_enc (snd x)) (w_enc w)) eqn:E.
    - intro H. inversion H; subst. apply andb_true_iff in E. destruct E as [E1 E2]. apply bytes_eqb_eq in E1. apply bytes_eqb_eq in E2.
      exists x. repeat split; auto. left. reflexivity.
    - intro H. destruct (IH H) as [ck [Hin Hr]]. exists ck. split; [right; exact Hin|exact Hr].
  Qed.

  Lemma find_ck_found cks w ck : In ck cks -> w_hmac (snd ck) = w_hmac w -> w_enc (snd ck) = w_enc w ->
    exists ck0, In ck0 cks /\ find_ck (map ck_of cks) w = Some (ck_of ck0) /\ w_hmac (snd ck0) = w_hmac w /\ w_enc (snd ck0) = w_enc w.
  Proof.
    induction cks as [|x r IH]; [intros []|]. intros Hin E1 E2. cbn [map find_ck ck_of ck_wk].
    destruct (bytes_eqb (w_hmac (snd x)) (w_hmac w) && bytes_eqb (w_enc (snd x)) (w_enc w)) eqn:E.
    - apply andb_true_iff in E. destruct E as [F1 F2]. apply bytes_eqb_eq in F1. apply bytes_eqb_eq in F2.
      exists x. repeat split; auto. left. reflexivity.
    - destruct Hin as [Hx|Hin].
      + subst x. rewrite E1, E2 in E. rewrite !(proj2 (bytes_eqb_eq _ _) eq_refl) in E. discriminate.
      + destruct (IH Hin E1 E2) as [ck0 [H0 Hr]]. exists ck0. split; [right; exact H0|exact Hr].
  Qed.

  (* the wrapped form determines the client key (what a list of genuinely wrapped keys satisfies) *)
  Definition wrapped_distinct (rc : rcfg) : Prop :=
    forall a b, In a (cl_keys rc) -> In b (cl_keys rc) -> w_hmac (snd a) = w_hmac (snd b) -> w_enc (snd a) = w_enc (snd b) -> fst a = fst b.

  (* the module's acceptance condition in documented terms, but with "some 32-byte digest" where tls-crypt(-v2) says SHA-256 *)
  Definition crypt_ok_any (k : list byte) (op kid sid : N) (rp : replay) (tag enc : list byte) : Prop :=
    ctr (sub k 128 32) (firstn 16 tag) enc = zeros5 /\
    exists d, (d < length auth_digests)%nat /\ digest_size d = 32%nat /\ tag = hmac d (sub k 192 32) (crypt_text op kid sid rp zeros5).
  Definition unwrap_ok_any (ks wtag wenc kc : list byte) : Prop :=
    let pl := ctr (sub ks 0 32) (firstn 16 wtag) wenc in
    length pl = length wenc /\ kc = firstn 256 pl /\
    exists d, (d < length auth_digests)%nat /\ digest_size d = 32%nat /\
              wtag = hmac d (sub ks 64 32) (be 2 (N.of_nat (length wtag + length wenc + 2)) ++ pl).

  Lemma crypt_ok_weaken k op kid sid rp tag enc : crypt_ok hmac ctr k op kid sid rp tag enc -> crypt_ok_any k op kid sid rp tag enc.
  Proof. intros [A B]. split; [exact A|]. exists sha256. split; [unfold sha256, auth_digests; cbn [length]; lia|]. split; [reflexivity|exact B]. Qed.
  Lemma crypt_ok_strengthen k op kid sid rp tag enc : sha256_only tag -> crypt_ok_any k op kid sid rp tag enc -> crypt_ok hmac ctr k op kid sid rp tag enc.
  Proof.
    intros Hs [A [d [Hd [Hz Ht]]]]. split; [exact A|]. destruct (Nat.eq_dec d sha256) as [E|E]; [subst d; exact Ht|]. exfalso. exact (Hs d _ _ E Hz Ht).
  Qed.
  Lemma unwrap_ok_weaken ks wtag wenc kc : unwrap_ok hmac ctr ks wtag wenc kc -> unwrap_ok_any ks wtag wenc kc.
  Proof. intros [A [B C]]. split; [exact A|]. split; [exact B|]. exists sha256. split; [unfold sha256, auth_digests; cbn [length]; lia|]. split; [reflexivity|exact C]. Qed.
  Lemma unwrap_ok_strengthen ks wtag wenc kc : sha256_only wtag -> unwrap_ok_any ks wtag wenc kc -> unwrap_ok hmac ctr ks wtag wenc kc.
  Proof.
    intros Hs [A [B [d [Hd [Hz Ht]]]]]. split; [exact A|]. split; [exact B|]. destruct (Nat.eq_dec d sha256) as [E|E]; [subst d; exact Ht|]. exfalso. exact (Hs d _ _ E Hz Ht).
  Qed.

  Lemma crypt_decrypt_auth_any k op kid sid rp tag enc : (op < 32)%N -> (kid < 8)%N -> length k = 256%nat -> length tag = 32%nat -> length enc = 5%nat ->
    (crypt_decrypt_auth hmac ctr (crypt_of op kid sid rp tag enc) (plain_key k) = BTrue <-> crypt_ok_any k op kid sid rp tag enc).
  Proof.
    intros Ho Hk Hl Ht He. pose proof (crypt_decrypt_auth_iff k (crypt_of op kid sid rp tag enc) Hl Ht He) as HI.
    cbn [crypt_of c_hmac c_enc] in HI. fold (crypt_of op kid sid rp tag enc) in HI. rewrite crypt_text_eq in HI by assumption. exact HI.
  Qed.

  Definition crypt2_key_ok_any (rc : rcfg) (kid sid : N) (rp : replay) (tag enc wtag wenc : list byte) : Prop :=
    match cl_keys rc, srv_key rc with
    | [], None => True
    | [], Some ks => exists kc, unwrap_ok_any ks wtag wenc kc /\ crypt_ok_any kc 10 kid sid rp tag enc
    | cks, _ => exists ck, In ck cks /\ w_hmac (snd ck) = wtag /\ w_enc (snd ck) = wenc /\ crypt_ok_any (fst ck) 10 kid sid rp tag enc
    end.

  Lemma crypt2_match_iff rc kid sid rp tag enc wtag wenc : rcfg_wf rc -> wrapped_distinct rc -> (kid < 8)%N ->
    length tag = 32%nat -> length enc = 5%nat -> length wtag = 32%nat -> (256 <= length wenc)%nat -> (length wtag + length wenc + 2 <= 1024)%nat ->
    length wenc <> 257%nat ->
    (crypt2_match hmac ctr now (provision rc) (crypt2_of kid sid rp tag enc wtag wenc) = BTrue <->
       (0 < sid)%N /\ (rp_id rp = 1%N \/ rp_id rp = 251658241%N) /\ (no_ts rc = true \/ ts_ok now (rp_ts rp)) /\
       (no_crypto rc = true \/ crypt2_key_ok_any rc kid sid rp tag enc wtag wenc)).
  Proof.
    intros Hrc Hdist Hk Hlt Hle Hwt Hw1 Hmax Hw3. pose proof Hrc as [_ [Hsk [_ Hcks]]].
    unfold crypt2_match. cbn [crypt2_of r_crypt r_wk crypt_of c_sid c_rpid c_rts provision ign_ts ign_crypto client_keys server_key].
    fold (crypt_of 10 kid sid rp tag enc).
    set (C := (0 <? sid)%N && ((rp_id rp =? 1)%N || (rp_id rp =? 251658241)%N) && (no_ts rc || ts_valid now (rp_ts rp))).
    assert (HC : C = true <-> (0 < sid)%N /\ (rp_id rp = 1%N \/ rp_id rp = 251658241%N) /\ (no_ts rc = true \/ ts_ok now (rp_ts rp))).
    { unfold C. rewrite !andb_true_iff, !orb_true_iff, N.ltb_lt, !N.eqb_eq, ts_valid_iff. tauto. }
    destruct C; cbn [negb].
    2:{ split; [discriminate|]. intros [A [B [D _]]]. assert (false = true) by (apply HC; tauto). discriminate. }
    assert (HC' : (0 < sid)%N /\ (rp_id rp = 1%N \/ rp_id rp = 251658241%N) /\ (no_ts rc = true \/ ts_ok now (rp_ts rp))) by (apply HC; reflexivity).
    destruct (no_crypto rc); [split; [tauto|reflexivity]|].
    unfold crypt2_key_ok_any. change (fun ck : list byte * wkey => {| ck_static := {| k_bidi := false; k_inverse := false; k_bytes := fst ck |}; ck_wk := snd ck |}) with ck_of.
    destruct (cl_keys rc) as [|c0 cr] eqn:Ecks.
    - cbn [map]. destruct (srv_key rc) as [ks|]; cbn [option_map]; [|split; [tauto|reflexivity]].
      fold (plain_key ks).
      destruct (wk_decrypt_auth_iff ks wtag wenc Hsk Hwt Hw1 ltac:(lia) Hw3) as [HW HS]. cbv zeta in HW, HS.
      destruct (wk_decrypt_auth hmac ctr {| w_hmac := wtag; w_enc := wenc |} (plain_key ks)) as [r kb] eqn:Ew. cbn [fst snd] in HW, HS.
      set (pl := ctr (sub ks 0 32) (firstn 16 wtag) wenc) in *.
      split.
      + intro H. destruct r; try discriminate. specialize (HS eq_refl). subst kb.
        destruct (proj1 HW eq_refl) as [Hp Hex].
        assert (Hkc : length (firstn 256 pl) = 256%nat) by (rewrite firstn_length; lia).
        fold (plain_key (firstn 256 pl)) in H. apply crypt_decrypt_auth_any in H; try assumption; try lia.
        repeat split; try tauto. right. exists (firstn 256 pl). split; [|exact H]. split; [exact Hp|]. split; [reflexivity|exact Hex].
      + intros [_ [_ [_ [F|F]]]]; [discriminate|]. destruct F as [kc [[Hp [Hkc Hex]] Hcr]].
        assert (Hr : r = BTrue) by (apply HW; split; assumption). subst r. rewrite (HS eq_refl). fold pl in Hkc. rewrite <- Hkc.
        fold (plain_key kc). apply crypt_decrypt_auth_any; try assumption; try lia. rewrite Hkc, firstn_length. fold pl in Hp. lia.
    - cbn [map]. cbv iota. change (ck_of c0 :: map ck_of cr) with (map ck_of (c0 :: cr)).
      unfold wrapped_distinct in Hdist. rewrite Ecks in Hdist. set (L := c0 :: cr) in *.
      split.
      + intro H. destruct (find_ck (map ck_of L) {| w_hmac := wtag; w_enc := wenc |}) as [ck'|] eqn:Ef; [|discriminate].
        apply find_ck_some in Ef. destruct Ef as [ck [Hin [Eck [E1 E2]]]]. subst ck'. cbn [ck_of ck_static w_hmac w_enc] in *.
        rewrite Forall_forall in Hcks. apply crypt_decrypt_auth_any in H; try assumption; try lia; [|exact (Hcks ck Hin)].
        repeat split; try tauto. right. exists ck. tauto.
      + intros [_ [_ [_ [F|F]]]]; [discriminate|]. destruct F as [ck [Hin [E1 [E2 Hcr]]]].
        destruct (find_ck_found L {| w_hmac := wtag; w_enc := wenc |} ck Hin E1 E2) as [ck0 [H0 [Ef [F1 F2]]]].
        rewrite Ef. cbn [ck_of ck_static]. cbn [w_hmac w_enc] in F1, F2.
        assert (Ek : fst ck0 = fst ck) by (apply Hdist; try assumption; congruence). rewrite Ek.
        rewrite Forall_forall in Hcks. apply crypt_decrypt_auth_any; try assumption; try lia. exact (Hcks ck Hin).
  Qed.

  Definition crypt2_key_ok (rc : rcfg) (kid sid : N) (rp : replay) (tag enc wtag wenc : list byte) : Prop :=
    match cl_keys rc, srv_key rc with
    | [], None => True
    | [], Some ks => exists kc, unwrap_ok hmac ctr ks wtag wenc kc /\ crypt_ok hmac ctr kc 10 kid sid rp tag enc
    | cks, _ => exists ck, In ck cks /\ w_hmac (snd ck) = wtag /\ w_enc (snd ck) = wenc /\ crypt_ok hmac ctr (fst ck) 10 kid sid rp tag enc
    end.

  Lemma key_ok_weaken rc kid sid rp tag enc wtag wenc :
    crypt2_key_ok rc kid sid rp tag enc wtag wenc -> crypt2_key_ok_any rc kid sid rp tag enc wtag wenc.
  Proof.
    unfold crypt2_key_ok, crypt2_key_ok_any. destruct (cl_keys rc) as [|c0 cr].
    - destruct (srv_key rc); [|auto]. intros [kc [A B]]. exists kc. split; [apply unwrap_ok_weaken; exact A|apply crypt_ok_weaken; exact B].
    - intros [ck [A [B [C D]]]]. exists ck. split; [exact A|]. split; [exact B|]. split; [exact C|]. apply crypt_ok_weaken. exact D.
  Qed.
  Lemma key_ok_strengthen rc kid sid rp tag enc wtag wenc : sha256_only tag -> sha256_only wtag ->
    crypt2_key_ok_any rc kid sid rp tag enc wtag wenc -> crypt2_key_ok rc kid sid rp tag enc wtag wenc.
  Proof.
    intros H1 H2. unfold crypt2_key_ok, crypt2_key_ok_any. destruct (cl_keys rc) as [|c0 cr].
    - destruct (srv_key rc); [|auto]. intros [kc [A B]]. exists kc. split; [apply unwrap_ok_strengthen; assumption|apply crypt_ok_strengthen; assumption].
    - intros [ck [A [B [C D]]]]. exists ck. split; [exact A|]. split; [exact B|]. split; [exact C|]. apply crypt_ok_strengthen; assumption.
  Qed.

  Lemma crypt2_body_length sid rp tag enc wtag wenc : length tag = 32%nat -> length enc = 5%nat -> length wtag = 32%nat ->
    length (crypt2_body sid rp tag enc wtag wenc) = (85 + length wenc + 2)%nat.
  Proof. intros A B C. unfold crypt2_body, crypt_body. rewrite !app_length, !be_length, A, B, C. lia. Qed.

  Lemma encode_crypt2 kid sid rp tag enc wtag wenc :
    encode (TlsCrypt2 kid sid rp tag enc wtag wenc) = hdr_byte 10 kid :: crypt2_body sid rp tag enc wtag wenc.
  Proof. cbn [encode]. unfold crypt2_body, crypt_body. rewrite <- !app_assoc. reflexivity. Qed.

  Theorem crypt2_complete rc ld tcp kid sid rp tag enc wtag wenc : rcfg_wf rc -> wrapped_distinct rc -> ld_ok ld ->
    fits (TlsCrypt2 kid sid rp tag enc wtag wenc) -> length wenc <> 257%nat ->
    passes hmac ctr now rc (TlsCrypt2 kid sid rp tag enc wtag wenc) ->
    fst (omatch (provision rc) ld tcp (wire tcp (encode (TlsCrypt2 kid sid rp tag enc wtag wenc)))) = Yes.
  Proof.
    intros Hrc Hdist Hld [Hk [Hs [Hfp [Hlt [Hle Hwt]]]]] Hw3 [Em [K0 [Hsid [Hw1 [Hmax [Hid [Hts Hcr]]]]]]].
    rewrite encode_crypt2. pose proof (crypt2_body_length sid rp tag enc wtag wenc Hlt Hle Hwt) as Hbl.
    rewrite framed_v3 by (try assumption; rewrite ?Hbl; lia). subst kid. cbn [N.ltb N.compare].
    cbn [provision acc_crypt2]. rewrite Em.
    replace ((length (crypt2_body sid rp tag enc wtag wenc) <? 343)%nat || (1077 <? length (crypt2_body sid rp tag enc wtag wenc))%nat) with false
      by (symmetry; apply orb_false_iff; split; apply Nat.ltb_ge; lia).
    apply (try_v3_iff hmac ctr now _ ld _ _ (provision_wf rc Hrc)).
    exists (crypt2_of 0 sid rp tag enc wtag wenc). split; [apply crypt2_body_parse; try assumption; lia|].
    apply crypt2_match_iff; try assumption; try lia. repeat split; try assumption.
    destruct Hcr as [F|F]; [left; exact F|right]. apply key_ok_weaken. exact F.
  Qed.

  Theorem crypt2_match_iff_ref_partial rc ld tcp kid sid rp tag enc wtag wenc : rcfg_wf rc -> wrapped_distinct rc -> ld_ok ld ->
    fits (TlsCrypt2 kid sid rp tag enc wtag wenc) -> (N.of_nat (length wenc) < 60000)%N -> length wenc <> 257%nat ->
    sha256_only tag -> sha256_only wtag ->
    (fst (omatch (provision rc) ld tcp (wire tcp (encode (TlsCrypt2 kid sid rp tag enc wtag wenc)))) = Yes <->
     passes hmac ctr now rc (TlsCrypt2 kid sid rp tag enc wtag wenc)).
  Proof.
    intros Hrc Hdist Hld Hf Hbound Hw3 Hs1 Hs2. split; [|apply crypt2_complete; assumption].
    destruct Hf as [Hk [Hs [Hfp [Hlt [Hle Hwt]]]]].
    rewrite encode_crypt2. pose proof (crypt2_body_length sid rp tag enc wtag wenc Hlt Hle Hwt) as Hbl.
    rewrite framed_v3 by (try assumption; rewrite ?Hbl; lia).
    destruct (N.ltb_spec 0 kid) as [K|K]; [discriminate|]. assert (K0 : kid = 0%N) by lia.
    cbn [provision acc_crypt2]. destruct (m_crypt2 rc) eqn:Em; [|discriminate].
    destruct (Nat.ltb_spec (length (crypt2_body sid rp tag enc wtag wenc)) 343) as [A|A]; cbn [orb]; [discriminate|].
    destruct (Nat.ltb_spec 1077 (length (crypt2_body sid rp tag enc wtag wenc))) as [B|B]; [discriminate|].
    rewrite (try_v3_iff hmac ctr now _ ld _ _ (provision_wf rc Hrc)).
    intros [m [Em1 Em2]]. rewrite crypt2_body_parse in Em1 by (try assumption; lia). inversion Em1; subst m; clear Em1.
    apply crypt2_match_iff in Em2; try assumption; try lia. destruct Em2 as [S [I [T F]]].
    cbn [passes]. repeat split; try assumption; try lia.
    destruct F as [F|F]; [left; exact F|right]. apply (key_ok_strengthen rc kid sid rp tag enc wtag wenc Hs1 Hs2). exact F.
  Qed.
End RefProofs.
