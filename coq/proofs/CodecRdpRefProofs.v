(* MatchRDP.Match against the wire definition, framing part: a request matches only if it is exactly
   TPKT header (version 3, reserved 0, length = total size) + X.224 CR header (length indicator =
   size - 5, code E0, references and class 0) + a payload of 1..248 bytes that the payload decision accepts. *)
From Coq Require Import List NArith ZArith Bool Arith Lia.
From Coq.Strings Require Import Byte.
From L4.gen Require Import Consts.
From L4.model Require Import GoBase CodecBase CodecRdp.
From L4.proofs Require Import GoBaseProofs CodecBaseProofs CodecRdpCodecProofs CodecRdpMatchProofs.
Import ListNotations.
Local Open Scope nat_scope.

Definition ref_tpkt (total : nat) : tpkt := {| tp_version := 3; tp_reserved := 0; tp_length := N.of_nat total |}.
Definition ref_x224 (total : nat) : x224 :=
  {| x_length := N.of_nat (total - 5); x_typecredit := 224; x_dstref := 0; x_srcref := 0; x_classopts := 0 |}.
(* the 11 header bytes of a connection request of [total] bytes *)
Definition ref_header (total : nat) : list byte := tpkt_to_bytes (ref_tpkt total) ++ x224_to_bytes (ref_x224 total).

Lemma sub16_small a b : (b <= a)%N -> (a < 65536)%N -> sub16 a b = (a - b)%N.
Proof.
  intros H1 H2. unfold sub16, two16. replace (a + 65536 - b)%N with (a - b + 1 * 65536)%N by lia.
  rewrite N.mod_add by lia. apply N.mod_small. lia.
Qed.

Lemma slice_firstn_skipn s a b r : slice s a b = Some r -> r = firstn (b - a) (skipn a s).
Proof. unfold slice. destruct (_ && _); [|discriminate]. intro H; inversion H; reflexivity. Qed.

Lemma rdp_header_spec hdr x plen : length hdr = connreq_min -> rdp_header hdr = HOk x plen ->
  1 <= plen <= 248 /\ x = ref_x224 (11 + plen) /\ hdr = ref_header (11 + plen).
Proof.
  intros Lh. change connreq_min with 11 in Lh. unfold rdp_header.
  destruct (slice hdr 0 tpkt_total) as [hb|] eqn:Ehb; [|discriminate].
  destruct (tpkt_from_bytes hb) as [h| |] eqn:Eh; try discriminate.
  match goal with |- context [if ?c then HNo else _] => destruct c eqn:Ec1; [discriminate|] end.
  destruct (slice hdr tpkt_total (tpkt_total + x224_total)) as [xb|] eqn:Exb; [|discriminate].
  destruct (x224_from_bytes xb) as [xx| |] eqn:Ex; try discriminate.
  match goal with |- context [if ?c then HNo else _] => destruct c eqn:Ec2; [discriminate|] end.
  destruct (N.eqb_spec (sub16 (x_length xx) (N.of_nat (x224_total - 1))) 0) as [E0|E0]; [discriminate|].
  intro H; inversion H; subst xx plen; clear H.
  repeat (apply orb_false_iff in Ec1; destruct Ec1 as [Ec1 ?]).
  repeat (apply orb_false_iff in Ec2; destruct Ec2 as [Ec2 ?]).
  repeat match goal with
  | H : negb (_ =? _)%N = false |- _ => apply negb_false_iff, N.eqb_eq in H
  | H : (_ <? _)%N = false |- _ => apply N.ltb_ge in H
  end.
  change (Z.to_N l4rdp_TPKTHeaderVersion) with 3%N in *. change (Z.to_N l4rdp_TPKTHeaderReserved) with 0%N in *.
  change (Z.to_N l4rdp_RDPConnReqBytesMin) with 11%N in *. change (Z.to_N l4rdp_RDPConnReqBytesMax) with 259%N in *.
  change (Z.to_N l4rdp_X224CrqTypeCredit) with 224%N in *. change (Z.to_N l4rdp_X224CrqDstRef) with 0%N in *.
  change (Z.to_N l4rdp_X224CrqSrcRef) with 0%N in *. change (Z.to_N l4rdp_X224CrqClassOptions) with 0%N in *.
  change (N.of_nat tpkt_total) with 4%N in *. change (N.of_nat (x224_total - 1)) with 6%N in *.
  set (len := tp_length h) in *.
  assert (Hx : x_length x = (len - 5)%N).
  { match goal with H : x_length x = _ |- _ => rewrite H end. rewrite (sub16_small len 4) by lia. rewrite sub16_small by lia. lia. }
  assert (Hp : sub16 (x_length x) 6 = (len - 11)%N) by (rewrite Hx, sub16_small by lia; lia).
  rewrite Hp in *.
  assert (Hlen : len = N.of_nat (11 + N.to_nat (len - 11))) by lia.
  assert (Ex' : x = ref_x224 (11 + N.to_nat (len - 11))).
  { unfold ref_x224. destruct x as [xl xt xd xs xc]. cbn [x_length x_typecredit x_dstref x_srcref x_classopts] in *.
    subst xt xd xs xc. rewrite Hx. f_equal. lia. }
  split; [lia|]. split; [exact Ex'|].
  unfold ref_header. apply tpkt_to_from in Eh. apply x224_to_from in Ex.
  assert (Eh' : h = ref_tpkt (11 + N.to_nat (len - 11))).
  { unfold ref_tpkt. unfold len in *. destruct h as [hv hr hl]. cbn [tp_version tp_reserved tp_length] in *. subst hv hr. f_equal. exact Hlen. }
  rewrite <- Eh', <- Ex', Eh, Ex.
  apply slice_firstn_skipn in Ehb. apply slice_firstn_skipn in Exb. subst hb xb.
  change (tpkt_total - 0) with 4. change (tpkt_total + x224_total - tpkt_total) with 7. change tpkt_total with 4. cbn [skipn].
  rewrite <- (firstn_skipn 4 hdr) at 1. f_equal. symmetry. apply firstn_all2. rewrite skipn_length. lia.
Qed.

Theorem rdp_match_yes_framing c b : rdp_match c b = Yes ->
  exists payload, 1 <= length payload <= 248 /\ b = ref_header (length b) ++ payload /\
                  rdp_decide c (ref_x224 (length b)) payload = Yes.
Proof.
  unfold rdp_match. destruct (read_full connreq_min b) as [[hdr r1]|] eqn:E1; [|discriminate].
  apply read_full_some in E1. destruct E1 as [Eb Lh].
  destruct (rdp_header hdr) as [| |x plen] eqn:Eh; try discriminate.
  destruct (rdp_header_spec hdr x plen Lh Eh) as (Hp & Hx & Hh).
  destruct (read_full plen r1) as [[payload r2]|] eqn:E2; [|discriminate].
  apply read_full_some in E2. destruct E2 as [Er Lp].
  destruct (read_full 1 r2) as [[a r3]|] eqn:E3; [discriminate|].
  apply read_full_none in E3. destruct r2; [|cbn in E3; lia]. rewrite app_nil_r in Er. subst r1.
  intro Hd. exists payload. assert (Lb : length b = 11 + plen) by (subst b; rewrite app_length; change connreq_min with 11 in Lh; lia).
  rewrite Lb. split; [lia|]. split; [subst b; rewrite <- Hh; reflexivity|rewrite <- Hx; exact Hd].
Qed.
