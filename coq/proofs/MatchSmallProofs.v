(* Proofs about the small matcher models: no panic / bounded allocation (C04), stability of
   decided verdicts under extension (C06), agreement with the wire-format references (C14). *)
From Coq Require Import String.
From Coq Require Import List NArith ZArith Bool Arith Lia.
From Coq.Strings Require Import Byte.
From L4 Require Import Hex.
From L4.gen Require Import Consts Shape.
From L4.model Require Import GoBase MatchSmall.
From L4.proofs Require Import GoBaseProofs MatchSmallLemmas.
Import ListNotations.

(* ------------------------------------------------------------------ facts about generated constants *)
Lemma consts_ssh_prefix : ssh_prefix = unhex "5353482d".
Proof. reflexivity. Qed.
Lemma consts_xmpp : xmpp_word = unhex "6a6162626572" /\ xmpp_min = 50%nat.
Proof. split; reflexivity. Qed.
Lemma consts_pp : pp_v1 = unhex "50524f5859" /\ pp_v2 = pp_sig2.
Proof. split; reflexivity. Qed.
Lemma consts_pg : pg_lenlen = 4%N /\ pg_sslcode = 80877103%N.
Proof. split; reflexivity. Qed.
Lemma consts_max : maxMatching = 8192%N.
Proof. reflexivity. Qed.
Lemma consts_re_min : (0 < re_min)%N.
Proof. reflexivity. Qed.
(* the bounds checks the repaired matchers have (read from the source by tools/l4gen) *)
Lemma shape_pg_checks : pg_chk_len = true /\ pg_chk_code = true /\ pg_chk_str = true.
Proof. repeat split; reflexivity. Qed.
Lemma shape_s5_check : s5_chk_zero = true.
Proof. reflexivity. Qed.

Lemma pg_run_eq : pg_run = pg_run_gen true true true.
Proof. unfold pg_run. destruct shape_pg_checks as (-> & -> & ->). reflexivity. Qed.
Lemma socks5_run_eq : socks5_run = socks5_run_gen true.
Proof. unfold socks5_run. rewrite shape_s5_check. reflexivity. Qed.

Ltac case_ifs := repeat match goal with |- context [if ?c then _ else _] => destruct c end.

(* ================================================================== C04 *)
Lemma ssh_no_panic p : ssh_match p <> Panic.
Proof. unfold ssh_match, ssh_run. destruct (read_full _ p) as [[b r]|]; cbn [fst]; case_ifs; discriminate. Qed.
Lemma ssh_alloc p : (snd (ssh_run p) <= alloc_bound)%N.
Proof. unfold ssh_run. destruct (read_full _ p) as [[b r]|]; cbn [snd]; vm_compute; discriminate. Qed.

Lemma xmpp_no_panic p : xmpp_match p <> Panic.
Proof. unfold xmpp_match, xmpp_run. destruct (read_full _ p) as [[b r]|]; cbn [fst]; case_ifs; discriminate. Qed.
Lemma xmpp_alloc p : (snd (xmpp_run p) <= alloc_bound)%N.
Proof. unfold xmpp_run. destruct (read_full _ p) as [[b r]|]; cbn [snd]; vm_compute; discriminate. Qed.

Lemma pp_no_panic p : pp_match p <> Panic.
Proof.
  unfold pp_match, pp_run. destruct (read_full _ p) as [[b r]|]; cbn [fst]; case_ifs; discriminate.
Qed.
Lemma pp_alloc p : (snd (pp_run p) <= alloc_bound)%N.
Proof. unfold pp_run. destruct (read_full _ p) as [[b r]|]; cbn [snd]; vm_compute; discriminate. Qed.

(* slices and indexes of an exactly-sized buffer never fail *)
Lemma slice_ok (s : list byte) a b : (a <= b)%nat -> (b <= length s)%nat -> exists r, slice s a b = Some r.
Proof.
  intros H1 H2. unfold slice.
  replace ((a <=? b)%nat && (b <=? length s)%nat) with true by (symmetry; apply andb_true_iff; split; apply Nat.leb_le; lia).
  eexists; reflexivity.
Qed.
Lemma index_ok (s : list byte) i : (i < length s)%nat -> exists b, index s i = Some b.
Proof. intro H. unfold index. destruct (nth_error s i) eqn:E; [eexists; reflexivity|]. apply nth_error_None in E. lia. Qed.

Lemma socks4_no_panic cfg p : socks4_match cfg p <> Panic.
Proof.
  unfold socks4_match, socks4_run. destruct (read_full 8 p) as [[buf r]|] eqn:E; [|cbn; discriminate].
  apply read_full_some in E. destruct E as [_ Hl].
  destruct (index_ok buf 0) as [b0 ->]; [lia|]. destruct (index_ok buf 1) as [b1 ->]; [lia|].
  destruct (slice_ok buf 2 4) as [pb ->]; [lia|lia|]. destruct (slice_ok buf 4 8) as [ipb ->]; [lia|lia|].
  cbn [fst]. repeat match goal with |- context [if ?c then _ else _] => destruct c end; discriminate.
Qed.
Lemma socks4_alloc cfg p : (snd (socks4_run cfg p) <= alloc_bound)%N.
Proof.
  unfold socks4_run. destruct (read_full 8 p) as [[buf r]|]; [|vm_compute; discriminate].
  destruct (index buf 0), (index buf 1), (slice buf 2 4), (slice buf 4 8); cbn [snd]; vm_compute; discriminate.
Qed.

Lemma be_N_single b : be_N [b] = bN b.
Proof. unfold be_N. cbn. lia. Qed.

Lemma read_full_1 p b r : read_full 1 p = Some (b, r) -> exists x, b = [x].
Proof.
  intro H. apply read_full_some in H. destruct H as [_ Hl].
  destruct b as [|x [|y b]]; cbn in Hl; try lia. exists x. reflexivity.
Qed.

Lemma socks5_gen_no_panic z auth p : fst (socks5_run_gen z auth p) <> Panic.
Proof.
  unfold socks5_run_gen. destruct (read_full 1 p) as [[b0 r1]|]; [|cbn; discriminate].
  destruct (negb _); [cbn; discriminate|]. destruct (read_full 1 r1) as [[b1 r2]|]; [|cbn; discriminate].
  destruct (z && _); [cbn; discriminate|]. destruct (read_fullN _ r2) as [[ms r3]|]; [|cbn; discriminate].
  cbn [fst]. destruct (forallb _ _); discriminate.
Qed.
Lemma socks5_gen_alloc z auth p : (snd (socks5_run_gen z auth p) <= alloc_bound)%N.
Proof.
  unfold socks5_run_gen. destruct (read_full 1 p) as [[b0 r1]|]; [|vm_compute; discriminate].
  destruct (negb _); [vm_compute; discriminate|]. destruct (read_full 1 r1) as [[b1 r2]|] eqn:E1; [|vm_compute; discriminate].
  destruct (z && _); [vm_compute; discriminate|].
  destruct (read_full_1 _ _ _ E1) as [x ->]. rewrite be_N_single. pose proof (bN_lt x) as Hx.
  assert (Hb : (1 + bN x <= alloc_bound)%N) by (unfold alloc_bound; rewrite consts_max; lia).
  destruct (read_fullN _ r2) as [[ms r3]|]; cbn [snd]; exact Hb.
Qed.

Lemma regexp_no_panic re count p : regexp_match re count p <> Panic.
Proof. unfold regexp_match, regexp_run. destruct (read_fullN _ p) as [[b r]|]; cbn; [destruct (re b)|]; discriminate. Qed.
(* Count is a uint16 *)
Lemma regexp_alloc re count p : (count < 65536)%N -> (snd (regexp_run re count p) <= alloc_bound)%N.
Proof.
  intro H. unfold regexp_run. assert (Hb : (count <= alloc_bound)%N) by (unfold alloc_bound; rewrite consts_max; lia).
  destruct (read_fullN _ p) as [[b r]|]; cbn [snd]; exact Hb.
Qed.

Lemma tls_no_panic inner p : tls_match inner p <> Panic.
Proof.
  unfold tls_match, tls_run. destruct (read_full 5 p) as [[hdr r]|] eqn:E; [|cbn; discriminate].
  apply read_full_some in E. destruct E as [_ Hl].
  destruct (index_ok hdr 0) as [t ->]; [lia|]. destruct (index_ok hdr 3) as [h3 ->]; [lia|]. destruct (index_ok hdr 4) as [h4 ->]; [lia|].
  destruct (negb _); [cbn; discriminate|]. destruct (read_fullN _ r) as [[raw r2]|]; cbn; [destruct (inner raw)|]; discriminate.
Qed.
Lemma tls_alloc inner p : (snd (tls_run inner p) <= alloc_bound)%N.
Proof.
  unfold tls_run. destruct (read_full 5 p) as [[hdr r]|]; [|vm_compute; discriminate].
  destruct (index hdr 0) as [t|]; [|vm_compute; discriminate]. destruct (index hdr 3) as [h3|]; [|vm_compute; discriminate].
  destruct (index hdr 4) as [h4|]; [|vm_compute; discriminate].
  destruct (negb _); [vm_compute; discriminate|].
  pose proof (bN_lt h3) as H3. pose proof (bN_lt h4) as H4.
  assert (Hb : (5 + (bN h3 * 256 + bN h4) <= alloc_bound)%N) by (unfold alloc_bound; rewrite consts_max; lia).
  destruct (read_fullN _ r) as [[raw r2]|]; cbn [snd]; exact Hb.
Qed.

Lemma http_gate_no_panic data : http_gate data <> Panic.
Proof.
  unfold http_gate. set (nm := if (maxMatching <=? N.of_nat (length data))%N then Fail else More).
  assert (Hnm : nm <> Panic) by (unfold nm; destruct (_ <=? _)%N; discriminate).
  destruct (index_byte data x0a) as [i|] eqn:E; [|exact Hnm].
  destruct (Nat.ltb_spec i 10) as [Hlt|Hge]; [exact Hnm|].
  apply index_byte_some in E. destruct E as (Hi & _ & _).
  destruct (index_ok data (i - 1)) as [c ->]; [lia|].
  destruct (Byte.eqb c x0d); cbn [fst snd].
  - destruct (slice_ok data (i - 9 - 1) (i - 3 - 1)) as [w ->]; [lia|lia|]. destruct (bytes_eqb _ _); discriminate.
  - destruct (slice_ok data (i - 9) (i - 3)) as [w ->]; [lia|lia|]. destruct (bytes_eqb _ _); discriminate.
Qed.

Lemma clock_no_panic ab now : clock_match ab now <> Panic.
Proof. unfold clock_match. destruct (_ && _); discriminate. Qed.
Lemma ip_no_panic cidrs a : ip_match cidrs a <> Panic.
Proof. unfold ip_match. destruct a; [destruct (existsb _ _)|]; discriminate. Qed.

Lemma mset_no_panic ms p : Forall (fun m : matcher => m p <> Panic) ms -> mset_match ms p <> Panic.
Proof.
  induction 1 as [|m ms Hm _ IH]; cbn; [discriminate|]. destruct (m p) eqn:E; try discriminate; [exact IH|congruence].
Qed.
Lemma not_no_panic sets p :
  Forall (fun ms => Forall (fun m : matcher => m p <> Panic) ms) sets -> not_match sets p <> Panic.
Proof.
  induction 1 as [|ms sets Hms _ IH]; cbn; [discriminate|].
  pose proof (mset_no_panic ms p Hms) as H. destruct (mset_match ms p); try discriminate; [exact IH|congruence].
Qed.

(* ---- postgres ---- *)
Definition st_len (st : pg_state) : nat := match st with None => 0%nat | Some r => S (length r) end.

Lemma pg_read_string_shrinks st k st1 : pg_read_string st = Some (k, st1) -> (st_len st1 < st_len st)%nat.
Proof.
  destruct st as [rest|]; unfold pg_read_string; [|discriminate].
  destruct (index_byte rest x00) as [i|] eqn:E; intro H.
  - assert (Hs : st1 = Some (skipn (S i) rest)) by congruence. rewrite Hs. unfold st_len.
    apply index_byte_some in E. destruct E as (Hi & _ & _). rewrite skipn_length. lia.
  - assert (Hs : st1 = None) by congruence. rewrite Hs. unfold st_len. lia.
Qed.

Lemma pg_params_fuel fuel : forall st n, (st_len st < fuel)%nat -> pg_params fuel st n <> PgFuel.
Proof.
  induction fuel as [|f IH]; intros st n Hle.
  - lia.
  - cbn [pg_params]. destruct (pg_read_string st) as [[k st1]|] eqn:E1; [|discriminate].
    destruct k as [|x k]; [discriminate|].
    destruct (pg_read_string st1) as [[v st2]|] eqn:E2; [|discriminate].
    apply pg_read_string_shrinks in E1. apply pg_read_string_shrinks in E2. apply IH. lia.
Qed.

Lemma pg_fixed_no_panic p : fst (pg_run_gen true true true p) <> Panic.
Proof.
  unfold pg_run_gen. destruct (read_full _ p) as [[head rest]|]; [|cbn; discriminate].
  cbn [andb]. destruct (_ || _); [cbn; discriminate|].
  destruct (read_fullN _ rest) as [[data r2]|]; [|cbn; discriminate].
  destruct (Nat.ltb_spec (length data) 4) as [Hlt|Hge]; [cbn; discriminate|].
  destruct (slice_ok data 0 4) as [c4 ->]; [lia|lia|].
  destruct (_ =? _)%N; [cbn; discriminate|]. destruct (_ <? _)%N; [cbn; discriminate|].
  pose proof (pg_params_fuel (S (length data)) (Some (skipn 4 data)) 0) as Hf.
  destruct (pg_params _ _ _) as [c| |]; cbn [fst].
  - destruct (0 <? c)%N; discriminate.
  - discriminate.
  - exfalso. apply Hf; [|reflexivity]. cbn [st_len]. rewrite skipn_length. lia.
Qed.

Lemma pg_fixed_alloc b c p : (snd (pg_run_gen true b c p) <= alloc_bound)%N.
Proof.
  unfold pg_run_gen. destruct consts_pg as [Hl _].
  destruct (read_full _ p) as [[head rest]|]; [|cbn [snd]; rewrite Hl; vm_compute; discriminate].
  cbn [andb]. destruct ((be_N head <? pg_lenlen)%N || (maxMatching <? sub32 (be_N head) pg_lenlen)%N) eqn:E;
    [cbn [snd]; rewrite Hl; vm_compute; discriminate|].
  apply orb_false_iff in E. destruct E as [_ E2]. apply N.ltb_ge in E2.
  assert (Hb : (pg_lenlen + sub32 (be_N head) pg_lenlen <= alloc_bound)%N).
  { unfold alloc_bound. rewrite Hl in *. rewrite consts_max in *. lia. }
  destruct (read_fullN _ rest) as [[data r2]|]; [|exact Hb].
  destruct (b && _); [exact Hb|]. destruct (slice data 0 4); [|exact Hb].
  destruct (_ =? _)%N; [exact Hb|]. destruct (_ <? _)%N; [exact Hb|].
  destruct (pg_params _ _ _); exact Hb.
Qed.

Lemma pg_no_panic p : pg_match p <> Panic.
Proof. unfold pg_match. rewrite pg_run_eq. apply pg_fixed_no_panic. Qed.
Lemma pg_alloc p : (snd (pg_run p) <= alloc_bound)%N.
Proof. rewrite pg_run_eq. apply pg_fixed_alloc. Qed.

(* the tree before the repairs: the two crashers and the 4 GiB request *)
Lemma pg_v0_panics_short : fst (pg_run_v0 (unhex "00000004")) = Panic.
Proof. vm_compute. reflexivity. Qed.
Lemma pg_v0_panics_unterminated : fst (pg_run_v0 (unhex "0000000c0003000075736572")) = Panic.
Proof. vm_compute. reflexivity. Qed.
Lemma pg_v0_alloc_underflow : (alloc_bound < snd (pg_run_v0 (unhex "00000003")))%N.
Proof. vm_compute. reflexivity. Qed.
(* a length check without the bound against the matching buffer still allocates what the client names *)
Lemma pg_len_only_alloc : (alloc_bound < snd (pg_run_gen false true true (unhex "ffffffff")))%N.
Proof. vm_compute. reflexivity. Qed.

(* ================================================================== C06 *)
Lemma ssh_stable : decided_stable ssh_match.
Proof.
  intros p s H. unfold ssh_match, ssh_run in *. destruct (read_full _ p) as [[b r]|] eqn:E; [|cbn in H; congruence].
  rewrite (read_full_app _ _ s _ _ E). reflexivity.
Qed.
Lemma xmpp_stable : decided_stable xmpp_match.
Proof.
  intros p s H. unfold xmpp_match, xmpp_run in *. destruct (read_full _ p) as [[b r]|] eqn:E; [|cbn in H; congruence].
  rewrite (read_full_app _ _ s _ _ E). reflexivity.
Qed.
Lemma pp_stable : decided_stable pp_match.
Proof.
  intros p s H. unfold pp_match, pp_run in *. destruct (read_full _ p) as [[b r]|] eqn:E; [|cbn in H; congruence].
  rewrite (read_full_app _ _ s _ _ E). reflexivity.
Qed.
Lemma socks4_stable cfg : decided_stable (socks4_match cfg).
Proof.
  intros p s H. unfold socks4_match, socks4_run in *. destruct (read_full 8 p) as [[b r]|] eqn:E; [|cbn in H; congruence].
  rewrite (read_full_app _ _ s _ _ E). reflexivity.
Qed.
Lemma socks5_gen_stable z auth : decided_stable (fun p => fst (socks5_run_gen z auth p)).
Proof.
  intros p s H. unfold socks5_run_gen in *.
  destruct (read_full 1 p) as [[b0 r1]|] eqn:E0; [|cbn in H; congruence]. rewrite (read_full_app _ _ s _ _ E0).
  destruct (negb _); [reflexivity|].
  destruct (read_full 1 r1) as [[b1 r2]|] eqn:E1; [|cbn in H; congruence]. rewrite (read_full_app _ _ s _ _ E1).
  destruct (z && _); [reflexivity|].
  destruct (read_fullN _ r2) as [[ms r3]|] eqn:E2; [|cbn in H; congruence]. rewrite (read_fullN_app _ _ s _ _ E2). reflexivity.
Qed.
Lemma socks5_stable auth : decided_stable (socks5_match auth).
Proof. unfold socks5_match, socks5_run. apply socks5_gen_stable. Qed.
Lemma regexp_stable re count : decided_stable (regexp_match re count).
Proof.
  intros p s H. unfold regexp_match, regexp_run in *. destruct (read_fullN _ p) as [[b r]|] eqn:E; [|cbn in H; congruence].
  rewrite (read_fullN_app _ _ s _ _ E). reflexivity.
Qed.
Lemma tls_stable inner : decided_stable (tls_match inner).
Proof.
  intros p s H. unfold tls_match, tls_run in *.
  destruct (read_full 5 p) as [[hdr r]|] eqn:E0; [|cbn in H; congruence]. rewrite (read_full_app _ _ s _ _ E0).
  destruct (index hdr 0); [|reflexivity]. destruct (index hdr 3); [|reflexivity]. destruct (index hdr 4); [|reflexivity].
  destruct (negb _); [reflexivity|].
  destruct (read_fullN _ r) as [[raw r2]|] eqn:E1; [|cbn in H; congruence]. rewrite (read_fullN_app _ _ s _ _ E1). reflexivity.
Qed.
Lemma pg_gen_stable a b c : decided_stable (fun p => fst (pg_run_gen a b c p)).
Proof.
  intros p s H. unfold pg_run_gen in *.
  destruct (read_full _ p) as [[head rest]|] eqn:E0; [|cbn in H; congruence]. rewrite (read_full_app _ _ s _ _ E0).
  destruct (a && _); [reflexivity|].
  destruct (read_fullN _ rest) as [[data r2]|] eqn:E1; [|cbn in H; congruence]. rewrite (read_fullN_app _ _ s _ _ E1). reflexivity.
Qed.
Lemma pg_stable : decided_stable pg_match.
Proof. unfold pg_match, pg_run. apply pg_gen_stable. Qed.

(* the http gate: Yes and No are permanent (a full buffer without a request line is an error, and the
   router never extends a full buffer) *)
Lemma http_gate_stable : stable_yn http_gate.
Proof.
  intros p s H. unfold http_gate in *.
  destruct (index_byte p x0a) as [i|] eqn:E.
  2:{ destruct (_ <=? _)%N; destruct H; discriminate. }
  rewrite (index_byte_app _ _ s _ E).
  destruct (Nat.ltb_spec i 10) as [Hlt|Hge]; [destruct (_ <=? _)%N; destruct H; discriminate|].
  destruct (index p (i - 1)) as [c|] eqn:Ec; [|destruct H; discriminate].
  rewrite (index_app _ s _ _ Ec).
  destruct (slice p _ _) as [w|] eqn:Ew; [|destruct H; discriminate].
  rewrite (slice_app _ s _ _ _ Ew). reflexivity.
Qed.

Lemma mset_stable ms : Forall stable_yn ms -> stable_yn (mset_match ms).
Proof.
  induction 1 as [|m ms Hm _ IH]; intros p s H; cbn in *; [reflexivity|].
  destruct (m p) eqn:E; try (destruct H; discriminate).
  - rewrite (Hm p s (or_introl E)), E. apply IH. exact H.
  - rewrite (Hm p s (or_intror E)), E. reflexivity.
Qed.
Lemma not_stable sets : Forall (Forall stable_yn) sets -> stable_yn (not_match sets).
Proof.
  induction 1 as [|ms sets Hms _ IH]; intros p s H; cbn in *; [reflexivity|].
  pose proof (mset_stable ms Hms) as Hst.
  destruct (mset_match ms p) eqn:E; try (destruct H; discriminate).
  - rewrite (Hst p s (or_introl E)), E. reflexivity.
  - rewrite (Hst p s (or_intror E)), E. apply IH. exact H.
Qed.

(* ================================================================== C14 *)
(* ---- ssh ---- *)
Lemma ssh_iff_starts bs : ssh_match bs = Yes <-> starts_with bs (unhex "5353482d").
Proof.
  unfold ssh_match, ssh_run, starts_with. rewrite consts_ssh_prefix. split.
  - destruct (read_full _ bs) as [[b r]|] eqn:E; cbn [fst]; [|discriminate].
    destruct (bytes_eqb b _) eqn:Eb; [|discriminate]. intros _. apply bytes_eqb_eq in Eb.
    apply read_full_some in E. destruct E as [-> _]. subst b. exists r. reflexivity.
  - intros [t ->]. rewrite read_full_exact by reflexivity. cbn [fst].
    replace (bytes_eqb _ _) with true by (symmetry; apply bytes_eqb_eq; reflexivity). reflexivity.
Qed.

Lemma ssh_match_iff_ref m : ssh_typed m -> (ssh_match (ssh_encode m) = Yes <-> ssh_wf m).
Proof.
  intro Ht. rewrite ssh_iff_starts. unfold ssh_encode, ssh_wf, starts_with, ssh_typed in *. split.
  - intros [t Ht2]. set (tail := si_proto m ++ _) in Ht2.
    assert (H4 : firstn 4 (si_lead m ++ tail) = firstn 4 (unhex "5353482d" ++ t)) by (rewrite Ht2; reflexivity).
    rewrite firstn_app_le in H4 by lia. rewrite firstn_all2 in H4 by lia. exact H4.
  - intros ->. eexists. reflexivity.
Qed.

(* ---- proxy_protocol ---- *)
Lemma pp_iff_starts bs :
  pp_match bs = Yes <-> (12 <= length bs)%nat /\ (starts_with bs (unhex "50524f5859") \/ starts_with bs pp_sig2).
Proof.
  unfold pp_match, pp_run. destruct consts_pp as [-> ->]. change (length pp_sig2) with 12%nat. split.
  - destruct (read_full 12 bs) as [[b r]|] eqn:E; cbn [fst]; [|discriminate].
    apply read_full_some in E. destruct E as [-> Hl]. intro H. split; [rewrite app_length; lia|].
    destruct (has_prefix b _) eqn:E1.
    + left. apply has_prefix_spec in E1. destruct E1 as [t ->]. exists (t ++ r). rewrite app_assoc. reflexivity.
    + destruct (bytes_eqb b pp_sig2) eqn:E2; [|discriminate]. apply bytes_eqb_eq in E2. subst b. right. exists r. reflexivity.
  - intros [Hl Hs]. destruct (read_full 12 bs) as [[b r]|] eqn:E.
    2:{ apply read_full_none in E. lia. }
    cbn [fst]. apply read_full_some in E. destruct E as [-> Hb].
    destruct Hs as [[t Ht]|[t Ht]].
    + replace (has_prefix b _) with true; [reflexivity|]. symmetry. apply has_prefix_spec.
      exists (firstn 7 t).
      assert (H12 : firstn 12 (b ++ r) = firstn 12 (unhex "50524f5859" ++ t)) by (rewrite Ht; reflexivity).
      rewrite firstn_app_le in H12 by lia. rewrite firstn_all2 in H12 by lia. rewrite H12.
      rewrite firstn_app. rewrite (firstn_all2 (unhex "50524f5859")) by (cbn; lia). reflexivity.
    + assert (H12 : firstn 12 (b ++ r) = firstn 12 (pp_sig2 ++ t)) by (rewrite Ht; reflexivity).
      rewrite firstn_app_le in H12 by lia. rewrite firstn_all2 in H12 by lia.
      rewrite (firstn_app_le 12 pp_sig2 t) in H12 by (cbn; lia). rewrite (firstn_all2 pp_sig2) in H12 by (cbn; lia). subst b.
      destruct (has_prefix pp_sig2 _); [reflexivity|].
      replace (bytes_eqb pp_sig2 pp_sig2) with true by (symmetry; apply bytes_eqb_eq; reflexivity). reflexivity.
Qed.

Lemma pp_match_iff_ref m : pp_typed m -> (pp_match (pp_encode m) = Yes <-> pp_wf m).
Proof.
  intro Ht. rewrite pp_iff_starts. destruct m as [r|vc fam pl|bs]; cbn [pp_encode pp_wf pp_typed] in *.
  - split; [tauto|]. intros _. split; [rewrite !app_length; change (length (unhex "50524f5859")) with 5%nat; change (length (unhex "0d0a")) with 2%nat; lia|]. left. eexists. reflexivity.
  - split; [tauto|]. intros _. split; [rewrite !app_length; change (length pp_sig2) with 12%nat; lia|]. right. eexists. reflexivity.
  - split; [|tauto]. intros [_ [H|H]]; tauto.
Qed.

(* ---- xmpp ---- *)
Lemma xmpp_iff_occurs bs :
  xmpp_match bs = Yes <->
  (50 <= length bs)%nat /\ exists i, (i + 6 <= 50)%nat /\ occurs_at bs (unhex "6a6162626572") i.
Proof.
  unfold xmpp_match, xmpp_run, occurs_at. destruct consts_xmpp as [-> ->]. split.
  - destruct (read_full 50 bs) as [[b r]|] eqn:E; cbn [fst]; [|discriminate].
    apply read_full_some in E. destruct E as [-> Hl]. destruct (contains b _) eqn:Ec; [|discriminate]. intros _.
    split; [rewrite app_length; lia|]. apply contains_spec in Ec. destruct Ec as (a & c & ->).
    exists (length a). rewrite !app_length in Hl. change (length (unhex "6a6162626572")) with 6%nat in Hl. split; [lia|].
    exists a, (c ++ r). split; [|reflexivity]. rewrite <- !app_assoc. reflexivity.
  - intros (Hl & i & Hi & a & c & Hbs & Ha). destruct (read_full 50 bs) as [[b r]|] eqn:E.
    2:{ apply read_full_none in E. lia. }
    cbn [fst]. apply read_full_some in E. destruct E as [Hbr Hb].
    replace (contains b _) with true; [reflexivity|]. symmetry. apply contains_spec.
    exists a, (firstn (50 - i - 6) c).
    assert (H50 : firstn 50 bs = b) by (rewrite Hbr; rewrite firstn_app_le by lia; apply firstn_all2; lia).
    rewrite <- H50, Hbs. rewrite firstn_app. rewrite (firstn_all2 a) by lia. f_equal.
    rewrite Ha. rewrite firstn_app. change (length (unhex "6a6162626572")) with 6%nat.
    rewrite (firstn_all2 (unhex "6a6162626572")) by (change (length (unhex "6a6162626572")) with 6%nat; lia). reflexivity.
Qed.

(* a stream header allowed by RFC 6120 (attributes in any order) that the sniff does not recognise *)
Definition xmpp_late_header : list byte :=
  unhex "3c3f786d6c2076657273696f6e3d27312e30273f3e3c73747265616d3a73747265616d20746f3d276578616d706c652e636f6d2720786d6c6e733d276a61626265723a636c69656e742720786d6c6e733a73747265616d3d27687474703a2f2f6574686572782e6a61626265722e6f72672f73747265616d73272076657273696f6e3d27312e30273e".
Lemma xmpp_late_namespace_rejected : xmpp_match xmpp_late_header = No.
Proof. vm_compute. reflexivity. Qed.

(* ---- socks4 ---- *)
Lemma existsb_N_In x l : existsb (N.eqb x) l = true <-> In x l.
Proof.
  rewrite existsb_exists. split.
  - intros (y & Hy & He). apply N.eqb_eq in He. subst. exact Hy.
  - intro H. exists x. split; [exact H|apply N.eqb_refl].
Qed.

Lemma nonempty_false {A} (l : list A) : nonempty l = false <-> l = [].
Proof. destruct l; cbn; split; intro H; try reflexivity; discriminate. Qed.

Definition cidr_typed (c : cidr) : Prop := (c_addr c < (if c_is6 c then 2 ^ 128 else 2 ^ 32))%N.

Lemma prefix_contains4_iff c ip :
  cidr_typed c -> (ip < 2 ^ 32)%N ->
  (prefix_contains c {| a_is6 := false; a_val := ip; a_zone := false |} = true <-> cidr_contains4 c ip).
Proof.
  intros Hc Hip. unfold prefix_contains, cidr_contains4, cidr_typed in *. cbn [a_zone a_is6 a_val].
  destruct (c_is6 c) eqn:E6; cbn [Bool.eqb negb].
  - split; [discriminate|]. intros [H _]. discriminate.
  - rewrite andb_true_iff, N.leb_le, N.eqb_eq. split.
    + intros [Hb Hs]. repeat split; [exact Hb|]. apply shiftr_lxor_zero_iff in Hs; [exact Hs|exact Hb|exact Hip|exact Hc].
    + intros (_ & Hb & Hs). split; [exact Hb|]. apply shiftr_lxor_zero_iff; [exact Hb|exact Hip|exact Hc|exact Hs].
Qed.

Lemma socks4_read8 m t :
  socks4_typed m ->
  exists buf r, read_full 8 (socks4_encode m ++ t) = Some (buf, r) /\
    index buf 0 = Some (s4_vn m) /\ index buf 1 = Some (s4_cd m) /\
    slice buf 2 4 = Some (N_to_be 2 (s4_port m)) /\ slice buf 4 8 = Some (N_to_be 4 (s4_ip m)).
Proof.
  intros _. unfold socks4_encode.
  set (pb := N_to_be 2 (s4_port m)). set (ib := N_to_be 4 (s4_ip m)).
  assert (Hp : length pb = 2%nat) by apply N_to_be_length. assert (Hi : length ib = 4%nat) by apply N_to_be_length.
  exists ([s4_vn m; s4_cd m] ++ pb ++ ib), (s4_user m ++ [x00] ++ t). split.
  - rewrite <- read_full_exact with (n := 8%nat) (a := [s4_vn m; s4_cd m] ++ pb ++ ib) (r := s4_user m ++ [x00] ++ t).
    + f_equal. rewrite <- !app_assoc. reflexivity.
    + rewrite !app_length. cbn [length]. lia.
  - repeat split.
Qed.

Lemma socks4_match_iff_ref cfg m t :
  socks4_typed m -> Forall cidr_typed (s4_cidrs cfg) ->
  (socks4_match cfg (socks4_encode m ++ t) = Yes <-> socks4_wf m /\ socks4_passes cfg m).
Proof.
  intros Ht Hc. destruct (socks4_read8 m t Ht) as (buf & r & Hr & H0 & H1 & H2 & H3).
  unfold socks4_match, socks4_run. rewrite Hr, H0, H1, H2, H3. cbn [fst].
  destruct Ht as [Hport Hip]. change two32 with (2 ^ 32)%N in Hip.
  rewrite be_N_to_be by (cbn; lia). rewrite be_N_to_be by (cbn; lia).
  unfold socks4_wf, socks4_passes.
  destruct (bN (s4_vn m) =? 4)%N eqn:Ev; cbn [negb].
  2:{ apply N.eqb_neq in Ev. split; [discriminate|tauto]. }
  apply N.eqb_eq in Ev.
  destruct (existsb (N.eqb (bN (s4_cd m))) (s4_commands cfg)) eqn:Ecmd; cbn [negb].
  2:{ split; [discriminate|]. intros (_ & Hin & _). apply existsb_N_In in Hin. congruence. }
  apply existsb_N_In in Ecmd.
  destruct (nonempty (s4_ports cfg) && negb (existsb (N.eqb (s4_port m)) (s4_ports cfg))) eqn:Ep.
  { split; [discriminate|]. intros (_ & _ & [Hnil|Hin] & _); apply andb_true_iff in Ep; destruct Ep as [Ep1 Ep2].
    - rewrite Hnil in Ep1. discriminate.
    - apply existsb_N_In in Hin. rewrite Hin in Ep2. discriminate. }
  assert (Hports : s4_ports cfg = [] \/ In (s4_port m) (s4_ports cfg)).
  { apply andb_false_iff in Ep. destruct Ep as [Ep|Ep]; [left; apply nonempty_false; exact Ep|right].
    apply negb_false_iff in Ep. apply existsb_N_In. exact Ep. }
  destruct (nonempty (s4_cidrs cfg) && negb (existsb _ (s4_cidrs cfg))) eqn:Ec.
  { split; [discriminate|]. intros (_ & _ & _ & [Hnil|(c & Hin & Hcc)]); apply andb_true_iff in Ec; destruct Ec as [Ec1 Ec2].
    - rewrite Hnil in Ec1. discriminate.
    - apply negb_true_iff in Ec2. assert (He : existsb (fun c0 => prefix_contains c0 {| a_is6 := false; a_val := s4_ip m; a_zone := false |}) (s4_cidrs cfg) = true).
      { apply existsb_exists. exists c. split; [exact Hin|]. apply prefix_contains4_iff; [|exact Hip|exact Hcc].
        rewrite Forall_forall in Hc. apply Hc. exact Hin. }
      congruence. }
  split; [|reflexivity]. intros _. repeat split; [exact Ev|exact Ecmd|exact Hports|].
  apply andb_false_iff in Ec. destruct Ec as [Ec|Ec]; [left; apply nonempty_false; exact Ec|right].
  apply negb_false_iff in Ec. apply existsb_exists in Ec. destruct Ec as (c & Hin & Hcc). exists c. split; [exact Hin|].
  apply prefix_contains4_iff in Hcc; [exact Hcc| |exact Hip]. rewrite Forall_forall in Hc. apply Hc. exact Hin.
Qed.

(* ---- socks5 ---- *)
Lemma socks5_gen_encode z auth m t :
  socks5_typed m ->
  fst (socks5_run_gen z auth (socks5_encode m ++ t)) =
    if negb (bN (s5_ver m) =? 5)%N then No
    else if z && (N.of_nat (length (s5_methods m)) =? 0)%N then No
    else if forallb (fun x => existsb (N.eqb (bN x)) auth) (s5_methods m) then Yes else No.
Proof.
  intro Ht. unfold socks5_typed in Ht. unfold socks5_run_gen, socks5_encode.
  rewrite <- !app_assoc. rewrite (read_full_exact 1 [s5_ver m]) by reflexivity. rewrite be_N_single.
  destruct (negb _); [reflexivity|].
  assert (Hl : (N.of_nat (length (s5_methods m)) < 256 ^ N.of_nat 1)%N) by (cbn; lia).
  rewrite (read_full_exact 1 (N_to_be 1 _)) by apply N_to_be_length.
  rewrite be_N_to_be by exact Hl.
  destruct (z && _); [reflexivity|]. rewrite read_fullN_exact by reflexivity. reflexivity.
Qed.

Lemma forallb_auth auth ms : forallb (fun x => existsb (N.eqb (bN x)) auth) ms = true <-> (forall x, In x ms -> In (bN x) auth).
Proof.
  rewrite forallb_forall. split; intros H x Hx; specialize (H x Hx); apply existsb_N_In; exact H.
Qed.

Lemma socks5_fixed_iff_ref auth m t :
  socks5_typed m ->
  (fst (socks5_run_gen true auth (socks5_encode m ++ t)) = Yes <-> socks5_wf m /\ socks5_passes auth m).
Proof.
  intro Ht. rewrite socks5_gen_encode by exact Ht. unfold socks5_wf, socks5_passes. cbn [andb].
  destruct (bN (s5_ver m) =? 5)%N eqn:Ev; cbn [negb].
  2:{ apply N.eqb_neq in Ev. split; [discriminate|tauto]. }
  apply N.eqb_eq in Ev.
  destruct (N.of_nat (length (s5_methods m)) =? 0)%N eqn:Ez.
  { apply N.eqb_eq in Ez. split; [discriminate|]. intros [[_ Hl] _]. lia. }
  apply N.eqb_neq in Ez.
  destruct (forallb _ _) eqn:Ef.
  - pose proof (proj1 (forallb_auth auth (s5_methods m)) Ef) as Ef'. split; [|reflexivity]. intros _. repeat split; [exact Ev|lia|exact Ef'].
  - split; [discriminate|]. intros [_ Hp]. pose proof (proj2 (forallb_auth auth (s5_methods m)) Hp) as Hp'. congruence.
Qed.

Lemma socks5_match_iff_ref auth m t :
  socks5_typed m -> (socks5_match auth (socks5_encode m ++ t) = Yes <-> socks5_wf m /\ socks5_passes auth m).
Proof. unfold socks5_match. rewrite socks5_run_eq. apply socks5_fixed_iff_ref. Qed.

(* the matcher before the repair accepted a greeting that offers no method at all *)
Lemma socks5_v0_accepts_zero_methods :
  exists m, socks5_typed m /\ ~ socks5_wf m /\ fst (socks5_run_gen false [0; 1; 2]%N (socks5_encode m)) = Yes.
Proof.
  exists {| s5_ver := x05; s5_methods := [] |}. split; [unfold socks5_typed; cbn [s5_methods length]; lia|]. split; [|vm_compute; reflexivity].
  intros [_ H]. cbn [s5_methods length] in H. lia.
Qed.

(* ---- regexp ---- *)
Lemma regexp_iff re count bs :
  regexp_match re count bs = Yes <-> (count <= N.of_nat (length bs))%N /\ re (firstn (N.to_nat count) bs) = true.
Proof.
  unfold regexp_match, regexp_run, read_fullN.
  destruct (N.ltb_spec (N.of_nat (length bs)) count) as [Hlt|Hge]; cbn [fst].
  - split; [discriminate|]. intros [H _]. lia.
  - destruct (re _); split; try discriminate; try tauto. intros [_ H]. discriminate.
Qed.

(* ---- tls record gate ---- *)
Lemma tls_match_iff_ref inner m t :
  tls_typed m -> (tls_match inner (tls_encode m ++ t) = Yes <-> tls_wf m /\ inner (tr_body m) = true).
Proof.
  intros [Hv Hb]. unfold tls_match, tls_run, tls_encode, tls_wf.
  destruct (tr_ver m) as [|v1 [|v2 [|v3 vr]]] eqn:Ever; cbn [length] in Hv; try lia.
  set (lb := N_to_be 2 (N.of_nat (length (tr_body m)))).
  assert (Hlb : length lb = 2%nat) by apply N_to_be_length.
  destruct lb as [|l1 [|l2 [|l3 lr]]] eqn:Elb; cbn [length] in Hlb; try lia.
  cbn [app]. unfold read_full. cbn [length]. rewrite app_length.
  destruct (Nat.ltb_spec (S (S (S (S (S (length (tr_body m) + length t)))))) 5) as [Hlt|Hge]; [lia|].
  cbn [firstn skipn index nth_error].
  destruct (bN (tr_type m) =? 22)%N eqn:Et; cbn [negb fst].
  2:{ apply N.eqb_neq in Et. split; [discriminate|tauto]. }
  apply N.eqb_eq in Et.
  assert (Hlen : (bN l1 * 256 + bN l2)%N = N.of_nat (length (tr_body m))).
  { assert (H : be_N lb = N.of_nat (length (tr_body m))) by (apply be_N_to_be; cbn; lia).
    rewrite Elb in H. unfold be_N in H. cbn [fold_left] in H. lia. }
  rewrite Hlen. rewrite read_fullN_exact by reflexivity. cbn [fst].
  destruct (inner (tr_body m)); split; try discriminate; try tauto. intros [_ H]. discriminate.
Qed.

(* ---- clock ---- *)
Lemma clock_iff_ref after before now :
  clock_match (clock_provision after before) now = Yes <-> clock_ref after before now.
Proof.
  unfold clock_match, clock_provision, clock_ref.
  destruct (before =? 0)%Z; cbv zeta.
  - destruct (Z.ltb_spec 86400 after) as [H|H]; cbn [fst snd];
      destruct (Z.leb_spec (Z.min after 86400) now), (Z.ltb_spec now (Z.max after 86400));
      match goal with |- context [(?a <=? ?b)%Z && (?c <? ?d)%Z] => destruct (Z.leb_spec a b), (Z.ltb_spec c d) end;
      cbn [andb]; split; intro; try discriminate; try reflexivity; lia.
  - destruct (Z.ltb_spec before after) as [H|H]; cbn [fst snd];
      match goal with |- context [(?a <=? ?b)%Z && (?c <? ?d)%Z] => destruct (Z.leb_spec a b), (Z.ltb_spec c d) end;
      cbn [andb]; split; intro; try discriminate; try reflexivity; lia.
Qed.

Lemma clock_now_range unix offset : (0 <= clock_now unix offset < 86400)%Z.
Proof. unfold clock_now. apply Z.mod_pos_bound. lia. Qed.

(* ---- remote_ip / local_ip ---- *)
Definition addr_typed (a : addr) : Prop := (a_val a < (if a_is6 a then 2 ^ 128 else 2 ^ 32))%N.

Lemma prefix_contains_iff c a : cidr_typed c -> addr_typed a -> (prefix_contains c a = true <-> cidr_contains c a).
Proof.
  intros Hc Ha. unfold prefix_contains, cidr_contains, cidr_typed, addr_typed, mask6 in *.
  destruct (a_zone a); [split; [discriminate|intros [H _]; discriminate]|].
  destruct (c_is6 c) eqn:Ec, (a_is6 a) eqn:Ea; cbn [Bool.eqb negb].
  - rewrite andb_true_iff, N.leb_le, N.eqb_eq. split.
    + intros [Hb Hs]. repeat split; [exact Hb|]. apply land_mask_zero_iff in Hs; [|exact Hb|].
      * apply shiftr_lxor_zero_iff in Hs; [exact Hs|exact Hb|exact Ha|exact Hc].
      * destruct (N.eq_dec (N.lxor (a_val a) (c_addr c)) 0) as [->|Hnz]; [apply N.neq_0_lt_0; apply N.pow_nonzero; lia|].
        apply N.log2_lt_pow2; [lia|]. eapply N.le_lt_trans; [apply N.log2_lxor|].
        apply N.max_lub_lt.
        -- destruct (N.eq_dec (a_val a) 0) as [->|H0]; [cbn; lia|apply N.log2_lt_pow2; lia].
        -- destruct (N.eq_dec (c_addr c) 0) as [->|H0]; [cbn; lia|apply N.log2_lt_pow2; lia].
    + intros (_ & _ & Hb & Hs). split; [exact Hb|]. apply land_mask_zero_iff; [exact Hb| |].
      * destruct (N.eq_dec (N.lxor (a_val a) (c_addr c)) 0) as [->|Hnz]; [apply N.neq_0_lt_0; apply N.pow_nonzero; lia|].
        apply N.log2_lt_pow2; [lia|]. eapply N.le_lt_trans; [apply N.log2_lxor|].
        apply N.max_lub_lt.
        -- destruct (N.eq_dec (a_val a) 0) as [->|H0]; [cbn; lia|apply N.log2_lt_pow2; lia].
        -- destruct (N.eq_dec (c_addr c) 0) as [->|H0]; [cbn; lia|apply N.log2_lt_pow2; lia].
      * apply shiftr_lxor_zero_iff; [exact Hb|exact Ha|exact Hc|exact Hs].
  - split; [discriminate|]. intros (_ & H & _). discriminate.
  - split; [discriminate|]. intros (_ & H & _). discriminate.
  - rewrite andb_true_iff, N.leb_le, N.eqb_eq. split.
    + intros [Hb Hs]. repeat split; [exact Hb|]. apply shiftr_lxor_zero_iff in Hs; [exact Hs|exact Hb|exact Ha|exact Hc].
    + intros (_ & _ & Hb & Hs). split; [exact Hb|]. apply shiftr_lxor_zero_iff; [exact Hb|exact Ha|exact Hc|exact Hs].
Qed.

Lemma ip_match_iff_ref cidrs a :
  Forall cidr_typed cidrs -> addr_typed a -> (ip_match cidrs (Some a) = Yes <-> ip_ref cidrs a).
Proof.
  intros Hc Ha. unfold ip_match, ip_ref. destruct (existsb _ cidrs) eqn:E.
  - split; [|reflexivity]. intros _. apply existsb_exists in E. destruct E as (c & Hin & Hcc). exists c. split; [exact Hin|].
    apply prefix_contains_iff; [|exact Ha|exact Hcc]. rewrite Forall_forall in Hc. apply Hc. exact Hin.
  - split; [discriminate|]. intros (c & Hin & Hcc).
    assert (He : existsb (fun c0 => prefix_contains c0 a) cidrs = true).
    { apply existsb_exists. exists c. split; [exact Hin|]. apply prefix_contains_iff; [|exact Ha|exact Hcc].
      rewrite Forall_forall in Hc. apply Hc. exact Hin. }
    congruence.
Qed.

(* ---- not ---- *)
Lemma mset_yes_iff ms p : mset_match ms p = Yes <-> Forall (fun m : matcher => m p = Yes) ms.
Proof.
  induction ms as [|m ms IH]; cbn; [split; [constructor|reflexivity]|].
  destruct (m p) eqn:E; split; intro H; try discriminate; try (inversion H; subst; congruence).
  - constructor; [exact E|apply IH; exact H].
  - inversion H; subst. apply IH. assumption.
Qed.
Lemma not_yes_iff sets p : not_match sets p = Yes <-> Forall (fun ms => mset_match ms p = No) sets.
Proof.
  induction sets as [|ms sets IH]; cbn; [split; [constructor|reflexivity]|].
  destruct (mset_match ms p) eqn:E; split; intro H; try discriminate; try (inversion H; subst; congruence).
  - constructor; [exact E|apply IH; exact H].
  - inversion H; subst. apply IH. assumption.
Qed.
Lemma not_no_iff sets p :
  not_match sets p = No <-> exists a ms b, sets = a ++ ms :: b /\ Forall (fun ms' => mset_match ms' p = No) a /\ mset_match ms p = Yes.
Proof.
  induction sets as [|ms sets IH]; cbn.
  - split; [discriminate|]. intros (a & ms & b & H & _). destruct a; discriminate.
  - destruct (mset_match ms p) eqn:E.
    + split; [|reflexivity]. intros _. exists [], ms, sets. repeat split; [constructor|exact E].
    + rewrite IH. split.
      * intros (a & ms' & b & -> & Ha & Hy). exists (ms :: a), ms', b. repeat split; [constructor; assumption|exact Hy].
      * intros (a & ms' & b & Heq & Ha & Hy). destruct a as [|x a]; inversion Heq; subst; [congruence|].
        inversion Ha; subst. exists a, ms', b. repeat split; assumption.
    + split; [discriminate|]. intros (a & ms' & b & Heq & Ha & Hy). destruct a as [|x a]; inversion Heq; subst; [congruence|].
      inversion Ha; subst. congruence.
    + split; [discriminate|]. intros (a & ms' & b & Heq & Ha & Hy). destruct a as [|x a]; inversion Heq; subst; [congruence|].
      inversion Ha; subst. congruence.
    + split; [discriminate|]. intros (a & ms' & b & Heq & Ha & Hy). destruct a as [|x a]; inversion Heq; subst; [congruence|].
      inversion Ha; subst. congruence.
Qed.

(* ---- postgres ---- *)
Lemma pg_read_string_field k rest : no_nul k -> pg_read_string (Some (k ++ x00 :: rest)) = Some (k, Some rest).
Proof.
  intro Hk. unfold pg_read_string. rewrite index_byte_first by exact Hk.
  rewrite firstn_app, Nat.sub_diag, firstn_all. cbn [firstn]. rewrite app_nil_r.
  replace (skipn (S (length k)) (k ++ x00 :: rest)) with rest; [reflexivity|].
  rewrite skipn_app. rewrite skipn_all2 by lia. replace (S (length k) - length k)%nat with 1%nat by lia. reflexivity.
Qed.

Lemma pg_params_encoded ps : forall fuel n,
  Forall (fun kv : list byte * list byte => fst kv <> [] /\ no_nul (fst kv) /\ no_nul (snd kv)) ps ->
  (length (pg_enc_params ps) < fuel)%nat ->
  pg_params fuel (Some (pg_enc_params ps ++ [x00])) n = PgCount (n + N.of_nat (length ps)).
Proof.
  induction ps as [|[k v] r IH]; intros fuel n Hf Hl.
  - destruct fuel as [|f]; [cbn in Hl; lia|]. cbn [pg_enc_params app length]. rewrite N.add_0_r.
    cbn [pg_params]. change [x00] with ([] ++ x00 :: []) at 1. rewrite pg_read_string_field by (intros []). reflexivity.
  - inversion Hf as [|? ? (Hk & Hnk & Hnv) Hr]; subst. cbn [fst snd] in *.
    destruct fuel as [|f]; [lia|].
    cbn [pg_enc_params] in *. rewrite !app_length in Hl. cbn [length] in Hl.
    replace ((k ++ [x00] ++ v ++ [x00] ++ pg_enc_params r) ++ [x00])
      with (k ++ x00 :: (v ++ x00 :: (pg_enc_params r ++ [x00]))) by (rewrite <- !app_assoc; reflexivity).
    cbn [pg_params]. rewrite pg_read_string_field by exact Hnk.
    destruct k as [|x k]; [congruence|]. rewrite pg_read_string_field by exact Hnv.
    rewrite IH; [|exact Hr|unfold byte in *; lia]. cbn [length]. f_equal. lia.
Qed.

Lemma sub32_small a b : (b <= a)%N -> (a < two32)%N -> sub32 a b = (a - b)%N.
Proof.
  intros H1 H2. unfold sub32. replace (a + two32 - b)%N with ((a - b) + 1 * two32)%N by lia.
  rewrite N.mod_add by (unfold two32; lia). apply N.mod_small. lia.
Qed.

Definition pg_after_frame (body : list byte) : verdict :=
  match slice body 0 4 with
  | None => Panic
  | Some c4 =>
      let code := be_N c4 in
      if (code =? pg_sslcode)%N then Yes else
      if (code / 65536 <? 3)%N then Fail else
      match pg_params (S (length body)) (Some (skipn 4 body)) 0 with
      | PgFuel => Panic
      | PgPast => No
      | PgCount c => if (0 <? c)%N then Yes else No
      end
  end.

Lemma pg_frame_run body t :
  (4 <= length body)%nat -> (N.of_nat (length body) <= maxMatching)%N ->
  fst (pg_run_gen true true true (N_to_be 4 (N.of_nat (4 + length body)) ++ body ++ t)) = pg_after_frame body.
Proof.
  intros H4 Hmax. rewrite consts_max in Hmax. unfold pg_run_gen, pg_after_frame. destruct consts_pg as [-> _].
  change (N.to_nat 4) with 4%nat. rewrite (read_full_exact 4) by apply N_to_be_length.
  rewrite be_N_to_be by (change (256 ^ N.of_nat 4)%N with 4294967296%N; lia).
  rewrite sub32_small by (unfold two32; lia).
  replace (N.of_nat (4 + length body) - 4)%N with (N.of_nat (length body)) by lia.
  cbn [andb].
  replace (N.of_nat (4 + length body) <? 4)%N with false by (symmetry; apply N.ltb_ge; lia).
  replace (maxMatching <? N.of_nat (length body))%N with false by (symmetry; apply N.ltb_ge; rewrite consts_max; lia).
  cbn [orb]. rewrite read_fullN_exact by reflexivity.
  replace (length body <? 4)%nat with false by (symmetry; apply Nat.ltb_ge; lia).
  destruct (slice body 0 4) as [c4|]; [|reflexivity]. cbn zeta.
  destruct (_ =? _)%N; [reflexivity|]. destruct (_ <? _)%N; [reflexivity|].
  destruct (pg_params _ _ _); reflexivity.
Qed.

Lemma pg_fixed_iff_ref m t : pg_typed m -> (fst (pg_run_gen true true true (pg_encode m ++ t)) = Yes <-> pg_wf m).
Proof.
  intro Ht. unfold pg_encode. rewrite <- app_assoc. destruct m as [|maj min ps].
  - rewrite pg_frame_run; [|cbn; lia|vm_compute; discriminate]. split; [intros _; exact I|intros _; vm_compute; reflexivity].
  - destruct Ht as ((Hmaj & Hmin) & Hmax & Hps & Hne).
    assert (Hb : pg_body (PgStartup maj min ps) = (N_to_be 2 maj ++ N_to_be 2 min) ++ (pg_enc_params ps ++ [x00]))
      by (cbn [pg_body]; rewrite <- !app_assoc; reflexivity).
    assert (Hl4 : length (N_to_be 2 maj ++ N_to_be 2 min) = 4%nat) by (rewrite app_length, !N_to_be_length; reflexivity).
    rewrite pg_frame_run; [|rewrite Hb, app_length, Hl4; lia|exact Hmax].
    unfold pg_after_frame. rewrite Hb.
    pose proof (slice_mid [] (N_to_be 2 maj ++ N_to_be 2 min) (pg_enc_params ps ++ [x00])) as Hs.
    cbn [app length] in Hs. rewrite Hl4 in Hs. cbn [Nat.add] in Hs. rewrite Hs. cbv zeta.
    rewrite be_N_app, !be_N_to_be, N_to_be_length by (change (256 ^ N.of_nat 2)%N with 65536%N; lia).
    change (256 ^ N.of_nat 2)%N with 65536%N. destruct consts_pg as [_ ->].
    replace (maj * 65536 + min =? 80877103)%N with false by (symmetry; apply N.eqb_neq; exact Hne).
    replace ((maj * 65536 + min) / 65536)%N with maj
      by (apply N.div_unique with (r := min); lia).
    cbn [pg_wf]. destruct (N.ltb_spec maj 3) as [Hlt|Hge].
    { split; [discriminate|]. intros [H _]. lia. }
    replace (skipn 4 ((N_to_be 2 maj ++ N_to_be 2 min) ++ pg_enc_params ps ++ [x00])) with (pg_enc_params ps ++ [x00])
      by (rewrite skipn_app, Hl4; rewrite skipn_all2 by lia; reflexivity).
    rewrite pg_params_encoded; [|exact Hps|rewrite !app_length; lia].
    destruct ps as [|p ps]; cbn [length].
    + split; [discriminate|]. intros [_ H]. congruence.
    + split; [|intros _; replace (0 <? 0 + N.of_nat (S (length ps)))%N with true by (symmetry; apply N.ltb_lt; lia); reflexivity].
      intros _. split; [exact Hge|discriminate].
Qed.

Lemma pg_match_iff_ref m t : pg_typed m -> (pg_match (pg_encode m ++ t) = Yes <-> pg_wf m).
Proof. unfold pg_match. rewrite pg_run_eq. apply pg_fixed_iff_ref. Qed.

(* the sniff is deliberately lax in two places the wire definition is not: an SSLRequest code is
   accepted with any length field, and the terminator after the last pair may be missing *)
Lemma pg_accepts_sslcode_any_length : fst (pg_run_gen true true true (unhex "0000001004d2162f0000000000000000")) = Yes.
Proof. vm_compute. reflexivity. Qed.
Lemma pg_accepts_missing_final_terminator : fst (pg_run_gen true true true (unhex "0000000f0003000075736572006100")) = Yes.
Proof. vm_compute. reflexivity. Qed.

(* ---- http request-line gate ---- *)
Lemma slice_mid_n (a m b : list byte) n : length m = n -> slice (a ++ m ++ b) (length a) (length a + n) = Some m.
Proof. intros <-. apply slice_mid. Qed.
Lemma http_match_iff_ref m : http_typed m -> (http_gate (http_encode m) = Yes <-> http_wf m).
Proof.
  intros (Hm & Ht & Hw & Hwl & Hmaj & Hmin & Hcr). unfold http_encode, http_wf, x0a_free in *.
  change (unhex "20") with [x20]. change (unhex "2e") with [x2e]. change (unhex "0d0a") with [x0d; x0a]. change (unhex "0a") with [x0a].
  set (A := hr_method m ++ [x20] ++ hr_target m).
  set (W := x20 :: hr_word m).
  set (V := [hr_maj m; x2e; hr_min m]).
  assert (HA : ~ In x0a A).
  { unfold A. rewrite !in_app_iff. cbn [In]. intros [H|[[H|[]]|H]]; [tauto|discriminate|tauto]. }
  assert (HW : ~ In x0a W) by (unfold W; cbn [In]; intros [H|H]; [discriminate|tauto]).
  assert (HV : ~ In x0a V) by (unfold V; cbn [In]; intros [H|[H|[H|[]]]]; [congruence|discriminate|congruence]).
  assert (HlW : length W = 6%nat) by (exact (f_equal S Hwl)).
  assert (HlA : (1 <= length A)%nat) by (unfold A; rewrite !app_length; cbn [length]; lia).
  assert (Hgoal : forall data i c, data = A ++ W ++ (V ++ (if Byte.eqb c x0d then [x0d] else []) ++ x0a :: hr_rest m) ->
            index_byte data x0a = Some i -> i = (length A + 9 + (if Byte.eqb c x0d then 1 else 0))%nat -> index data (i - 1) = Some c ->
            (http_gate data = Yes <-> hr_word m = unhex "485454502f")).
  { intros data i c Hd Hi Hiv Hc. unfold http_gate. rewrite Hi.
    destruct (Nat.ltb_spec i 10) as [Hlt|_]; [destruct (Byte.eqb c x0d); lia|]. rewrite Hc.
    assert (Hs : slice data (fst (if Byte.eqb c x0d then (i - 9 - 1, i - 3 - 1)%nat else (i - 9, i - 3)%nat))
                            (snd (if Byte.eqb c x0d then (i - 9 - 1, i - 3 - 1)%nat else (i - 9, i - 3)%nat)) = Some W).
    { pose proof (slice_mid_n A W (V ++ (if Byte.eqb c x0d then [x0d] else []) ++ x0a :: hr_rest m) 6 HlW) as Hsm.
      subst data. destruct (Byte.eqb c x0d); cbn [fst snd];
        [replace (i - 9 - 1)%nat with (length A) by lia; replace (i - 3 - 1)%nat with (length A + 6)%nat by lia
        |replace (i - 9)%nat with (length A) by lia; replace (i - 3)%nat with (length A + 6)%nat by lia]; exact Hsm. }
    rewrite Hs. unfold W, http_word. change (unhex "20485454502f") with (x20 :: unhex "485454502f").
    cbn [bytes_eqb]. rewrite byte_eqb_refl. cbn [andb].
    destruct (bytes_eqb (hr_word m) (unhex "485454502f")) eqn:E.
    - apply bytes_eqb_eq in E. split; [intros _; exact E|reflexivity].
    - split; [discriminate|]. intro H. apply bytes_eqb_eq in H. congruence. }
  destruct (hr_crlf m) eqn:Ecr.
  - apply (Hgoal _ (length A + 6 + 3 + 1)%nat x0d).
    + rewrite byte_eqb_refl. unfold A, W, V. rewrite <- !app_assoc. reflexivity.
    + replace (hr_method m ++ [x20] ++ hr_target m ++ [x20] ++ hr_word m ++ [hr_maj m] ++ [x2e] ++ [hr_min m] ++ [x0d; x0a] ++ hr_rest m)
        with ((A ++ W ++ V ++ [x0d]) ++ x0a :: hr_rest m) by (unfold A, W, V; rewrite <- !app_assoc; reflexivity).
      rewrite index_byte_first.
      * rewrite !app_length, HlW. unfold V. cbn [length]. f_equal. lia.
      * rewrite !in_app_iff. cbn [In]. intros [H|[H|[H|[H|[]]]]]; [tauto|tauto|tauto|discriminate].
    + rewrite byte_eqb_refl. lia.
    + replace (hr_method m ++ [x20] ++ hr_target m ++ [x20] ++ hr_word m ++ [hr_maj m] ++ [x2e] ++ [hr_min m] ++ [x0d; x0a] ++ hr_rest m)
        with ((A ++ W ++ V) ++ x0d :: (x0a :: hr_rest m)) by (unfold A, W, V; rewrite <- !app_assoc; reflexivity).
      replace (length A + 6 + 3 + 1 - 1)%nat with (length (A ++ W ++ V)) by (rewrite !app_length, HlW; unfold V; cbn [length]; lia).
      apply nth_error_mid.
  - specialize (Hcr eq_refl).
    assert (Hne : Byte.eqb (hr_min m) x0d = false).
    { destruct (Byte.eqb (hr_min m) x0d) eqn:E; [|reflexivity]. apply byte_eqb_eq in E. congruence. }
    apply (Hgoal _ (length A + 6 + 3)%nat (hr_min m)).
    + rewrite Hne. unfold A, W, V. rewrite <- !app_assoc. reflexivity.
    + replace (hr_method m ++ [x20] ++ hr_target m ++ [x20] ++ hr_word m ++ [hr_maj m] ++ [x2e] ++ [hr_min m] ++ [x0a] ++ hr_rest m)
        with ((A ++ W ++ V) ++ x0a :: hr_rest m) by (unfold A, W, V; rewrite <- !app_assoc; reflexivity).
      rewrite index_byte_first.
      * rewrite !app_length, HlW. unfold V. cbn [length]. f_equal. lia.
      * rewrite !in_app_iff. tauto.
    + rewrite Hne. lia.
    + replace (hr_method m ++ [x20] ++ hr_target m ++ [x20] ++ hr_word m ++ [hr_maj m] ++ [x2e] ++ [hr_min m] ++ [x0a] ++ hr_rest m)
        with ((A ++ W ++ [hr_maj m; x2e]) ++ hr_min m :: (x0a :: hr_rest m)) by (unfold A, W; rewrite <- !app_assoc; reflexivity).
      replace (length A + 6 + 3 - 1)%nat with (length (A ++ W ++ [hr_maj m; x2e])) by (rewrite !app_length, HlW; unfold V; cbn [length]; lia).
      apply nth_error_mid.
Qed.

Lemma re_provision_spec : re_provision 0 = 4%N /\ forall c, (0 < c)%N -> re_provision c = c.
Proof.
  split; [reflexivity|]. intros c Hc. unfold re_provision. destruct (c =? 0)%N eqn:E; [|reflexivity].
  apply N.eqb_eq in E. subst. discriminate.
Qed.

(* ---- the boolean references used by the engine are the references ---- *)
Lemma socks5_ref_b_iff auth m : socks5_ref_b auth m = true <-> socks5_wf m /\ socks5_passes auth m.
Proof.
  unfold socks5_ref_b, socks5_wf, socks5_passes. rewrite !andb_true_iff, N.eqb_eq, Nat.leb_le, forallb_auth. tauto.
Qed.

Lemma pg_ref_b_iff m : pg_ref_b m = true <-> pg_wf m.
Proof.
  destruct m as [|maj min ps]; cbn [pg_ref_b pg_wf]; [tauto|].
  rewrite andb_true_iff, N.leb_le. destruct ps; cbn [nonempty]; split; intros [H1 H2]; split; try assumption; try discriminate; try reflexivity.
  congruence.
Qed.

Lemma socks4_ref_b_iff cfg m :
  socks4_typed m -> Forall cidr_typed (s4_cidrs cfg) ->
  (socks4_ref_b cfg m = true <-> socks4_wf m /\ socks4_passes cfg m).
Proof.
  intros [_ Hip] Hc. change two32 with (2 ^ 32)%N in Hip.
  unfold socks4_ref_b, socks4_wf, socks4_passes. rewrite !andb_true_iff, !orb_true_iff, N.eqb_eq, !existsb_N_In, !negb_true_iff, !nonempty_false.
  assert (Hcid : existsb (fun c => negb (c_is6 c) && (c_bits c <=? 32)%N &&
                      (N.shiftr (s4_ip m) (32 - c_bits c) =? N.shiftr (c_addr c) (32 - c_bits c))%N) (s4_cidrs cfg) = true
                 <-> exists c, In c (s4_cidrs cfg) /\ cidr_contains4 c (s4_ip m)).
  { rewrite existsb_exists. split; intros (c & Hin & H); exists c; (split; [exact Hin|]).
    - apply andb_true_iff in H. destruct H as [H H3]. apply andb_true_iff in H. destruct H as [H1 H2].
      apply negb_true_iff in H1. apply N.leb_le in H2. apply N.eqb_eq in H3.
      assert (Hct : (c_addr c < 2 ^ 32)%N).
      { rewrite Forall_forall in Hc. specialize (Hc c Hin). unfold cidr_typed in Hc. rewrite H1 in Hc. exact Hc. }
      repeat split; [exact H1|exact H2|]. apply shiftr_eq_iff in H3; assumption.
    - destruct H as (H1 & H2 & H3).
      assert (Hct : (c_addr c < 2 ^ 32)%N).
      { rewrite Forall_forall in Hc. specialize (Hc c Hin). unfold cidr_typed in Hc. rewrite H1 in Hc. exact Hc. }
      rewrite H1. cbn [negb andb]. apply andb_true_iff. split; [apply N.leb_le; exact H2|].
      apply N.eqb_eq. apply shiftr_eq_iff; assumption. }
  rewrite Hcid. tauto.
Qed.

(* an RFC 6120 header is recognised when its default-namespace attribute begins within the first
   36 bytes (so that the word ends by byte 50) *)
Lemma xmpp_header_early_namespace h :
  (length (xh_pre h) + 14 <= 50)%nat -> (50 <= length (xmpp_encode h))%nat -> xmpp_match (xmpp_encode h) = Yes.
Proof.
  intros Hpre Hlen. apply xmpp_iff_occurs. split; [exact Hlen|].
  exists (length (xh_pre h) + 8)%nat. split; [lia|].
  exists (xh_pre h ++ unhex "20786d6c6e733d27"), ((if xh_server h then unhex "3a73657276657227" else unhex "3a636c69656e7427") ++ xh_post h).
  split; [unfold xmpp_encode; rewrite <- !app_assoc; reflexivity|rewrite app_length; reflexivity].
Qed.

(* ---- MatcherSets.AnyMatch ---- *)
Lemma any_go_stable sets : Forall (Forall stable_yn) sets -> stable_yn (any_match_go sets).
Proof.
  induction 1 as [|ms sets Hms _ IH]; intros p s H; cbn in *; [reflexivity|].
  pose proof (mset_stable ms Hms) as Hst.
  destruct (mset_match ms p) eqn:E; try (destruct H; discriminate).
  - rewrite (Hst p s (or_introl E)), E. reflexivity.
  - rewrite (Hst p s (or_intror E)), E. apply IH. exact H.
Qed.
Lemma any_stable sets : Forall (Forall stable_yn) sets -> stable_yn (any_match sets).
Proof. intro H. destruct sets as [|ms sets]; [intros p s _; reflexivity|]. exact (any_go_stable _ H). Qed.

Lemma any_go_no_iff sets p : any_match_go sets p = No <-> Forall (fun ms => mset_match ms p = No) sets.
Proof.
  induction sets as [|ms sets IH]; cbn; [split; [constructor|reflexivity]|].
  destruct (mset_match ms p) eqn:E; split; intro H; try discriminate; try (inversion H; subst; congruence).
  - constructor; [exact E|apply IH; exact H].
  - inversion H; subst. apply IH. assumption.
Qed.
Lemma any_go_yes_iff sets p :
  any_match_go sets p = Yes <->
  exists a ms b, sets = a ++ ms :: b /\ Forall (fun ms' => mset_match ms' p = No) a /\ mset_match ms p = Yes.
Proof.
  induction sets as [|ms sets IH]; cbn.
  - split; [discriminate|]. intros (a & ms & b & H & _). destruct a; discriminate.
  - destruct (mset_match ms p) eqn:E.
    + split; [|reflexivity]. intros _. exists [], ms, sets. repeat split; [constructor|exact E].
    + rewrite IH. split.
      * intros (a & ms' & b & -> & Ha & Hy). exists (ms :: a), ms', b. repeat split; [constructor; assumption|exact Hy].
      * intros (a & ms' & b & Heq & Ha & Hy). destruct a as [|x a]; inversion Heq; subst; [congruence|].
        inversion Ha; subst. exists a, ms', b. repeat split; assumption.
    + split; [discriminate|]. intros (a & ms' & b & Heq & Ha & Hy). destruct a as [|x a]; inversion Heq; subst; [congruence|].
      inversion Ha; subst. congruence.
    + split; [discriminate|]. intros (a & ms' & b & Heq & Ha & Hy). destruct a as [|x a]; inversion Heq; subst; [congruence|].
      inversion Ha; subst. congruence.
    + split; [discriminate|]. intros (a & ms' & b & Heq & Ha & Hy). destruct a as [|x a]; inversion Heq; subst; [congruence|].
      inversion Ha; subst. congruence.
Qed.
(* not is the negation of the OR whenever the OR is decided *)
Lemma not_is_negated_any sets p : sets <> [] ->
  (not_match sets p = Yes <-> any_match sets p = No) /\ (not_match sets p = No <-> any_match sets p = Yes).
Proof.
  intro Hne. destruct sets as [|ms0 sets0]; [congruence|]. unfold any_match.
  split; [rewrite not_yes_iff, any_go_no_iff; tauto|rewrite not_no_iff, any_go_yes_iff; tauto].
Qed.
