(* Lemmas about model/Timing.v and the timed behaviour of model/Router.v (property C05). *)
From Coq Require Import List NArith ZArith Bool Arith Lia.
From Coq.Strings Require Import Byte.
From L4.model Require Import GoBase Router RouterSpec Timing.
From L4.gen Require Import Consts Shape.
From L4.proofs Require Import RouterProofs.
Import ListNotations.
Open Scope Z_scope.

(* ------------------------------------------------------------ the two networks keep their contracts *)
Lemma take_spec max d rest c n r n' : take max d rest c n = (r, n') ->
  r = RData (firstn max d) /\ clock n' = c /\ dl n' = dl n.
Proof. unfold take. intro H; inversion H; subst; cbn; auto. Qed.

Lemma passed_true o t : passed o t = true -> exists D, o = Some D /\ D <= t.
Proof. destruct o as [D|]; cbn; [|discriminate]. intro H. apply Z.leb_le in H. eauto. Qed.
Lemma passed_false o t D : passed o t = false -> o = Some D -> t < D.
Proof. intros H ->. cbn in H. apply Z.leb_gt in H. exact H. Qed.

Ltac inv H := inversion H; subst; clear H.

(* TCP *)
Lemma tcp_read_dl max n : dl (snd (tcp_read max n)) = dl n.
Proof.
  unfold tcp_read. destruct (passed (dl n) (clock n)); [reflexivity|].
  destruct (unread n); [|reflexivity].
  destruct (pend n) as [|[ta d] rest]; [destruct (passed _ _); reflexivity|].
  destruct (passed _ _); reflexivity.
Qed.

Lemma tcp_read_mono max n : clock n <= clock (snd (tcp_read max n)).
Proof.
  unfold tcp_read. destruct (passed (dl n) (clock n)) eqn:E0; [cbn; lia|].
  destruct (unread n); [|cbn; lia].
  destruct (pend n) as [|[ta d] rest].
  - destruct (passed (dl n) (Z.max (fin n) (clock n))) eqn:E; cbn; [|lia].
    apply passed_true in E. destruct E as (D & HD & _). rewrite HD. pose proof (passed_false _ _ D E0 HD). lia.
  - destruct (passed (dl n) (Z.max ta (clock n))) eqn:E; cbn; [|lia].
    apply passed_true in E. destruct E as (D & HD & _). rewrite HD. pose proof (passed_false _ _ D E0 HD). lia.
Qed.

(* never early: a read fails with a timeout only at or after the deadline that is set *)
Lemma tcp_not_early max n n' : tcp_read max n = (RTimeout, n') -> exists D, dl n = Some D /\ D <= clock n'.
Proof.
  unfold tcp_read. destruct (passed (dl n) (clock n)) eqn:E0.
  { intro H; inv H. apply passed_true in E0. exact E0. }
  destruct (unread n); [|intro H; apply take_spec in H; destruct H as [H _]; discriminate].
  destruct (pend n) as [|[ta d] rest].
  - destruct (passed (dl n) (Z.max (fin n) (clock n))) eqn:E; [|discriminate].
    intro H; inv H. apply passed_true in E. destruct E as (D & HD & _). exists D. rewrite HD. cbn. split; [reflexivity|lia].
  - destruct (passed (dl n) (Z.max ta (clock n))) eqn:E; [|intro H; apply take_spec in H; destruct H as [H _]; discriminate].
    intro H; inv H. apply passed_true in E. destruct E as (D & HD & _). exists D. rewrite HD. cbn. split; [reflexivity|lia].
Qed.

(* never late: with a deadline set, a read returns no later than max(now, deadline) *)
Lemma tcp_by_deadline max n D : dl n = Some D -> clock (snd (tcp_read max n)) <= Z.max (clock n) D.
Proof.
  intro HD. unfold tcp_read. destruct (passed (dl n) (clock n)) eqn:E0; [cbn; lia|].
  destruct (unread n); [|cbn; lia].
  destruct (pend n) as [|[ta d] rest].
  - destruct (passed (dl n) (Z.max (fin n) (clock n))) eqn:E; cbn; [rewrite HD; lia|].
    pose proof (passed_false _ _ D E HD). lia.
  - destruct (passed (dl n) (Z.max ta (clock n))) eqn:E; cbn; [rewrite HD; lia|].
    pose proof (passed_false _ _ D E HD). lia.
Qed.

Lemma tcp_data_len max n d n' : tcp_read max n = (RData d, n') -> (length d <= max)%nat.
Proof.
  unfold tcp_read. destruct (passed (dl n) (clock n)); [discriminate|].
  destruct (unread n) eqn:EU.
  - destruct (pend n) as [|[ta d0] rest]; [destruct (passed _ _); discriminate|].
    destruct (passed _ _); [discriminate|]. intro H; apply take_spec in H. destruct H as [H _]. inv H. apply firstn_le_length.
  - intro H; apply take_spec in H. destruct H as [H _]. inv H. apply firstn_le_length.
Qed.

(* UDP virtual connection, for any storage granularity g > 0 *)
Lemma udp_store_le g t : 0 < g -> udp_store g t <= t.
Proof. intro Hg. unfold udp_store. pose proof (Z.mul_div_le t g Hg). lia. Qed.
Lemma udp_store_ns t : udp_store 1 t = t.
Proof. unfold udp_store. rewrite Z.div_1_r. lia. Qed.

Lemma udp_read_dl g max n : dl (snd (udp_read_g g max n)) = dl n.
Proof.
  unfold udp_read_g. destruct (unread n); [|reflexivity].
  destruct (exceeded _ _); [reflexivity|].
  destruct (_ <? _).
  - destruct (pend n) as [|[ta d] rest]; reflexivity.
  - destruct (dl n) eqn:HD; [destruct (_ <=? _)|]; cbn; rewrite ?HD; reflexivity.
Qed.

Lemma udp_read_mono g max n : 0 <= udp_idle -> clock n <= clock (snd (udp_read_g g max n)).
Proof.
  intro Hi. unfold udp_read_g. destruct (unread n); [|cbn; lia].
  destruct (exceeded _ _); [cbn; lia|].
  destruct (_ <? _).
  - destruct (pend n) as [|[ta d] rest]; cbn; lia.
  - destruct (dl n); [destruct (_ <=? _)|]; cbn; lia.
Qed.

Lemma udp_by_deadline g max n D : dl n = Some D -> clock (snd (udp_read_g g max n)) <= Z.max (clock n) D.
Proof.
  intro HD. unfold udp_read_g. destruct (unread n); [|cbn; lia].
  destruct (exceeded _ _); [cbn; lia|]. rewrite HD.
  destruct (_ <? _) eqn:E.
  - apply Z.ltb_lt in E. destruct (pend n) as [|[ta d] rest]; cbn; lia.
  - destruct (_ <=? _) eqn:E2; cbn; [lia|]. apply Z.leb_gt in E2. lia.
Qed.

Lemma udp_data_len g max n d n' : udp_read_g g max n = (RData d, n') -> (length d <= max)%nat.
Proof.
  unfold udp_read_g. destruct (unread n) eqn:EU.
  - destruct (exceeded _ _); [discriminate|]. destruct (_ <? _).
    + destruct (pend n) as [|[ta d0] rest]; [discriminate|]. intro H; apply take_spec in H. destruct H as [H _]. inv H. apply firstn_le_length.
    + destruct (dl n); [destruct (_ <=? _)|]; discriminate.
  - intro H; apply take_spec in H. destruct H as [H _]. inv H. apply firstn_le_length.
Qed.

(* with the deadline stored at nanosecond granularity the emulation is never early ... *)
Lemma udp_not_early_ns max n n' : udp_read_g 1 max n = (RTimeout, n') -> exists D, dl n = Some D /\ D <= clock n'.
Proof.
  unfold udp_read_g. destruct (unread n); [|intro H; apply take_spec in H; destruct H as [H _]; discriminate].
  unfold udp_stored. destruct (dl n) as [D|] eqn:HD; cbn [option_map exceeded].
  - rewrite udp_store_ns. destruct (D <? clock n) eqn:E.
    + intro H; inv H. apply Z.ltb_lt in E. exists D. split; [reflexivity|lia].
    + destruct (pend n) as [|[ta d] rest].
      * destruct (Z.max (fin n) (clock n) <? _); [discriminate|].
        destruct (Z.max D (clock n) <=? _); [|discriminate]. intro H; inv H. exists D. split; [reflexivity|]. cbn. lia.
      * destruct (Z.max ta (clock n) <? _); [intro H; apply take_spec in H; destruct H as [H _]; discriminate|].
        destruct (Z.max D (clock n) <=? _); [|discriminate]. intro H; inv H. exists D. split; [reflexivity|]. cbn. lia.
  - destruct (pend n) as [|[ta d] rest].
    + destruct (_ <? _); discriminate.
    + destruct (_ <? _); [intro H; apply take_spec in H; destruct H as [H _]; discriminate|discriminate].
Qed.

(* ... with whole-second storage (Go's t.Unix()) it is: deadline 1.36 s, read entered at 1.11 s *)
Lemma udp_early_with_seconds :
  exists n n', udp_read_g 1000000000 1 n = (RTimeout, n') /\ dl n = Some 1360000000 /\ clock n' = 1110000000.
Proof.
  exists {| clock := 1110000000; dl := Some 1360000000; unread := []; pend := []; fin := 5000000000; stale := false |}.
  eexists. split; [vm_compute; reflexivity|split; reflexivity].
Qed.

(* ---- packetConn.Read over the deadline timer with a possibly stale tick ---- *)
Lemma udp_m_cases rechk g max n :
  (rechk = false /\ (exists T, dl n = Some T) /\ udp_read_m rechk g max n = (RTimeout, unstale n)) \/
  (exists n0, (n0 = n \/ n0 = unstale n) /\ udp_read_m rechk g max n = udp_read_g g max n0).
Proof.
  unfold udp_read_m. destruct (unread n) eqn:EU; [|right; exists n; auto].
  destruct (exceeded (udp_stored g n) (clock n)) eqn:EX.
  { right. exists n. split; [auto|]. unfold udp_read_g. rewrite EU, EX. reflexivity. }
  destruct (stale n); [|right; exists n; auto].
  destruct rechk; cbn [negb andb]; [right; exists (unstale n); auto|].
  destruct (dl n) as [T|] eqn:ED; [left; eauto|right; exists (unstale n); auto].
Qed.

Ltac udp_m_split rechk g max n :=
  destruct (udp_m_cases rechk g max n) as [(_ & _ & ->)|(n0 & [->| ->] & ->)].

Lemma udp_m_dl rechk g max n : dl (snd (udp_read_m rechk g max n)) = dl n.
Proof. udp_m_split rechk g max n; [reflexivity|apply udp_read_dl|apply (udp_read_dl g max (unstale n))]. Qed.

Lemma udp_m_by_deadline rechk g max n D : dl n = Some D -> clock (snd (udp_read_m rechk g max n)) <= Z.max (clock n) D.
Proof.
  intro HD. udp_m_split rechk g max n; [cbn; lia|apply udp_by_deadline; exact HD|apply (udp_by_deadline g max (unstale n) D HD)].
Qed.

Lemma udp_m_data_len rechk g max n d n' : udp_read_m rechk g max n = (RData d, n') -> (length d <= max)%nat.
Proof. udp_m_split rechk g max n; [discriminate|apply udp_data_len|apply udp_data_len]. Qed.

(* never early needs both: nanosecond storage and the recheck of a tick *)
Lemma udp_m_not_early max n n' : udp_read_m true 1 max n = (RTimeout, n') -> exists D, dl n = Some D /\ D <= clock n'.
Proof.
  destruct (udp_m_cases true 1 max n) as [(H & _)|(n0 & [->| ->] & ->)]; [discriminate|apply udp_not_early_ns|].
  apply (udp_not_early_ns max (unstale n) n').
Qed.

(* ------------------------------------------------------------ timed behaviour of Compile over any network that keeps the contracts *)
Section Timed.
Variable net : Type.
Variable now : net -> Z.
Variable set_dl : option Z -> net -> net.
Variable nread : nat -> net -> rres * net.
Variable npush : list byte -> net -> net.
Variable cur_dl : net -> option Z.
Hypothesis H_set_dl : forall v n, cur_dl (set_dl v n) = v.
Hypothesis H_set_now : forall v n, now (set_dl v n) = now n.
Hypothesis H_by : forall m n D, cur_dl n = Some D -> now (snd (nread m n)) <= Z.max (now n) D.
(* "never early" is a property some networks have and some do not: it is a parameter of the conclusions *)
Variable NE : Prop.
Hypothesis H_ne : NE -> forall m n n', nread m n = (RTimeout, n') -> exists D, cur_dl n = Some D /\ D <= now n'.

Notation st := (st net).
Notation res := (res net).
Notation emit := (emit net now).
Notation arm := (arm net now set_dl).
Notation clear := (clear net now set_dl).
Notation prefetch := (prefetch net nread).
Notation read_full_st := (read_full_st net nread).
Notation chain := (chain net now nread npush).
Notation pass := (pass net now set_dl nread npush).
Notation loop := (loop net now set_dl nread npush).
Notation compile := (compile net now set_dl nread npush).
Notation T := (fun s : st => now (nt s)).

Definition evsX (X : list (Z * ev)) : list ev := map snd X.
Definition nodrop (d : nat) (X : list (Z * ev)) : Prop := forall te w, In te X -> snd te <> EDrop d w.
Definition notimeout (d : nat) (X : list (Z * ev)) : Prop := forall tm, ~ In (tm, EDrop d DTimeout) X.
Definition bounded (M : Z) (X : list (Z * ev)) : Prop := Forall (fun te => fst te <= M) X.

Lemma tr_emit e s : tr (emit e s) = tr s ++ [(now (nt s), e)]. Proof. reflexivity. Qed.
Lemma tr_clear s : tr (clear s) = tr s ++ [(now (nt s), EClear)].
Proof. unfold Router.clear. rewrite tr_emit. cbn. rewrite H_set_now. reflexivity. Qed.
Lemma tr_arm dl s : tr (arm dl s) = tr s ++ [(now (nt s), EArm)].
Proof. unfold Router.arm. rewrite tr_emit. cbn. rewrite H_set_now. reflexivity. Qed.
Lemma T_clear s : now (nt (clear s)) = now (nt s). Proof. cbn. apply H_set_now. Qed.
Lemma T_arm dl s : now (nt (arm dl s)) = now (nt s). Proof. cbn. apply H_set_now. Qed.
Lemma dl_arm dl s : cur_dl (nt (arm dl s)) = Some dl. Proof. cbn. apply H_set_dl. Qed.

Lemma read_full_st_tr k s r s' : read_full_st k s = (r, s') -> tr s' = tr s.
Proof.
  unfold Router.read_full_st. destruct (k <=? length (avail s))%nat.
  - intro H; inversion H; subst; reflexivity.
  - destruct (net_read_full net nread (S k) (k - length (avail s)) (avail s) (nt s)) as [r0 n'].
    intro H; inversion H; subst; reflexivity.
Qed.

Lemma until_run_app d A B : until_run d (A ++ B) = if has_run_at d A then until_run d A else A ++ until_run d B.
Proof.
  unfold has_run_at. induction A as [|te A IH]; [reflexivity|]. cbn. destruct (is_run d (snd te)); cbn; [reflexivity|].
  rewrite IH. destruct (existsb _ A); reflexivity.
Qed.
Lemma has_run_at_app d A B : has_run_at d (A ++ B) = has_run_at d A || has_run_at d B.
Proof. apply existsb_app. Qed.
Lemma bounded_app M A B : bounded M A -> bounded M B -> bounded M (A ++ B).
Proof. intros; apply Forall_app; auto. Qed.
Lemma nodrop_min_depth d X : min_depth (S d) (evsX X) -> nodrop d X.
Proof.
  intros Hm te w Hin Heq. unfold min_depth, evsX in Hm. rewrite Forall_forall in Hm.
  specialize (Hm (snd te) (in_map snd _ _ Hin)). rewrite Heq in Hm. cbn in Hm. lia.
Qed.
Lemma nodrop_app d A B : nodrop d A -> nodrop d B -> nodrop d (A ++ B).
Proof. intros HA HB te w Hin. apply in_app_or in Hin. destruct Hin; [eapply HA|eapply HB]; eauto. Qed.
Lemma notimeout_app d A B : notimeout d A -> notimeout d B -> notimeout d (A ++ B).
Proof. intros HA HB tm Hin. apply in_app_or in Hin. destruct Hin; [eapply HA|eapply HB]; eauto. Qed.
Lemma nodrop_notimeout d X : nodrop d X -> notimeout d X.
Proof. intros H tm Hin. apply (H _ DTimeout Hin). reflexivity. Qed.

Definition sub_t_ok (c : nat -> list route -> Z -> (st -> res) -> st -> res) : Prop :=
  forall d rs t s, exists X, tr (res_st (c d rs t (fun s' => Cont s') s)) = tr s ++ X /\ min_depth d (evsX X).

Section Level.
Variable sub : nat -> list route -> Z -> (st -> res) -> st -> res.
Hypothesis sub_tail : tail_ok net sub.
Hypothesis sub_t : sub_t_ok sub.
Variable d : nat.

Ltac md := repeat first [apply min_depth_nil | apply min_depth_app | (constructor; [cbn; lia|]) | (constructor; [cbn; exact I|])].

Lemma chain_t idx hs : forall s,
  exists X, tr (res_st (chain sub d idx hs (fun s' => Cont s') s)) = tr s ++ X /\ min_depth d (evsX X) /\ nodrop d X.
Proof.
  induction hs as [|h hs IH]; intro s; cbn [Router.chain].
  - exists []. rewrite app_nil_r. repeat split; [constructor|intros ? ? []].
  - destruct h.
    + exists []. rewrite app_nil_r. repeat split; [constructor|intros ? ? []].
    + destruct (read_full_st k s) as [[dta|] s'] eqn:ER; apply read_full_st_tr in ER.
      * destruct (IH (emit (ERead d idx dta) s')) as (X & He & Hm & Hn).
        exists ((now (nt s'), ERead d idx dta) :: X). rewrite He, tr_emit, ER, <- app_assoc. split; [reflexivity|].
        split; [constructor; [cbn; lia|exact Hm]|]. intros te w [<-|Hin]; [discriminate|eapply Hn; exact Hin].
      * exists [(now (nt s'), EHErr d idx)]. cbn [res_st]. rewrite tr_emit, ER. split; [reflexivity|]. split; [cbn; md|].
        intros te w [<-|[]]. discriminate.
    + exists [(now (nt s), EHErr d idx)]. cbn [res_st]. rewrite tr_emit. split; [reflexivity|]. split; [cbn; md|].
      intros te w [<-|[]]. discriminate.
    + exact (IH _).
    + rewrite (sub_tail (S d) rs timeout). destruct (sub_t (S d) rs timeout s) as (X1 & He1 & Hm1).
      destruct (sub (S d) rs timeout (fun s' => Cont s') s) as [s1|s1|s1|s1] eqn:ES; cbn [bind]; cbn [res_st] in He1.
      2: { destruct (IH s1) as (X & He & Hm & Hn). exists (X1 ++ X). rewrite He, He1, <- app_assoc. split; [reflexivity|].
           unfold evsX in *. rewrite map_app. split; [apply min_depth_app; [apply min_depth_S; exact Hm1|exact Hm]|].
           apply nodrop_app; [apply nodrop_min_depth; exact Hm1|exact Hn]. }
      all: exists X1; cbn [res_st]; split; [exact He1|]; split; [apply min_depth_S; exact Hm1|apply nodrop_min_depth; exact Hm1].
Qed.

Lemma until_run_norun d' X : has_run_at d' X = false -> until_run d' X = X.
Proof.
  induction X as [|te X IH]; [reflexivity|]. cbn. destruct (is_run d' (snd te)); cbn; [discriminate|]. intro H. rewrite IH by exact H. reflexivity.
Qed.

Definition pass_t_post (M : Z) (s : st) (pr : passres net) : Prop :=
  match pr with
  | PFinal r => exists X, tr (res_st r) = tr s ++ X /\ min_depth d (evsX X) /\ notimeout d X /\
                          (now (nt s) <= M -> bounded M (until_run d X))
  | PState _ _ _ s' => exists X, tr s' = tr s ++ X /\ min_depth d (evsX X) /\ notimeout d X /\
                          (now (nt s) <= M -> bounded M (until_run d X) /\ (has_run_at d X = false -> now (nt s') <= M))
  end.

Lemma pass_t_prepend M s s1 pr X1 :
  tr s1 = tr s ++ X1 -> min_depth d (evsX X1) -> notimeout d X1 ->
  (now (nt s) <= M -> bounded M (until_run d X1) /\ (has_run_at d X1 = false -> now (nt s1) <= M)) ->
  pass_t_post M s1 pr -> pass_t_post M s pr.
Proof.
  intros He Hm Hn Hb. destruct pr as [r|lm' lnm' stt' s']; cbn [pass_t_post].
  - intros (X & He' & Hm' & Hn' & Hb'). exists (X1 ++ X). rewrite He', He, <- app_assoc. split; [reflexivity|].
    unfold evsX in *. rewrite map_app. split; [apply min_depth_app; assumption|]. split; [apply notimeout_app; assumption|].
    intro HM. destruct (Hb HM) as [Hb1 Hb2]. rewrite until_run_app. destruct (has_run_at d X1) eqn:E; [exact Hb1|].
    apply bounded_app; [rewrite <- (until_run_norun _ _ E); exact Hb1|]. apply Hb'. apply Hb2. reflexivity.
  - intros (X & He' & Hm' & Hn' & Hb'). exists (X1 ++ X). rewrite He', He, <- app_assoc. split; [reflexivity|].
    unfold evsX in *. rewrite map_app. split; [apply min_depth_app; assumption|]. split; [apply notimeout_app; assumption|].
    intro HM. destruct (Hb HM) as [Hb1 Hb2]. rewrite until_run_app, has_run_at_app. destruct (has_run_at d X1) eqn:E.
    + split; [exact Hb1|discriminate].
    + destruct (Hb' (Hb2 eq_refl)) as [Hb3 Hb4]. split; [apply bounded_app; [rewrite <- (until_run_norun _ _ E); exact Hb1|exact Hb3]|exact Hb4].
Qed.

Lemma pass_t M : forall rest i lm lnm stt nm s, pass_t_post M s (pass sub d i rest lm lnm stt nm s).
Proof.
  induction rest as [|[mss hs] rest IH]; intros i lm lnm stt nm s; cbn [Router.pass].
  - cbn [pass_t_post]. exists []. rewrite app_nil_r. repeat split; try constructor; auto. intros tm [].
  - destruct (leo i lm); [apply IH|].
    destruct (is_no (stt i) && leo i lnm).
    { apply (pass_t_prepend M s (emit (ESkip d i (avail s)) s) _ [(now (nt s), ESkip d i (avail s))]); [apply tr_emit|cbn; md|intros tm [H|[]]; discriminate| |apply IH].
      intro HM. cbn. split; [repeat constructor; exact HM|intros _; exact HM]. }
    destruct (anymatch mss (avail s)).
    + set (s1 := emit (ERun d i (avail s)) (clear s)).
      assert (Hs1 : tr s1 = tr s ++ [(now (nt s), EClear); (now (nt s), ERun d i (avail s))]).
      { unfold s1. rewrite tr_emit, tr_clear, T_clear, <- app_assoc. reflexivity. }
      destruct (chain_t i hs s1) as (Xc & Hec & Hmc & Hnc).
      assert (Hhead : forall Y, now (nt s) <= M -> bounded M (until_run d ([(now (nt s), EClear); (now (nt s), ERun d i (avail s))] ++ Y))).
      { intros Y HM. cbn. rewrite Nat.eqb_refl. repeat constructor; exact HM. }
      destruct (chain sub d i hs (fun st' => Cont st') s1) as [s2|s2|s2|s2] eqn:Ech; cbn [res_st] in Hec.
      2: { apply (pass_t_prepend M s (emit (ENext d i (avail s2)) s2) _ ([(now (nt s), EClear); (now (nt s), ERun d i (avail s))] ++ (Xc ++ [(now (nt s2), ENext d i (avail s2))])));
             [rewrite tr_emit, Hec, Hs1, <- !app_assoc; reflexivity| | | |apply IH].
           - unfold evsX. rewrite !map_app. apply min_depth_app; [cbn; md|apply min_depth_app; [exact Hmc|cbn; md]].
           - apply notimeout_app; [intros tm [H|[H|[]]]; discriminate|apply notimeout_app; [apply nodrop_notimeout; exact Hnc|intros tm [H|[]]; discriminate]].
           - intro HM. split; [apply Hhead; exact HM|]. cbn. rewrite Nat.eqb_refl. discriminate. }
      all: cbn [pass_t_post res_st]; exists ([(now (nt s), EClear); (now (nt s), ERun d i (avail s))] ++ Xc);
        rewrite Hec, Hs1, <- app_assoc; (split; [reflexivity|]); unfold evsX; rewrite map_app;
        (split; [apply min_depth_app; [cbn; md|exact Hmc]|]);
        (split; [apply notimeout_app; [intros tm [H|[H|[]]]; discriminate|apply nodrop_notimeout; exact Hnc]|]); apply Hhead.
    + apply IH.
    + destruct nm; [apply IH|]. cbn [pass_t_post]. exists []. rewrite app_nil_r. repeat split; try constructor; auto. intros tm [].
    + cbn [pass_t_post res_st]. exists [(now (nt s), EDrop d DMatchErr)]. rewrite tr_emit. split; [reflexivity|]. split; [cbn; md|].
      split; [intros tm [H|[]]; discriminate|]. intro HM. cbn. repeat constructor. exact HM.
    + cbn [pass_t_post res_st]. exists [(now (nt s), EPanic d i)]. rewrite tr_emit. split; [reflexivity|]. split; [cbn; md|].
      split; [intros tm [H|[]]; discriminate|]. intro HM. cbn. repeat constructor. exact HM.
Qed.

Definition loop_t_post (dl : Z) (s : st) (r : res) : Prop :=
  exists X, tr (res_st r) = tr s ++ X /\ min_depth d (evsX X) /\
    (NE -> forall tm, In (tm, EDrop d DTimeout) X -> dl <= tm) /\
    (forall M, dl <= M -> now (nt s) <= M -> bounded M (until_run d X)).

Lemma prefetch_t dl s : cur_dl (nt s) = Some dl ->
  match prefetch s with
  | inl s' => tr s' = tr s /\ now (nt s') <= Z.max (now (nt s)) dl
  | inr (w, s') => tr s' = tr s /\ now (nt s') <= Z.max (now (nt s)) dl /\ (NE -> w = DTimeout -> dl <= now (nt s'))
  end.
Proof.
  intro Hdl. unfold Router.prefetch. destruct (MAXB <=? off s + length (avail s))%nat.
  { split; [reflexivity|]. split; [lia|discriminate]. }
  pose proof (H_by CHUNK (nt s) dl Hdl) as Hb.
  destruct (nread CHUNK (nt s)) as [r n'] eqn:ER. cbn [snd] in Hb. destruct r; cbn.
  - split; [reflexivity|exact Hb].
  - split; [reflexivity|]. split; [exact Hb|]. intros Hne _. destruct (H_ne Hne _ _ _ ER) as (D & HD & HD'). congruence.
  - split; [reflexivity|]. split; [exact Hb|discriminate].
Qed.

Lemma loop_t rs dl g : forall lm lnm stt nm s,
  loop_t_post dl s (loop sub d rs dl (fun s' => Cont s') g lm lnm stt nm s).
Proof.
  induction g as [|g IH]; intros lm lnm stt nm s; cbn [Router.loop].
  { exists []. rewrite app_nil_r. repeat split; try constructor; auto. intros _ tm []. }
  set (sa := arm dl s).
  assert (Hsa : tr sa = tr s ++ [(now (nt s), EArm)]) by apply tr_arm.
  assert (HTa : now (nt sa) = now (nt s)) by apply T_arm.
  pose proof (prefetch_t dl sa (dl_arm dl s)) as Hpf.
  destruct (if nm then prefetch sa else inl sa) as [s'|[w s']] eqn:Epf.
  2: { destruct nm; [|discriminate]. rewrite Epf in Hpf. destruct Hpf as (He & Hb & Hn).
       exists [(now (nt s), EArm); (now (nt s'), EDrop d w)]. cbn [res_st]. rewrite tr_emit, He, Hsa, <- app_assoc.
       split; [reflexivity|]. split; [cbn; md|]. split.
       - intros Hne tm [H|[H|[]]]; [discriminate|]. inversion H; subst. apply Hn; auto.
       - intros M HdM HM. cbn. repeat constructor; cbn; [exact HM|lia]. }
  assert (Hs' : tr s' = tr s ++ [(now (nt s), EArm)] /\ now (nt s') <= Z.max (now (nt s)) dl).
  { destruct nm.
    - rewrite Epf in Hpf. destruct Hpf as (He & Hb). rewrite He, Hsa. split; [reflexivity|lia].
    - inversion Epf; subst s'. split; [exact Hsa|lia]. }
  destruct Hs' as (Hes' & HTs').
  assert (Hpass := fun M => pass_t M rs 0 lm lnm stt nm s').
  destruct (pass sub d 0 rs lm lnm stt nm s') as [r|lm' lnm' stt' s''] eqn:Epass.
  { destruct (Hpass 0) as (X & He & Hm & Hn & _). exists ([(now (nt s), EArm)] ++ X). rewrite He, Hes', <- app_assoc.
    split; [reflexivity|]. unfold evsX. rewrite map_app. split; [apply min_depth_app; [cbn; md|exact Hm]|]. split.
    - intros _ tm [H|Hin]; [discriminate|]. exfalso. eapply Hn; exact Hin.
    - intros M HdM HM. destruct (Hpass M) as (X' & He' & _ & _ & Hb). assert (X' = X) as -> by (rewrite He in He'; apply app_inv_head in He'; auto).
      cbn. constructor; [exact HM|]. apply Hb. lia. }
  (* facts about the pass that do not depend on M *)
  destruct (Hpass 0) as (X & He & Hm & Hn & _).
  assert (HbM : forall M, dl <= M -> now (nt s) <= M -> bounded M (until_run d X) /\ (has_run_at d X = false -> now (nt s'') <= M)).
  { intros M HdM HM. destruct (Hpass M) as (X' & He' & _ & _ & Hb). assert (X' = X) as -> by (rewrite He in He'; apply app_inv_head in He'; auto).
    apply Hb. lia. }
  assert (Htail : forall Y, (forall M, dl <= M -> now (nt s'') <= M -> bounded M (until_run d Y)) ->
            forall M, dl <= M -> now (nt s) <= M -> bounded M (until_run d ([(now (nt s), EArm)] ++ X ++ Y))).
  { intros Y HY M HdM HM. destruct (HbM M HdM HM) as [Hb1 Hb2]. cbn. constructor; [exact HM|].
    rewrite until_run_app. destruct (has_run_at d X) eqn:E; [exact Hb1|].
    apply bounded_app; [rewrite <- (until_run_norun _ _ E); exact Hb1|]. apply HY; [exact HdM|apply Hb2; reflexivity]. }
  destruct (match lm' with Some j => S j =? length rs | None => length rs =? 0 end)%nat.
  { set (s3 := if last_exit_clears && match lm' with None => true | Some _ => false end then clear s'' else s'').
    assert (Hs3 : exists C, tr s3 = tr s'' ++ C /\ min_depth d (evsX C) /\ notimeout d C /\ now (nt s3) = now (nt s'') /\
                            (forall M, now (nt s'') <= M -> bounded M C) /\ has_run_at d C = false).
    { unfold s3. destruct (last_exit_clears && _).
      - exists [(now (nt s''), EClear)]. rewrite tr_clear, T_clear. repeat split; auto; [cbn; md|intros tm [H|[]]; discriminate|].
        intros M HM. repeat constructor. exact HM.
      - exists []. rewrite app_nil_r. repeat split; auto; [constructor|intros tm []|]. intros; constructor. }
    destruct Hs3 as (C & Hec & Hmc & Hnc & HTc & Hbc & Hrc).
    exists ([(now (nt s), EArm)] ++ X ++ (C ++ [(now (nt s3), EFallback d (avail s3))])). cbn [res_st].
    rewrite tr_emit, Hec, He, Hes', <- !app_assoc. split; [reflexivity|].
    unfold evsX. rewrite !map_app. split; [repeat apply min_depth_app; try assumption; cbn; md|]. split.
    - intros _ tm Hin. exfalso. cbn [app] in Hin. destruct Hin as [H|Hin]; [discriminate|].
      apply in_app_or in Hin. destruct Hin as [Hin|Hin]; [eapply Hn; exact Hin|].
      apply in_app_or in Hin. destruct Hin as [Hin|[H|[]]]; [eapply Hnc; exact Hin|discriminate].
    - apply Htail. intros M HdM HM. rewrite until_run_app, Hrc. apply bounded_app; [apply Hbc; exact HM|].
      cbn [until_run is_run snd]. constructor; [cbn [fst]; rewrite HTc; exact HM|constructor]. }
  destruct (undecided (length rs) lm' stt').
  { destruct (IH lm' lnm' stt' true s'') as (X2 & He2 & Hm2 & Hn2 & Hb2).
    exists ([(now (nt s), EArm)] ++ X ++ X2). rewrite He2, He, Hes', <- !app_assoc. split; [reflexivity|].
    unfold evsX. rewrite !map_app. split; [repeat apply min_depth_app; try assumption; cbn; md|]. split.
    - intros Hne tm Hin. cbn [app] in Hin. destruct Hin as [H|Hin]; [discriminate|].
      apply in_app_or in Hin. destruct Hin as [Hin|Hin]; [exfalso; eapply Hn; exact Hin|apply Hn2; assumption].
    - apply Htail. exact Hb2. }
  exists ([(now (nt s), EArm)] ++ X ++ [(now (nt s''), EClear); (now (nt s''), EFallback d (avail (clear s'')))]). cbn [res_st].
  rewrite tr_emit, tr_clear, T_clear, He, Hes', <- !app_assoc. split; [reflexivity|].
  unfold evsX. rewrite !map_app. split; [repeat apply min_depth_app; try assumption; cbn; md|]. split.
  - intros _ tm Hin. exfalso. cbn [app] in Hin. destruct Hin as [H|Hin]; [discriminate|].
    apply in_app_or in Hin. destruct Hin as [Hin|[H|[H|[]]]]; [eapply Hn; exact Hin|discriminate|discriminate].
  - apply Htail. intros M HdM HM. cbn. repeat constructor; exact HM.
Qed.
End Level.

Lemma compile_sub_t fuel : sub_t_ok (compile fuel).
Proof.
  induction fuel as [|f IH]; intros d rs t s; cbn [Router.compile].
  - exists []. rewrite app_nil_r. split; [reflexivity|constructor].
  - destruct (loop_t (compile f) (compile_tail net now set_dl nread npush f) IH d rs (now (nt s) + t) (S f) None None st0 false s)
      as (X & He & Hm & _). exists X. split; assumption.
Qed.

Lemma compile_t fuel d rs t s :
  loop_t_post d (now (nt s) + t) s (compile fuel d rs t (fun s' => Cont s') s).
Proof.
  destruct fuel as [|f]; cbn [Router.compile].
  - exists []. rewrite app_nil_r. repeat split; try constructor; auto. intros _ tm [].
  - apply (loop_t (compile f) (compile_tail net now set_dl nread npush f) (compile_sub_t f)).
Qed.

Lemma own_tr_eq (s : st) (r : res) X : tr (res_st r) = tr s ++ X -> own_tr s r = X.
Proof. intro H. unfold own_tr. rewrite H, skipn_app, skipn_all, Nat.sub_diag. reflexivity. Qed.

(* an abort by timeout of the invocation that started at [now s] with timeout t happens at or after now s + t *)
Lemma t_not_early fuel d rs t s tm : NE ->
  In (tm, EDrop d DTimeout) (own_tr s (compile fuel d rs t (fun s' => Cont s') s)) -> now (nt s) + t <= tm.
Proof.
  intros Hne Hin. destruct (compile_t fuel d rs t s) as (X & He & _ & Hn & _).
  rewrite (own_tr_eq _ _ _ He) in Hin. apply Hn; assumption.
Qed.

(* until its first route runs (or it drops the connection, or calls its fallback) every step of the invocation
   happens no later than the deadline *)
Lemma t_ends_by_deadline fuel d rs t s : 0 <= t ->
  bounded (now (nt s) + t) (until_run d (own_tr s (compile fuel d rs t (fun s' => Cont s') s))).
Proof.
  intro Ht. destruct (compile_t fuel d rs t s) as (X & He & _ & _ & Hb).
  rewrite (own_tr_eq _ _ _ He). apply Hb; lia.
Qed.
End Timed.

(* ------------------------------------------------------------ the instances *)
Definition tcp_compile := compile tnet tnow tcp_set_dl tcp_read tpush.
Definition udp_compile (rechk : bool) (g : Z) := compile tnet tnow udp_set_dl_m (udp_read_m rechk g) tpush.

Lemma tcp_H_by m n D : dl n = Some D -> tnow (snd (tcp_read m n)) <= Z.max (tnow n) D.
Proof. apply tcp_by_deadline. Qed.

Lemma c05_not_early_tcp fuel d rs t (s : st tnet) tm :
  In (tm, EDrop d DTimeout) (own_tr s (tcp_compile fuel d rs t (fun s' => Cont s') s)) -> tnow (nt s) + t <= tm.
Proof.
  apply (t_not_early tnet tnow tcp_set_dl tcp_read tpush dl (fun v n => eq_refl) (fun v n => eq_refl) tcp_H_by True
           (fun _ m n n' H => tcp_not_early m n n' H) fuel d rs t s tm I).
Qed.

Lemma c05_ends_by_deadline_tcp fuel d rs t (s : st tnet) : 0 <= t ->
  Forall (fun te => fst te <= tnow (nt s) + t) (until_run d (own_tr s (tcp_compile fuel d rs t (fun s' => Cont s') s))).
Proof.
  apply (t_ends_by_deadline tnet tnow tcp_set_dl tcp_read tpush dl (fun v n => eq_refl) (fun v n => eq_refl) tcp_H_by True
           (fun _ m n n' H => tcp_not_early m n n' H) fuel d rs t s).
Qed.

Lemma udp_H_by rechk g m n D : dl n = Some D -> tnow (snd (udp_read_m rechk g m n)) <= Z.max (tnow n) D.
Proof. apply udp_m_by_deadline. Qed.

Lemma udp_H_ne rechk g : rechk = true /\ g = 1 -> forall m n n', udp_read_m rechk g m n = (RTimeout, n') -> exists D, dl n = Some D /\ D <= tnow n'.
Proof. intros [-> ->] m n n' H. apply (udp_m_not_early m n n' H). Qed.

(* for the UDP virtual connection "never early" holds when the deadline is stored in nanoseconds and a timer
   tick is rechecked against the stored deadline *)
Lemma c05_not_early_udp rechk g fuel d rs t (s : st tnet) tm : rechk = true /\ g = 1 ->
  In (tm, EDrop d DTimeout) (own_tr s (udp_compile rechk g fuel d rs t (fun s' => Cont s') s)) -> tnow (nt s) + t <= tm.
Proof.
  intro Hg. apply (t_not_early tnet tnow udp_set_dl_m (udp_read_m rechk g) tpush dl (fun v n => eq_refl) (fun v n => eq_refl) (udp_H_by rechk g) (rechk = true /\ g = 1)
           (udp_H_ne rechk g) fuel d rs t s tm Hg).
Qed.

(* "never late" holds for every granularity *)
Lemma c05_ends_by_deadline_udp rechk g fuel d rs t (s : st tnet) : 0 <= t ->
  Forall (fun te => fst te <= tnow (nt s) + t) (until_run d (own_tr s (udp_compile rechk g fuel d rs t (fun s' => Cont s') s))).
Proof.
  apply (t_ends_by_deadline tnet tnow udp_set_dl_m (udp_read_m rechk g) tpush dl (fun v n => eq_refl) (fun v n => eq_refl) (udp_H_by rechk g) (rechk = true /\ g = 1)
           (udp_H_ne rechk g) fuel d rs t s).
Qed.

(* ------------------------------------------------------------ obligations over the generated constants and shape facts *)
Lemma consts_ok :
  (1 <= MAXB)%nat /\ (1 <= CHUNK)%nat /\ (CHUNK <= MAXB)%nat /\
  layer4_MaxMatchingBytes = Z.of_nat MAXB /\ layer4_prefetchChunkSize = Z.of_nat CHUNK /\
  0 < layer4_MatchingTimeoutDefault /\ 0 < udp_granularity /\ 0 <= udp_idle.
Proof.
  repeat split; try (apply Nat.leb_le; vm_compute; reflexivity); try (vm_compute; reflexivity); vm_compute; discriminate.
Qed.

Lemma shape_ok :
  layer4_compile_arms_at_loop_label = true /\ layer4_compile_clears_on_match = true /\ layer4_compile_clears_before_fallback = true.
Proof. repeat split; reflexivity. Qed.

Lemma tcp_buffer_bounded fuel d rs t (s : st tnet) : buf_ok tnet s ->
  buf_ok tnet (res_st (tcp_compile fuel d rs t (fun s' => Cont s') s)) /\
  Forall ev_buf_ok (own_evs s (tcp_compile fuel d rs t (fun s' => Cont s') s)).
Proof. apply c05_buffer_bounded; [apply consts_ok|apply tcp_data_len]. Qed.

Lemma udp_buffer_bounded rechk g fuel d rs t (s : st tnet) : buf_ok tnet s ->
  buf_ok tnet (res_st (udp_compile rechk g fuel d rs t (fun s' => Cont s') s)) /\
  Forall ev_buf_ok (own_evs s (udp_compile rechk g fuel d rs t (fun s' => Cont s') s)).
Proof. apply c05_buffer_bounded; [apply consts_ok|apply udp_m_data_len]. Qed.

Lemma bufb_value : Z.of_nat BUFB = layer4_MaxMatchingBytes - 1 + layer4_prefetchChunkSize.
Proof. vm_compute. reflexivity. Qed.

(* today's witnesses *)
Definition ms : Z := 1000000.
Definition undecided_routes : list route := [Route [[MPrim (thr 100 Yes)]] [HTerm]].
Definition udp_witness : res tnet :=
  udp_serve_g 1000000000 20 undecided_routes (500 * ms)
    (t_init (860 * ms) [(860 * ms, [x01]); (1110 * ms, [x02])] (100000 * ms)).
(* granularity of whole seconds: connection starts at x.86 s, timeout 0.5 s, a datagram at +0.25 s:
   matching is abandoned at +0.25 s *)
(* the machine WITHOUT the recheck of a timer tick (nanosecond storage): a route without matchers runs and passes
   the connection on (the deadline is cleared: the timer fires at once, its tick stays in the channel), the next
   route is undecided, the deadline is armed again: the next read takes the stale tick for a timeout at +0 ms *)
Definition nonterm_undecided_routes : list route := [Route [] []; Route [[MPrim (thr 100 Yes)]] [HTerm]].
Definition udp_tick_witness : res tnet :=
  udp_serve_m false 1 20 nonterm_undecided_routes (400 * ms) (t_init (500 * ms) [(500 * ms, [x01])] (100000 * ms)).
Lemma udp_tick_early :
  In (500 * ms, EDrop 0 DTimeout) (tr (res_st udp_tick_witness)) /\ 500 * ms < 500 * ms + 400 * ms.
Proof. split; [vm_compute; auto 10|vm_compute; reflexivity]. Qed.
(* ... with the recheck the same schedule is given up exactly at the deadline *)
Lemma udp_tick_ok :
  first_drop (tr (res_st (udp_serve_m true 1 20 nonterm_undecided_routes (400 * ms) (t_init (500 * ms) [(500 * ms, [x01])] (100000 * ms)))))
  = Some (900 * ms, DTimeout).
Proof. vm_compute. reflexivity. Qed.

Lemma udp_seconds_early :
  In (1110 * ms, EDrop 0 DTimeout) (tr (res_st udp_witness)) /\ 1110 * ms < 860 * ms + 500 * ms.
Proof. split; [vm_compute; auto 10|vm_compute; reflexivity]. Qed.

(* ------------------------------------------------------------ the timed networks make progress: totality of the timed runs *)
From L4.proofs Require Import RouterTotal.

Definition arrivals_nonempty (n : tnet) : Prop := Forall (fun p => snd p <> []) (pend n).

Lemma firstn_nonempty {A} m (l : list A) : (0 < m)%nat -> l <> [] -> firstn m l <> [].
Proof. destruct m; [lia|]. destruct l; [contradiction|]. discriminate. Qed.

Lemma tcp_read_ok m n : arrivals_nonempty n -> arrivals_nonempty (snd (tcp_read m n)).
Proof.
  unfold arrivals_nonempty, tcp_read. intro H. destruct (passed (dl n) (clock n)); [exact H|].
  destruct (unread n); [|exact H].
  destruct (pend n) as [|[ta d] rest] eqn:EP; [destruct (passed _ _); cbn; rewrite EP; exact H|].
  inversion H; subst. destruct (passed _ _); cbn; [rewrite EP; exact H|assumption].
Qed.
Lemma tcp_read_progress m n dta n' : arrivals_nonempty n -> (0 < m)%nat -> tcp_read m n = (RData dta, n') -> dta <> [].
Proof.
  unfold arrivals_nonempty, tcp_read. intros H Hm. destruct (passed (dl n) (clock n)); [discriminate|].
  destruct (unread n) eqn:EU.
  - destruct (pend n) as [|[ta d] rest]; [destruct (passed _ _); discriminate|]. inversion H; subst.
    destruct (passed _ _); [discriminate|]. intro E; apply take_spec in E. destruct E as [E _]. inversion E; subst.
    apply firstn_nonempty; assumption.
  - intro E; apply take_spec in E. destruct E as [E _]. inversion E; subst. apply firstn_nonempty; [assumption|discriminate].
Qed.
Lemma udp_read_ok g m n : arrivals_nonempty n -> arrivals_nonempty (snd (udp_read_g g m n)).
Proof.
  unfold arrivals_nonempty, udp_read_g. intro H. destruct (unread n); [|exact H].
  destruct (exceeded _ _); [exact H|].
  destruct (pend n) as [|[ta d] rest] eqn:EP.
  - destruct (Z.ltb _ _); [cbn; rewrite EP; exact H|]. destruct (dl n); [destruct (Z.leb _ _)|]; cbn; rewrite EP; exact H.
  - inversion H; subst. destruct (Z.ltb _ _); [cbn; assumption|]. destruct (dl n); [destruct (Z.leb _ _)|]; cbn; rewrite EP; exact H.
Qed.
Lemma udp_read_progress g m n dta n' : arrivals_nonempty n -> (0 < m)%nat -> udp_read_g g m n = (RData dta, n') -> dta <> [].
Proof.
  unfold arrivals_nonempty, udp_read_g. intros H Hm. destruct (unread n) eqn:EU.
  - destruct (exceeded _ _); [discriminate|].
    destruct (pend n) as [|[ta d] rest].
    + destruct (Z.ltb _ _); [discriminate|]. destruct (dl n); [destruct (Z.leb _ _)|]; discriminate.
    + inversion H; subst. destruct (Z.ltb _ _).
      * intro E; apply take_spec in E. destruct E as [E _]. inversion E; subst. apply firstn_nonempty; assumption.
      * destruct (dl n); [destruct (Z.leb _ _)|]; discriminate.
  - intro E; apply take_spec in E. destruct E as [E _]. inversion E; subst. apply firstn_nonempty; [assumption|discriminate].
Qed.

Lemma tcp_compile_total fuel d rs t next (s : st tnet) : fuel_ok rs fuel -> arrivals_nonempty (nt s) ->
  (forall s', is_exh (next s') = false) -> is_exh (tcp_compile fuel d rs t next s) = false.
Proof.
  apply (compile_total tnet tnow tcp_set_dl tcp_read tpush arrivals_nonempty tcp_read_ok (fun v n H => H) (fun b n H => H) tcp_read_progress chunk_pos_ok).
Qed.
Lemma udp_m_ok rechk g m n : arrivals_nonempty n -> arrivals_nonempty (snd (udp_read_m rechk g m n)).
Proof. intro H. udp_m_split rechk g m n; [exact H|apply udp_read_ok; exact H|apply (udp_read_ok g m (unstale n)); exact H]. Qed.
Lemma udp_m_progress rechk g m n dta n' : arrivals_nonempty n -> (0 < m)%nat -> udp_read_m rechk g m n = (RData dta, n') -> dta <> [].
Proof.
  intros H Hm. udp_m_split rechk g m n; [discriminate|apply udp_read_progress; assumption|apply (udp_read_progress g m (unstale n)); assumption].
Qed.

Lemma udp_compile_total rechk g fuel d rs t next (s : st tnet) : fuel_ok rs fuel -> arrivals_nonempty (nt s) ->
  (forall s', is_exh (next s') = false) -> is_exh (udp_compile rechk g fuel d rs t next s) = false.
Proof.
  apply (compile_total tnet tnow udp_set_dl_m (udp_read_m rechk g) tpush arrivals_nonempty (udp_m_ok rechk g) (fun v n H => H) (fun b n H => H) (udp_m_progress rechk g) chunk_pos_ok).
Qed.
