(* Lemmas for C12 about model/ProxyProto.v: decimal text, IPv4 text, the v1 line reader and the
   Sscanf pieces, v2 fields, round trips parse (encode h ++ payload), TLV rejection, the allow
   list (sort + in-place compaction preserve the rule set; CIDR containment), the receiving
   handler, the replacer entries, the sending side and the sender -> receiver composition.

   The IPv6 TEXT form: the v1 TCP6 lemmas are first proved for every renderer satisfying
   [ip6_text_ok] (output parses back to the same address, is non-empty, has no blank, at most 39
   bytes); [render_ip6_text_ok] then proves that premise for the model's renderer (net/netip's
   RFC 5952 form with "::" compression against netip.parseIPv6), hexadecimal groups by a finite
   check over all 65536 values, and the corollaries at the end are unconditional. *)
From Coq Require Import String List NArith ZArith Bool Arith Lia Permutation.
From Coq.Strings Require Import Byte.
From L4 Require Import Hex.
From L4.gen Require Import Consts Shape.
From L4.model Require Import GoBase ProxyProto.
From L4.proofs Require Import GoBaseProofs.
Import ListNotations.
Open Scope N_scope.

Lemma bN_byte_of_N x : x < 256 -> bN (byte_of_N x) = x.
Proof.
  intro H. unfold bN, byte_of_N. destruct (Byte.of_N x) eqn:E.
  - apply Byte.to_of_N in E. exact E.
  - apply Byte.of_N_None_iff in E. lia.
Qed.

(* ---------- span *)
Definition stops (p : byte -> bool) (r : list byte) : Prop :=
  match r with [] => True | x :: _ => p x = false end.

Lemma span_app_stop p l r : forallb p l = true -> stops p r -> span p (l ++ r) = (l, r).
Proof.
  induction l as [|x l IH]; intros Hl Hr; cbn [app span].
  - destruct r as [|y r]; [reflexivity|]. cbn in Hr. cbn [span]. rewrite Hr. reflexivity.
  - cbn [forallb] in Hl. apply andb_true_iff in Hl as [Hx Hl]. rewrite Hx, (IH Hl Hr). reflexivity.
Qed.

(* ---------- decimal text *)
Lemma dec_val_app l d : dec_val (l ++ [d]) = dec_val l * 10 + (bN d - 48).
Proof. unfold dec_val. rewrite fold_left_app. reflexivity. Qed.

Lemma digit_bN d : d < 10 -> bN (digit d) = 48 + d.
Proof. intro H. unfold digit. apply bN_byte_of_N. lia. Qed.
Lemma digit_is_digit d : d < 10 -> is_digit (digit d) = true.
Proof. intro H. unfold is_digit. rewrite digit_bN by exact H. apply andb_true_iff; split; apply N.leb_le; lia. Qed.

Lemma numf_dec_val f : forall n, n < 2 ^ N.of_nat f -> dec_val (num_f 10 digit f n) = n.
Proof.
  induction f as [|f IH]; intros n Hn.
  - cbn in Hn. assert (n = 0) by lia. subst. reflexivity.
  - cbn [num_f]. destruct (n <? 10) eqn:E.
    + apply N.ltb_lt in E. unfold dec_val. cbn [fold_left]. rewrite digit_bN by exact E. lia.
    + apply N.ltb_ge in E. rewrite dec_val_app, IH.
      * rewrite digit_bN by (apply N.mod_lt; lia). pose proof (N.div_mod' n 10) as Hdm.
        generalize dependent (n / 10). generalize dependent (n mod 10). intros. lia.
      * rewrite Nnat.Nat2N.inj_succ, N.pow_succ_r' in Hn.
        apply N.div_lt_upper_bound; [lia|]. lia.
Qed.

Lemma numf_digits f : forall n, forallb is_digit (num_f 10 digit f n) = true.
Proof.
  induction f as [|f IH]; intros n; cbn [num_f].
  - cbn [forallb]. rewrite digit_is_digit by (apply N.mod_lt; lia). reflexivity.
  - destruct (n <? 10) eqn:E.
    + apply N.ltb_lt in E. cbn [forallb]. rewrite digit_is_digit by exact E. reflexivity.
    + rewrite forallb_app, IH. cbn [forallb]. rewrite digit_is_digit by (apply N.mod_lt; lia). reflexivity.
Qed.

Lemma numf_length f : forall n k, n < 10 ^ N.of_nat (S k) -> (length (num_f 10 digit f n) <= S k)%nat.
Proof.
  induction f as [|f IH]; intros n k Hn; cbn [num_f].
  - cbn. lia.
  - destruct (n <? 10) eqn:E.
    + cbn. lia.
    + apply N.ltb_ge in E. rewrite app_length. cbn [length].
      destruct k as [|k].
      * cbn in Hn. lia.
      * specialize (IH (n / 10) k). rewrite Nnat.Nat2N.inj_succ, N.pow_succ_r' in Hn.
        assert (n / 10 < 10 ^ N.of_nat (S k)) by (apply N.div_lt_upper_bound; lia).
        specialize (IH H). lia.
Qed.

(* the first digit of a number >= 10 is not 0 *)
Lemma numf_head f : forall n, n < 2 ^ N.of_nat f -> 10 <= n ->
  exists c r, num_f 10 digit f n = c :: r /\ r <> [] /\ Byte.eqb c cZERO = false.
Proof.
  induction f as [|f IH]; intros n Hn H10.
  - cbn in Hn. lia.
  - cbn [num_f]. destruct (n <? 10) eqn:E; [apply N.ltb_lt in E; lia|].
    assert (Hd : n / 10 < 2 ^ N.of_nat f).
    { rewrite Nnat.Nat2N.inj_succ, N.pow_succ_r' in Hn. apply N.div_lt_upper_bound; lia. }
    destruct (N.lt_ge_cases (n / 10) 10) as [Hs|Hb].
    + (* n/10 is the single leading digit, 1..9 *)
      assert (Hnz : 1 <= n / 10) by (apply N.div_le_lower_bound; clear - H10; lia).
      destruct f as [|f'].
      * cbn in Hd. lia.
      * cbn [num_f]. apply N.ltb_lt in Hs. rewrite Hs. apply N.ltb_lt in Hs.
        eexists _, _. split; [reflexivity|]. split; [discriminate|].
        apply Bool.not_true_iff_false. intro Hc. apply byte_eqb_eq in Hc.
        assert (bN (digit (n / 10)) = bN cZERO) by (rewrite Hc; reflexivity).
        rewrite digit_bN in H by exact Hs. change (bN cZERO) with 48 in H. clear - H Hnz. generalize dependent (n / 10). intros. lia.
    + destruct (IH (n / 10) Hd Hb) as (c & r & Hr & Hne & Hc).
      rewrite Hr. exists c, (r ++ [digit (n mod 10)]). split; [reflexivity|]. split; [|exact Hc].
      destruct r; [congruence|discriminate].
Qed.

Lemma size_bound n : n < 2 ^ N.of_nat (N.to_nat (N.size n)).
Proof. rewrite Nnat.N2Nat.id. apply N.size_gt. Qed.

Lemma dec_val_dec n : dec_val (dec n) = n.
Proof. apply numf_dec_val, size_bound. Qed.
Lemma dec_digits n : forallb is_digit (dec n) = true.
Proof. apply numf_digits. Qed.
Lemma dec_length n k : n < 10 ^ N.of_nat (S k) -> (length (dec n) <= S k)%nat.
Proof. apply numf_length. Qed.
Lemma dec_nonempty n : dec n <> [].
Proof.
  unfold dec. destruct (N.to_nat (N.size n)); cbn [num_f]; [discriminate|].
  destruct (n <? 10); [discriminate|]. intro H. apply app_eq_nil in H as [_ H]. discriminate.
Qed.
Lemma dec_head n : 10 <= n -> exists c r, dec n = c :: r /\ r <> [] /\ Byte.eqb c cZERO = false.
Proof. intro H. apply numf_head; [apply size_bound|exact H]. Qed.
Lemma dec_small n : n < 10 -> dec n = [digit n].
Proof.
  intro H. unfold dec. destruct (N.to_nat (N.size n)) eqn:E; cbn [num_f].
  - assert (n = 0). { destruct n; [reflexivity|]. cbn in E. lia. } subst. reflexivity.
  - apply N.ltb_lt in H. rewrite H. reflexivity.
Qed.
(* ---------- IPv4 text *)
Definition nonsp (b : byte) : bool := negb (is_space b).

Lemma digit_facts b : is_digit b = true ->
  is_space b = false /\ Byte.eqb b cDOT = false /\ Byte.eqb b cCOLON = false /\ Byte.eqb b x25 = false /\
  Byte.eqb b cMINUS = false /\ Byte.eqb b cPLUS = false /\ Byte.eqb b cUNDER = false /\ Byte.eqb b cLF = false.
Proof.
  intro H. unfold is_digit in H. apply andb_true_iff in H as [H1 H2].
  apply N.leb_le in H1. apply N.leb_le in H2.
  assert (K : forall c, (bN c < 48 \/ 57 < bN c) -> Byte.eqb b c = false).
  { intros c Hc. apply Bool.not_true_iff_false. intro E. apply byte_eqb_eq in E. subst. lia. }
  unfold is_space, is_sp.
  rewrite !K by (cbn; lia). repeat split; reflexivity.
Qed.

Lemma forallb_impl {A} (p q : A -> bool) l : (forall x, p x = true -> q x = true) -> forallb p l = true -> forallb q l = true.
Proof. intros H. induction l; cbn; [reflexivity|]. intro E. apply andb_true_iff in E as [E1 E2]. rewrite (H _ E1), (IHl E2). reflexivity. Qed.

Lemma digits_nonsp l : forallb is_digit l = true -> forallb nonsp l = true.
Proof. apply forallb_impl. intros x H. unfold nonsp. destruct (digit_facts x H) as [-> _]. reflexivity. Qed.

Lemma p4_octet_dec v r : v <= 255 -> stops is_digit r -> p4_octet (dec v ++ r) = Some (v, r).
Proof.
  intros Hv Hr. unfold p4_octet. rewrite (span_app_stop _ _ _ (dec_digits v) Hr).
  pose proof (dec_val_dec v) as Hval. pose proof (dec_length v 2) as Hlen.
  destruct (dec v) as [|d more] eqn:E; [exfalso; exact (dec_nonempty v E)|].
  assert (Hz : Byte.eqb d cZERO && negb (Nat.eqb (length more) 0) = false).
  { destruct (N.lt_ge_cases v 10) as [Hs|Hb].
    - rewrite (dec_small v Hs) in E. injection E as <- <-. cbn. apply andb_false_r.
    - destruct (dec_head v Hb) as (c & r' & Hc & _ & Hnz). rewrite E in Hc. injection Hc as -> ->. rewrite Hnz. reflexivity. }
  rewrite Hz.
  assert (Hl : (3 <? length (d :: more))%nat = false).
  { apply Nat.ltb_ge. apply Hlen. change (10 ^ N.of_nat 3) with 1000. lia. }
  rewrite Hl, Hval.
  assert (Hc : 255 <? v = false) by (apply N.ltb_ge; exact Hv).
  rewrite Hc. reflexivity.
Qed.

Lemma octet_lt a k : a / k mod 256 <= 255.
Proof. pose proof (N.mod_lt (a / k) 256 ltac:(lia)). lia. Qed.

Lemma octets_recompose a : a < two32 ->
  ((a / 16777216 mod 256 * 256 + a / 65536 mod 256) * 256 + a / 256 mod 256) * 256 + a mod 256 = a.
Proof.
  unfold two32. intro H.
  replace (a / 16777216) with (a / 256 / 256 / 256) by (rewrite !N.div_div by lia; reflexivity).
  replace (a / 65536) with (a / 256 / 256) by (rewrite !N.div_div by lia; reflexivity).
  pose proof (N.div_mod' a 256) as E1.
  pose proof (N.div_mod' (a / 256) 256) as E2.
  pose proof (N.div_mod' (a / 256 / 256) 256) as E3.
  pose proof (N.mod_lt a 256 ltac:(lia)).
  pose proof (N.mod_lt (a / 256) 256 ltac:(lia)).
  pose proof (N.mod_lt (a / 256 / 256) 256 ltac:(lia)).
  assert (a / 256 / 256 / 256 < 256).
  { rewrite !N.div_div by lia. apply N.div_lt_upper_bound; lia. }
  rewrite (N.mod_small (a / 256 / 256 / 256) 256) by lia.
  lia.
Qed.

Lemma parse_ip4_render a : a < two32 -> parse_ip4 (render_ip4 a) = Some a.
Proof.
  intro H. unfold parse_ip4, render_ip4.
  rewrite <- (app_nil_r (dec (a mod 256))).
  repeat (rewrite p4_octet_dec; [|first [apply octet_lt | pose proof (N.mod_lt a 256 ltac:(lia)); lia] | reflexivity];
          cbn [app expect]; try (change (Byte.eqb cDOT cDOT) with true; cbv iota)).
  f_equal. apply octets_recompose. exact H.
Qed.

Lemma ip_kind_digits l r : forallb is_digit l = true -> ip_kind (l ++ cDOT :: r) = 4.
Proof.
  induction l as [|x l IH]; intro H; cbn [app ip_kind].
  - reflexivity.
  - cbn [forallb] in H. apply andb_true_iff in H as [Hx Hl].
    destruct (digit_facts x Hx) as (_ & -> & -> & -> & _). apply IH. exact Hl.
Qed.

Lemma render_ip4_nonsp a : forallb nonsp (render_ip4 a) = true.
Proof.
  unfold render_ip4. rewrite !forallb_app. cbn [forallb].
  rewrite !(digits_nonsp _ (dec_digits _)). reflexivity.
Qed.
Lemma render_ip4_length a : (length (render_ip4 a) <= 15)%nat.
Proof.
  unfold render_ip4. rewrite !app_length. cbn [length].
  assert (K : forall k, (length (dec (a / k mod 256)) <= 3)%nat).
  { intro k. apply (dec_length _ 2). pose proof (octet_lt a k). change (10 ^ N.of_nat 3) with 1000. lia. }
  pose proof (K 16777216). pose proof (K 65536). pose proof (K 256).
  assert ((length (dec (a mod 256)) <= 3)%nat).
  { apply (dec_length _ 2). pose proof (N.mod_lt a 256 ltac:(lia)). change (10 ^ N.of_nat 3) with 1000. lia. }
  lia.
Qed.
Lemma parse_ip_render4 a : a < two32 -> parse_ip (render_ip4 a) = Some (IP4 a).
Proof.
  intro H. unfold parse_ip.
  assert (K : ip_kind (render_ip4 a) = 4).
  { unfold render_ip4. cbn [app]. apply ip_kind_digits, dec_digits. }
  rewrite K, (parse_ip4_render a H). reflexivity.
Qed.

(* what the line parser needs to know about the text of an address *)
Record ip_text_ok (t : list byte) (i : ip) : Prop := {
  t_nonsp : forallb nonsp t = true;
  t_ne : t <> [];
  t_len : (length t <= 39)%nat;
  t_parse : parse_ip t = Some i }.

Lemma ip4_text_ok a : a < two32 -> ip_text_ok (render_ip4 a) (IP4 a).
Proof.
  intro H. split.
  - apply render_ip4_nonsp.
  - unfold render_ip4. intro E. apply app_eq_nil in E as [E _]. exact (dec_nonempty _ E).
  - pose proof (render_ip4_length a). lia.
  - apply parse_ip_render4, H.
Qed.
(* ---------- v1: Sscanf pieces *)
Lemma nonsp_facts b : nonsp b = true -> is_sp b = false /\ Byte.eqb b cLF = false.
Proof.
  unfold nonsp, is_space. intro H. apply negb_true_iff in H. apply orb_false_iff in H. exact H.
Qed.

Lemma sep_sp t r : t <> [] -> forallb nonsp t = true -> sep (cSP :: t ++ r) = Some (t ++ r).
Proof.
  intros Hne Ht. destruct t as [|y t]; [congruence|].
  cbn [forallb] in Ht. apply andb_true_iff in Ht as [Hy _]. destruct (nonsp_facts y Hy) as [H1 H2].
  unfold sep. change (is_sp cSP) with true. cbv iota.
  cbn [app span]. change (is_sp cSP) with true. cbv iota. rewrite H1. cbn [snd]. rewrite H2. reflexivity.
Qed.

Lemma tok_app t r : forallb nonsp t = true -> tok (t ++ cSP :: r) = (t, cSP :: r).
Proof. intro H. unfold tok. apply (span_app_stop (fun b => negb (is_space b))); [exact H|reflexivity]. Qed.

Lemma digits_numch l : forallb is_digit l = true -> forallb is_numch l = true.
Proof. apply forallb_impl. intros x H. unfold is_numch. rewrite H. reflexivity. Qed.
Lemma digits_no_under l : forallb is_digit l = true -> existsb (fun b => Byte.eqb b cUNDER) l = false.
Proof.
  induction l as [|x l IH]; cbn [forallb existsb]; [reflexivity|]. intro H. apply andb_true_iff in H as [Hx Hl].
  destruct (digit_facts x Hx) as (_ & _ & _ & _ & _ & _ & -> & _). apply IH, Hl.
Qed.

Lemma scan_port_dec p r : p <= 65535 -> stops is_numch r -> scan_port (dec p ++ r) = Some (p, r).
Proof.
  intros Hp Hr. unfold scan_port.
  pose proof (dec_digits p) as Hd. pose proof (dec_val_dec p) as Hv.
  destruct (dec p) as [|c ds] eqn:E; [exfalso; exact (dec_nonempty p E)|].
  assert (Hc : is_digit c = true) by (cbn [forallb] in Hd; apply andb_true_iff in Hd; tauto).
  destruct (digit_facts c Hc) as (_ & _ & _ & _ & Hm & Hpl & _ & _).
  cbn [app]. rewrite Hm, Hpl.
  change (c :: ds ++ r) with ((c :: ds) ++ r).
  rewrite (span_app_stop _ _ _ (digits_numch _ Hd) Hr).
  rewrite (digits_no_under _ Hd), Hv.
  assert (K : 65535 <? p = false) by (apply N.ltb_ge; exact Hp). rewrite K. reflexivity.
Qed.

Definition fam_txt (six : bool) : list byte := if six then txt "TCP6" else txt "TCP4".
Definition v1_line (six : bool) (S D : list byte) (sp dp : N) : list byte :=
  txt "PROXY" ++ cSP :: fam_txt six ++ cSP :: S ++ cSP :: D ++ cSP :: dec sp ++ cSP :: dec dp ++ crlf.

Lemma dec_nonsp n : forallb nonsp (dec n) = true.
Proof. apply digits_nonsp, dec_digits. Qed.

Lemma parse_v1_line_ok six S D a b sp dp :
  ip_text_ok S a -> ip_text_ok D b -> (six = false -> is4 a && is4 b = true) ->
  sp <= 65535 -> dp <= 65535 ->
  parse_v1_line (v1_line six S D sp dp) =
    Some {| h_version := 1; h_cmd := 1; h_src := Some (ATcp a sp); h_dst := Some (ATcp b dp) |}.
Proof.
  intros [Sn Se _ Sp] [Dn De _ Dp] Hfam Hsp Hdp.
  unfold parse_v1_line, v1_line.
  assert (U : forall X, has_prefix (txt "PROXY" ++ cSP :: fam_txt six ++ X) (txt "PROXY UNKNOWN") = false)
    by (intro X; destruct six; reflexivity).
  rewrite U.
  assert (P : forall X, has_prefix (txt "PROXY" ++ X) (txt "PROXY") = true) by (intro X; reflexivity).
  rewrite P. cbv iota. cbn [negb].
  change (skipn 5 (txt "PROXY" ++ ?X)) with X.
  assert (Fn : forallb nonsp (fam_txt six) = true) by (destruct six; reflexivity).
  assert (Fe : fam_txt six <> []) by (destruct six; discriminate).
  rewrite (sep_sp _ _ Fe Fn), (tok_app _ _ Fn). cbv iota beta.
  rewrite (sep_sp _ _ Se Sn), (tok_app _ _ Sn). cbv iota beta.
  rewrite (sep_sp _ _ De Dn), (tok_app _ _ Dn). cbv iota beta.
  rewrite (sep_sp _ _ (dec_nonempty sp) (dec_nonsp sp)).
  rewrite (scan_port_dec sp _ Hsp) by reflexivity. cbv iota beta.
  rewrite (sep_sp _ _ (dec_nonempty dp) (dec_nonsp dp)).
  rewrite (scan_port_dec dp _ Hdp) by reflexivity. cbv iota beta.
  change (snd (span is_sp crlf)) with [cLF]. cbv iota.
  change (Byte.eqb cLF cLF) with true. cbn [negb]. cbv iota.
  rewrite Sp, Dp.
  destruct six.
  - reflexivity.
  - change (bytes_eqb (fam_txt false) (txt "TCP4")) with true.
    cbn [orb negb andb]. rewrite (Hfam eq_refl). reflexivity.
Qed.

(* ---------- v1: the line reader *)
Definition notlf (b : byte) : bool := negb (Byte.eqb b cLF).

Lemma line_scan_ok body rest : forall fuel last acc,
  forallb notlf body = true -> (length body + 1 <= fuel)%nat ->
  line_scan fuel last acc (body ++ cCR :: cLF :: rest) = LOk (acc ++ body ++ crlf) rest.
Proof.
  induction body as [|b body IH]; intros fuel last acc Hb Hf.
  - destruct fuel as [|f]; [cbn in Hf; lia|].
    cbn [app line_scan]. change (Byte.eqb cCR cLF) with false. rewrite andb_false_r.
    destruct f; cbn [line_scan]; change (Byte.eqb cCR cCR && Byte.eqb cLF cLF) with true; cbv iota;
    rewrite <- app_assoc; reflexivity.
  - cbn [forallb] in Hb. apply andb_true_iff in Hb as [Hx Hb]. unfold notlf in Hx. apply negb_true_iff in Hx.
    destruct fuel as [|f]; [cbn in Hf; lia|].
    cbn [app line_scan]. rewrite Hx, andb_false_r.
    rewrite IH; [|exact Hb|cbn in Hf; lia]. rewrite <- app_assoc. reflexivity.
Qed.

Lemma nonsp_notlf l : forallb nonsp l = true -> forallb notlf l = true.
Proof. apply forallb_impl. intros x H. unfold notlf. destruct (nonsp_facts x H) as [_ ->]. reflexivity. Qed.

Lemma parse_v1_ok six S D a b sp dp payload :
  ip_text_ok S a -> ip_text_ok D b -> (six = false -> is4 a && is4 b = true) ->
  sp <= 65535 -> dp <= 65535 ->
  parse (v1_line six S D sp dp ++ payload) =
    POk {| h_version := 1; h_cmd := 1; h_src := Some (ATcp a sp); h_dst := Some (ATcp b dp) |} payload.
Proof.
  intros HS HD Hfam Hsp Hdp.
  pose proof (parse_v1_line_ok six S D a b sp dp HS HD Hfam Hsp Hdp) as HL.
  destruct HS as [Sn _ Sl _]. destruct HD as [Dn _ Dl _].
  set (body := txt "PROXY" ++ cSP :: fam_txt six ++ cSP :: S ++ cSP :: D ++ cSP :: dec sp ++ cSP :: dec dp).
  assert (E : v1_line six S D sp dp = body ++ crlf).
  { unfold v1_line, body. rewrite <- !app_assoc. cbn [app]. rewrite <- !app_assoc. cbn [app].
    rewrite <- !app_assoc. cbn [app]. rewrite <- !app_assoc. cbn [app]. rewrite <- !app_assoc. reflexivity. }
  assert (Hp : parse (v1_line six S D sp dp ++ payload) = parse_v1 (v1_line six S D sp dp ++ payload)) by reflexivity.
  rewrite Hp. unfold parse_v1. rewrite E, <- app_assoc.
  change (crlf ++ payload) with (cCR :: cLF :: payload).
  rewrite line_scan_ok.
  - cbn [app]. rewrite <- E, HL. reflexivity.
  - unfold body. assert (Fn : forallb notlf (fam_txt six) = true) by (destruct six; reflexivity).
    rewrite forallb_app. cbn [forallb]. rewrite forallb_app. cbn [forallb]. rewrite forallb_app. cbn [forallb].
    rewrite forallb_app. cbn [forallb]. rewrite forallb_app. cbn [forallb].
    rewrite Fn, (nonsp_notlf _ Sn), (nonsp_notlf _ Dn), (nonsp_notlf _ (dec_nonsp sp)), (nonsp_notlf _ (dec_nonsp dp)). reflexivity.
  - unfold body. assert (Fl : length (fam_txt six) = 4%nat) by (destruct six; reflexivity).
    rewrite app_length. cbn [length]. rewrite app_length. cbn [length]. rewrite app_length. cbn [length].
    rewrite app_length. cbn [length]. rewrite app_length. cbn [length]. rewrite Fl.
    pose proof (dec_length sp 4 ltac:(change (10 ^ N.of_nat 5) with 100000; lia)).
    pose proof (dec_length dp 4 ltac:(change (10 ^ N.of_nat 5) with 100000; lia)).
    change (length (txt "PROXY")) with 5%nat. unfold v1_max_line. lia.
Qed.
(* ---------- v2: big-endian fields *)
Lemma be_N_app l b : be_N (l ++ [b]) = be_N l * 256 + bN b.
Proof. unfold be_N. rewrite fold_left_app. reflexivity. Qed.

Lemma N_to_be_length w : forall v, length (N_to_be w v) = w.
Proof. induction w as [|w IH]; intro v; cbn [N_to_be]; [reflexivity|]. rewrite app_length, IH. cbn. lia. Qed.

Lemma be_N_to_be w : forall v, v < 256 ^ N.of_nat w -> be_N (N_to_be w v) = v.
Proof.
  induction w as [|w IH]; intros v Hv.
  - cbn in Hv. assert (v = 0) by lia. subst. reflexivity.
  - cbn [N_to_be]. rewrite be_N_app, IH.
    + change (match Byte.of_N (v mod 256) with Some b => b | None => x00 end) with (byte_of_N (v mod 256)).
      rewrite bN_byte_of_N by (apply N.mod_lt; lia).
      pose proof (N.div_mod' v 256) as Hdm. generalize dependent (v / 256). generalize dependent (v mod 256). intros. lia.
    + rewrite Nnat.Nat2N.inj_succ, N.pow_succ_r' in Hv. apply N.div_lt_upper_bound; lia.
Qed.

Lemma read_full_exact n a r : length a = n -> read_full n (a ++ r) = Some (a, r).
Proof.
  intro H. unfold read_full. rewrite app_length.
  assert (K : (length a + length r <? n)%nat = false) by (apply Nat.ltb_ge; lia). rewrite K.
  subst n. rewrite firstn_app, Nat.sub_diag, firstn_all. cbn [firstn]. rewrite app_nil_r.
  rewrite skipn_app, Nat.sub_diag, skipn_all. reflexivity.
Qed.

Lemma firstn_exact {A} n (a r : list A) : length a = n -> firstn n (a ++ r) = a.
Proof. intro H. subst. rewrite firstn_app, Nat.sub_diag, firstn_all. cbn [firstn]. apply app_nil_r. Qed.
Lemma skipn_exact {A} n (a r : list A) : length a = n -> skipn n (a ++ r) = r.
Proof. intro H. subst. rewrite skipn_app, Nat.sub_diag, skipn_all. reflexivity. Qed.

(* ---------- v2: trailing NULs of unix names *)
Definition no_trailing_nul (l : list byte) : Prop := trim_right_zeros l = l.

Lemma trim_repeat k : trim_right_zeros (repeat x00 k) = [].
Proof. induction k; cbn [repeat trim_right_zeros]; [reflexivity|]. rewrite IHk. reflexivity. Qed.
Lemma trim_app_zeros l k : no_trailing_nul l -> trim_right_zeros (l ++ repeat x00 k) = l.
Proof.
  unfold no_trailing_nul. induction l as [|x l IH]; intro H; cbn [app].
  - apply trim_repeat.
  - cbn [trim_right_zeros] in *.
    destruct (trim_right_zeros l) as [|y t] eqn:E.
    + destruct (Byte.eqb x x00) eqn:Ex; [discriminate|]. injection H as H. subst l.
      cbn [app]. rewrite trim_repeat. reflexivity.
    + injection H as H. rewrite (IH H). subst l. reflexivity.
Qed.
Lemma pad_length n l : (length l <= n)%nat -> length (pad_to n l) = n.
Proof. intro H. unfold pad_to. rewrite app_length, repeat_length. lia. Qed.

(* ---------- v2: round trip *)
Definition v2_wf (h : v2spec) : Prop :=
  s_proto h <= 2 /\
  match s_block h with
  | V2Unspec => True
  | V2Inet s d sp dp => s < two32 /\ d < two32 /\ sp < two16 /\ dp < two16
  | V2Inet6 s d sp dp => s < two128 /\ d < two128 /\ sp < two16 /\ dp < two16
  | V2Unix s d => (length s <= 108)%nat /\ (length d <= 108)%nat /\ no_trailing_nul s /\ no_trailing_nul d
  end.
(* the addresses a v2 header declares *)
Definition v2_declared (h : v2spec) : option addr * option addr :=
  if s_local h then (None, None)
  else match s_block h, s_proto h with
       | V2Inet s d sp dp, 1 => (Some (ATcp (IP4 s) sp), Some (ATcp (IP4 d) dp))
       | V2Inet s d sp dp, 2 => (Some (AUdp (IP4 s) sp), Some (AUdp (IP4 d) dp))
       | V2Inet6 s d sp dp, 1 => (Some (ATcp (IP6 s) sp), Some (ATcp (IP6 d) dp))
       | V2Inet6 s d sp dp, 2 => (Some (AUdp (IP6 s) sp), Some (AUdp (IP6 d) dp))
       | V2Unix s d, 1 => (Some (AUnix false s), Some (AUnix false d))
       | V2Unix s d, 2 => (Some (AUnix true s), Some (AUnix true d))
       | _, _ => (None, None)
       end.
Definition v2_hdr (h : v2spec) : hdr :=
  {| h_version := 2; h_cmd := if s_local h then 0 else 1; h_src := fst (v2_declared h); h_dst := snd (v2_declared h) |}.

Lemma block_length b : (match b with V2Unix s d => (length s <= 108)%nat /\ (length d <= 108)%nat | _ => True end) ->
  v2_block_len (block_fam b) = Some (length (block_bytes b)).
Proof.
  destruct b; cbn [block_fam block_bytes v2_block_len]; intros H.
  - reflexivity.
  - rewrite !app_length, !N_to_be_length. reflexivity.
  - rewrite !app_length, !N_to_be_length. reflexivity.
  - destruct H. rewrite app_length, !pad_length by assumption. reflexivity.
Qed.

Definition v2_head (cmdb fpb : N) (len : N) : list byte :=
  sig_v2 ++ [byte_of_N cmdb; byte_of_N fpb] ++ N_to_be 2 len.

Lemma parse_v2_head cmd fp len body rest :
  cmd <= 1 -> fp < 256 -> len < 65536 ->
  parse (v2_head (32 + cmd) fp len ++ body ++ rest) =
  match v2_block_len (fp / 16) with
  | None => PBad
  | Some bl =>
      if negb (len =? N.of_nat bl) then PBad
      else if 2 <? fp mod 16 then PBad
      else match read_full bl (body ++ rest) with
           | None => PShort
           | Some (blk, rest') =>
               let '(a, b) := v2_addrs cmd fp blk in
               POk {| h_version := 2; h_cmd := cmd; h_src := a; h_dst := b |} rest'
           end
  end.
Proof.
  intros Hc Hf Hl.
  assert (Hp : forall X, parse (v2_head (32 + cmd) fp len ++ X) = parse_v2 (v2_head (32 + cmd) fp len ++ X)) by reflexivity.
  rewrite Hp. unfold parse_v2.
  rewrite read_full_exact by (unfold v2_head; rewrite !app_length, N_to_be_length; reflexivity).
  unfold v2_head. cbn [app].
  change (firstn 12 (sig_v2 ++ ?X)) with sig_v2.
  change (skipn 12 (sig_v2 ++ ?X)) with X. change (skipn 13 (sig_v2 ++ ?a :: ?X)) with X.
  change (skipn 14 (sig_v2 ++ ?a :: ?b :: ?X)) with X.
  change (firstn 1 (?a :: ?X)) with [a].
  change (bytes_eqb sig_v2 sig_v2) with true. cbn [negb]. cbv iota.
  rewrite (firstn_all2 (n := 2)) by (rewrite N_to_be_length; lia).
  rewrite be_N_to_be by (change (256 ^ N.of_nat 2) with 65536; exact Hl).
  change (be_N [?b]) with (0 * 256 + bN b).
  rewrite !bN_byte_of_N by lia. rewrite !N.mul_0_l, !N.add_0_l.
  assert (E1 : (32 + cmd) / 16 = 2).
  { symmetry. apply (N.div_unique (32 + cmd) 16 2 cmd); lia. }
  assert (E2 : (32 + cmd) mod 16 = cmd).
  { symmetry. apply (N.mod_unique (32 + cmd) 16 2 cmd); lia. }
  rewrite E1, E2. change (2 =? 2) with true. cbn [negb]. cbv iota.
  assert (E3 : 1 <? cmd = false) by (apply N.ltb_ge; exact Hc). rewrite E3.
  reflexivity.
Qed.
Lemma block4 {A} w (a b c d : list A) :
  length a = w -> length b = w -> length c = 2%nat -> length d = 2%nat ->
  firstn w (a ++ b ++ c ++ d) = a /\ firstn w (skipn w (a ++ b ++ c ++ d)) = b /\
  firstn 2 (skipn (2 * w) (a ++ b ++ c ++ d)) = c /\ firstn 2 (skipn (2 * w + 2) (a ++ b ++ c ++ d)) = d.
Proof.
  intros Ha Hb Hc Hd. repeat split.
  - apply firstn_exact, Ha.
  - rewrite (skipn_exact w a _ Ha). apply firstn_exact, Hb.
  - replace (a ++ b ++ c ++ d) with ((a ++ b) ++ c ++ d) by (rewrite <- app_assoc; reflexivity).
    rewrite skipn_exact by (rewrite app_length; lia). apply firstn_exact, Hc.
  - replace (a ++ b ++ c ++ d) with ((a ++ b ++ c) ++ d) by (rewrite <- !app_assoc; reflexivity).
    rewrite skipn_exact by (rewrite !app_length; lia). apply firstn_all2. lia.
Qed.

Lemma encode_v2_shape h payload :
  encode_v2 h ++ payload =
  v2_head (32 + (if s_local h then 0 else 1))
          (block_fam (s_block h) * 16 + match s_block h with V2Unspec => 0 | _ => s_proto h end)
          (N.of_nat (length (block_bytes (s_block h) ++ tlvs_bytes (s_tlvs h))))
  ++ (block_bytes (s_block h) ++ tlvs_bytes (s_tlvs h)) ++ payload.
Proof. unfold encode_v2, v2_head. rewrite <- !app_assoc. reflexivity. Qed.

Lemma fp_divmod f p : p <= 2 -> (f * 16 + p) / 16 = f /\ (f * 16 + p) mod 16 = p.
Proof.
  intro H. split.
  - symmetry. apply (N.div_unique _ 16 f p); lia.
  - symmetry. apply (N.mod_unique _ 16 f p); lia.
Qed.

Lemma v2_addrs_declared h : v2_wf h -> s_local h = false ->
  v2_addrs 1 (block_fam (s_block h) * 16 + match s_block h with V2Unspec => 0 | _ => s_proto h end) (block_bytes (s_block h))
  = v2_declared h.
Proof.
  intros [Hp Hb] Hl. unfold v2_declared. rewrite Hl.
  assert (Hp3 : s_proto h = 0 \/ s_proto h = 1 \/ s_proto h = 2) by lia.
  destruct (s_block h) as [|s d sp dp|s d sp dp|s d]; cbn [block_fam block_bytes].
  - reflexivity.
  - destruct Hb as (Hs & Hd & Hsp & Hdp).
    destruct (block4 4 (N_to_be 4 s) (N_to_be 4 d) (N_to_be 2 sp) (N_to_be 2 dp)) as (E1 & E2 & E3 & E4);
      try apply N_to_be_length.
    destruct Hp3 as [-> | [-> | ->]]; [reflexivity | |];
      change (1 * 16 + 1) with 17; change (1 * 16 + 2) with 18; cbv beta iota delta [v2_addrs]; change (1 =? 0) with false; cbv beta iota zeta;
      rewrite E1, E2, E3, E4, !be_N_to_be by assumption; reflexivity.
  - destruct Hb as (Hs & Hd & Hsp & Hdp).
    destruct (block4 16 (N_to_be 16 s) (N_to_be 16 d) (N_to_be 2 sp) (N_to_be 2 dp)) as (E1 & E2 & E3 & E4);
      try apply N_to_be_length.
    destruct Hp3 as [-> | [-> | ->]]; [reflexivity | |];
      change (2 * 16 + 1) with 33; change (2 * 16 + 2) with 34; cbv beta iota delta [v2_addrs]; change (1 =? 0) with false; cbv beta iota zeta;
      rewrite E1, E2, E3, E4, !be_N_to_be by assumption; reflexivity.
  - destruct Hb as (Hs & Hd & Ns & Nd).
    destruct Hp3 as [-> | [-> | ->]]; [reflexivity | |];
      change (3 * 16 + 1) with 49; change (3 * 16 + 2) with 50; cbv beta iota delta [v2_addrs]; change (1 =? 0) with false; cbv beta iota zeta;
      rewrite (firstn_exact 108) by (apply pad_length; assumption);
      rewrite (skipn_exact 108) by (apply pad_length; assumption);
      rewrite (firstn_all2 (n := 108)) by (rewrite pad_length by assumption; lia);
      unfold pad_to; rewrite !trim_app_zeros by assumption; reflexivity.
Qed.

Lemma wf_block_len h : v2_wf h ->
  match s_block h with V2Unix s d => (length s <= 108)%nat /\ (length d <= 108)%nat | _ => True end.
Proof. intros [_ H]. destruct (s_block h); try exact I. tauto. Qed.

Lemma block_bytes_small b : (match b with V2Unix s d => (length s <= 108)%nat /\ (length d <= 108)%nat | _ => True end) ->
  (length (block_bytes b) <= 216)%nat.
Proof.
  intro H. destruct b; cbn [block_bytes]; rewrite ?app_length, ?N_to_be_length; cbn [length]; try lia.
  destruct H. rewrite !pad_length by assumption. lia.
Qed.

Lemma parse_encode_v2 h payload : v2_wf h -> s_tlvs h = [] ->
  parse (encode_v2 h ++ payload) = POk (v2_hdr h) payload.
Proof.
  intros Hwf Ht. pose proof Hwf as [Hp _].
  pose proof (wf_block_len h Hwf) as Hbl. pose proof (block_length _ Hbl) as Hlen. pose proof (block_bytes_small _ Hbl) as Hsm.
  rewrite encode_v2_shape, Ht. cbn [tlvs_bytes flat_map]. rewrite app_nil_r.
  set (p := match s_block h with V2Unspec => 0 | _ => s_proto h end).
  assert (Hp' : p <= 2) by (unfold p; destruct (s_block h); lia).
  assert (Hf : block_fam (s_block h) <= 3) by (destruct (s_block h); cbn; lia).
  rewrite parse_v2_head; [| destruct (s_local h); lia | lia | lia].
  destruct (fp_divmod (block_fam (s_block h)) p Hp') as [-> ->].
  rewrite Hlen, N.eqb_refl. cbn [negb]. cbv iota.
  assert (K : 2 <? p = false) by (apply N.ltb_ge; exact Hp'). rewrite K.
  rewrite read_full_exact by reflexivity.
  unfold v2_hdr. destruct (s_local h) eqn:El.
  - unfold v2_declared. rewrite El. reflexivity.
  - unfold p. rewrite (v2_addrs_declared h Hwf El). destruct (v2_declared h). reflexivity.
Qed.

(* every TLV occupies at least 3 bytes *)
Lemma tlvs_nonempty l : l <> [] -> (0 < length (tlvs_bytes l))%nat.
Proof.
  destruct l as [|t l]; [congruence|]. intros _. cbn [tlvs_bytes flat_map]. unfold tlv_bytes.
  rewrite !app_length, !N_to_be_length. lia.
Qed.

Lemma v2_tlv_rejected h payload : v2_wf h -> s_tlvs h <> [] ->
  N.of_nat (length (block_bytes (s_block h) ++ tlvs_bytes (s_tlvs h))) < 65536 ->
  parse (encode_v2 h ++ payload) = PBad.
Proof.
  intros Hwf Ht Hsz. pose proof Hwf as [Hp _].
  pose proof (wf_block_len h Hwf) as Hbl. pose proof (block_length _ Hbl) as Hlen.
  pose proof (tlvs_nonempty _ Ht) as Htl.
  rewrite encode_v2_shape.
  set (p := match s_block h with V2Unspec => 0 | _ => s_proto h end).
  assert (Hp' : p <= 2) by (unfold p; destruct (s_block h); lia).
  assert (Hf : block_fam (s_block h) <= 3) by (destruct (s_block h); cbn; lia).
  rewrite parse_v2_head; [| destruct (s_local h); lia | lia | lia].
  destruct (fp_divmod (block_fam (s_block h)) p Hp') as [-> _].
  rewrite Hlen.
  assert (K : (N.of_nat (length (block_bytes (s_block h) ++ tlvs_bytes (s_tlvs h))) =? N.of_nat (length (block_bytes (s_block h)))) = false).
  { apply N.eqb_neq. rewrite app_length. lia. }
  rewrite K. reflexivity.
Qed.
(* ---------- allow list *)
Lemma ipnet_eqb_eq a b : ipnet_eqb a b = true <-> a = b.
Proof.
  unfold ipnet_eqb. destruct a as [a1 a2 a3], b as [b1 b2 b3]. cbn [n_bits n_base n_ones]. split.
  - intro H. apply andb_true_iff in H as [H H3]. apply andb_true_iff in H as [H1 H2].
    apply N.eqb_eq in H1, H2, H3. subst. reflexivity.
  - intro H. injection H as -> -> ->. rewrite !N.eqb_refl. reflexivity.
Qed.

Fixpoint compact (last : rule) (l : list rule) : list rule :=
  match l with
  | [] => []
  | f :: r => if ipnet_eqb (r_net last) (r_net f) then compact last r else f :: compact f r
  end.

Lemma nth_error_mid {A} (p j t : list A) f : nth_error (p ++ j ++ f :: t) (length p + length j) = Some f.
Proof.
  rewrite nth_error_app2 by lia. replace (length p + length j - length p)%nat with (length j) by lia.
  rewrite nth_error_app2 by lia. rewrite Nat.sub_diag. reflexivity.
Qed.

Lemma set_nth_at (p r : list rule) x y : set_nth (p ++ y :: r) (length p) x = p ++ x :: r.
Proof. unfold set_nth. rewrite firstn_exact by reflexivity. rewrite skipn_exact by reflexivity. reflexivity. Qed.

Lemma compact_loop_spec : forall T P J last k nlen,
  k = (length P + length J)%nat -> S nlen = length P ->
  exists J', fst (compact_loop k (length T) (P ++ J ++ T) last nlen) = P ++ compact last T ++ J' /\ incl J' (J ++ T).
Proof.
  induction T as [|f T IH]; intros P J last k nlen Hk Hn.
  - exists J. cbn [length compact_loop fst compact app]. rewrite !(app_nil_r J). split; [reflexivity|]. apply incl_refl.
  - cbn [length compact_loop]. subst k. rewrite nth_error_mid. cbn [compact].
    destruct (ipnet_eqb (r_net last) (r_net f)) eqn:E.
    + destruct (IH P (J ++ [f]) last (S (length P + length J)) nlen) as (J' & E1 & E2).
      * rewrite app_length. cbn [length]. lia.
      * exact Hn.
      * exists J'. split.
        -- rewrite <- E1. f_equal. f_equal. rewrite <- !app_assoc. reflexivity.
        -- intros x Hx. apply E2 in Hx. rewrite <- app_assoc in Hx. exact Hx.
    + rewrite Hn. destruct J as [|j J1].
      * cbn [app]. rewrite set_nth_at.
        destruct (IH (P ++ [f]) [] f (S (length P + length (@nil rule))) (length P)) as (J' & E1 & E2).
        -- rewrite app_length. cbn [length]. lia.
        -- rewrite app_length. cbn [length]. lia.
        -- exists J'. split.
           ++ cbn [app] in E1. rewrite <- app_assoc in E1. cbn [app] in E1. rewrite E1. rewrite <- app_assoc. reflexivity.
           ++ intros x Hx. apply E2 in Hx. cbn [app] in *. right. exact Hx.
      * cbn [app]. rewrite set_nth_at.
        destruct (IH (P ++ [f]) (J1 ++ [f]) f (S (length P + length (j :: J1))) (length P)) as (J' & E1 & E2).
        -- rewrite !app_length. cbn [length]. lia.
        -- rewrite app_length. cbn [length]. lia.
        -- exists J'. split.
           ++ rewrite <- !app_assoc in E1. cbn [app] in E1. exact E1.
           ++ intros x Hx. apply E2 in Hx. rewrite <- app_assoc in Hx. cbn [app] in *.
              apply in_app_or in Hx as [Hx|Hx]; [right; apply in_or_app; left; exact Hx|].
              destruct Hx as [<-|Hx]; [right; apply in_or_app; right; left; reflexivity|].
              right. apply in_or_app. right. right. exact Hx.
Qed.

Lemma compact_incl : forall T last, incl (compact last T) T.
Proof.
  induction T as [|f T IH]; intros last x Hx; cbn [compact] in Hx; [exact Hx|].
  destruct (ipnet_eqb (r_net last) (r_net f)).
  - right. exact (IH _ _ Hx).
  - destruct Hx as [<-|Hx]; [left; reflexivity|right; exact (IH _ _ Hx)].
Qed.
Lemma compact_covers : forall T last y, In y T -> exists x, In x (last :: compact last T) /\ r_net x = r_net y.
Proof.
  induction T as [|f T IH]; intros last y Hy; [destruct Hy|]. cbn [compact].
  destruct (ipnet_eqb (r_net last) (r_net f)) eqn:E.
  - destruct Hy as [<-|Hy].
    + exists last. split; [left; reflexivity|]. apply ipnet_eqb_eq, E.
    + exact (IH last y Hy).
  - destruct Hy as [<-|Hy].
    + exists f. split; [right; left; reflexivity|reflexivity].
    + destruct (IH f y Hy) as (x & Hx & Ex). exists x. split; [right; exact Hx|exact Ex].
Qed.

Section TidyProofs.
Variable sort : list rule -> list rule.
Hypothesis sort_perm : forall l, Permutation (sort l) l.

Lemma tidy_shape rules : match sort rules with
  | [] => tidy_rules_with sort rules = []
  | r0 :: rest => exists J', tidy_rules_with sort rules = r0 :: compact r0 rest ++ J' /\ incl J' rest
  end.
Proof.
  unfold tidy_rules_with. destruct (sort rules) as [|r0 rest] eqn:E; [reflexivity|].
  destruct (compact_loop_spec rest [r0] [] r0 1 0 eq_refl eq_refl) as (J' & E1 & E2).
  exists J'. split; [|exact E2].
  replace (length (r0 :: rest) - 1)%nat with (length rest) by (cbn [length]; lia). exact E1.
Qed.

(* sorting and the in-place compaction preserve the SET of configured subnets *)
Lemma tidy_nets rules n : In n (map r_net (tidy_rules_with sort rules)) <-> In n (map r_net rules).
Proof.
  pose proof (tidy_shape rules) as H. pose proof (sort_perm rules) as HP.
  destruct (sort rules) as [|r0 rest] eqn:E.
  - rewrite H. apply Permutation_nil in HP. subst. reflexivity.
  - destruct H as (J' & -> & HJ). rewrite !in_map_iff. split.
    + intros (x & Ex & Hx). exists x. split; [exact Ex|]. apply (Permutation_in _ HP).
      destruct Hx as [<-|Hx]; [left; reflexivity|]. right.
      apply in_app_or in Hx as [Hx|Hx]; [exact (compact_incl _ _ _ Hx)|exact (HJ _ Hx)].
    + intros (y & Ey & Hy). apply (Permutation_in _ (Permutation_sym HP)) in Hy.
      destruct Hy as [<-|Hy].
      * exists r0. split; [exact Ey|left; reflexivity].
      * destruct (compact_covers rest r0 y Hy) as (x & Hx & Ex). exists x. split; [congruence|].
        destruct Hx as [<-|Hx]; [left; reflexivity|right; apply in_or_app; left; exact Hx].
Qed.

Lemma tidy_nil rules : tidy_rules_with sort rules = [] <-> rules = [].
Proof.
  pose proof (tidy_shape rules) as H. pose proof (sort_perm rules) as HP.
  destruct (sort rules) as [|r0 rest] eqn:E.
  - apply Permutation_nil in HP. subst. tauto.
  - destruct H as (J' & -> & _). split; [discriminate|]. intros ->. apply Permutation_sym, Permutation_nil in HP. discriminate.
Qed.
End TidyProofs.

Lemma insert_rule_perm x l : Permutation (insert_rule x l) (x :: l).
Proof.
  induction l as [|y l IH]; cbn [insert_rule]; [apply Permutation_refl|].
  destruct (rule_less y x); [|apply Permutation_refl].
  eapply Permutation_trans; [apply perm_skip, IH|apply perm_swap].
Qed.
Lemma isort_perm l : Permutation (isort l) l.
Proof.
  unfold isort. induction l as [|x l IH]; cbn [fold_right]; [apply perm_nil|].
  eapply Permutation_trans; [apply insert_rule_perm|apply perm_skip, IH].
Qed.

Lemma first_containing_iff rs x : first_containing rs x <> None <-> exists n, In n (map r_net rs) /\ contains n x = true.
Proof.
  induction rs as [|r rs IH]; cbn [first_containing map].
  - split; [congruence|]. intros (n & [] & _).
  - destruct (contains (r_net r) x) eqn:E.
    + split; [|discriminate]. intros _. exists (r_net r). split; [left; reflexivity|exact E].
    + rewrite IH. split.
      * intros (n & Hn & Hc). exists n. split; [right; exact Hn|exact Hc].
      * intros (n & [<-|Hn] & Hc); [congruence|]. exists n. split; assumption.
Qed.

(* the property text's notion: no list configured, or some configured CIDR contains the peer's IP *)
Definition peer_allowed (rules : list rule) (remote : addr) : Prop :=
  rules = [] \/ exists x n, remote_ip_of remote = Some x /\ In n (map r_net rules) /\ contains n x = true.

Lemma allow_iff_contained_with sort (sort_perm : forall l, Permutation (sort l) l) timeout rules remote :
  new_conn timeout (tidy_rules_with sort rules) remote <> None <-> peer_allowed rules remote.
Proof.
  unfold new_conn, peer_allowed.
  destruct (tidy_rules_with sort rules) as [|t ts] eqn:E.
  - apply (proj1 (tidy_nil sort sort_perm rules)) in E. subst. split; [left; reflexivity|discriminate].
  - assert (Hne : rules <> []).
    { intro H. apply (proj2 (tidy_nil sort sort_perm rules)) in H. congruence. }
    rewrite <- E. destruct (remote_ip_of remote) as [x|].
    + rewrite first_containing_iff. split.
      * intros (n & Hn & Hc). right. exists x, n. split; [reflexivity|]. split; [|exact Hc].
        apply (tidy_nets sort sort_perm). exact Hn.
      * intros [H|(x' & n & Ex & Hn & Hc)]; [congruence|]. injection Ex as <-. exists n. split; [|exact Hc].
        apply (tidy_nets sort sort_perm). exact Hn.
    + split; [congruence|]. intros [H|(x' & n & Ex & _)]; congruence.
Qed.

(* CIDR containment over 32/128-bit numbers, for a masked base *)
Lemma prefix_eq_range bits ones base a : ones <= bits -> base mod 2 ^ (bits - ones) = 0 ->
  prefix_eq bits ones base a = true <-> base <= a < base + 2 ^ (bits - ones).
Proof.
  intros Ho Hb. unfold prefix_eq. set (m := 2 ^ (bits - ones)) in *.
  assert (Hm : m <> 0) by (apply N.pow_nonzero; lia). clearbody m.
  pose proof (N.div_mod' base m) as Eb. rewrite Hb, N.add_0_r in Eb.
  pose proof (N.div_mod' a m) as Ea. pose proof (N.mod_lt a m Hm) as La.
  rewrite N.eqb_eq. split.
  - intro E. rewrite <- E, <- Eb in Ea. clear - Ea La. generalize dependent (a mod m). intros. lia.
  - intros [H1 H2]. apply (N.div_unique a m (base / m) (a - base)); [clear - H1 H2; lia|].
    rewrite <- Eb. clear - H1. lia.
Qed.
(* ---------- v1: round trip at the level of the specification *)
Definition v1_wf (h : v1spec) : Prop :=
  match h with
  | V1Unknown => True
  | V1Tcp4 s d sp dp => s < two32 /\ d < two32 /\ sp < two16 /\ dp < two16
  | V1Tcp6 s d sp dp => s < two128 /\ d < two128 /\ sp < two16 /\ dp < two16
  end.
Definition v1_hdr (h : v1spec) : hdr :=
  match h with
  | V1Unknown => {| h_version := 1; h_cmd := 1; h_src := Some (ATcp IPnil 0); h_dst := Some (ATcp IPnil 0) |}
  | V1Tcp4 s d sp dp => {| h_version := 1; h_cmd := 1; h_src := Some (ATcp (IP4 s) sp); h_dst := Some (ATcp (IP4 d) dp) |}
  | V1Tcp6 s d sp dp =>
      {| h_version := 1; h_cmd := 1; h_src := Some (ATcp (norm_ip (IP6 s)) sp); h_dst := Some (ATcp (norm_ip (IP6 d)) dp) |}
  end.
(* what the v1 theorems need from the IPv6 text form *)
Definition ip6_text_ok (render6 : N -> list byte) : Prop :=
  forall a, a < two128 -> ip_text_ok (render6 a) (norm_ip (IP6 a)).

Lemma parse_unknown payload : parse (txt "PROXY UNKNOWN" ++ crlf ++ payload) = POk (v1_hdr V1Unknown) payload.
Proof.
  assert (Hp : parse (txt "PROXY UNKNOWN" ++ crlf ++ payload) = parse_v1 (txt "PROXY UNKNOWN" ++ crlf ++ payload)) by reflexivity.
  rewrite Hp. unfold parse_v1. change (crlf ++ payload) with (cCR :: cLF :: payload).
  rewrite line_scan_ok; [reflexivity|reflexivity|unfold v1_max_line; cbn; lia].
Qed.

Lemma two16_le p : p < two16 -> p <= 65535.
Proof. unfold two16. lia. Qed.

Lemma parse_encode_v1_with render6 h payload : ip6_text_ok render6 -> v1_wf h ->
  parse (encode_v1_with render6 h ++ payload) = POk (v1_hdr h) payload.
Proof.
  intros H6 Hwf. destruct h as [|s d sp dp|s d sp dp]; cbn [v1_wf] in Hwf.
  - unfold encode_v1_with. rewrite <- app_assoc. apply parse_unknown.
  - destruct Hwf as (Hs & Hd & Hsp & Hdp).
    change (encode_v1_with render6 (V1Tcp4 s d sp dp)) with (v1_line false (render_ip4 s) (render_ip4 d) sp dp).
    apply parse_v1_ok; auto using ip4_text_ok, two16_le.
  - destruct Hwf as (Hs & Hd & Hsp & Hdp).
    change (encode_v1_with render6 (V1Tcp6 s d sp dp)) with (v1_line true (render6 s) (render6 d) sp dp).
    apply parse_v1_ok; auto using two16_le. discriminate.
Qed.

Lemma parse_encode_v1_no6 render6 h payload : (match h with V1Tcp6 _ _ _ _ => False | _ => True end) -> v1_wf h ->
  parse (encode_v1_with render6 h ++ payload) = POk (v1_hdr h) payload.
Proof.
  intros Hn Hwf. destruct h as [|s d sp dp|s d sp dp]; cbn [v1_wf] in Hwf; [| |destruct Hn].
  - unfold encode_v1_with. rewrite <- app_assoc. apply parse_unknown.
  - destruct Hwf as (Hs & Hd & Hsp & Hdp).
    change (encode_v1_with render6 (V1Tcp4 s d sp dp)) with (v1_line false (render_ip4 s) (render_ip4 d) sp dp).
    apply parse_v1_ok; auto using ip4_text_ok, two16_le.
Qed.

(* ---------- the receiving handler *)
Lemma handle_passthrough sets real timeout rules cv :
  new_conn timeout rules (c_remote cv) = None -> handle_with sets real timeout rules cv = HPass cv.
Proof. intro H. unfold handle_with. rewrite H. reflexivity. Qed.

Definition accepted_view (sets real : bool) (cv : cview) (h : hdr) (rest : list byte) : cview :=
  let r := override (hdr_addr real (h_src h)) (c_remote cv) in
  let l := override (hdr_addr real (h_dst h)) (c_local cv) in
  {| c_remote := r; c_local := l;
     c_repl_remote := if sets then r else c_repl_remote cv;
     c_repl_local := if sets then l else c_repl_local cv;
     c_stream := rest; c_ppvar := Some (r, l) |}.

Lemma handle_accepts sets real timeout rules cv h rest :
  new_conn timeout rules (c_remote cv) <> None -> parse (c_stream cv) = POk h rest ->
  handle_with sets real timeout rules cv = HNext (accepted_view sets real cv h rest).
Proof.
  intros Hn Hp. unfold handle_with. destruct (new_conn timeout rules (c_remote cv)); [|congruence].
  rewrite Hp. reflexivity.
Qed.
Lemma handle_rejects sets real timeout rules cv :
  new_conn timeout rules (c_remote cv) <> None -> (forall h rest, parse (c_stream cv) <> POk h rest) ->
  handle_with sets real timeout rules cv = HError.
Proof.
  intros Hn Hp. unfold handle_with. destruct (new_conn timeout rules (c_remote cv)); [|congruence].
  destruct (parse (c_stream cv)) eqn:E; [exfalso; exact (Hp _ _ eq_refl)| |]; reflexivity.
Qed.

Lemma sets_true : l4proxyprotocol_handle_sets_placeholders = true.
Proof. reflexivity. Qed.

(* after an accepted header the replacer entries equal what the connection reports *)
Lemma placeholders_follow_header timeout rules cv v :
  handle timeout rules cv = HNext v -> c_repl_remote v = c_remote v /\ c_repl_local v = c_local v.
Proof.
  unfold handle. rewrite sets_true. unfold handle_with.
  destruct (new_conn timeout rules (c_remote cv)); [|discriminate].
  destruct (parse (c_stream cv)); try discriminate. intro H. injection H as <-. split; reflexivity.
Qed.

(* ---------- the sending side *)
Definition ip_ok (i : ip) : Prop := match i with IPnil => True | IP4 a => a < two32 | IP6 a => a < two128 end.

Lemma is4_render i : is4 i = true -> ip_ok i -> render_ip i = render_ip4 (as4 i) /\ as4 i < two32 /\ norm_ip i = IP4 (as4 i).
Proof.
  unfold is4, render_ip, as4. intros H Hok. destruct (norm_ip i) as [|a|a] eqn:E; try discriminate.
  split; [reflexivity|]. split; [|reflexivity].
  destruct i as [|b|b]; cbn [norm_ip] in E.
  - discriminate.
  - injection E as <-. exact Hok.
  - destruct (b / two32 =? 65535); [|discriminate]. injection E as <-. apply N.mod_lt. unfold two32. lia.
Qed.
Lemma not4_render i : is4 i = false -> is16 i = true -> ip_ok i ->
  exists a, i = IP6 a /\ a < two128 /\ norm_ip i = IP6 a /\ render_ip i = render_ip6 a.
Proof.
  unfold is4, render_ip. intros H H16 Hok. destruct i as [|b|b]; cbn [norm_ip is16] in *; try discriminate.
  exists b. destruct (b / two32 =? 65535); [discriminate|]. split; [reflexivity|]. split; [exact Hok|]. split; reflexivity.
Qed.

Definition norm_addr (a : addr) : addr :=
  match a with ATcp i p => ATcp (norm_ip i) p | AUdp i p => AUdp (norm_ip i) p | _ => a end.

(* v1: a header is sent, it is the specification's encoding of the effective addresses (both
   TCP, same family) or UNKNOWN *)
Lemma lib_write_v1_spec si sp di dp : ip_ok si -> ip_ok di -> sp < two16 -> dp < two16 ->
  lib_write_v1 si sp di dp =
    encode_v1 (if is4 si && is4 di then V1Tcp4 (as4 si) (as4 di) sp dp
               else if negb (is4 si) && negb (is4 di) && is16 si && is16 di then V1Tcp6 (as16 si) (as16 di) sp dp
               else V1Unknown).
Proof.
  intros Hsi Hdi Hsp Hdp. unfold lib_write_v1.
  assert (K1 : sp <=? 65535 = true) by (apply N.leb_le, two16_le, Hsp).
  assert (K2 : dp <=? 65535 = true) by (apply N.leb_le, two16_le, Hdp).
  rewrite K1, K2. cbn [andb].
  destruct (is4 si) eqn:E1; destruct (is4 di) eqn:E2; cbn [andb negb]; try reflexivity.
  - destruct (is4_render si E1 Hsi) as (-> & _ & _). destruct (is4_render di E2 Hdi) as (-> & _ & _). reflexivity.
  - destruct (is16 si) eqn:F1; destruct (is16 di) eqn:F2; cbn [andb]; try reflexivity.
    destruct (not4_render si E1 F1 Hsi) as (a & -> & _ & _ & ->).
    destruct (not4_render di E2 F2 Hdi) as (b & -> & _ & _ & ->). reflexivity.
Qed.

Lemma lib_write_v2_inet proto si sp di dp : ip_ok si -> ip_ok di -> (proto = 1 \/ proto = 2) ->
  let mk := if proto =? 1 then ATcp else AUdp in
  lib_write_v2 1 (Some (mk si sp)) (Some (mk di dp)) =
    Some (encode_v2 {| s_local := false; s_proto := proto; s_tlvs := [];
                       s_block := if is4 si && is4 di then V2Inet (as4 si) (as4 di) (sp mod two16) (dp mod two16)
                                  else if negb (is4 si) && negb (is4 di) && is16 si && is16 di
                                       then V2Inet6 (as16 si) (as16 di) (sp mod two16) (dp mod two16)
                                       else V2Unspec |}).
Proof.
  intros Hsi Hdi Hp. destruct Hp as [-> | ->]; cbv zeta; cbn [N.eqb Pos.eqb];
  unfold lib_write_v2; change (1 <? 1) with false; change (1 =? 0) with false; cbv iota;
  destruct (is4 si && is4 di); [reflexivity| |reflexivity|];
  destruct (negb (is4 si) && negb (is4 di) && is16 si && is16 di); reflexivity.
Qed.
(* ---------- received header: stripped and honoured *)
Lemma received_v1 render6 sets real timeout rules cv h payload :
  ip6_text_ok render6 -> v1_wf h ->
  new_conn timeout rules (c_remote cv) <> None -> c_stream cv = encode_v1_with render6 h ++ payload ->
  handle_with sets real timeout rules cv = HNext (accepted_view sets real cv (v1_hdr h) payload).
Proof. intros H6 Hwf Hn Hs. apply handle_accepts; [exact Hn|]. rewrite Hs. apply parse_encode_v1_with; assumption. Qed.

Lemma received_v1_no6 render6 sets real timeout rules cv h payload :
  (match h with V1Tcp6 _ _ _ _ => False | _ => True end) -> v1_wf h ->
  new_conn timeout rules (c_remote cv) <> None -> c_stream cv = encode_v1_with render6 h ++ payload ->
  handle_with sets real timeout rules cv = HNext (accepted_view sets real cv (v1_hdr h) payload).
Proof. intros H6 Hwf Hn Hs. apply handle_accepts; [exact Hn|]. rewrite Hs. apply parse_encode_v1_no6; assumption. Qed.

Lemma received_v2 sets real timeout rules cv h payload :
  v2_wf h -> s_tlvs h = [] ->
  new_conn timeout rules (c_remote cv) <> None -> c_stream cv = encode_v2 h ++ payload ->
  handle_with sets real timeout rules cv = HNext (accepted_view sets real cv (v2_hdr h) payload).
Proof. intros Hwf Ht Hn Hs. apply handle_accepts; [exact Hn|]. rewrite Hs. apply parse_encode_v2; assumption. Qed.

Lemma received_v2_tlv sets real timeout rules cv h payload :
  v2_wf h -> s_tlvs h <> [] -> N.of_nat (length (block_bytes (s_block h) ++ tlvs_bytes (s_tlvs h))) < 65536 ->
  new_conn timeout rules (c_remote cv) <> None -> c_stream cv = encode_v2 h ++ payload ->
  handle_with sets real timeout rules cv = HError.
Proof.
  intros Hwf Ht Hl Hn Hs. apply handle_rejects; [exact Hn|]. intros h' rest. rewrite Hs, v2_tlv_rejected by assumption. discriminate.
Qed.

Lemma Some_inj {A} (a b : A) : Some a = Some b -> a = b.
Proof. congruence. Qed.

(* ---------- sender -> receiver *)
Definition same_family (a b : ip) : Prop :=
  (is4 a = true /\ is4 b = true) \/ (is4 a = false /\ is4 b = false /\ is16 a = true /\ is16 b = true).

Lemma upstream_v1 cv ri rp li lp : effective cv = (ATcp ri rp, ATcp li lp) ->
  upstream_bytes 1 cv = Some (lib_write_v1 ri rp li lp ++ c_stream cv).
Proof. intro E. unfold upstream_bytes, dial_header. rewrite E. reflexivity. Qed.

Lemma roundtrip_v1 cv ri rp li lp timeout rules cv2 :
  (is4 ri = false -> ip6_text_ok render_ip6) ->
  effective cv = (ATcp ri rp, ATcp li lp) -> ip_ok ri -> ip_ok li -> rp < two16 -> lp < two16 -> same_family ri li ->
  new_conn timeout rules (c_remote cv2) <> None ->
  upstream_bytes 1 cv = Some (c_stream cv2) ->
  exists v, handle timeout rules cv2 = HNext v /\
    c_remote v = ATcp (norm_ip ri) rp /\ c_local v = ATcp (norm_ip li) lp /\ c_stream v = c_stream cv /\
    c_repl_remote v = c_remote v /\ c_repl_local v = c_local v.
Proof.
  intros H6 Eeff Hri Hli Hrp Hlp Hfam Hn Hup.
  rewrite (upstream_v1 _ _ _ _ _ Eeff) in Hup. apply Some_inj in Hup.
  rewrite lib_write_v1_spec in Hup by assumption.
  destruct Hfam as [[F1 F2] | (F1 & F2 & G1 & G2)].
  - rewrite F1, F2 in Hup. cbn [andb] in Hup.
    destruct (is4_render ri F1 Hri) as (_ & B1 & N1). destruct (is4_render li F2 Hli) as (_ & B2 & N2).
    unfold handle. rewrite (received_v1_no6 render_ip6 _ _ timeout rules cv2 (V1Tcp4 (as4 ri) (as4 li) rp lp) (c_stream cv)); [|exact I|cbn; tauto|exact Hn|symmetry; exact Hup].
    eexists. split; [reflexivity|]. rewrite sets_true, N1, N2. cbn. repeat split; reflexivity.
  - rewrite F1, F2, G1, G2 in Hup. cbn [andb negb] in Hup.
    destruct (not4_render ri F1 G1 Hri) as (a & -> & A1 & N1 & _). destruct (not4_render li F2 G2 Hli) as (b & -> & A2 & N2 & _).
    cbn [as16] in Hup.
    unfold handle. rewrite (received_v1 render_ip6 _ _ timeout rules cv2 (V1Tcp6 a b rp lp) (c_stream cv)); [|exact (H6 F1)|cbn; tauto|exact Hn|symmetry; exact Hup].
    eexists. split; [reflexivity|]. rewrite sets_true. unfold accepted_view, v1_hdr.
    cbn [h_src h_dst c_remote c_local c_stream c_repl_remote c_repl_local]. rewrite N1, N2. cbn. repeat split; reflexivity.
Qed.

Lemma roundtrip_v2 cv proto ri rp li lp timeout rules cv2 :
  (proto = 1 \/ proto = 2) ->
  let mk := if proto =? 1 then ATcp else AUdp in
  effective cv = (mk ri rp, mk li lp) -> ip_ok ri -> ip_ok li -> rp < two16 -> lp < two16 -> same_family ri li ->
  new_conn timeout rules (c_remote cv2) <> None ->
  upstream_bytes 2 cv = Some (c_stream cv2) ->
  exists v, handle timeout rules cv2 = HNext v /\
    c_remote v = mk (norm_ip ri) rp /\ c_local v = mk (norm_ip li) lp /\ c_stream v = c_stream cv /\
    c_repl_remote v = c_remote v /\ c_repl_local v = c_local v.
Proof.
  intros Hp mk Eeff Hri Hli Hrp Hlp Hfam Hn Hup.
  unfold upstream_bytes, dial_header in Hup. rewrite Eeff in Hup.
  pose proof (lib_write_v2_inet proto ri rp li lp Hri Hli Hp) as W. cbv zeta in W. fold mk in W. rewrite W in Hup.
  cbn [option_map] in Hup. apply Some_inj in Hup.
  rewrite (N.mod_small rp two16 Hrp), (N.mod_small lp two16 Hlp) in Hup.
  assert (Hp2 : proto <= 2) by (destruct Hp; subst; lia).
  destruct Hfam as [[F1 F2] | (F1 & F2 & G1 & G2)].
  - rewrite F1, F2 in Hup. cbn [andb] in Hup.
    destruct (is4_render ri F1 Hri) as (_ & B1 & N1). destruct (is4_render li F2 Hli) as (_ & B2 & N2).
    match type of Hup with encode_v2 ?hh ++ _ = _ =>
      unfold handle; rewrite (received_v2 _ _ timeout rules cv2 hh (c_stream cv)); [|split; cbn; tauto|reflexivity|exact Hn|symmetry; exact Hup] end.
    eexists. split; [reflexivity|]. rewrite sets_true, N1, N2. unfold mk.
    destruct Hp as [-> | ->]; cbn; repeat split; reflexivity.
  - rewrite F1, F2, G1, G2 in Hup. cbn [andb negb] in Hup.
    destruct (not4_render ri F1 G1 Hri) as (a & -> & A1 & N1 & _). destruct (not4_render li F2 G2 Hli) as (b & -> & A2 & N2 & _).
    cbn [as16] in Hup.
    match type of Hup with encode_v2 ?hh ++ _ = _ =>
      unfold handle; rewrite (received_v2 _ _ timeout rules cv2 hh (c_stream cv)); [|split; cbn; tauto|reflexivity|exact Hn|symmetry; exact Hup] end.
    eexists. split; [reflexivity|]. rewrite sets_true, N1, N2. unfold mk.
    destruct Hp as [-> | ->]; cbn; repeat split; reflexivity.
Qed.

(* in every case the upstream receives ONE header that the receiver accepts, then the client's stream *)
Lemma lib_write_v1_accepted si sp di dp stream :
  ip_ok si -> ip_ok di -> sp < two16 -> dp < two16 ->
  (is4 si = false -> is4 di = false -> is16 si = true -> is16 di = true -> ip6_text_ok render_ip6) ->
  exists hs h, v1_wf hs /\ lib_write_v1 si sp di dp = encode_v1 hs /\
    parse (encode_v1 hs ++ stream) = POk h stream.
Proof.
  intros Hsi Hdi Hsp Hdp H6. rewrite lib_write_v1_spec by assumption.
  destruct (is4 si) eqn:E1; destruct (is4 di) eqn:E2; cbn [andb negb].
  - destruct (is4_render si E1 Hsi) as (_ & ? & _). destruct (is4_render di E2 Hdi) as (_ & ? & _).
    eexists _, _. split; [|split; [reflexivity|]]; [cbn; tauto|]. apply parse_encode_v1_no6; cbn; tauto.
  - eexists _, _. split; [|split; [reflexivity|]]; [exact I|]. apply parse_encode_v1_no6; exact I.
  - eexists _, _. split; [|split; [reflexivity|]]; [exact I|]. apply parse_encode_v1_no6; exact I.
  - destruct (is16 si) eqn:F1; destruct (is16 di) eqn:F2; cbn [andb];
      try (eexists _, _; split; [|split; [reflexivity|]]; [exact I|]; apply parse_encode_v1_no6; exact I).
    destruct (not4_render si E1 F1 Hsi) as (x & Ex & ? & _ & _).
    destruct (not4_render di E2 F2 Hdi) as (y & Ey & ? & _ & _).
    rewrite Ex, Ey. cbn [as16]. eexists _, _. split; [|split; [reflexivity|]]; [cbn; tauto|].
    apply parse_encode_v1_with; [|cbn; tauto]. apply H6; reflexivity.
Qed.

Lemma sent_stream_exact_v1 cv r l :
  effective cv = (r, l) ->
  (match r with ATcp i p => ip_ok i /\ p < two16 | _ => True end) ->
  (match l with ATcp i p => ip_ok i /\ p < two16 | _ => True end) ->
  (forall i p j q, r = ATcp i p -> l = ATcp j q -> is4 i = false -> is4 j = false -> ip6_text_ok render_ip6) ->
  exists hs h, v1_wf hs /\ upstream_bytes 1 cv = Some (encode_v1 hs ++ c_stream cv) /\
    parse (encode_v1 hs ++ c_stream cv) = POk h (c_stream cv).
Proof.
  intros Eeff Hr Hl H6. unfold upstream_bytes, dial_header. rewrite Eeff.
  assert (Z16 : 0 < two16) by (unfold two16; lia).
  destruct (v1_from_addr r) as [si sp] eqn:Ea. destruct (v1_from_addr l) as [di dp] eqn:Eb.
  destruct (lib_write_v1_accepted si sp di dp (c_stream cv)) as (hs & h & W & E & P).
  - destruct r; cbn in Ea, Hr |- *; injection Ea as <- <-; cbn; tauto.
  - destruct l; cbn in Eb, Hl |- *; injection Eb as <- <-; cbn; tauto.
  - destruct r; cbn in Ea, Hr |- *; injection Ea as <- <-; tauto.
  - destruct l; cbn in Eb, Hl |- *; injection Eb as <- <-; tauto.
  - intros F1 F2 G1 G2. destruct r; cbn in Ea; injection Ea as <- <-; try discriminate.
    destruct l; cbn in Eb; injection Eb as <- <-; try discriminate. eapply H6; try reflexivity; assumption.
  - exists hs, h. cbn [option_map]. rewrite E. tauto.
Qed.
(* ---------- IPv6 text: net/netip's RFC 5952 form reads back (discharges [ip6_text_ok render_ip6]) *)

(* finite check over all numbers of a given bit width *)
Fixpoint forall_range (bits : nat) (base : N) (p : N -> bool) : bool :=
  match bits with
  | O => p base
  | S b => forall_range b (2 * base) p && forall_range b (2 * base + 1) p
  end.
Lemma forall_range_spec bits : forall base p, forall_range bits base p = true ->
  forall x, x < 2 ^ N.of_nat bits -> p (base * 2 ^ N.of_nat bits + x) = true.
Proof.
  induction bits as [|b IH]; intros base p H x Hx.
  - cbn in Hx. assert (x = 0) by lia. subst. cbn [forall_range] in H. rewrite N.pow_0_r, N.mul_1_r, N.add_0_r. exact H.
  - cbn [forall_range] in H. apply andb_true_iff in H as [H1 H2].
    rewrite Nnat.Nat2N.inj_succ, N.pow_succ_r' in *. set (P := 2 ^ N.of_nat b) in *.
    destruct (N.lt_ge_cases x P) as [Hl|Hg].
    + specialize (IH _ _ H1 x Hl). fold P in IH. replace (base * (2 * P) + x) with (2 * base * P + x) by lia. exact IH.
    + assert (Hx' : x - P < P) by lia. specialize (IH _ _ H2 (x - P) Hx'). fold P in IH.
      replace (base * (2 * P) + x) with ((2 * base + 1) * P + (x - P)) by lia. exact IH.
Qed.

Definition hexch_ok (b : byte) : bool :=
  is_hex b && nonsp b && negb (Byte.eqb b cDOT) && negb (Byte.eqb b cCOLON) && negb (Byte.eqb b x25).
Definition hexs_check (g : N) : bool :=
  let t := hexs g in
  forallb hexch_ok t && (1 <=? length t)%nat && (length t <=? 4)%nat && (hexs_val t =? g).
Lemma hexs_all : forall_range 16 0 hexs_check = true.
Proof. vm_compute. reflexivity. Qed.
Lemma hexs_ok g : g < two16 -> hexs_check g = true.
Proof.
  intro H. pose proof (forall_range_spec 16 0 hexs_check hexs_all g) as K.
  change (2 ^ N.of_nat 16) with two16 in K. rewrite N.mul_0_l, N.add_0_l in K. exact (K H).
Qed.

Lemma hexs_facts g : g < two16 ->
  forallb is_hex (hexs g) = true /\ forallb hexch_ok (hexs g) = true /\
  (1 <= length (hexs g) <= 4)%nat /\ hexs_val (hexs g) = g.
Proof.
  intro H. pose proof (hexs_ok g H) as K. unfold hexs_check in K.
  apply andb_true_iff in K as [K K4]. apply andb_true_iff in K as [K K3]. apply andb_true_iff in K as [K1 K2].
  apply N.eqb_eq in K4. apply Nat.leb_le in K2, K3.
  split; [|split; [exact K1|split; [lia|exact K4]]].
  revert K1. apply forallb_impl. intros x Hx. unfold hexch_ok in Hx.
  repeat (apply andb_true_iff in Hx as [Hx _]). exact Hx.
Qed.

Definition colon_join (gs : list N) : list byte := join [cCOLON] (map hexs gs).

Lemma colon_join_cons g g2 gs : colon_join (g :: g2 :: gs) = hexs g ++ cCOLON :: colon_join (g2 :: gs).
Proof. reflexivity. Qed.

Lemma colon_join_head g gs : g < two16 -> exists y r, colon_join (g :: gs) = y :: r /\ is_hex y = true.
Proof.
  intro H. destruct (hexs_facts g H) as (Hh & _ & Hl & _).
  destruct (hexs g) as [|y t] eqn:E; [cbn in Hl; lia|].
  cbn [forallb] in Hh. apply andb_true_iff in Hh as [Hy _].
  destruct gs as [|g2 gs].
  - exists y, t. split; [|exact Hy]. unfold colon_join. cbn [map join]. exact E.
  - exists y, (t ++ cCOLON :: colon_join (g2 :: gs)). split; [|exact Hy]. rewrite colon_join_cons, E. reflexivity.
Qed.

Lemma is_hex_not_colon y : is_hex y = true -> Byte.eqb y cCOLON = false /\ Byte.eqb y cDOT = false.
Proof.
  intro H. split; apply Bool.not_true_iff_false; intro E; apply byte_eqb_eq in E; subst; discriminate.
Qed.

(* one group followed by a non-hex byte or the end *)
Lemma p6_span g rest : g < two16 -> stops is_hex rest -> span is_hex (hexs g ++ rest) = (hexs g, rest).
Proof. intros H Hr. destruct (hexs_facts g H) as (Hh & _). apply span_app_stop; assumption. Qed.

Lemma p6_len g : g < two16 -> (length (hexs g) =? 0)%nat = false /\ (4 <? length (hexs g))%nat = false.
Proof.
  intro H. destruct (hexs_facts g H) as (_ & _ & Hl & _). split; [apply Nat.eqb_neq|apply Nat.ltb_ge]; lia.
Qed.

Lemma p6_plain : forall gs fuel acc ell, gs <> [] -> Forall (fun g => g < two16) gs ->
  (length acc + length gs <= 8)%nat -> (length gs <= fuel)%nat ->
  p6_loop fuel (colon_join gs) acc ell = Some ([], acc ++ gs, ell).
Proof.
  induction gs as [|g gs IH]; intros fuel acc ell Hne Hall Hlen Hfuel; [congruence|].
  inversion Hall as [|? ? Hg Hall']; subst.
  destruct fuel as [|f]; [cbn in Hfuel; lia|].
  destruct (p6_len g Hg) as [L0 L4]. destruct (hexs_facts g Hg) as (_ & _ & _ & Hv).
  destruct gs as [|g2 gs].
  - unfold colon_join. cbn [map join p6_loop].
    rewrite <- (app_nil_r (hexs g)) at 1. rewrite p6_span by (exact Hg || exact I).
    rewrite L0, L4, Hv. reflexivity.
  - rewrite colon_join_cons. cbn [p6_loop]. rewrite p6_span by (exact Hg || reflexivity).
    rewrite L0, L4. change (Byte.eqb cCOLON cDOT) with false. change (Byte.eqb cCOLON cCOLON) with true. cbn [negb]. cbv iota.
    inversion Hall' as [|? ? Hg2 _]; subst.
    destruct (colon_join_head g2 gs Hg2) as (y & r & Ey & Hy). rewrite Ey.
    destruct (is_hex_not_colon y Hy) as [Hc _]. rewrite Hc, Hv.
    assert (L8 : (length (acc ++ [g]) =? 8)%nat = false).
    { apply Nat.eqb_neq. rewrite app_length. cbn [length] in *. lia. }
    rewrite L8, <- Ey. rewrite IH; [|discriminate|exact Hall'| |].
    + rewrite <- app_assoc. reflexivity.
    + rewrite app_length. cbn [length] in *. lia.
    + cbn [length] in *. lia.
Qed.

Lemma p6_pre : forall pre fuel acc tail, pre <> [] -> Forall (fun g => g < two16) pre ->
  (length acc + length pre < 8)%nat -> (length pre <= fuel)%nat ->
  (tail = [] \/ exists y r, tail = y :: r /\ is_hex y = true) ->
  p6_loop fuel (colon_join pre ++ cCOLON :: cCOLON :: tail) acc None =
    match tail with
    | [] => Some ([], acc ++ pre, Some (length (acc ++ pre)))
    | _ => p6_loop (fuel - length pre) tail (acc ++ pre) (Some (length (acc ++ pre)))
    end.
Proof.
  induction pre as [|g pre IH]; intros fuel acc tail Hne Hall Hlen Hfuel Htail; [congruence|].
  inversion Hall as [|? ? Hg Hall']; subst.
  destruct fuel as [|f]; [cbn in Hfuel; lia|].
  destruct (p6_len g Hg) as [L0 L4]. destruct (hexs_facts g Hg) as (_ & _ & _ & Hv).
  destruct pre as [|g2 pre].
  - unfold colon_join. cbn [map join p6_loop].
    rewrite p6_span by (exact Hg || reflexivity).
    rewrite L0, L4. change (Byte.eqb cCOLON cDOT) with false. change (Byte.eqb cCOLON cCOLON) with true. cbn [negb]. cbv iota.
    rewrite Hv.
    assert (L8 : (length (acc ++ [g]) =? 8)%nat = false).
    { apply Nat.eqb_neq. rewrite app_length. cbn [length] in *. lia. }
    destruct tail as [|t ts]; [reflexivity|]. rewrite L8. replace (S f - length [g])%nat with f by (cbn [length]; lia). reflexivity.
  - rewrite colon_join_cons, <- app_assoc. cbn [app p6_loop]. rewrite p6_span by (exact Hg || reflexivity).
    rewrite L0, L4. change (Byte.eqb cCOLON cDOT) with false. change (Byte.eqb cCOLON cCOLON) with true. cbn [negb]. cbv iota.
    inversion Hall' as [|? ? Hg2 _]; subst.
    destruct (colon_join_head g2 pre Hg2) as (y & r & Ey & Hy). rewrite Ey. cbn [app].
    destruct (is_hex_not_colon y Hy) as [Hc _]. rewrite Hc, Hv.
    assert (L8 : (length (acc ++ [g]) =? 8)%nat = false).
    { apply Nat.eqb_neq. rewrite app_length. cbn [length] in *. lia. }
    rewrite L8. change (y :: r ++ cCOLON :: cCOLON :: tail) with ((y :: r) ++ cCOLON :: cCOLON :: tail). rewrite <- Ey.
    rewrite IH; [|discriminate|exact Hall'| | |exact Htail].
    + rewrite <- app_assoc. reflexivity.
    + rewrite app_length. cbn [length] in *. lia.
    + cbn [length] in *. lia.
Qed.
(* ---------- the eight groups *)
Fixpoint down (n : nat) : list N := match n with O => [] | S m => N.of_nat m :: down m end.

Lemma gv_down a : forall n acc,
  fold_left (fun x g => x * two16 + g) (map (fun k => a / 2 ^ (16 * k) mod two16) (down n)) acc
  = acc * 2 ^ (16 * N.of_nat n) + a mod 2 ^ (16 * N.of_nat n).
Proof.
  induction n as [|n IH]; intro acc.
  - cbn [down map fold_left]. change (2 ^ (16 * N.of_nat 0)) with 1. rewrite N.mod_1_r. lia.
  - cbn [down map fold_left]. rewrite IH.
    replace (16 * N.of_nat (S n)) with (16 * N.of_nat n + 16) by lia.
    rewrite N.pow_add_r. change (2 ^ 16) with two16.
    set (P := 2 ^ (16 * N.of_nat n)).
    assert (HP : P <> 0) by (apply N.pow_nonzero; lia).
    rewrite (N.mod_mul_r a P two16) by (exact HP || (unfold two16; lia)).
    generalize (a / P mod two16). generalize (a mod P). intros m r. unfold two16. lia.
Qed.

Lemma groups6_down a : groups6 a = map (fun k => a / 2 ^ (16 * k) mod two16) (down 8).
Proof. reflexivity. Qed.
Lemma groups6_val a : a < two128 -> groups_val (groups6 a) = a.
Proof.
  intro H. unfold groups_val. rewrite groups6_down, gv_down.
  change (2 ^ (16 * N.of_nat 8)) with two128. rewrite N.mod_small by exact H. lia.
Qed.
Lemma groups6_length a : length (groups6 a) = 8%nat.
Proof. reflexivity. Qed.
Lemma groups6_bound a : Forall (fun g => g < two16) (groups6 a).
Proof. unfold groups6. apply Forall_forall. intros g Hg. apply in_map_iff in Hg as (k & <- & _). apply N.mod_lt. unfold two16. lia. Qed.

Lemma groups_val_zeros n : forall acc, fold_left (fun x g => x * two16 + g) (repeat 0 n) acc = acc * two16 ^ N.of_nat n.
Proof.
  induction n as [|n IH]; intro acc; cbn [repeat fold_left].
  - change (two16 ^ N.of_nat 0) with 1. lia.
  - rewrite IH, Nnat.Nat2N.inj_succ, N.pow_succ_r'. lia.
Qed.

(* ---------- the zero run chosen by the renderer *)
Lemma zero_run_spec gs : firstn (zero_run gs) gs = repeat 0 (zero_run gs) /\ (zero_run gs <= length gs)%nat.
Proof.
  induction gs as [|g gs [IH1 IH2]]; cbn [zero_run]; [split; [reflexivity|lia]|].
  destruct g; cbn [firstn repeat length]; [|split; [reflexivity|lia]].
  rewrite IH1. split; [reflexivity|lia].
Qed.

Definition run_ok (GS : list N) (best : nat * nat) : Prop :=
  snd best = 0%nat \/
  ((2 <= snd best)%nat /\ firstn (snd best) (skipn (fst best) GS) = repeat 0 (snd best) /\ (fst best + snd best <= length GS)%nat).

Lemma skipn_S_cons {A} i (GS : list A) g r : skipn i GS = g :: r -> skipn (S i) GS = r.
Proof.
  revert GS. induction i as [|i IH]; intros GS H.
  - cbn in H. subst. reflexivity.
  - destruct GS as [|x GS]; [discriminate|]. cbn [skipn] in *. apply IH, H.
Qed.

Lemma best_run_ok GS : forall gs i best, gs = skipn i GS -> (i + length gs = length GS)%nat ->
  run_ok GS best -> run_ok GS (best_run gs i best).
Proof.
  induction gs as [|g r IH]; intros i best Hgs Hlen Hb; cbn [best_run]; [exact Hb|].
  apply IH.
  - symmetry. apply (skipn_S_cons i GS g r). symmetry. exact Hgs.
  - cbn [length] in Hlen. lia.
  - destruct ((2 <=? zero_run (g :: r)) && (snd best <? zero_run (g :: r)))%nat eqn:E; [|exact Hb].
    apply andb_true_iff in E as [E1 _]. apply Nat.leb_le in E1.
    destruct (zero_run_spec (g :: r)) as [Z1 Z2].
    right. cbn [fst snd]. split; [exact E1|]. split; [rewrite <- Hgs; exact Z1|lia].
Qed.

(* ---------- shape of the text *)
Definition okc (b : byte) : bool := hexch_ok b || Byte.eqb b cCOLON.

Lemma colon_join_okc gs : Forall (fun g => g < two16) gs -> forallb okc (colon_join gs) = true.
Proof.
  induction gs as [|g gs IH]; intro H; [reflexivity|]. inversion H as [|? ? Hg Hgs]; subst.
  destruct (hexs_facts g Hg) as (_ & Hk & _).
  assert (K : forallb okc (hexs g) = true).
  { revert Hk. apply forallb_impl. intros x Hx. unfold okc. rewrite Hx. reflexivity. }
  destruct gs as [|g2 gs].
  - exact K.
  - rewrite colon_join_cons, forallb_app. cbn [forallb]. rewrite K, (IH Hgs). reflexivity.
Qed.

Lemma colon_join_length gs : Forall (fun g => g < two16) gs -> (length (colon_join gs) <= 5 * length gs)%nat /\
  (gs <> [] -> length (colon_join gs) + 1 <= 5 * length gs)%nat.
Proof.
  induction gs as [|g gs IH]; intro H; [split; [cbn; lia|congruence]|]. inversion H as [|? ? Hg Hgs]; subst.
  destruct (hexs_facts g Hg) as (_ & _ & Hl & _). destruct (IH Hgs) as [I1 I2].
  destruct gs as [|g2 gs].
  - unfold colon_join. cbn [map join length]. split; [lia|intros _; lia].
  - rewrite colon_join_cons, app_length. cbn [length] in *. specialize (I2 ltac:(discriminate)). split; [lia|intros _; lia].
Qed.

Lemma okc_nonsp l : forallb okc l = true -> forallb nonsp l = true.
Proof.
  apply forallb_impl. intros x H. unfold okc in H. apply orb_true_iff in H as [H|H].
  - unfold hexch_ok in H. apply andb_true_iff in H as [H _]. apply andb_true_iff in H as [H _]. apply andb_true_iff in H as [H _].
    apply andb_true_iff in H as [_ H]. exact H.
  - apply byte_eqb_eq in H. subst. reflexivity.
Qed.

Lemma ip_kind_okc l r : forallb okc l = true -> ip_kind (l ++ cCOLON :: r) = 6.
Proof.
  induction l as [|x l IH]; intro H; cbn [app ip_kind]; [reflexivity|].
  cbn [forallb] in H. apply andb_true_iff in H as [Hx Hl]. unfold okc in Hx. apply orb_true_iff in Hx as [Hx|Hx].
  - unfold hexch_ok in Hx. apply andb_true_iff in Hx as [Hx H3]. apply andb_true_iff in Hx as [Hx H2]. apply andb_true_iff in Hx as [_ H1].
    apply negb_true_iff in H1, H2, H3. rewrite H1, H2, H3. apply IH, Hl.
  - apply byte_eqb_eq in Hx. subst. reflexivity.
Qed.

Lemma lead_none (s : list byte) y r : s = y :: r -> Byte.eqb y cCOLON = false ->
  match s with
  | a :: b :: r' => if Byte.eqb a cCOLON && Byte.eqb b cCOLON then (r', Some 0%nat) else (s, None)
  | _ => (s, @None nat)
  end = (s, None).
Proof. intros -> H. destruct r; [reflexivity|]. rewrite H. reflexivity. Qed.

Lemma split_run (gs : list N) zs zl : firstn zl (skipn zs gs) = repeat 0 zl ->
  gs = firstn zs gs ++ repeat 0 zl ++ skipn (zs + zl) gs.
Proof.
  intro H. rewrite <- (firstn_skipn zs gs) at 1. f_equal.
  rewrite <- (firstn_skipn zl (skipn zs gs)) at 1. rewrite H, skipn_add. f_equal. f_equal. lia.
Qed.

Lemma expand_val pre post zl : (length pre + zl + length post = 8)%nat ->
  groups_val (firstn (length pre) (pre ++ post) ++ repeat 0 (8 - length (pre ++ post)) ++ skipn (length pre) (pre ++ post))
  = groups_val (pre ++ repeat 0 zl ++ post).
Proof.
  intro H. rewrite firstn_exact by reflexivity. rewrite skipn_exact by reflexivity.
  rewrite app_length. replace (8 - (length pre + length post))%nat with zl by lia. reflexivity.
Qed.

Lemma expand_val_nil (pre : list N) zl : (length pre + zl = 8)%nat ->
  groups_val (firstn (length pre) pre ++ repeat 0 (8 - length pre) ++ skipn (length pre) pre) = groups_val (pre ++ repeat 0 zl ++ []).
Proof. intro H. rewrite firstn_all, skipn_all. replace (8 - length pre)%nat with zl by lia. reflexivity. Qed.

Lemma parse_render_ip6 a : a < two128 -> parse_ip6 (render_ip6 a) = Some a.
Proof.
  intro Ha. unfold render_ip6.
  pose proof (groups6_val a Ha) as Hval. pose proof (groups6_length a) as Hlen. pose proof (groups6_bound a) as Hb.
  remember (groups6 a) as gs eqn:Hgs6. clear Hgs6.
  pose proof (best_run_ok gs gs 0 (0, 0)%nat eq_refl eq_refl (or_introl eq_refl)) as Hrun.
  destruct (best_run gs 0 (0, 0)%nat) as [zs zl]. unfold run_ok in Hrun. cbn [fst snd] in Hrun.
  destruct (Nat.eqb_spec zl 0) as [Hz|Hz].
  - (* no run *)
    destruct gs as [|g0 gs'] eqn:Egs; [discriminate|]. inversion Hb as [|? ? Hg0 _]; subst.
    destruct (colon_join_head g0 gs' Hg0) as (y & r & Ey & Hy). destruct (is_hex_not_colon y Hy) as [Hc _].
    unfold parse_ip6. fold (colon_join (g0 :: gs')). rewrite (lead_none _ y r Ey Hc).
    rewrite Ey. cbv iota. rewrite <- Ey.
    rewrite p6_plain; [|discriminate|exact Hb|cbn [length] in *; lia|cbn [length] in *; lia].
    cbn [app]. rewrite Hlen. reflexivity.
  - destruct Hrun as [Hrun|(H2 & Hzero & Hfit)]; [congruence|].
    pose proof (split_run gs zs zl Hzero) as Hsplit.
    set (pre := firstn zs gs) in *. set (post := skipn (zs + zl) gs) in *.
    assert (Lpre : length pre = zs) by (unfold pre; rewrite firstn_length; lia).
    assert (Lpost : (length pre + zl + length post = 8)%nat) by (unfold post; rewrite skipn_length; lia).
    assert (Bpre : Forall (fun g => g < two16) pre).
    { apply Forall_forall. intros g Hg. rewrite Forall_forall in Hb. apply Hb. rewrite Hsplit. apply in_or_app. left. exact Hg. }
    assert (Bpost : Forall (fun g => g < two16) post).
    { apply Forall_forall. intros g Hg. rewrite Forall_forall in Hb. apply Hb. rewrite Hsplit. apply in_or_app. right. apply in_or_app. right. exact Hg. }
    fold (colon_join pre). fold (colon_join post). clearbody pre post.
    assert (Htail : colon_join post = [] \/ exists y r, colon_join post = y :: r /\ is_hex y = true).
    { destruct post as [|p0 post']; [left; reflexivity|right]. inversion Bpost; subst. apply colon_join_head. assumption. }
    rewrite <- Hval, Hsplit. unfold parse_ip6.
    destruct pre as [|p0 pre'] eqn:Epre.
    + (* leading "::" *)
      cbn [colon_join map join app]. change (Byte.eqb cCOLON cCOLON && Byte.eqb cCOLON cCOLON) with true. cbv iota.
      fold (colon_join post).
      destruct post as [|q0 post'] eqn:Epost.
      * cbn [colon_join map join]. rewrite app_nil_r. unfold groups_val. rewrite groups_val_zeros. reflexivity.
      * destruct Htail as [Ht|(y & r & Ey & Hy)]; [destruct (colon_join_head q0 post') as (? & ? & E' & _); [inversion Bpost; assumption|congruence]|].
        rewrite Ey. cbv iota. rewrite <- Ey.
        rewrite p6_plain; [|discriminate|exact Bpost|cbn [length] in *; lia|cbn [length] in *; lia].
        cbn [app]. assert (L : (length (q0 :: post') <? 8)%nat = true) by (apply Nat.ltb_lt; cbn [length] in *; lia).
        rewrite L. cbn [firstn skipn app]. cbn [length] in Lpost. replace (8 - length (q0 :: post'))%nat with zl by (cbn [length]; lia). reflexivity.
    + inversion Bpre as [|? ? Hp0 _]; subst.
      destruct (colon_join_head p0 pre' Hp0) as (y & r & Ey & Hy). destruct (is_hex_not_colon y Hy) as [Hc _].
      change (colon_join (p0 :: pre') ++ [cCOLON; cCOLON] ++ colon_join post) with (colon_join (p0 :: pre') ++ cCOLON :: cCOLON :: colon_join post).
      assert (Es : colon_join (p0 :: pre') ++ cCOLON :: cCOLON :: colon_join post = y :: (r ++ cCOLON :: cCOLON :: colon_join post)) by (rewrite Ey; reflexivity).
      rewrite (lead_none _ _ _ Es Hc). rewrite Es. cbv iota. rewrite <- Es.
      rewrite p6_pre; [|discriminate|exact Bpre|cbn [length] in *; lia|cbn [length] in *; lia|exact Htail].
      cbn [app].
      destruct post as [|q0 post'] eqn:Epost.
      * cbn [colon_join map join]. assert (L : (length (p0 :: pre') <? 8)%nat = true) by (apply Nat.ltb_lt; cbn [length] in *; lia).
        rewrite L. rewrite (expand_val_nil (p0 :: pre') zl) by (cbn [length] in *; lia). reflexivity.
      * destruct Htail as [Ht|(y2 & r2 & Ey2 & Hy2)]; [destruct (colon_join_head q0 post') as (? & ? & E' & _); [inversion Bpost; assumption|congruence]|].
        rewrite Ey2. rewrite <- Ey2.
        rewrite p6_plain; [|discriminate|exact Bpost|cbn [length] in *; lia|cbn [length] in *; lia].
        assert (L : (length ((p0 :: pre') ++ q0 :: post') <? 8)%nat = true) by (apply Nat.ltb_lt; rewrite app_length; cbn [length] in *; lia).
        rewrite L. rewrite (expand_val (p0 :: pre') (q0 :: post') zl Lpost). reflexivity.
Qed.
Lemma Forall_firstn' {A} (P : A -> Prop) n : forall l, Forall P l -> Forall P (firstn n l).
Proof. induction n; intros l H; cbn [firstn]; [constructor|]. destruct l; [constructor|]. inversion H; subst. constructor; auto. Qed.
Lemma Forall_skipn' {A} (P : A -> Prop) n : forall l, Forall P l -> Forall P (skipn n l).
Proof. induction n; intros l H; cbn [skipn]; [exact H|]. destruct l; [constructor|]. inversion H; subst. auto. Qed.

Lemma render_ip6_shape a :
  forallb okc (render_ip6 a) = true /\ ip_kind (render_ip6 a) = 6 /\ (length (render_ip6 a) <= 39)%nat.
Proof.
  unfold render_ip6.
  pose proof (groups6_length a) as Hlen. pose proof (groups6_bound a) as Hb.
  remember (groups6 a) as gs eqn:Hgs6. clear Hgs6.
  pose proof (best_run_ok gs gs 0 (0, 0)%nat eq_refl eq_refl (or_introl eq_refl)) as Hrun.
  destruct (best_run gs 0 (0, 0)%nat) as [zs zl]. unfold run_ok in Hrun. cbn [fst snd] in Hrun.
  destruct (Nat.eqb_spec zl 0) as [Hz|Hz].
  - fold (colon_join gs). split; [apply colon_join_okc, Hb|]. split.
    + destruct gs as [|g0 [|g1 gs']]; try (cbn in Hlen; lia). rewrite colon_join_cons.
      inversion Hb; subst. apply ip_kind_okc. apply (colon_join_okc [g0]). constructor; [assumption|constructor].
    + destruct (colon_join_length gs Hb) as [_ L]. assert (gs <> []) by (intro; subst; discriminate). specialize (L H). lia.
  - destruct Hrun as [Hrun|(H2 & Hzero & Hfit)]; [congruence|].
    fold (colon_join (firstn zs gs)). fold (colon_join (skipn (zs + zl) gs)).
    pose proof (Forall_firstn' _ zs gs Hb) as Bpre. pose proof (Forall_skipn' _ (zs + zl) gs Hb) as Bpost.
    split; [|split].
    + rewrite !forallb_app. rewrite (colon_join_okc _ Bpre), (colon_join_okc _ Bpost). reflexivity.
    + cbn [app]. apply ip_kind_okc. apply colon_join_okc, Bpre.
    + rewrite !app_length. cbn [length].
      destruct (colon_join_length _ Bpre) as [L1 _]. destruct (colon_join_length _ Bpost) as [L2 _].
      rewrite firstn_length in L1. rewrite skipn_length in L2. lia.
Qed.

(* the premise of the v1 TCP6 theorems holds for the renderer of the model (net/netip's form) *)
Theorem render_ip6_text_ok : ip6_text_ok render_ip6.
Proof.
  intros a Ha. destruct (render_ip6_shape a) as (Hok & Hk & Hl). split.
  - apply okc_nonsp, Hok.
  - intro E. rewrite E in Hk. discriminate.
  - exact Hl.
  - unfold parse_ip. rewrite Hk, (parse_render_ip6 a Ha). reflexivity.
Qed.

(* ---------- a header that declares no address leaves the real ones in force *)
Lemma real_true : l4proxyprotocol_undeclared_addr_falls_back = true.
Proof. reflexivity. Qed.

Lemma unknown_keeps_real_with sets timeout rules cv payload :
  new_conn timeout rules (c_remote cv) <> None -> c_stream cv = encode_v1 V1Unknown ++ payload ->
  exists v, handle_with sets true timeout rules cv = HNext v /\
    c_remote v = c_remote cv /\ c_local v = c_local cv /\ c_stream v = payload.
Proof.
  intros Hn Hs. rewrite (received_v1_no6 render_ip6 sets true timeout rules cv V1Unknown payload I I Hn Hs).
  eexists. split; [reflexivity|]. cbn. repeat split; reflexivity.
Qed.
Lemma unknown_keeps_real timeout rules cv payload :
  new_conn timeout rules (c_remote cv) <> None -> c_stream cv = encode_v1 V1Unknown ++ payload ->
  exists v, handle timeout rules cv = HNext v /\
    c_remote v = c_remote cv /\ c_local v = c_local cv /\ c_stream v = payload /\
    c_repl_remote v = c_remote cv /\ c_repl_local v = c_local cv.
Proof.
  intros Hn Hs. unfold handle. rewrite sets_true, real_true.
  rewrite (received_v1_no6 render_ip6 true true timeout rules cv V1Unknown payload I I Hn Hs).
  eexists. split; [reflexivity|]. cbn. repeat split; reflexivity.
Qed.

(* ---------- unconditional corollaries (the IPv6 text premise discharged) *)
Lemma parse_encode_v1 h payload : v1_wf h -> parse (encode_v1 h ++ payload) = POk (v1_hdr h) payload.
Proof. exact (parse_encode_v1_with render_ip6 h payload render_ip6_text_ok). Qed.

Lemma received_v1_all timeout rules cv h payload : v1_wf h ->
  new_conn timeout rules (c_remote cv) <> None -> c_stream cv = encode_v1 h ++ payload ->
  handle timeout rules cv = HNext (accepted_view l4proxyprotocol_handle_sets_placeholders l4proxyprotocol_undeclared_addr_falls_back cv (v1_hdr h) payload).
Proof. exact (received_v1 render_ip6 _ _ timeout rules cv h payload render_ip6_text_ok). Qed.

Lemma roundtrip_v1_all cv ri rp li lp timeout rules cv2 :
  effective cv = (ATcp ri rp, ATcp li lp) -> ip_ok ri -> ip_ok li -> rp < two16 -> lp < two16 -> same_family ri li ->
  new_conn timeout rules (c_remote cv2) <> None ->
  upstream_bytes 1 cv = Some (c_stream cv2) ->
  exists v, handle timeout rules cv2 = HNext v /\
    c_remote v = ATcp (norm_ip ri) rp /\ c_local v = ATcp (norm_ip li) lp /\ c_stream v = c_stream cv /\
    c_repl_remote v = c_remote v /\ c_repl_local v = c_local v.
Proof. exact (roundtrip_v1 cv ri rp li lp timeout rules cv2 (fun _ => render_ip6_text_ok)). Qed.

Lemma sent_stream_exact_v1_all cv r l :
  effective cv = (r, l) ->
  (match r with ATcp i p => ip_ok i /\ p < two16 | _ => True end) ->
  (match l with ATcp i p => ip_ok i /\ p < two16 | _ => True end) ->
  exists hs h, v1_wf hs /\ upstream_bytes 1 cv = Some (encode_v1 hs ++ c_stream cv) /\
    parse (encode_v1 hs ++ c_stream cv) = POk h (c_stream cv).
Proof. intros E Hr Hl. exact (sent_stream_exact_v1 cv r l E Hr Hl (fun _ _ _ _ _ _ _ _ => render_ip6_text_ok)). Qed.

Lemma outside_allow_list_untouched timeout rules cv :
  ~ peer_allowed rules (c_remote cv) -> handle timeout (tidy_rules rules) cv = HPass cv.
Proof.
  intro H. apply handle_passthrough.
  destruct (new_conn timeout (tidy_rules rules) (c_remote cv)) eqn:E; [|reflexivity].
  exfalso. apply H. apply (allow_iff_contained_with isort isort_perm timeout). unfold tidy_rules in E. rewrite E. discriminate.
Qed.
