(* Proofs about model/CodecWireGuard.v: inverse laws of the two codecs, wrong lengths rejected,
   Match never panics, Match accepts exactly the two documented datagram shapes. *)
From Coq Require Import List NArith ZArith Bool Arith Lia.
From Coq.Strings Require Import Byte.
From L4.gen Require Import Consts.
From L4.model Require Import GoBase CodecBase CodecWireGuard.
From L4.proofs Require Import GoBaseProofs CodecBaseProofs.
Import ListNotations.
Local Open Scope nat_scope.

(* the struct layout adds up to the declared message size (breaks if a constant changes) *)
Lemma wg_consts_ok : 4 + 4 + wg_eph_sz + wg_static_sz + wg_ts_sz + wg_mac_sz + wg_mac_sz = wg_init_total
  /\ wg_transport_hdr <= wg_transport_min /\ wg_transport_min < wg_init_total.
Proof. vm_compute. repeat split; lia. Qed.

Ltac rf H :=
  match type of H with
  | context [match read_full ?n ?p with _ => _ end] =>
      let a := fresh "a" in let r := fresh "r" in let E := fresh "E" in
      destruct (read_full n p) as [[a r]|] eqn:E; [apply read_full_some in E; destruct E as [? ?]; subst p|discriminate H]
  end.

Lemma two32_pow : two32 = (256 ^ N.of_nat 4)%N. Proof. reflexivity. Qed.
Lemma two64_pow : two64 = (256 ^ N.of_nat 8)%N. Proof. reflexivity. Qed.

Lemma init_read_spec b m r : init_read b = Some (m, r) -> b = init_to_bytes m ++ r /\ init_wf m.
Proof.
  unfold init_read. intro H. do 7 rf H. inversion H; subst; clear H.
  unfold init_to_bytes, init_wf. cbn [mi_type mi_sender mi_eph mi_static mi_ts mi_mac1 mi_mac2].
  split.
  - replace 4 with (length a) at 1 by assumption. rewrite N_to_le_le_N.
    replace 4 with (length a0) at 1 by assumption. rewrite N_to_le_le_N.
    rewrite <- !app_assoc. reflexivity.
  - repeat split; try assumption.
    + rewrite two32_pow. replace 4 with (length a) by assumption. apply le_N_lt.
    + rewrite two32_pow. replace 4 with (length a0) by assumption. apply le_N_lt.
Qed.

Lemma init_to_bytes_length m : init_wf m -> length (init_to_bytes m) = wg_init_total.
Proof.
  intros (_ & _ & H1 & H2 & H3 & H4 & H5). unfold init_to_bytes. rewrite !app_length, !N_to_le_length, H1, H2, H3, H4, H5.
  reflexivity.
Qed.

Lemma init_read_to_bytes m r : init_wf m -> init_read (init_to_bytes m ++ r) = Some (m, r).
Proof.
  intros (Ht & Hs & H1 & H2 & H3 & H4 & H5). unfold init_read, init_to_bytes. rewrite <- !app_assoc.
  rewrite read_full_exact by apply N_to_le_length.
  rewrite read_full_exact by apply N_to_le_length.
  rewrite read_full_exact by exact H1.
  rewrite read_full_exact by exact H2.
  rewrite read_full_exact by exact H3.
  rewrite read_full_exact by exact H4.
  rewrite read_full_exact by exact H5.
  rewrite !le_N_N_to_le by (rewrite <- two32_pow; assumption).
  destruct m; reflexivity.
Qed.

Lemma init_to_from b x : init_from_bytes b = Ok x -> init_to_bytes x = b.
Proof.
  unfold init_from_bytes. destruct (Nat.eqb_spec (length b) wg_init_total) as [Hl|Hl]; cbn [negb]; [|discriminate].
  destruct (init_read b) as [[m r]|] eqn:E; [|discriminate]. intro H; inversion H; subst m; clear H.
  apply init_read_spec in E. destruct E as [Hb Hwf]. pose proof (init_to_bytes_length x Hwf) as Hlen.
  subst b. rewrite app_length in Hl. destruct r; [symmetry; apply app_nil_r|cbn [length] in Hl; lia].
Qed.

Lemma init_from_to x : init_wf x -> init_from_bytes (init_to_bytes x) = Ok x.
Proof.
  intro Hwf. unfold init_from_bytes. rewrite (init_to_bytes_length x Hwf), Nat.eqb_refl. cbn [negb].
  rewrite <- (app_nil_r (init_to_bytes x)). rewrite init_read_to_bytes by exact Hwf. reflexivity.
Qed.

Lemma init_rejects_wrong_length b : length b <> wg_init_total -> init_from_bytes b = Err.
Proof. intro H. unfold init_from_bytes. apply Nat.eqb_neq in H. rewrite H. reflexivity. Qed.

Lemma init_from_bytes_wf b x : init_from_bytes b = Ok x -> init_wf x.
Proof.
  unfold init_from_bytes. destruct (negb (length b =? wg_init_total)); [discriminate|].
  destruct (init_read b) as [[m r]|] eqn:E; [|discriminate]. intro H; inversion H; subst. apply init_read_spec in E. tauto.
Qed.

Lemma init_no_panic b : init_from_bytes b <> RPanic.
Proof.
  unfold init_from_bytes. destruct (negb (length b =? wg_init_total)); [discriminate|].
  destruct (init_read b) as [[m r]|]; discriminate.
Qed.

(* ---- transport ---- *)
Lemma transport_to_from b x : transport_from_bytes b = Ok x -> transport_to_bytes x = b.
Proof.
  unfold transport_from_bytes. intro H. do 3 rf H. inversion H; subst; clear H.
  unfold transport_to_bytes. cbn [mt_type mt_receiver mt_counter mt_content].
  replace 4 with (length a) at 1 by assumption. rewrite N_to_le_le_N.
  replace 4 with (length a0) at 1 by assumption. rewrite N_to_le_le_N.
  replace 8 with (length a1) at 1 by assumption. rewrite N_to_le_le_N.
  reflexivity.
Qed.

Lemma transport_from_to x : transport_wf x -> transport_from_bytes (transport_to_bytes x) = Ok x.
Proof.
  intros (H1 & H2 & H3). unfold transport_from_bytes, transport_to_bytes.
  rewrite read_full_exact by apply N_to_le_length.
  rewrite read_full_exact by apply N_to_le_length.
  rewrite read_full_exact by apply N_to_le_length.
  rewrite !le_N_N_to_le by (rewrite <- ?two32_pow, <- ?two64_pow; assumption).
  destruct x; reflexivity.
Qed.

Lemma transport_rejects_wrong_length b : length b < wg_transport_hdr -> transport_from_bytes b = Err.
Proof.
  intro Hl. unfold transport_from_bytes, wg_transport_hdr in *.
  destruct (read_full 4 b) as [[t r1]|] eqn:E1; [|reflexivity]. apply read_full_length in E1.
  destruct (read_full 4 r1) as [[rc r2]|] eqn:E2; [|reflexivity]. apply read_full_length in E2.
  destruct (read_full 8 r2) as [[c r3]|] eqn:E3; [|reflexivity]. apply read_full_length in E3. lia.
Qed.

Lemma transport_accepts_valid_length b : wg_transport_hdr <= length b -> exists x, transport_from_bytes b = Ok x.
Proof.
  intro Hl. unfold transport_from_bytes, wg_transport_hdr in *.
  destruct (read_full 4 b) as [[t r1]|] eqn:E1; [|apply read_full_none in E1; lia]. apply read_full_length in E1.
  destruct (read_full 4 r1) as [[rc r2]|] eqn:E2; [|apply read_full_none in E2; lia]. apply read_full_length in E2.
  destruct (read_full 8 r2) as [[c r3]|] eqn:E3; [|apply read_full_none in E3; lia]. eexists. reflexivity.
Qed.

Lemma transport_no_panic b : transport_from_bytes b <> RPanic.
Proof.
  unfold transport_from_bytes.
  destruct (read_full 4 b) as [[t r1]|]; [|discriminate].
  destruct (read_full 4 r1) as [[rc r2]|]; [|discriminate].
  destruct (read_full 8 r2) as [[c r3]|]; discriminate.
Qed.

(* ---- Match ---- *)
Lemma slice_0_all s n : n <= length s -> slice s 0 n = Some (firstn n s).
Proof.
  intro H. unfold slice. cbn [Nat.leb andb skipn]. destruct (Nat.leb_spec n (length s)); [|lia].
  rewrite Nat.sub_0_r. reflexivity.
Qed.

Lemma wg_match_no_panic zero p : wg_match zero p <> Panic.
Proof.
  unfold wg_match. destruct (read_at_least (wg_init_total + 1) 1 p) as [[buf r]|]; [|discriminate].
  destruct (Nat.eqb_spec (length buf) wg_init_total) as [E|E].
  - rewrite slice_0_all by lia. pose proof (init_no_panic (firstn wg_init_total buf)).
    destruct (init_from_bytes (firstn wg_init_total buf)); try discriminate; [|congruence].
    destruct (Z.of_N (mi_type a) =? _)%Z; discriminate.
  - destruct (Nat.eqb_spec (length buf) wg_transport_min) as [E2|E2]; [|discriminate].
    rewrite slice_0_all by lia. pose proof (transport_no_panic (firstn wg_transport_min buf)).
    destruct (transport_from_bytes (firstn wg_transport_min buf)); try discriminate; [|congruence].
    destruct (Z.of_N (mt_type a) =? _)%Z; discriminate.
Qed.

Lemma wg_alloc_bounded p : (wg_alloc p <= 2 * N.of_nat (wg_init_total + 1))%N.
Proof. unfold wg_alloc. lia. Qed.

(* reference: the wire definition of the two datagrams the matcher is documented to accept *)
Definition wg_type_field (b : list byte) : N := le_N (firstn 4 b).
Definition wg_ref (zero : Z) (b : list byte) : Prop :=
  (length b = wg_init_total /\ Z.of_N (wg_type_field b) = wg_expected_type zero l4wireguard_MessageTypeInitiation) \/
  (length b = wg_transport_min /\ Z.of_N (wg_type_field b) = wg_expected_type zero l4wireguard_MessageTypeTransport).

Lemma read_at_least_all cap p : 1 <= length p -> read_at_least cap 1 p = Some (firstn cap p, skipn cap p).
Proof. intro H. unfold read_at_least. destruct (Nat.ltb_spec (length p) 1); [lia|reflexivity]. Qed.

Lemma init_type_field b x : init_from_bytes b = Ok x -> mi_type x = wg_type_field b.
Proof.
  unfold init_from_bytes. destruct (negb (length b =? wg_init_total)); [discriminate|].
  destruct (init_read b) as [[m r]|] eqn:E; [|discriminate]. intro H; inversion H; subst m; clear H.
  unfold init_read in E. do 7 rf E. inversion E; subst; clear E. cbn [mi_type]. unfold wg_type_field.
  rewrite firstn_app_le by lia. replace 4 with (length a) by assumption. rewrite firstn_all. reflexivity.
Qed.

Lemma init_accepts_length b : length b = wg_init_total -> exists x, init_from_bytes b = Ok x.
Proof.
  intro Hl. unfold init_from_bytes. rewrite Hl, Nat.eqb_refl. cbn [negb]. unfold init_read.
  pose proof wg_consts_ok as (Hc & _).
  destruct (read_full 4 b) as [[t r1]|] eqn:E1; [|apply read_full_none in E1; lia]. apply read_full_length in E1.
  destruct (read_full 4 r1) as [[s r2]|] eqn:E2; [|apply read_full_none in E2; lia]. apply read_full_length in E2.
  destruct (read_full wg_eph_sz r2) as [[e r3]|] eqn:E3; [|apply read_full_none in E3; lia]. apply read_full_length in E3.
  destruct (read_full wg_static_sz r3) as [[st r4]|] eqn:E4; [|apply read_full_none in E4; lia]. apply read_full_length in E4.
  destruct (read_full wg_ts_sz r4) as [[ts r5]|] eqn:E5; [|apply read_full_none in E5; lia]. apply read_full_length in E5.
  destruct (read_full wg_mac_sz r5) as [[m1 r6]|] eqn:E6; [|apply read_full_none in E6; lia]. apply read_full_length in E6.
  destruct (read_full wg_mac_sz r6) as [[m2 r7]|] eqn:E7; [|apply read_full_none in E7; lia].
  eexists. reflexivity.
Qed.

Lemma transport_type_field b x : transport_from_bytes b = Ok x -> mt_type x = wg_type_field b.
Proof.
  unfold transport_from_bytes. intro H. do 3 rf H. inversion H; subst; clear H. cbn [mt_type]. unfold wg_type_field.
  rewrite firstn_app_le by lia. replace 4 with (length a) by assumption. rewrite firstn_all. reflexivity.
Qed.

Lemma wg_match_iff_ref zero b : wg_match zero b = Yes <-> wg_ref zero b.
Proof.
  pose proof wg_consts_ok as (Hc & Hc2 & Hc3).
  unfold wg_match, wg_ref. destruct b as [|b0 b'] eqn:Eb.
  - cbn [read_at_least length Nat.ltb Nat.leb]. split; [discriminate|]. intros [[H _]|[H _]]; cbn in H; vm_compute in H; discriminate.
  - rewrite <- Eb. assert (Hl : 1 <= length b) by (subst b; cbn; lia). rewrite read_at_least_all by exact Hl.
    rewrite firstn_length. clear Eb.
    destruct (Nat.eqb_spec (Nat.min (wg_init_total + 1) (length b)) wg_init_total) as [E|E].
    + assert (Hlb : length b = wg_init_total) by lia.
      rewrite slice_0_all by (rewrite firstn_length; lia).
      replace (firstn wg_init_total (firstn (wg_init_total + 1) b)) with b
        by (rewrite firstn_firstn, Nat.min_l by lia; rewrite <- Hlb; symmetry; apply firstn_all).
      destruct (init_accepts_length b Hlb) as [x Hx]. rewrite Hx. rewrite (init_type_field b x Hx).
      destruct (Z.eqb_spec (Z.of_N (wg_type_field b)) (wg_expected_type zero l4wireguard_MessageTypeInitiation)) as [Et|Et].
      * split; [intros _; left; tauto|reflexivity].
      * split; [discriminate|]. intros [[_ H]|[H _]]; [contradiction|lia].
    + destruct (Nat.eqb_spec (Nat.min (wg_init_total + 1) (length b)) wg_transport_min) as [E2|E2].
      * assert (Hlb : length b = wg_transport_min) by lia.
        rewrite slice_0_all by (rewrite firstn_length; lia).
        replace (firstn wg_transport_min (firstn (wg_init_total + 1) b)) with b
          by (rewrite firstn_firstn, Nat.min_l by lia; rewrite <- Hlb; symmetry; apply firstn_all).
        destruct (transport_accepts_valid_length b) as [x Hx]; [lia|]. rewrite Hx. rewrite (transport_type_field b x Hx).
        destruct (Z.eqb_spec (Z.of_N (wg_type_field b)) (wg_expected_type zero l4wireguard_MessageTypeTransport)) as [Et|Et].
        -- split; [intros _; right; tauto|reflexivity].
        -- split; [discriminate|]. intros [[H _]|[_ H]]; [lia|contradiction].
      * split; [discriminate|]. intros [[H _]|[H _]]; lia.
Qed.

Lemma wg_alloc_bounded16 p : (wg_alloc p <= 16 * Z.to_N layer4_MaxMatchingBytes)%N.
Proof.
  pose proof (wg_alloc_bounded p) as H. change (N.of_nat (wg_init_total + 1)) with 149%N in H.
  change (16 * Z.to_N layer4_MaxMatchingBytes)%N with 131072%N. lia.
Qed.
